import OmplModel.Proofs.CopyArchive
import OmplModel.Proofs.CopyState

/-!
The recursive `copyStateData(destS, dest, sourceS, source)` (model: `csd`).

G1  complete characterisation of the result code (`csd_none`, `csd_some`, `csd_code`).
G2  the state part (`csd_state`): exactly the common subspaces change, to the source's values.
-/

namespace OmplModel.Copy

/-! ## nodes of the genuine-compound tree -/

mutual
/-- the nodes reachable through genuine compound nodes (the space itself included; a wrapper is opaque) -/
def nodes : Sp → List Sp
  | .compound nm cs => .compound nm cs :: nodesL cs
  | .real nm n => [.real nm n]
  | .so2 nm => [.so2 nm]
  | .so3 nm => [.so3 nm]
  | .time nm => [.time nm]
  | .discrete nm => [.discrete nm]
  | .wrapper nm s => [.wrapper nm s]
def nodesL : List Sp → List Sp
  | [] => []
  | c :: cs => nodes c ++ nodesL cs
end

theorem mem_nodesL (y : Sp) (cs : List Sp) : y ∈ nodesL cs ↔ ∃ c ∈ cs, y ∈ nodes c := by
  induction cs with
  | nil => simp [nodesL]
  | cons c cs ih => simp [nodesL, ih]

theorem self_mem_nodes (S : Sp) : S ∈ nodes S := by cases S <;> simp [nodes]

theorem mem_nodes_iff (S y : Sp) :
    y ∈ nodes S ↔ y = S ∨ ∃ c ∈ S.children.getD [], y ∈ nodes c := by
  cases S <;> simp [nodes, Sp.children, mem_nodesL]

theorem nodes_noncomp (S : Sp) (h : S.children = none) : nodes S = [S] := by
  cases S <;> simp [Sp.children] at h <;> simp [nodes]

mutual
theorem names_eq_map : ∀ (D : Sp), names D = (nodes D).map Sp.name
  | .compound nm cs => by simp [names, nodes, Sp.name, namesL_eq_map cs]
  | .real .. => by simp [names, nodes, Sp.name]
  | .so2 .. => by simp [names, nodes, Sp.name]
  | .so3 .. => by simp [names, nodes, Sp.name]
  | .time .. => by simp [names, nodes, Sp.name]
  | .discrete .. => by simp [names, nodes, Sp.name]
  | .wrapper .. => by simp [names, nodes, Sp.name]
theorem namesL_eq_map : ∀ (cs : List Sp), namesL cs = (nodesL cs).map Sp.name
  | [] => by simp [namesL, nodesL]
  | c :: cs => by simp [namesL, nodesL, names_eq_map c, namesL_eq_map cs]
end

theorem mem_names_nodes (D : Sp) (n : Nat) : n ∈ names D ↔ ∃ x ∈ nodes D, x.name = n := by
  rw [names_eq_map]; simp

theorem mem_namesL_nodes (cs : List Sp) (n : Nat) : n ∈ namesL cs ↔ ∃ x ∈ nodesL cs, x.name = n := by
  rw [namesL_eq_map]; simp

/-! ## G1: the result code -/

/-- some node of `S` (through genuine compounds, `S` included) is named like a node of `D`, or is an empty
compound -/
def touched (D S : Sp) : Prop := ∃ y ∈ nodes S, y.name ∈ names D ∨ y.children = some []

/-- the part of a block's specification that the "`≠ NO_DATA_COPIED`" analysis needs -/
def BlkNone (blk : Sp → St → St → St × CopyRes × Bool) (Q : St → Prop) (B' : Sp → Prop) : Prop :=
  ∀ S s d, Q d → skel S s = true → (((blk S s d).2.1 ≠ .none ∨ (blk S s d).2.2 = true) ↔ B' S)

theorem csdS_noncomp (dn : Nat) (cp : St → St → St) (blk : Sp → St → St → St × CopyRes × Bool)
    (S : Sp) (s d : St) (h : S.children = none) :
    csdS dn cp blk S s d = csdHead dn cp blk S s d (fun d1 res1 => (d1, res1)) := by
  cases S <;> simp [Sp.children] at h <;> simp [csdS]

theorem csdHead_none (dn : Nat) (cp : St → St → St) (blk : Sp → St → St → St × CopyRes × Bool)
    (Q : St → Prop) (B : Sp → Prop) (B' : Sp → Prop) (hb : BlkSpec blk Q B) (hn : BlkNone blk Q B')
    (S : Sp) (s d : St) (k : St → CopyRes → St × CopyRes) (K : Prop)
    (hQ : Q d) (hs : skel S s = true)
    (hk : ∀ d1 r1, Q d1 → ((k d1 r1).2 ≠ .none ↔ r1 ≠ .none ∨ K)) :
    (csdHead dn cp blk S s d k).2 ≠ .none ↔ dn = S.name ∨ B' S ∨ K := by
  unfold csdHead
  by_cases h1 : dn = S.name
  · simp [h1]
  · simp only [h1, if_false, false_or]
    have hp := hb.pres S s d hQ hs
    have hnn := hn S s d hQ hs
    by_cases h2 : (blk S s d).2.2 = true
    · have : B' S := hnn.mp (Or.inr h2)
      simp [h2, this]
    · simp only [h2, Bool.false_eq_true, or_false] at hnn
      simp only [h2, Bool.false_eq_true, if_false]
      rw [hk _ _ hp, hnn]

mutual
theorem csdS_none (dn : Nat) (cp : St → St → St) (blk : Sp → St → St → St × CopyRes × Bool)
    (Q : St → Prop) (B : Sp → Prop) (B' : Sp → Prop) (hcp : ∀ d s, Q d → Q (cp d s))
    (hb : BlkSpec blk Q B) (hn : BlkNone blk Q B') :
    ∀ (S : Sp) (s d : St), Q d → skel S s = true →
      ((csdS dn cp blk S s d).2 ≠ .none ↔
        ∃ y ∈ nodes S, dn = y.name ∨ B' y ∨ y.children = some [])
  | .compound nm scs, s, d, hQ, hs => by
    unfold csdS
    rw [csdHead_none dn cp blk Q B B' hb hn _ s d _
      (scs = [] ∨ ∃ y ∈ nodesL scs, dn = y.name ∨ B' y ∨ y.children = some []) hQ hs]
    · simp only [nodes, List.mem_cons, exists_eq_or_imp, Sp.children, Option.some.injEq]
      constructor
      · rintro (h | h | h | h)
        · exact Or.inl (Or.inl h)
        · exact Or.inl (Or.inr (Or.inl h))
        · exact Or.inl (Or.inr (Or.inr h))
        · exact Or.inr h
      · rintro ((h | h | h) | h)
        · exact Or.inl h
        · exact Or.inr (Or.inl h)
        · exact Or.inr (Or.inr (Or.inl h))
        · exact Or.inr (Or.inr (Or.inr h))
    · intro d1 r1 hQ1
      cases s with
      | comp ss =>
        simp only [skel] at hs
        have h := csdSL_none dn cp blk Q B B' hcp hb hn scs ss d1 hQ1 hs
        simp only [St.children]
        rw [← h.1]
        by_cases hc : (csdSL dn cp blk scs ss d1).2.1 = scs.length
        · simp only [hc, if_true, ne_eq, reduceCtorEq, not_false_eq_true, true_iff]
          by_cases he : scs = []
          · exact Or.inr (Or.inl he)
          · have : 0 < scs.length := List.length_pos_iff.mpr he
            exact Or.inr (Or.inr (h.2.1 (by omega)))
        · have he : scs ≠ [] := by
            intro he; subst he; apply hc; exact h.2.2 rfl
          simp only [hc, if_false, he, false_or]
          by_cases hfl : (csdSL dn cp blk scs ss d1).2.2 = true <;> simp [hfl]
      | _ => simp [skel] at hs
  | .real nm n, s, d, hQ, hs => by
    rw [csdS_noncomp _ _ _ _ _ _ rfl,
      csdHead_none dn cp blk Q B B' hb hn _ s d _ False hQ hs (by intro d1 r1 _; simp)]
    simp [nodes, Sp.children]
  | .so2 nm, s, d, hQ, hs => by
    rw [csdS_noncomp _ _ _ _ _ _ rfl,
      csdHead_none dn cp blk Q B B' hb hn _ s d _ False hQ hs (by intro d1 r1 _; simp)]
    simp [nodes, Sp.children]
  | .so3 nm, s, d, hQ, hs => by
    rw [csdS_noncomp _ _ _ _ _ _ rfl,
      csdHead_none dn cp blk Q B B' hb hn _ s d _ False hQ hs (by intro d1 r1 _; simp)]
    simp [nodes, Sp.children]
  | .time nm, s, d, hQ, hs => by
    rw [csdS_noncomp _ _ _ _ _ _ rfl,
      csdHead_none dn cp blk Q B B' hb hn _ s d _ False hQ hs (by intro d1 r1 _; simp)]
    simp [nodes, Sp.children]
  | .discrete nm, s, d, hQ, hs => by
    rw [csdS_noncomp _ _ _ _ _ _ rfl,
      csdHead_none dn cp blk Q B B' hb hn _ s d _ False hQ hs (by intro d1 r1 _; simp)]
    simp [nodes, Sp.children]
  | .wrapper nm w, s, d, hQ, hs => by
    rw [csdS_noncomp _ _ _ _ _ _ rfl,
      csdHead_none dn cp blk Q B B' hb hn _ s d _ False hQ hs (by intro d1 r1 _; simp)]
    simp [nodes, Sp.children]
theorem csdSL_none (dn : Nat) (cp : St → St → St) (blk : Sp → St → St → St × CopyRes × Bool)
    (Q : St → Prop) (B : Sp → Prop) (B' : Sp → Prop) (hcp : ∀ d s, Q d → Q (cp d s))
    (hb : BlkSpec blk Q B) (hn : BlkNone blk Q B') :
    ∀ (scs : List Sp) (ss : List St) (d : St), Q d → skelL scs ss = true →
      ((csdSL dn cp blk scs ss d).2.2 = true ↔
          ∃ y ∈ nodesL scs, dn = y.name ∨ B' y ∨ y.children = some []) ∧
        (0 < (csdSL dn cp blk scs ss d).2.1 → (csdSL dn cp blk scs ss d).2.2 = true) ∧
        (scs = [] → (csdSL dn cp blk scs ss d).2.1 = 0)
  | [], ss, d, hQ, hs => by
    unfold csdSL; simp [nodesL]
  | c :: cs, [], d, hQ, hs => by simp [skelL] at hs
  | c :: cs, s :: ss, d, hQ, hs => by
    simp only [skelL, Bool.and_eq_true] at hs
    have h0 := csdS_spec dn cp blk Q B hcp hb c s d hQ hs.1
    have h1 := csdS_none dn cp blk Q B B' hcp hb hn c s d hQ hs.1
    have h2 := csdSL_none dn cp blk Q B B' hcp hb hn cs ss (csdS dn cp blk c s d).1 h0.1 hs.2
    unfold csdSL
    simp only [nodesL, List.mem_append, or_and_right, exists_or, Bool.or_eq_true, bne_iff_ne]
    refine ⟨?_, ?_, by simp⟩
    · rw [h1, h2.1]
    · intro hpos
      by_cases hc : (csdS dn cp blk c s d).2 = .all
      · left; rw [hc]; simp
      · simp only [hc, if_false, Nat.zero_add] at hpos
        exact Or.inr (h2.2.1 hpos)
end

mutual
theorem nodes_trans : ∀ (S y z : Sp), y ∈ nodes S → z ∈ nodes y → z ∈ nodes S
  | .compound nm cs, y, z, hy, hz => by
    simp only [nodes, List.mem_cons] at hy ⊢
    rcases hy with rfl | hy
    · simpa [nodes] using hz
    · exact Or.inr (nodesL_trans cs y z hy hz)
  | .real .., y, z, hy, hz => by simp only [nodes, List.mem_singleton] at hy; subst hy; exact hz
  | .so2 .., y, z, hy, hz => by simp only [nodes, List.mem_singleton] at hy; subst hy; exact hz
  | .so3 .., y, z, hy, hz => by simp only [nodes, List.mem_singleton] at hy; subst hy; exact hz
  | .time .., y, z, hy, hz => by simp only [nodes, List.mem_singleton] at hy; subst hy; exact hz
  | .discrete .., y, z, hy, hz => by simp only [nodes, List.mem_singleton] at hy; subst hy; exact hz
  | .wrapper .., y, z, hy, hz => by simp only [nodes, List.mem_singleton] at hy; subst hy; exact hz
theorem nodesL_trans : ∀ (cs : List Sp) (y z : Sp), y ∈ nodesL cs → z ∈ nodes y → z ∈ nodesL cs
  | [], y, z, hy, hz => by simp [nodesL] at hy
  | c :: cs, y, z, hy, hz => by
    simp only [nodesL, List.mem_append] at hy ⊢
    rcases hy with hy | hy
    · exact Or.inl (nodes_trans c y z hy hz)
    · exact Or.inr (nodesL_trans cs y z hy hz)
end

/-- some component of the (genuine compound) destination is touched by the source -/
def BT (D S : Sp) : Prop := ∃ c ∈ D.children.getD [], touched c S

theorem touched_bridge (D S : Sp) :
    (∃ y ∈ nodes S, D.name = y.name ∨ BT D y ∨ y.children = some []) ↔ touched D S := by
  constructor
  · rintro ⟨y, hy, h | ⟨c, hc, y', hy', h⟩ | h⟩
    · exact ⟨y, hy, Or.inl (by rw [← h]; exact name_mem_names D)⟩
    · refine ⟨y', nodes_trans S y y' hy hy', ?_⟩
      rcases h with h | h
      · exact Or.inl ((mem_names_iff D _).mpr (Or.inr ⟨c, hc, h⟩))
      · exact Or.inr h
    · exact ⟨y, hy, Or.inr h⟩
  · rintro ⟨y, hy, h | h⟩
    · refine ⟨y, hy, ?_⟩
      rcases (mem_names_iff D _).mp h with h | ⟨c, hc, hn⟩
      · exact Or.inl h.symm
      · exact Or.inr (Or.inl ⟨c, hc, y, self_mem_nodes y, Or.inl hn⟩)
    · exact ⟨y, hy, Or.inr (Or.inr h)⟩

mutual
theorem csdBlk_none : ∀ (D : Sp), BlkNone (csdBlk D) (fun d => skel D d = true) (BT D)
  | .compound nm dcs => by
    intro S s d hQ hs
    cases d with
    | comp ds =>
      simp only [skel] at hQ
      simp only [csdBlk, St.children, BT, Sp.children, Option.getD_some]
      split
      · next i hi =>
        obtain ⟨c, hc, hn⟩ := findChild_some _ _ _ _ hi
        simp only [or_true, true_iff]
        exact ⟨c, hc, S, self_mem_nodes S, Or.inl (by rw [← hn]; exact name_mem_names c)⟩
      · exact csdDL_none dcs S s ds hQ hs
    | _ => simp [skel] at hQ
  | .real .. => by intro S s d _ _; simp [csdBlk, BT, Sp.children]
  | .so2 .. => by intro S s d _ _; simp [csdBlk, BT, Sp.children]
  | .so3 .. => by intro S s d _ _; simp [csdBlk, BT, Sp.children]
  | .time .. => by intro S s d _ _; simp [csdBlk, BT, Sp.children]
  | .discrete .. => by intro S s d _ _; simp [csdBlk, BT, Sp.children]
  | .wrapper .. => by intro S s d _ _; simp [csdBlk, BT, Sp.children]
theorem csdDL_none : ∀ (dcs : List Sp) (S : Sp) (s : St) (ds : List St),
    skelL dcs ds = true → skel S s = true →
      (((csdDL dcs S s ds).2.1 ≠ .none ∨ (csdDL dcs S s ds).2.2 = true) ↔ ∃ c ∈ dcs, touched c S)
  | [], S, s, ds, hd, hs => by
    unfold csdDL; simp
  | c :: cs, S, s, [], hd, hs => by simp [skelL] at hd
  | c :: cs, S, s, d :: ds, hd, hs => by
    simp only [skelL, Bool.and_eq_true] at hd
    have h1 := csdS_none c.name (copyState c) (csdBlk c) (fun d => skel c d = true) (BD c) (BT c)
      (fun d s h => skel_copyState c d s h) (csdBlk_spec c) (csdBlk_none c) S s d hd.1 hs
    rw [touched_bridge] at h1
    have h2 := csdDL_none cs S s ds hd.2 hs
    unfold csdDL
    simp only [List.mem_cons, exists_eq_or_imp]
    rw [← h1, ← h2]
    by_cases hall : (csdS c.name (copyState c) (csdBlk c) S s d).2 = .all
    · simp [hall]
    · simp only [hall, if_false]
      by_cases hne : (csdS c.name (copyState c) (csdBlk c) S s d).2 = .none
      · simp [hne]
      · simp [hne]
end

/-- G1: nothing is reported as copied iff no node of the source is named like a node of the destination and
the source has no empty compound node -/
theorem csd_none (D : Sp) (d : St) (S : Sp) (s : St) (hd : skel D d = true) (hs : skel S s = true) :
    (csd D d S s).2 = .none ↔ ¬ touched D S := by
  unfold csd
  rw [← touched_bridge,
    ← csdS_none D.name (copyState D) (csdBlk D) (fun d => skel D d = true) (BD D) (BT D)
      (fun d s h => skel_copyState D d s h) (csdBlk_spec D) (csdBlk_none D) S s d hd hs]
  simp

/-- `ALL` is never `NONE`, seen on the spaces alone -/
theorem covered_touched (D S : Sp) (h : covered D S) : touched D S := by
  have hd := skel_of_fits D _ (fits_alloc D)
  have hs := skel_of_fits S _ (fits_alloc S)
  have h1 := (csd_all D _ S _ hd hs).mpr h
  have h2 := csd_none D _ S _ hd hs
  rw [h1] at h2
  simpa using h2

theorem csd_some (D : Sp) (d : St) (S : Sp) (s : St) (hd : skel D d = true) (hs : skel S s = true) :
    (csd D d S s).2 = .some ↔ touched D S ∧ ¬ covered D S := by
  have h1 := csd_all D d S s hd hs
  have h2 := csd_none D d S s hd hs
  cases hr : (csd D d S s).2 <;> rw [hr] at h1 h2 <;> simp at h1 h2 ⊢
  · intro ht; exact absurd ht h2
  · exact ⟨h2, h1⟩
  · intro _; exact h1

open Classical in
/-- G1, packaged: the result code of the recursive `copyStateData` -/
theorem csd_code_skel (D : Sp) (d : St) (S : Sp) (s : St) (hd : skel D d = true) (hs : skel S s = true) :
    (csd D d S s).2 = if covered D S then .all else if touched D S then .some else .none := by
  by_cases hc : covered D S
  · simp [hc, (csd_all D d S s hd hs).mpr hc]
  · by_cases ht : touched D S
    · simp [hc, ht, (csd_some D d S s hd hs).mpr ⟨ht, hc⟩]
    · simp [hc, ht, (csd_none D d S s hd hs).mpr ht]

open Classical in
theorem csd_code (D : Sp) (d : St) (S : Sp) (s : St) (hd : fits D d = true) (hs : fits S s = true) :
    (csd D d S s).2 = if covered D S then .all else if touched D S then .some else .none :=
  csd_code_skel D d S s (skel_of_fits D d hd) (skel_of_fits S s hs)

theorem csd_none_fits (D : Sp) (d : St) (S : Sp) (s : St) (hd : fits D d = true) (hs : fits S s = true) :
    (csd D d S s).2 = .none ↔ ¬ touched D S :=
  csd_none D d S s (skel_of_fits D d hd) (skel_of_fits S s hs)

theorem csd_some_fits (D : Sp) (d : St) (S : Sp) (s : St) (hd : fits D d = true) (hs : fits S s = true) :
    (csd D d S s).2 = .some ↔ touched D S ∧ ¬ covered D S :=
  csd_some D d S s (skel_of_fits D d hd) (skel_of_fits S s hs)

/-! ## G2: the state part -/

/-! ### one-level induction over the genuine-compound tree -/

mutual
theorem Sp.ind_aux {P : Sp → Prop} (h : ∀ S, (∀ c ∈ S.children.getD [], P c) → P S) : ∀ S, P S
  | .compound n cs => h _ (by simpa [Sp.children] using Sp.ind_auxL h cs)
  | .real .. => h _ (by simp [Sp.children])
  | .so2 .. => h _ (by simp [Sp.children])
  | .so3 .. => h _ (by simp [Sp.children])
  | .time .. => h _ (by simp [Sp.children])
  | .discrete .. => h _ (by simp [Sp.children])
  | .wrapper .. => h _ (by simp [Sp.children])
theorem Sp.ind_auxL {P : Sp → Prop} (h : ∀ S, (∀ c ∈ S.children.getD [], P c) → P S) :
    ∀ (cs : List Sp), ∀ c ∈ cs, P c
  | [] => by simp
  | c :: cs => by
    intro x hx
    rcases List.mem_cons.mp hx with hx | hx
    · rw [hx]; exact Sp.ind_aux h c
    · exact Sp.ind_auxL h cs x hx
end

/-- induction over the genuine-compound tree: all components first -/
theorem Sp.ind {P : Sp → Prop} (h : ∀ S, (∀ c ∈ S.children.getD [], P c) → P S) (S : Sp) : P S :=
  Sp.ind_aux h S

theorem children_some {S : Sp} {cs : List Sp} (h : S.children = some cs) : ∃ n, S = .compound n cs := by
  cases S <;> simp [Sp.children] at h
  subst h; exact ⟨_, rfl⟩

/-! ### definitions -/

mutual
/-- the substate of `s` at the first node of `S` named `nm` (through genuine compounds) -/
def findState : Sp → St → Nat → Option St
  | .compound n cs, st, nm => if n = nm then some st else findStateL cs st.children nm
  | .real n _, st, nm => if n = nm then some st else none
  | .so2 n, st, nm => if n = nm then some st else none
  | .so3 n, st, nm => if n = nm then some st else none
  | .time n, st, nm => if n = nm then some st else none
  | .discrete n, st, nm => if n = nm then some st else none
  | .wrapper n _, st, nm => if n = nm then some st else none
def findStateL : List Sp → List St → Nat → Option St
  | c :: cs, s :: ss, nm => (findState c s nm).or (findStateL cs ss nm)
  | _, _, _ => none
end

mutual
/-- the specification of `copyStateData`'s effect, top-down over the destination: a destination node that is
named like a node of the source takes the source's substate; any other node is descended into (genuine
compound) or left alone -/
def specCsd (S : Sp) (s : St) : Sp → St → St
  | .compound n cs, d =>
    (findState S s n).getD (match d with
      | .comp ds => .comp (specCsdL S s cs ds)
      | d => d)
  | .real n _, d => (findState S s n).getD d
  | .so2 n, d => (findState S s n).getD d
  | .so3 n, d => (findState S s n).getD d
  | .time n, d => (findState S s n).getD d
  | .discrete n, d => (findState S s n).getD d
  | .wrapper n _, d => (findState S s n).getD d
def specCsdL (S : Sp) (s : St) : List Sp → List St → List St
  | c :: cs, d :: ds => specCsd S s c d :: specCsdL S s cs ds
  | _, ds => ds
end

/-- every name occurs once in the space tree (walking genuine compounds only) -/
def NodupNames (D : Sp) : Prop := (names D).Nodup

instance (D : Sp) : Decidable (NodupNames D) := inferInstanceAs (Decidable (names D).Nodup)

/-- same-named nodes of the two space trees are the same space -/
def Coherent (D S : Sp) : Prop := ∀ x ∈ nodes D, ∀ y ∈ nodes S, x.name = y.name → x = y

/-- the source substates found inside `c` (state `sc`) are those found inside `S` (state `s`) -/
def Agree (c : Sp) (sc : St) (S : Sp) (s : St) : Prop :=
  ∀ nm ∈ names c, findState c sc nm = findState S s nm

def AgreeL (cs : List Sp) (ss : List St) (S : Sp) (s : St) : Prop :=
  ∀ nm ∈ namesL cs, findStateL cs ss nm = findState S s nm

/-- all fitting states are equal (no non-compound node below) -/
def Rigid (y : Sp) : Prop := ∀ t e, fits y t = true → fits y e = true → t = e

/-! ### shape lemmas -/

theorem fits_compound {n : Nat} {cs : List Sp} {d : St} (h : fits (.compound n cs) d = true) :
    ∃ ds, d = .comp ds ∧ fitsL cs ds = true := by
  cases d <;> simp [fits] at h
  exact ⟨_, rfl, h⟩

theorem fitsL_cons {c : Sp} {cs : List Sp} {ds : List St} (h : fitsL (c :: cs) ds = true) :
    ∃ d0 ds', ds = d0 :: ds' ∧ fits c d0 = true ∧ fitsL cs ds' = true := by
  cases ds with
  | nil => simp [fitsL] at h
  | cons d0 ds' =>
    simp only [fitsL, Bool.and_eq_true] at h
    exact ⟨d0, ds', rfl, h.1, h.2⟩

theorem fitsL_nil {ds : List St} (h : fitsL [] ds = true) : ds = [] := by
  cases ds <;> simp [fitsL] at h ⊢

theorem names_noncomp (S : Sp) (h : S.children = none) : names S = [S.name] := by
  cases S <;> simp [Sp.children] at h <;> simp [names, Sp.name]

theorem nodup_compound (n : Nat) (cs : List Sp) :
    NodupNames (.compound n cs) ↔ n ∉ namesL cs ∧ (namesL cs).Nodup := by
  simp [NodupNames, names]

theorem nodupL_cons (c : Sp) (cs : List Sp) :
    (namesL (c :: cs)).Nodup ↔
      (names c).Nodup ∧ (namesL cs).Nodup ∧ ∀ a ∈ names c, a ∉ namesL cs := by
  simp only [namesL, List.nodup_append]
  constructor
  · rintro ⟨h1, h2, h3⟩; exact ⟨h1, h2, fun a ha hb => h3 a ha a hb rfl⟩
  · rintro ⟨h1, h2, h3⟩; exact ⟨h1, h2, fun a ha b hb hab => h3 a ha (hab ▸ hb)⟩

theorem names_sub_of_mem_nodes (S y : Sp) (hy : y ∈ nodes S) : ∀ nm ∈ names y, nm ∈ names S := by
  intro nm hnm
  obtain ⟨z, hz, hzn⟩ := (mem_names_nodes y nm).mp hnm
  exact (mem_names_nodes S nm).mpr ⟨z, nodes_trans S y z hy hz, hzn⟩

theorem child_mem_nodes {n : Nat} {cs : List Sp} {c : Sp} (hc : c ∈ cs) : c ∈ nodes (.compound n cs) := by
  rw [mem_nodes_iff]; exact Or.inr ⟨c, by simpa [Sp.children] using hc, self_mem_nodes c⟩

theorem names_child_sub {cs : List Sp} {c : Sp} (hc : c ∈ cs) : ∀ nm ∈ names c, nm ∈ namesL cs := by
  intro nm hnm; exact (mem_namesL nm cs).mpr ⟨c, hc, hnm⟩

theorem nodupL_mem {cs : List Sp} {c : Sp} (hc : c ∈ cs) (h : (namesL cs).Nodup) : (names c).Nodup := by
  induction cs with
  | nil => simp at hc
  | cons c0 cs ih =>
    rw [nodupL_cons] at h
    rcases List.mem_cons.mp hc with hc | hc
    · rw [hc]; exact h.1
    · exact ih hc h.2.1

theorem nodup_of_mem_nodes (y : Sp) : ∀ (S : Sp), y ∈ nodes S → NodupNames S → NodupNames y := by
  intro S
  induction S using Sp.ind with
  | h S ih =>
    intro hy hS
    rcases (mem_nodes_iff S y).mp hy with rfl | ⟨c, hc, hyc⟩
    · exact hS
    · cases hch : S.children with
      | none => simp [hch] at hc
      | some cs =>
        obtain ⟨n, rfl⟩ := children_some hch
        simp only [Sp.children, Option.getD_some] at hc ih
        exact ih c hc hyc (nodupL_mem hc ((nodup_compound n cs).mp hS).2)

theorem Coherent.left {D S c : Sp} (h : Coherent D S) (hc : c ∈ nodes D) : Coherent c S :=
  fun x hx y hy hn => h x (nodes_trans D c x hc hx) y hy hn

theorem Coherent.right {D S c : Sp} (h : Coherent D S) (hc : c ∈ nodes S) : Coherent D c :=
  fun x hx y hy hn => h x hx y (nodes_trans S c y hc hy) hn

/-! ### `findState` -/

theorem findState_self (S : Sp) (s : St) : findState S s S.name = some s := by
  cases S <;> simp [findState, Sp.name]

theorem findState_noncomp (S : Sp) (s : St) (nm : Nat) (h : S.children = none) :
    findState S s nm = if S.name = nm then some s else none := by
  cases S <;> first | (simp [Sp.children] at h; done) | (simp only [findState, Sp.name]; split <;> simp_all)

theorem findState_notin (nm : Nat) : ∀ (S : Sp) (s : St), nm ∉ names S → findState S s nm = none := by
  intro S
  induction S using Sp.ind with
  | h S ih =>
    intro s hn
    cases hch : S.children with
    | none =>
      rw [findState_noncomp S s nm hch]
      rw [names_noncomp S hch] at hn
      simp at hn
      simp [Ne.symm hn]
    | some cs =>
      obtain ⟨n, rfl⟩ := children_some hch
      simp only [Sp.children, Option.getD_some] at ih
      simp only [names, List.mem_cons, not_or] at hn
      simp only [findState, Ne.symm hn.1, if_false]
      have : ∀ (cs' : List Sp) (ss : List St), (∀ c ∈ cs', c ∈ cs) → findStateL cs' ss nm = none := by
        intro cs'
        induction cs' with
        | nil => intro ss _; simp [findStateL]
        | cons c cs' ihl =>
          intro ss hsub
          cases ss with
          | nil => simp [findStateL]
          | cons s0 ss =>
            simp only [findStateL]
            have hc : c ∈ cs := hsub c (by simp)
            rw [ih c hc s0 (fun h => hn.2 (names_child_sub hc nm h)),
              ihl ss (fun c' hc' => hsub c' (by simp [hc']))]
            rfl
      exact this cs _ (fun _ h => h)

theorem findStateL_notin (nm : Nat) : ∀ (cs : List Sp) (ss : List St), nm ∉ namesL cs →
    findStateL cs ss nm = none
  | [], ss, _ => by simp [findStateL]
  | c :: cs, [], _ => by simp [findStateL]
  | c :: cs, s :: ss, h => by
    simp only [namesL, List.mem_append, not_or] at h
    simp [findStateL, findState_notin nm c s h.1, findStateL_notin nm cs ss h.2]

theorem findState_mem_names {S : Sp} {s : St} {nm : Nat} {t : St} (h : findState S s nm = some t) :
    nm ∈ names S := by
  apply Classical.byContradiction
  intro hn
  rw [findState_notin nm S s hn] at h
  cases h

/-- what is found is the state of a node with that name -/
theorem findState_fits (nm : Nat) (t : St) : ∀ (S : Sp) (s : St), fits S s = true →
    findState S s nm = some t → ∃ y ∈ nodes S, y.name = nm ∧ fits y t = true := by
  intro S
  induction S using Sp.ind with
  | h S ih =>
    intro s hf h
    by_cases hn : S.name = nm
    · rw [← hn, findState_self] at h
      cases h
      exact ⟨S, self_mem_nodes S, hn, hf⟩
    · cases hch : S.children with
      | none => simp [findState_noncomp S s nm hch, hn] at h
      | some cs =>
        obtain ⟨n, rfl⟩ := children_some hch
        simp only [Sp.children, Option.getD_some] at ih
        simp only [Sp.name] at hn
        obtain ⟨ss, rfl, hfl⟩ := fits_compound hf
        simp only [findState, hn, if_false, St.children] at h
        have : ∀ (cs' : List Sp) (ss : List St), (∀ c ∈ cs', c ∈ cs) → fitsL cs' ss = true →
            findStateL cs' ss nm = some t → ∃ c ∈ cs', ∃ y ∈ nodes c, y.name = nm ∧ fits y t = true := by
          intro cs'
          induction cs' with
          | nil => intro ss _ _ h; simp [findStateL] at h
          | cons c cs' ihl =>
            intro ss hsub hfl h
            obtain ⟨s0, ss', rfl, hf0, hfl'⟩ := fitsL_cons hfl
            simp only [findStateL, Option.or_eq_some_iff] at h
            rcases h with h | ⟨_, h⟩
            · obtain ⟨y, hy, hyn, hyf⟩ := ih c (hsub c (by simp)) s0 hf0 h
              exact ⟨c, by simp, y, hy, hyn, hyf⟩
            · obtain ⟨c', hc', r⟩ := ihl ss' (fun c' hc' => hsub c' (by simp [hc'])) hfl' h
              exact ⟨c', by simp [hc'], r⟩
        obtain ⟨c, hc, y, hy, hyn, hyf⟩ := this cs ss (fun _ h => h) hfl h
        exact ⟨y, nodes_trans _ c y (child_mem_nodes hc) hy, hyn, hyf⟩

/-- under coherence, what the source holds under the destination node's name fits the destination node -/
theorem findState_fits_coh {D S : Sp} {s t : St} (hc : Coherent D S) (hs : fits S s = true)
    (h : findState S s D.name = some t) : D ∈ nodes S ∧ fits D t = true := by
  obtain ⟨y, hy, hyn, hyf⟩ := findState_fits D.name t S s hs h
  have : D = y := hc D (self_mem_nodes D) y hy hyn.symm
  subst this
  exact ⟨hy, hyf⟩

/-! ### `Agree`: a substate of the source holds the same values as the source -/

theorem agreeL_cons {c : Sp} {cs : List Sp} {sc : St} {ss : List St} {S : Sp} {s : St}
    (hn : (namesL (c :: cs)).Nodup) (hA : AgreeL (c :: cs) (sc :: ss) S s) :
    Agree c sc S s ∧ AgreeL cs ss S s := by
  rw [nodupL_cons] at hn
  constructor
  · intro nm hnm
    have := hA nm (by simp [namesL, hnm])
    simp only [findStateL] at this
    rwa [findStateL_notin nm cs ss (hn.2.2 nm hnm), Option.or_none] at this
  · intro nm hnm
    have hnc : nm ∉ names c := fun hc => hn.2.2 nm hc hnm
    have := hA nm (by simp [namesL, hnm])
    simpa only [findStateL, findState_notin nm c sc hnc, Option.none_or] using this

theorem agree_children {n : Nat} {cs : List Sp} (ss : List St) (hn : NodupNames (.compound n cs)) :
    AgreeL cs ss (.compound n cs) (.comp ss) := by
  intro nm hnm
  have : n ≠ nm := fun h => ((nodup_compound n cs).mp hn).1 (h ▸ hnm)
  simp [findState, this, St.children]

theorem childAgree {S : Sp} {s : St} {c : Sp} : ∀ (cs : List Sp) (ss : List St), (namesL cs).Nodup →
    fitsL cs ss = true → AgreeL cs ss S s → c ∈ cs → ∃ sc, fits c sc = true ∧ Agree c sc S s
  | [], _, _, _, _, hc => by simp at hc
  | c0 :: cs, ss, hn, hf, hA, hc => by
    obtain ⟨s0, ss', rfl, hf0, hfl⟩ := fitsL_cons hf
    have h := agreeL_cons hn hA
    rcases List.mem_cons.mp hc with hc | hc
    · rw [hc]; exact ⟨s0, hf0, h.1⟩
    · exact childAgree cs ss' ((nodupL_cons c0 cs).mp hn).2.1 hfl h.2 hc

/-- with unique names, looking a name up below a node `y` of `S` can start at `y` -/
theorem findState_sub (y : Sp) (t : St) : ∀ (S : Sp) (s : St), NodupNames S → fits S s = true →
    y ∈ nodes S → findState S s y.name = some t → Agree y t S s := by
  intro S
  induction S using Sp.ind with
  | h S ih =>
    intro s hn hf hy h
    rcases (mem_nodes_iff S y).mp hy with rfl | ⟨c, hc, hyc⟩
    · rw [findState_self] at h
      cases h
      exact fun _ _ => rfl
    · cases hch : S.children with
      | none => simp [hch] at hc
      | some cs =>
        obtain ⟨n, rfl⟩ := children_some hch
        simp only [Sp.children, Option.getD_some] at hc ih
        obtain ⟨ss, rfl, hfl⟩ := fits_compound hf
        obtain ⟨sc, hfc, hA⟩ := childAgree cs ss ((nodup_compound n cs).mp hn).2 hfl
          (agree_children ss hn) hc
        have hync : y.name ∈ names c := names_sub_of_mem_nodes c y hyc _ (name_mem_names y)
        have h1 : findState c sc y.name = some t := by rw [hA _ hync]; exact h
        have h2 := ih c hc sc (nodupL_mem hc ((nodup_compound n cs).mp hn).2) hfc hyc h1
        intro nm hnm
        rw [h2 nm hnm]
        exact hA nm (names_sub_of_mem_nodes c y hyc nm hnm)

/-! ### `specCsd` -/

theorem specCsd_some {S : Sp} {s : St} {D : Sp} {t : St} (d : St) (h : findState S s D.name = some t) :
    specCsd S s D d = t := by
  cases D <;> simp only [Sp.name] at h <;> simp [specCsd, h]

theorem specCsd_noncomp (S : Sp) (s : St) (D : Sp) (d : St) (h : D.children = none) :
    specCsd S s D d = (findState S s D.name).getD d := by
  cases D <;> first | (simp [Sp.children] at h; done) | simp only [specCsd, Sp.name]

theorem specCsd_compound_none {S : Sp} {s : St} {n : Nat} (cs : List Sp) (ds : List St)
    (h : findState S s n = none) :
    specCsd S s (.compound n cs) (.comp ds) = .comp (specCsdL S s cs ds) := by
  simp [specCsd, h]

theorem specCsdL_agree {S : Sp} {s : St} : ∀ (cs : List Sp) (ts ds : List St), (namesL cs).Nodup →
    AgreeL cs ts S s → fitsL cs ts = true → fitsL cs ds = true → specCsdL S s cs ds = ts
  | [], ts, ds, _, _, ht, hd => by
    rw [fitsL_nil ht, fitsL_nil hd]; simp [specCsdL]
  | c :: cs, ts, ds, hn, hA, ht, hd => by
    obtain ⟨t0, ts', rfl, _, htl⟩ := fitsL_cons ht
    obtain ⟨d0, ds', rfl, _, hdl⟩ := fitsL_cons hd
    have h := agreeL_cons hn hA
    have h0 : findState S s c.name = some t0 := by
      rw [← h.1 c.name (name_mem_names c), findState_self]
    simp only [specCsdL]
    rw [specCsd_some d0 h0, specCsdL_agree cs ts' ds' ((nodupL_cons c cs).mp hn).2.1 h.2 htl hdl]

/-- under coherence the top-down specification can always descend: a destination compound that is a node of
the source receives, as a whole, what its components receive one by one -/
theorem specCsd_comp {S : Sp} {s : St} {n : Nat} {cs : List Sp} {ds : List St} (hn : NodupNames S)
    (hs : fits S s = true) (hc : Coherent (.compound n cs) S) (hd : fitsL cs ds = true) :
    specCsd S s (.compound n cs) (.comp ds) = .comp (specCsdL S s cs ds) := by
  cases h : findState S s n with
  | none => exact specCsd_compound_none cs ds h
  | some t =>
    have h' : findState S s (Sp.compound n cs).name = some t := h
    obtain ⟨hmem, hft⟩ := findState_fits_coh hc hs h'
    obtain ⟨ts, rfl, htl⟩ := fits_compound hft
    rw [specCsd_some _ h']
    have hA := findState_sub _ _ S s hn hs hmem h'
    have hnD := nodup_of_mem_nodes _ S hmem hn
    have hAL : AgreeL cs ts S s := by
      intro nm hnm
      rw [agree_children ts hnD nm hnm]
      exact hA nm (by simp [names, hnm])
    rw [specCsdL_agree cs ts ds ((nodup_compound n cs).mp hnD).2 hAL htl hd]

theorem fitsL_specCsdL (S : Sp) (s : St) : ∀ (cs : List Sp) (ds : List St),
    (∀ c ∈ cs, ∀ d, fits c d = true → fits c (specCsd S s c d) = true) → fitsL cs ds = true →
    fitsL cs (specCsdL S s cs ds) = true
  | [], ds, _, h => by rw [fitsL_nil h]; simp [specCsdL, fitsL]
  | c :: cs, ds, ih, h => by
    obtain ⟨d0, ds', rfl, h0, hl⟩ := fitsL_cons h
    simp only [specCsdL, fitsL, Bool.and_eq_true]
    exact ⟨ih c (by simp) d0 h0, fitsL_specCsdL S s cs ds' (fun c' hc' => ih c' (by simp [hc'])) hl⟩

/-- the specified result is a state of the destination space -/
theorem fits_specCsd {S : Sp} {s : St} (hs : fits S s = true) : ∀ (D : Sp) (d : St), Coherent D S →
    fits D d = true → fits D (specCsd S s D d) = true := by
  intro D
  induction D using Sp.ind with
  | h D ih =>
    intro d hc hd
    cases h : findState S s D.name with
    | some t => rw [specCsd_some d h]; exact (findState_fits_coh hc hs h).2
    | none =>
      cases hch : D.children with
      | none => rw [specCsd_noncomp S s D d hch, h]; exact hd
      | some cs =>
        obtain ⟨n, rfl⟩ := children_some hch
        simp only [Sp.children, Option.getD_some] at ih
        obtain ⟨ds, rfl, hdl⟩ := fits_compound hd
        rw [specCsd_compound_none (n := n) cs ds h]
        simp only [fits]
        exact fitsL_specCsdL S s cs ds
          (fun c hc' d hf => ih c hc' d (hc.left (child_mem_nodes hc')) hf) hdl

theorem specCsdL_idemL (S : Sp) (s : St) (c : Sp) (sc : St) : ∀ (cs : List Sp) (ds : List St),
    (∀ c' ∈ cs, ∀ d, fits c' d = true → specCsd c sc c' (specCsd S s c' d) = specCsd S s c' d) →
    fitsL cs ds = true → specCsdL c sc cs (specCsdL S s cs ds) = specCsdL S s cs ds
  | [], ds, _, h => by rw [fitsL_nil h]; simp [specCsdL]
  | c0 :: cs, ds, ih, h => by
    obtain ⟨d0, ds', rfl, h0, hl⟩ := fitsL_cons h
    simp only [specCsdL]
    rw [ih c0 (by simp) d0 h0, specCsdL_idemL S s c sc cs ds' (fun c' hc' => ih c' (by simp [hc'])) hl]

/-- applying a piece of the source after the whole source changes nothing -/
theorem specCsd_idem {S : Sp} {s : St} {c : Sp} {sc : St} (hn : NodupNames S) (hs : fits S s = true)
    (hA : Agree c sc S s) : ∀ (D : Sp) (d : St), Coherent D S → fits D d = true →
    specCsd c sc D (specCsd S s D d) = specCsd S s D d := by
  intro D
  induction D using Sp.ind with
  | h D ih =>
    intro d hc hd
    cases h : findState c sc D.name with
    | some t =>
      have h2 : findState S s D.name = some t := by rw [← hA _ (findState_mem_names h)]; exact h
      rw [specCsd_some _ h, specCsd_some _ h2]
    | none =>
      cases hch : D.children with
      | none => rw [specCsd_noncomp c sc D _ hch, h]; rfl
      | some cs =>
        obtain ⟨n, rfl⟩ := children_some hch
        simp only [Sp.children, Option.getD_some] at ih
        obtain ⟨ds, rfl, hdl⟩ := fits_compound hd
        rw [specCsd_comp hn hs hc hdl, specCsd_compound_none (n := n) cs _ h]
        rw [specCsdL_idemL S s c sc cs ds
          (fun c' hc' d hf => ih c' hc' d (hc.left (child_mem_nodes hc')) hf) hdl]

theorem specCsdL_untouchedL (S : Sp) (s : St) : ∀ (cs : List Sp) (es : List St),
    (∀ c ∈ cs, ∀ e, fits c e = true → specCsd S s c e = e) → fitsL cs es = true →
    specCsdL S s cs es = es
  | [], es, _, h => by rw [fitsL_nil h]; simp [specCsdL]
  | c0 :: cs, es, ih, h => by
    obtain ⟨e0, es', rfl, h0, hl⟩ := fitsL_cons h
    simp only [specCsdL]
    rw [ih c0 (by simp) e0 h0, specCsdL_untouchedL S s cs es' (fun c' hc' => ih c' (by simp [hc'])) hl]

/-- a destination subtree whose only nodes named like source nodes carry no data is left alone -/
theorem specCsd_untouched {S : Sp} {s : St} (hs : fits S s = true) : ∀ (c : Sp) (e : St), Coherent c S →
    fits c e = true → (∀ y ∈ nodes c, y.name ∈ names S → Rigid y) → specCsd S s c e = e := by
  intro c
  induction c using Sp.ind with
  | h c ih =>
    intro e hc he hr
    cases h : findState S s c.name with
    | some t =>
      rw [specCsd_some e h]
      exact hr c (self_mem_nodes c) (findState_mem_names h) t e (findState_fits_coh hc hs h).2 he
    | none =>
      cases hch : c.children with
      | none => rw [specCsd_noncomp S s c e hch, h]; rfl
      | some cs =>
        obtain ⟨n, rfl⟩ := children_some hch
        simp only [Sp.children, Option.getD_some] at ih
        obtain ⟨es, rfl, hel⟩ := fits_compound he
        rw [specCsd_compound_none (n := n) cs es h]
        rw [specCsdL_untouchedL S s cs es
          (fun c' hc' e hf => ih c' hc' e (hc.left (child_mem_nodes hc')) hf
            (fun y hy => hr y (nodes_trans _ c' y (child_mem_nodes hc') hy))) hel]

/-! ### what an early `ALL_DATA_COPIED` leaves behind -/

theorem cov_noncomp (P : Sp → Prop) (y : Sp) (h : y.children = none) : cov P y ↔ P y := by
  cases y <;> first | (simp [Sp.children] at h; done) | simp only [cov]

theorem covL_iff (P : Sp → Prop) : ∀ (cs : List Sp), covL P cs ↔ ∀ c ∈ cs, cov P c
  | [] => by simp [covL]
  | c :: cs => by simp [covL, covL_iff P cs]

theorem rigidL : ∀ (cs : List Sp) (ts es : List St), (∀ c ∈ cs, Rigid c) → fitsL cs ts = true →
    fitsL cs es = true → ts = es
  | [], ts, es, _, ht, he => by rw [fitsL_nil ht, fitsL_nil he]
  | c :: cs, ts, es, hr, ht, he => by
    obtain ⟨t0, ts', rfl, ht0, htl⟩ := fitsL_cons ht
    obtain ⟨e0, es', rfl, he0, hel⟩ := fitsL_cons he
    rw [hr c (by simp) t0 e0 ht0 he0, rigidL cs ts' es' (fun c' hc' => hr c' (by simp [hc'])) htl hel]

/-- a space covered by `D'` without sharing a name with it has no data (only compounds, at last empty ones) -/
theorem rigid_of_covered (D' : Sp) : ∀ (y : Sp), covered D' y → (∀ nm ∈ names y, nm ∉ names D') →
    Rigid y := by
  intro y
  induction y using Sp.ind with
  | h y ih =>
    intro hcov hdis
    have hny : y.name ∉ names D' := hdis _ (name_mem_names y)
    cases hch : y.children with
    | none => exact absurd ((cov_noncomp _ y hch).mp hcov) hny
    | some cs =>
      obtain ⟨n, rfl⟩ := children_some hch
      simp only [Sp.children, Option.getD_some] at ih
      simp only [covered, cov] at hcov
      rcases hcov with hcov | hcov
      · exact absurd hcov hny
      · rw [covL_iff] at hcov
        intro t e ht he
        obtain ⟨ts, rfl, htl⟩ := fits_compound ht
        obtain ⟨es, rfl, hel⟩ := fits_compound he
        rw [rigidL cs ts es (fun c hc => ih c hc (hcov c hc)
          (fun nm hnm => hdis nm (by simp [names, names_child_sub hc nm hnm]))) htl hel]

/-- under coherence, every node of a covered source is covered -/
theorem covered_sub (D' y : Sp) : ∀ (S : Sp), covered D' S → Coherent D' S → y ∈ nodes S →
    covered D' y := by
  intro S
  induction S using Sp.ind with
  | h S ih =>
    intro hcov hc hy
    rcases (mem_nodes_iff S y).mp hy with rfl | ⟨c, hcc, hyc⟩
    · exact hcov
    · cases hch : S.children with
      | none => simp [hch] at hcc
      | some cs =>
        obtain ⟨n, rfl⟩ := children_some hch
        simp only [Sp.children, Option.getD_some] at hcc ih
        simp only [covered, cov] at hcov
        rcases hcov with hcov | hcov
        · obtain ⟨x, hx, hxn⟩ := (mem_names_nodes D' _).mp hcov
          have : x = .compound n cs := hc x hx _ (self_mem_nodes _) hxn
          subst this
          apply cov_of
          exact names_sub_of_mem_nodes D' y (nodes_trans D' _ y hx hy) _ (name_mem_names y)
        · rw [covL_iff] at hcov
          exact ih c hcc (hcov c hcc) (hc.right (child_mem_nodes hcc)) hyc

/-! ### the source recursion (`csdS`/`csdSL`) against an abstract "if destS is compound" block -/

/-- what the source recursion needs to know about the destination's block: a non-compound destination has
none; a compound destination's block already realises the whole specification -/
def BlkState (D : Sp) (blk : Sp → St → St → St × CopyRes × Bool) : Prop :=
  ∀ S s d, NodupNames S → Coherent D S → fits S s = true → fits D d = true →
    (D.children = none → (blk S s d).1 = d ∧ (blk S s d).2.2 = false) ∧
    (D.children ≠ none → (blk S s d).1 = specCsd S s D d)

theorem csdS_same (dn : Nat) (cp : St → St → St) (blk : Sp → St → St → St × CopyRes × Bool)
    (S : Sp) (s d : St) (h : dn = S.name) : csdS dn cp blk S s d = (cp d s, .all) := by
  cases S <;> simp only [Sp.name] at h <;> simp [csdS, csdHead, Sp.name, h]

/-- the loop over the source's components, compound destination: everything is in place already -/
theorem csdSL_state_comp (dn : Nat) (cp : St → St → St) (blk : Sp → St → St → St × CopyRes × Bool)
    (S : Sp) (s X : St) : ∀ (scs : List Sp) (ss : List St),
    (∀ c ∈ scs, ∀ sc, fits c sc = true → Agree c sc S s → (csdS dn cp blk c sc X).1 = X) →
    (namesL scs).Nodup → AgreeL scs ss S s → fitsL scs ss = true →
    (csdSL dn cp blk scs ss X).1 = X
  | [], ss, _, _, _, _ => by simp [csdSL]
  | c :: cs, ss, ih, hn, hA, hf => by
    obtain ⟨sc, ss', rfl, hfc, hfl⟩ := fitsL_cons hf
    have h := agreeL_cons hn hA
    simp only [csdSL]
    rw [ih c (by simp) sc hfc h.1]
    exact csdSL_state_comp dn cp blk S s X cs ss' (fun c' hc' => ih c' (by simp [hc']))
      ((nodupL_cons c cs).mp hn).2.1 h.2 hfl

/-- the loop over the source's components, non-compound destination: the one component that has a node
named like the destination delivers its value -/
theorem csdSL_state_leaf (dn : Nat) (cp : St → St → St) (blk : Sp → St → St → St × CopyRes × Bool)
    (Q : St → Prop) : ∀ (scs : List Sp) (ss : List St) (d : St),
    (∀ c ∈ scs, ∀ sc d, fits c sc = true → Q d →
      (csdS dn cp blk c sc d).1 = (findState c sc dn).getD d ∧ Q ((findState c sc dn).getD d)) →
    (namesL scs).Nodup → fitsL scs ss = true → Q d →
    (csdSL dn cp blk scs ss d).1 = (findStateL scs ss dn).getD d
  | [], ss, d, _, _, _, _ => by simp [csdSL, findStateL]
  | c :: cs, ss, d, ih, hn, hf, hQ => by
    obtain ⟨sc, ss', rfl, hfc, hfl⟩ := fitsL_cons hf
    have h := ih c (by simp) sc d hfc hQ
    simp only [csdSL, findStateL]
    rw [h.1, csdSL_state_leaf dn cp blk Q cs ss' _ (fun c' hc' => ih c' (by simp [hc']))
      ((nodupL_cons c cs).mp hn).2.1 hfl h.2]
    cases hfs : findState c sc dn with
    | none => simp
    | some t =>
      have : dn ∉ namesL cs := ((nodupL_cons c cs).mp hn).2.2 dn (findState_mem_names hfs)
      simp [findStateL_notin dn cs ss' this]

theorem csdS_state (D : Sp) (blk : Sp → St → St → St × CopyRes × Bool) (hb : BlkState D blk) :
    ∀ (S : Sp) (s d : St), NodupNames S → Coherent D S → fits S s = true → fits D d = true →
      (csdS D.name (copyState D) blk S s d).1 = specCsd S s D d := by
  intro S
  induction S using Sp.ind with
  | h S ih =>
    intro s d hn hc hs hd
    by_cases h1 : D.name = S.name
    · have : D = S := hc D (self_mem_nodes D) S (self_mem_nodes S) h1
      subst this
      rw [csdS_same _ _ _ _ _ _ rfl, specCsd_some d (findState_self D s)]
      exact copy_equal D d s hs hd
    · have hb' := hb S s d hn hc hs hd
      cases hch : S.children with
      | none =>
        rw [csdS_noncomp _ _ _ _ _ _ hch]
        simp only [csdHead, h1, if_false]
        have : (blk S s d).1 = specCsd S s D d := by
          cases hD : D.children with
          | none =>
            rw [(hb'.1 hD).1, specCsd_noncomp S s D d hD, findState_noncomp S s _ hch]
            simp [Ne.symm h1]
          | some dcs => exact hb'.2 (by simp [hD])
        split <;> exact this
      | some scs =>
        obtain ⟨n, rfl⟩ := children_some hch
        simp only [Sp.children, Option.getD_some] at ih
        obtain ⟨ss, rfl, hfl⟩ := fits_compound hs
        have hnl := ((nodup_compound n scs).mp hn).2
        simp only [csdS, csdHead, h1, if_false, St.children]
        cases hD : D.children with
        | none =>
          have hb1 := hb'.1 hD
          simp only [hb1.2, Bool.false_eq_true, if_false, hb1.1]
          rw [csdSL_state_leaf D.name (copyState D) blk (fun d => fits D d = true) scs ss d ?_ hnl hfl hd]
          · rw [specCsd_noncomp _ _ D d hD]
            have h1' : ¬ n = D.name := fun h => h1 h.symm
            simp [findState, h1', St.children]
          · intro c hcm sc d' hfc hd'
            have hcc : Coherent D c := hc.right (child_mem_nodes hcm)
            have := ih c hcm sc d' (nodupL_mem hcm hnl) hcc hfc hd'
            rw [specCsd_noncomp _ _ D d' hD] at this
            refine ⟨this, ?_⟩
            have h2 := fits_specCsd hfc D d' hcc hd'
            rwa [specCsd_noncomp _ _ D d' hD] at h2
        | some dcs =>
          have hb2 := hb'.2 (by simp [hD])
          have hX := fits_specCsd hs D d hc hd
          rw [hb2]
          split
          · rfl
          · exact csdSL_state_comp D.name (copyState D) blk _ (.comp ss) _ scs ss
              (fun c hcm sc hfc hA => by
                rw [ih c hcm sc _ (nodupL_mem hcm hnl) (hc.right (child_mem_nodes hcm)) hfc hX]
                exact specCsd_idem hn hs hA D d hc hd)
              hnl (agree_children ss hn) hfl

/-! ### the destination recursion (`csdBlk`/`csdDL`) -/

theorem csdBlk_noncomp (D : Sp) (h : D.children = none) :
    csdBlk D = fun _ _ dest => (dest, .none, false) := by
  cases D <;> first | (simp [Sp.children] at h; done) | simp only [csdBlk]

/-- a child named like the source is found: it alone changes, to the source's value -/
theorem findChild_state {S : Sp} {s : St} (hs : fits S s = true) : ∀ (dcs : List Sp) (ds : List St)
    (k j : Nat), findChild dcs S.name k = some j → (namesL dcs).Nodup → (∀ c ∈ dcs, Coherent c S) →
    fitsL dcs ds = true →
    k ≤ j ∧ ds.set (j - k) (copyState (dcs.getD (j - k) default) (ds.getD (j - k) default) s) =
      specCsdL S s dcs ds := by
  intro dcs
  induction dcs with
  | nil => intro ds k j h; simp [findChild] at h
  | cons c cs ihl =>
    intro ds k j h hn hc hf
    obtain ⟨d0, ds', rfl, hf0, hfl⟩ := fitsL_cons hf
    have hnn := (nodupL_cons c cs).mp hn
    simp only [findChild] at h
    by_cases hcn : c.name = S.name
    · simp only [hcn, if_true, Option.some.injEq] at h
      subst h
      have : c = S := hc c (by simp) c (self_mem_nodes c) S (self_mem_nodes S) hcn
      subst this
      simp only [Nat.le_refl, Nat.sub_self, List.getD_cons_zero, List.set_cons_zero, specCsdL, true_and]
      rw [copy_equal c d0 s hs hf0, specCsd_some d0 (findState_self c s)]
      rw [specCsdL_untouchedL c s cs ds' (fun c' hc' e he =>
        specCsd_untouched hs c' e (hc c' (by simp [hc'])) he (fun y hy hyn => by
          exfalso
          exact hnn.2.2 _ hyn (names_child_sub hc' _
            (names_sub_of_mem_nodes c' y hy _ (name_mem_names y))))) hfl]
    · simp only [hcn, if_false] at h
      obtain ⟨hle, heq⟩ := ihl ds' (k + 1) j h hnn.2.1 (fun c' hc' => hc c' (by simp [hc'])) hfl
      refine ⟨by omega, ?_⟩
      have hjk : j - k = (j - (k + 1)) + 1 := by omega
      rw [hjk]
      simp only [List.getD_cons_succ, List.set_cons_succ, specCsdL]
      rw [heq]
      obtain ⟨ci, hci, hcin⟩ := findChild_some _ _ _ _ h
      have : ci = S := hc ci (by simp [hci]) ci (self_mem_nodes ci) S (self_mem_nodes S) hcin
      subst this
      rw [specCsd_untouched hs c d0 (hc c (by simp)) hf0 (fun y hy hyn => by
        exfalso
        exact hnn.2.2 _ (names_sub_of_mem_nodes c y hy _ (name_mem_names y))
          (names_child_sub hci _ hyn))]

/-- the loop over the destination's components: each component realises the specification, and after an
early `ALL_DATA_COPIED` the remaining components hold nothing the source could change -/
theorem csdDL_state {S : Sp} {s : St} (hs : fits S s = true) : ∀ (dcs : List Sp) (ds : List St),
    (∀ c ∈ dcs, ∀ d, fits c d = true →
      (csdS c.name (copyState c) (csdBlk c) S s d).1 = specCsd S s c d) →
    (namesL dcs).Nodup → (∀ c ∈ dcs, Coherent c S) → fitsL dcs ds = true →
    (csdDL dcs S s ds).1 = specCsdL S s dcs ds := by
  intro dcs
  induction dcs with
  | nil => intro ds _ _ _ hf; rw [fitsL_nil hf]; simp [csdDL, specCsdL]
  | cons c cs ihl =>
    intro ds ih hn hc hf
    obtain ⟨d0, ds', rfl, hf0, hfl⟩ := fitsL_cons hf
    have hnn := (nodupL_cons c cs).mp hn
    have h0 := ih c (by simp) d0 hf0
    simp only [csdDL, specCsdL]
    by_cases hall : (csdS c.name (copyState c) (csdBlk c) S s d0).2 = .all
    · simp only [hall, if_true]
      rw [h0]
      have hcov : covered c S :=
        (csd_all c d0 S s (skel_of_fits c d0 hf0) (skel_of_fits S s hs)).mp hall
      rw [specCsdL_untouchedL S s cs ds' (fun c' hc' e he =>
        specCsd_untouched hs c' e (hc c' (by simp [hc'])) he (fun y hy hyn => by
          obtain ⟨y', hy', hyn'⟩ := (mem_names_nodes S _).mp hyn
          have : y = y' := hc c' (by simp [hc']) y hy y' hy' hyn'.symm
          subst this
          exact rigid_of_covered c y (covered_sub c y S hcov (hc c (by simp)) hy')
            (fun nm hnm hnc => hnn.2.2 nm hnc (names_child_sub hc' _
              (names_sub_of_mem_nodes c' y hy nm hnm))))) hfl]
    · simp only [hall, if_false]
      rw [h0, ihl ds' (fun c' hc' => ih c' (by simp [hc'])) hnn.2.1
        (fun c' hc' => hc c' (by simp [hc'])) hfl]

theorem csdBlk_state : ∀ (D : Sp), NodupNames D → BlkState D (csdBlk D) := by
  intro D
  induction D using Sp.ind with
  | h D ih =>
    intro hnD S s d hn hc hs hd
    cases hch : D.children with
    | none =>
      rw [csdBlk_noncomp D hch]
      simp
    | some dcs =>
      obtain ⟨n, rfl⟩ := children_some hch
      simp only [Sp.children, Option.getD_some] at ih
      refine ⟨fun h => by simp at h, fun _ => ?_⟩
      obtain ⟨ds, rfl, hdl⟩ := fits_compound hd
      have hnl := ((nodup_compound n dcs).mp hnD).2
      have hcc : ∀ c ∈ dcs, Coherent c S := fun c hcm => hc.left (child_mem_nodes hcm)
      rw [specCsd_comp hn hs hc hdl]
      simp only [csdBlk, St.children]
      split
      · next i hi =>
        have := (findChild_state hs dcs ds 0 i hi hnl hcc hdl).2
        simp only [Nat.sub_zero] at this
        rw [this]
      · simp only
        rw [csdDL_state hs dcs ds (fun c hcm d' hf' =>
          csdS_state c (csdBlk c) (ih c hcm (nodupL_mem hcm hnl)) S s d' hn (hcc c hcm) hs hf')
          hnl hcc hdl]

/-- G2 (`copyStateData_transfers_common`, the state part): with unique names in each space and same-named
subspaces being the same space, the recursive `copyStateData` changes exactly the destination nodes named
like a source node (found top-down), to the source's values, and nothing else -/
theorem csd_state (D : Sp) (d : St) (S : Sp) (s : St) (hnD : NodupNames D) (hnS : NodupNames S)
    (hc : Coherent D S) (hd : fits D d = true) (hs : fits S s = true) :
    (csd D d S s).1 = specCsd S s D d := by
  unfold csd
  exact csdS_state D (csdBlk D) (csdBlk_state D hnD) S s d hnS hc hs hd

/-- the result is a state of the destination space -/
theorem csd_fits (D : Sp) (d : St) (S : Sp) (s : St) (hnD : NodupNames D) (hnS : NodupNames S)
    (hc : Coherent D S) (hd : fits D d = true) (hs : fits S s = true) :
    fits D (csd D d S s).1 = true := by
  rw [csd_state D d S s hnD hnS hc hd hs]
  exact fits_specCsd hs D d hc hd

/-! ### the specification read node by node: common subspaces take the source's value, the rest is kept -/

theorem findStateL_isSome (nm : Nat) : ∀ (cs : List Sp) (ss : List St),
    (∀ c ∈ cs, ∀ sc, fits c sc = true → nm ∈ names c → ∃ t, findState c sc nm = some t) →
    fitsL cs ss = true → nm ∈ namesL cs → ∃ t, findStateL cs ss nm = some t
  | [], _, _, _, h => by simp [namesL] at h
  | c :: cs, ss, ih, hf, h => by
    obtain ⟨s0, ss', rfl, hf0, hfl⟩ := fitsL_cons hf
    simp only [findStateL]
    cases h0 : findState c s0 nm with
    | some t => exact ⟨t, by simp⟩
    | none =>
      simp only [namesL, List.mem_append] at h
      rcases h with h | h
      · obtain ⟨t, ht⟩ := ih c (by simp) s0 hf0 h
        rw [ht] at h0; cases h0
      · simpa using findStateL_isSome nm cs ss' (fun c' hc' => ih c' (by simp [hc'])) hfl h

theorem findState_isSome (nm : Nat) : ∀ (S : Sp) (s : St), fits S s = true → nm ∈ names S →
    ∃ t, findState S s nm = some t := by
  intro S
  induction S using Sp.ind with
  | h S ih =>
    intro s hf h
    by_cases hn : S.name = nm
    · exact ⟨s, by rw [← hn, findState_self]⟩
    · cases hch : S.children with
      | none => rw [names_noncomp S hch] at h; simp at h; exact absurd h.symm hn
      | some cs =>
        obtain ⟨n, rfl⟩ := children_some hch
        simp only [Sp.children, Option.getD_some] at ih
        obtain ⟨ss, rfl, hfl⟩ := fits_compound hf
        have hn' : ¬ n = nm := hn
        simp only [names, List.mem_cons] at h
        simp only [findState, hn', if_false, St.children]
        exact findStateL_isSome nm cs ss ih hfl (h.resolve_left (fun h => hn' h.symm))

theorem findStateL_specCsdL_common {S : Sp} {s : St} (hs : fits S s = true) (x : Sp)
    (hx : x.name ∈ names S) : ∀ (cs : List Sp) (ds : List St),
    (∀ c ∈ cs, ∀ d, fits c d = true → x ∈ nodes c →
      findState c (specCsd S s c d) x.name = findState S s x.name) →
    (namesL cs).Nodup → fitsL cs ds = true → x ∈ nodesL cs →
    findStateL cs (specCsdL S s cs ds) x.name = findState S s x.name
  | [], _, _, _, _, h => by simp [nodesL] at h
  | c :: cs, ds, ih, hn, hf, h => by
    obtain ⟨d0, ds', rfl, hf0, hfl⟩ := fitsL_cons hf
    have hnn := (nodupL_cons c cs).mp hn
    simp only [specCsdL, findStateL]
    simp only [nodesL, List.mem_append] at h
    rcases h with h | h
    · rw [ih c (by simp) d0 hf0 h]
      obtain ⟨t, ht⟩ := findState_isSome _ S s hs hx
      simp [ht]
    · have hxc : x.name ∉ names c := fun hc => hnn.2.2 _ hc
        ((mem_namesL_nodes cs _).mpr ⟨x, h, rfl⟩)
      rw [findState_notin _ c _ hxc, Option.none_or]
      exact findStateL_specCsdL_common hs x hx cs ds' (fun c' hc' => ih c' (by simp [hc'])) hnn.2.1 hfl h

/-- a destination node named like a source node ends up with the source's substate -/
theorem specCsd_common {S : Sp} {s : St} (hnS : NodupNames S) (hs : fits S s = true) (x : Sp)
    (hx : x.name ∈ names S) : ∀ (D : Sp) (d : St), NodupNames D → Coherent D S → fits D d = true →
    x ∈ nodes D → findState D (specCsd S s D d) x.name = findState S s x.name := by
  intro D
  induction D using Sp.ind with
  | h D ih =>
    intro d hnD hc hd hxD
    rcases (mem_nodes_iff D x).mp hxD with rfl | ⟨c, hcc, hxc⟩
    · obtain ⟨t, ht⟩ := findState_isSome _ S s hs hx
      rw [findState_self, specCsd_some d ht, ht]
    · cases hch : D.children with
      | none => simp [hch] at hcc
      | some cs =>
        obtain ⟨n, rfl⟩ := children_some hch
        simp only [Sp.children, Option.getD_some] at ih hcc
        obtain ⟨ds, rfl, hdl⟩ := fits_compound hd
        have hnn := (nodup_compound n cs).mp hnD
        have hxl : x ∈ nodesL cs := (mem_nodesL x cs).mpr ⟨c, hcc, hxc⟩
        have hne : ¬ n = x.name := fun h => hnn.1 (h ▸ (mem_namesL_nodes cs _).mpr ⟨x, hxl, rfl⟩)
        rw [specCsd_comp hnS hs hc hdl]
        simp only [findState, hne, if_false, St.children]
        exact findStateL_specCsdL_common hs x hx cs ds
          (fun c' hc' d' hf' hx' => ih c' hc' d' (nodupL_mem hc' hnn.2)
            (hc.left (child_mem_nodes hc')) hf' hx') hnn.2 hdl hxl

theorem findStateL_specCsdL_frame {S : Sp} {s : St} (x : Sp) : ∀ (cs : List Sp) (ds : List St),
    (∀ c ∈ cs, ∀ d, fits c d = true → x ∈ nodes c →
      findState c (specCsd S s c d) x.name = findState c d x.name) →
    (namesL cs).Nodup → fitsL cs ds = true → x ∈ nodesL cs →
    findStateL cs (specCsdL S s cs ds) x.name = findStateL cs ds x.name
  | [], _, _, _, _, h => by simp [nodesL] at h
  | c :: cs, ds, ih, hn, hf, h => by
    obtain ⟨d0, ds', rfl, hf0, hfl⟩ := fitsL_cons hf
    have hnn := (nodupL_cons c cs).mp hn
    simp only [specCsdL, findStateL]
    simp only [nodesL, List.mem_append] at h
    rcases h with h | h
    · have hxc : x.name ∉ namesL cs := hnn.2.2 _
        (names_sub_of_mem_nodes c x h _ (name_mem_names x))
      rw [ih c (by simp) d0 hf0 h, findStateL_notin _ cs _ hxc, findStateL_notin _ cs _ hxc]
    · have hxc : x.name ∉ names c := fun hc => hnn.2.2 _ hc
        ((mem_namesL_nodes cs _).mpr ⟨x, h, rfl⟩)
      rw [findState_notin _ c _ hxc, findState_notin _ c _ hxc, Option.none_or, Option.none_or]
      exact findStateL_specCsdL_frame x cs ds' (fun c' hc' => ih c' (by simp [hc'])) hnn.2.1 hfl h

/-- a destination node that shares no name with the source keeps its substate -/
theorem specCsd_frame {S : Sp} {s : St} (hnS : NodupNames S) (hs : fits S s = true) (x : Sp)
    (hx : ∀ nm ∈ names x, nm ∉ names S) : ∀ (D : Sp) (d : St), NodupNames D → Coherent D S →
    fits D d = true → x ∈ nodes D → findState D (specCsd S s D d) x.name = findState D d x.name := by
  intro D
  induction D using Sp.ind with
  | h D ih =>
    intro d hnD hc hd hxD
    rcases (mem_nodes_iff D x).mp hxD with rfl | ⟨c, hcc, hxc⟩
    · rw [specCsd_untouched hs x d hc hd (fun y hy hyn =>
        absurd hyn (hx _ (names_sub_of_mem_nodes x y hy _ (name_mem_names y))))]
    · cases hch : D.children with
      | none => simp [hch] at hcc
      | some cs =>
        obtain ⟨n, rfl⟩ := children_some hch
        simp only [Sp.children, Option.getD_some] at ih hcc
        obtain ⟨ds, rfl, hdl⟩ := fits_compound hd
        have hnn := (nodup_compound n cs).mp hnD
        have hxl : x ∈ nodesL cs := (mem_nodesL x cs).mpr ⟨c, hcc, hxc⟩
        have hne : ¬ n = x.name := fun h => hnn.1 (h ▸ (mem_namesL_nodes cs _).mpr ⟨x, hxl, rfl⟩)
        rw [specCsd_comp hnS hs hc hdl]
        simp only [findState, hne, if_false, St.children]
        exact findStateL_specCsdL_frame x cs ds
          (fun c' hc' d' hf' hx' => ih c' hc' d' (nodupL_mem hc' hnn.2)
            (hc.left (child_mem_nodes hc')) hf' hx') hnn.2 hdl hxl

/-- G2 read node by node (1): every destination node named like a source node holds the source's substate
after `copyStateData` -/
theorem csd_common (D : Sp) (d : St) (S : Sp) (s : St) (hnD : NodupNames D) (hnS : NodupNames S)
    (hc : Coherent D S) (hd : fits D d = true) (hs : fits S s = true) (x : Sp) (hxD : x ∈ nodes D)
    (hx : x.name ∈ names S) : findState D (csd D d S s).1 x.name = findState S s x.name := by
  rw [csd_state D d S s hnD hnS hc hd hs]
  exact specCsd_common hnS hs x hx D d hnD hc hd hxD

/-- G2 read node by node (2): every destination node that shares no name with the source keeps its substate -/
theorem csd_frame (D : Sp) (d : St) (S : Sp) (s : St) (hnD : NodupNames D) (hnS : NodupNames S)
    (hc : Coherent D S) (hd : fits D d = true) (hs : fits S s = true) (x : Sp) (hxD : x ∈ nodes D)
    (hx : ∀ nm ∈ names x, nm ∉ names S) : findState D (csd D d S s).1 x.name = findState D d x.name := by
  rw [csd_state D d S s hnD hnS hc hd hs]
  exact specCsd_frame hnS hs x hx D d hnD hc hd hxD

/-! ### the hypotheses of `csd_state` cannot be dropped (witnesses) -/

/-- two source components with one name: the code lets the last one win, the specification the first -/
theorem csd_state_needs_nodup_source :
    let D : Sp := .compound 0 [.real 3 1]
    let d : St := .comp [.leaf [.f64 1]]
    let S : Sp := .compound 9 [.real 3 1, .real 3 1]
    let s : St := .comp [.leaf [.f64 100], .leaf [.f64 200]]
    (fits D d = true ∧ fits S s = true ∧ NodupNames D ∧ Coherent D S) ∧
      (csd D d S s).1.get [0, 0] = some (.f64 200) ∧ (specCsd S s D d).get [0, 0] = some (.f64 100) := by
  refine ⟨⟨by decide, by decide, by decide, ?_⟩, by decide, by decide⟩
  intro x hx y hy h
  simp only [nodes, nodesL, List.append_nil, List.mem_cons, List.not_mem_nil, or_false,
    List.singleton_append] at hx hy
  rcases hx with rfl | rfl <;> rcases hy with rfl | rfl | rfl <;> first | rfl | (simp [Sp.name] at h)

/-- two destination components with one name: the code writes the first only, the specification both -/
theorem csd_state_needs_nodup_dest :
    let D : Sp := .compound 0 [.real 1 1, .real 1 1]
    let d : St := .comp [.leaf [.f64 1], .leaf [.f64 2]]
    let S : Sp := .real 1 1
    let s : St := .leaf [.f64 100]
    (fits D d = true ∧ fits S s = true ∧ NodupNames S ∧ Coherent D S) ∧
      (csd D d S s).1.get [1, 0] = some (.f64 2) ∧ (specCsd S s D d).get [1, 0] = some (.f64 100) := by
  refine ⟨⟨by decide, by decide, by decide, ?_⟩, by decide, by decide⟩
  intro x hx y hy h
  simp only [nodes, nodesL, List.append_nil, List.mem_cons, List.not_mem_nil, or_false,
    List.singleton_append] at hx hy
  rcases hx with rfl | rfl | rfl <;> rcases hy with rfl <;> first | rfl | (simp [Sp.name] at h)

/-- a destination leaf named like a source compound (names match, spaces differ): the code's `copyState` of
the mismatched pair writes nothing (and still reports `ALL_DATA_COPIED`), the specification would store the
source's compound value -/
theorem csd_state_needs_coherent :
    let D : Sp := .compound 0 [.real 1 1]
    let d : St := .comp [.leaf [.f64 1]]
    let S : Sp := .compound 9 [.compound 1 [.real 2 1]]
    let s : St := .comp [.comp [.leaf [.f64 100]]]
    (fits D d = true ∧ fits S s = true ∧ NodupNames D ∧ NodupNames S) ∧
      (csd D d S s).2 = .all ∧
      (csd D d S s).1.get [0, 0] = some (.f64 1) ∧ (specCsd S s D d).get [0, 0] = none := by
  refine ⟨⟨by decide, by decide, by decide, by decide⟩, by decide, by decide, by decide⟩

end OmplModel.Copy
