import OmplModel.Proofs.NNGnat
import Mathlib.Algebra.Order.Group.Multiset
import Mathlib.Data.Multiset.Filter
import Mathlib.Tactic.Abel
/-!
GNAT queries: the traversal (`searchInternal` = `nearestKInternal` / `nearestRInternal`) accounts for
every live stored copy of the tree.

The proof is one induction over the model's traversal code, generic in the collector `Coll`
(k-nearest / radius).  The loop invariant is `Acct`:

  every live stored copy of the tree is, as a multiset, exactly one of
  * in the answer queue `nbh`,
  * discarded (`disc`) — and `Good nbh disc` says the discarded ones are not needed
    (k-nearest: the queue is full and every discarded copy is at least as far as every queued one;
     radius: every discarded copy is farther than the radius),
  * still to be looked at (`todo`): below a node of the node queue, or behind a still-active entry
    of the permutation array of the node being visited.

Nothing is assumed about element ids (they need not be distinct): everything is multiset
bookkeeping, so "no stored copy is returned twice, none is lost" is part of the statement.
-/
set_option linter.unusedSectionVars false

namespace OmplModel.NN

variable {α D : Type}

/-! ### multisets of live stored copies -/

/-- everything stored below a node except its own pivot. -/
def restOf (n : Node α D) : List (Elem α) := n.data ++ elemsL n.children

theorem Node.elems_eq (n : Node α D) : n.elems = n.pivot :: restOf n := by
  cases n; rfl

theorem Node.count_eq (n : Node α D) : n.count = 1 + countL n.children := by
  cases n; rfl

/-- the non-removed copies of a list, as a multiset. -/
def liveM (removed : List Nat) (es : List (Elem α)) : Multiset (Elem α) :=
  ((liveOf removed es : List (Elem α)) : Multiset (Elem α))

@[simp] theorem liveM_nil (removed : List Nat) : liveM removed ([] : List (Elem α)) = 0 := rfl

theorem liveM_append (removed : List Nat) (a b : List (Elem α)) :
    liveM removed (a ++ b) = liveM removed a + liveM removed b := by
  simp [liveM, liveOf, List.filter_append]

theorem liveM_cons_live (removed : List Nat) (e : Elem α) (es : List (Elem α))
    (h : isRemoved removed e = false) : liveM removed (e :: es) = e ::ₘ liveM removed es := by
  simp [liveM, liveOf, h]

theorem liveM_cons_removed (removed : List Nat) (e : Elem α) (es : List (Elem α))
    (h : isRemoved removed e = true) : liveM removed (e :: es) = liveM removed es := by
  simp [liveM, liveOf, h]

theorem mem_of_mem_liveM {removed : List Nat} {es : List (Elem α)} {y : Elem α}
    (h : y ∈ liveM removed es) : y ∈ es := by
  simp only [liveM, liveOf, Multiset.mem_coe, List.mem_filter] at h
  exact h.1

/-! ### what a collector must satisfy -/

/-- the answer queue's elements as a multiset. -/
def nbhM (nbh : Nbh α D) : Multiset (Elem α) := ((nbh.map Prod.snd : List (Elem α)) : Multiset (Elem α))

/-- the three facts about a collector `C` the traversal proof uses.  `f` is the distance to the
query; `Good nbh disc` relates the answer queue to the multiset of copies that were looked at and
not kept. -/
structure GoodColl [LT D] [Add D] [Sub D] [LE D] [DecidableLE D]
    (C : Coll α D) (f : Elem α → D) (Good : Nbh α D → Multiset (Elem α) → Prop) : Prop where
  init : Good [] 0
  /-- offering a copy moves it into the queue or into `disc` (possibly evicting another one). -/
  offer : ∀ nbh disc e, Good nbh disc →
    ∃ disc', Good (C.offer nbh e (f e)).1 disc' ∧ nbhM (C.offer nbh e (f e)).1 + disc' = nbhM nbh + disc + {e}
  /-- copies farther than the pruning bound may be discarded. -/
  prune : ∀ nbh disc b ys, Good nbh disc → C.bound nbh = some b → (∀ y ∈ ys, b < f y) → Good nbh (disc + ys)
  /-- when the enqueue test fails, there is a bound `b` for which the radius test fails, and copies
  farther than it may be discarded. -/
  keep : ∀ nbh disc d rad ys, Good nbh disc → C.keep nbh d rad = false →
    (∀ b, inside d b rad = false → ∀ y ∈ ys, b < f y) → Good nbh (disc + ys)

/-- the loop invariant. -/
def Acct (Good : Nbh α D → Multiset (Elem α) → Prop) (total : Multiset (Elem α)) (nbh : Nbh α D)
    (todo : Multiset (Elem α)) : Prop :=
  ∃ disc, Good nbh disc ∧ nbhM nbh + disc + todo = total

section Acct
variable [LT D] [Add D] [Sub D] [LE D] [DecidableLE D]
variable {C : Coll α D} {f : Elem α → D} {Good : Nbh α D → Multiset (Elem α) → Prop}
variable {total : Multiset (Elem α)}

theorem Acct.offer (hC : GoodColl C f Good) {nbh : Nbh α D} {e : Elem α} {todo : Multiset (Elem α)}
    (h : Acct Good total nbh (e ::ₘ todo)) : Acct Good total (C.offer nbh e (f e)).1 todo := by
  obtain ⟨disc, hg, heq⟩ := h
  obtain ⟨disc', hg', heq'⟩ := hC.offer nbh disc e hg
  refine ⟨disc', hg', ?_⟩
  rw [heq', ← heq, ← Multiset.singleton_add]
  abel

theorem Acct.prune (hC : GoodColl C f Good) {nbh : Nbh α D} {ys todo : Multiset (Elem α)} {b : D}
    (h : Acct Good total nbh (ys + todo)) (hb : C.bound nbh = some b) (hys : ∀ y ∈ ys, b < f y) :
    Acct Good total nbh todo := by
  obtain ⟨disc, hg, heq⟩ := h
  refine ⟨disc + ys, hC.prune nbh disc b ys hg hb hys, ?_⟩
  rw [← heq]
  abel

theorem Acct.skip (hC : GoodColl C f Good) {nbh : Nbh α D} {ys todo : Multiset (Elem α)} {d : D} {rad : Range D}
    (h : Acct Good total nbh (ys + todo)) (hk : C.keep nbh d rad = false)
    (hys : ∀ b, inside d b rad = false → ∀ y ∈ ys, b < f y) :
    Acct Good total nbh todo := by
  obtain ⟨disc, hg, heq⟩ := h
  refine ⟨disc + ys, hC.keep nbh disc d rad ys hg hk hys, ?_⟩
  rw [← heq]
  abel

omit [LT D] [Add D] [Sub D] [LE D] [DecidableLE D] in
theorem Acct.congr {nbh : Nbh α D} {todo todo' : Multiset (Elem α)}
    (h : Acct Good total nbh todo) (e : todo = todo') : Acct Good total nbh todo' := e ▸ h

end Acct

/-! ### the permutation array and the node queue as multisets of pending copies -/

def PEntry.isPending : PEntry D → Bool
  | .pending _ => true
  | _ => false

/-- the live copies still behind one entry of the permutation array: the whole subtree for a
child not yet visited, everything but the pivot (already offered) for a visited one. -/
def entryM (removed : List Nat) (children : List (Node α D)) : PEntry D → Multiset (Elem α)
  | .pruned => 0
  | .pending c =>
    match children[c]? with
    | some ch => liveM removed ch.elems
    | none => 0
  | .visited c _ =>
    match children[c]? with
    | some ch => liveM removed (restOf ch)
    | none => 0

def permM (removed : List Nat) (children : List (Node α D)) : List (PEntry D) → Multiset (Elem α)
  | [] => 0
  | e :: l => entryM removed children e + permM removed children l

def queueM (removed : List Nat) : NodeQ α D → Multiset (Elem α)
  | [] => 0
  | e :: l => liveM removed (restOf e.2) + queueM removed l

/-- entries refer to existing children, and `distToPivot` is what it says. -/
def EntryOK (dist : α → α → D) (q : α) (children : List (Node α D)) : PEntry D → Prop
  | .pruned => True
  | .pending c => c < children.length
  | .visited c d => ∃ ch, children[c]? = some ch ∧ d = dist q ch.pivot.val

theorem permM_set (removed : List Nat) (children : List (Node α D)) (x : PEntry D) :
    ∀ (l : List (PEntry D)) (i : Nat) (e : PEntry D), l[i]? = some e →
      ∃ R, permM removed children l = entryM removed children e + R ∧
        permM removed children (l.set i x) = entryM removed children x + R
  | [], i, e, h => by simp at h
  | a :: l, 0, e, h => by
    simp only [List.getElem?_cons_zero, Option.some.injEq] at h
    subst h
    exact ⟨permM removed children l, rfl, rfl⟩
  | a :: l, i + 1, e, h => by
    simp only [List.getElem?_cons_succ] at h
    obtain ⟨R, h1, h2⟩ := permM_set removed children x l i e h
    refine ⟨entryM removed children a + R, ?_, ?_⟩
    · simp only [permM, h1]; abel
    · simp only [List.set_cons_succ, permM, h2]; abel

theorem permM_mapIdx_split (removed : List Nat) (children : List (Node α D)) (P : Elem α → Prop) :
    ∀ (l : List (PEntry D)) (g : Nat → PEntry D → PEntry D),
      (∀ j e, l[j]? = some e →
        ∃ ys, entryM removed children e = entryM removed children (g j e) + ys ∧ ∀ y ∈ ys, P y) →
      ∃ ys, permM removed children l = permM removed children (l.mapIdx g) + ys ∧ ∀ y ∈ ys, P y
  | [], g, _ => ⟨0, by simp [permM], by simp⟩
  | a :: l, g, h => by
    obtain ⟨ys0, h0, hp0⟩ := h 0 a (by simp)
    obtain ⟨ys1, h1, hp1⟩ := permM_mapIdx_split removed children P l (fun i => g (i + 1))
      (fun j e hj => h (j + 1) e (by simpa using hj))
    refine ⟨ys0 + ys1, ?_, ?_⟩
    · rw [List.mapIdx_cons]
      simp only [permM]
      rw [h0, h1]
      abel
    · intro y hy
      rcases Multiset.mem_add.mp hy with hy | hy
      · exact hp0 y hy
      · exact hp1 y hy

theorem permM_perm (removed : List Nat) (children : List (Node α D)) {l1 l2 : List (PEntry D)}
    (h : l1.Perm l2) : permM removed children l1 = permM removed children l2 := by
  induction h with
  | nil => rfl
  | cons x _ ih => simp only [permM, ih]
  | swap x y l => simp only [permM]; abel
  | trans _ _ ih1 ih2 => exact ih1.trans ih2

/-- the initial permutation array stands for all live copies below the children. -/
theorem permM_pending_range' (removed : List Nat) :
    ∀ (suf pre : List (Node α D)),
      permM removed (pre ++ suf) ((List.range' pre.length suf.length).map PEntry.pending) =
        liveM removed (elemsL suf)
  | [], pre => by simp [permM, elemsL]
  | c :: suf, pre => by
    have ih := permM_pending_range' removed suf (pre ++ [c])
    simp only [List.length_cons, List.range'_succ, List.map_cons, permM, entryM]
    have h1 : (pre ++ c :: suf)[pre.length]? = some c := by simp
    rw [h1]
    simp only [elemsL, liveM_append]
    congr 1
    simpa [List.append_assoc] using ih

theorem permM_order (removed : List Nat) (children : List (Node α D)) {order : List Nat}
    (h : order.Perm (List.range children.length)) :
    permM removed children (order.map PEntry.pending) = liveM removed (elemsL children) := by
  rw [permM_perm removed children (h.map PEntry.pending), List.range_eq_range']
  simpa using permM_pending_range' removed children []

theorem qPush_perm [Sub D] [LT D] [DecidableLT D] (e : D × Node α D) :
    ∀ (qu : NodeQ α D), (qPush e qu).Perm (e :: qu)
  | [] => List.Perm.refl _
  | h :: t => by
    unfold qPush
    split
    · exact List.Perm.refl _
    · exact (List.Perm.cons h (qPush_perm e t)).trans (List.Perm.swap e h t)

theorem queueM_qPush [Sub D] [LT D] [DecidableLT D] (removed : List Nat) (e : D × Node α D) :
    ∀ (qu : NodeQ α D), queueM removed (qPush e qu) = liveM removed (restOf e.2) + queueM removed qu
  | [] => rfl
  | h :: t => by
    unfold qPush
    split
    · rfl
    · simp only [queueM, queueM_qPush removed e t]; abel

/-! ### the traversal preserves the accounting -/

section Traversal
variable [CommRing D] [LinearOrder D] [IsStrictOrderedRing D]
variable {C : Coll α D} {dist : α → α → D} {q : α} {Good : Nbh α D → Multiset (Elem α) → Prop}
variable {total : Multiset (Elem α)} {removed : List Nat}

/-- leaf scan: every live `data_` copy is offered. -/
theorem scanData_acct (hC : GoodColl C (fun e => dist q e.val) Good) :
    ∀ (data : List (Elem α)) (nbh : Nbh α D) (ip : Bool) (todo : Multiset (Elem α)),
      Acct Good total nbh (liveM removed data + todo) →
      Acct Good total (scanData C dist removed q data (nbh, ip)).1 todo
  | [], nbh, ip, todo, h => by simpa [scanData] using h
  | e :: es, nbh, ip, todo, h => by
    unfold scanData
    by_cases hrm : isRemoved removed e = true
    · rw [if_pos hrm]
      rw [liveM_cons_removed removed e es hrm] at h
      exact scanData_acct hC es nbh ip todo h
    · have hrm' : isRemoved removed e = false := by simpa using hrm
      rw [if_neg hrm]
      rw [liveM_cons_live removed e es hrm', Multiset.cons_add] at h
      exact scanData_acct hC es _ _ todo (h.offer hC)

/-- one entry of the sibling-pruning loop: what it drops is farther than the bound. -/
theorem pruneEntry_split (hm : IsMetric dist) {children : List (Node α D)}
    (hloc : localInv dist children = true) {child : Node α D} (hc : child ∈ children)
    (b : D) (i j : Nat) (e : PEntry D) (hok : EntryOK dist q children e) :
    let e' := pruneEntry child.ranges (dist q child.pivot.val) b i j e
    (∃ ys, entryM removed children e = entryM removed children e' + ys ∧ ∀ y ∈ ys, b < dist q y.val) ∧
      EntryOK dist q children e' ∧ (e.isPending = false → e'.isPending = false) := by
  intro e'
  have keepCase : e' = e →
      (∃ ys, entryM removed children e = entryM removed children e' + ys ∧ ∀ y ∈ ys, b < dist q y.val) ∧
      EntryOK dist q children e' ∧ (e.isPending = false → e'.isPending = false) := by
    intro h; rw [h]; exact ⟨⟨0, by simp, by simp⟩, hok, id⟩
  have dropCase : ∀ c cj, e.child? = some c → children[c]? = some cj → e' = .pruned →
      (∀ x ∈ cj.elems, b < dist q x.val) →
      (∃ ys, entryM removed children e = entryM removed children e' + ys ∧ ∀ y ∈ ys, b < dist q y.val) ∧
      EntryOK dist q children e' ∧ (e.isPending = false → e'.isPending = false) := by
    intro c cj hch hcj he' hall
    rw [he']
    refine ⟨⟨entryM removed children e, by simp [entryM], ?_⟩, trivial, fun _ => rfl⟩
    intro y hy
    cases e with
    | pruned => simp [PEntry.child?] at hch
    | pending c0 =>
      simp only [PEntry.child?, Option.some.injEq] at hch; subst hch
      simp only [entryM, hcj] at hy
      exact hall y (mem_of_mem_liveM hy)
    | visited c0 d0 =>
      simp only [PEntry.child?, Option.some.injEq] at hch; subst hch
      simp only [entryM, hcj] at hy
      have := mem_of_mem_liveM hy
      exact hall y (by rw [Node.elems_eq]; exact List.mem_cons_of_mem _ this)
  show _ ∧ _ ∧ _
  by_cases hji : j = i
  · exact keepCase (by simp [e', pruneEntry, hji])
  · cases hch : e.child? with
    | none => exact keepCase (by simp [e', pruneEntry, hji, hch])
    | some c =>
      have hcj : ∃ cj, children[c]? = some cj := by
        cases e with
        | pruned => simp [PEntry.child?] at hch
        | pending c0 =>
          simp only [PEntry.child?, Option.some.injEq] at hch; subst hch
          exact ⟨children[c0]'hok, List.getElem?_eq_getElem hok⟩
        | visited c0 d0 =>
          simp only [PEntry.child?, Option.some.injEq] at hch; subst hch
          obtain ⟨ch, h1, _⟩ := hok
          exact ⟨ch, h1⟩
      obtain ⟨cj, hcj⟩ := hcj
      obtain ⟨rg, hrg, hall⟩ := localInv_range hloc hc hcj
      by_cases ho : outside (dist q child.pivot.val) b rg = true
      · refine dropCase c cj hch hcj (by simp [e', pruneEntry, hji, hch, hrg, ho]) ?_
        intro x hx
        exact outside_sound hm q child.pivot.val x.val b rg (hall x hx) ho
      · exact keepCase (by simp [e', pruneEntry, hji, hch, hrg, ho])


/-- the sibling-pruning step after visiting entry `i`. -/
theorem pruneStep_acct (hC : GoodColl C (fun e => dist q e.val) Good) (hm : IsMetric dist)
    {children : List (Node α D)} (hloc : localInv dist children = true)
    {child : Node α D} (hc : child ∈ children) (todo : Multiset (Elem α))
    (i : Nat) (nbh : Nbh α D) (perm : Array (PEntry D))
    (hacct : Acct Good total nbh (permM removed children perm.toList + todo))
    (hok : ∀ (j : Nat) e, perm[j]? = some e → EntryOK dist q children e) :
    let perm' := pruneStep child.ranges (dist q child.pivot.val) (C.bound nbh) i perm
    Acct Good total nbh (permM removed children perm'.toList + todo) ∧
      (∀ (j : Nat) e', perm'[j]? = some e' →
        EntryOK dist q children e' ∧ ∃ e, perm[j]? = some e ∧ (e.isPending = false → e'.isPending = false)) := by
  intro perm'
  cases hb : C.bound nbh with
  | none =>
    have : perm' = perm := by simp [perm', pruneStep, hb]
    rw [this]
    exact ⟨hacct, fun j e' h => ⟨hok j e' h, e', h, id⟩⟩
  | some b =>
    have hp : perm' = perm.mapIdx (pruneEntry child.ranges (dist q child.pivot.val) b i) := by
      simp [perm', pruneStep, hb, pruneOthers]
    rw [hp]
    constructor
    · rw [Array.toList_mapIdx]
      obtain ⟨ys, heq, hys⟩ := permM_mapIdx_split removed children (fun y => b < dist q y.val) perm.toList
        (fun j e => pruneEntry child.ranges (dist q child.pivot.val) b i j e)
        (fun j e hj => (pruneEntry_split (removed := removed) hm hloc hc b i j e
          (hok j e (by simpa using hj))).1)
      rw [heq, add_assoc] at hacct
      exact (hacct.congr (by abel : _ = ys + (_ + todo))).prune hC hb hys
    · intro j e' h
      rw [Array.getElem?_mapIdx] at h
      cases hj : perm[j]? with
      | none => simp [hj] at h
      | some e =>
        simp only [hj, Option.map_some, Option.some.injEq] at h
        have := pruneEntry_split (removed := removed) hm hloc hc b i j e (hok j e hj)
        rw [← h]
        exact ⟨this.2.1, e, rfl, this.2.2⟩

/-- first loop over the children: pivots are offered, pruned siblings are discarded soundly;
afterwards no entry is pending. -/
theorem visitChildren_acct (hC : GoodColl C (fun e => dist q e.val) Good) (hm : IsMetric dist)
    {children : List (Node α D)} (hloc : localInv dist children = true)
    (hpiv : ∀ c ∈ children, isRemoved removed c.pivot = false) (todo : Multiset (Elem α))
    (i : Nat) (nbh : Nbh α D) (ip : Bool) (perm : Array (PEntry D))
    (hacct : Acct Good total nbh (permM removed children perm.toList + todo))
    (hok : ∀ (j : Nat) e, perm[j]? = some e → EntryOK dist q children e)
    (hdone : ∀ (j : Nat) e, perm[j]? = some e → j < i → e.isPending = false) :
    Acct Good total (visitChildren C dist q children i nbh ip perm).1
        (permM removed children (visitChildren C dist q children i nbh ip perm).2.2.toList + todo) ∧
      (∀ (j : Nat) e, (visitChildren C dist q children i nbh ip perm).2.2[j]? = some e →
        EntryOK dist q children e ∧ e.isPending = false) := by
  fun_induction visitChildren C dist q children i nbh ip perm with
  | case1 i nbh ip perm hi c hpi child hch d r ih =>
    have hc : child ∈ children := List.mem_of_getElem? hch
    have hpi' : perm.toList[i]? = some (.pending c) := by
      rw [Array.getElem?_toList, Array.getElem?_eq_getElem hi, hpi]
    obtain ⟨R, h1, h2⟩ := permM_set removed children (.visited c d) perm.toList i _ hpi'
    -- offer the pivot
    have hacct1 : Acct Good total r.1
        (permM removed children (perm.set i (.visited c d) hi).toList + todo) := by
      rw [Array.toList_set, h2]
      rw [h1] at hacct
      have hE : entryM removed children (.pending c) =
          child.pivot ::ₘ entryM removed children (.visited c d) := by
        simp only [entryM, hch, Node.elems_eq]
        exact liveM_cons_live removed _ _ (hpiv child hc)
      rw [hE] at hacct
      have := (hacct.congr (by rw [Multiset.cons_add, Multiset.cons_add])).offer hC
      exact this.congr (by abel)
    have hok1 : ∀ (j : Nat) e, (perm.set i (.visited c d) hi)[j]? = some e → EntryOK dist q children e := by
      intro j e h
      rw [Array.getElem?_set] at h
      split at h
      · simp only [Option.some.injEq] at h; rw [← h]; exact ⟨child, hch, rfl⟩
      · exact hok j e h
    have hps := pruneStep_acct hC hm hloc hc todo i r.1 (perm.set i (.visited c d) hi) hacct1 hok1
    refine ih hps.1 (fun j e h => (hps.2 j e h).1) ?_
    intro j e' h hj
    obtain ⟨_, e, he, himp⟩ := hps.2 j e' h
    apply himp
    rw [Array.getElem?_set] at he
    split at he
    · simp only [Option.some.injEq] at he; rw [← he]; rfl
    · exact hdone j e he (by omega)
  | case2 i nbh ip perm hi c hpi hch ih =>
    exfalso
    have := hok i _ (by rw [Array.getElem?_eq_getElem hi, hpi])
    simp only [EntryOK] at this
    rw [List.getElem?_eq_getElem this] at hch
    cases hch
  | case3 i nbh ip perm hi hnp ih =>
    refine ih hacct hok ?_
    intro j e h hj
    by_cases hji : j = i
    · subst hji
      rw [Array.getElem?_eq_getElem hi] at h
      simp only [Option.some.injEq] at h
      cases e with
      | pending c => exact (hnp c h).elim
      | pruned => rfl
      | visited _ _ => rfl
    · exact hdone j e h (by omega)
  | case4 i nbh ip perm hi =>
    refine ⟨hacct, fun j e h => ⟨hok j e h, hdone j e h ?_⟩⟩
    have : j < perm.size := by
      by_contra hlt
      simp only [show perm[j]? = none from Array.getElem?_eq_none (by omega)] at h
      cases h
    omega


omit [CommRing D] [IsStrictOrderedRing D] in
theorem Node.inv_parts {t : Node α D} (h : t.inv dist removed = true) :
    isRemoved removed t.pivot = false ∧ localInv dist t.children = true ∧
      ∀ c ∈ t.children, c.inv dist removed = true := by
  obtain ⟨p, deg, r, rg, data, ch⟩ := t
  have := (Node.inv_mk dist removed p deg r rg data ch).mp h
  exact ⟨this.1, this.2.1, invL_mem dist removed ch this.2.2⟩

/-- what is known about every entry of the node queue: the recorded distance is the distance to
the node's pivot, the invariant holds below it, and its radii bound everything below it. -/
def QOK (dist : α → α → D) (removed : List Nat) (q : α) (qu : NodeQ α D) : Prop :=
  ∀ e ∈ qu, e.1 = dist q e.2.pivot.val ∧ e.2.inv dist removed = true ∧
    ∀ x ∈ restOf e.2, e.2.rad.has (dist x.val e.2.pivot.val) = true

/-- second loop over the children: a surviving child is enqueued or soundly skipped. -/
theorem enqueue_acct (hC : GoodColl C (fun e => dist q e.val) Good) (hm : IsMetric dist)
    {children : List (Node α D)} (hloc : localInv dist children = true)
    (hinv : ∀ c ∈ children, c.inv dist removed = true) (nbh : Nbh α D) :
    ∀ (l : List (PEntry D)) (qu : NodeQ α D),
      (∀ e ∈ l, EntryOK dist q children e ∧ e.isPending = false) →
      Acct Good total nbh (permM removed children l + queueM removed qu) → QOK dist removed q qu →
      Acct Good total nbh (queueM removed (enqueue C children nbh l qu)) ∧
        QOK dist removed q (enqueue C children nbh l qu)
  | [], qu, _, hacct, hq => by
    simp only [enqueue]
    exact ⟨hacct.congr (by simp [permM]), hq⟩
  | .pruned :: rest, qu, hl, hacct, hq => by
    simp only [enqueue]
    refine enqueue_acct hC hm hloc hinv nbh rest qu (fun e he => hl e (List.mem_cons_of_mem _ he)) ?_ hq
    exact hacct.congr (by simp [permM, entryM])
  | .pending c :: rest, qu, hl, _, _ => by
    have := (hl (.pending c) (by simp)).2
    simp [PEntry.isPending] at this
  | .visited c d :: rest, qu, hl, hacct, hq => by
    obtain ⟨ch, hch, hd⟩ := (hl (.visited c d) (by simp)).1
    have hc : ch ∈ children := List.mem_of_getElem? hch
    have hl' : ∀ e ∈ rest, EntryOK dist q children e ∧ e.isPending = false :=
      fun e he => hl e (List.mem_cons_of_mem _ he)
    simp only [enqueue, hch]
    by_cases hk : C.keep nbh d ch.rad = true
    · rw [if_pos hk]
      refine enqueue_acct hC hm hloc hinv nbh rest _ hl' ?_ ?_
      · refine hacct.congr ?_
        rw [queueM_qPush]
        simp only [permM, entryM, hch]
        abel
      · intro e he
        rcases List.mem_cons.mp ((qPush_perm (d, ch) qu).subset he) with rfl | he
        · exact ⟨hd, hinv ch hc, localInv_rad hloc hc⟩
        · exact hq e he
    · rw [if_neg hk]
      refine enqueue_acct hC hm hloc hinv nbh rest qu hl' ?_ hq
      have hk' : C.keep nbh d ch.rad = false := by simpa using hk
      have hacct' : Acct Good total nbh (liveM removed (restOf ch) +
          (permM removed children rest + queueM removed qu)) :=
        hacct.congr (by simp only [permM, entryM, hch]; abel)
      refine hacct'.skip hC hk' ?_
      intro b hb y hy
      rw [hd] at hb
      exact enqueue_skip_sound hm hloc hc q b hb y (mem_of_mem_liveM hy)

/-- `Node::nearestK/R`: all live copies below the node are offered, enqueued or soundly discarded. -/
theorem Node.visit_acct (hC : GoodColl C (fun e => dist q e.val) Good) (hm : IsMetric dist)
    (n : Node α D) (hn : n.inv dist removed = true) {order : List Nat}
    (hord : order.Perm (List.range n.children.length)) (nbh : Nbh α D) (ip : Bool) (qu : NodeQ α D)
    (hacct : Acct Good total nbh (liveM removed (restOf n) + queueM removed qu))
    (hq : QOK dist removed q qu) :
    Acct Good total (n.visit C dist removed q order nbh ip qu).1
        (queueM removed (n.visit C dist removed q order nbh ip qu).2.2) ∧
      QOK dist removed q (n.visit C dist removed q order nbh ip qu).2.2 := by
  obtain ⟨_, hloc, hinv⟩ := Node.inv_parts hn
  have h1 : Acct Good total (scanData C dist removed q n.data (nbh, ip)).1
      (liveM removed (elemsL n.children) + queueM removed qu) := by
    apply scanData_acct hC
    exact hacct.congr (by rw [restOf, liveM_append, add_assoc])
  unfold Node.visit
  simp only []
  by_cases hemp : n.children.isEmpty = true
  · rw [if_pos hemp]
    refine ⟨h1.congr ?_, hq⟩
    have : n.children = [] := List.isEmpty_iff.mp hemp
    simp [this, elemsL]
  · rw [if_neg hemp]
    have hpiv : ∀ c ∈ n.children, isRemoved removed c.pivot = false :=
      fun c hc => (Node.inv_parts (hinv c hc)).1
    have h2 := visitChildren_acct hC hm hloc hpiv (queueM removed qu) 0
      (scanData C dist removed q n.data (nbh, ip)).1 (scanData C dist removed q n.data (nbh, ip)).2
      (order.map PEntry.pending).toArray
      (h1.congr (by rw [permM_order removed n.children hord]))
      (by
        intro j e h
        have hm' : e ∈ order.map PEntry.pending := by
          rw [List.mem_iff_getElem?]; exact ⟨j, by simpa using h⟩
        obtain ⟨c, hc, rfl⟩ := List.mem_map.mp hm'
        exact List.mem_range.mp (hord.subset hc))
      (by intro j e _ hj; omega)
    refine enqueue_acct hC hm hloc hinv _ _ qu ?_ h2.1 hq
    intro e he
    obtain ⟨j, hj⟩ := List.mem_iff_getElem?.mp he
    exact h2.2 j e (by rw [← Array.getElem?_toList]; exact hj)

/-- the `while (!nodeQueue.empty())` loop: if it ends (fuel was enough), every live copy is in the
answer or soundly discarded. -/
theorem loop_acct (hC : GoodColl C (fun e => dist q e.val) Good) (hm : IsMetric dist)
    {ord : Nat → Nat → List Nat} (hord : ∀ sz off, (ord sz off).Perm (List.range sz))
    (fuel : Nat) (qu : NodeQ α D) (st : QState α D)
    (hacct : Acct Good total st.nbh (queueM removed qu)) (hq : QOK dist removed q qu)
    (hex : (loop C dist removed q ord fuel qu st).exhausted = false) :
    ∃ disc, Good (loop C dist removed q ord fuel qu st).nbh disc ∧
      nbhM (loop C dist removed q ord fuel qu st).nbh + disc = total := by
  fun_induction loop C dist removed q ord fuel qu st with
  | case1 fuel st =>
    obtain ⟨disc, hg, heq⟩ := hacct
    exact ⟨disc, hg, by simpa [queueM] using heq⟩
  | case2 hd tl st => simp at hex
  | case3 fuel d node rest st skip hskip ih =>
    apply ih _ (fun e he => hq e (List.mem_cons_of_mem _ he)) hex
    obtain ⟨hd, _, hrad⟩ := hq (d, node) (by simp)
    cases hb : C.bound st.nbh with
    | none => simp [skip, hb] at hskip
    | some b =>
      simp only [skip, hb] at hskip
      refine hacct.prune hC hb ?_
      intro y hy
      simp only at hd
      rw [hd] at hskip
      exact outsideQ_sound hm q node.pivot.val y.val b node.rad (hrad y (mem_of_mem_liveM hy)) hskip
  | case4 fuel d node rest st skip hskip sz r ih =>
    obtain ⟨_, hinv, _⟩ := hq (d, node) (by simp)
    have hv := Node.visit_acct hC hm node hinv (hord sz st.offset) st.nbh st.isPivot rest
      hacct (fun e he => hq e (List.mem_cons_of_mem _ he))
    exact ih hv.1 hv.2 hex

/-- `nearestKInternal` / `nearestRInternal`. -/
theorem searchInternal_acct (hC : GoodColl C (fun e => dist q e.val) Good) (hm : IsMetric dist)
    {ord : Nat → Nat → List Nat} (hord : ∀ sz off, (ord sz off).Perm (List.range sz))
    (offset : Nat) (t : Node α D) (ht : t.inv dist removed = true)
    (hex : (searchInternal C dist removed q ord offset t).exhausted = false) :
    ∃ disc, Good (searchInternal C dist removed q ord offset t).nbh disc ∧
      nbhM (searchInternal C dist removed q ord offset t).nbh + disc = liveM removed t.elems := by
  unfold searchInternal at hex ⊢
  simp only [] at hex ⊢
  have h0 : Acct Good (liveM removed t.elems) [] (t.pivot ::ₘ (liveM removed (restOf t) + queueM removed ([] : NodeQ α D))) := by
    refine ⟨0, hC.init, ?_⟩
    rw [Node.elems_eq, liveM_cons_live removed _ _ (Node.inv_parts ht).1]
    simp [nbhM, queueM]
  have hv := Node.visit_acct hC hm t ht (hord t.children.length offset) _
    (C.offer [] t.pivot (dist q t.pivot.val)).2 [] (h0.offer hC) (by intro e he; cases he)
  exact loop_acct hC hm hord _ _ _ hv.1 hv.2 hex

end Traversal


/-! ### the fuel (= number of nodes) always suffices -/

section Fuel
variable [Add D] [Sub D] [LE D] [LT D] [DecidableLE D] [DecidableLT D]

def cntE (children : List (Node α D)) : PEntry D → Nat
  | .pruned => 0
  | .pending c => match children[c]? with | some ch => ch.count | none => 0
  | .visited c _ => match children[c]? with | some ch => ch.count | none => 0

def cntP (children : List (Node α D)) : List (PEntry D) → Nat
  | [] => 0
  | e :: l => cntE children e + cntP children l

def cntQ : NodeQ α D → Nat
  | [] => 0
  | e :: l => e.2.count + cntQ l

omit [Add D] [Sub D] [LE D] [LT D] [DecidableLE D] [DecidableLT D] in
theorem cntP_set (children : List (Node α D)) (x : PEntry D) :
    ∀ (l : List (PEntry D)) (i : Nat) (e : PEntry D), l[i]? = some e →
      cntE children x = cntE children e → cntP children (l.set i x) = cntP children l
  | [], i, e, h, _ => by simp at h
  | a :: l, 0, e, h, hx => by
    simp only [List.getElem?_cons_zero, Option.some.injEq] at h
    subst h
    simp [cntP, hx]
  | a :: l, i + 1, e, h, hx => by
    simp only [List.getElem?_cons_succ] at h
    simp [cntP, cntP_set children x l i e h hx]

omit [Add D] [Sub D] [LE D] [LT D] [DecidableLE D] [DecidableLT D] in
theorem cntP_mapIdx_le (children : List (Node α D)) :
    ∀ (l : List (PEntry D)) (g : Nat → PEntry D → PEntry D),
      (∀ j e, cntE children (g j e) ≤ cntE children e) →
      cntP children (l.mapIdx g) ≤ cntP children l
  | [], g, _ => by simp [cntP]
  | a :: l, g, h => by
    rw [List.mapIdx_cons]
    have := cntP_mapIdx_le children l (fun i => g (i + 1)) (fun j e => h (j + 1) e)
    have := h 0 a
    simp only [cntP]
    omega

omit [LE D] [DecidableLE D] in
theorem cntE_pruneEntry (children : List (Node α D)) (ranges : List (Range D)) (x b : D) (i j : Nat)
    (e : PEntry D) : cntE children (pruneEntry ranges x b i j e) ≤ cntE children e := by
  unfold pruneEntry
  split
  · exact Nat.le_refl _
  · split
    · exact Nat.le_refl _
    · split
      · split
        · simp [cntE]
        · exact Nat.le_refl _
      · exact Nat.le_refl _

omit [LE D] [DecidableLE D] in
theorem cntP_pruneStep (children : List (Node α D)) (ranges : List (Range D)) (d : D) (b : Option D) (i : Nat)
    (perm : Array (PEntry D)) :
    cntP children (pruneStep ranges d b i perm).toList ≤ cntP children perm.toList := by
  unfold pruneStep
  split
  · rw [pruneOthers, Array.toList_mapIdx]
    exact cntP_mapIdx_le children _ _ (fun j e => cntE_pruneEntry children ranges d _ i j e)
  · exact Nat.le_refl _

omit [LE D] [DecidableLE D] in
theorem visitChildren_cnt (C : Coll α D) (dist : α → α → D) (q : α) (children : List (Node α D)) (i : Nat)
    (nbh : Nbh α D) (ip : Bool) (perm : Array (PEntry D)) :
    cntP children (visitChildren C dist q children i nbh ip perm).2.2.toList ≤ cntP children perm.toList := by
  fun_induction visitChildren C dist q children i nbh ip perm with
  | case1 i nbh ip perm hi c hpi child hch d r ih =>
    refine Nat.le_trans ih (Nat.le_trans (cntP_pruneStep children _ _ _ _ _) ?_)
    rw [Array.toList_set]
    have hpi' : perm.toList[i]? = some (.pending c) := by
      rw [Array.getElem?_toList, Array.getElem?_eq_getElem hi, hpi]
    rw [cntP_set children _ _ i _ hpi' (by simp [cntE])]
  | case2 i nbh ip perm hi c hpi hch ih => exact ih
  | case3 i nbh ip perm hi hnp ih => exact ih
  | case4 i nbh ip perm hi => exact Nat.le_refl _

omit [Add D] [LE D] [DecidableLE D] in
theorem cntQ_qPush (e : D × Node α D) : ∀ (qu : NodeQ α D), cntQ (qPush e qu) = e.2.count + cntQ qu
  | [] => rfl
  | h :: t => by
    unfold qPush
    split
    · rfl
    · simp only [cntQ, cntQ_qPush e t]; omega

omit [Add D] [LE D] [DecidableLE D] in
theorem enqueue_cnt (C : Coll α D) (children : List (Node α D)) (nbh : Nbh α D) :
    ∀ (l : List (PEntry D)) (qu : NodeQ α D),
      cntQ (enqueue C children nbh l qu) ≤ cntP children l + cntQ qu
  | [], qu => by simp [enqueue, cntP]
  | .pruned :: rest, qu => by
    simp only [enqueue, cntP]
    have := enqueue_cnt C children nbh rest qu
    omega
  | .pending c :: rest, qu => by
    simp only [enqueue, cntP]
    have := enqueue_cnt C children nbh rest qu
    omega
  | .visited c d :: rest, qu => by
    simp only [enqueue, cntP, cntE]
    cases hch : children[c]? with
    | none =>
      have := enqueue_cnt C children nbh rest qu
      simpa using this
    | some ch =>
      simp only []
      split
      · have := enqueue_cnt C children nbh rest (qPush (d, ch) qu)
        rw [cntQ_qPush] at this
        simp only [] at this
        omega
      · have := enqueue_cnt C children nbh rest qu
        omega

omit [Add D] [Sub D] [LE D] [LT D] [DecidableLE D] [DecidableLT D] in
theorem cntP_perm (children : List (Node α D)) {l1 l2 : List (PEntry D)} (h : l1.Perm l2) :
    cntP children l1 = cntP children l2 := by
  induction h with
  | nil => rfl
  | cons x _ ih => simp only [cntP, ih]
  | swap x y l => simp only [cntP]; omega
  | trans _ _ ih1 ih2 => exact ih1.trans ih2

omit [Add D] [Sub D] [LE D] [LT D] [DecidableLE D] [DecidableLT D] in
theorem cntP_pending_range' :
    ∀ (suf pre : List (Node α D)),
      cntP (pre ++ suf) ((List.range' pre.length suf.length).map (PEntry.pending (D := D))) = countL suf
  | [], pre => by simp [cntP, countL]
  | c :: suf, pre => by
    have ih := cntP_pending_range' suf (pre ++ [c])
    simp only [List.length_cons, List.range'_succ, List.map_cons, cntP, cntE]
    have h1 : (pre ++ c :: suf)[pre.length]? = some c := by simp
    rw [h1]
    simp only [countL]
    congr 1
    simpa [List.append_assoc] using ih

omit [Add D] [Sub D] [LE D] [LT D] [DecidableLE D] [DecidableLT D] in
theorem cntP_order (children : List (Node α D)) {order : List Nat}
    (h : order.Perm (List.range children.length)) :
    cntP children (order.map (PEntry.pending (D := D))) = countL children := by
  rw [cntP_perm children (h.map PEntry.pending), List.range_eq_range']
  simpa using cntP_pending_range' (D := D) children []

theorem Node.visit_cnt (C : Coll α D) (dist : α → α → D) (removed : List Nat) (q : α) (n : Node α D)
    {order : List Nat} (hord : order.Perm (List.range n.children.length)) (nbh : Nbh α D) (ip : Bool)
    (qu : NodeQ α D) :
    cntQ (n.visit C dist removed q order nbh ip qu).2.2 + 1 ≤ n.count + cntQ qu := by
  unfold Node.visit
  simp only []
  rw [Node.count_eq]
  split
  · simp only []; omega
  · simp only []
    have h1 := enqueue_cnt C n.children
      (visitChildren C dist q n.children 0 (scanData C dist removed q n.data (nbh, ip)).1
        (scanData C dist removed q n.data (nbh, ip)).2 (order.map PEntry.pending).toArray).1
      (visitChildren C dist q n.children 0 (scanData C dist removed q n.data (nbh, ip)).1
        (scanData C dist removed q n.data (nbh, ip)).2 (order.map PEntry.pending).toArray).2.2.toList qu
    have h2 := visitChildren_cnt C dist q n.children 0 (scanData C dist removed q n.data (nbh, ip)).1
        (scanData C dist removed q n.data (nbh, ip)).2 (order.map PEntry.pending).toArray
    rw [cntP_order n.children hord] at h2
    omega

theorem loop_not_exhausted (C : Coll α D) (dist : α → α → D) (removed : List Nat) (q : α)
    {ord : Nat → Nat → List Nat} (hord : ∀ sz off, (ord sz off).Perm (List.range sz))
    (fuel : Nat) (qu : NodeQ α D) (st : QState α D) (hf : cntQ qu ≤ fuel) :
    (loop C dist removed q ord fuel qu st).exhausted = st.exhausted := by
  fun_induction loop C dist removed q ord fuel qu st with
  | case1 fuel st => rfl
  | case2 hd tl st =>
    have := Node.count_eq hd.2
    simp only [cntQ] at hf
    omega
  | case3 fuel d node rest st skip hskip ih =>
    apply ih
    have := Node.count_eq node
    simp only [cntQ] at hf
    omega
  | case4 fuel d node rest st skip hskip sz r ih =>
    rw [ih]
    have := Node.visit_cnt C dist removed q node (hord sz st.offset) st.nbh st.isPivot rest
    simp only [cntQ] at hf
    simp only [r]
    omega

/-- `fuel-exhausted` is never reported. -/
theorem searchInternal_not_exhausted (C : Coll α D) (dist : α → α → D) (removed : List Nat) (q : α)
    {ord : Nat → Nat → List Nat} (hord : ∀ sz off, (ord sz off).Perm (List.range sz))
    (offset : Nat) (t : Node α D) :
    (searchInternal C dist removed q ord offset t).exhausted = false := by
  unfold searchInternal
  simp only []
  rw [loop_not_exhausted C dist removed q hord]
  have := Node.visit_cnt C dist removed q t (hord t.children.length offset)
    (C.offer [] t.pivot (dist q t.pivot.val)).1 (C.offer [] t.pivot (dist q t.pivot.val)).2 []
  simp only [cntQ] at this
  omega

end Fuel

end OmplModel.NN
