import OmplModel.Model.Grid
/-
Basic facts about the `Grid` model: the probe coordinates `neighborCoords`, `getCell`, `has`, `neighbors`.
Core Lean only.
-/
namespace OmplModel.Grid

/-! ### list helpers -/

theorem getD_set (x : Coord) (i j : Nat) (v : Int) :
    (x.set i v).getD j 0 = if i = j ∧ i < x.length then v else x.getD j 0 := by
  simp only [List.getD_eq_getElem?_getD, List.getElem?_set]
  by_cases hij : i = j
  · subst hij
    by_cases hi : i < x.length
    · simp [hi]
    · simp [hi]
  · simp [hij]

theorem ext_getD {x y : Coord} (hl : x.length = y.length) (h : ∀ j, x.getD j 0 = y.getD j 0) : x = y := by
  apply List.ext_getElem hl
  intro j h1 h2
  have := h j
  simpa [List.getD_eq_getElem?_getD, h1, h2] using this

/-! ### `neighborCoords` -/

theorem mem_neighborCoords {dim : Nat} {x y : Coord} :
    y ∈ neighborCoords dim x ↔
      ∃ i, i < dim ∧ (y = x.set i (x.getD i 0 - 1) ∨ y = x.set i (x.getD i 0 + 1)) := by
  simp [neighborCoords, List.mem_flatMap]

theorem length_of_mem_neighborCoords {dim : Nat} {x y : Coord} (h : y ∈ neighborCoords dim x) :
    y.length = x.length := by
  obtain ⟨i, _, rfl | rfl⟩ := mem_neighborCoords.1 h <;> simp

/-- "differ by one in a single dimension", spelled out pointwise -/
theorem mem_neighborCoords_iff_differ {dim : Nat} {x y : Coord} (hx : x.length = dim) :
    y ∈ neighborCoords dim x ↔
      y.length = dim ∧ ∃ i, i < dim ∧ (y.getD i 0 = x.getD i 0 - 1 ∨ y.getD i 0 = x.getD i 0 + 1) ∧
        ∀ j, j ≠ i → y.getD j 0 = x.getD j 0 := by
  constructor
  · intro h
    refine ⟨(length_of_mem_neighborCoords h).trans hx, ?_⟩
    obtain ⟨i, hi, h | h⟩ := mem_neighborCoords.1 h
    · refine ⟨i, hi, Or.inl ?_, ?_⟩
      · rw [h, getD_set]; simp [hx, hi]
      · intro j hj; rw [h, getD_set]; simp [Ne.symm hj]
    · refine ⟨i, hi, Or.inr ?_, ?_⟩
      · rw [h, getD_set]; simp [hx, hi]
      · intro j hj; rw [h, getD_set]; simp [Ne.symm hj]
  · rintro ⟨hy, i, hi, hv, hrest⟩
    apply mem_neighborCoords.2
    refine ⟨i, hi, ?_⟩
    rcases hv with hv | hv
    · left
      apply ext_getD (by simp [hx, hy])
      intro j
      rw [getD_set]
      by_cases hij : i = j
      · subst hij; rw [if_pos ⟨rfl, by omega⟩]; exact hv
      · rw [if_neg (fun h => hij h.1)]; exact hrest j (Ne.symm hij)
    · right
      apply ext_getD (by simp [hx, hy])
      intro j
      rw [getD_set]
      by_cases hij : i = j
      · subst hij; rw [if_pos ⟨rfl, by omega⟩]; exact hv
      · rw [if_neg (fun h => hij h.1)]; exact hrest j (Ne.symm hij)

theorem neighborCoords_symm {dim : Nat} {x y : Coord} (hx : x.length = dim)
    (h : y ∈ neighborCoords dim x) : x ∈ neighborCoords dim y := by
  obtain ⟨hy, i, hi, hv, hrest⟩ := (mem_neighborCoords_iff_differ hx).1 h
  refine (mem_neighborCoords_iff_differ hy).2 ⟨hx, i, hi, ?_, fun j hj => (hrest j hj).symm⟩
  omega

theorem not_self_mem_neighborCoords {dim : Nat} {x : Coord} (hx : x.length = dim) :
    x ∉ neighborCoords dim x := by
  intro h
  obtain ⟨_, i, _, hv, _⟩ := (mem_neighborCoords_iff_differ hx).1 h
  omega

theorem neighborCoords_nodup {dim : Nat} {x : Coord} (hx : x.length = dim) :
    (neighborCoords dim x).Nodup := by
  unfold neighborCoords
  rw [List.nodup_iff_pairwise_ne, List.pairwise_flatMap]
  constructor
  · intro i hi
    have hi : i < x.length := by simpa [hx] using hi
    simp only [List.pairwise_cons, List.mem_singleton, forall_eq, List.not_mem_nil, false_imp_iff,
      implies_true, List.Pairwise.nil, and_true]
    intro h
    have : (x.set i (x.getD i 0 - 1)).getD i 0 = (x.set i (x.getD i 0 + 1)).getD i 0 := by rw [h]
    rw [getD_set, getD_set, if_pos ⟨rfl, hi⟩] at this
    omega
  · have hnd : (List.range dim).reverse.Pairwise (· ≠ ·) :=
      List.pairwise_reverse.2 ((List.nodup_iff_pairwise_ne.1 List.nodup_range).imp Ne.symm)
    refine hnd.imp_of_mem ?_
    intro i j hi hj hij a ha b hb hab
    have hi : i < x.length := by simpa [hx] using hi
    have hj : j < x.length := by simpa [hx] using hj
    subst hab
    have key : ∀ v w : Int, v ≠ x.getD i 0 → x.set i v ≠ x.set j w := by
      intro v w hv h
      have : (x.set i v).getD i 0 = (x.set j w).getD i 0 := by rw [h]
      rw [getD_set, getD_set, if_pos ⟨rfl, hi⟩, if_neg (fun h => hij h.1.symm)] at this
      exact hv this
    simp only [List.mem_cons, List.not_mem_nil, or_false] at ha hb
    rcases ha with rfl | rfl <;> rcases hb with hb | hb
    all_goals first
      | exact key _ _ (by omega) hb
  
/-! ### `getCell`, `has` -/

theorem getCell_some_mem {cells : List Cell} {x : Coord} {c : Cell} (h : getCell cells x = some c) :
    c ∈ cells ∧ c.coord = x := by
  unfold getCell at h
  exact ⟨List.mem_of_find?_eq_some h, by simpa using List.find?_some h⟩

theorem getCell_eq_some_iff {cells : List Cell} {x : Coord} {c : Cell}
    (hnd : (cells.map (·.coord)).Nodup) :
    getCell cells x = some c ↔ c ∈ cells ∧ c.coord = x := by
  refine ⟨getCell_some_mem, ?_⟩
  rintro ⟨hc, rfl⟩
  unfold getCell
  induction cells with
  | nil => cases hc
  | cons d ds ih =>
    rw [List.map_cons, List.nodup_cons] at hnd
    rcases List.mem_cons.1 hc with rfl | hc'
    · simp
    · have hne : d.coord ≠ c.coord := by
        intro heq
        exact hnd.1 (heq ▸ List.mem_map_of_mem hc')
      rw [List.find?_cons_of_neg (by simpa using hne)]
      exact ih hnd.2 hc'

theorem has_iff {cells : List Cell} {x : Coord} : has cells x = true ↔ ∃ c ∈ cells, c.coord = x := by
  simp [has, getCell, List.find?_isSome]

theorem getCell_eq_none_iff {cells : List Cell} {x : Coord} :
    getCell cells x = none ↔ has cells x = false := by
  simp [has]

theorem has_of_getCell {cells : List Cell} {x : Coord} {c : Cell} (h : getCell cells x = some c) :
    has cells x = true := by simp [has, h]

theorem has_coord_of_mem {cells : List Cell} {c : Cell} (h : c ∈ cells) : has cells c.coord = true :=
  has_iff.2 ⟨c, h, rfl⟩

/-! ### `neighbors` -/

theorem mem_neighbors {dim : Nat} {cells : List Cell} {x : Coord} {c : Cell} :
    c ∈ neighbors dim cells x ↔ ∃ y ∈ neighborCoords dim x, getCell cells y = some c := by
  simp [neighbors, List.mem_filterMap]

/-- without `Nodup`: a neighbour is a cell of the grid at a probe coordinate. -/
theorem mem_neighbors_imp {dim : Nat} {cells : List Cell} {x : Coord} {c : Cell}
    (h : c ∈ neighbors dim cells x) : c ∈ cells ∧ c.coord ∈ neighborCoords dim x := by
  obtain ⟨y, hy, hc⟩ := mem_neighbors.1 h
  obtain ⟨h1, rfl⟩ := getCell_some_mem hc
  exact ⟨h1, hy⟩

theorem mem_neighbors_iff {dim : Nat} {cells : List Cell} {x : Coord} {c : Cell}
    (hnd : (cells.map (·.coord)).Nodup) :
    c ∈ neighbors dim cells x ↔ c ∈ cells ∧ c.coord ∈ neighborCoords dim x := by
  refine ⟨mem_neighbors_imp, ?_⟩
  rintro ⟨h1, h2⟩
  exact mem_neighbors.2 ⟨c.coord, h2, (getCell_eq_some_iff hnd).2 ⟨h1, rfl⟩⟩

theorem filterMap_getCell_map_coord (cells : List Cell) (l : List Coord) :
    (l.filterMap (getCell cells)).map (·.coord) = l.filter (has cells) := by
  induction l with
  | nil => rfl
  | cons y ys ih =>
    cases hg : getCell cells y with
    | none =>
      have : has cells y = false := getCell_eq_none_iff.1 hg
      simp [hg, this, ih]
    | some c =>
      have h1 : has cells y = true := has_of_getCell hg
      have h2 : c.coord = y := (getCell_some_mem hg).2
      simp [hg, h1, h2, ih]

theorem neighbors_map_coord {dim : Nat} {cells : List Cell} {x : Coord} :
    (neighbors dim cells x).map (·.coord) = (neighborCoords dim x).filter (has cells) :=
  filterMap_getCell_map_coord cells _

theorem neighbors_nodup {dim : Nat} {cells : List Cell} {x : Coord} (hx : x.length = dim) :
    ((neighbors dim cells x).map (·.coord)).Nodup := by
  rw [neighbors_map_coord]
  exact (neighborCoords_nodup hx).filter _

theorem neighbors_length {dim : Nat} {cells : List Cell} {x : Coord} :
    (neighbors dim cells x).length = (neighborCoords dim x).countP (has cells) := by
  rw [List.countP_eq_length_filter, ← neighbors_map_coord, List.length_map]

end OmplModel.Grid
