import OmplModel.Model.Constrained
/-!
Helper lemmas for C16 (arithmetic-free part; core Lean only).  Everything here holds for every
`Arith`, `Ambient`, `Resid` and every stateful `Oracle` — no law of the number type is used, so
the statements are also true of the `Float` instantiation the driver runs.
-/
namespace OmplModel.Constrained

variable {σ S D R : Type}

/-! ### predicates the theorems talk about -/

/-- some call `function(x)` returned the residual `f` -/
def Evaluated (O : Oracle σ S R) (x : S) (f : R) : Prop := ∃ s, (O.fn s x).1 = f

/-- the test `‖f(x)‖² < tol²` was made on a residual the oracle returned *for `x`*, and passed -/
def ResidualPassed (A : Arith D) (Rs : Resid R D) (O : Oracle σ S R) (tolSq : D) (x : S) : Prop :=
  ∃ f, Evaluated O x f ∧ A.lt (Rs.nsq f) tolSq = true

/-- `x` is the state left behind by a `Constraint::project` call that returned `true` -/
def Projected (A : Arith D) (Rs : Resid R D) (O : Oracle σ S R) (tolSq : D) (maxIter : Nat)
    (x : S) : Prop :=
  ∃ s y s', project A Rs O tolSq maxIter s y = (true, x, s')

/-- some call `isValid(x)` returned `true` -/
def AnsweredValid (O : Oracle σ S R) (x : S) : Prop := ∃ s, (O.valid s x).1 = true

/-- `rel` holds between every two consecutive elements -/
def Consec (rel : S → S → Prop) : List S → Prop
  | [] => True
  | [_] => True
  | a :: b :: l => rel a b ∧ Consec rel (b :: l)

theorem Consec.getElem {rel : S → S → Prop} : ∀ {l : List S}, Consec rel l →
    ∀ (i : Nat) (h : i + 1 < l.length), rel (l[i]'(by omega)) (l[i + 1]'h)
  | [], _, i, h => by simp at h
  | [_], _, i, h => by simp at h
  | a :: b :: l, hc, i, h => by
    cases i with
    | zero => exact hc.1
    | succ j =>
      have := Consec.getElem (l := b :: l) hc.2 j (by simp at h ⊢; omega)
      simpa using this

/-! ### `Constraint::project` -/

theorem projectLoop_true (A : Arith D) (Rs : Resid R D) (O : Oracle σ S R) (tolSq : D) :
    ∀ (k : Nat) (s : σ) (x : S) (f : R) (x' : S) (s' : σ), Evaluated O x f →
      projectLoop A Rs O tolSq k s x f = (true, x', s') → ResidualPassed A Rs O tolSq x'
  | 0, s, x, f, x', s', hev, h => by
    simp only [projectLoop, Prod.mk.injEq] at h
    obtain ⟨h1, h2, _⟩ := h
    subst h2
    exact ⟨f, hev, h1⟩
  | k + 1, s, x, f, x', s', hev, h => by
    simp only [projectLoop] at h
    split at h
    · exact projectLoop_true A Rs O tolSq k _ _ _ x' s' ⟨_, rfl⟩ h
    · simp only [Prod.mk.injEq] at h
      obtain ⟨h1, h2, _⟩ := h
      subst h2
      exact ⟨f, hev, h1⟩

theorem project_true (A : Arith D) (Rs : Resid R D) (O : Oracle σ S R) (tolSq : D) (maxIter : Nat)
    (s : σ) (x x' : S) (s' : σ) (h : project A Rs O tolSq maxIter s x = (true, x', s')) :
    ResidualPassed A Rs O tolSq x' :=
  projectLoop_true A Rs O tolSq maxIter _ x _ x' s' ⟨s, rfl⟩ h

theorem Projected.passed {A : Arith D} {Rs : Resid R D} {O : Oracle σ S R} {tolSq : D} {maxIter : Nat}
    {x : S} (h : Projected A Rs O tolSq maxIter x) : ResidualPassed A Rs O tolSq x := by
  obtain ⟨s, y, s', h⟩ := h
  exact project_true A Rs O tolSq maxIter s y x s' h

/-- when `project` says `false` the test `‖f‖² < tol²` failed on a residual of the state it left -/
theorem projectLoop_false (A : Arith D) (Rs : Resid R D) (O : Oracle σ S R) (tolSq : D) :
    ∀ (k : Nat) (s : σ) (x : S) (f : R) (x' : S) (s' : σ), Evaluated O x f →
      projectLoop A Rs O tolSq k s x f = (false, x', s') →
      ∃ f', Evaluated O x' f' ∧ A.lt (Rs.nsq f') tolSq = false
  | 0, s, x, f, x', s', hev, h => by
    simp only [projectLoop, Prod.mk.injEq] at h
    obtain ⟨h1, h2, _⟩ := h
    subst h2
    exact ⟨f, hev, h1⟩
  | k + 1, s, x, f, x', s', hev, h => by
    simp only [projectLoop] at h
    split at h
    · exact projectLoop_false A Rs O tolSq k _ _ _ x' s' ⟨_, rfl⟩ h
    · simp only [Prod.mk.injEq] at h
      obtain ⟨h1, h2, _⟩ := h
      subst h2
      exact ⟨f, hev, h1⟩

/-! ### the projected geodesic -/

section geo
variable (A : Arith D) (Am : Ambient S D) (Rs : Resid R D) (O : Oracle σ S R) (P : GeoParams D)
  (interpolate : Bool) (to : S)

/-- what the loop guarantees about a state `x` stored after `prev` when the loop variable `dist`
had the value `dist` -/
structure StepOK (prev x : S) (dist : D) : Prop where
  projected : Projected A Rs O P.tolSq P.maxIter x
  valid : interpolate = false → AnsweredValid O x
  step : A.lt (A.mul P.lambda P.delta) (Am.dist prev x) = false
  progress : A.le dist (Am.dist x to) = false
  cont : True

/-- the stored states, seen from the state before them -/
inductive Trace : S → D → List S → Prop
  | nil (prev : S) (dist : D) : Trace prev dist []
  | cons {prev x : S} {dist : D} {xs : List S} :
      StepOK A Am Rs O P interpolate to prev x dist → Trace x (Am.dist x to) xs → Trace prev dist (x :: xs)

theorem geoStep_ok (mx : D) (s : σ) (prev : S) (dist total : D) (x : S) (s' : σ) (nd tot : D)
    (h : geoStep A Am Rs O P interpolate to mx s prev dist total = .ok (x, s', nd, tot)) :
    StepOK A Am Rs O P interpolate to prev x dist ∧ nd = Am.dist x to := by
  unfold geoStep at h
  have key : ∀ (vr : Bool × σ), (interpolate = false → vr = O.valid
        (project A Rs O P.tolSq P.maxIter s (Am.interp prev to (A.div P.delta dist))).2.2
        (project A Rs O P.tolSq P.maxIter s (Am.interp prev to (A.div P.delta dist))).2.1) →
      (if (project A Rs O P.tolSq P.maxIter s (Am.interp prev to (A.div P.delta dist))).1 = false then
          (Except.error (Exit.projFail, (project A Rs O P.tolSq P.maxIter s (Am.interp prev to (A.div P.delta dist))).2.2) :
            Except (Exit × σ) (S × σ × D × D))
        else if vr.1 = false then .error (.invalid, vr.2)
        else if A.lt (A.mul P.lambda P.delta) (Am.dist prev (project A Rs O P.tolSq P.maxIter s (Am.interp prev to (A.div P.delta dist))).2.1) then
          .error (.deviated, vr.2)
        else if A.lt mx (A.add total (Am.dist prev (project A Rs O P.tolSq P.maxIter s (Am.interp prev to (A.div P.delta dist))).2.1)) then
          .error (.wandered, vr.2)
        else if A.le dist (Am.dist (project A Rs O P.tolSq P.maxIter s (Am.interp prev to (A.div P.delta dist))).2.1 to) then
          .error (.noProgress, vr.2)
        else .ok ((project A Rs O P.tolSq P.maxIter s (Am.interp prev to (A.div P.delta dist))).2.1, vr.2,
          Am.dist (project A Rs O P.tolSq P.maxIter s (Am.interp prev to (A.div P.delta dist))).2.1 to,
          A.add total (Am.dist prev (project A Rs O P.tolSq P.maxIter s (Am.interp prev to (A.div P.delta dist))).2.1)))
        = .ok (x, s', nd, tot) →
      StepOK A Am Rs O P interpolate to prev x dist ∧ nd = Am.dist x to := by
    intro vr hvr h
    split at h
    · cases h
    · rename_i hp
      split at h
      · cases h
      · rename_i hv
        split at h
        · cases h
        · rename_i hs
          split at h
          · cases h
          · split at h
            · cases h
            · rename_i hprog
              simp only [Except.ok.injEq, Prod.mk.injEq] at h
              obtain ⟨hx, _, hnd, _⟩ := h
              subst hx
              refine ⟨⟨⟨s, Am.interp prev to (A.div P.delta dist),
                (project A Rs O P.tolSq P.maxIter s (Am.interp prev to (A.div P.delta dist))).2.2, ?_⟩, ?_, ?_, ?_, trivial⟩, hnd.symm⟩
              · have : (project A Rs O P.tolSq P.maxIter s (Am.interp prev to (A.div P.delta dist))).1 = true := by
                  simpa using hp
                rw [← this]
              · intro hi
                rw [hvr hi] at hv
                exact ⟨_, by simpa using hv⟩
              · simpa using hs
              · simpa using hprog
  exact key _ (by intro hi; simp [hi]) h

theorem geoLoop_trace (mx : D) : ∀ (k : Nat) (s : σ) (prev : S) (dist total : D),
    Trace A Am Rs O P interpolate to prev dist
      (geoLoop A Am Rs O P interpolate to mx k s prev dist total).states
  | 0, s, prev, dist, total => by simp only [geoLoop]; exact .nil _ _
  | k + 1, s, prev, dist, total => by
    cases hstep : geoStep A Am Rs O P interpolate to mx s prev dist total with
    | error e =>
      obtain ⟨why, s'⟩ := e
      simp only [geoLoop, hstep]
      exact .nil _ _
    | ok v =>
      obtain ⟨x, s', nd, tot⟩ := v
      obtain ⟨hok, hnd⟩ := geoStep_ok A Am Rs O P interpolate to mx s prev dist total x s' nd tot hstep
      subst hnd
      simp only [geoLoop, hstep]
      split
      · exact .cons hok (geoLoop_trace mx k _ _ _ _)
      · exact .cons hok (.nil _ _)

theorem Trace.mem {prev : S} {dist : D} {xs : List S}
    (h : Trace A Am Rs O P interpolate to prev dist xs) :
    ∀ x ∈ xs, Projected A Rs O P.tolSq P.maxIter x ∧ (interpolate = false → AnsweredValid O x) := by
  induction h with
  | nil => intro x hx; simp at hx
  | cons hok _ ih =>
    intro y hy
    rcases List.mem_cons.mp hy with rfl | hy
    · exact ⟨hok.projected, hok.valid⟩
    · exact ih y hy

theorem Trace.step {prev : S} {dist : D} {xs : List S}
    (h : Trace A Am Rs O P interpolate to prev dist xs) :
    Consec (fun a b => A.lt (A.mul P.lambda P.delta) (Am.dist a b) = false) (prev :: xs) := by
  induction h with
  | nil => exact trivial
  | cons hok _ ih => exact ⟨hok.step, ih⟩

theorem Trace.progress {prev : S} {dist : D} {xs : List S}
    (h : Trace A Am Rs O P interpolate to prev dist xs) (hd : dist = Am.dist prev to) :
    Consec (fun a b => A.le (Am.dist a to) (Am.dist b to) = false) (prev :: xs) := by
  induction h with
  | nil => exact trivial
  | cons hok _ ih =>
    subst hd
    exact ⟨hok.progress, ih rfl⟩

theorem geoStep_error_ne_fuel (mx : D) (s : σ) (prev : S) (dist total : D) (why : Exit) (s' : σ)
    (h : geoStep A Am Rs O P interpolate to mx s prev dist total = .error (why, s')) : why ≠ .fuel := by
  intro hw
  subst hw
  unfold geoStep at h
  simp only at h
  repeat' split at h
  all_goals first | cases h | skip

/-- the flag and the last stored state -/
theorem geoLoop_ok (mx : D) : ∀ (k : Nat) (s : σ) (prev : S) (dist total : D), dist = Am.dist prev to →
    (geoLoop A Am Rs O P interpolate to mx k s prev dist total).ok =
      (decide ((geoLoop A Am Rs O P interpolate to mx k s prev dist total).exit ≠ .fuel) &&
       A.le (Am.dist ((prev :: (geoLoop A Am Rs O P interpolate to mx k s prev dist total).states).getLast
          (by simp)) to) P.delta)
  | 0, s, prev, dist, total, _ => by simp [geoLoop]
  | k + 1, s, prev, dist, total, hd => by
    subst hd
    cases hstep : geoStep A Am Rs O P interpolate to mx s prev (Am.dist prev to) total with
    | error e =>
      obtain ⟨why, s'⟩ := e
      have := geoStep_error_ne_fuel A Am Rs O P interpolate to mx s prev _ total why s' hstep
      simp [geoLoop, hstep, this]
    | ok v =>
      obtain ⟨x, s', nd, tot⟩ := v
      obtain ⟨_, hnd⟩ := geoStep_ok A Am Rs O P interpolate to mx s prev _ total x s' nd tot hstep
      subst hnd
      simp only [geoLoop, hstep]
      split
      · have ih := geoLoop_ok mx k s' x (Am.dist x to) tot rfl
        simp only [List.getLast_cons_cons]
        exact ih
      · simp

end geo

/-! ### `geodesicInterpolate`, `interpolate`, `checkMotion` -/

theorem geodesicInterpolate_mem (A : Arith D) (Am : Ambient S D) (g : List S) (t : D) (x : S)
    (h : geodesicInterpolate A Am g t = some x) : x ∈ g := by
  unfold geodesicInterpolate at h
  cases hi : geodesicInterpolateIdx A Am g t with
  | none => simp [hi] at h
  | some i =>
    simp only [hi, Option.bind_some] at h
    exact List.mem_of_getElem? h

theorem partialSums_length (A : Arith D) (Am : Ambient S D) :
    ∀ (p : S) (xs : List S) (acc : D), (partialSums A Am p xs acc).length = xs.length
  | _, [], _ => rfl
  | p, x :: xs, acc => by simp [partialSums, partialSums_length A Am x xs]

theorem sumsOf_length (A : Arith D) (Am : Ambient S D) (g : List S) :
    (sumsOf A Am g).length = g.length := by
  cases g with
  | nil => rfl
  | cons x xs => simp [sumsOf, partialSums_length]

theorem searchIdx_lt (A : Arith D) (d : Array D) (last t : D) :
    ∀ (fuel i : Nat), i < d.size → searchIdx A d last t fuel i < d.size
  | 0, i, h => by simpa [searchIdx] using h
  | fuel + 1, i, h => by
    simp only [searchIdx]
    split
    · split
      · exact searchIdx_lt A d last t fuel (i + 1) (by omega)
      · exact h
    · exact h

theorem interpolate_mem (A : Arith D) (Am : Ambient S D) (geo : Geo σ S) (s : σ) (frm to : S) (t : D)
    (x : S) (h : (interpolate A Am geo s frm to t).1 = some x) :
    x = frm ∨ ((geo s frm to true).1 = true ∧ x ∈ (geo s frm to true).2.1) := by
  unfold interpolate at h
  by_cases hok : (geo s frm to true).1 = true
  · simp only [hok, ↓reduceIte] at h
    exact Or.inr ⟨hok, geodesicInterpolate_mem A Am _ t x h⟩
  · simp only [hok] at h
    simp only [Bool.false_eq_true, ↓reduceIte, Option.some.injEq] at h
    exact Or.inl h.symm

end OmplModel.Constrained
