import OmplModel.Model.PlannerProtoInterm
import OmplModel.Proofs.PlannerProtoControl
/-!
C03, round 10: the intermediate-states core of geometric::RRT (`rrtiCore`) is lawful — whatever
`validSegmentCount` and `interpolate` return, `getMotionStates` allocates `count + 2` states, `states[0]` is freed
exactly once and every other state is adopted by exactly one motion.  Core Lean only, arithmetic-free.
-/
namespace OmplModel.PlannerProto

variable {σ δ : Type}

theorem motionStates_length (G : Geom σ) (a b : σ) (c : Nat) : (motionStates G a b c).length = c + 2 := by
  unfold motionStates
  simp only
  split
  · rename_i h
    have : c = 0 := by omega
    simp [this]
  · simp

/-- the last state `getMotionStates` produces is a copy of `s2` -/
theorem motionStates_getLast (G : Geom σ) (a b : σ) (c : Nat) : (motionStates G a b c).getLast? = some b := by
  unfold motionStates
  simp only
  split
  · simp
  · rw [List.getLast?_cons]
    simp

theorem freshIds_succ (n len : Nat) : freshIds n (len + 1) = n :: freshIds (n + 1) len := by
  simp only [freshIds, List.range_succ_eq_map, List.map_cons, List.map_map, Nat.add_zero]
  congr 1
  apply List.map_congr_left
  intro a _
  simp only [Function.comp]
  omega

theorem chain_owned : ∀ (zs : List (Nat × σ)) (t : Tree σ) (p : Nat),
    ownedT (chain t p zs) = ownedT t ++ zs.map (·.1) := by
  intro zs
  induction zs with
  | nil => intro t p; simp [chain]
  | cons z r ih =>
    intro t p
    obtain ⟨id, st⟩ := z
    simp only [chain, List.map_cons]
    rw [ih, ownedT_push]
    simp

theorem chain_size : ∀ (zs : List (Nat × σ)) (t : Tree σ) (p : Nat), (chain t p zs).size = t.size + zs.length := by
  intro zs
  induction zs with
  | nil => intro t p; simp [chain]
  | cons z r ih =>
    intro t p
    obtain ⟨id, st⟩ := z
    simp only [chain, List.length_cons]
    rw [ih, Array.size_push]
    omega

/-- the ids of the adopted states: everything `getMotionStates` allocated except `states[0]` -/
theorem adopted_ids (n : Nat) (states : List σ) (len : Nat) (h : states.length = len + 1) :
    (((freshIds n states.length).zip states).drop 1).map (·.1) = freshIds (n + 1) len := by
  rw [List.map_drop, List.map_fst_zip (by rw [length_freshIds]; exact Nat.le_refl _), h, freshIds_succ]
  rfl

theorem rrti_lawful (G : Geom σ) : LawfulCore (rrtiCore G : CoreSpec σ δ (Draw σ δ) (Tree σ)) where
  owned_init := by simp [rrtiCore]
  owned_addRoot := by
    intro c i s
    simp only [rrtiCore, Array.toList_push, List.map_append, List.map_cons, List.map_nil]
    exact List.perm_append_comm
  iterate_replay := by
    intro c n d L X h
    simp only [rrtiCore]
    split
    · rename_i hn
      split
      · -- a valid motion: allocate count + 2 states, free states[0], adopt the rest
        generalize hst : motionStates G c[d.near].state d.st
          (if G.segs c[d.near].state d.st > 0 then G.segs c[d.near].state d.st - 1 else 0) = states
        have hlen : states.length = ((if G.segs c[d.near].state d.st > 0 then G.segs c[d.near].state d.st - 1 else 0) + 1) + 1 := by
          rw [← hst, motionStates_length]
        generalize ((if G.segs c[d.near].state d.st > 0 then G.segs c[d.near].state d.st - 1 else 0) + 1) = len at hlen
        have hne : states.length ≠ 0 := by omega
        simp only [hne, ne_eq, not_false_eq_true, if_true]
        obtain ⟨L1, r1, p1⟩ := fresh_replay states.length n L
        have hown : ownedT (chain c d.near (((freshIds n states.length).zip states).drop 1)) =
            ownedT c ++ freshIds (n + 1) len := by
          rw [chain_owned, adopted_ids n states len hlen]
        have q : L1.Perm (n :: (ownedT c ++ freshIds (n + 1) len ++ X)) := by
          refine p1.trans ?_
          rw [hlen, freshIds_succ]
          have h1 : (L ++ n :: freshIds (n + 1) len).Perm (n :: (L ++ freshIds (n + 1) len)) := List.perm_middle
          refine h1.trans (List.Perm.cons n ?_)
          have h2 : (L ++ freshIds (n + 1) len).Perm ((ownedT c ++ X) ++ freshIds (n + 1) len) :=
            h.append_right _
          refine h2.trans ?_
          simp only [List.append_assoc]
          exact List.Perm.append_left _ List.perm_append_comm
        obtain ⟨f1, f2⟩ := free_step L1 (ownedT c ++ freshIds (n + 1) len ++ X) (n + states.length) n q
        refine ⟨L1.erase n, ?_, ?_⟩
        · rw [replay_append, r1]
          simp only [Option.bind, replay, f1]
        · show (L1.erase n).Perm (ownedT (chain c d.near (((freshIds n states.length).zip states).drop 1)) ++ X)
          rw [hown]
          exact f2
      · exact ⟨L, by simp [replay], h⟩
    · exact ⟨L, by simp [replay], h⟩
  size_iterate := by
    intro c i d
    simp only [rrtiCore]
    split
    · split
      · simp only [chain_size]
        exact Nat.le_add_right _ _
      · exact Nat.le_refl _
    · exact Nat.le_refl _
  idx_iterate := by
    intro c i d r hr
    simp only [rrtiCore] at hr ⊢
    split at hr
    · rename_i hn
      simp only [hn, dite_true]
      split at hr
      · rename_i hv
        simp only [hv, if_true]
        simp only [List.mem_singleton] at hr
        rw [hr]
        simp only [chain_size]
        generalize (List.drop 1 _ : List (Nat × σ)).length = z
        split <;> omega
      · simp at hr
    · simp at hr
  path_nonempty := by
    intro c i h
    exact walk_ne_nil c i [] h

end OmplModel.PlannerProto
