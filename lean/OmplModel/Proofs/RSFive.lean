import OmplModel.Proofs.RSBack
import OmplModel.Proofs.DubinsWords
/-!
The five-segment Reeds–Shepp family `CCSCC` (formula 8.11, `LpRmSLmRp`), over ℝ: the word
`L_t R_{-π/2} S_u L_{-π/2} R_v` the solver returns, driven from the origin by the model's own integration,
ends at `(x, y)` with heading `φ` modulo 2π — the three `assert`s of `LpRmSLmRp`, exactly.
-/
namespace OmplModel.RS
open OmplModel OmplModel.Dubins

attribute [-instance] Num.instOfNat

/-- end pose of the five-segment word of type 16 -/
theorem end_five (t u v : ℝ) :
    rsIntegFull (bCCSCC 16 false t u v).segList origin =
      ⟨4 * Real.sin t - 2 * Real.cos t - u * Real.sin t - Real.sin (t - v),
       1 - 4 * Real.cos t - 2 * Real.sin t + u * Real.cos t + Real.cos (t - v), t - v⟩ := by
  simp only [RSPath.segList, bCCSCC, sg, rsType, RSPath.lens, List.zip_cons_cons, List.zip_nil_right,
    rsIntegFull, rsStep_L, rsStep_R, rsStep_S, origin, RSR.hpi_eq, Bool.false_eq_true, if_false]
  simp only [zero_add, sub_neg_eq_add, add_neg_cancel_right, Real.sin_zero, Real.cos_zero,
    Real.sin_add_pi_div_two, Real.cos_add_pi_div_two]
  refine congr (congr (congrArg Pose.mk ?_) ?_) rfl <;> ring

/-- the rotation identity of formula 8.11 -/
theorem five_core (xi eta : ℝ) (h4 : 4 ≤ xi ^ 2 + eta ^ 2) :
    let w := Real.sqrt (xi ^ 2 + eta ^ 2 - 4)
    let t := Complex.arg ⟨-2 * xi - w * eta, w * xi - 2 * eta⟩
    w * Real.sin t - 2 * Real.cos t = xi ∧ -w * Real.cos t - 2 * Real.sin t = eta := by
  intro w t
  have hw2 : w ^ 2 = xi ^ 2 + eta ^ 2 - 4 := Real.sq_sqrt (by linarith)
  obtain ⟨hc, hs⟩ := Dubins.polar (-2 * xi - w * eta) (w * xi - 2 * eta)
  have hR : (-2 * xi - w * eta) ^ 2 + (w * xi - 2 * eta) ^ 2 = (xi ^ 2 + eta ^ 2) ^ 2 := by
    linear_combination (xi ^ 2 + eta ^ 2) * hw2
  rw [hR, Real.sqrt_sq (by positivity)] at hc hs
  have hR0 : xi ^ 2 + eta ^ 2 ≠ 0 := by linarith
  change (xi ^ 2 + eta ^ 2) * Real.cos t = _ at hc
  change (xi ^ 2 + eta ^ 2) * Real.sin t = _ at hs
  constructor
  · apply mul_left_cancel₀ hR0
    linear_combination w * hs - 2 * hc + xi * hw2
  · apply mul_left_cancel₀ hR0
    linear_combination (-w) * hc - 2 * hs + eta * hw2

/-- **formula 8.11 reaches the goal**: the word `L_t R_{-π/2} S_u L_{-π/2} R_v` (type 16) returned by
`LpRmSLmRp x y φ` ends at `(x, y)` with heading `φ + 2πk`. -/
theorem rs_LpRmSLmRp_reaches (x y phi t u v : ℝ) (h : LpRmSLmRp x y phi = some (t, u, v)) :
    (rsIntegFull (bCCSCC 16 false t u v).segList origin).x = x ∧
    (rsIntegFull (bCCSCC 16 false t u v).segList origin).y = y ∧
    ∃ k : ℤ, (rsIntegFull (bCCSCC 16 false t u v).segList origin).th = phi + k * (2 * Real.pi) := by
  unfold LpRmSLmRp at h
  simp only [polar, DubinsR.sin_eq, DubinsR.cos_eq, DubinsR.sqrt_eq, DubinsR.atan2_eq, DubinsR.ofNat_one,
    DubinsR.ofNat_two, DubinsR.ofNat_four] at h
  set xi := x + Real.sin phi with hxi
  set eta := y - 1 - Real.cos phi with heta
  split at h
  case isFalse => cases h
  rename_i hrho
  split at h
  case isFalse => cases h
  split at h
  case isFalse => cases h
  have h' := Option.some.inj h
  clear h
  have hrho' : (2 : ℝ) ≤ Real.sqrt (xi * xi + eta * eta) := hrho
  have hnn : 0 ≤ xi * xi + eta * eta := add_nonneg (mul_self_nonneg _) (mul_self_nonneg _)
  have hsq : Real.sqrt (xi * xi + eta * eta) * Real.sqrt (xi * xi + eta * eta) = xi ^ 2 + eta ^ 2 := by
    rw [Real.mul_self_sqrt hnn]; ring
  have h4 : 4 ≤ xi ^ 2 + eta ^ 2 := by
    rw [← hsq]; nlinarith [hrho']
  rw [hsq] at h'
  obtain ⟨hc1, hc2⟩ := five_core xi eta h4
  set w := Real.sqrt (xi ^ 2 + eta ^ 2 - 4) with hw
  have hX : -2 * xi + (4 - w - 4) * eta = -2 * xi - w * eta := by ring
  have hY : (4 - (4 - w)) * xi - 2 * eta = w * xi - 2 * eta := by ring
  rw [hX, hY] at h'
  obtain ⟨k1, hk1⟩ := rmod2pi_exact (Complex.arg ⟨-2 * xi - w * eta, w * xi - 2 * eta⟩)
  set A := Complex.arg ⟨-2 * xi - w * eta, w * xi - 2 * eta⟩ with hA
  obtain ⟨k2, hk2⟩ := rmod2pi_exact (rmod2pi A - phi)
  obtain ⟨ht, hu, hv⟩ : rmod2pi A = t ∧ 4 - w = u ∧ rmod2pi (rmod2pi A - phi) = v := by
    simpa [Prod.ext_iff] using h'
  rw [end_five]
  have et : t = A + k1 * (2 * Real.pi) := by rw [← ht, hk1]
  have ev : t - v = phi + ((-k2 : ℤ) : ℝ) * (2 * Real.pi) := by
    rw [← hv, hk2, ht]; push_cast; ring
  have hst : Real.sin t = Real.sin A := by rw [et]; exact Real.sin_add_int_mul_two_pi A k1
  have hct : Real.cos t = Real.cos A := by rw [et]; exact Real.cos_add_int_mul_two_pi A k1
  have hsv : Real.sin (t - v) = Real.sin phi := by rw [ev]; exact Real.sin_add_int_mul_two_pi phi (-k2)
  have hcv : Real.cos (t - v) = Real.cos phi := by rw [ev]; exact Real.cos_add_int_mul_two_pi phi (-k2)
  refine ⟨?_, ?_, -k2, ev⟩
  · show 4 * Real.sin t - 2 * Real.cos t - u * Real.sin t - Real.sin (t - v) = x
    rw [hst, hct, hsv, ← hu]
    linear_combination hc1 + hxi
  · show 1 - 4 * Real.cos t - 2 * Real.sin t + u * Real.cos t + Real.cos (t - v) = y
    rw [hst, hct, hcv, ← hu]
    linear_combination hc2 + heta

/-- a concrete instance: the goal `(-2, -2)` with equal heading is reached by two reversing quarter turns -/
theorem LpRmSLmRp_example : LpRmSLmRp (-2 : ℝ) (-2) 0 = some (0, 0, 0) := by
  unfold LpRmSLmRp
  simp only [polar, DubinsR.sin_eq, DubinsR.cos_eq, DubinsR.sqrt_eq, DubinsR.atan2_eq, DubinsR.ofNat_one,
    DubinsR.ofNat_two, DubinsR.ofNat_four, Real.sin_zero, Real.cos_zero]
  have e1 : (-2 + 0 : ℝ) * (-2 + 0) + (-2 - 1 - 1) * (-2 - 1 - 1) = 20 := by norm_num
  have h20 : Real.sqrt 20 * Real.sqrt 20 = 20 := Real.mul_self_sqrt (by norm_num)
  have h16 : Real.sqrt (20 - 4) = 4 := by
    rw [show (20 - 4 : ℝ) = 4 ^ 2 by norm_num]; exact Real.sqrt_sq (by norm_num)
  have h2 : (2 : ℝ) ≤ Real.sqrt 20 := by
    rw [show (2 : ℝ) = Real.sqrt (2 ^ 2) from (Real.sqrt_sq (by norm_num)).symm]
    exact Real.sqrt_le_sqrt (by norm_num)
  rw [e1, h20, h16]
  have hz := RSR.rzero_pos
  have harg : Complex.arg ⟨-2 * (-2 + 0) + (4 - 4 - 4) * (-2 - 1 - 1), (4 - (4 - 4)) * (-2 + 0) - 2 * (-2 - 1 - 1)⟩ = 0 := by
    have : (⟨-2 * (-2 + 0) + (4 - 4 - 4) * (-2 - 1 - 1), (4 - (4 - 4)) * (-2 + 0) - 2 * (-2 - 1 - 1)⟩ : ℂ) = ((20 : ℝ) : ℂ) := by
      apply Complex.ext <;> norm_num
    rw [this]; exact Complex.arg_ofReal_of_nonneg (by norm_num)
  rw [harg, rmod2pi_zero, sub_zero, rmod2pi_zero]
  rw [if_pos h2, if_pos (by linarith), if_pos ⟨by linarith, by linarith⟩]
  norm_num

end OmplModel.RS
