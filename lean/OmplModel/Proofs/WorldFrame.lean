import OmplModel.Proofs.RSReach
import OmplModel.Proofs.RSBack
import OmplModel.Proofs.RSInteg
import OmplModel.Proofs.RSAF
import OmplModel.Proofs.WorldFrameYaw
import Mathlib.Tactic.Linarith
import Mathlib.Tactic.Ring
import Mathlib.Tactic.LinearCombination
/-!
World-frame end-point correctness of the Reeds–Shepp `interpolate` (C14, round 4), over ℝ.

`reedsSheppStates rho s1 s2` rotates the displacement into the frame of `s1`, divides by the turning
radius and calls `reedsShepp`; `rsInterpPath` integrates the returned signed word from `(0, 0, s1.th)` at
unit radius, scales by `rho` and translates by `s1`.  `reedsShepp_reaches` (round 3) is the statement in
the normalised frame.  Here the two are composed:

* with the whole length as budget the interpolation loop drives the whole signed word (`rsInteg_total`);
* integration commutes with the rotation by `s1.th` (`rsIntegFull_move`), which undoes the rotation that
  `reedsSheppStates` applied (`cos² + sin² = 1`), and `· rho` undoes `/ rho` (`rho ≠ 0`);
* hence `rsInterpPath rho s1 P 1` is `s2` up to the SO(2) wrap of the yaw (`rs_interp_one_world`).
-/
namespace OmplModel.RS
open OmplModel OmplModel.Dubins DubinsR RSR
attribute [-instance] Num.instOfNat

/-! ## the loop with the whole length as budget -/

theorem rsIntegFull_of_absSum_nonpos (segs : List (RSeg × ℝ)) (h : absSum segs ≤ 0) (P : Pose ℝ) :
    rsIntegFull segs P = P := by
  induction segs generalizing P with
  | nil => rfl
  | cons hd tl ih =>
    obtain ⟨s, l⟩ := hd
    rw [absSum_cons] at h
    have h1 := abs_nonneg l
    have h2 := absSum_nonneg tl
    have hl : l = 0 := abs_eq_zero.mp (le_antisymm (by simp only at h; linarith) h1)
    subst hl
    show rsIntegFull tl (rsStep s 0 P) = P
    rw [rsStep_zero]
    exact ih (by simp only [abs_zero] at h; linarith) P

theorem cut_of_abs_le (seg l : ℝ) (h : |l| ≤ seg) : cut seg l = l := by
  unfold cut
  split
  · rename_i hl
    rw [abs_of_neg hl] at h
    exact max_eq_right (by linarith)
  · rename_i hl
    rw [abs_of_nonneg (not_lt.mp hl)] at h
    exact min_eq_right h

/-- with the whole (absolute) length as budget the loop drives the whole signed word -/
theorem rsInteg_total (segs : List (RSeg × ℝ)) (P : Pose ℝ) :
    rsInteg segs (absSum segs) P = rsIntegFull segs P := by
  induction segs generalizing P with
  | nil => rfl
  | cons hd tl ih =>
    obtain ⟨s, l⟩ := hd
    rw [rsInteg_eq_integFull_truncate]
    rcases lt_or_ge 0 (absSum ((s, l) :: tl)) with hpos | hz
    · rw [rsTruncate_cons_pos s l tl _ hpos]
      have hle : |l| ≤ absSum ((s, l) :: tl) := by
        rw [absSum_cons]; have := absSum_nonneg tl; simp only; linarith
      rw [cut_of_abs_le _ _ hle]
      have e : absSum ((s, l) :: tl) - |l| = absSum tl := by rw [absSum_cons]; simp only; ring
      rw [e]
      show rsIntegFull (rsTruncate tl (absSum tl)) (rsStep s l P) = rsIntegFull tl (rsStep s l P)
      rw [← rsInteg_eq_integFull_truncate]
      exact ih _
    · rw [rsTruncate_of_nonpos _ _ hz, rsIntegFull_of_absSum_nonpos _ hz]
      rfl

theorem rsInteg_zero (segs : List (RSeg × ℝ)) (P : Pose ℝ) : rsInteg segs 0 P = P := by
  rw [rsInteg_eq_integFull_truncate, rsTruncate_of_nonpos _ _ le_rfl]; rfl

/-- `interpolate(from, path, 1, ·)` drives the whole word -/
theorem rsInterpPath_one (rho : ℝ) (frm : Pose ℝ) (P : RSPath ℝ) :
    rsInterpPath rho frm P 1 =
      ⟨(rsIntegFull P.segList ⟨0, 0, frm.th⟩).x * rho + frm.x,
       (rsIntegFull P.segList ⟨0, 0, frm.th⟩).y * rho + frm.y,
       so2Enforce (rsIntegFull P.segList ⟨0, 0, frm.th⟩).th⟩ := by
  unfold rsInterpPath
  simp only [ofNat_zero]
  rw [one_mul, ← segList_absSum, rsInteg_total]

/-- `interpolate(from, path, 0, ·)` does not move -/
theorem rsInterpPath_zero (rho : ℝ) (frm : Pose ℝ) (P : RSPath ℝ) :
    rsInterpPath rho frm P 0 = ⟨frm.x, frm.y, so2Enforce frm.th⟩ := by
  unfold rsInterpPath
  simp only [ofNat_zero]
  rw [zero_mul, rsInteg_zero]
  simp

/-! ## the world frame -/

/-- what `reedsSheppStates` calls `reedsShepp` with, in plain real terms -/
theorem reedsSheppStates_eq (rho : ℝ) (s1 s2 : Pose ℝ) :
    reedsSheppStates rho s1 s2 =
      reedsShepp ((Real.cos s1.th * (s2.x - s1.x) + Real.sin s1.th * (s2.y - s1.y)) / rho)
        ((-Real.sin s1.th * (s2.x - s1.x) + Real.cos s1.th * (s2.y - s1.y)) / rho) (s2.th - s1.th) := rfl

/-- the end pose of the whole word driven from `(0, 0, θ)` is the rotation by `θ` of its end pose driven
from the origin -/
theorem rsIntegFull_from_heading (W : List (RSeg × ℝ)) (th : ℝ) :
    rsIntegFull W ⟨0, 0, th⟩ = move 0 0 th (rsIntegFull W ⟨0, 0, 0⟩) := by
  have h := rsIntegFull_move W 0 0 th origin
  rw [move_origin] at h
  exact h

/-- **world-frame end point**: the path `reedsSheppStates rho s1 s2` returns, interpolated at `t = 1`
from `s1`, is `s2` (yaw modulo 2π, then wrapped by `enforceBounds`) -/
theorem rs_interp_one_world (rho : ℝ) (hrho : rho ≠ 0) (s1 s2 : Pose ℝ) (P : RSPath ℝ)
    (h : reedsSheppStates rho s1 s2 = some P) :
    ∃ k : ℤ, rsInterpPath rho s1 P 1 = ⟨s2.x, s2.y, so2Enforce (s2.th + k * (2 * Real.pi))⟩ := by
  rw [reedsSheppStates_eq] at h
  obtain ⟨hx, hy, k, hth⟩ := reedsShepp_reaches _ _ _ P h
  refine ⟨k, ?_⟩
  rw [rsInterpPath_one, rsIntegFull_from_heading]
  generalize rsIntegFull P.segList ⟨0, 0, 0⟩ = G at hx hy hth
  obtain ⟨gx, gy, gth⟩ := G
  simp only at hx hy hth
  have hX : gx * rho = Real.cos s1.th * (s2.x - s1.x) + Real.sin s1.th * (s2.y - s1.y) := by
    rw [hx, div_mul_cancel₀ _ hrho]
  have hY : gy * rho = -Real.sin s1.th * (s2.x - s1.x) + Real.cos s1.th * (s2.y - s1.y) := by
    rw [hy, div_mul_cancel₀ _ hrho]
  have hcs := Real.cos_sq_add_sin_sq s1.th
  simp only [move]
  refine congr (congr (congrArg Pose.mk ?_) ?_) (congrArg so2Enforce ?_)
  · linear_combination Real.cos s1.th * hX - Real.sin s1.th * hY + (s2.x - s1.x) * hcs
  · linear_combination Real.sin s1.th * hX + Real.cos s1.th * hY + (s2.y - s1.y) * hcs
  · rw [hth]; ring

/-- the rotation `reedsSheppStates` applies preserves the Euclidean norm -/
theorem rot_norm_sq (th dx dy : ℝ) :
    (Real.cos th * dx + Real.sin th * dy) ^ 2 + (-Real.sin th * dx + Real.cos th * dy) ^ 2 =
      dx ^ 2 + dy ^ 2 := by
  have hcs := Real.cos_sq_add_sin_sq th
  linear_combination (dx ^ 2 + dy ^ 2) * hcs

/-- world frame: the straight-line distance is at most `rho · length` -/
theorem rs_world_len_ge (rho : ℝ) (hrho : 0 < rho) (s1 s2 : Pose ℝ) (P : RSPath ℝ)
    (h : reedsSheppStates rho s1 s2 = some P) :
    Real.sqrt ((s2.x - s1.x) ^ 2 + (s2.y - s1.y) ^ 2) ≤ rho * P.len := by
  rw [reedsSheppStates_eq] at h
  obtain ⟨hx, hy, -⟩ := reedsShepp_reaches _ _ _ P h
  have hl := reaches_len_ge P 0 _ _ hx hy
  have e : ((Real.cos s1.th * (s2.x - s1.x) + Real.sin s1.th * (s2.y - s1.y)) / rho) ^ 2 +
      ((-Real.sin s1.th * (s2.x - s1.x) + Real.cos s1.th * (s2.y - s1.y)) / rho) ^ 2 =
      ((s2.x - s1.x) ^ 2 + (s2.y - s1.y) ^ 2) / rho ^ 2 := by
    rw [div_pow, div_pow, ← add_div, rot_norm_sq]
  rw [e, Real.sqrt_div (by positivity), Real.sqrt_sq hrho.le, div_le_iff₀ hrho] at hl
  linarith

/-- the same with the yaw in canonical form: the SO(2) wrap is 2π-periodic -/
theorem rs_interp_one_world_wrapped (rho : ℝ) (hrho : rho ≠ 0) (s1 s2 : Pose ℝ) (P : RSPath ℝ)
    (h : reedsSheppStates rho s1 s2 = some P) :
    rsInterpPath rho s1 P 1 = ⟨s2.x, s2.y, so2Enforce s2.th⟩ := by
  obtain ⟨k, hk⟩ := rs_interp_one_world rho hrho s1 s2 P h
  rw [hk, so2Enforce_add_int]

/-- `interpolate(from, to, t, ·)` over ℝ with the ordinary order and numerals -/
theorem rsInterpolate_eq (rho : ℝ) (frm tgt : Pose ℝ) (t : ℝ) :
    rsInterpolate rho frm tgt t =
      if 1 ≤ t then some tgt else if t ≤ 0 then some frm
      else (reedsSheppStates rho frm tgt).map (fun p => rsInterpPath rho frm p t) := by
  unfold rsInterpolate
  simp only [ofNat_one, ofNat_zero]

end OmplModel.RS
