import OmplModel.Model.ReedsShepp
import OmplModel.Proofs.DubinsReal
import Mathlib.Analysis.SpecialFunctions.Trigonometric.Inverse
import Mathlib.Tactic.Linarith
import Mathlib.Tactic.Ring
/-!
`RSNum ℝ` for the Reeds–Shepp model (C14, round 2): round 1's `instDNumReal` plus `asin := Real.arcsin`.
The `@[simp]` lemmas of namespace `RSR` turn the model's constants into ordinary real ones; the
operations themselves are handled by round 1's `DubinsR.*` lemmas.

`rmod2pi_exact`: over ℝ the code's `mod2pi` changes its argument by an exact integer multiple of 2π.
-/
namespace OmplModel.RS
open OmplModel OmplModel.Dubins

noncomputable instance instRSNumReal : RSNum ℝ where
  toDNum := instDNumReal
  asin := Real.arcsin

/- Mathlib numerals from here on (see Proofs/DubinsReal.lean). -/
attribute [-instance] Num.instOfNat

-- the operations reaching ℝ through `RSNum` are the usual ones, definitionally
example (a b : ℝ) : (@HAdd.hAdd ℝ ℝ ℝ (@instHAdd ℝ instRSNumReal.toDNum.toNum.toAdd) a b) = a + b := rfl
example (a b : ℝ) : (@LT.lt ℝ instRSNumReal.toDNum.toNum.toLT a b) = (a < b) := rfl
example (a b : ℝ) : (@LE.le ℝ instRSNumReal.toDNum.toNum.toLE a b) = (a ≤ b) := rfl

namespace RSR
open DubinsR

@[simp] theorem asin_eq (x : ℝ) : RSNum.asin x = Real.arcsin x := rfl

@[simp] theorem rpi_eq : (rpi : ℝ) = Real.pi := rfl

@[simp] theorem rtwopi_eq : (rtwopi : ℝ) = 2 * Real.pi := by
  unfold rtwopi; rw [ofNat_two, pi_eq]

@[simp] theorem rhalf_eq : (rhalf : ℝ) = 1 / 2 := by
  unfold rhalf; rw [ofDec_eq]; norm_num

@[simp] theorem hpi_eq : (hpi : ℝ) = Real.pi / 2 := by
  unfold hpi; rw [rhalf_eq, pi_eq]; ring

@[simp] theorem ofNat_ten : (@OfNat.ofNat ℝ 10 (Num.instOfNat 10) : ℝ) = 10 := by
  show ((10 : ℕ) : ℝ) = 10; exact Nat.cast_ofNat

@[simp] theorem ofNat_sixteen : (@OfNat.ofNat ℝ 16 (Num.instOfNat 16) : ℝ) = 16 := by
  show ((16 : ℕ) : ℝ) = 16; exact Nat.cast_ofNat

@[simp] theorem ofNat_twenty : (@OfNat.ofNat ℝ 20 (Num.instOfNat 20) : ℝ) = 20 := by
  show ((20 : ℕ) : ℝ) = 20; exact Nat.cast_ofNat

/-- `ZERO = 10 · 2⁻⁵²` -/
theorem rzero_eq : (rzero : ℝ) = 10 * (1 / 2 ^ 52) := by
  unfold rzero
  show (10 * Num.ofDec (5 ^ 52) 52 : ℝ) = _
  rw [ofNat_ten, ofDec_eq]
  norm_num

theorem rzero_pos : (0 : ℝ) < rzero := by
  rw [rzero_eq]; positivity

@[simp] theorem ofDec_25_2 : (Num.ofDec 25 2 : ℝ) = 1 / 4 := by
  rw [ofDec_eq]; norm_num

theorem rmod2pi_eq (x : ℝ) :
    rmod2pi x =
      (if (if x < 0 ∨ 0 < x then Num.fmod x (2 * Real.pi) else x) < -Real.pi then
        (if x < 0 ∨ 0 < x then Num.fmod x (2 * Real.pi) else x) + 2 * Real.pi
      else if Real.pi < (if x < 0 ∨ 0 < x then Num.fmod x (2 * Real.pi) else x) then
        (if x < 0 ∨ 0 < x then Num.fmod x (2 * Real.pi) else x) - 2 * Real.pi
      else (if x < 0 ∨ 0 < x then Num.fmod x (2 * Real.pi) else x)) := by
  unfold rmod2pi
  simp only [rtwopi_eq, rpi_eq, ofNat_zero]

theorem fmod_eq (x y : ℝ) :
    Num.fmod x y = x - y * ((if 0 ≤ x / y then ⌊x / y⌋ else ⌈x / y⌉ : ℤ) : ℝ) := rfl

theorem fmod_exact (x y : ℝ) : ∃ k : ℤ, Num.fmod x y = x + k * y :=
  ⟨-(if 0 ≤ x / y then ⌊x / y⌋ else ⌈x / y⌉), by rw [fmod_eq]; push_cast; ring⟩

end RSR

open RSR in
/-- over ℝ the code's `mod2pi` changes its argument by an exact integer multiple of 2π -/
theorem rmod2pi_exact (x : ℝ) : ∃ k : ℤ, rmod2pi x = x + k * (2 * Real.pi) := by
  rw [rmod2pi_eq]
  have hv : ∃ k : ℤ, (if x < 0 ∨ 0 < x then Num.fmod x (2 * Real.pi) else x) = x + k * (2 * Real.pi) := by
    split
    · exact fmod_exact x _
    · exact ⟨0, by simp⟩
  obtain ⟨k, hk⟩ := hv
  generalize (if x < 0 ∨ 0 < x then Num.fmod x (2 * Real.pi) else x) = v at hk
  split
  · exact ⟨k + 1, by rw [hk]; push_cast; ring⟩
  · split
    · exact ⟨k - 1, by rw [hk]; push_cast; ring⟩
    · exact ⟨k, hk⟩

open RSR in
theorem rmod2pi_zero : rmod2pi (0 : ℝ) = 0 := by
  rw [rmod2pi_eq]
  have hpi := Real.pi_pos
  simp only [lt_irrefl, or_self, if_false]
  rw [if_neg (by linarith), if_neg (by linarith)]

open RSR in
/-- on `[-π, π]` the code's `mod2pi` is the identity -/
theorem rmod2pi_of_mem (x : ℝ) (h1 : -Real.pi ≤ x) (h2 : x ≤ Real.pi) : rmod2pi x = x := by
  rw [rmod2pi_eq]
  have hpi := Real.pi_pos
  have hv : (if x < 0 ∨ 0 < x then Num.fmod x (2 * Real.pi) else x) = x := by
    split
    · rw [fmod_eq]
      have h0 : (if 0 ≤ x / (2 * Real.pi) then ⌊x / (2 * Real.pi)⌋ else ⌈x / (2 * Real.pi)⌉ : ℤ) = 0 := by
        split
        · rename_i h
          rw [Int.floor_eq_iff]
          refine ⟨by simpa using h, ?_⟩
          rw [Int.cast_zero, zero_add, div_lt_one (by positivity)]; linarith
        · rename_i h
          rw [Int.ceil_eq_iff]
          refine ⟨?_, by simpa using (not_le.mp h).le⟩
          rw [Int.cast_zero, zero_sub, lt_div_iff₀ (by positivity)]; linarith
      rw [h0]; simp
    · rfl
  rw [hv, if_neg (by linarith), if_neg (by linarith)]

end OmplModel.RS
