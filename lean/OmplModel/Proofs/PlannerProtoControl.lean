import OmplModel.Proofs.PlannerProtoPath
/-!
C03: the control-RRT core with intermediate states (`crrtCore`) is lawful — in particular every propagated state
is either adopted by exactly one motion or freed exactly once, whatever the propagation length, the position of
the first goal-satisfying state, an invalid last step or a too short propagation.  Core Lean only.
-/
namespace OmplModel.PlannerProto

variable {σ δ : Type}

def ownedT (t : Tree σ) : List Nat := t.toList.map (·.sid)

theorem ownedT_push (t : Tree σ) (m : Motion σ) : ownedT (t.push m) = ownedT t ++ [m.sid] := by
  simp [ownedT]

/-- adopted ∪ not-adopted = the propagated states, each exactly once -/
theorem adopt_owned : ∀ (zs : List (Nat × σ × Bool × δ)) (t : Tree σ) (parent : Nat),
    (ownedT (adopt t parent zs).1 ++ (adopt t parent zs).2.2).Perm (ownedT t ++ zs.map (·.1)) := by
  intro zs
  induction zs with
  | nil => intro t p; simp [adopt]
  | cons z r ih =>
    intro t p
    obtain ⟨id, st, sat, dist⟩ := z
    cases sat with
    | true =>
      simp only [adopt, if_true, ownedT_push, List.map_cons, List.append_assoc, List.singleton_append]
      exact List.Perm.refl _
    | false =>
      simp only [adopt, Bool.false_eq_true, if_false, List.map_cons]
      refine (ih (t.push ⟨st, some p, id⟩) t.size).trans ?_
      simp only [ownedT_push, List.append_assoc, List.singleton_append]
      exact List.Perm.refl _

theorem adopt_size : ∀ (zs : List (Nat × σ × Bool × δ)) (t : Tree σ) (parent : Nat),
    t.size ≤ (adopt t parent zs).1.size ∧ ∀ r ∈ (adopt t parent zs).2.1, r.1 < (adopt t parent zs).1.size := by
  intro zs
  induction zs with
  | nil => intro t p; simp [adopt]
  | cons z r ih =>
    intro t p
    obtain ⟨id, st, sat, dist⟩ := z
    cases sat with
    | true =>
      simp only [adopt, if_true, Array.size_push, List.mem_singleton]
      exact ⟨Nat.le_succ _, fun r' h => by rw [h]; exact Nat.lt_succ_self _⟩
    | false =>
      simp only [adopt, Bool.false_eq_true, if_false, List.mem_cons]
      have h := ih (t.push ⟨st, some p, id⟩) t.size
      have hs : t.size + 1 ≤ (adopt (t.push ⟨st, some p, id⟩) t.size r).1.size := by
        have := h.1; simp only [Array.size_push] at this; exact this
      refine ⟨by omega, ?_⟩
      intro r' hr'
      rcases hr' with hr' | hr'
      · rw [hr']; exact hs
      · exact h.2 r' hr'

theorem length_freshIds (n len : Nat) : (freshIds n len).length = len := by simp [freshIds]

/-- a step that was propagated, found invalid and freed at once -/
theorem tail_replay (b : Bool) (L : List Nat) (n : Nat) :
    replay (L, n) (if b then [Ev.alloc n, Ev.free n] else []) = some (L, n + (if b then 1 else 0)) := by
  cases b with
  | true => simp [replay, applyEv]
  | false => simp [replay]

theorem crrt_lawful : LawfulCore (crrtCore : CoreSpec σ δ (CDraw σ δ) (Tree σ)) where
  owned_init := by simp [crrtCore]
  owned_addRoot := by
    intro c i s
    simp only [crrtCore, Array.toList_push, List.map_append, List.map_cons, List.map_nil]
    exact List.perm_append_comm
  iterate_replay := by
    intro c n d L X h
    simp only [crrtCore]
    split
    · obtain ⟨L1, r1, p1⟩ := fresh_replay d.ps.length n L
      have r2 := tail_replay d.tail L1 (n + d.ps.length)
      split
      · -- adopt
        have hz : (List.zip (freshIds n d.ps.length) d.ps).map (·.1) = freshIds n d.ps.length :=
          List.map_fst_zip (by rw [length_freshIds]; exact Nat.le_refl _)
        have A := adopt_owned (List.zip (freshIds n d.ps.length) d.ps) c d.near
        rw [hz] at A
        have q : L1.Perm ((adopt c d.near (List.zip (freshIds n d.ps.length) d.ps)).2.2 ++
            (ownedT (adopt c d.near (List.zip (freshIds n d.ps.length) d.ps)).1 ++ X)) := by
          refine p1.trans ?_
          have h1 : (L ++ freshIds n d.ps.length).Perm ((ownedT c ++ freshIds n d.ps.length) ++ X) := by
            have := h.append_right (freshIds n d.ps.length)
            refine this.trans ?_
            simp only [ownedT, List.append_assoc]
            exact List.Perm.append_left _ List.perm_append_comm
          refine h1.trans ?_
          refine (A.symm.append_right X).trans ?_
          simp only [List.append_assoc]
          exact List.perm_append_comm_assoc _ _ _
        obtain ⟨L3, r3, p3⟩ := freeAll_replay _ L1 _ (n + d.ps.length + (if d.tail then 1 else 0)) q
        refine ⟨L3, ?_, p3⟩
        rw [replay_append, replay_append, r1]
        simp only [Option.bind]
        rw [r2]
        exact r3
      · have q : L1.Perm (freshIds n d.ps.length ++ (ownedT c ++ X)) := by
          refine p1.trans ?_
          exact (h.append_right _).trans List.perm_append_comm
        obtain ⟨L3, r3, p3⟩ := freeAll_replay _ L1 _ (n + d.ps.length + (if d.tail then 1 else 0)) q
        refine ⟨L3, ?_, p3⟩
        rw [replay_append, replay_append, r1]
        simp only [Option.bind]
        rw [r2]
        exact r3
    · exact ⟨L, by simp [replay], h⟩
  size_iterate := by
    intro c i d
    simp only [crrtCore]
    split
    · split
      · exact (adopt_size _ c d.near).1
      · exact Nat.le_refl _
    · exact Nat.le_refl _
  idx_iterate := by
    intro c i d r hr
    simp only [crrtCore] at hr ⊢
    split at hr
    · rename_i hn
      simp only [hn, if_true]
      split at hr
      · rename_i hok
        simp only [hok, if_true]
        exact (adopt_size _ c d.near).2 r hr
      · simp at hr
    · simp at hr
  path_nonempty := by
    intro c i h
    exact walk_ne_nil c i [] h

end OmplModel.PlannerProto
