import OmplModel.Proofs.GridSteps
import OmplModel.Proofs.GridHeapOrder
/-!
Both queues of the `GridB` model stay heap-ordered under every operation, hence their tops are minima
(helper lemmas for `Props/C13.lean`; core Lean only).
-/
namespace OmplModel.Grid
open OmplModel.Heap

/-- the functors are strict weak orders (C++'s own requirement on a comparison functor) -/
structure CmpOK (cfg : Cfg) : Prop where
  swE : StrictWeak cfg.ltE
  swI : StrictWeak cfg.ltI

theorem CmpOK.kE {cfg : Cfg} (h : CmpOK cfg) : StrictWeak cfg.kltE :=
  ⟨fun _ => h.swE.irrefl _, fun _ _ _ => h.swE.trans _ _ _, fun _ _ _ => h.swE.incomp_trans _ _ _⟩

theorem CmpOK.kI {cfg : Cfg} (h : CmpOK cfg) : StrictWeak cfg.kltI :=
  ⟨fun _ => h.swI.irrefl _, fun _ _ _ => h.swI.trans _ _ _, fun _ _ _ => h.swI.incomp_trans _ _ _⟩

def Ordered (cfg : Cfg) (g : GridB) : Prop :=
  HeapOrdered cfg.kltE g.external.arr ∧ HeapOrdered cfg.kltI g.internal.arr

theorem touchCreate_ordered {cfg : Cfg} (ok : CmpOK cfg) {g : GridB} (x : Coord) (h : Ordered cfg g) :
    Ordered cfg (touchCreate cfg g x) := by
  cases hget : getCell g.cells x with
  | none => unfold touchCreate; rw [hget]; exact h
  | some c =>
    rw [touchCreate_some hget]
    simp only []
    split
    · exact ⟨Heap.setKey_ordered ok.kE _ _ _ h.1, h.2⟩
    · split
      · exact ⟨Heap.remove_ordered ok.kE _ _ h.1, Heap.insert_ordered ok.kI _ _ h.2⟩
      · exact ⟨h.1, Heap.setKey_ordered ok.kI _ _ _ h.2⟩

theorem touchRemove_ordered {cfg : Cfg} (ok : CmpOK cfg) {g : GridB} (x : Coord) (h : Ordered cfg g) :
    Ordered cfg (touchRemove cfg g x) := by
  cases hget : getCell g.cells x with
  | none => unfold touchRemove; rw [hget]; exact h
  | some c =>
    rw [touchRemove_some hget]
    simp only []
    split
    · split
      · exact ⟨Heap.setKey_ordered ok.kE _ _ _ h.1, h.2⟩
      · exact ⟨Heap.insert_ordered ok.kE _ _ h.1, Heap.remove_ordered ok.kI _ _ h.2⟩
    · exact ⟨h.1, Heap.setKey_ordered ok.kI _ _ _ h.2⟩

theorem foldl_ordered {cfg : Cfg} {f : GridB → Coord → GridB}
    (hf : ∀ g x, Ordered cfg g → Ordered cfg (f g x)) :
    ∀ (L : List Coord) (g : GridB), Ordered cfg g → Ordered cfg (L.foldl f g)
  | [], _, h => h
  | y :: L, g, h => foldl_ordered hf L (f g y) (hf g y h)

theorem newCell_ordered {cfg : Cfg} (ok : CmpOK cfg) {g : GridB} (x : Coord) (d : Int) (h : Ordered cfg g) :
    Ordered cfg (newCell cfg g x d) := by
  have h1 := foldl_ordered (fun g x => touchCreate_ordered ok x) ((neighbors cfg.dim g.cells x).map (·.coord)) g h
  unfold newCell
  simp only []
  split
  · exact ⟨Heap.insert_ordered ok.kE _ _ h1.1, h1.2⟩
  · exact ⟨h1.1, Heap.insert_ordered ok.kI _ _ h1.2⟩

theorem removeCell_ordered {cfg : Cfg} (ok : CmpOK cfg) {g : GridB} (x : Coord) (h : Ordered cfg g) :
    Ordered cfg (removeCell cfg g x).1 := by
  have h1 := foldl_ordered (fun g x => touchRemove_ordered ok x) ((neighbors cfg.dim g.cells x).map (·.coord)) g h
  unfold removeCell
  simp only []
  split
  · exact h1
  · split
    · exact ⟨Heap.remove_ordered ok.kE _ _ h1.1, h1.2⟩
    · exact ⟨h1.1, Heap.remove_ordered ok.kI _ _ h1.2⟩

theorem update_ordered {cfg : Cfg} (ok : CmpOK cfg) {g : GridB} (x : Coord) (d : Int) (h : Ordered cfg g) :
    Ordered cfg (update cfg g x d) := by
  unfold update
  split
  · exact h
  · simp only []
    split
    · exact ⟨Heap.setKey_ordered ok.kE _ _ _ h.1, h.2⟩
    · exact ⟨h.1, Heap.setKey_ordered ok.kI _ _ _ h.2⟩

theorem updateAll_ordered {cfg : Cfg} (ok : CmpOK cfg) {g : GridB} (chg : List (Coord × Int)) :
    Ordered cfg (updateAll cfg g chg) :=
  ⟨Heap.pokeRebuild_ordered ok.kE _ _, Heap.pokeRebuild_ordered ok.kI _ _⟩

theorem clear_ordered {cfg : Cfg} (g : GridB) : Ordered cfg (clear g) :=
  ⟨Heap.clear_ordered _ _, Heap.clear_ordered _ _⟩

theorem step_ordered {cfg : Cfg} (ok : CmpOK cfg) {g : GridB} (op : Op) (h : Ordered cfg g) :
    Ordered cfg (step cfg g op) := by
  cases op with
  | new x d =>
    show Ordered cfg (if has g.cells x then g else newCell cfg g x d)
    split
    · exact h
    · exact newCell_ordered ok x d h
  | rm x =>
    show Ordered cfg (if has g.cells x then (removeCell cfg g x).1 else g)
    split
    · exact removeCell_ordered ok x h
    · exact h
  | upd x d => exact update_ordered ok x d h
  | updAll chg => exact updateAll_ordered ok chg
  | clear => exact clear_ordered g

theorem run_ordered {cfg : Cfg} (ok : CmpOK cfg) (ops : List Op) : Ordered cfg (run cfg ops) := by
  unfold run
  have : ∀ (ops : List Op) (g : GridB), Ordered cfg g → Ordered cfg (ops.foldl (step cfg) g) := by
    intro ops
    induction ops with
    | nil => intro g h; exact h
    | cons op ops ih => intro g h; exact ih _ (step_ordered ok op h)
  exact this ops {} ⟨Heap.empty_ordered _, Heap.empty_ordered _⟩

/-- one queue: its top (if any) is a cell of its kind and no cell of that kind is better; it is empty only
if there is no cell of that kind. -/
theorem top_best_side {p : Cell → Bool} {lt : Int → Int → Bool} {H : Heap Key} {cells : List Cell}
    (hperm : H.items.Perm (side p cells)) (sw : StrictWeak (fun a b : Key => lt a.1 b.1))
    (ho : HeapOrdered (fun a b : Key => lt a.1 b.1) H.arr) :
    (H.top = none → ∀ c ∈ cells, p c = false) ∧
      (∀ e, H.top = some e → ∃ c ∈ cells, p c = true ∧ c.id = e.key.2 ∧
        ∀ c' ∈ cells, p c' = true → lt c'.data c.data = false) := by
  constructor
  · intro hn c hc
    have h0 : H.items = [] := (Heap.top_eq_none_iff H).1 hn
    rw [h0] at hperm
    have h1 : side p cells = [] := List.Perm.eq_nil (hperm.symm)
    unfold side at h1
    have h2 : cells.filter p = [] := by simpa using h1
    by_cases hp : p c = true
    · have : c ∈ cells.filter p := List.mem_filter.2 ⟨hc, hp⟩
      rw [h2] at this; cases this
    · simpa using hp
  · intro e he
    have hm := hperm.mem_iff.1 (Heap.top_mem H e he)
    unfold side at hm
    obtain ⟨c, hc, hce⟩ := List.mem_map.1 hm
    obtain ⟨hcm, hcp⟩ := List.mem_filter.1 hc
    have hk : c.key = e.key := by simpa using (Prod.mk.inj hce).2
    refine ⟨c, hcm, hcp, by rw [← hk]; rfl, ?_⟩
    intro c' hc' hp'
    have hm' : (c'.helem, c'.key) ∈ H.items :=
      hperm.mem_iff.2 (List.mem_map.2 ⟨c', List.mem_filter.2 ⟨hc', hp'⟩, rfl⟩)
    have := top_min sw ho he _ hm'
    rw [← hk] at this
    exact this

end OmplModel.Grid
