/-
`ropeShortcutPathG` never lengthens the path (model: `OmplModel.Model.PathOps`, C++:
`PathSimplifier::ropeShortcutPathG`, src/ompl/geometric/src/PathSimplifier.cpp lines 187-291), for any
`dist` with the triangle inequality whose interpolated chains are geodesics.
-/
import OmplModel.Proofs.PathOpsRope
import OmplModel.Proofs.PathOpsRemove
import Mathlib.Algebra.Order.Monoid.Defs

namespace OmplModel.PathOps

variable {σ γ : Type}

section Len
variable {α : Type} [AddCommMonoid α]

/-! ## splitting `pathLen` at a state -/

/-- split after a non-empty prefix `a :: M` -/
theorem pathLen_cons_append (dist : σ → σ → α) (M : List σ) :
    ∀ (a b : σ) (r : List σ),
      pathLen dist (a :: (M ++ b :: r)) = pathLen dist (a :: (M ++ [b])) + pathLen dist (b :: r) := by
  induction M with
  | nil =>
    intro a b r
    simp only [List.nil_append, pathLen, add_zero]
  | cons m M ih =>
    intro a b r
    simp only [List.cons_append, pathLen]
    rw [ih m b r, add_assoc]

/-- split at `x` after an arbitrary prefix -/
theorem pathLen_append_cons (dist : σ → σ → α) (X : List σ) (x : σ) (Y : List σ) :
    pathLen dist (X ++ x :: Y) = pathLen dist (X ++ [x]) + pathLen dist (x :: Y) := by
  cases X with
  | nil => simp only [List.nil_append, pathLen, zero_add]
  | cons z X => exact pathLen_cons_append dist X z x Y

/-- replacing the motion `a → b` by a geodesic chain from `a` to `b` keeps the length -/
theorem pathLen_insert_geo (dist : σ → σ → α) (X I S : List σ) (a b : σ)
    (hgeo : pathLen dist (a :: (I ++ [b])) = dist a b) :
    pathLen dist (X ++ a :: (I ++ b :: S)) = pathLen dist (X ++ a :: b :: S) := by
  rw [pathLen_append_cons dist X a (I ++ b :: S), pathLen_append_cons dist X a (b :: S),
    pathLen_cons_append dist I a b S, hgeo]
  simp only [pathLen]

/-! ## ropeDensify keeps the length -/

theorem ropeDensify_cons (E : RopeEnv σ γ) (b : σ) (r : List σ) :
    ∃ T, ropeDensify E (b :: r) = b :: T := by
  cases r with
  | nil => exact ⟨[], by simp [ropeDensify]⟩
  | cons c r' => exact ⟨_, by rw [ropeDensify]⟩

theorem ropeDensify_pathLen (dist : σ → σ → α) (E : RopeEnv σ γ)
    (geo : ∀ a b n, pathLen dist (a :: (inters E a b n ++ [b])) = dist a b) (l : List σ) :
    pathLen dist (ropeDensify E l) = pathLen dist l := by
  induction l with
  | nil => simp [ropeDensify]
  | cons a r ih =>
    cases r with
    | nil => simp [ropeDensify]
    | cons b r' =>
      obtain ⟨T, hT⟩ := ropeDensify_cons E b r'
      rw [ropeDensify, hT, pathLen_cons_append dist _ a b T, geo, ← hT, ih]
      simp only [pathLen]

/-! ## one shortcut step -/

variable [PartialOrder α] [IsOrderedAddMonoid α]

/-- the vector after one shortcut `i → d` (erase `(i, d)`, insert `n` interpolated states) is not
longer than the vector before -/
theorem pathLen_splice_le (dist : σ → σ → α) (tri : ∀ a b c, dist a c ≤ dist a b + dist b c)
    (E : RopeEnv σ γ) (geo : ∀ a b n, pathLen dist (a :: (inters E a b n ++ [b])) = dist a b)
    (st : List σ) (i d n : Nat) (hi : i < st.length) (hd : d < st.length) (hid : i + 1 ≤ d) :
    pathLen dist (st.take (i + 1) ++ inters E st[i] st[d] n ++ st.drop d) ≤ pathLen dist st := by
  have h1 : st.take (i + 1) = st.take i ++ [st[i]] := List.take_succ_eq_append_getElem hi
  have h2 : st.drop d = st[d] :: st.drop (d + 1) := List.drop_eq_getElem_cons hd
  have hle := pathLen_eraseRange_le dist tri st i d hid hd
  unfold eraseRange at hle
  rw [h1, h2] at hle ⊢
  simp only [List.append_assoc, List.cons_append, List.nil_append] at hle ⊢
  rw [pathLen_insert_geo dist _ _ _ _ _ (geo st[i] st[d] n)]
  exact hle

end Len

/-! ## threading an arbitrary splice-stable invariant through the two loops -/

/-- `P` survives every shortcut step -/
def SpliceStable (E : RopeEnv σ γ) (P : List σ → Prop) : Prop :=
  ∀ (st : List σ) (i d n : Nat) (hi : i < st.length) (hd : d < st.length), i + 1 ≤ d → P st →
    P (st.take (i + 1) ++ inters E st[i] st[d] n ++ st.drop d)

def JP (P : List σ → Prop) : JRes σ → Prop
  | .ret st' _ _ => P st'
  | .next => True
  | .restart st' _ => P st'
  | .err => True

theorem JP_ite (P : List σ → Prop) (c : Prop) [Decidable c] (X : List σ) (o : Bool) (hX : P X) :
    JP P (if c then .ret X true o else .restart X o) := by
  split
  · exact hX
  · exact hX

theorem ropeInner_pres (E : RopeEnv σ γ) (fixed : Bool) (P : List σ → Prop)
    (hS : SpliceStable E P) (st : List σ) (i : Nat) (hP : P st) :
    ∀ j, j < st.length → JP P (ropeInnerG E fixed st i j) := by
  intro j
  induction j with
  | zero => intro _; simp [ropeInnerG, JP]
  | succ j ih =>
    intro hj
    have ihj := ih (by omega)
    rw [ropeInnerG]
    split
    · trivial
    · rename_i hij
      have hi : i < st.length := by omega
      have hc : (cumCosts E st).length = st.length := cumCosts_length E st
      rw [List.getElem?_eq_getElem hi, List.getElem?_eq_getElem hj]
      dsimp only
      split
      · rw [List.getElem?_eq_getElem (show j + 1 < (cumCosts E st).length by omega),
          List.getElem?_eq_getElem (show i < (cumCosts E st).length by omega)]
        dsimp only
        split
        · split
          · exact hP
          · trivial
        · split
          · rw [eraseChk_ok st (i + 1) (j + 1) (by omega) (by omega)]
            dsimp only
            rw [erase_get_i st i (j + 1) hi, erase_get_succ st i (j + 1) hi hj]
            dsimp only
            rw [erase_take st i (j + 1) hi, erase_drop st i (j + 1) hi]
            have hgood := fun n => hS st i (j + 1) n hi hj (by omega) hP
            exact JP_ite P _ _ _ (hgood _)
          · exact ihj
      · exact ihj

theorem ropeOuter_pres (E : RopeEnv σ γ) (fixed : Bool) (P : List σ → Prop)
    (hS : SpliceStable E P) :
    ∀ (fuel : Nat) (st : List σ) (i : Nat) (res oob : Bool) (out : List σ) (r o fo : Bool), P st →
      ropeOuterG E fixed fuel st i res oob = some (out, r, o, fo) → P out := by
  intro fuel
  induction fuel with
  | zero =>
    intro st i res oob out r o fo hP h
    rw [ropeOuterG] at h
    simp only [Option.some.injEq, Prod.mk.injEq] at h
    exact h.1 ▸ hP
  | succ fuel ih =>
    intro st i res oob out r o fo hP h
    rw [ropeOuterG] at h
    split at h
    · have hk := ropeInner_pres E fixed P hS st i hP (st.length - 1) (by omega)
      generalize ropeInnerG E fixed st i (st.length - 1) = jr at hk h
      cases jr with
      | ret st' changed o' =>
        simp only [Option.some.injEq, Prod.mk.injEq] at h
        exact h.1 ▸ hk
      | next => exact ih st (i + 1) res oob out r o fo hP h
      | restart st' o' => exact ih st' 0 true (oob || o') out r o fo hk h
      | err => simp at h
    · simp only [Option.some.injEq, Prod.mk.injEq] at h
      exact h.1 ▸ hP

theorem rope_pres (E : RopeEnv σ γ) (P : List σ → Prop) (hS : SpliceStable E P)
    {fixed : Bool} {fuel : Nat} {path out : List σ} {r oob fo : Bool}
    (hpath : P path) (hdens : P (ropeDensify E path))
    (h : ropeShortcutPathG E fixed fuel path = some (out, r, oob, fo)) : P out := by
  rw [ropeShortcutPathG] at h
  split at h
  · simp only [Option.some.injEq, Prod.mk.injEq] at h
    exact h.1 ▸ hpath
  · exact ropeOuter_pres E fixed P hS fuel _ 0 false false out r oob fo hdens h

/-! ## the required statement -/

/-- ropeShortcutPathG never lengthens the path, in any metric-like setting: `dist` obeys the triangle inequality and the
interpolated chain between two states is a geodesic (its length is the distance of its ends) -/
theorem rope_never_longer {α : Type} [AddCommMonoid α] [PartialOrder α] [IsOrderedAddMonoid α]
    (dist : σ → σ → α) (tri : ∀ a b c, dist a c ≤ dist a b + dist b c)
    (E : RopeEnv σ γ) (geo : ∀ a b n, pathLen dist (a :: (inters E a b n ++ [b])) = dist a b)
    {fixed : Bool} {fuel : Nat} {path out : List σ} {r oob fo : Bool}
    (h : ropeShortcutPathG E fixed fuel path = some (out, r, oob, fo)) : pathLen dist out ≤ pathLen dist path := by
  refine rope_pres E (fun st => pathLen dist st ≤ pathLen dist path) ?_ (le_refl _) ?_ h
  · intro st i d n hi hd hid hP
    exact le_trans (pathLen_splice_le dist tri E geo st i d n hi hd hid) hP
  · exact le_of_eq (ropeDensify_pathLen dist E geo path)

end OmplModel.PathOps
