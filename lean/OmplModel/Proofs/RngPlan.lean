import OmplModel.Model.RngPlan
import OmplModel.Proofs.Rng
/-!
Lemmas for the planner-level part of C20 (`Model/RngPlan.lean`).  Core Lean only; no law of `Float` is used.

* `runS_congr`            — a computation run against two state machines that agree on every (state, question) pair the
                            first run meets gives the same result and the same final state
* `envStep_orc_congr`     — the planning environment consults the user callback on `eval` questions only
* `sgen_clock_free`       — after `setSeed s` (every `s`, 0 included) `sGen_` holds nothing of the clock
* `allocSeeds_eq`         — the seeds handed to the `alloc` questions of *any* question sequence are the first seeds of the
                            global sequence, whatever draws / evaluations / polls are interleaved
* `iterPolls_eq`          — `IterationTerminationCondition`: the `j`-th poll after `t` earlier ones answers `t + j > maxCalls`
-/
namespace OmplModel.RngPlan
open OmplModel.Rng OmplModel.Rng.Oracle

/-- the (state, question) pairs a run meets -/
def askedS {σ Q A R : Type} (step : σ → Q → A × σ) : Comp Q A R → σ → List (σ × Q)
  | .done _, _ => []
  | .ask q k, s => (s, q) :: askedS step (k (step s q).1) (step s q).2

theorem runS_congr {σ Q A R : Type} (c : Comp Q A R) (s : σ) (step₁ step₂ : σ → Q → A × σ)
    (H : ∀ p ∈ askedS step₁ c s, step₁ p.1 p.2 = step₂ p.1 p.2) : runS step₁ c s = runS step₂ c s := by
  induction c generalizing s with
  | done r => rfl
  | ask q k ih =>
    have h0 : step₁ s q = step₂ s q := H (s, q) (by simp [askedS])
    simp only [runS]
    rw [← h0]
    apply ih
    intro p hp
    exact H p (by simp only [askedS, List.mem_cons]; exact Or.inr hp)

/-- the points on which the validity callback was evaluated -/
def evalPointsS {σ : Type} : List (σ × Q) → List Vec
  | [] => []
  | (_, .eval x) :: r => x :: evalPointsS r
  | _ :: r => evalPointsS r

theorem mem_evalPointsS {σ : Type} {l : List (σ × Q)} {s : σ} {x : Vec} (hm : (s, Q.eval x) ∈ l) :
    x ∈ evalPointsS l := by
  induction l with
  | nil => simp at hm
  | cons p l ih =>
    rcases List.mem_cons.mp hm with e | e
    · subst e; simp [evalPointsS]
    · obtain ⟨ps, pq⟩ := p
      cases pq <;> simp [evalPointsS, ih e]

theorem envStep_orc_congr (orc₁ orc₂ : Vec → Bool) (e : EnvSt) (q : Q)
    (h : ∀ x, q = .eval x → orc₁ x = orc₂ x) : envStep orc₁ e q = envStep orc₂ e q := by
  cases q with
  | eval x => simp only [envStep]; rw [h x rfl]
  | alloc => rfl
  | draw k op => rfl
  | poll => rfl
  | arm b => rfl
  | mark => rfl

theorem sgen_clock_free (c₁ c₂ s : UInt64) :
    ((SeedGen.init c₁).setSeed s).1.sGen = ((SeedGen.init c₂).setSeed s).1.sGen := by
  simp only [SeedGen.setSeed, SeedGen.init]
  split <;> simp

theorem envInit_clock_free (c₁ c₂ s : UInt64) (it tr : Bool) : envInit c₁ s it tr = envInit c₂ s it tr := by
  simp only [envInit]
  rw [sgen_clock_free c₁ c₂ s]

/-! ### question sequences -/

/-- answers to a sequence of questions, and the final state -/
def answers (orc : Vec → Bool) : EnvSt → List Q → List (Q × A)
  | _, [] => []
  | e, q :: qs => (q, (envStep orc e q).1) :: answers orc (envStep orc e q).2 qs

/-- the local seeds handed to the `alloc` questions (`none` = a rejection loop ran out of fuel) -/
def allocSeeds : List (Q × A) → List (Option UInt64)
  | [] => []
  | (.alloc, .handle _ s) :: r => some s :: allocSeeds r
  | (.alloc, _) :: r => none :: allocSeeds r
  | _ :: r => allocSeeds r

/-- the handles (creation indices) given to the `alloc` questions -/
def allocHandles : List (Q × A) → List Nat
  | [] => []
  | (.alloc, .handle k _) :: r => k :: allocHandles r
  | _ :: r => allocHandles r

def countAlloc : List Q → Nat
  | [] => 0
  | .alloc :: r => countAlloc r + 1
  | _ :: r => countAlloc r

theorem seeds_succ_of_sgen (n : Nat) (g : SeedGen) :
    SeedGen.seeds (n + 1) g = g.nextSeed.1 :: SeedGen.seeds n g.nextSeed.2 := rfl

/-- Whatever else is asked in between, the `i`-th `alloc` gets the `i`-th seed of the sequence that `sGen_` defines. -/
theorem allocSeeds_eq (orc : Vec → Bool) (e : EnvSt) (qs : List Q) (g : SeedGen) (hg : g.sGen = e.sgen) :
    allocSeeds (answers orc e qs) = SeedGen.seeds (countAlloc qs) g := by
  induction qs generalizing e g with
  | nil => rfl
  | cons q qs ih =>
    cases q with
    | alloc =>
      simp only [answers, countAlloc, seeds_succ_of_sgen]
      cases hd : drawSeed e.sgen with
      | none =>
        have h1 : g.nextSeed = (none, { g with someSeedsGenerated := true }) := by
          simp [SeedGen.nextSeed, hg, hd]
        simp only [envStep, hd, allocSeeds, h1]
        rw [ih { e with allocFailed := true } { g with someSeedsGenerated := true } (by simpa using hg)]
      | some p =>
        obtain ⟨v, sg⟩ := p
        have h1 : g.nextSeed = (some (UInt64.ofNat v), { g with someSeedsGenerated := true, sGen := sg }) := by
          simp [SeedGen.nextSeed, hg, hd]
        simp only [envStep, hd, allocSeeds, h1]
        rw [ih _ { g with someSeedsGenerated := true, sGen := sg } (by simp)]
    | draw k op =>
      simp only [answers, countAlloc, allocSeeds]
      apply ih
      simp only [envStep]
      split <;> simp [hg]
    | eval x => simp only [answers, countAlloc, allocSeeds]; exact ih _ _ (by simp [envStep, hg])
    | poll => simp only [answers, countAlloc, allocSeeds]; exact ih _ _ (by simp [envStep, hg])
    | arm b => simp only [answers, countAlloc, allocSeeds]; exact ih _ _ (by simp [envStep, hg])
    | mark => simp only [answers, countAlloc, allocSeeds]; exact ih _ _ (by simp [envStep, hg])

/-! ### `IterationTerminationCondition` -/

def pollAnswers : List (Q × A) → List Bool
  | [] => []
  | (.poll, .stop b) :: r => b :: pollAnswers r
  | _ :: r => pollAnswers r

def countPoll : List Q → Nat
  | [] => 0
  | .poll :: r => countPoll r + 1
  | _ :: r => countPoll r

def isArm : Q → Bool
  | .arm _ => true
  | _ => false

theorem iterPolls_eq (orc : Vec → Bool) (e : EnvSt) (m t : Nat) (h : e.ptc = .iter m t) (qs : List Q)
    (hq : ∀ q ∈ qs, isArm q = false) :
    pollAnswers (answers orc e qs) = (List.range (countPoll qs)).map fun j => decide (t + j + 1 > m) := by
  induction qs generalizing e t with
  | nil => rfl
  | cons q qs ih =>
    have hq' : ∀ q ∈ qs, isArm q = false := fun q hm => hq q (List.mem_cons_of_mem _ hm)
    cases q with
    | poll =>
      simp only [answers, countPoll, envStep, h, Ptc.eval, pollAnswers, List.range_succ_eq_map, List.map_cons,
        List.map_map, Nat.add_zero]
      congr 1
      rw [ih _ (t + 1) (by simp) hq']
      apply List.map_congr_left
      intro j _
      simp only [Function.comp, Nat.succ_eq_add_one]
      have e1 : t + 1 + j + 1 = t + (j + 1) + 1 := by omega
      rw [e1]
    | arm b => have := hq (.arm b) (by simp); simp [isArm] at this
    | alloc =>
      simp only [answers, countPoll, pollAnswers]
      apply ih _ t _ hq'
      simp only [envStep]
      split <;> simp [h]
    | draw k op =>
      simp only [answers, countPoll, pollAnswers]
      apply ih _ t _ hq'
      simp only [envStep]
      split <;> simp [h]
    | eval x => simp only [answers, countPoll, pollAnswers]; exact ih _ t (by simp [envStep, h]) hq'
    | mark => simp only [answers, countPoll, pollAnswers]; exact ih _ t (by simp [envStep, h]) hq'

end OmplModel.RngPlan
