import OmplModel.Model.PhsGlue
import OmplModel.Proofs.PhsFixed
/-!
Round 10 helper lemmas:
* the constructor glue of `PathLengthDirectInfSampler` (`Model/PhsGlue.lean`): what `classify` returns, the round trip
  `getInformedSubstate ∘ createFullState`, the order of the PHS list;
* `updLoop` establishes "every PHS left has diameter `c`" unless it ends in the degenerate single PHS — the hypothesis
  `hall` of the earlier cost theorems, now derived from the code.
-/
namespace OmplModel.Phs
open OmplModel
attribute [-instance] Num.instOfNat

namespace PhsRound10

/-! ### `updLoop`: diameters of the PHSs left -/
section upd
variable {α : Type} [Num α]

theorem updLoop_c (c : α) : ∀ (l done : List (Phs α)) (sz : Nat) (sum : α),
    sz = done.length + l.length → (∀ q ∈ done, q.c = c) →
    (∀ q ∈ (updLoop c l done sz sum).1, q.c = c) ∨
    (∃ p : Phs α, (updLoop c l done sz sum).1 = [p.setC p.cmin] ∧ ¬ p.cmin < c) := by
  intro l
  induction l with
  | nil =>
    intro done sz sum _ hd
    left
    intro q hq
    rw [updLoop] at hq
    exact hd q (List.mem_reverse.1 hq)
  | cons p l ih =>
    intro done sz sum hsz hd
    rw [updLoop]
    split
    · refine ih (p.setC c :: done) sz _ (by simp [hsz]; omega) ?_
      intro q hq
      rcases List.mem_cons.1 hq with e | h
      · rw [e]; rfl
      · exact hd q h
    · rename_i hlt
      split
      · exact ih done (sz - 1) sum (by simp at hsz; omega) hd
      · rename_i hsz1
        have hlen : done.length = 0 ∧ l.length = 0 := by simp at hsz; omega
        have hd0 : done = [] := List.length_eq_zero_iff.1 hlen.1
        have hl0 : l = [] := List.length_eq_zero_iff.1 hlen.2
        subst hd0 hl0
        right
        exact ⟨p, by rw [updLoop]; rfl, hlt⟩

/-- after `updatePhsDefinitions(c)`: every PHS of the working list has transverse diameter `c`, OR the list is the one
degenerate PHS that cannot improve on `c` -/
theorem update_c_or_cannotImprove (s : Sampler α) (c : α) :
    (∀ q ∈ (s.update c).phss, q.c = c) ∨ (s.update c).cannotImprove c = true := by
  rcases updLoop_c c s.phss [] s.phss.length (Num.ofNat 0) (by simp) (fun _ h => by cases h) with h | ⟨p, hp, hc⟩
  · exact Or.inl h
  · right
    have hph : (s.update c).phss = [p.setC p.cmin] := hp
    have hc' : ¬ (p.setC p.cmin).cmin < c := hc
    simp [Sampler.cannotImprove, hph, hc']

end upd

/-- **current code over ℝ, no hypothesis on the PHS list**: a successful finite-bound sample is in bounds, in a PHS
of the working list, and below `c` for both heuristics. -/
theorem direct_successF_cost_below_unconditional {ρ : Type} (s : Sampler ℝ) (inB : List ℝ × ρ → Bool) (c : ℝ)
    (ds : List (Draw ℝ ρ)) (cur : List ℝ × ρ)
    (hbase : ∀ d ∈ ds, inB (d.baseInf, d.baseRest) = true)
    (hf : (s.sample2F inB true c ds cur).2.found = true) :
    inB (s.sample2F inB true c ds cur).2.st = true ∧
    (s.updateF c).isInAny (s.sample2F inB true c ds cur).2.st.1 = true ∧
    (∃ h, (s.updateF c).hcost (s.sample2F inB true c ds cur).2.st.1 = some h ∧ h < c) ∧
    ∃ h', s.hcostF (s.sample2F inB true c ds cur).2.st.1 = some h' ∧ h' < c := by
  have hall : ∀ p ∈ (s.updateF c).phss, p.c = c := by
    rcases update_c_or_cannotImprove s.restored c with h | h
    · exact h
    · exfalso
      have := (PhsFixed.sample2F_cannotImprove s inB c ds cur (by rw [PhsFixed.updateF_eq]; exact h)).1
      rw [this] at hf
      cases hf
  exact PhsFixed.direct_successF_cost_below s inB c ds cur hbase hall hf

/-! ### constructor glue -/

theorem ctorCheck_ok (i : CtorIn) (L : Layout) (h : ctorCheck i = .ok L) :
    i.hasObjective = true ∧ 0 < i.numStarts ∧ i.goalSampleable = true ∧ 0 < i.numGoals ∧ classify i.space = .ok L := by
  show _ ∧ _ ∧ _ ∧ _ ∧ classifyG false i.space = .ok L
  unfold ctorCheck ctorCheckG at h
  split at h
  · cases h
  · split at h
    · cases h
    · split at h
      · cases h
      · split at h
        · cases h
        · rename_i h1 h2 h3 h4
          refine ⟨by simpa using h1, by omega, by simpa using h3, by omega, h⟩

/-- the `for idx` scan over exactly two subspaces -/
theorem scanSubs_two (a b : SubType) (i u : Nat) (h : scanSubs [a, b] 0 0 0 = .ok (i, u)) :
    a ≠ .other ∧ b ≠ .other ∧ i < 2 ∧ u < 2 ∧ i ≠ u ∧
    ((a = .rv ∨ b = .rv) → [a, b][i]? = some .rv) := by
  cases a <;> cases b <;> simp [scanSubs] at h <;> obtain ⟨rfl, rfl⟩ := h <;> simp

theorem classify_ok (d : SpaceDesc) (L : Layout) (h : classify d = .ok L) :
    L.compound = d.compound ∧
    (d.compound = false → (d.ty = .realVector ∨ d.ty = .unknown) ∧ L.inf = 0 ∧ L.un = 0) ∧
    (d.compound = true → d.castOk = true ∧ L.inf < d.subs.length ∧ L.un < d.subs.length ∧
      (L.inf = L.un ↔ d.ty.isSE = false) ∧ (d.ty.isSE = false → d.subs = [.rv]) ∧
      (d.ty.isSE = true → d.subs.length = 2 ∧ ∀ t ∈ d.subs, t ≠ .other)) := by
  unfold classify classifyG at h
  simp only [Bool.false_and, Bool.false_eq_true, if_false] at h
  split at h
  · rename_i hc
    have hc' : d.compound = false := by simpa using hc
    split at h
    · rename_i hty
      cases h
      exact ⟨hc'.symm, fun _ => ⟨Or.inl hty, rfl, rfl⟩, fun h' => by rw [hc'] at h'; cases h'⟩
    · split at h
      · rename_i hty
        cases h
        exact ⟨hc'.symm, fun _ => ⟨Or.inr hty, rfl, rfl⟩, fun h' => by rw [hc'] at h'; cases h'⟩
      · cases h
  · rename_i hc
    have hc' : d.compound = true := by simpa using hc
    split at h
    · cases h
    · rename_i hcast
      have hcast' : d.castOk = true := by simpa using hcast
      split at h
      · rename_i hse
        split at h
        · cases h
        · rename_i hlen
          have hlen' : d.subs.length = 2 := by simpa using hlen
          obtain ⟨a, b, hab⟩ : ∃ a b, d.subs = [a, b] := by
            match hs : d.subs, hlen' with
            | [a, b], _ => exact ⟨a, b, rfl⟩
          rw [hab] at h
          split at h
          · rename_i i u hscan
            cases h
            obtain ⟨ha, hb, hi, hu, hne, _⟩ := scanSubs_two a b i u hscan
            refine ⟨hc'.symm, fun h' => (by rw [hc'] at h'; cases h'), fun _ => ⟨hcast', ?_, ?_, ?_, ?_, ?_⟩⟩
            · rw [hab]; exact hi
            · rw [hab]; exact hu
            · simp [hse, hne]
            · intro h'; rw [hse] at h'; cases h'
            · intro _
              refine ⟨hlen', ?_⟩
              rw [hab]
              intro t ht
              simp at ht
              rcases ht with rfl | rfl
              · exact ha
              · exact hb
          · cases h
      · rename_i hse
        have hse' : d.ty.isSE = false := by simpa using hse
        split at h
        · rename_i hone
          cases h
          have hsub : d.subs = [.rv] := by
            obtain ⟨h1, h2⟩ := hone
            match hs : d.subs, h1, h2 with
            | [t], _, h2 =>
              simp at h2
              rw [h2]
          refine ⟨hc'.symm, fun h' => (by rw [hc'] at h'; cases h'), fun _ => ⟨hcast', ?_, ?_, ?_, ?_, ?_⟩⟩
          · rw [hsub]; simp
          · rw [hsub]; simp
          · simp [hse']
          · intro _; exact hsub
          · intro h'; rw [hse'] at h'; cases h'
        · cases h

/-! ### F451: SE-typed compounds whose two subspaces are both rotations -/

/-- as coded, an SE-typed compound with two ROTATION subspaces is accepted (informed index 0 by default: a rotation); the
repaired classification rejects it -/
theorem classify_two_rotations (ty : SpType) (hty : ty.isSE = true) (a b : SubType)
    (ha : a = .so2 ∨ a = .so3) (hb : b = .so2 ∨ b = .so3) :
    classify ⟨true, true, ty, [a, b]⟩ = .ok ⟨true, 0, 1⟩ ∧
    classifyG true ⟨true, true, ty, [a, b]⟩ = .error .notOneOfEach := by
  rcases ha with rfl | rfl <;> rcases hb with rfl | rfl <;> cases ty <;> simp [SpType.isSE] at hty <;> exact ⟨rfl, rfl⟩

/-- the repaired classification: whatever SE-typed compound it accepts, the informed subspace IS a real-vector space and the
uninformed one a rotation, the indices differ, and the unchanged code returns the same layout -/
theorem classifyG_strict_se (d : SpaceDesc) (L : Layout) (h : classifyG true d = .ok L)
    (hc : d.compound = true) (hse : d.ty.isSE = true) :
    classify d = .ok L ∧ d.subs[L.inf]? = some .rv ∧
    (d.subs[L.un]? = some .so2 ∨ d.subs[L.un]? = some .so3) ∧ L.inf ≠ L.un := by
  obtain ⟨cmp, cast, ty, subs⟩ := d
  simp only at hc hse
  subst hc
  match subs with
  | [] => cases cast <;> simp [classifyG, hse] at h
  | [_] => cases cast <;> simp [classifyG, hse] at h
  | _ :: _ :: _ :: _ => cases cast <;> simp [classifyG, hse] at h
  | [a, b] =>
    cases cast <;> cases a <;> cases b <;>
      simp [classify, classifyG, hse, scanSubs, oneOfEach] at h ⊢ <;> subst h <;> simp

section roundtrip
variable {α : Type}

/-- as coded: the round trip holds when the space is not compound or the two indices differ -/
theorem createFullStateOld_roundtrip (L : Layout) (st : FullState α) (v r : List α)
    (hne : L.compound = false ∨ L.inf ≠ L.un)
    (hshape : L.compound = true → ∃ cs, st = .comp cs ∧ L.inf < cs.length) :
    L.informedSubstate (L.createFullStateOld st v r) = v := by
  unfold Layout.createFullStateOld Layout.createFullStateG
  cases hc : L.compound with
  | false => simp [Layout.informedSubstate, hc]
  | true =>
    obtain ⟨cs, rfl, hlt⟩ := hshape hc
    have hne' : L.inf ≠ L.un := by
      rcases hne with h | h
      · rw [hc] at h; cases h
      · exact h
    simp only [Bool.not_true, Bool.false_eq_true, if_false, Layout.hasUninformedG, hc, if_true, Layout.informedSubstate]
    rw [List.getD_eq_getElem?_getD, List.getElem?_set_ne (Ne.symm hne'), List.getElem?_set_self hlt]
    rfl

/-- as coded, the uninformed component receives the uninformed draw -/
theorem createFullStateOld_uninformed (L : Layout) (cs : List (List α)) (v r : List α) (hc : L.compound = true)
    (hu : L.un < cs.length) :
    ∃ cs', L.createFullStateOld (.comp cs) v r = .comp cs' ∧ cs'[L.un]? = some r := by
  refine ⟨(cs.set L.inf v).set L.un r, ?_, ?_⟩
  · simp [Layout.createFullStateOld, Layout.createFullStateG, Layout.hasUninformedG, hc]
  · rw [List.getElem?_set_self (by simpa using hu)]

/-- as coded, both indices equal on a compound space: the informed component ends up holding the UNINFORMED draw -/
theorem createFullStateOld_overwritten (i : Nat) (cs : List (List α)) (v r : List α) (hi : i < cs.length) :
    (⟨true, i, i⟩ : Layout).informedSubstate ((⟨true, i, i⟩ : Layout).createFullStateOld (.comp cs) v r) = r := by
  simp only [Layout.createFullStateOld, Layout.createFullStateG, Layout.hasUninformedG, Layout.informedSubstate,
    Bool.not_true, Bool.false_eq_true, if_false, if_true]
  rw [List.getD_eq_getElem?_getD, List.getElem?_set_self (by simpa using hi)]
  rfl

/-- repaired glue: the round trip holds for EVERY layout, whatever the indices -/
theorem createFullState_roundtrip (L : Layout) (st : FullState α) (v r : List α)
    (hshape : L.compound = true → ∃ cs, st = .comp cs ∧ L.inf < cs.length) :
    L.informedSubstate (L.createFullState st v r) = v := by
  unfold Layout.createFullState Layout.createFullStateG
  cases hc : L.compound with
  | false => simp [Layout.informedSubstate, hc]
  | true =>
    obtain ⟨cs, rfl, hlt⟩ := hshape hc
    simp only [Bool.not_true, Bool.false_eq_true, if_false, Layout.hasUninformedG, hc, if_true, Layout.informedSubstate,
      Bool.true_and]
    by_cases he : L.inf = L.un
    · have : (!(L.inf == L.un)) = false := by simp [he]
      rw [this]
      simp only [Bool.false_eq_true, if_false]
      rw [List.getD_eq_getElem?_getD, List.getElem?_set_self hlt]
      rfl
    · have : (!(L.inf == L.un)) = true := by simp [he]
      rw [this]
      simp only [if_true]
      rw [List.getD_eq_getElem?_getD, List.getElem?_set_ne (Ne.symm he), List.getElem?_set_self hlt]
      rfl

end roundtrip

/-! ### order of the PHS list -/

theorem phsPairs_cons {β : Type} (a : β) (s g : List β) :
    phsPairs (a :: s) g = g.map (fun x => (a, x)) ++ phsPairs s g := by
  simp [phsPairs]

theorem phsPairs_length {β : Type} (s g : List β) : (phsPairs s g).length = s.length * g.length := by
  induction s with
  | nil => simp [phsPairs]
  | cons a s ih => rw [phsPairs_cons, List.length_append, List.length_map, ih, List.length_cons, Nat.succ_mul, Nat.add_comm]

/-- start-major: PHS number `i * |goals| + j` is the pair (start i, goal j) -/
theorem phsPairs_getElem? {β : Type} (g : List β) : ∀ (s : List β) (i j : Nat), i < s.length → j < g.length →
    (phsPairs s g)[i * g.length + j]? = (s[i]?.bind fun a => g[j]?.map fun b => (a, b)) := by
  intro s
  induction s with
  | nil => intro i j hi; cases hi
  | cons a s ih =>
    intro i j hi hj
    rw [phsPairs_cons]
    cases i with
    | zero =>
      rw [Nat.zero_mul, Nat.zero_add, List.getElem?_append_left (by simpa using hj)]
      simp
    | succ i =>
      have hidx : (i + 1) * g.length + j = g.length + (i * g.length + j) := by rw [Nat.succ_mul]; omega
      rw [hidx, List.getElem?_append_right (by simp)]
      simp only [List.length_map, Nat.add_sub_cancel_left]
      rw [ih i j (by simpa using hi) hj]
      simp

end PhsRound10
end OmplModel.Phs
