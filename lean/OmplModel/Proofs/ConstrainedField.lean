import OmplModel.Proofs.Constrained
import Mathlib.Algebra.Order.Field.Basic
import Mathlib.Algebra.Order.Field.Rat
import Mathlib.Algebra.Order.Ring.Abs
import Mathlib.Tactic.Linarith
import Mathlib.Tactic.NormNum
/-!
Exact-arithmetic lemmas for C16: the model's `Arith` instantiated at an arbitrary linearly ordered
field.  Index safety of `geodesicInterpolate` and the range of the `lastValid` fraction are the two
claims of the property that need laws of arithmetic.
-/
namespace OmplModel.Constrained

variable {σ S : Type} {K : Type} [Field K] [LinearOrder K] [IsStrictOrderedRing K]

/-- the code's arithmetic, read in a linearly ordered field -/
def fieldArith (eps : K) : Arith K where
  zero := 0
  one := 1
  eps := eps
  add := (· + ·)
  sub := (· - ·)
  mul := (· * ·)
  div := (· / ·)
  abs := fun a => |a|
  lt a b := decide (a < b)
  le a b := decide (a ≤ b)

theorem index_safe (eps : K) (heps : 0 < eps) (Am : Ambient S K) (g : List S) (hg : g ≠ []) (t : K)
    (ht : 0 ≤ t) :
    ∃ i, geodesicInterpolateIdx (fieldArith eps) Am g t = some i ∧ i < g.length ∧
      ∃ x, geodesicInterpolate (fieldArith eps) Am g t = some x := by
  have hn : 0 < g.length := List.length_pos_iff.mpr hg
  have hlen : (sumsOf (fieldArith eps) Am g).toArray.size = g.length := by
    simp [sumsOf_length]
  suffices h : ∃ i, geodesicInterpolateIdx (fieldArith eps) Am g t = some i ∧ i < g.length by
    obtain ⟨i, hi, hlt⟩ := h
    exact ⟨i, hi, hlt, g[i], by simp [geodesicInterpolate, hi, hlt]⟩
  unfold geodesicInterpolateIdx
  simp only
  have hn0 : g.length ≠ 0 := by omega
  simp only [hn0, ↓reduceIte]
  have hlast : g.length - 1 < (sumsOf (fieldArith eps) Am g).toArray.size := by omega
  rw [Array.getElem?_eq_getElem hlast]
  simp only
  split
  · exact ⟨0, rfl, hn⟩
  · rename_i hnle
    -- the total length is not ≤ eps
    set d := (sumsOf (fieldArith eps) Am g).toArray with hd
    set last := d[g.length - 1] with hlastdef
    have hlastpos : eps < last := by
      have : ¬ (last ≤ eps) := by simpa [fieldArith] using hnle
      exact lt_of_not_ge this
    -- so the list has at least two states
    have hn2 : 2 ≤ g.length := by
      by_contra hlt
      have h1 : g.length = 1 := by omega
      obtain ⟨x, rfl⟩ : ∃ x, g = [x] := by
        cases g with
        | nil => simp at hn
        | cons x xs =>
          cases xs with
          | nil => exact ⟨x, rfl⟩
          | cons y ys => simp at h1
      have : last = 0 := by simp [hlastdef, hd, sumsOf, partialSums, fieldArith]
      rw [this] at hlastpos
      exact absurd hlastpos (not_lt.mpr heps.le)
    have hi := searchIdx_lt (fieldArith eps) d last t d.size 0 (by omega)
    set i := searchIdx (fieldArith eps) d last t d.size 0 with hidef
    rw [Array.getElem?_eq_getElem hi]
    simp only
    by_cases hin : i ≤ g.length - 2
    · have hi1 : i + 1 < d.size := by omega
      simp only [hin, ↓reduceIte]
      rw [Array.getElem?_eq_getElem hi1]
      simp only [Option.map_some]
      split
      · exact ⟨i, rfl, by omega⟩
      · exact ⟨i + 1, rfl, by omega⟩
    · simp only [hin, ↓reduceIte]
      have hieq : i = g.length - 1 := by omega
      have hdi : d[i] = last := by simp [hlastdef, hieq]
      have hne : last ≠ 0 := ne_of_gt (lt_trans heps hlastpos)
      have htest : ((fieldArith eps).lt ((fieldArith eps).sub ((fieldArith eps).div d[i] last) t) (fieldArith eps).one ||
          (fieldArith eps).lt ((fieldArith eps).abs ((fieldArith eps).sub
            ((fieldArith eps).sub ((fieldArith eps).div d[i] last) t) (fieldArith eps).one)) (fieldArith eps).eps) = true := by
        simp only [fieldArith, hdi, div_self hne, Bool.or_eq_true, decide_eq_true_eq]
        rcases ht.lt_or_eq with hpos | hz
        · left; linarith
        · right; rw [← hz]; simpa using heps
      rw [if_pos htest]
      exact ⟨i, rfl, by omega⟩

theorem traveled_nonneg (eps : K) (Am : Ambient S K) (hnn : ∀ a b, 0 ≤ Am.dist a b) :
    ∀ (p : S) (xs : List S) (acc : K), 0 ≤ acc → 0 ≤ traveled (fieldArith eps) Am p xs acc
  | _, [], acc, h => by simpa [traveled] using h
  | p, x :: xs, acc, h => by
    simp only [traveled]
    exact traveled_nonneg eps Am hnn x xs _ (by simp only [fieldArith]; exact add_nonneg h (hnn _ _))

theorem frac_range (dt rem : K) (h1 : 0 ≤ dt) (h2 : 0 ≤ rem) :
    (0 ≤ if decide (0 < dt + rem) = true then dt / (dt + rem) else 0) ∧
    (if decide (0 < dt + rem) = true then dt / (dt + rem) else 0) ≤ 1 := by
  by_cases hpos : 0 < dt + rem
  · simp only [hpos, decide_true, ↓reduceIte]
    exact ⟨div_nonneg h1 hpos.le, div_le_one_of_le₀ (by linarith) hpos.le⟩
  · simp only [hpos, decide_false, Bool.false_eq_true, ↓reduceIte]
    exact ⟨le_refl _, zero_le_one⟩

theorem fraction_range (eps : K) (Am : Ambient S K) (hnn : ∀ a b, 0 ≤ Am.dist a b)
    (isSat isValid : σ → S → Bool × σ) (geo : Geo σ S) (hf : Bool) (s : σ) (s1 s2 : S) (f : K)
    (h : (checkMotion2 (fieldArith eps) Am isSat isValid geo hf s s1 s2).second = some f) :
    0 ≤ f ∧ f ≤ 1 := by
  unfold checkMotion2 at h
  simp only at h
  cases hl : (geo s s1 s2 false).2.1 with
  | nil =>
    simp only [hl, Option.some.injEq] at h
    subst h
    simp [fieldArith]
  | cons g0 rest =>
    simp only [hl] at h
    split at h
    · simp only [Option.some.injEq] at h
      subst h
      have hdt := traveled_nonneg eps Am hnn g0 rest (fieldArith eps).zero (by simp [fieldArith])
      have hrem := hnn ((g0 :: rest).getLast (by simp)) s2
      simp only [fieldArith] at hdt ⊢
      exact frac_range _ _ hdt hrem
    · simp at h

theorem overshoot_witness :
    geodesicInterpolateIdx (fieldArith (1 / 1000 : Rat)) (⟨fun a b => |a - b|, fun a _ _ => a, id⟩ : Ambient Rat Rat)
      [0, 1, 2] 0 = some 1 ∧
    geodesicInterpolateIdx (fieldArith (1 / 1000 : Rat)) (⟨fun a b => |a - b|, fun a _ _ => a, id⟩ : Ambient Rat Rat)
      [0, 1, 2] (1 / 2) = some 2 := by
  constructor
  · simp [geodesicInterpolateIdx, sumsOf, partialSums, searchIdx, fieldArith]
    norm_num
  · simp [geodesicInterpolateIdx, sumsOf, partialSums, searchIdx, fieldArith]
    norm_num

end OmplModel.Constrained
