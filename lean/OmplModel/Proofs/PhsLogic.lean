import OmplModel.Model.Phs
/-!
Arithmetic-free theorems about the decision logic of the informed samplers (C15): they hold for
every `[Num α]`, in particular for the `Float` instance that is executed, because no law of `α` is
used (the only exception, `hcost_lt_of_isInAny`, takes the two order laws it needs as explicit
hypotheses).  Core Lean only.
-/
namespace OmplModel.Phs
open OmplModel

namespace PhsLogic

variable {α : Type} [Num α] {ρ : Type}

/-! ## A. the rejection loop -/

omit [Num α] in
/-- Specification of `rejectLoop`: (1) a success passes the test and is a base draw, (2,3) the
counter moves forward and stays within the limit, (4) every iteration consumes exactly one draw,
(5) a success is neither starved nor a null-PHS exit, (6) the null flag is never set, (7) the
remaining draws are a suffix of the given ones. -/
theorem rejectLoop_spec (test : List α × ρ → Bool) (lim : Nat) :
    ∀ (ds : List (Draw α ρ)) (cur : List α × ρ) (it : Nat),
      ((rejectLoop test lim ds cur it).found = true →
          test (rejectLoop test lim ds cur it).st = true ∧
          ∃ d ∈ ds, (rejectLoop test lim ds cur it).st = (d.baseInf, d.baseRest)) ∧
      it ≤ (rejectLoop test lim ds cur it).iters ∧
      (it ≤ lim → (rejectLoop test lim ds cur it).iters ≤ lim) ∧
      (rejectLoop test lim ds cur it).rest.length + ((rejectLoop test lim ds cur it).iters - it)
        = ds.length ∧
      ((rejectLoop test lim ds cur it).found = true →
          (rejectLoop test lim ds cur it).starved = false ∧
          (rejectLoop test lim ds cur it).nullPhs = false) ∧
      (rejectLoop test lim ds cur it).nullPhs = false ∧
      (rejectLoop test lim ds cur it).rest <:+ ds := by
  intro ds
  induction ds with
  | nil =>
    intro cur it
    simp [rejectLoop]
  | cons d ds ih =>
    intro cur it
    rw [rejectLoop]
    split
    · rename_i hlt
      split
      · rename_i ht
        refine ⟨fun _ => ⟨ht, d, List.mem_cons_self, rfl⟩, by simp, fun _ => by simp; omega,
          by simp, fun _ => ⟨rfl, rfl⟩, rfl, List.suffix_cons _ _⟩
      · have h := ih (d.baseInf, d.baseRest) (it + 1)
        generalize rejectLoop test lim ds (d.baseInf, d.baseRest) (it + 1) = o at h ⊢
        obtain ⟨h1, h2, h3, h4, h5, h6, h7⟩ := h
        refine ⟨fun hf => ?_, by omega, fun _ => h3 (by omega), by simp; omega, h5, h6,
          h7.trans (List.suffix_cons _ _)⟩
        obtain ⟨ht, d', hd', hst⟩ := h1 hf
        exact ⟨ht, d', List.mem_cons_of_mem _ hd', hst⟩
    · refine ⟨fun hf => by simp at hf, by simp, fun h => by simpa using h, by simp,
        fun hf => by simp at hf, rfl, List.suffix_refl _⟩

/-! ## B. choosing a PHS -/

/-- `pickLoop` returns one of the listed PHSs -/
theorem pickLoop_mem (summed r : α) : ∀ (ps : List (Phs α)) (run : α) (p : Phs α),
    pickLoop summed r ps run = some p → p ∈ ps := by
  intro ps
  induction ps with
  | nil => intro run p h; simp [pickLoop] at h
  | cons q qs ih =>
    intro run p h
    rw [pickLoop] at h
    split at h
    · injection h with h; subst h; exact List.mem_cons_self
    · exact List.mem_cons_of_mem _ (ih _ _ h)

/-- `randomPhsPtr` returns one of the sampler's PHSs -/
theorem randomPhs_mem (s : Sampler α) (r : α) (p : Phs α) (h : s.randomPhs r = some p) :
    p ∈ s.phss := by
  unfold Sampler.randomPhs at h
  split at h
  · rename_i q hq
    injection h with h
    subst h
    rw [hq]; exact List.mem_cons_self
  · exact pickLoop_mem _ _ _ _ _ h

/-! ## C. sample a PHS, reject on bounds -/

/-- Specification of `phsRejectBounds`: (1) a success is in bounds and in some PHS (the re-test of the
fix), is the transform of the draw's ball point by one of the sampler's PHSs and passed `keepSample`, (2,3) counter bounds, (4) draw
accounting (a null-PHS exit consumes one draw without bumping the counter), (5) a success is neither
starved nor a null-PHS exit, (6) suffix. -/
theorem phsRejectBounds_spec (s : Sampler α) (inB : List α × ρ → Bool) (lim : Nat) :
    ∀ (ds : List (Draw α ρ)) (cur : List α × ρ) (it : Nat),
      ((phsRejectBounds s inB lim ds cur it).found = true →
          inB (phsRejectBounds s inB lim ds cur it).st = true ∧
          s.isInAny (phsRejectBounds s inB lim ds cur it).st.1 = true ∧
          ∃ d ∈ ds, ∃ p ∈ s.phss,
            p.transform d.ball = some (phsRejectBounds s inB lim ds cur it).st.1 ∧
            s.keep (phsRejectBounds s inB lim ds cur it).st.1 d.r2 = true ∧
            (phsRejectBounds s inB lim ds cur it).st.2 = d.rot) ∧
      it ≤ (phsRejectBounds s inB lim ds cur it).iters ∧
      (it ≤ lim → (phsRejectBounds s inB lim ds cur it).iters ≤ lim) ∧
      ((phsRejectBounds s inB lim ds cur it).nullPhs = false →
        (phsRejectBounds s inB lim ds cur it).rest.length
          + ((phsRejectBounds s inB lim ds cur it).iters - it) = ds.length) ∧
      ((phsRejectBounds s inB lim ds cur it).nullPhs = true →
        (phsRejectBounds s inB lim ds cur it).rest.length
          + ((phsRejectBounds s inB lim ds cur it).iters - it) + 1 = ds.length) ∧
      ((phsRejectBounds s inB lim ds cur it).found = true →
          (phsRejectBounds s inB lim ds cur it).starved = false ∧
          (phsRejectBounds s inB lim ds cur it).nullPhs = false) ∧
      (phsRejectBounds s inB lim ds cur it).rest <:+ ds := by
  intro ds
  induction ds with
  | nil =>
    intro cur it
    simp [phsRejectBounds]
  | cons d ds ih =>
    intro cur it
    have hrec : it < lim → ∀ cur',
        let o := phsRejectBounds s inB lim ds cur' (it + 1)
        (o.found = true →
          inB o.st = true ∧ s.isInAny o.st.1 = true ∧
          ∃ d' ∈ d :: ds, ∃ p ∈ s.phss,
            p.transform d'.ball = some o.st.1 ∧ s.keep o.st.1 d'.r2 = true ∧ o.st.2 = d'.rot) ∧
        it ≤ o.iters ∧ (it ≤ lim → o.iters ≤ lim) ∧
        (o.nullPhs = false → o.rest.length + (o.iters - it) = (d :: ds).length) ∧
        (o.nullPhs = true → o.rest.length + (o.iters - it) + 1 = (d :: ds).length) ∧
        (o.found = true → o.starved = false ∧ o.nullPhs = false) ∧
        o.rest <:+ d :: ds := by
      intro hlt cur'
      have h := ih cur' (it + 1)
      generalize phsRejectBounds s inB lim ds cur' (it + 1) = o at h ⊢
      obtain ⟨h1, h2, h3, h4, h4', h5, h6⟩ := h
      refine ⟨fun hf => ?_, by omega, fun _ => h3 (by omega),
        fun hn => by have := h4 hn; simp; omega, fun hn => by have := h4' hn; simp; omega, h5,
        h6.trans (List.suffix_cons _ _)⟩
      obtain ⟨hb, hany, d', hd', hrest⟩ := h1 hf
      exact ⟨hb, hany, d', List.mem_cons_of_mem _ hd', hrest⟩
    rw [phsRejectBounds]
    split
    · rename_i hlt
      split
      · refine ⟨fun hf => by simp at hf, by simp, fun h => by simpa using h, fun hn => by simp at hn,
          fun _ => by simp, fun hf => by simp at hf, List.suffix_cons _ _⟩
      · rename_i p hp
        split
        · refine ⟨fun hf => by simp at hf, by simp, fun h => by simpa using h,
            fun hn => by simp at hn, fun _ => by simp, fun hf => by simp at hf,
            List.suffix_cons _ _⟩
        · rename_i x hx
          split
          · rename_i hk
            split
            · rename_i hb
              have hb' := Bool.and_eq_true_iff.1 hb
              refine ⟨fun _ => ⟨hb'.1, hb'.2, d, List.mem_cons_self, p, randomPhs_mem s _ p hp, hx,
                  hk, rfl⟩,
                by simp, fun _ => by simp; omega, fun _ => by simp, fun hn => by simp at hn,
                fun _ => ⟨rfl, rfl⟩, List.suffix_cons _ _⟩
            · exact hrec hlt _
          · exact hrec hlt _
    · refine ⟨fun hf => by simp at hf, by simp, fun h => by simpa using h, fun _ => by simp,
        fun hn => by simp at hn, fun hf => by simp at hf, List.suffix_refl _⟩

/-- Witness for the loop BEFORE the fix (conditional; the hypotheses are what rounding realises): a
kept, in-bounds transform that lies in no PHS is returned as a success by the old loop, and is
rejected by the fixed one. -/
theorem direct_old_phs_branch_fails (s : Sampler α) (inB : List α × ρ → Bool) (lim : Nat)
    (hl : 0 < lim) (d : Draw α ρ) (cur : List α × ρ) (p : Phs α) (x : List α)
    (hr : s.randomPhs d.r1 = some p) (ht : p.transform d.ball = some x)
    (hk : s.keep x d.r2 = true) (hb : inB (x, d.rot) = true) (hout : s.isInAny x = false) :
    (phsRejectBoundsOld s inB lim [d] cur 0).found = true ∧
    (phsRejectBoundsOld s inB lim [d] cur 0).st = (x, d.rot) ∧
    s.isInAny (phsRejectBoundsOld s inB lim [d] cur 0).st.1 = false ∧
    (phsRejectBounds s inB lim [d] cur 0).found = false := by
  have hold : phsRejectBoundsOld s inB lim [d] cur 0 = ⟨true, (x, d.rot), 1, [], false, false⟩ := by
    simp [phsRejectBoundsOld, hl, hr, ht, hk, hb]
  have hnew : (phsRejectBounds s inB lim [d] cur 0).found = false := by
    simp [phsRejectBounds, hl, hr, ht, hk, hb, hout]
  rw [hold]
  exact ⟨rfl, rfl, hout, hnew⟩

/-! ## D. the direct sampler, two-argument form -/

/-- `updatePhsDefinitions` does not touch the iteration limit -/
theorem update_numIters (s : Sampler α) (c : α) : (s.update c).numIters = s.numIters := rfl

/-- infinite cost bound: the sampler is returned unchanged -/
theorem sampleInner_notfin_fst (s : Sampler α) (inB : List α × ρ → Bool) (c : α)
    (ds : List (Draw α ρ)) (cur : List α × ρ) (it : Nat) :
    (s.sampleInner inB false c ds cur it).1 = s := by
  cases ds <;> rfl

/-- infinite cost bound, no draw left: starved -/
theorem sampleInner_notfin_nil (s : Sampler α) (inB : List α × ρ → Bool) (c : α)
    (cur : List α × ρ) (it : Nat) :
    (s.sampleInner inB false c ([] : List (Draw α ρ)) cur it).2
      = ⟨false, cur, it, [], true, false⟩ := rfl

/-- infinite cost bound: the base draw is returned, one draw and one iteration are consumed -/
theorem sampleInner_notfin_cons (s : Sampler α) (inB : List α × ρ → Bool) (c : α)
    (d : Draw α ρ) (ds : List (Draw α ρ)) (cur : List α × ρ) (it : Nat) :
    (s.sampleInner inB false c (d :: ds) cur it).2
      = ⟨true, (d.baseInf, d.baseRest), it + 1, ds, false, false⟩ := rfl

/-- finite cost bound: update, then one of the two loops -/
theorem sampleInner_fin (s : Sampler α) (inB : List α × ρ → Bool) (c : α)
    (ds : List (Draw α ρ)) (cur : List α × ρ) (it : Nat) :
    s.sampleInner inB true c ds cur it
      = if (s.update c).useBoundsBranch then
          (s.update c, rejectLoop (fun st => (s.update c).isInAny st.1) s.numIters ds cur it)
        else (s.update c, phsRejectBounds (s.update c) inB s.numIters ds cur it) := rfl

/-- finite cost bound: the returned sampler is the updated one -/
theorem sampleInner_fin_fst (s : Sampler α) (inB : List α × ρ → Bool) (c : α)
    (ds : List (Draw α ρ)) (cur : List α × ρ) (it : Nat) :
    (s.sampleInner inB true c ds cur it).1 = s.update c := by
  rw [sampleInner_fin]
  split <;> rfl

/-- finite cost bound, bounds branch: the rejection loop with `isInAnyPhs` as test -/
theorem sampleInner_fin_bounds (s : Sampler α) (inB : List α × ρ → Bool) (c : α)
    (ds : List (Draw α ρ)) (cur : List α × ρ) (it : Nat)
    (hb : (s.update c).useBoundsBranch = true) :
    (s.sampleInner inB true c ds cur it).2
      = rejectLoop (fun st => (s.update c).isInAny st.1) s.numIters ds cur it := by
  rw [sampleInner_fin, if_pos hb]

/-- finite cost bound, PHS branch -/
theorem sampleInner_fin_phs (s : Sampler α) (inB : List α × ρ → Bool) (c : α)
    (ds : List (Draw α ρ)) (cur : List α × ρ) (it : Nat)
    (hb : (s.update c).useBoundsBranch = false) :
    (s.sampleInner inB true c ds cur it).2
      = phsRejectBounds (s.update c) inB s.numIters ds cur it := by
  rw [sampleInner_fin, if_neg (by rw [hb]; exact Bool.false_ne_true)]

/-- What a successful draw of the direct sampler satisfies (`s'` is the updated sampler): with an
infinite bound it is the base draw; with a finite bound it is, in the bounds branch, a base draw
inside some PHS, and in the PHS branch an in-bounds transform of the draw's ball point by one of the
PHSs that passed `keepSample`. -/
def DirectOk (s' : Sampler α) (inB : List α × ρ → Bool) (fin : Bool) (ds : List (Draw α ρ))
    (st : List α × ρ) : Prop :=
  (fin = false → ∃ d ∈ ds, st = (d.baseInf, d.baseRest)) ∧
  (fin = true →
    (s'.useBoundsBranch = true →
      s'.isInAny st.1 = true ∧ ∃ d ∈ ds, st = (d.baseInf, d.baseRest)) ∧
    (s'.useBoundsBranch = false →
      inB st = true ∧ s'.isInAny st.1 = true ∧ ∃ d ∈ ds, ∃ p ∈ s'.phss,
        p.transform d.ball = some st.1 ∧ s'.keep st.1 d.r2 = true ∧ st.2 = d.rot))

/-- `DirectOk` is monotone in the list of draws -/
theorem DirectOk.mono {s' : Sampler α} {inB : List α × ρ → Bool} {fin : Bool}
    {ds ds' : List (Draw α ρ)} {st : List α × ρ} (hsub : ds' <:+ ds)
    (h : DirectOk s' inB fin ds' st) : DirectOk s' inB fin ds st := by
  obtain ⟨h1, h2⟩ := h
  refine ⟨fun hf => ?_, fun hf => ⟨fun hb => ?_, fun hb => ?_⟩⟩
  · obtain ⟨d, hd, e⟩ := h1 hf
    exact ⟨d, hsub.mem hd, e⟩
  · obtain ⟨hi, d, hd, e⟩ := (h2 hf).1 hb
    exact ⟨hi, d, hsub.mem hd, e⟩
  · obtain ⟨hi, ha, d, hd, e⟩ := (h2 hf).2 hb
    exact ⟨hi, ha, d, hsub.mem hd, e⟩

/-- Specification of the private `sampleUniform(statePtr, maxCost, iters)`: with
`o := (s.sampleInner inB fin c ds cur it).2`, (1) a success satisfies `DirectOk`, (2) the counter
moves forward, (3) it stays within `numIters_` if it started strictly below, (4,5) draw accounting,
(6) a success is neither starved nor a null-PHS exit, (7) suffix. -/
theorem sampleInner_spec (s : Sampler α) (inB : List α × ρ → Bool) (fin : Bool) (c : α)
    (ds : List (Draw α ρ)) (cur : List α × ρ) (it : Nat) :
    ((s.sampleInner inB fin c ds cur it).2.found = true →
        DirectOk (s.update c) inB fin ds (s.sampleInner inB fin c ds cur it).2.st) ∧
    it ≤ (s.sampleInner inB fin c ds cur it).2.iters ∧
    (it < s.numIters → (s.sampleInner inB fin c ds cur it).2.iters ≤ s.numIters) ∧
    ((s.sampleInner inB fin c ds cur it).2.nullPhs = false →
      (s.sampleInner inB fin c ds cur it).2.rest.length
        + ((s.sampleInner inB fin c ds cur it).2.iters - it) = ds.length) ∧
    ((s.sampleInner inB fin c ds cur it).2.nullPhs = true →
      (s.sampleInner inB fin c ds cur it).2.rest.length
        + ((s.sampleInner inB fin c ds cur it).2.iters - it) + 1 = ds.length) ∧
    ((s.sampleInner inB fin c ds cur it).2.found = true →
      (s.sampleInner inB fin c ds cur it).2.starved = false ∧
      (s.sampleInner inB fin c ds cur it).2.nullPhs = false) ∧
    (s.sampleInner inB fin c ds cur it).2.rest <:+ ds := by
  cases fin with
  | false =>
    cases ds with
    | nil =>
      rw [sampleInner_notfin_nil]
      simp
      exact Nat.le_of_lt
    | cons d ds =>
      rw [sampleInner_notfin_cons]
      refine ⟨fun _ => ⟨fun _ => ⟨d, List.mem_cons_self, rfl⟩, fun h => by simp at h⟩, by simp,
        fun h => by simp; omega, fun _ => by simp, fun h => by simp at h, fun _ => ⟨rfl, rfl⟩,
        List.suffix_cons _ _⟩
  | true =>
    cases hb : (s.update c).useBoundsBranch with
    | true =>
      rw [sampleInner_fin_bounds s inB c ds cur it hb]
      obtain ⟨h1, h2, h3, h4, h5, h6, h7⟩ :=
        rejectLoop_spec (fun st => (s.update c).isInAny st.1) s.numIters ds cur it
      refine ⟨fun hf => ⟨fun h => by simp at h, fun _ => ⟨fun _ => h1 hf, fun h => (by rw [hb] at h; cases h)⟩⟩,
        h2, fun h => h3 (by omega), fun _ => h4, fun h => by rw [h6] at h; simp at h, h5, h7⟩
    | false =>
      rw [sampleInner_fin_phs s inB c ds cur it hb]
      obtain ⟨h1, h2, h3, h4, h4', h5, h6⟩ :=
        phsRejectBounds_spec (s.update c) inB s.numIters ds cur it
      refine ⟨fun hf => ⟨fun h => by simp at h, fun _ => ⟨fun h => (by rw [hb] at h; cases h), fun _ => h1 hf⟩⟩,
        h2, fun h => h3 (by omega), h4, h4', h5, h6⟩

/-- public `sampleUniform(statePtr, maxCost)`: if the base sampler stays in bounds (`hbase`), a
reported success is in bounds and satisfies `DirectOk`; the iteration count and the number of draws
consumed are within `numIters_` (one draw for an infinite bound). -/
theorem sample_success_sound (s : Sampler α) (inB : List α × ρ → Bool) (fin : Bool) (c : α)
    (ds : List (Draw α ρ)) (cur : List α × ρ)
    (hbase : ∀ d ∈ ds, inB (d.baseInf, d.baseRest) = true)
    (hf : (s.sample2 inB fin c ds cur).2.found = true) :
    inB (s.sample2 inB fin c ds cur).2.st = true ∧
    DirectOk (s.update c) inB fin ds (s.sample2 inB fin c ds cur).2.st ∧
    (s.sample2 inB fin c ds cur).2.rest <:+ ds ∧
    (fin = true → (s.sample2 inB fin c ds cur).2.iters ≤ s.numIters ∧
      ds.length ≤ (s.sample2 inB fin c ds cur).2.rest.length + s.numIters) ∧
    (fin = false → ds.length ≤ (s.sample2 inB fin c ds cur).2.rest.length + 1) := by
  unfold Sampler.sample2 at hf ⊢
  obtain ⟨h1, h2, h3, h4, h5, h6, h7⟩ := sampleInner_spec s inB fin c ds cur 0
  have hok := h1 hf
  have hn := (h6 hf).2
  have hacc := h4 hn
  refine ⟨?_, hok, h7, fun hfin => ?_, fun hfin => ?_⟩
  · cases fin with
    | false =>
      obtain ⟨d, hd, e⟩ := hok.1 rfl
      rw [e]; exact hbase d hd
    | true =>
      cases hb : (s.update c).useBoundsBranch with
      | true =>
        obtain ⟨_, d, hd, e⟩ := (hok.2 rfl).1 hb
        rw [e]; exact hbase d hd
      | false => exact ((hok.2 rfl).2 hb).1
  · subst hfin
    by_cases hz : 0 < s.numIters
    · have := h3 hz
      exact ⟨this, by omega⟩
    · -- `numIters_ = 0`: both loops exit at once, which contradicts `found`
      exfalso
      have hz' : s.numIters = 0 := by omega
      cases hb : (s.update c).useBoundsBranch with
      | true =>
        rw [sampleInner_fin_bounds s inB c ds cur 0 hb, hz'] at hf
        cases ds <;> simp [rejectLoop] at hf
      | false =>
        rw [sampleInner_fin_phs s inB c ds cur 0 hb, hz'] at hf
        cases ds <;> simp [phsRejectBounds] at hf
  · subst hfin
    cases ds with
    | nil => simp
    | cons d ds => rw [sampleInner_notfin_cons]; simp

/-! ## E. the three-argument form -/

/-- the lower-bound test `isCostEquivalentTo(min, sc) || isCostBetterThan(min, sc)` as a
proposition (no order law used) -/
theorem lowerOk_true_iff (minC sc : α) : lowerOk minC sc = true ↔ (¬ sc < minC) ∨ minC < sc := by
  unfold lowerOk
  by_cases h1 : minC < sc <;> by_cases h2 : sc < minC <;> simp [h1, h2]

/-- Specification of the outer loop of `sampleUniform(statePtr, minCost, maxCost)` for any `inner`
that moves the counter forward within `lim`, returns a suffix of its draws and accounts for them
(`hin`), and whose successes satisfy a suffix-monotone predicate `P` (`hP`, `hmono`): a success
satisfies `P` and passed the lower-bound test on its heuristic cost; the draws left are a suffix;
at most `lim - i` draws are consumed (plus one on a null-PHS exit). -/
theorem outer3_spec (lim : Nat) (inner : List (Draw α ρ) → List α × ρ → Nat → Out α ρ)
    (hc : List α × ρ → Option α) (minC : α)
    (P : List (Draw α ρ) → List α × ρ → Prop)
    (hmono : ∀ ds ds' st, ds' <:+ ds → P ds' st → P ds st)
    (hin : ∀ ds cur i, i < lim →
      i ≤ (inner ds cur i).iters ∧ (inner ds cur i).iters ≤ lim ∧ (inner ds cur i).rest <:+ ds ∧
      ((inner ds cur i).nullPhs = false →
        ds.length ≤ (inner ds cur i).rest.length + ((inner ds cur i).iters - i)) ∧
      ds.length ≤ (inner ds cur i).rest.length + ((inner ds cur i).iters - i) + 1)
    (hP : ∀ ds cur i, (inner ds cur i).found = true → P ds (inner ds cur i).st)
    (ds : List (Draw α ρ)) (cur : List α × ρ) (i : Nat) :
    ((outer3 lim inner hc minC ds cur i).found = true →
      P ds (outer3 lim inner hc minC ds cur i).st ∧
      ∃ sc, hc (outer3 lim inner hc minC ds cur i).st = some sc ∧ lowerOk minC sc = true) ∧
    (outer3 lim inner hc minC ds cur i).rest <:+ ds ∧
    ((outer3 lim inner hc minC ds cur i).nullPhs = false →
      ds.length ≤ (outer3 lim inner hc minC ds cur i).rest.length + (lim - i)) ∧
    ds.length ≤ (outer3 lim inner hc minC ds cur i).rest.length + (lim - i) + 1 := by
  fun_induction outer3 lim inner hc minC ds cur i with
  | case1 ds cur i hlt r ok hstop =>
    have hh := hin ds cur i hlt
    change i ≤ r.iters ∧ r.iters ≤ lim ∧ r.rest <:+ ds ∧
      (r.nullPhs = false → ds.length ≤ r.rest.length + (r.iters - i)) ∧
      ds.length ≤ r.rest.length + (r.iters - i) + 1 at hh
    obtain ⟨h1, h2, h3, h4, h5⟩ := hh
    refine ⟨fun hf => ?_, h3, fun hn => ?_, ?_⟩
    · have hok : ok = true := hf
      have hrf : r.found = true := by
        cases hr : r.found with
        | true => rfl
        | false => simp [ok, hr] at hok
      refine ⟨hP ds cur i hrf, ?_⟩
      cases hh : hc r.st with
      | none => simp [ok, hh] at hok
      | some sc =>
        refine ⟨sc, rfl, ?_⟩
        simpa [ok, hrf, hh] using hok
    · have := h4 hn
      show ds.length ≤ r.rest.length + (lim - i)
      omega
    · show ds.length ≤ r.rest.length + (lim - i) + 1
      omega
  | case2 ds cur i hlt r ok hcont i' ih =>
    have hh := hin ds cur i hlt
    change i ≤ r.iters ∧ r.iters ≤ lim ∧ r.rest <:+ ds ∧
      (r.nullPhs = false → ds.length ≤ r.rest.length + (r.iters - i)) ∧
      ds.length ≤ r.rest.length + (r.iters - i) + 1 at hh
    obtain ⟨h1, h2, h3, h4, h5⟩ := hh
    have hi' : i' = r.iters := by
      show (if r.iters < i then i else r.iters) = r.iters
      split
      · omega
      · rfl
    have hrn : r.nullPhs = false := by
      cases hr : r.nullPhs with
      | false => rfl
      | true => simp [hr] at hcont
    have h4' := h4 hrn
    obtain ⟨g1, g2, g3, g4⟩ := ih
    refine ⟨fun hf => ?_, g2.trans h3, fun hn => ?_, ?_⟩
    · obtain ⟨hp, hsc⟩ := g1 hf
      exact ⟨hmono ds r.rest _ h3 hp, hsc⟩
    · have := g3 hn
      omega
    · omega
  | case3 ds cur i hge =>
    refine ⟨fun hf => by simp at hf, List.suffix_refl _, fun _ => by simp, ?_⟩
    show ds.length ≤ ds.length + (lim - i) + 1
    omega

/-- if `inner` never takes the null-PHS exit, neither does the outer loop -/
theorem outer3_nullPhs (lim : Nat) (inner : List (Draw α ρ) → List α × ρ → Nat → Out α ρ)
    (hc : List α × ρ → Option α) (minC : α)
    (hnull : ∀ ds cur i, (inner ds cur i).nullPhs = false)
    (ds : List (Draw α ρ)) (cur : List α × ρ) (i : Nat) :
    (outer3 lim inner hc minC ds cur i).nullPhs = false := by
  fun_induction outer3 lim inner hc minC ds cur i with
  | case1 ds cur i hlt r ok hstop => exact hnull ds cur i
  | case2 ds cur i hlt r ok hcont i' ih => exact ih
  | case3 ds cur i hge => rfl

/-- Direct sampler, three-argument form: the returned sampler is the updated one (for a finite
bound); a success satisfies `DirectOk` and passed the lower-bound test on `heuristicSolnCost`; the
draws left are a suffix and at most `numIters_` draws are consumed (plus one on a null-PHS exit). -/
theorem sample3_sound (s : Sampler α) (inB : List α × ρ → Bool) (fin : Bool) (minC c : α)
    (ds : List (Draw α ρ)) (cur : List α × ρ) :
    (s.sample3 inB fin minC c ds cur).1 = (if fin then s.update c else s) ∧
    ((s.sample3 inB fin minC c ds cur).2.found = true →
      DirectOk (s.update c) inB fin ds (s.sample3 inB fin minC c ds cur).2.st ∧
      ∃ sc, (if fin then s.update c else s).hcost (s.sample3 inB fin minC c ds cur).2.st.1 = some sc
        ∧ lowerOk minC sc = true) ∧
    (s.sample3 inB fin minC c ds cur).2.rest <:+ ds ∧
    ((s.sample3 inB fin minC c ds cur).2.nullPhs = false →
      ds.length ≤ (s.sample3 inB fin minC c ds cur).2.rest.length + s.numIters) ∧
    ds.length ≤ (s.sample3 inB fin minC c ds cur).2.rest.length + s.numIters + 1 := by
  have h := outer3_spec s.numIters (fun ds cur i => (s.sampleInner inB fin c ds cur i).2)
    (fun st => (if fin then s.update c else s).hcost st.1) minC
    (DirectOk (s.update c) inB fin) (fun _ _ _ hs hp => DirectOk.mono hs hp)
    (fun ds cur i hlt => by
      obtain ⟨_, h2, h3, h4, h5, _, h7⟩ := sampleInner_spec s inB fin c ds cur i
      have h3' := h3 hlt
      refine ⟨h2, h3', h7, fun hn => by have := h4 hn; omega, ?_⟩
      cases hn : (s.sampleInner inB fin c ds cur i).2.nullPhs with
      | false => have := h4 hn; omega
      | true => have := h5 hn; omega)
    (fun ds cur i hf => (sampleInner_spec s inB fin c ds cur i).1 hf) ds cur 0
  simp only [Nat.sub_zero] at h
  exact ⟨rfl, h⟩

/-- `RejectionInfSampler`, two-argument form: a success has heuristic cost below the bound and is
one of the base draws; at most `lim` draws are consumed. -/
theorem rejSample2_sound (h : List α × ρ → α) (lim : Nat) (c : α) (ds : List (Draw α ρ))
    (cur : List α × ρ) :
    ((rejSample2 h lim c ds cur).found = true →
      h (rejSample2 h lim c ds cur).st < c ∧
      ∃ d ∈ ds, (rejSample2 h lim c ds cur).st = (d.baseInf, d.baseRest)) ∧
    (rejSample2 h lim c ds cur).rest <:+ ds ∧
    (rejSample2 h lim c ds cur).iters ≤ lim ∧
    ds.length ≤ (rejSample2 h lim c ds cur).rest.length + lim := by
  unfold rejSample2 rejInner
  obtain ⟨h1, _, h3, h4, _, _, h7⟩ :=
    rejectLoop_spec (fun st => decide (h st < c)) lim ds cur 0
  have := h3 (Nat.zero_le _)
  refine ⟨fun hf => ?_, h7, this, by omega⟩
  obtain ⟨ht, hd⟩ := h1 hf
  exact ⟨of_decide_eq_true ht, hd⟩

/-- `RejectionInfSampler`, three-argument form: a success has heuristic cost below the upper bound,
is one of the base draws and passed the lower-bound test; at most `lim` draws are consumed. -/
theorem rejSample3_sound (h : List α × ρ → α) (lim : Nat) (minC c : α) (ds : List (Draw α ρ))
    (cur : List α × ρ) :
    ((rejSample3 h lim minC c ds cur).found = true →
      h (rejSample3 h lim minC c ds cur).st < c ∧
      (∃ d ∈ ds, (rejSample3 h lim minC c ds cur).st = (d.baseInf, d.baseRest)) ∧
      lowerOk minC (h (rejSample3 h lim minC c ds cur).st) = true) ∧
    (rejSample3 h lim minC c ds cur).rest <:+ ds ∧
    ds.length ≤ (rejSample3 h lim minC c ds cur).rest.length + lim := by
  unfold rejSample3
  have hnull : ∀ (ds : List (Draw α ρ)) cur i, (rejInner h lim c ds cur i).nullPhs = false :=
    fun ds cur i => (rejectLoop_spec (fun st => decide (h st < c)) lim ds cur i).2.2.2.2.2.1
  have hspec := outer3_spec lim (rejInner h lim c) (fun st => some (h st)) minC
    (fun ds st => h st < c ∧ ∃ d ∈ ds, st = (d.baseInf, d.baseRest))
    (fun _ _ _ hs hp => ⟨hp.1, hp.2.elim fun d hd => ⟨d, hs.mem hd.1, hd.2⟩⟩)
    (fun ds cur i hlt => by
      obtain ⟨_, h2, h3, h4, _, _, h7⟩ :=
        rejectLoop_spec (fun st => decide (h st < c)) lim ds cur i
      have h3' := h3 (Nat.le_of_lt hlt)
      exact ⟨h2, h3', h7, fun _ => by unfold rejInner; omega, by unfold rejInner; omega⟩)
    (fun ds cur i hf => by
      obtain ⟨ht, hd⟩ := (rejectLoop_spec (fun st => decide (h st < c)) lim ds cur i).1 hf
      exact ⟨of_decide_eq_true ht, hd⟩) ds cur 0
  simp only [Nat.sub_zero] at hspec
  obtain ⟨g1, g2, g3, _⟩ := hspec
  refine ⟨fun hf => ?_, g2, g3 (outer3_nullPhs lim _ _ minC hnull ds cur 0)⟩
  obtain ⟨⟨hlt, hd⟩, sc, hsc, hlow⟩ := g1 hf
  injection hsc with hsc
  subst hsc
  exact ⟨hlt, hd, hlow⟩

/-! ## F. the ordered wrapper -/

variable {σ : Type}

/-- a fold that always keeps one of its two arguments returns the start value or a list element -/
theorem foldl_pick_mem (f : σ → σ → σ) (hf : ∀ b y, f b y = b ∨ f b y = y) :
    ∀ (xs : List σ) (x : σ), xs.foldl f x ∈ x :: xs := by
  intro xs
  induction xs with
  | nil => intro x; simp
  | cons y ys ih =>
    intro x
    rw [List.foldl_cons]
    have := ih (f x y)
    rcases List.mem_cons.1 this with h | h
    · rcases hf x y with e | e
      · rw [h, e]; exact List.mem_cons_self
      · rw [h, e]; exact List.mem_cons_of_mem _ List.mem_cons_self
    · exact List.mem_cons_of_mem _ (List.mem_cons_of_mem _ h)

/-- the best element is an element -/
theorem argBest_mem (h : σ → α) (q : List σ) (t : σ) (ht : argBest h q = some t) : t ∈ q := by
  cases q with
  | nil => simp [argBest] at ht
  | cons x xs =>
    simp only [argBest, Option.some.injEq] at ht
    rw [← ht]
    exact foldl_pick_mem _ (fun b y => by split <;> simp) xs x

/-- `argBest` fails only on the empty list -/
theorem argBest_eq_none (h : σ → α) (q : List σ) (hn : argBest h q = none) : q = [] := by
  cases q with
  | nil => rfl
  | cons x xs => simp [argBest] at hn

/-- `OrderedInfSampler` (fixed): a true return gives a state whose cost is below the bound and that
was produced by a SUCCESSFUL wrapped call of one of the batches (in fact the first); the queue is the
successful part of that batch. -/
theorem ordered_success_sound (h : σ → α) (c : α) :
    ∀ (bs : List (List (Wrapped σ))) (t : σ) (q : List σ),
      orderedSample h c bs = .found t q →
      h t < c ∧ ∃ b ∈ bs, q = (b.filter (·.1)).map (·.2) ∧ ∃ w ∈ b, w.1 = true ∧ w.2 = t := by
  intro bs t q hs
  cases bs with
  | nil => simp [orderedSample] at hs
  | cons b bs =>
    rw [orderedSample] at hs
    split at hs
    · cases hs
    · rename_i t' hbest
      split at hs
      · rename_i hlt
        injection hs with e1 e2
        subst e1 e2
        refine ⟨hlt, b, List.mem_cons_self, rfl, ?_⟩
        have := argBest_mem h _ _ hbest
        obtain ⟨w, hw, e⟩ := List.mem_map.1 this
        obtain ⟨hwb, hflag⟩ := List.mem_filter.1 hw
        exact ⟨w, hwb, hflag, e⟩
      · cases hs

/-- Hence whatever the successful wrapped calls guarantee (`good`) holds of a returned sample. -/
theorem ordered_success_good (h : σ → α) (c : α) (good : σ → Prop)
    (bs : List (List (Wrapped σ))) (hw : ∀ b ∈ bs, ∀ w ∈ b, w.1 = true → good w.2)
    (t : σ) (q : List σ) (hs : orderedSample h c bs = .found t q) : good t ∧ h t < c := by
  obtain ⟨hlt, b, hb, _, w, hwb, hflag, e⟩ := ordered_success_sound h c bs t q hs
  exact ⟨e ▸ hw b hb w hwb hflag, hlt⟩

/-- the fixed wrapper returns false only when the whole batch of wrapped calls failed, or when the
best of the batch drawn for this bound is not below it -/
theorem ordered_failed_batch (h : σ → α) (c : α) (bs : List (List (Wrapped σ)))
    (hs : orderedSample h c bs = .failed) :
    ∃ b, bs.head? = some b ∧
      ((∀ w ∈ b, w.1 = false) ∨
        ∃ t, argBest h ((b.filter (·.1)).map (·.2)) = some t ∧ ¬ h t < c) := by
  cases bs with
  | nil => simp [orderedSample] at hs
  | cons b bs =>
    refine ⟨b, rfl, ?_⟩
    rw [orderedSample] at hs
    split at hs
    · rename_i hnone
      left
      intro w hw
      have hq := argBest_eq_none h _ hnone
      have hfil : b.filter (·.1) = [] := List.map_eq_nil_iff.1 hq
      cases hflag : w.1 with
      | false => rfl
      | true =>
        have : w ∈ b.filter (·.1) := List.mem_filter.2 ⟨hw, hflag⟩
        rw [hfil] at this
        cases this
    · rename_i t hbest
      split at hs
      · cases hs
      · rename_i hnlt
        exact Or.inr ⟨t, hbest, hnlt⟩

/-- Witness for the loop BEFORE the `freshBatch` fix: on a stream of batches none of which beats the
bound the old loop never returns, whatever the number of supplied batches. -/
theorem ordered_old_loops (h : σ → α) (c : α) (t : σ) (ht : ¬ h t < c) :
    ∀ n : Nat, orderedSampleLoop h c (List.replicate n [(true, t)]) = .starved := by
  intro n
  induction n with
  | zero => rfl
  | succ n ih =>
    rw [List.replicate_succ, orderedSampleLoop]
    simp [argBest, ht, ih]

/-- Contrast (after the fix): the first such batch makes the wrapper return false. -/
theorem ordered_new_returns_false (h : σ → α) (c : α) (t : σ) (ht : ¬ h t < c)
    (bs : List (List (Wrapped σ))) : orderedSample h c ([(true, t)] :: bs) = .failed := by
  simp [orderedSample, argBest, ht]

/-- `OrderedInfSampler` BEFORE the fix: the returned state has cost below the bound and is the state
left by SOME wrapped call of one of the batches (whatever flag that call returned). -/
theorem orderedSampleOld_sound (h : σ → α) (c : α) :
    ∀ (bs : List (List (Wrapped σ))) (t : σ) (q : List σ),
      orderedSampleOld h c bs = some (t, q) →
      h t < c ∧ ∃ b ∈ bs, q = b.map (·.2) ∧ ∃ w ∈ b, w.2 = t := by
  intro bs
  induction bs with
  | nil => intro t q hs; simp [orderedSampleOld] at hs
  | cons b bs ih =>
    intro t q hs
    have hrec : orderedSampleOld h c bs = some (t, q) →
        h t < c ∧ ∃ b' ∈ b :: bs, q = b'.map (·.2) ∧ ∃ w ∈ b', w.2 = t := fun hs' => by
      obtain ⟨hlt, b', hb', hq, hw⟩ := ih t q hs'
      exact ⟨hlt, b', List.mem_cons_of_mem _ hb', hq, hw⟩
    rw [orderedSampleOld] at hs
    split at hs
    · exact hrec hs
    · rename_i t' hbest
      split at hs
      · rename_i hlt
        injection hs with hs
        injection hs with e1 e2
        subst e1 e2
        refine ⟨hlt, b, List.mem_cons_self, rfl, ?_⟩
        have := argBest_mem h _ _ hbest
        obtain ⟨w, hw, e⟩ := List.mem_map.1 this
        exact ⟨w, hw, e⟩
      · exact hrec hs

/-- Defect witness (before the fix): a state that the wrapped sampler reported as FAILED (flag
`false`) is returned as a successful ordered sample as soon as its cost is below the bound. -/
theorem ordered_old_returns_failed_sample (h : σ → α) (c : α) (t : σ) (ht : h t < c) :
    orderedSampleOld h c [[(false, t)]] = some (t, [t]) := by
  simp [orderedSampleOld, argBest, ht]

/-- Contrast (after the fix): the same input makes the wrapper return false. -/
theorem ordered_new_rejects_failed_sample (h : σ → α) (c : α) (t : σ) :
    orderedSample h c [[(false, t)]] = .failed := by
  simp [orderedSample, argBest]

/-! ## G. the heuristic of the direct sampler -/

/-- the running minimum is below `c` as soon as the start value or some element is -/
theorem foldl_better_lt (trans : ∀ a b c : α, a < b → b < c → a < c)
    (conn : ∀ a b c : α, ¬ a < b → a < c → b < c) (c : α) :
    ∀ (xs : List α) (x : α), (x < c ∨ ∃ a ∈ xs, a < c) → xs.foldl better x < c := by
  intro xs
  induction xs with
  | nil =>
    intro x h
    rcases h with h | ⟨a, ha, _⟩
    · exact h
    · cases ha
  | cons y ys ih =>
    intro x h
    rw [List.foldl_cons]
    apply ih
    rcases h with h | ⟨a, ha, hac⟩
    · left
      unfold better
      split
      · exact h
      · rename_i hxy; exact conn x y c hxy h
    · rcases List.mem_cons.1 ha with e | ha'
      · subst e
        left
        unfold better
        split
        · rename_i hxy; exact trans x a c hxy hac
        · exact hac
      · exact Or.inr ⟨a, ha', hac⟩

/-- `minOf` is below `c` as soon as some element is -/
theorem minOf_lt (trans : ∀ a b c : α, a < b → b < c → a < c)
    (conn : ∀ a b c : α, ¬ a < b → a < c → b < c) (c : α) (l : List α)
    (h : ∃ a ∈ l, a < c) : ∃ m, minOf l = some m ∧ m < c := by
  cases l with
  | nil => obtain ⟨a, ha, _⟩ := h; cases ha
  | cons x xs =>
    refine ⟨_, rfl, foldl_better_lt trans conn c xs x ?_⟩
    obtain ⟨a, ha, hac⟩ := h
    rcases List.mem_cons.1 ha with e | ha'
    · subst e; exact Or.inl hac
    · exact Or.inr ⟨a, ha', hac⟩

/-- If every PHS has transverse diameter `c` and some PHS contains `x`, the direct sampler's
heuristic cost of `x` (the least focal sum) is below `c`.  The two order laws used are explicit
hypotheses (they hold for `<` on non-NaN doubles). -/
theorem hcost_lt_of_isInAny (trans : ∀ a b c : α, a < b → b < c → a < c)
    (conn : ∀ a b c : α, ¬ a < b → a < c → b < c) (s : Sampler α) (x : List α) (c : α)
    (hall : ∀ p ∈ s.phss, p.c = c) (hin : s.isInAny x = true) :
    ∃ h, s.hcost x = some h ∧ h < c := by
  unfold Sampler.isInAny at hin
  obtain ⟨p, hp, hpin⟩ := List.any_eq_true.1 hin
  unfold Phs.isIn at hpin
  have hlt : p.pathLength x < c := by
    have := of_decide_eq_true hpin
    rwa [hall p hp] at this
  exact minOf_lt trans conn c _ ⟨p.pathLength x, List.mem_map.2 ⟨p, hp, rfl⟩, hlt⟩

end PhsLogic
end OmplModel.Phs
