import OmplModel.Model.Phs
/-!
C15 helper lemmas (arithmetic-free, core Lean only): the model's PHS state after any history of
`setTransverseDiameter` calls is a function of the LAST diameter only.  The C++ code skips the update
when `transverseDiameter_ != transverseDiameter` is false; with exact `!=` that shortcut is invisible
(`setC_idem`), and the lock-step run with consecutive diameters one ulp apart checks that the code
really behaves like this (an approximate "did it change?" test would not).
-/
namespace OmplModel.Phs.PhsState
open OmplModel OmplModel.Phs

variable {α : Type} [Num α]

/-- a second `setC` overwrites the first: nothing of the earlier diameter survives -/
theorem setC_setC (p : Phs α) (a d : α) : (p.setC a).setC d = p.setC d := rfl

/-- setting the same diameter again changes nothing (the `!=` shortcut of the C++ code) -/
theorem setC_idem (p : Phs α) (d : α) : (p.setC d).setC d = p.setC d := rfl

/-- any history of unchecked updates followed by `d` equals the fresh object set to `d` -/
theorem foldl_setC (cs : List α) (p : Phs α) (d : α) : (cs.foldl Phs.setC p).setC d = p.setC d := by
  induction cs generalizing p with
  | nil => rfl
  | cons a cs ih => rw [List.foldl_cons, ih (p.setC a), setC_setC]

theorem setTD_eq (p q : Phs α) (c : α) (h : p.setTransverseDiameter c = some q) : q = p.setC c := by
  unfold Phs.setTransverseDiameter at h
  split at h
  · cases h
  · exact (Option.some.inj h).symm

/-- a history of `setTransverseDiameter` calls, stopping at the first one that throws -/
def history (p : Phs α) : List α → Option (Phs α)
  | [] => some p
  | c :: cs =>
    match p.setTransverseDiameter c with
    | some q => history q cs
    | none => none

/-- every object reached by a history of successful calls is `p.setC _` of its last diameter, or `p` -/
theorem history_setC (cs : List α) (p q : Phs α) (d : α) (h : history p cs = some q) :
    q.setC d = p.setC d := by
  induction cs generalizing p with
  | nil =>
    simp only [history] at h
    rw [← Option.some.inj h]
  | cons c cs ih =>
    simp only [history] at h
    split at h
    · rename_i q' hq
      rw [ih q' h, setTD_eq p q' c hq, setC_setC]
    · cases h

/-- the throw test of the last call does not depend on the history either (`cmin` never changes) -/
theorem history_cmin (cs : List α) (p q : Phs α) (h : history p cs = some q) : q.cmin = p.cmin ∧ q.dim = p.dim := by
  induction cs generalizing p with
  | nil =>
    simp only [history] at h
    rw [← Option.some.inj h]; exact ⟨rfl, rfl⟩
  | cons c cs ih =>
    simp only [history] at h
    split at h
    · rename_i q' hq
      have := ih q' h
      rw [setTD_eq p q' c hq] at this
      exact this
    · cases h

/-- **any history of set calls ending in `d` equals a fresh object set to `d`** (as whole records) -/
theorem history_then_set (cs : List α) (p q : Phs α) (d : α) (h : history p cs = some q) :
    q.setTransverseDiameter d = p.setTransverseDiameter d := by
  unfold Phs.setTransverseDiameter
  rw [(history_cmin cs p q h).1, history_setC cs p q d h]

/-! ### `uniformProlateHyperspheroid` uses the PHS's own dimension and only this call's draws -/

/-- a successful sample used a direction of exactly the PHS's dimension (one `uniformNormalVector` of that size + one
uniform for the radius) and is the transform of that ball point -/
theorem uniformPhs_some (root : Nat → α → α) (p : Phs α) (dir : List α) (u : α) (x : List α)
    (h : uniformPhs root p dir u = some x) :
    dir.length = p.dim ∧ (uniformInBall root (Num.ofNat 1) dir u).length = p.dim ∧
    p.transform (uniformInBall root (Num.ofNat 1) dir u) = some x := by
  unfold uniformPhs at h
  split at h
  · rename_i hl
    refine ⟨hl, ?_, h⟩
    simp [uniformInBall, ballPoint, hl]
  · cases h

theorem uniformPhsRun_append (root : Nat → α → α) (a b : List (Phs α × List α × α)) :
    uniformPhsRun root (a ++ b) = uniformPhsRun root a ++ uniformPhsRun root b := by
  induction a with
  | nil => rfl
  | cons x xs ih =>
    obtain ⟨p, dir, u⟩ := x
    simp only [List.cons_append, uniformPhsRun, ih]

/-- whatever was sampled before (any PHSs of any dimensions, any draws), the result of the next call is the same -/
theorem uniformPhsRun_last (root : Nat → α → α) (hist : List (Phs α × List α × α)) (p : Phs α) (dir : List α) (u : α) :
    (uniformPhsRun root (hist ++ [(p, dir, u)])).getLast? = some (uniformPhs root p dir u) := by
  rw [uniformPhsRun_append]
  simp [uniformPhsRun]

/-! ### the proposed repair of F130 -/

variable {ρ : Type}

/-- with the repair a bound that no PHS can improve on is answered `false` at once, consuming no draw and not moving
the counter — arithmetic-free, no rounding involved -/
theorem sampleInnerFixed_cannotImprove (s : Sampler α) (inB : List α × ρ → Bool) (c : α) (ds : List (Draw α ρ))
    (cur : List α × ρ) (it : Nat) (h : (s.update c).cannotImprove c = true) :
    (s.sampleInnerFixed inB true c ds cur it).2.found = false ∧
    (s.sampleInnerFixed inB true c ds cur it).2.rest = ds ∧ (s.sampleInnerFixed inB true c ds cur it).2.iters = it := by
  simp [Sampler.sampleInnerFixed, h]

/-- otherwise the repaired function IS the coded one (every soundness theorem carries over) -/
theorem sampleInnerFixed_eq (s : Sampler α) (inB : List α × ρ → Bool) (fin : Bool) (c : α) (ds : List (Draw α ρ))
    (cur : List α × ρ) (it : Nat) (h : (fin && (s.update c).cannotImprove c) = false) :
    s.sampleInnerFixed inB fin c ds cur it = s.sampleInner inB fin c ds cur it := by
  simp [Sampler.sampleInnerFixed, h]

/-- a single PHS whose focal distance is not below the bound is exactly the `cannotImprove` situation -/
theorem cannotImprove_single (s' : Sampler α) (p : Phs α) (c : α) (hs : s'.phss = [p]) (hc : ¬ p.cmin < c) :
    s'.cannotImprove c = true := by
  simp [Sampler.cannotImprove, hs, hc]

end OmplModel.Phs.PhsState
