import OmplModel.Proofs.VanaAF
import OmplModel.Proofs.WorldFrameDubins
import Mathlib.Analysis.SpecialFunctions.Sqrt
import Mathlib.Tactic.Linarith
import Mathlib.Tactic.Ring
/-!
[EX] helper lemmas about `Model/Vana.lean` (C14, VanaStateSpace) over ℝ (instance of `Proofs/DubinsReal.lean`):
the curvature budget `1/rh² + 1/rv² = 1/rho²`, the pitch range the validity test of `decoupled` guarantees on the
first / last arc of the vertical profile, the end point of `interpolate(from, path, 1, ·)` for a pair of solver words
(horizontal and profile) through the world-frame Dubins theorem, the straight-line bound, and a concrete successful
`decoupled` / `getPath` call (coincident states) for the non-vacuity examples.
-/
namespace OmplModel.Vana
open OmplModel OmplModel.Dubins DubinsR
attribute [-instance] Num.instOfNat

/-! ## `isfinite`, the vertical radius -/

theorem isFinite_real (x : ℝ) : isFinite x = true := by
  unfold isFinite
  simp only [ofNat_zero, Bool.and_eq_true, decide_eq_true_eq]
  exact ⟨(sub_self x).le, (sub_self x).ge⟩

/-- the radicand of the vertical radius is positive when the horizontal radius exceeds `rho` -/
theorem radicand_pos (rho radius : ℝ) (hrho : 0 < rho) (hr : rho < radius) :
    0 < 1 / (rho * rho) - 1 / (radius * radius) := by
  have h1 : rho * rho < radius * radius := mul_self_lt_mul_self hrho.le hr
  have h2 := one_div_lt_one_div_of_lt (mul_pos hrho hrho) h1
  linarith

theorem curvature_budget (rho radius : ℝ) (hrho : 0 < rho) (hr : rho < radius) :
    0 < 1 / Real.sqrt (1 / (rho * rho) - 1 / (radius * radius)) ∧
    1 / radius ^ 2 + 1 / (1 / Real.sqrt (1 / (rho * rho) - 1 / (radius * radius))) ^ 2 = 1 / rho ^ 2 := by
  have hD := radicand_pos rho radius hrho hr
  have hs : 0 < Real.sqrt (1 / (rho * rho) - 1 / (radius * radius)) := Real.sqrt_pos.mpr hD
  refine ⟨one_div_pos.mpr hs, ?_⟩
  rw [one_div_pow, one_div_one_div, Real.sq_sqrt hD.le]
  ring

/-- the model's `rv` expression over ℝ is the plain real one -/
theorem rv_eq (rho radius : ℝ) :
    (@OfNat.ofNat ℝ 1 (Num.instOfNat 1) : ℝ) /
        Num.sqrt ((@OfNat.ofNat ℝ 1 (Num.instOfNat 1) : ℝ) / (rho * rho) -
          (@OfNat.ofNat ℝ 1 (Num.instOfNat 1) : ℝ) / (radius * radius)) =
      1 / Real.sqrt (1 / (rho * rho) - 1 / (radius * radius)) := by
  simp only [ofNat_one, sqrt_eq]

/-! ## pitch along the first and the last arc of the profile -/

theorem stepFwd_th_L (v : ℝ) (P : Pose ℝ) : (stepFwd .L v P).th = P.th + v := rfl
theorem stepFwd_th_R (v : ℝ) (P : Pose ℝ) : (stepFwd .R v P).th = P.th - v := rfl
theorem stepFwd_th_S (v : ℝ) (P : Pose ℝ) : (stepFwd .S v P).th = P.th := rfl
theorem stepRev_th_L (v : ℝ) (P : Pose ℝ) : (stepRev .L v P).th = P.th - v := rfl
theorem stepRev_th_R (v : ℝ) (P : Pose ℝ) : (stepRev .R v P).th = P.th + v := rfl

theorem csc_letters (w : Word) (a c : Seg) (h : w.segs = [a, .S, c]) : (a = .L ∨ a = .R) ∧ (c = .L ∨ c = .R) := by
  cases w <;> simp [Word.segs] at h <;> obtain ⟨rfl, rfl⟩ := h <;> simp

/-- first arc: every pitch met while driving `0 ≤ v ≤ t` of it from the start pitch lies in `[minP, maxP]` -/
theorem valid_first_arc (la : Bool) (minP maxP : ℝ) (s1 s2 : St5 ℝ) (sz : Path ℝ)
    (hv : Valid la minP maxP s1 s2 sz) (h1 : minP ≤ s1.pitch) (h1' : s1.pitch ≤ maxP)
    (a c : Seg) (hsegs : sz.w.segs = [a, .S, c]) (v : ℝ) (hv0 : 0 ≤ v) (hvt : v ≤ sz.t) (x y : ℝ) :
    minP ≤ (stepFwd a v ⟨x, y, s1.pitch⟩).th ∧ (stepFwd a v ⟨x, y, s1.pitch⟩).th ≤ maxP := by
  obtain ⟨a', c', hsegs', hR, hL, _⟩ := hv
  rw [hsegs] at hsegs'
  simp only [List.cons.injEq, true_and, and_true] at hsegs'
  obtain ⟨rfl, rfl⟩ := hsegs'
  rcases (csc_letters _ _ _ hsegs).1 with rfl | rfl
  · have h : ¬ (maxP < s1.pitch + sz.t) := hL rfl
    rw [stepFwd_th_L]
    have := not_lt.mp h
    constructor <;> simp only <;> linarith
  · have h : ¬ (s1.pitch - sz.t < minP) := hR rfl
    rw [stepFwd_th_R]
    have := not_lt.mp h
    constructor <;> simp only <;> linarith

/-- last arc (with the fix of finding F129, `la = true`): every pitch met while walking `0 ≤ v ≤ q` of it back from
the goal pitch lies in `[minP, maxP]` -/
theorem valid_last_arc (minP maxP : ℝ) (s1 s2 : St5 ℝ) (sz : Path ℝ)
    (hv : Valid true minP maxP s1 s2 sz) (h2 : minP ≤ s2.pitch) (h2' : s2.pitch ≤ maxP)
    (a c : Seg) (hsegs : sz.w.segs = [a, .S, c]) (v : ℝ) (hv0 : 0 ≤ v) (hvq : v ≤ sz.q) (x y : ℝ) :
    minP ≤ (stepRev c v ⟨x, y, s2.pitch⟩).th ∧ (stepRev c v ⟨x, y, s2.pitch⟩).th ≤ maxP := by
  obtain ⟨a', c', hsegs', _, _, hla⟩ := hv
  obtain ⟨hR, hL⟩ := hla rfl
  rw [hsegs] at hsegs'
  simp only [List.cons.injEq, true_and, and_true] at hsegs'
  obtain ⟨rfl, rfl⟩ := hsegs'
  rcases (csc_letters _ _ _ hsegs).2 with rfl | rfl
  · have h : ¬ (s2.pitch - sz.q < minP) := hL rfl
    rw [stepRev_th_L]
    have := not_lt.mp h
    constructor <;> simp only <;> linarith
  · have h : ¬ (maxP < s2.pitch + sz.q) := hR rfl
    rw [stepRev_th_R]
    have := not_lt.mp h
    constructor <;> simp only <;> linarith

/-! ## following both words to the end -/

/-- `interpolate(from, path, 1, ·)` for a horizontal solver word `xy` and a profile solver word `sz` -/
theorem interpPathV_one (m2p m2p' : ℝ → ℝ) (hm : Exact m2p) (hnn : ∀ x, 0 ≤ m2p x)
    (hm' : Exact m2p') (hnn' : ∀ x, 0 ≤ m2p' x) (w w' : Word)
    (rh rv : ℝ) (hrh : 0 < rh) (hrv : 0 < rv) (s1 s2 : St5 ℝ) (α β α' β' : ℝ) (xy sz : Path ℝ)
    (hα : ∃ k₁ : ℤ, α = s1.yaw - Complex.arg ⟨s2.x - s1.x, s2.y - s1.y⟩ + k₁ * (2 * Real.pi))
    (hβ : ∃ k₂ : ℤ, β = s2.yaw - Complex.arg ⟨s2.x - s1.x, s2.y - s1.y⟩ + k₂ * (2 * Real.pi))
    (hb : NoClamp w (Real.sqrt ((s2.x - s1.x) * (s2.x - s1.x) + (s2.y - s1.y) * (s2.y - s1.y)) / rh) α β)
    (h : solve m2p w (Real.sqrt ((s2.x - s1.x) * (s2.x - s1.x) + (s2.y - s1.y) * (s2.y - s1.y)) / rh) α β
      = some xy)
    (hα' : ∃ k₁ : ℤ, α' = s1.pitch - Complex.arg ⟨rh * xy.len, s2.z - s1.z⟩ + k₁ * (2 * Real.pi))
    (hβ' : ∃ k₂ : ℤ, β' = s2.pitch - Complex.arg ⟨rh * xy.len, s2.z - s1.z⟩ + k₂ * (2 * Real.pi))
    (hb' : NoClamp w' (Real.sqrt ((rh * xy.len) * (rh * xy.len) + (s2.z - s1.z) * (s2.z - s1.z)) / rv) α' β')
    (h' : solve m2p' w' (Real.sqrt ((rh * xy.len) * (rh * xy.len) + (s2.z - s1.z) * (s2.z - s1.z)) / rv) α' β'
      = some sz) :
    ∃ k k' : ℤ, interpPathV s1 ⟨rh, rv, xy, sz, ⟨0, s1.z, s1.pitch⟩⟩ 1 =
      ⟨s2.x, s2.y, s2.z, so2Enforce (s2.pitch + k * (2 * Real.pi)), so2Enforce (s2.yaw + k' * (2 * Real.pi))⟩ := by
  obtain ⟨k', hk'⟩ := dubins_interp_one_world m2p hm hnn w rh hrh ⟨s1.x, s1.y, s1.yaw⟩ ⟨s2.x, s2.y, s2.yaw⟩
    α β hα hβ xy hb h
  obtain ⟨k, hk⟩ := dubins_interp_one_world m2p' hm' hnn' w' rv hrv ⟨0, s1.z, s1.pitch⟩
    ⟨rh * xy.len, s2.z, s2.pitch⟩ α' β' (by simpa only [sub_zero] using hα') (by simpa only [sub_zero] using hβ')
    sz (by simpa only [sub_zero] using hb') (by simpa only [sub_zero] using h')
  refine ⟨k, k', ?_⟩
  unfold interpPathV
  simp only [hk, hk']

/-- the straight-line distance in 3D is at most the reported length `rv · (t + p + q)` of the profile word -/
theorem vana_len_ge (m2p m2p' : ℝ → ℝ) (hm : Exact m2p) (hnn : ∀ x, 0 ≤ m2p x)
    (hm' : Exact m2p') (hnn' : ∀ x, 0 ≤ m2p' x) (w w' : Word)
    (rh rv : ℝ) (hrh : 0 < rh) (hrv : 0 < rv) (s1 s2 : St5 ℝ) (α β α' β' : ℝ) (xy sz : Path ℝ)
    (hb : NoClamp w (Real.sqrt ((s2.x - s1.x) * (s2.x - s1.x) + (s2.y - s1.y) * (s2.y - s1.y)) / rh) α β)
    (h : solve m2p w (Real.sqrt ((s2.x - s1.x) * (s2.x - s1.x) + (s2.y - s1.y) * (s2.y - s1.y)) / rh) α β
      = some xy)
    (hb' : NoClamp w' (Real.sqrt ((rh * xy.len) * (rh * xy.len) + (s2.z - s1.z) * (s2.z - s1.z)) / rv) α' β')
    (h' : solve m2p' w' (Real.sqrt ((rh * xy.len) * (rh * xy.len) + (s2.z - s1.z) * (s2.z - s1.z)) / rv) α' β'
      = some sz) :
    Real.sqrt ((s2.x - s1.x) ^ 2 + (s2.y - s1.y) ^ 2 + (s2.z - s1.z) ^ 2) ≤ rv * sz.len := by
  have hH := dubins_world_len_ge m2p hm hnn w rh hrh _ α β (Real.sqrt_nonneg _) xy hb h
  have hV := dubins_world_len_ge m2p' hm' hnn' w' rv hrv _ α' β' (Real.sqrt_nonneg _) sz hb' h'
  refine le_trans (Real.sqrt_le_sqrt ?_) hV
  have h0 : 0 ≤ (s2.x - s1.x) * (s2.x - s1.x) + (s2.y - s1.y) * (s2.y - s1.y) :=
    add_nonneg (mul_self_nonneg _) (mul_self_nonneg _)
  have hsq := Real.mul_self_sqrt h0
  have hle : Real.sqrt ((s2.x - s1.x) * (s2.x - s1.x) + (s2.y - s1.y) * (s2.y - s1.y)) *
      Real.sqrt ((s2.x - s1.x) * (s2.x - s1.x) + (s2.y - s1.y) * (s2.y - s1.y)) ≤
      (rh * xy.len) * (rh * xy.len) := mul_self_le_mul_self (Real.sqrt_nonneg _) hH
  nlinarith

/-! ## the search loops over ℝ -/

theorem optimise_len_le (la : Bool) (rho minP maxP tol : ℝ) (s1 s2 : St5 ℝ) (fuel : Nat) (step mult : ℝ)
    (p : VPath ℝ) : (optimise la rho minP maxP tol s1 s2 fuel step mult p).len ≤ p.len :=
  not_lt.mp (optimise_not_longer (fun a => lt_irrefl a) (fun _ _ _ h1 h2 => lt_trans h1 h2)
    la rho minP maxP tol s1 s2 fuel step mult p)

/-- the doubling loop only ever tries multipliers `≥ 1` -/
theorem firstFeasible_mult_ge (la : Bool) (rho minP maxP : ℝ) (s1 s2 : St5 ℝ) :
    ∀ (fuel iter : Nat) (mult m : ℝ) (p : VPath ℝ), 1 ≤ mult →
      firstFeasible la rho minP maxP s1 s2 fuel iter mult = some (m, p) → 1 ≤ m := by
  intro fuel
  induction fuel with
  | zero => intro iter mult m p _ h; cases h
  | succ n ih =>
    intro iter mult m p hm h
    unfold firstFeasible at h
    split at h
    · split at h
      · cases h
      · cases h
        exact hm
    · split at h
      · refine ih _ _ _ _ ?_ h
        rw [ofNat_two]
        linarith
      · cases h

/-- the optimisation loop keeps the multiplier `≥ 1` (`std::max(1., mult + step)`) -/
theorem optimise_decoupled_ge (la : Bool) (rho minP maxP tol : ℝ) (s1 s2 : St5 ℝ) :
    ∀ (fuel : Nat) (step mult : ℝ) (p : VPath ℝ), 1 ≤ mult →
      decoupled la rho minP maxP s1 s2 (rho * mult) = some p →
      ∃ mult', 1 ≤ mult' ∧ decoupled la rho minP maxP s1 s2 (rho * mult') =
        some (optimise la rho minP maxP tol s1 s2 fuel step mult p) := by
  intro fuel
  induction fuel with
  | zero => intro step mult p hm h; exact ⟨mult, hm, h⟩
  | succ n ih =>
    intro step mult p hm h
    unfold optimise
    split
    · dsimp only
      split
      · rename_i p2 hp2
        split
        · refine ih _ _ _ ?_ hp2
          rw [max_eq, ofNat_one]
          exact le_max_left _ _
        · exact ih _ _ _ hm h
      · exact ih _ _ _ hm h
    · exact ⟨mult, hm, h⟩

theorem getPath_decoupled_ge (la : Bool) (rho minP maxP tol : ℝ) (s1 s2 : St5 ℝ) (p : VPath ℝ)
    (h : getPath la rho minP maxP tol s1 s2 = some p) :
    ∃ mult, 1 ≤ mult ∧ decoupled la rho minP maxP s1 s2 (rho * mult) = some p := by
  unfold getPath at h
  split at h
  · cases h
  · rename_i m p0 hff
    cases h
    have h2 : (1 : ℝ) ≤ (@OfNat.ofNat ℝ 2 (Num.instOfNat 2) : ℝ) := by rw [ofNat_two]; norm_num
    exact optimise_decoupled_ge la rho minP maxP tol s1 s2 _ _ _ _
      (firstFeasible_mult_ge la rho minP maxP s1 s2 _ _ _ _ _ h2 hff)
      (firstFeasible_decoupled la rho minP maxP s1 s2 _ _ _ _ _ hff)

/-! ## a concrete successful call (coincident states) -/

/-- for coincident states with the pitch inside `[minP, maxP]` `decoupled` succeeds with two zero paths -/
theorem decoupled_self (la : Bool) (rho minP maxP : ℝ) (s : St5 ℝ) (radius : ℝ)
    (h1 : minP ≤ s.pitch) (h2 : s.pitch ≤ maxP) :
    decoupled la rho minP maxP s s radius =
      some ⟨radius, 1 / Real.sqrt (1 / (rho * rho) - 1 / (radius * radius)), zeroPath 0, zeroPath 0,
        ⟨0, s.z, s.pitch⟩⟩ := by
  unfold decoupled
  have hlen : radius * (zeroPath (0 : ℝ)).len = 0 := by
    unfold zeroPath Path.len
    simp
  simp only [isFinite_real, dub, dubinsStates_self, rv_eq, ofNat_zero, hlen]
  have hz : (zeroPath (0 : ℝ)) = ⟨.LSL, 0, 0, 0, false⟩ := by
    unfold zeroPath; simp only [ofNat_zero]
  rw [hz]
  simp [Word.segs, h1, h2]

/-- and so does `getPath` (the doubling loop stops at its first attempt) -/
theorem getPath_self (la : Bool) (rho minP maxP tol : ℝ) (s : St5 ℝ)
    (h1 : minP ≤ s.pitch) (h2 : s.pitch ≤ maxP) : ∃ p, getPath la rho minP maxP tol s s = some p := by
  have hff : ∃ m p0, firstFeasible la rho minP maxP s s 40 0 2 = some (m, p0) := by
    rw [show (40 : Nat) = 39 + 1 from rfl, firstFeasible, decoupled_self la rho minP maxP s _ h1 h2]
    exact ⟨_, _, rfl⟩
  obtain ⟨m, p0, hff⟩ := hff
  unfold getPath
  rw [hff]
  exact ⟨_, rfl⟩

end OmplModel.Vana
