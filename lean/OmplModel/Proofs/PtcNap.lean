import OmplModel.Model.Ptc
/-!
The poller loop with its sleeps (`TState`, Model/Ptc.lean), core Lean only: three invariants of
`TState.step`, each established from the initial state and kept by every step of every thread.

* `TInv`  - where the cached value comes from and how old it can be (`now ≤ cacheAt + count·nap`);
* `QInv`  - after `terminate()` / destruction the poller starts at most one more sleep and one more call;
* `GInv`  - without such a request, the poller sleeps exactly `count` times between two calls.
-/
namespace OmplModel.Ptc

/-! ### how old the cache can be -/

def tpcInv (count nap : Nat) (pred : Nat → Bool) (s : TState) : TPc → Prop
  | .store => s.pending = pred s.lastCall ∧ s.lastCall = s.now
  | .inner i => s.cacheAt = some s.lastCall ∧ s.now = s.lastCall + i * nap ∧ i ≤ count
  | .nap i => s.cacheAt = some s.lastCall ∧ s.now = s.lastCall + i * nap ∧ i < count
  | _ => True

def TInv (count nap : Nat) (pred : Nat → Bool) (s : TState) : Prop :=
  (∀ t, s.cacheAt = some t → s.cache = pred t ∧ s.now ≤ t + count * nap) ∧
  (s.cacheAt = none → s.now = 0) ∧ tpcInv count nap pred s s.pc

theorem tinv_init (count nap : Nat) (pred : Nat → Bool) : TInv count nap pred {} :=
  ⟨fun t h => by simp at h, fun _ => rfl, trivial⟩

theorem tinv_step (count nap : Nat) (pred : Nat → Bool) (s : TState) (st : TStep) (h : TInv count nap pred s) :
    TInv count nap pred (s.step count nap pred st) := by
  obtain ⟨h1, h2, h3⟩ := h
  cases st with
  | terminate => exact ⟨h1, h2, h3⟩
  | destroy => exact ⟨h1, h2, h3⟩
  | eval => exact ⟨h1, h2, h3⟩
  | poller =>
    cases hpc : s.pc with
    | outer =>
      simp only [TState.step, hpc]
      refine ⟨h1, h2, ?_⟩
      cases (s.term || s.stop) <;> simp [tpcInv]
    | call =>
      simp only [TState.step, hpc]
      exact ⟨h1, h2, rfl, rfl⟩
    | store =>
      rw [hpc] at h3
      simp only [TState.step, hpc]
      refine ⟨?_, ?_, ?_⟩
      · intro t ht
        simp only [Option.some.injEq] at ht
        subst ht
        exact ⟨h3.1, by rw [h3.2]; exact Nat.le_add_right _ _⟩
      · intro hn; simp at hn
      · exact ⟨rfl, by rw [h3.2]; simp, Nat.zero_le _⟩
    | inner i =>
      rw [hpc] at h3
      simp only [TState.step, hpc]
      split
      · rename_i hi
        split
        · exact ⟨h1, h2, trivial⟩
        · exact ⟨h1, h2, h3.1, h3.2.1, hi⟩
      · exact ⟨h1, h2, trivial⟩
    | nap i =>
      rw [hpc] at h3
      obtain ⟨hc, hn, hi⟩ := h3
      simp only [TState.step, hpc]
      have hnow : s.now + nap = s.lastCall + (i + 1) * nap := by
        rw [hn, Nat.succ_mul, Nat.add_assoc]
      refine ⟨?_, ?_, ?_⟩
      · intro t ht
        have ht' : s.cacheAt = some t := ht
        rw [hc] at ht'
        simp only [Option.some.injEq] at ht'
        subst ht'
        refine ⟨(h1 _ hc).1, ?_⟩
        show s.now + nap ≤ s.lastCall + count * nap
        rw [hnow]
        exact Nat.add_le_add_left (Nat.mul_le_mul_right nap hi) _
      · intro hnone
        have hnone' : s.cacheAt = none := hnone
        rw [hc] at hnone'
        exact absurd hnone' (by simp)
      · exact ⟨hc, hnow, hi⟩
    | done =>
      simp only [TState.step, hpc]
      refine ⟨h1, h2, ?_⟩
      rw [hpc]; trivial

theorem tinv_run (count nap : Nat) (pred : Nat → Bool) (steps : List TStep) : ∀ (s : TState),
    TInv count nap pred s → TInv count nap pred (s.run count nap pred steps) := by
  induction steps with
  | nil => intro s h; exact h
  | cons st rest ih =>
    intro s h
    simp only [TState.run, List.foldl_cons]
    exact ih _ (tinv_step count nap pred s st h)

/-- the answer an evaluation gives once the predicate has been true for `count·nap` -/
theorem tinv_eval (count nap : Nat) (pred : Nat → Bool) (s : TState) (h : TInv count nap pred s)
    (T : Nat) (htrue : ∀ t, T ≤ t → pred t = true) (hpos : 0 < count * nap) (hlate : T + count * nap ≤ s.now) :
    (s.term || s.cache) = true := by
  obtain ⟨h1, h2, _⟩ := h
  cases hc : s.cacheAt with
  | none =>
    have := h2 hc
    omega
  | some t =>
    obtain ⟨hv, hage⟩ := h1 t hc
    have hT : T ≤ t := by omega
    rw [hv, htrue t hT]
    simp

/-- every recorded evaluation made at a time `≥ T + count·nap` answered true -/
def RInv (count nap : Nat) (T : Nat) (s : TState) : Prop :=
  ∀ p ∈ s.results, T + count * nap ≤ p.1 → p.2 = true

theorem rinv_step (count nap : Nat) (pred : Nat → Bool) (T : Nat) (htrue : ∀ t, T ≤ t → pred t = true)
    (hpos : 0 < count * nap) (s : TState) (st : TStep) (h : TInv count nap pred s) (hr : RInv count nap T s) :
    RInv count nap T (s.step count nap pred st) := by
  cases st with
  | terminate => exact hr
  | destroy => exact hr
  | eval =>
    intro p hp hlate
    simp only [TState.step, List.mem_cons] at hp
    rcases hp with hp | hp
    · subst hp
      exact tinv_eval count nap pred s h T htrue hpos hlate
    · exact hr p hp hlate
  | poller =>
    have hres : (s.step count nap pred .poller).results = s.results := by
      cases hpc : s.pc with
      | outer => simp only [TState.step, hpc]
      | call => simp only [TState.step, hpc]
      | store => simp only [TState.step, hpc]
      | inner i =>
        simp only [TState.step, hpc]
        split
        · split <;> rfl
        · rfl
      | nap i => simp only [TState.step, hpc]
      | done => simp only [TState.step, hpc]
    intro p hp
    rw [hres] at hp
    exact hr p hp

theorem rinv_run (count nap : Nat) (pred : Nat → Bool) (T : Nat) (htrue : ∀ t, T ≤ t → pred t = true)
    (hpos : 0 < count * nap) (steps : List TStep) : ∀ (s : TState), TInv count nap pred s → RInv count nap T s →
    RInv count nap T (s.run count nap pred steps) := by
  induction steps with
  | nil => intro s _ hr; exact hr
  | cons st rest ih =>
    intro s h hr
    simp only [TState.run, List.foldl_cons]
    exact ih _ (tinv_step count nap pred s st h) (rinv_step count nap pred T htrue hpos s st h hr)

/-! ### after a request the poller is gone within one sleep -/

def napPc : TPc → Nat
  | .nap _ => 1
  | _ => 0

def callPc : TPc → Nat
  | .call => 1
  | _ => 0

def QInv (s : TState) : Prop :=
  (s.req = true → (s.term || s.stop) = true) ∧
  (s.req = false → s.napsAfterReq = 0 ∧ s.callsAfterReq = 0) ∧
  s.napsAfterReq + napPc s.pc ≤ 1 ∧ s.callsAfterReq + callPc s.pc ≤ 1

theorem qinv_init : QInv {} := ⟨fun h => by simp at h, fun _ => ⟨rfl, rfl⟩, by decide, by decide⟩

theorem qinv_step (count nap : Nat) (pred : Nat → Bool) (s : TState) (st : TStep) (h : QInv s) :
    QInv (s.step count nap pred st) := by
  obtain ⟨h1, h2, h3, h4⟩ := h
  cases st with
  | eval => exact ⟨h1, h2, h3, h4⟩
  | terminate =>
    refine ⟨fun _ => by simp [TState.step], fun hf => by simp [TState.step] at hf, h3, h4⟩
  | destroy =>
    refine ⟨fun _ => by simp [TState.step], fun hf => by simp [TState.step] at hf, h3, h4⟩
  | poller =>
    cases hpc : s.pc with
    | outer =>
      rw [hpc] at h3 h4
      simp only [TState.step, hpc]
      refine ⟨h1, h2, ?_, ?_⟩
      · split <;> simpa [napPc] using h3
      · split
        · simpa [callPc] using h4
        · rename_i hf
          -- no flag is set, so nothing has been requested: the counters are still 0
          cases hr : s.req with
          | true => exact absurd (h1 hr) hf
          | false => simp [callPc, (h2 hr).2]
    | call =>
      rw [hpc] at h3 h4
      simp only [TState.step, hpc]
      refine ⟨h1, ?_, ?_, ?_⟩
      · intro hr
        have hr' : s.req = false := hr
        simp [hr', h2 hr']
      · simpa [napPc] using h3
      · simp only [callPc] at h4 ⊢
        split <;> omega
    | store =>
      rw [hpc] at h3 h4
      simp only [TState.step, hpc]
      exact ⟨h1, h2, by simpa [napPc] using h3, by simpa [callPc] using h4⟩
    | inner i =>
      rw [hpc] at h3 h4
      simp only [TState.step, hpc]
      split
      · split
        · exact ⟨h1, h2, by simpa [napPc] using h3, by simpa [callPc] using h4⟩
        · rename_i hf
          refine ⟨h1, h2, ?_, by simpa [callPc] using h4⟩
          cases hr : s.req with
          | true => exact absurd (h1 hr) hf
          | false => simp [napPc, (h2 hr).1]
      · exact ⟨h1, h2, by simpa [napPc] using h3, by simpa [callPc] using h4⟩
    | nap i =>
      rw [hpc] at h3 h4
      simp only [TState.step, hpc]
      refine ⟨h1, ?_, ?_, by simpa [callPc] using h4⟩
      · intro hr
        have hr' : s.req = false := hr
        simp [hr', h2 hr']
      · simp only [napPc] at h3 ⊢
        split <;> omega
    | done =>
      simp only [TState.step, hpc]
      exact ⟨h1, h2, h3, h4⟩

theorem qinv_run (count nap : Nat) (pred : Nat → Bool) (steps : List TStep) : ∀ (s : TState), QInv s →
    QInv (s.run count nap pred steps) := by
  induction steps with
  | nil => intro s h; exact h
  | cons st rest ih =>
    intro s h
    simp only [TState.run, List.foldl_cons]
    exact ih _ (qinv_step count nap pred s st h)

/-- a poller that sees a stop flag has left its loop after four of its own steps, wherever it was -/
theorem tstop_four (count nap : Nat) (pred : Nat → Bool) (s : TState) (h : (s.term || s.stop) = true) :
    (s.run count nap pred [.poller, .poller, .poller, .poller]).pc = .done := by
  cases hpc : s.pc with
  | outer => simp [TState.run, TState.step, hpc, h]
  | call =>
    by_cases hc : 0 < count <;> simp [TState.run, TState.step, hpc, h, hc]
  | store =>
    by_cases hc : 0 < count <;> simp [TState.run, TState.step, hpc, h, hc]
  | inner i =>
    by_cases hc : i < count <;> simp [TState.run, TState.step, hpc, h, hc]
  | nap i =>
    by_cases hc : i + 1 < count <;> simp [TState.run, TState.step, hpc, h, hc]
  | done => simp [TState.run, TState.step, hpc]

/-! ### without a request: exactly `count` sleeps between two calls -/

/-- `nanosleep` calls the poller makes for `i` iterations of the inner loop -/
def napCalls (nap i : Nat) : Nat := if 0 < nap then i else 0

def gpcInv (count nap : Nat) (s : TState) : TPc → Prop
  | .outer => (s.calls = 0 ∧ s.naps = 0) ∨ (1 ≤ s.calls ∧ s.naps = napCalls nap count)
  | .call => (s.calls = 0 ∧ s.naps = 0) ∨ (1 ≤ s.calls ∧ s.naps = napCalls nap count)
  | .store => s.naps = 0 ∧ ((s.calls = 1 ∧ s.lastGap = 0) ∨ (2 ≤ s.calls ∧ s.lastGap = napCalls nap count))
  | .inner i => 1 ≤ s.calls ∧ s.naps = napCalls nap i ∧ i ≤ count
  | .nap i => 1 ≤ s.calls ∧ s.naps = napCalls nap i ∧ i < count
  | .done => False

def GInv (count nap : Nat) (s : TState) : Prop :=
  s.req = false → s.term = false ∧ s.stop = false ∧ gpcInv count nap s s.pc

theorem ginv_init (count nap : Nat) : GInv count nap {} :=
  fun _ => ⟨rfl, rfl, Or.inl ⟨rfl, rfl⟩⟩

theorem ginv_step (count nap : Nat) (pred : Nat → Bool) (s : TState) (st : TStep) (h : GInv count nap s) :
    GInv count nap (s.step count nap pred st) := by
  cases st with
  | eval => exact h
  | terminate => intro hf; simp [TState.step] at hf
  | destroy => intro hf; simp [TState.step] at hf
  | poller =>
    have hreq : (s.step count nap pred .poller).req = s.req := by
      cases hpc : s.pc with
      | outer => simp only [TState.step, hpc]
      | call => simp only [TState.step, hpc]
      | store => simp only [TState.step, hpc]
      | inner i =>
        simp only [TState.step, hpc]
        split
        · split <;> rfl
        · rfl
      | nap i => simp only [TState.step, hpc]
      | done => simp only [TState.step, hpc]
    intro hr
    rw [hreq] at hr
    obtain ⟨ht, hs, hm⟩ := h hr
    have hf : (s.term || s.stop) = false := by simp [ht, hs]
    cases hpc : s.pc with
    | outer =>
      rw [hpc] at hm
      simp only [TState.step, hpc, hf, Bool.false_eq_true, ↓reduceIte]
      exact ⟨ht, hs, hm⟩
    | call =>
      rw [hpc] at hm
      simp only [TState.step, hpc]
      refine ⟨ht, hs, ?_⟩
      dsimp only [gpcInv] at hm ⊢
      refine ⟨rfl, ?_⟩
      rcases hm with ⟨hc, hn⟩ | ⟨hc, hn⟩
      · exact Or.inl ⟨by omega, hn⟩
      · exact Or.inr ⟨by omega, hn⟩
    | store =>
      rw [hpc] at hm
      simp only [TState.step, hpc]
      refine ⟨ht, hs, ?_⟩
      dsimp only [gpcInv] at hm ⊢
      refine ⟨?_, ?_, Nat.zero_le _⟩
      · rcases hm.2 with ⟨hc, _⟩ | ⟨hc, _⟩ <;> omega
      · simp [napCalls, hm.1]
    | inner i =>
      rw [hpc] at hm
      obtain ⟨hc, hn, hi⟩ := hm
      simp only [TState.step, hpc, hf, Bool.false_eq_true, ↓reduceIte]
      split
      · rename_i hlt
        exact ⟨ht, hs, hc, hn, hlt⟩
      · rename_i hge
        have : i = count := by omega
        subst this
        exact ⟨ht, hs, Or.inr ⟨hc, hn⟩⟩
    | nap i =>
      rw [hpc] at hm
      obtain ⟨hc, hn, hi⟩ := hm
      simp only [TState.step, hpc]
      refine ⟨ht, hs, ?_⟩
      dsimp only [gpcInv]
      refine ⟨hc, ?_, hi⟩
      simp only [napCalls] at hn ⊢
      split <;> simp_all
    | done =>
      rw [hpc] at hm
      exact absurd hm (by simp [gpcInv])

theorem ginv_run (count nap : Nat) (pred : Nat → Bool) (steps : List TStep) : ∀ (s : TState), GInv count nap s →
    GInv count nap (s.run count nap pred steps) := by
  induction steps with
  | nil => intro s h; exact h
  | cons st rest ih =>
    intro s h
    simp only [TState.run, List.foldl_cons]
    exact ih _ (ginv_step count nap pred s st h)

end OmplModel.Ptc
