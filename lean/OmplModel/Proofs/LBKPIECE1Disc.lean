import OmplModel.Proofs.LBKPIECE1
/-!
LBKPIECE1 obeys the Discretization protocol on BOTH trees, across lazy additions, subtree removals and re-adds:
`DInv` for `dStart_` / `dGoal_` with "the alive motions of that tree, each under the coordinate of its state".
Core Lean only; arithmetic-free.
-/
namespace OmplModel.LBKPIECE1
open OmplModel OmplModel.Grid OmplModel.Disc OmplModel.PlannerReport

variable {S α : Type} [Num α] [HasLog α]

/-! ### the motions a discretization must hold -/

/-- what `liveOf` reads of a motion -/
def key (cfg : Cfg S α) (m : Motion S) : Bool × Bool × Coord := (m.alive, m.inStart, cfg.coord m.state)

def liveK (t : Bool) : Nat → List (Bool × Bool × Coord) → Live
  | _, [] => []
  | k, e :: r => (if e.1 && (e.2.1 == t) then [(k, e.2.2)] else []) ++ liveK t (k + 1) r

/-- the alive motions of tree `t`, by arena index, with the coordinate of their state -/
def liveAr (cfg : Cfg S α) (t : Bool) (ar : Array (Motion S)) : Live := liveK t 0 (ar.toList.map (key cfg))

theorem mem_liveK (t : Bool) (k : Nat) (l : List (Bool × Bool × Coord)) (i : Nat) (x : Coord) :
    (i, x) ∈ liveK t k l ↔ ∃ j e, l[j]? = some e ∧ i = k + j ∧ e.1 = true ∧ e.2.1 = t ∧ x = e.2.2 := by
  induction l generalizing k with
  | nil => simp [liveK]
  | cons a r ih =>
    simp only [liveK, List.mem_append, ih]
    constructor
    · rintro (h | ⟨j, e, h1, h2, h3⟩)
      · by_cases hc : (a.1 && (a.2.1 == t)) = true
        · rw [if_pos hc] at h
          simp only [List.mem_singleton, Prod.mk.injEq] at h
          simp only [Bool.and_eq_true, beq_iff_eq] at hc
          exact ⟨0, a, rfl, by omega, hc.1, hc.2, h.2⟩
        · rw [if_neg hc] at h; cases h
      · exact ⟨j + 1, e, by simpa using h1, by omega, h3⟩
    · rintro ⟨j, e, h1, h2, h3, h4, h5⟩
      cases j with
      | zero =>
        simp at h1; subst h1
        left
        have hc : (a.1 && (a.2.1 == t)) = true := by simp [h3, h4]
        rw [if_pos hc]; simp [h2, h5]
      | succ j' => exact Or.inr ⟨j', e, by simpa using h1, by omega, h3, h4, h5⟩

theorem mem_liveAr (cfg : Cfg S α) (t : Bool) (ar : Array (Motion S)) (i : Nat) (x : Coord) :
    (i, x) ∈ liveAr cfg t ar ↔ ∃ m, ar[i]? = some m ∧ m.alive = true ∧ m.inStart = t ∧ x = cfg.coord m.state := by
  unfold liveAr
  rw [mem_liveK]
  constructor
  · rintro ⟨j, e, h1, h2, h3, h4, h5⟩
    simp only [List.getElem?_map, Option.map_eq_some_iff] at h1
    obtain ⟨m, hm, rfl⟩ := h1
    exact ⟨m, by simpa [h2] using hm, h3, h4, h5⟩
  · rintro ⟨m, h1, h2, h3, h4⟩
    exact ⟨i, key cfg m, by simp [h1], by omega, h2, h3, h4⟩

theorem ids_liveK (t : Bool) (k : Nat) (l : List (Bool × Bool × Coord)) (p : Nat × Coord) (h : p ∈ liveK t k l) :
    k ≤ p.1 ∧ p.1 < k + l.length := by
  obtain ⟨j, e, h1, h2, _⟩ := (mem_liveK t k l p.1 p.2).1 h
  have : j < l.length := by
    rcases Nat.lt_or_ge j l.length with h' | h'
    · exact h'
    · rw [List.getElem?_eq_none_iff.2 h'] at h1; cases h1
  omega

theorem liveK_append (t : Bool) (k : Nat) (l : List (Bool × Bool × Coord)) (e : Bool × Bool × Coord) :
    liveK t k (l ++ [e]) = liveK t k l ++ (if e.1 && (e.2.1 == t) then [(k + l.length, e.2.2)] else []) := by
  induction l generalizing k with
  | nil => simp [liveK]
  | cons a r ih =>
    simp only [List.cons_append, liveK, ih, List.append_assoc, List.length_cons]
    congr 2
    split <;> simp <;> omega

theorem liveAr_push (cfg : Cfg S α) (t : Bool) (ar : Array (Motion S)) (m : Motion S) :
    liveAr cfg t (ar.push m) =
      liveAr cfg t ar ++ (if m.alive && (m.inStart == t) then [(ar.size, cfg.coord m.state)] else []) := by
  unfold liveAr
  rw [Array.toList_push, List.map_append, List.map_cons, List.map_nil, liveK_append]
  simp [key]

/-- killing entry `j` removes exactly its pair -/
theorem liveK_kill (t : Bool) : ∀ (k : Nat) (l : List (Bool × Bool × Coord)) (j : Nat) (e : Bool × Bool × Coord),
    l[j]? = some e →
    liveK t k (l.set j (false, e.2.1, e.2.2)) = (liveK t k l).filter (fun p => !(p == (k + j, e.2.2))) := by
  intro k l
  induction l generalizing k with
  | nil => intro j e h; simp at h
  | cons a r ih =>
    intro j e h
    cases j with
    | zero =>
      simp at h; subst h
      simp only [List.set_cons_zero, liveK, Bool.false_and, Bool.false_eq_true, if_false, List.nil_append,
        List.filter_append, Nat.add_zero]
      have h1 : (if (a.1 && (a.2.1 == t)) = true then [(k, a.2.2)] else []).filter (fun p => !(p == (k, a.2.2))) = [] := by
        split <;> simp
      have h2 : (liveK t (k + 1) r).filter (fun p => !(p == (k, a.2.2))) = liveK t (k + 1) r := by
        apply List.filter_eq_self.2
        intro p hp
        have := ids_liveK t (k + 1) r p hp
        have : p ≠ (k, a.2.2) := by rintro rfl; simp at this; omega
        simpa using this
      rw [h1, h2]; rfl
    | succ j' =>
      simp only [List.getElem?_cons_succ] at h
      simp only [List.set_cons_succ, liveK, List.filter_append]
      rw [ih (k + 1) j' e h]
      have h1 : (if (a.1 && (a.2.1 == t)) = true then [(k, a.2.2)] else []).filter (fun p => !(p == (k + (j' + 1), e.2.2)))
          = (if (a.1 && (a.2.1 == t)) = true then [(k, a.2.2)] else []) := by
        split
        · have : ((k, a.2.2) == (k + (j' + 1), e.2.2)) = false := by simp
          simp [this]
        · simp
      rw [h1]
      congr 2
      funext p
      have : k + 1 + j' = k + (j' + 1) := by omega
      rw [this]

theorem toList_modifyAt (ar : Array (Motion S)) (i : Nat) (f : Motion S → Motion S) (m : Motion S) (h : ar[i]? = some m) :
    (modifyAt ar i f).toList = ar.toList.set i (f m) := by
  unfold modifyAt
  rw [h]
  simp

theorem liveAr_markDead (cfg : Cfg S α) (t : Bool) (ar : Array (Motion S)) (i : Nat) (m : Motion S) (h : ar[i]? = some m) :
    liveAr cfg t (modifyAt ar i (fun x => { x with alive := false })) =
      (liveAr cfg t ar).filter (fun p => !(p == (i, cfg.coord m.state))) := by
  unfold liveAr
  rw [toList_modifyAt ar i _ m h, List.map_set]
  have h' : (ar.toList.map (key cfg))[i]? = some (key cfg m) := by simp [h]
  have := liveK_kill t 0 _ i (key cfg m) h'
  simp only [Nat.zero_add] at this
  exact this

/-- updates that keep `alive`, the tree and the state do not change `liveAr` -/
theorem liveAr_modifyAt (cfg : Cfg S α) (t : Bool) (ar : Array (Motion S)) (i : Nat) (f : Motion S → Motion S)
    (hf : ∀ m, key cfg (f m) = key cfg m) : liveAr cfg t (modifyAt ar i f) = liveAr cfg t ar := by
  unfold liveAr
  congr 1
  apply List.ext_getElem?
  intro j
  simp only [List.getElem?_map, Array.getElem?_toList, getElem?_modifyAt]
  split
  · cases ar[j]? with
    | none => rfl
    | some m => simp [hf]
  · rfl

/-! ### tree coherence and the two discretizations -/

/-- a motion's parent and children are in its own tree -/
def Coh (ar : Array (Motion S)) : Prop :=
  ∀ (i : Nat) (m : Motion S), ar[i]? = some m →
    (∀ p, m.parent = some p → ∃ pm, ar[p]? = some pm ∧ pm.inStart = m.inStart) ∧
    (∀ c ∈ m.children, ∃ mc, ar[c]? = some mc ∧ mc.inStart = m.inStart)

structure DOK (cfg : Cfg S α) (st : St S α) : Prop where
  dS : DInv cfg.P st.dS (liveAr cfg true st.ar)
  dG : DInv cfg.P st.dG (liveAr cfg false st.ar)
  coh : Coh st.ar

theorem DOK.disc {cfg : Cfg S α} {st : St S α} (h : DOK cfg st) (t : Bool) :
    DInv cfg.P (st.disc t) (liveAr cfg t st.ar) := by
  unfold St.disc
  cases t
  · simpa using h.dG
  · simpa using h.dS

theorem DOK.of {cfg : Cfg S α} {st : St S α} (t : Bool) (h1 : DInv cfg.P (st.disc t) (liveAr cfg t st.ar))
    (h2 : DInv cfg.P (st.disc (!t)) (liveAr cfg (!t) st.ar)) (hc : Coh st.ar) : DOK cfg st := by
  cases t
  · exact ⟨by simpa [St.disc] using h2, by simpa [St.disc] using h1, hc⟩
  · exact ⟨by simpa [St.disc] using h1, by simpa [St.disc] using h2, hc⟩

theorem disc_setDisc_same (st : St S α) (t : Bool) (d : Disc α) : (st.setDisc t d).disc t = d := by
  unfold St.setDisc St.disc; cases t <;> simp

theorem disc_setDisc_other (st : St S α) (t : Bool) (d : Disc α) : (st.setDisc t d).disc (!t) = st.disc (!t) := by
  unfold St.setDisc St.disc; cases t <;> simp

theorem Coh.modify {ar : Array (Motion S)} (h : Coh ar) (i : Nat) (f : Motion S → Motion S)
    (hf : ∀ m, ar[i]? = some m → (f m).parent = m.parent ∧ (f m).inStart = m.inStart ∧
      ∀ c ∈ (f m).children, c ∈ m.children ∨ ∃ mc, ar[c]? = some mc ∧ mc.inStart = m.inStart) :
    Coh (modifyAt ar i f) := by
  -- every old entry survives with the same tree
  have surv : ∀ (j : Nat) (x : Motion S), ar[j]? = some x → ∃ x', (modifyAt ar i f)[j]? = some x' ∧ x'.inStart = x.inStart := by
    intro j x hx
    rw [getElem?_modifyAt]
    by_cases hij : i = j
    · subst hij; rw [if_pos rfl, hx]; exact ⟨f x, rfl, (hf x hx).2.1⟩
    · rw [if_neg hij]; exact ⟨x, hx, rfl⟩
  intro j m' hm'
  rw [getElem?_modifyAt] at hm'
  by_cases hij : i = j
  · subst hij
    rw [if_pos rfl] at hm'
    cases hx : ar[i]? with
    | none => rw [hx] at hm'; cases hm'
    | some x =>
      rw [hx] at hm'; simp only [Option.map_some, Option.some.injEq] at hm'; subst hm'
      obtain ⟨e1, e2, e3⟩ := hf x hx
      obtain ⟨c1, c2⟩ := h i x hx
      refine ⟨?_, ?_⟩
      · intro p hp
        rw [e1] at hp
        obtain ⟨pm, hpm, hpt⟩ := c1 p hp
        obtain ⟨pm', hpm', hpt'⟩ := surv p pm hpm
        exact ⟨pm', hpm', by rw [hpt', hpt, e2]⟩
      · intro c hc
        rcases e3 c hc with hc' | ⟨mc, hmc, hmt⟩
        · obtain ⟨mc, hmc, hmt⟩ := c2 c hc'
          obtain ⟨mc', hmc', hmt'⟩ := surv c mc hmc
          exact ⟨mc', hmc', by rw [hmt', hmt, e2]⟩
        · obtain ⟨mc', hmc', hmt'⟩ := surv c mc hmc
          exact ⟨mc', hmc', by rw [hmt', hmt, e2]⟩
  · rw [if_neg hij] at hm'
    obtain ⟨c1, c2⟩ := h j m' hm'
    refine ⟨?_, ?_⟩
    · intro p hp
      obtain ⟨pm, hpm, hpt⟩ := c1 p hp
      obtain ⟨pm', hpm', hpt'⟩ := surv p pm hpm
      exact ⟨pm', hpm', by rw [hpt', hpt]⟩
    · intro c hc
      obtain ⟨mc, hmc, hmt⟩ := c2 c hc
      obtain ⟨mc', hmc', hmt'⟩ := surv c mc hmc
      exact ⟨mc', hmc', by rw [hmt', hmt]⟩

theorem Coh.push {ar : Array (Motion S)} (h : Coh ar) (m : Motion S)
    (hp : ∀ p, m.parent = some p → ∃ pm, ar[p]? = some pm ∧ pm.inStart = m.inStart) (hc : m.children = []) :
    Coh (ar.push m) := by
  have surv : ∀ (j : Nat) (x : Motion S), ar[j]? = some x → (ar.push m)[j]? = some x := by
    intro j x hx
    have : j < ar.size := by
      rcases Nat.lt_or_ge j ar.size with h' | h'
      · exact h'
      · rw [Array.getElem?_eq_none h'] at hx; cases hx
    rw [Array.getElem?_push, if_neg (by omega)]; exact hx
  intro j x hx
  rw [Array.getElem?_push] at hx
  split at hx
  · simp only [Option.some.injEq] at hx; subst hx
    refine ⟨?_, by rw [hc]; intro c hc'; cases hc'⟩
    intro p hp'
    obtain ⟨pm, hpm, hpt⟩ := hp p hp'
    exact ⟨pm, surv p pm hpm, hpt⟩
  · obtain ⟨c1, c2⟩ := h j x hx
    refine ⟨?_, ?_⟩
    · intro p hp'
      obtain ⟨pm, hpm, hpt⟩ := c1 p hp'
      exact ⟨pm, surv p pm hpm, hpt⟩
    · intro c hc'
      obtain ⟨mc, hmc, hmt⟩ := c2 c hc'
      exact ⟨mc, surv c mc hmc, hmt⟩

/-! ### the operations -/

theorem fresh_size (cfg : Cfg S α) (t : Bool) (ar : Array (Motion S)) : ar.size ∉ (liveAr cfg t ar).map (·.1) := by
  intro h
  obtain ⟨p, hp, he⟩ := List.mem_map.1 h
  have := ids_liveK t 0 _ p hp
  simp at this
  omega

theorem addMotion_dok {cfg : Cfg S α} (hcoord : ∀ s, (cfg.coord s).length = cfg.P.dim) {st : St S α} (h : DOK cfg st)
    (m : Motion S) (hc : m.children = []) (ha : m.alive = true)
    (hp : ∀ p, m.parent = some p → ∃ pm, st.ar[p]? = some pm ∧ pm.inStart = m.inStart) :
    DOK cfg (addMotion cfg st m) := by
  -- the arena after the push and the parent's child-list update
  have hcoh1 : Coh (st.ar.push m) := h.coh.push m hp hc
  have hlast : (st.ar.push m)[st.ar.size]? = some m := by rw [Array.getElem?_push, if_pos rfl]
  unfold addMotion
  simp only []
  cases hpar : m.parent with
  | none =>
    simp only []
    refine DOK.of m.inStart ?_ ?_ ?_
    · rw [disc_setDisc_same, ar_setDisc]
      show DInv cfg.P (add cfg.P (St.disc ({ st with ar := st.ar.push m } : St S α) m.inStart) st.ar.size (cfg.coord m.state) (Num.ofNat 0)).1 _
      have := Disc.add_inv (dist := (Num.ofNat 0 : α)) (h.disc m.inStart) (hcoord m.state) (fresh_size cfg m.inStart st.ar)
      rw [liveAr_push]
      simp only [ha, Bool.true_and, beq_self_eq_true, if_true]
      exact this
    · rw [disc_setDisc_other, ar_setDisc]
      show DInv cfg.P (St.disc st (!m.inStart)) _
      rw [liveAr_push]
      have : (m.inStart == !m.inStart) = false := by cases m.inStart <;> rfl
      simp only [this, Bool.and_false, Bool.false_eq_true, if_false, List.append_nil]
      exact h.disc _
    · rw [ar_setDisc]; exact hcoh1
  | some p =>
    simp only []
    obtain ⟨pm, hpm, hpt⟩ := hp p hpar
    have hkey : ∀ t, liveAr cfg t (modifyAt (st.ar.push m) p (fun pm => { pm with children := pm.children ++ [st.ar.size] }))
        = liveAr cfg t (st.ar.push m) := fun t => liveAr_modifyAt cfg t _ _ _ (fun _ => rfl)
    refine DOK.of m.inStart ?_ ?_ ?_
    · rw [disc_setDisc_same, ar_setDisc]
      show DInv cfg.P (add cfg.P (St.disc st m.inStart) st.ar.size (cfg.coord m.state) (Num.ofNat 0)).1 _
      have := Disc.add_inv (dist := (Num.ofNat 0 : α)) (h.disc m.inStart) (hcoord m.state) (fresh_size cfg m.inStart st.ar)
      rw [hkey, liveAr_push]
      simp only [ha, Bool.true_and, beq_self_eq_true, if_true]
      exact this
    · rw [disc_setDisc_other, ar_setDisc]
      show DInv cfg.P (St.disc st (!m.inStart)) _
      rw [hkey, liveAr_push]
      have : (m.inStart == !m.inStart) = false := by cases m.inStart <;> rfl
      simp only [this, Bool.and_false, Bool.false_eq_true, if_false, List.append_nil]
      exact h.disc _
    · rw [ar_setDisc]
      apply hcoh1.modify
      intro x hx
      refine ⟨rfl, rfl, ?_⟩
      intro c hc'
      rcases List.mem_append.1 hc' with h1 | h1
      · exact Or.inl h1
      · simp only [List.mem_singleton] at h1
        subst h1
        right
        -- `x` is the parent entry `pm` (index `p < size`)
        have hplt : p < st.ar.size := by
          rcases Nat.lt_or_ge p st.ar.size with h' | h'
          · exact h'
          · rw [Array.getElem?_eq_none h'] at hpm; cases hpm
        rw [Array.getElem?_push, if_neg (by omega), hpm] at hx
        simp only [Option.some.injEq] at hx
        subst hx
        exact ⟨m, hlast, hpt.symm⟩

theorem inStart_of_frame {a b : Array (Motion S)} (hf : Frame a b) {c : Nat} {t : Bool}
    (h : ∀ mc, a[c]? = some mc → mc.inStart = t) : ∀ mc, b[c]? = some mc → mc.inStart = t := by
  intro mc' hmc'
  have hlt : c < a.size := by
    rcases Nat.lt_or_ge c b.size with h' | h'
    · rw [hf.1] at h'; exact h'
    · rw [Array.getElem?_eq_none h'] at hmc'; cases hmc'
  obtain ⟨mc, hmc⟩ : ∃ mc, a[c]? = some mc := ⟨a[c], by simp [hlt]⟩
  obtain ⟨m'', e0, _, _, e3, _, _⟩ := hf.2 c mc hmc
  rw [hmc'] at e0; simp only [Option.some.injEq] at e0; subst e0
  rw [e3]; exact h mc hmc

/-- "remove from grid" + ghost flag -/
theorem kill_dok {cfg : Cfg S α} {st : St S α} (h : DOK cfg st) (t : Bool) (i : Nat) (m : Motion S)
    (hm : st.ar[i]? = some m) (ht : m.inStart = t) :
    DOK cfg (markDead (st.setDisc t (remove cfg.P (st.disc t) i (cfg.coord m.state)).1) i) := by
  unfold markDead
  refine DOK.of t ?_ ?_ ?_
  · show DInv cfg.P (St.disc (st.setDisc t _) t) (liveAr cfg t (modifyAt (st.setDisc t _).ar i _))
    rw [disc_setDisc_same, ar_setDisc, liveAr_markDead cfg t st.ar i m hm]
    exact (remove_inv (h.disc t) i (cfg.coord m.state)).1
  · show DInv cfg.P (St.disc (st.setDisc t _) (!t)) (liveAr cfg (!t) (modifyAt (st.setDisc t _).ar i _))
    rw [disc_setDisc_other, ar_setDisc, liveAr_markDead cfg (!t) st.ar i m hm]
    have : (liveAr cfg (!t) st.ar).filter (fun p => !(p == (i, cfg.coord m.state))) = liveAr cfg (!t) st.ar := by
      apply List.filter_eq_self.2
      intro p hp
      have hne : p ≠ (i, cfg.coord m.state) := by
        rintro rfl
        obtain ⟨m', h1, _, h3, _⟩ := (mem_liveAr cfg (!t) st.ar i _).1 hp
        rw [hm] at h1; cases h1
        rw [ht] at h3
        cases t <;> cases h3
      simpa using hne
    rw [this]; exact h.disc _
  · show Coh (modifyAt (st.setDisc t _).ar i _)
    rw [ar_setDisc]
    exact h.coh.modify i _ (fun x _ => ⟨rfl, rfl, fun c hc => Or.inl hc⟩)

theorem detachFrom_dok {cfg : Cfg S α} {st : St S α} (h : DOK cfg st) (p i : Nat) : DOK cfg (detachFrom st p i) := by
  unfold detachFrom
  refine ⟨?_, ?_, ?_⟩
  · show DInv cfg.P st.dS (liveAr cfg true (modifyAt st.ar p _))
    rw [liveAr_modifyAt cfg true]
    · exact h.dS
    · intro _; rfl
  · show DInv cfg.P st.dG (liveAr cfg false (modifyAt st.ar p _))
    rw [liveAr_modifyAt cfg false]
    · exact h.dG
    · intro _; rfl
  · exact h.coh.modify p _ (fun x _ => ⟨rfl, rfl, fun c hc => Or.inl (List.mem_of_mem_erase hc)⟩)

/-- `removeMotion` with its recursion keeps both discretizations right, provided the motion is in tree `t` -/
theorem removeSubtree_dok {cfg : Cfg S α} (t : Bool) : ∀ (fuel i : Nat) (detach : Bool) (st : St S α),
    DOK cfg st → (∀ m, st.ar[i]? = some m → m.inStart = t) → DOK cfg (removeSubtree cfg t fuel i detach st) := by
  intro fuel
  induction fuel with
  | zero => intro i detach st h _; exact h
  | succ f ih =>
    intro i detach st h ht
    unfold removeSubtree
    cases hm : st.ar[i]? with
    | none => exact h
    | some m =>
      simp only []
      have hmt := ht m hm
      -- the children are in tree `t`, in `st` and in every framed later arena
      have hkids : ∀ c ∈ m.children, ∀ mc, st.ar[c]? = some mc → mc.inStart = t := by
        intro c hc mc hmc
        obtain ⟨mc', hmc', hmt'⟩ := (h.coh i m hm).2 c hc
        rw [hmc] at hmc'; cases hmc'
        rw [hmt', hmt]
      have hfold : ∀ (cs : List Nat) (s : St S α), DOK cfg s → (∀ c ∈ cs, ∀ mc, s.ar[c]? = some mc → mc.inStart = t) →
          DOK cfg (cs.foldl (fun s c => removeSubtree cfg t f c false s) s) := by
        intro cs
        induction cs with
        | nil => intro s hs _; exact hs
        | cons c cs ihc =>
          intro s hs hcs
          simp only [List.foldl]
          apply ihc _ (ih c false s hs (hcs c (by simp)))
          intro c' hc' mc
          exact inStart_of_frame (removeSubtree_frame cfg t f c false s).1 (hcs c' (by simp [hc'])) mc
      have h1 := kill_dok h t i m hm hmt
      have f1 : FrameV st.ar (markDead (st.setDisc t (remove cfg.P (st.disc t) i (cfg.coord m.state)).1) i).ar := by
        have := markDead_frame (st.setDisc t (remove cfg.P (st.disc t) i (cfg.coord m.state)).1) i
        rw [ar_setDisc] at this; exact this
      show DOK cfg (freeMotion _ i)
      have hfree : ∀ s : St S α, DOK cfg s → DOK cfg (freeMotion s i) := fun s hs => ⟨hs.dS, hs.dG, hs.coh⟩
      apply hfree
      apply hfold
      · split
        · exact detachFrom_dok h1 _ _
        · exact h1
      · intro c hc mc
        split
        · exact inStart_of_frame (f1.trans (detachFrom_frame _ _ _)).1 (hkids c hc) mc
        · exact inStart_of_frame f1.1 (hkids c hc) mc

theorem validateFrom_dok {cfg : Cfg S α} {starts : Array S} (hcoord : ∀ s, (cfg.coord s).length = cfg.P.dim) (t : Bool) :
    ∀ (ids : List Nat) (st : St S α), ArInv cfg starts st.ar → DOK cfg st →
      (∀ i ∈ ids, ∀ m, st.ar[i]? = some m → m.inStart = t) → DOK cfg (validateFrom cfg t ids st).2 := by
  intro ids
  induction ids with
  | nil => intro st _ h _; exact h
  | cons i rest ih =>
    intro st ha h hids
    have hrest : ∀ j ∈ rest, ∀ m, st.ar[j]? = some m → m.inStart = t := fun j hj => hids j (by simp [hj])
    unfold validateFrom
    cases hm : st.ar[i]? with
    | none => exact ih st ha h hrest
    | some m =>
      simp only []
      by_cases hv : m.valid = true
      · rw [if_pos hv]; exact ih st ha h hrest
      · rw [if_neg hv]
        cases hb : m.parent.bind (fun p => st.ar[p]?.map (fun pm => (p, pm))) with
        | none => exact ih st ha h hrest
        | some ppm =>
          obtain ⟨p, pm⟩ := ppm
          have hpar : m.parent = some p ∧ st.ar[p]? = some pm := by
            cases hp0 : m.parent with
            | none => simp [hp0] at hb
            | some p0 =>
              simp only [hp0, Option.bind_some, Option.map_eq_some_iff, Prod.mk.injEq] at hb
              obtain ⟨a, ha', rfl, rfl⟩ := hb
              exact ⟨rfl, ha'⟩
          simp only []
          have hmt : m.inStart = t := hids i (by simp) m hm
          by_cases hr : (cfg.checkMotion pm.state m.state).1 = true
          · rw [if_pos hr]
            have f0 : Frame st.ar (modifyAt st.ar i (fun x => { x with valid := true })) :=
              frame_modifyAt _ _ _ (fun _ => ⟨rfl, rfl, rfl, rfl, fun _ => rfl⟩)
            have ha1 : ArInv cfg starts (modifyAt st.ar i (fun x => { x with valid := true })) := by
              refine ha.frame f0 ?_
              intro j x x' h1 h2 h3
              rw [getElem?_modifyAt] at h2
              split at h2
              · rename_i hij; subst hij
                rw [hm] at h1; cases h1
                exact Or.inr ⟨p, pm, hpar.1, hpar.2, Or.inl hr⟩
              · rw [h1] at h2; cases h2; exact Or.inl h3
            have hk : ∀ t', liveAr cfg t' (modifyAt st.ar i (fun x => { x with valid := true })) = liveAr cfg t' st.ar :=
              fun t' => liveAr_modifyAt cfg t' st.ar i (fun x => { x with valid := true }) (fun _ => rfl)
            have hd1 : DOK cfg ({ st with ar := modifyAt st.ar i (fun x => { x with valid := true }) } : St S α) := by
              refine ⟨?_, ?_, ?_⟩
              · show DInv cfg.P st.dS (liveAr cfg true (modifyAt st.ar i _))
                rw [hk]; exact h.dS
              · show DInv cfg.P st.dG (liveAr cfg false (modifyAt st.ar i _))
                rw [hk]; exact h.dG
              · exact h.coh.modify i _ (fun x _ => ⟨rfl, rfl, fun c hc => Or.inl hc⟩)
            exact ih _ ha1 hd1 (fun j hj mj => inStart_of_frame f0 (hrest j hj) mj)
          · rw [if_neg hr]
            have hd2 := removeSubtree_dok (cfg := cfg) t (st.ar.size + 1) i true st h (fun m' hm' => by
              rw [hm] at hm'; cases hm'; exact hmt)
            split
            · apply addMotion_dok hcoord hd2 _ rfl rfl
              intro p' hp'
              simp only [Option.some.injEq] at hp'
              subst hp'
              obtain ⟨pm', e0, _, _, e3, _, _⟩ := (removeSubtree_frame cfg t (st.ar.size + 1) i true st).1.2 p pm hpar.2
              refine ⟨pm', e0, ?_⟩
              show pm'.inStart = t
              rw [e3]
              obtain ⟨pm0, hpm0, hpt0⟩ := (h.coh i m hm).1 p hpar.1
              rw [hpar.2] at hpm0; cases hpm0
              rw [hpt0, hmt]
            · exact hd2

theorem chainUp_tree {ar : Array (Motion S)} (hc : Coh ar) (t : Bool) : ∀ (fuel i : Nat),
    (∀ m, ar[i]? = some m → m.inStart = t) → ∀ j ∈ chainUp ar fuel i, ∀ m, ar[j]? = some m → m.inStart = t := by
  intro fuel
  induction fuel with
  | zero => intro i _ j hj; simp [chainUp] at hj
  | succ f ih =>
    intro i hi j hj
    unfold chainUp at hj
    cases hm : ar[i]? with
    | none => rw [hm] at hj; simp at hj
    | some m =>
      rw [hm] at hj
      simp only [] at hj
      cases hp : m.parent with
      | none =>
        rw [hp] at hj
        simp only [List.mem_singleton] at hj
        subst hj; exact hi
      | some p =>
        rw [hp] at hj
        simp only [List.mem_cons] at hj
        rcases hj with rfl | hj
        · exact hi
        · refine ih p ?_ j hj
          intro pm hpm
          obtain ⟨pm', hpm', hpt⟩ := (hc i m hm).1 p hp
          rw [hpm] at hpm'; cases hpm'
          rw [hpt]; exact hi m hm

theorem isPathValid_dok {cfg : Cfg S α} {starts : Array S} (hcoord : ∀ s, (cfg.coord s).length = cfg.P.dim) (t : Bool)
    (i : Nat) {st : St S α} (ha : ArInv cfg starts st.ar) (h : DOK cfg st) (hi : ∀ m, st.ar[i]? = some m → m.inStart = t) :
    DOK cfg (isPathValid cfg t i st).2 := by
  unfold isPathValid
  apply validateFrom_dok hcoord t _ st ha h
  intro j hj
  exact chainUp_tree h.coh t _ i hi j (List.mem_reverse.1 hj)

/-- a motion listed in a cell of tree `t`'s discretization is an alive motion of tree `t` -/
theorem cell_motion {cfg : Cfg S α} {st : St S α} (h : DOK cfg st) (t : Bool) {x : Coord} {cd : CellData α}
    (hl : lookup (st.disc t).cdata x = some cd) {co : Nat} (hco : co ∈ cd.motions) :
    ∃ m, st.ar[co]? = some m ∧ m.alive = true ∧ m.inStart = t := by
  have := ((h.disc t).lookup_mot hl).1
  rw [this] at hco
  unfold motionsAt at hco
  obtain ⟨p, hp, hpc⟩ := List.mem_map.1 hco
  obtain ⟨hpl, _⟩ := List.mem_filter.1 hp
  have hp' : (p.1, p.2) ∈ liveAr cfg t st.ar := hpl
  obtain ⟨m, h1, h2, h3, _⟩ := (mem_liveAr cfg t st.ar p.1 p.2).1 hp'
  exact ⟨m, by rw [← hpc]; exact h1, h2, h3⟩

/-- the possible results of `tryConnect` -/
theorem tryConnect_cases (cfg : Cfg S α) (useStart : Bool) (st : St S α) (id : Nat) (existing : Motion S) (x : S)
    (dr : Draw S α) (info : Info) :
    (tryConnect cfg useStart st id existing x dr info).1 = st ∨
    ∃ ocd co cm, lookup (st.disc (!useStart)).cdata (cfg.coord x) = some ocd ∧ co ∈ ocd.motions ∧ st.ar[co]? = some cm ∧
      ∃ r1 r2, r1 = isPathValid cfg useStart st.ar.size (addMotion cfg st (mkConnect cm existing id useStart)) ∧
        r2 = isPathValid cfg (!useStart) co r1.2 ∧
        ((r1.1 = false ∧ (tryConnect cfg useStart st id existing x dr info).1 = r1.2) ∨
         (r1.1 = true ∧ r2.1 = false ∧ (tryConnect cfg useStart st id existing x dr info).1 = r2.2) ∨
         (r1.1 = true ∧ r2.1 = true ∧ (tryConnect cfg useStart st id existing x dr info).1 =
            { r2.2 with solved := some (pathOf useStart r2.2.ar id co) })) := by
  unfold tryConnect
  cases h1 : lookup (st.disc (!useStart)).cdata (cfg.coord x) with
  | none => exact Or.inl rfl
  | some ocd =>
    try simp only []
    by_cases h2 : ocd.motions.isEmpty = true
    · rw [if_pos h2]; exact Or.inl rfl
    · rw [if_neg h2]
      try simp only []
      cases h3 : ocd.motions[dr.connPick ocd.motions.length]? with
      | none => exact Or.inl rfl
      | some co =>
        try simp only []
        cases h4 : st.ar[co]? with
        | none => exact Or.inl rfl
        | some cm =>
          try simp only []
          generalize hr1 : isPathValid cfg useStart st.ar.size (addMotion cfg st (mkConnect cm existing id useStart)) = r1
          generalize hr2 : isPathValid cfg (!useStart) co r1.2 = r2
          generalize hpv : cfg.pairValid (if useStart = true then existing.root else cm.root)
            (if useStart = true then cm.root else existing.root) = pv
          cases pv with
          | false => exact Or.inl rfl
          | true =>
            rw [if_pos rfl]
            right
            refine ⟨ocd, co, cm, rfl, List.mem_of_getElem? h3, h4, r1, r2, hr1.symm, hr2.symm, ?_⟩
            cases h5 : r1.1 with
            | false => exact Or.inl ⟨rfl, rfl⟩
            | true =>
              rw [if_pos rfl]
              cases h6 : r2.1 with
              | false => exact Or.inr (Or.inl ⟨rfl, rfl, rfl⟩)
              | true => exact Or.inr (Or.inr ⟨rfl, rfl, rfl⟩)

/-! ### the combined invariant through an iteration -/

def LInv (cfg : Cfg S α) (starts : Array S) (st : St S α) : Prop := ArInv cfg starts st.ar ∧ DOK cfg st

theorem addMotion_inStart_old (cfg : Cfg S α) (st : St S α) (m : Motion S) {j : Nat} {t : Bool}
    (h : ∀ x, st.ar[j]? = some x → x.inStart = t) (hj : j < st.ar.size) :
    ∀ x', (addMotion cfg st m).ar[j]? = some x' → x'.inStart = t := by
  apply inStart_of_frame (addMotion_frame cfg st m).1
  intro x hx
  rw [Array.getElem?_push, if_neg (by omega)] at hx
  exact h x hx

theorem addMotion_inStart_last (cfg : Cfg S α) (st : St S α) (m : Motion S) :
    ∀ x', (addMotion cfg st m).ar[st.ar.size]? = some x' → x'.inStart = m.inStart := by
  apply inStart_of_frame (addMotion_frame cfg st m).1
  intro x hx
  rw [Array.getElem?_push, if_pos rfl] at hx
  cases hx; rfl

theorem lt_of_getElem? {ar : Array (Motion S)} {j : Nat} {x : Motion S} (h : ar[j]? = some x) : j < ar.size := by
  rcases Nat.lt_or_ge j ar.size with h' | h'
  · exact h'
  · rw [Array.getElem?_eq_none h'] at h; cases h

theorem tryConnect_linv {cfg : Cfg S α} {starts : Array S} (hcoord : ∀ s, (cfg.coord s).length = cfg.P.dim)
    {st : St S α} (h : LInv cfg starts st) (useStart : Bool) (id : Nat)
    (hid : ∃ m, st.ar[id]? = some m ∧ m.inStart = useStart) (existing : Motion S) (x : S) (dr : Draw S α) (info : Info) :
    LInv cfg starts (tryConnect cfg useStart st id existing x dr info).1 := by
  obtain ⟨mid, hmid, hmidt⟩ := hid
  rcases tryConnect_cases cfg useStart st id existing x dr info with e | ⟨ocd, co, cm, hl, hco, hcm, r1, r2, hr1, hr2, hcase⟩
  · rw [e]; exact h
  · -- the state with the `connect` motion
    have ha1 : ArInv cfg starts (addMotion cfg st (mkConnect cm existing id useStart)).ar :=
      addMotion_inv h.1 (mkConnect cm existing id useStart) ⟨mid, hmid, fun hv => by cases hv⟩
    have hd1 : DOK cfg (addMotion cfg st (mkConnect cm existing id useStart)) :=
      addMotion_dok hcoord h.2 (mkConnect cm existing id useStart) rfl rfl (fun p hp => by
        simp only [mkConnect, Option.some.injEq] at hp; subst hp; exact ⟨mid, hmid, hmidt⟩)
    have hl1 : LInv cfg starts r1.2 := by
      rw [hr1]
      exact ⟨isPathValid_inv ha1 _ _, isPathValid_dok hcoord useStart _ ha1 hd1 (addMotion_inStart_last cfg st _)⟩
    -- the second walk, when the first one succeeded
    have hl2 : r1.1 = true → LInv cfg starts r2.2 := by
      intro h1t
      rw [hr2]
      refine ⟨isPathValid_inv hl1.1 _ _, isPathValid_dok hcoord (!useStart) co hl1.1 hl1.2 ?_⟩
      -- `co` is a motion of the other tree, before and after the first walk
      obtain ⟨mco, hmco, _, hmcot⟩ := cell_motion h.2 (!useStart) hl hco
      have h0 : ∀ x', (addMotion cfg st (mkConnect cm existing id useStart)).ar[co]? = some x' → x'.inStart = (!useStart) :=
        addMotion_inStart_old cfg st _ (fun x hx => by rw [hmco] at hx; cases hx; exact hmcot) (lt_of_getElem? hmco)
      have hfr : Frame (addMotion cfg st (mkConnect cm existing id useStart)).ar r1.2.ar := by
        rw [hr1]
        unfold isPathValid
        exact ((validateFrom_inv useStart _ _ ha1).2 (by rw [hr1] at h1t; exact h1t)).1
      exact inStart_of_frame hfr h0
    rcases hcase with ⟨_, e⟩ | ⟨h1t, _, e⟩ | ⟨h1t, _, e⟩
    · rw [e]; exact hl1
    · rw [e]; exact hl2 h1t
    · rw [e]
      have := hl2 h1t
      exact ⟨this.1, ⟨this.2.dS, this.2.dG, this.2.coh⟩⟩

theorem goalPhase_linv {cfg : Cfg S α} {starts : Array S} (hcoord : ∀ s, (cfg.coord s).length = cfg.P.dim)
    {st : St S α} (h : LInv cfg starts st) : LInv cfg starts (goalPhase cfg st).1 := by
  refine ⟨goalPhase_inv h.1, ?_⟩
  unfold goalPhase
  simp only []
  split
  · refine addMotion_dok hcoord ?_ _ rfl rfl (fun p hp => by cases hp)
    exact ⟨h.2.dS, h.2.dG, h.2.coh⟩
  · exact ⟨h.2.dS, h.2.dG, h.2.coh⟩

theorem setDisc_linv {cfg : Cfg S α} {starts : Array S} {st : St S α} (h : LInv cfg starts st) (t : Bool) (d : Disc α)
    (hd : DInv cfg.P d (liveAr cfg t st.ar)) : LInv cfg starts (st.setDisc t d) := by
  refine ⟨by rw [ar_setDisc]; exact h.1, DOK.of t ?_ ?_ ?_⟩
  · rw [disc_setDisc_same, ar_setDisc]; exact hd
  · rw [disc_setDisc_other, ar_setDisc]; exact h.2.disc _
  · rw [ar_setDisc]; exact h.2.coh

theorem step_linv {cfg : Cfg S α} {starts : Array S} (hcoord : ∀ s, (cfg.coord s).length = cfg.P.dim)
    {st : St S α} (h : LInv cfg starts st) (dr : Draw S α) : LInv cfg starts (step cfg st dr).1 := by
  unfold step
  simp only []
  -- flip + countIteration
  have h0 : LInv cfg starts (({ st with startTree := !st.startTree } : St S α).setDisc st.startTree
      (countIteration (({ st with startTree := !st.startTree } : St S α).disc st.startTree))) := by
    apply setDisc_linv (st := ({ st with startTree := !st.startTree } : St S α)) ⟨h.1, ⟨h.2.dS, h.2.dG, h.2.coh⟩⟩
    have := (⟨h.2.dS, h.2.dG, h.2.coh⟩ : DOK cfg ({ st with startTree := !st.startTree } : St S α)).disc st.startTree
    exact ⟨this.ginv, this.sync, this.mot, this.cov, this.size, this.lnd⟩
  have hg := goalPhase_linv hcoord h0
  generalize (goalPhase cfg (({ st with startTree := !st.startTree } : St S α).setDisc st.startTree
      (countIteration (({ st with startTree := !st.startTree } : St S α).disc st.startTree)))) = gp at hg
  split
  · exact ⟨hg.1, ⟨hg.2.dS, hg.2.dG, hg.2.coh⟩⟩
  · -- selectMotion on the expanded tree
    have hsel := select_inv (hg.2.disc st.startTree) dr.u dr.pick
    have hs := setDisc_linv hg st.startTree _ hsel.1
    split
    · exact hs
    · rename_i e ecell hsome
      have hmem := hsel.2 e ecell hsome
      obtain ⟨me, hme, _, hmet, _⟩ := (mem_liveAr cfg st.startTree gp.1.ar e ecell).1 hmem
      split
      · exact hs
      · rename_i existing hex
        rw [ar_setDisc] at hex
        rw [hme] at hex; cases hex
        -- the new (unvalidated) motion
        have hadd : LInv cfg starts (addMotion cfg (gp.1.setDisc st.startTree (select cfg.P (gp.1.disc st.startTree) dr.u dr.pick).1)
            { state := dr.nearSample, parent := some e, root := me.root, valid := false, children := [], inStart := st.startTree }) := by
          refine ⟨addMotion_inv hs.1 _ ⟨me, by rw [ar_setDisc]; exact hme, fun hv => by cases hv⟩, ?_⟩
          refine addMotion_dok hcoord hs.2 _ rfl rfl ?_
          intro p hp
          simp only [Option.some.injEq] at hp; subst hp
          exact ⟨me, by rw [ar_setDisc]; exact hme, hmet⟩
        apply tryConnect_linv hcoord hadd
        obtain ⟨m', hm', _⟩ := addMotion_last cfg (gp.1.setDisc st.startTree (select cfg.P (gp.1.disc st.startTree) dr.u dr.pick).1)
            { state := dr.nearSample, parent := some e, root := me.root, valid := false, children := [], inStart := st.startTree }
        exact ⟨m', hm', addMotion_inStart_last cfg _ _ m' hm'⟩

theorem loop_linv {cfg : Cfg S α} {starts : Array S} (hcoord : ∀ s, (cfg.coord s).length = cfg.P.dim) :
    ∀ (script : List (Draw S α)) (st : St S α), LInv cfg starts st → LInv cfg starts (loop cfg st script).1
  | [], _, h => h
  | dr :: rest, st, h => by
    unfold loop
    simp only []
    split
    · exact step_linv hcoord h dr
    · exact loop_linv hcoord rest _ (step_linv hcoord h dr)

theorem addStarts_linv {cfg : Cfg S α} {starts : Array S} (hcoord : ∀ s, (cfg.coord s).length = cfg.P.dim) :
    ∀ (l : List S) (st : St S α), (∀ s ∈ l, ValidStart cfg starts s) → LInv cfg starts st →
      LInv cfg starts (addStarts cfg l st)
  | [], _, _, h => h
  | s :: rest, st, hv, h => by
    unfold addStarts
    apply addStarts_linv hcoord rest _ (fun s' hs' => hv s' (by simp [hs']))
    refine ⟨addMotion_inv h.1 _ ?_, addMotion_dok hcoord h.2 _ rfl rfl (fun p hp => by cases hp)⟩
    simp only []
    exact ⟨rfl, by simp only [if_true]; exact hv s (by simp)⟩

theorem initState_linv (cfg : Cfg S α) (hcoord : ∀ s, (cfg.coord s).length = cfg.P.dim) (starts : Array S) :
    LInv cfg starts (initState cfg starts).1 := by
  have hspec := (drainStarts_spec cfg.bounds cfg.valid starts (starts.size + 1) {}).1
  unfold initState
  apply addStarts_linv hcoord
  · intro s hs
    obtain ⟨x, hx, rfl⟩ := List.mem_map.1 hs
    obtain ⟨hi, h1, h2, h3, _⟩ := hspec x hx
    exact ⟨x.1, hi, h1, h2, h3⟩
  · refine ⟨by intro i m hm; simp at hm, ⟨Disc.empty_inv _ _, Disc.empty_inv _ _, by intro i m hm; simp at hm⟩⟩

theorem solve_linv (cfg : Cfg S α) (hcoord : ∀ s, (cfg.coord s).length = cfg.P.dim) (starts : Array S)
    (script : List (Draw S α)) : LInv cfg starts (solve cfg starts script).final := by
  unfold solve
  simp only []
  split
  · exact initState_linv cfg hcoord starts
  · split
    · exact initState_linv cfg hcoord starts
    · have := loop_linv hcoord script _ (initState_linv cfg hcoord starts)
      split <;> exact this

end OmplModel.LBKPIECE1
