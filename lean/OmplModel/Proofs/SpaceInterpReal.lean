import OmplModel.Model.SpaceInterp
import Mathlib.Analysis.SpecialFunctions.Trigonometric.Inverse
import Mathlib.Analysis.SpecialFunctions.Complex.Arg
import Mathlib.Tactic.Linarith
import Mathlib.Tactic.Ring
import Mathlib.Tactic.Positivity
import Mathlib.Tactic.NormNum
import Mathlib.Analysis.SpecialFunctions.Sqrt
import Mathlib.Analysis.Real.Pi.Bounds
/-!
`Num ℝ` for the C07 (interpolation) proofs: the model of `Model/SpaceInterp.lean` instantiated at
the real numbers.  What the `ℝ` theorems leave unverified is exactly IEEE rounding of the `Float` run.

The instance is *scoped* (`open scoped OmplModel.SpaceInterp.RealNum`), so that it cannot compete with
the `Num ℝ` instance of another property's proof files should both ever be imported together.
The arithmetic/order parents are ℝ's own instances, so `a + b`, `a < b` … in the model are the
ordinary real operations up to (reducible) instance unfolding; the `@[simp]` lemmas below rewrite the
remaining class operations (`Num.pi`, `Num.abs`, the `Num`-derived numerals, the model's constants).

Files that open the instance also put `attribute [-instance] OmplModel.Num.instOfNat` at their top:
otherwise a literal such as `(2 : ℝ)` typed in a theorem statement could elaborate through the
`Num`-derived `OfNat` instance instead of Mathlib's.  (The model terms mention that instance
explicitly, so they are unaffected; `ofNat_zero/one/two` turn them into ordinary numerals.)
-/
namespace OmplModel.SpaceInterp.RealNum
open OmplModel

noncomputable scoped instance instNumReal : Num ℝ where
  toAdd := inferInstance
  toSub := inferInstance
  toMul := inferInstance
  toDiv := inferInstance
  toNeg := inferInstance
  toLT := inferInstance
  toLE := inferInstance
  ofNat n := (n : ℝ)
  ofDec m e := (m : ℝ) / (10 : ℝ) ^ e
  pi := Real.pi
  abs x := |x|
  sqrt := Real.sqrt
  sin := Real.sin
  cos := Real.cos
  acos := Real.arccos
  atan2 y x := Complex.arg ⟨x, y⟩
  floor x := (⌊x⌋ : ℝ)
  ceil x := (⌈x⌉ : ℝ)
  fmod x y := x - y * (if 0 ≤ x / y then (⌊x / y⌋ : ℝ) else (⌈x / y⌉ : ℝ))
  decLt _ _ := Classical.propDecidable _
  decLe _ _ := Classical.propDecidable _
  toInt x := if 0 ≤ x then ⌊x⌋ else ⌈x⌉
  ofInt i := (i : ℝ)



attribute [-instance] Num.instOfNat
@[simp] theorem ofNat_zero : (@OfNat.ofNat ℝ (nat_lit 0) (Num.instOfNat (nat_lit 0)) : ℝ) = 0 := by
  show ((0:ℕ):ℝ) = _; exact Nat.cast_zero
@[simp] theorem ofNat_one : (@OfNat.ofNat ℝ (nat_lit 1) (Num.instOfNat (nat_lit 1)) : ℝ) = 1 := by
  show ((1:ℕ):ℝ) = _; exact Nat.cast_one
@[simp] theorem ofNat_two : (@OfNat.ofNat ℝ (nat_lit 2) (Num.instOfNat (nat_lit 2)) : ℝ) = 2 := by
  show ((2:ℕ):ℝ) = _; exact Nat.cast_ofNat
@[simp] theorem ofNat_eq (n : Nat) : (Num.ofNat n : ℝ) = (n : ℝ) := rfl
@[simp] theorem ofDec_eq (m e : Nat) : (Num.ofDec m e : ℝ) = (m : ℝ) / (10 : ℝ) ^ e := rfl
@[simp] theorem pi_eq : (Num.pi : ℝ) = Real.pi := rfl
@[simp] theorem abs_eq (x : ℝ) : Num.abs x = |x| := rfl
@[simp] theorem sqrt_eq (x : ℝ) : Num.sqrt x = Real.sqrt x := rfl
@[simp] theorem sin_eq (x : ℝ) : Num.sin x = Real.sin x := rfl
@[simp] theorem cos_eq (x : ℝ) : Num.cos x = Real.cos x := rfl
@[simp] theorem acos_eq (x : ℝ) : Num.acos x = Real.arccos x := rfl
@[simp] theorem floor_eq (x : ℝ) : Num.floor x = (⌊x⌋ : ℝ) := rfl
@[simp] theorem ofInt_eq (i : Int) : (Num.ofInt i : ℝ) = (i : ℝ) := rfl
theorem toInt_eq (x : ℝ) : Num.toInt x = if 0 ≤ x then ⌊x⌋ else ⌈x⌉ := by
  show (if _ then _ else _) = _
  congr

@[simp] theorem dblEps_eq : (dblEps : ℝ) = 1 / 4503599627370496 := by
  simp [dblEps]
theorem dblEps_pos : (0 : ℝ) < dblEps := by
  rw [dblEps_eq]; norm_num
@[simp] theorem half_eq : (half : ℝ) = 1 / 2 := by
  simp [half]; norm_num
@[simp] theorem maxQuatErr_eq : (maxQuatErr : ℝ) = 1 / 10 ^ 9 := by
  simp [maxQuatErr]

example : lerp (1 : ℝ) 3 (1 / 2) = 2 := by simp [lerp]; norm_num
example (a b s u : ℝ) : lerp (lerp a b s) b u = lerp a b (s + (1 - s) * u) := by
  simp only [lerp]; ring

end OmplModel.SpaceInterp.RealNum
