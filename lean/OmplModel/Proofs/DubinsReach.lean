import OmplModel.Proofs.DubinsWords
import OmplModel.Proofs.DubinsInteg
/-!
[EX] glue between the word-reach theorems (`Proofs/DubinsWords.lean`) and the integration lemmas
(`Proofs/DubinsInteg.lean`) of C14: a uniform statement over the six words, the exhaustive search,
`interpolate` at the end of the path, and "reported length ≥ straight-line distance".
-/
namespace OmplModel.Dubins
open OmplModel DubinsR
attribute [-instance] Num.instOfNat

/-- the band in which the CSC solvers clamp a slightly negative `tmp` to 0 (`DUBINS_ZERO ≤ tmp < 0`) -/
def ClampBand (tmp : ℝ) : Prop := -(1 / 10 ^ 7) ≤ tmp ∧ tmp < 0

/-- the code's `tmp` of RSL / LSR in plain real terms -/
noncomputable def tmpRSL (d α β : ℝ) : ℝ :=
  d * d - 2 + 2 * (Real.cos α * Real.cos β + Real.sin α * Real.sin β - d * (Real.sin α + Real.sin β))
noncomputable def tmpLSR (d α β : ℝ) : ℝ :=
  -2 + d * d + 2 * (Real.cos α * Real.cos β + Real.sin α * Real.sin β + d * (Real.sin α + Real.sin β))

theorem tmpRSL_eq_model (d α β : ℝ) : tmpRSL d α β = cscTmpRSL d α β := by
  unfold tmpRSL cscTmpRSL
  simp only [cos_eq, sin_eq, ofNat_two]

theorem tmpLSR_eq_model (d α β : ℝ) : tmpLSR d α β = cscTmpLSR d α β := by
  unfold tmpLSR cscTmpLSR
  simp only [cos_eq, sin_eq, ofNat_two]

/-- the inputs on which word `w`'s reach theorem is stated: outside the clamp band for RSL/LSR -/
def NoClamp (w : Word) (d α β : ℝ) : Prop :=
  match w with
  | .RSL => ¬ ClampBand (tmpRSL d α β)
  | .LSR => ¬ ClampBand (tmpLSR d α β)
  | _ => True

theorem dubinsRSL_some_tmp (m2p : ℝ → ℝ) (d α β : ℝ) (P : Path ℝ) (h : dubinsRSL m2p d α β = some P) :
    -(1 / 10 ^ 7) ≤ tmpRSL d α β := by
  unfold dubinsRSL at h
  simp only [cos_eq, sin_eq, ofNat_two, dzero_eq] at h
  split at h
  case isFalse => cases h
  rename_i hc
  exact hc

theorem dubinsLSR_some_tmp (m2p : ℝ → ℝ) (d α β : ℝ) (P : Path ℝ) (h : dubinsLSR m2p d α β = some P) :
    -(1 / 10 ^ 7) ≤ tmpLSR d α β := by
  unfold dubinsLSR at h
  simp only [cos_eq, sin_eq, ofNat_two, dzero_eq] at h
  split at h
  case isFalse => cases h
  rename_i hc
  exact hc

/-- all six reach theorems in one statement -/
theorem solve_reaches (m2p : ℝ → ℝ) (hm : Exact m2p) (w : Word) (d α β : ℝ) (P : Path ℝ)
    (hb : NoClamp w d α β) (h : solve m2p w d α β = some P) : Reaches P w d α β := by
  cases w <;> simp only [solve] at h
  · exact word_LSL_reaches m2p hm d α β P h
  · exact word_RSR_reaches m2p hm d α β P h
  · have h0 := dubinsRSL_some_tmp m2p d α β P h
    have : 0 ≤ tmpRSL d α β := by
      by_contra hneg
      exact hb ⟨h0, not_le.mp hneg⟩
    exact word_RSL_reaches m2p hm d α β P this h
  · have h0 := dubinsLSR_some_tmp m2p d α β P h
    have : 0 ≤ tmpLSR d α β := by
      by_contra hneg
      exact hb ⟨h0, not_le.mp hneg⟩
    exact word_LSR_reaches m2p hm d α β P this h
  · exact word_RLR_reaches m2p hm d α β P h
  · exact word_LRL_reaches m2p hm d α β P h

/-- a returned path that reaches `(d,0)` is at least `d` long -/
theorem solve_len_ge (m2p : ℝ → ℝ) (hm : Exact m2p) (hnn : ∀ x, 0 ≤ m2p x) (w : Word) (d α β : ℝ)
    (P : Path ℝ) (hb : NoClamp w d α β) (hd : 0 ≤ d) (h : solve m2p w d α β = some P) : d ≤ P.len := by
  obtain ⟨_, _, hx, hy, _⟩ := solve_reaches m2p hm w d α β P hb h
  obtain ⟨h1, h2, h3⟩ := word_lengths_nonneg m2p hnn w d α β P h
  exact reaches_len_ge P h1 h2 h3 d α hd stepFwd chordBounded_fwd hx hy

/-! ## `interpolate` at the end of the path -/

theorem integFull_zero_lengths (step : Seg → ℝ → Pose ℝ → Pose ℝ) (h0 : ∀ s P, step s 0 P = P)
    (segs : List (Seg × ℝ)) (hz : ∀ x ∈ segs, x.2 = 0) (P : Pose ℝ) : integFull step segs P = P := by
  induction segs generalizing P with
  | nil => rfl
  | cons hd tl ih =>
    obtain ⟨s, l⟩ := hd
    have hl : l = 0 := hz (s, l) List.mem_cons_self
    subst hl
    simp only [integFull, h0]
    exact ih (fun x hx => hz x (List.mem_cons_of_mem _ hx)) P

theorem all_zero_of_sum_nonpos (segs : List (Seg × ℝ)) (hnn : ∀ x ∈ segs, 0 ≤ x.2)
    (hs : (segs.map Prod.snd).sum ≤ 0) : ∀ x ∈ segs, x.2 = 0 := by
  induction segs with
  | nil => intro x hx; cases hx
  | cons hd tl ih =>
    have hhd := hnn hd List.mem_cons_self
    have htl : ∀ x ∈ tl, 0 ≤ x.2 := fun x hx => hnn x (List.mem_cons_of_mem _ hx)
    have hsum := sum_snd_nonneg tl htl
    simp only [List.map_cons, List.sum_cons] at hs
    intro x hx
    rcases List.mem_cons.mp hx with rfl | hx
    · linarith
    · exact ih htl (by linarith) x hx

/-- with the whole length as budget the loop drives the whole word (zero-length segments it skips
do not move the pose) -/
theorem integ_total (step : Seg → ℝ → Pose ℝ → Pose ℝ) (h0 : ∀ s P, step s 0 P = P)
    (segs : List (Seg × ℝ)) (hnn : ∀ x ∈ segs, 0 ≤ x.2) (P : Pose ℝ) :
    integ step segs (segs.map Prod.snd).sum P = integFull step segs P := by
  induction segs generalizing P with
  | nil => rfl
  | cons hd tl ih =>
    obtain ⟨s, l⟩ := hd
    have hl : 0 ≤ l := hnn (s, l) List.mem_cons_self
    have htl : ∀ x ∈ tl, 0 ≤ x.2 := fun x hx => hnn x (List.mem_cons_of_mem _ hx)
    have hsum := sum_snd_nonneg tl htl
    rw [integ_eq_integFull_truncate]
    simp only [List.map_cons, List.sum_cons]
    rcases lt_or_ge 0 (l + (tl.map Prod.snd).sum) with hpos | hz
    · rw [truncate_cons_pos s l tl _ hpos, min_eq_right (by linarith)]
      simp only [integFull]
      rw [← integ_eq_integFull_truncate]
      have e : l + (tl.map Prod.snd).sum - l = (tl.map Prod.snd).sum := by ring
      rw [e]; exact ih htl _
    · rw [truncate_of_nonpos _ _ hz]
      have hall : ∀ x ∈ (s, l) :: tl, x.2 = 0 :=
        all_zero_of_sum_nonpos _ hnn (by simpa using hz)
      rw [integFull_zero_lengths step h0 _ hall]; rfl

/-! ## the `reverse_` branch retraces the forward curve -/

theorem stepRev_stepFwd (s : Seg) (v : ℝ) (P : Pose ℝ) : stepRev s v (stepFwd s v P) = P := by
  obtain ⟨x, y, th⟩ := P
  cases s
  · show Pose.mk (x + Real.sin (th + v) - Real.sin th + Real.sin (th + v - v) - Real.sin (th + v))
      (y - Real.cos (th + v) + Real.cos th - Real.cos (th + v - v) + Real.cos (th + v)) (th + v - v) = _
    rw [add_sub_cancel_right]; congr 1 <;> ring
  · show Pose.mk (x + v * Real.cos th - v * Real.cos th) (y + v * Real.sin th - v * Real.sin th) th = _
    congr 1 <;> ring
  · show Pose.mk (x - Real.sin (th - v) + Real.sin th - Real.sin (th - v + v) + Real.sin (th - v))
      (y + Real.cos (th - v) - Real.cos th + Real.cos (th - v + v) - Real.cos (th - v)) (th - v + v) = _
    rw [sub_add_cancel]; congr 1 <;> ring

theorem integFull_append (step : Seg → ℝ → Pose ℝ → Pose ℝ) (l1 l2 : List (Seg × ℝ)) (P : Pose ℝ) :
    integFull step (l1 ++ l2) P = integFull step l2 (integFull step l1 P) := by
  induction l1 generalizing P with
  | nil => rfl
  | cons hd tl ih => obtain ⟨s, l⟩ := hd; simp only [List.cons_append, integFull]; exact ih _

/-- driving the reversed word backwards from the end of the forward curve returns to its start -/
theorem integFull_rev_retraces (segs : List (Seg × ℝ)) (P : Pose ℝ) :
    integFull stepRev segs.reverse (integFull stepFwd segs P) = P := by
  induction segs generalizing P with
  | nil => rfl
  | cons hd tl ih =>
    obtain ⟨s, l⟩ := hd
    rw [List.reverse_cons, integFull_append]
    simp only [integFull]
    rw [ih, stepRev_stepFwd]

theorem segList_rev (P : Path ℝ) (h : P.rev = false) :
    Path.segList { P with rev := true } = P.segList.reverse := by
  obtain ⟨w, t, p, q, rev⟩ := P
  simp only at h; subst h
  simp [Path.segList]

/-! ## the exhaustive search never returns the default path over ℝ -/

theorem dubinsLSL_isSome (m2p : ℝ → ℝ) (d α β : ℝ) : ∃ P, dubinsLSL m2p d α β = some P := by
  unfold dubinsLSL
  simp only [cos_eq, sin_eq, ofNat_two, dzero_eq]
  have htmp : 2 + d * d - 2 * (Real.cos α * Real.cos β + Real.sin α * Real.sin β - d * (Real.sin α - Real.sin β)) =
      (d + Real.sin α - Real.sin β) ^ 2 + (Real.cos β - Real.cos α) ^ 2 := by
    linear_combination (-1 : ℝ) * Real.sin_sq_add_cos_sq α - Real.sin_sq_add_cos_sq β
  have hpos : -(1 / 10 ^ 7 : ℝ) ≤ 2 + d * d - 2 * (Real.cos α * Real.cos β + Real.sin α * Real.sin β - d * (Real.sin α - Real.sin β)) := by
    rw [htmp]
    have : (0 : ℝ) ≤ (d + Real.sin α - Real.sin β) ^ 2 + (Real.cos β - Real.cos α) ^ 2 := by positivity
    have h2 : -(1 / 10 ^ 7 : ℝ) ≤ 0 := by norm_num
    linarith
  rw [if_pos hpos]
  exact ⟨_, rfl⟩

end OmplModel.Dubins
