import OmplModel.Proofs.PathOpsShortcutOrd
import OmplModel.Proofs.PathOpsPerturb
/-
Round 6 of the `PathSimplifier` proofs.  Two parts, nothing here is evaluated at `Float`.

PART A - composition WITHOUT symmetry of `checkMotion`.
`RoutinesAreRuns` / `routinesPreserve_of_specs` / `simplify_schedule_preserves_concrete`
(Proofs/PathOpsScheduleBridge.lean) are about `partialShortcutPath`, the code BEFORE fix F170: it asks
`checkMotion(s0, s1)` in SAMPLING order and therefore needs `hsym : ∀ a b, cm a b = cm b a`.  The tree
contains the fix, modelled as `partialShortcutPathOrd` (Model/PathOps.lean): the two samples are put in
path order first; `partialShortcutOrd_preserves` (Proofs/PathOpsShortcutOrd.lean) has no symmetry
hypothesis.
* `RoutinesAreRunsOrd`: as `RoutinesAreRuns`, the `partialShortcut` field is a run of
  `partialShortcutPathOrd`;
* `routinesPreserve_of_specs_ord`, `simplify_schedule_preserves_concrete_ord`,
  `simplifyMax_schedule_preserves_concrete_ord`: the packaged composition theorem for EVERY `checkMotion`.

PART B - perturbPath's splice ("Modify the path with the new state", `ppSplice` of
Model/PathOpsSplice2.lean), one theorem per branch of the C++ over (`index_before`, `index_after`):
`perturb_splice_preserves_ff / _tt / _ft / _tf`: under the branch's in-range side conditions (the ones
of `ppSplice_ff / _tt / _ft / _tf`), the two validations `checkMotion(before', new)`,
`checkMotion(new, after')` (`before'` = `states[pos_before]` if snapped, else `before`; same for
`after'`), and "an unsnapped `before` / `after` is a cut point of the input motion it was sampled on",
the splice succeeds, has the branch's canonical form and `Preserves cm cut isGoal`, for arbitrary `cm`,
`cut`, `isGoal`.  `perturb_splice_preserves` is the uniform statement they are instances of.
The four sub-branches of `index_before < 0 && index_after < 0` with their exact forms and lengths:
`perturb_splice_ff_same_segment`, `perturb_splice_ff_adjacent`, `perturb_splice_ff_two_apart`,
`perturb_splice_ff_far` (`states[pos_before+1..+3]` overwritten, `erase(pos_before+4 .. pos_after+1)`).
-/
namespace OmplModel.PathOps

variable {σ : Type}

/-! ## PART A: the composition theorem over the concrete models, no symmetry -/

/-- `RoutinesAreRuns` for the tree's `partialShortcutPath` (after fix F170): every routine field of `R`
is, at every call index and on every path, SOME run of the corresponding concrete model with
`checkMotion = cm`; the `partialShortcut` field is a run of `partialShortcutPathOrd` (validation in PATH
order).  All other fields are those of `RoutinesAreRuns`. -/
structure RoutinesAreRunsOrd (α γ β : Type) [BEq σ] (cm : σ → σ → Bool) (cut : σ → σ → σ → Prop)
    (isGoal : σ → Prop) (R : Routines σ) : Prop where
  partialShortcut : ∀ k l, ∃ (E : PsEnv σ) (u : Nat → Float) (ms me : Nat) (rr snap : Float),
    E.cm = cm ∧ (∀ a b t, cut a b (E.interp a b t)) ∧
    partialShortcutPathOrd E u ms me rr snap l = some (R.partialShortcut k l)
  findBetterGoal : ∀ k l, ∃ E : BgEnv σ α γ, E.cm = cm ∧ (∀ a b t, cut a b (E.interp a b t)) ∧
    (∀ g, isGoal (E.goalAt g)) ∧ (∀ a b, E.N.lt a b = true → E.N.le b a = false) ∧
    _root_.OmplModel.PathOps.findBetterGoal E l = some (R.findBetterGoal k l)
  smoothBSpline : ∀ k l, ∃ (E : BsEnv σ) (n : Nat), E.cm = cm ∧ (∀ a b, cut a b (E.mid a b)) ∧
    R.smoothBSpline k l = _root_.OmplModel.PathOps.smoothBSpline E n l
  checkAndRepair : ∀ k l, ∃ E : RepairEnv σ, E.cm = cm ∧
    _root_.OmplModel.PathOps.checkAndRepair E l = some (R.checkAndRepair k l)
  reduceVertices : ∀ k l, ∃ (rangeOf draw : Nat → Nat) (ms me : Nat),
    _root_.OmplModel.PathOps.reduceVertices cm rangeOf draw ms me l = some (R.reduceVertices k l)
  collapseClose : ∀ k l, ∃ (dist : σ → σ → β) (lt : β → β → Bool) (inf : β) (ms me : Nat),
    collapseCloseVertices cm dist lt inf ms me l = some (R.collapseClose k l)

/-- routines that are runs of the concrete models (the tree's `partialShortcutPath`) satisfy the
hypothesis of the composition theorem - for EVERY `checkMotion`, no `hsym` -/
theorem routinesPreserve_of_specs_ord {α γ β : Type} [BEq σ] {cm : σ → σ → Bool}
    {cut : σ → σ → σ → Prop} {isGoal : σ → Prop} {R : Routines σ}
    (h : RoutinesAreRunsOrd α γ β cm cut isGoal R) : RoutinesPreserve cm cut isGoal R where
  partialShortcut := by
    intro k l
    obtain ⟨E, u, ms, me, rr, snap, rfl, hcut, hE⟩ := h.partialShortcut k l
    exact partialShortcutOrd_preserves isGoal hcut (r := (R.partialShortcut k l).2) hE
  findBetterGoal := by
    intro k l
    obtain ⟨E, rfl, hcut, hgoal, hlaw, hE⟩ := h.findBetterGoal k l
    exact betterGoal_preserves hcut hgoal hlaw (r := (R.findBetterGoal k l).2) hE
  smoothBSpline := by
    intro k l
    obtain ⟨E, n, rfl, hcut, hE⟩ := h.smoothBSpline k l
    rw [hE]
    exact bspline_preserves E isGoal hcut n l
  checkAndRepair := by
    intro k l hres
    obtain ⟨E, rfl, hE⟩ := h.checkAndRepair k l
    have hE' : _root_.OmplModel.PathOps.checkAndRepair E l =
        some ((R.checkAndRepair k l).1, (R.checkAndRepair k l).2.1, true) := by
      rw [hE, ← hres]
    exact repair_preserves cut isGoal hE'
  reduceVertices := by
    intro k l
    obtain ⟨rangeOf, draw, ms, me, hE⟩ := h.reduceVertices k l
    exact reduce_preserves cut isGoal (r := (R.reduceVertices k l).2) hE
  collapseClose := by
    intro k l
    obtain ⟨dist, lt, inf, ms, me, hE⟩ := h.collapseClose k l
    exact collapse_preserves cut isGoal (r := (R.collapseClose k l).2) hE

/-- **Composition over the concrete models, the tree's code**: if every routine call of the schedule is
some run of the corresponding concrete routine model (`partialShortcutPathOrd` for the shortcutter),
then every run of `simplify` that ends with `valid = true` preserves: same first state; same last state
or a sampled goal; every motion an input motion, a validated motion (in the direction it is traversed),
or a piece of one cut at a state on it.  EVERY `checkMotion` (no symmetry), every `ptc` stream,
`atLeastOnce`, fuel. -/
theorem simplify_schedule_preserves_concrete_ord {α γ β : Type} [BEq σ] {cm : σ → σ → Bool}
    {cut : σ → σ → σ → Prop} {isGoal : σ → Prop} {R : Routines σ}
    (h : RoutinesAreRunsOrd α γ β cm cut isGoal R)
    (ptc : Nat → Bool) (atLeastOnce : Bool) (fuel : Nat) (inp : List σ)
    (hvalid : (simplify R ptc atLeastOnce fuel inp).valid = true) :
    Preserves cm cut isGoal inp (simplify R ptc atLeastOnce fuel inp).path :=
  simplify_schedule_preserves (routinesPreserve_of_specs_ord h) ptc atLeastOnce fuel inp hvalid

/-- corollary for `simplifyMax` -/
theorem simplifyMax_schedule_preserves_concrete_ord {α γ β : Type} [BEq σ] {cm : σ → σ → Bool}
    {cut : σ → σ → σ → Prop} {isGoal : σ → Prop} {R : Routines σ}
    (h : RoutinesAreRunsOrd α γ β cm cut isGoal R)
    (fuel : Nat) (inp : List σ) (hvalid : (simplifyMax R fuel inp).valid = true) :
    Preserves cm cut isGoal inp (simplifyMax R fuel inp).path :=
  simplifyMax_schedule_preserves (routinesPreserve_of_specs_ord h) fuel inp hvalid

/-- a `RoutinesAreRunsOrd` and a `RoutinesAreRuns` differ in the `partialShortcut` field only: the
other five fields of an existing `RoutinesAreRuns` can be reused as they are -/
theorem RoutinesAreRunsOrd.of_fields {α γ β : Type} [BEq σ] {cm : σ → σ → Bool}
    {cut : σ → σ → σ → Prop} {isGoal : σ → Prop} {R : Routines σ}
    (h : RoutinesAreRuns α γ β cm cut isGoal R)
    (hps : ∀ k l, ∃ (E : PsEnv σ) (u : Nat → Float) (ms me : Nat) (rr snap : Float),
      E.cm = cm ∧ (∀ a b t, cut a b (E.interp a b t)) ∧
      partialShortcutPathOrd E u ms me rr snap l = some (R.partialShortcut k l)) :
    RoutinesAreRunsOrd α γ β cm cut isGoal R :=
  ⟨hps, h.findBetterGoal, h.smoothBSpline, h.checkAndRepair, h.reduceVertices, h.collapseClose⟩

/-! ## PART B: perturbPath's splice preserves, branch by branch -/

section Splice
variable {cm : σ → σ → Bool} {cut : σ → σ → σ → Prop}

/-- all four branches at once (`idx = true`: snapped, the validated end point is the vertex
`st[pos]`; `idx = false`: the sampled state, which is then a cut point of the motion
`(st[pos], st[pos+1])`).  Side conditions = those of `ppSplice_canon` / `ppSplice_spec`. -/
theorem perturb_splice_preserves (isGoal : σ → Prop) (st : List σ) (posB posA : Nat)
    (idxB idxA : Bool) (before new after : σ)
    (hBA : posB ≤ posA) (hA : posA + (if idxA then 0 else 1) < st.length)
    (hlt : idxA = true → posB < posA)
    (hvB : cm (if idxB then st[posB]'(by split at hA <;> omega) else before) new = true)
    (hvA : cm new (if idxA then st[posA]'(by split at hA <;> omega) else after) = true)
    (hcB : idxB = false → ∃ h : posB + 1 < st.length,
      cut (st[posB]'(by omega)) (st[posB + 1]'h) before)
    (hcA : idxA = false → ∃ h : posA + 1 < st.length,
      cut (st[posA]'(by omega)) (st[posA + 1]'h) after) :
    ∃ out, ppSplice st posB idxB posA idxA before new after = some out ∧
      out = st.take (posB + 1) ++
        ((if idxB then [] else [before]) ++ [new] ++ (if idxA then [] else [after])) ++
        st.drop (posA + (if idxA then 0 else 1)) ∧
      Preserves cm cut isGoal st out := by
  obtain ⟨out, ho, hh, hl, _, hm⟩ :=
    ppSplice_spec st posB posA idxB idxA before new after hBA hA hlt
  have hc := ppSplice_canon st posB posA idxB idxA before new after hBA hA hlt
  refine ⟨out, ho, Option.some.inj (ho.symm.trans hc), hh, Or.inl hl, fun p hp => ?_⟩
  rcases hm p hp with h | rfl | rfl | ⟨hi, rfl⟩ | ⟨hi, h1, rfl⟩
  · exact Deriv.input h
  · exact Deriv.validated hvB
  · exact Deriv.validated hvA
  · obtain ⟨h1, hc1⟩ := hcB hi
    exact Deriv.prefixCut (Deriv.input (mem_adj_getElem_succ st posB h1)) hc1
  · obtain ⟨_, hc1⟩ := hcA hi
    exact Deriv.suffixCut (Deriv.input (mem_adj_getElem_succ st posA h1)) hc1

/-- branch `index_before < 0 && index_after < 0`: both sampled states strictly inside segments
`(posB, posB+1)`, `(posA, posA+1)`, `posB ≤ posA`.  Motions of the result: input motions,
`(st[posB], before)` (prefix of `(st[posB], st[posB+1])`), the validated `(before, new)`, `(new, after)`,
`(after, st[posA+1])` (suffix of `(st[posA], st[posA+1])`). -/
theorem perturb_splice_preserves_ff (isGoal : σ → Prop) (st : List σ) (posB posA : Nat)
    (before new after : σ) (hBA : posB ≤ posA) (h : posA + 1 < st.length)
    (hvB : cm before new = true) (hvA : cm new after = true)
    (hcB : cut (st[posB]'(by omega)) (st[posB + 1]'(by omega)) before)
    (hcA : cut (st[posA]'(by omega)) (st[posA + 1]'h) after) :
    ∃ out, ppSplice st posB false posA false before new after = some out ∧
      out = st.take (posB + 1) ++ [before, new, after] ++ st.drop (posA + 1) ∧
      Preserves cm cut isGoal st out := by
  have := perturb_splice_preserves (cm := cm) (cut := cut) isGoal st posB posA false false before
    new after hBA (by simpa using h) (fun h => Bool.noConfusion h) hvB hvA
    (fun _ => ⟨by omega, hcB⟩) (fun _ => ⟨h, hcA⟩)
  simpa using this

/-- branch `index_before >= 0 && index_after >= 0`: both snapped to vertices `posB < posA`; `new`
replaces everything strictly between them.  `before`/`after` (copies of the vertices in the C++) are
not written; the validations are about the vertices. -/
theorem perturb_splice_preserves_tt (isGoal : σ → Prop) (st : List σ) (posB posA : Nat)
    (before new after : σ) (hBA : posB < posA) (h : posA < st.length)
    (hvB : cm (st[posB]'(by omega)) new = true) (hvA : cm new (st[posA]'h) = true) :
    ∃ out, ppSplice st posB true posA true before new after = some out ∧
      out = st.take (posB + 1) ++ [new] ++ st.drop posA ∧
      Preserves cm cut isGoal st out := by
  have := perturb_splice_preserves (cm := cm) (cut := cut) isGoal st posB posA true true before
    new after (by omega) (by simpa using h) (fun _ => hBA) hvB hvA
    (fun h => Bool.noConfusion h) (fun h => Bool.noConfusion h)
  simpa using this

/-- branch `index_before < 0 && index_after >= 0`: `before` strictly inside `(posB, posB+1)`, `after`
snapped to the vertex `posA > posB` -/
theorem perturb_splice_preserves_ft (isGoal : σ → Prop) (st : List σ) (posB posA : Nat)
    (before new after : σ) (hBA : posB < posA) (h : posA < st.length)
    (hvB : cm before new = true) (hvA : cm new (st[posA]'h) = true)
    (hcB : cut (st[posB]'(by omega)) (st[posB + 1]'(by omega)) before) :
    ∃ out, ppSplice st posB false posA true before new after = some out ∧
      out = st.take (posB + 1) ++ [before, new] ++ st.drop posA ∧
      Preserves cm cut isGoal st out := by
  have := perturb_splice_preserves (cm := cm) (cut := cut) isGoal st posB posA false true before
    new after (by omega) (by simpa using h) (fun _ => hBA) hvB hvA
    (fun _ => ⟨by omega, hcB⟩) (fun h => Bool.noConfusion h)
  simpa using this

/-- branch `index_before >= 0 && index_after < 0`: `before` snapped to the vertex `posB`, `after`
strictly inside `(posA, posA+1)`, `posB ≤ posA` -/
theorem perturb_splice_preserves_tf (isGoal : σ → Prop) (st : List σ) (posB posA : Nat)
    (before new after : σ) (hBA : posB ≤ posA) (h : posA + 1 < st.length)
    (hvB : cm (st[posB]'(by omega)) new = true) (hvA : cm new after = true)
    (hcA : cut (st[posA]'(by omega)) (st[posA + 1]'h) after) :
    ∃ out, ppSplice st posB true posA false before new after = some out ∧
      out = st.take (posB + 1) ++ [new, after] ++ st.drop (posA + 1) ∧
      Preserves cm cut isGoal st out := by
  have := perturb_splice_preserves (cm := cm) (cut := cut) isGoal st posB posA true false before
    new after hBA (by simpa using h) (fun h => Bool.noConfusion h) hvB hvA
    (fun h => Bool.noConfusion h) (fun _ => ⟨h, hcA⟩)
  simpa using this

/-! ### the four sub-branches of `index_before < 0 && index_after < 0` -/

/-- `pos_before == pos_after`: three `insert`s at `pos_before + 1`; the path grows by 3 -/
theorem perturb_splice_ff_same_segment (isGoal : σ → Prop) (st : List σ) (p : Nat)
    (before new after : σ) (h : p + 1 < st.length)
    (hvB : cm before new = true) (hvA : cm new after = true)
    (hcB : cut (st[p]'(by omega)) (st[p + 1]'h) before)
    (hcA : cut (st[p]'(by omega)) (st[p + 1]'h) after) :
    ∃ out, ppSplice st p false p false before new after = some out ∧
      out = st.take (p + 1) ++ [before, new, after] ++ st.drop (p + 1) ∧
      out.length = st.length + 3 ∧ Preserves cm cut isGoal st out := by
  obtain ⟨out, ho, rfl, hP⟩ := perturb_splice_preserves_ff (cm := cm) (cut := cut) isGoal st p p
    before new after (Nat.le_refl p) h hvB hvA hcB hcA
  refine ⟨_, ho, rfl, ?_, hP⟩
  rw [length_nf _ _ _ _ (by omega)]
  simp only [List.length_cons, List.length_nil]
  omega

/-- `pos_before + 1 == pos_after`: the vertex between the two segments is overwritten by `before`,
`after` and `new` are inserted; the path grows by 2 -/
theorem perturb_splice_ff_adjacent (isGoal : σ → Prop) (st : List σ) (p : Nat)
    (before new after : σ) (h : p + 2 < st.length)
    (hvB : cm before new = true) (hvA : cm new after = true)
    (hcB : cut (st[p]'(by omega)) (st[p + 1]'(by omega)) before)
    (hcA : cut (st[p + 1]'(by omega)) (st[p + 1 + 1]'h) after) :
    ∃ out, ppSplice st p false (p + 1) false before new after = some out ∧
      out = st.take (p + 1) ++ [before, new, after] ++ st.drop (p + 2) ∧
      out.length = st.length + 2 ∧ Preserves cm cut isGoal st out := by
  obtain ⟨out, ho, rfl, hP⟩ := perturb_splice_preserves_ff (cm := cm) (cut := cut) isGoal st p
    (p + 1) before new after (by omega) h hvB hvA hcB hcA
  refine ⟨_, ho, rfl, ?_, hP⟩
  rw [length_nf _ _ _ _ (by omega)]
  simp only [List.length_cons, List.length_nil]
  omega

/-- `pos_before + 2 == pos_after`: the two vertices of the segment in between are overwritten by
`before`, `new`; `after` is inserted; the path grows by 1 -/
theorem perturb_splice_ff_two_apart (isGoal : σ → Prop) (st : List σ) (p : Nat)
    (before new after : σ) (h : p + 3 < st.length)
    (hvB : cm before new = true) (hvA : cm new after = true)
    (hcB : cut (st[p]'(by omega)) (st[p + 1]'(by omega)) before)
    (hcA : cut (st[p + 2]'(by omega)) (st[p + 2 + 1]'h) after) :
    ∃ out, ppSplice st p false (p + 2) false before new after = some out ∧
      out = st.take (p + 1) ++ [before, new, after] ++ st.drop (p + 3) ∧
      out.length = st.length + 1 ∧ Preserves cm cut isGoal st out := by
  obtain ⟨out, ho, rfl, hP⟩ := perturb_splice_preserves_ff (cm := cm) (cut := cut) isGoal st p
    (p + 2) before new after (by omega) h hvB hvA hcB hcA
  refine ⟨_, ho, rfl, ?_, hP⟩
  rw [length_nf _ _ _ _ (by omega)]
  simp only [List.length_cons, List.length_nil]
  omega

/-- **the far branch** (`pos_after ≥ pos_before + 3`): `states[pos_before+1]`, `[pos_before+2]`,
`[pos_before+3]` are overwritten by `before`, `new`, `after` and
`erase(begin + pos_before + 4, begin + pos_after + 1)` removes the rest of the replaced stretch.
The result keeps `states[0 .. pos_before]` and `states[pos_after+1 ..]`, has
`size - (pos_after - pos_before) + 3 ≤ size` states, and preserves. -/
theorem perturb_splice_ff_far (isGoal : σ → Prop) (st : List σ) (posB posA : Nat)
    (before new after : σ) (hBA : posB + 3 ≤ posA) (h : posA + 1 < st.length)
    (hvB : cm before new = true) (hvA : cm new after = true)
    (hcB : cut (st[posB]'(by omega)) (st[posB + 1]'(by omega)) before)
    (hcA : cut (st[posA]'(by omega)) (st[posA + 1]'h) after) :
    ∃ out, ppSplice st posB false posA false before new after = some out ∧
      out = st.take (posB + 1) ++ [before, new, after] ++ st.drop (posA + 1) ∧
      out.length = st.length - (posA - posB) + 3 ∧ out.length ≤ st.length ∧
      Preserves cm cut isGoal st out := by
  obtain ⟨out, ho, rfl, hP⟩ := perturb_splice_preserves_ff (cm := cm) (cut := cut) isGoal st posB
    posA before new after (by omega) h hvB hvA hcB hcA
  have hlen : (st.take (posB + 1) ++ [before, new, after] ++ st.drop (posA + 1)).length =
      st.length - (posA - posB) + 3 := by
    rw [length_nf _ _ _ _ (by omega)]
    simp only [List.length_cons, List.length_nil]
    omega
  exact ⟨_, ho, rfl, hlen, by omega, hP⟩

/-- the far branch does exactly what the C++ statements say, position by position: the states up to
`pos_before` and from `pos_after + 1` on are the old ones, the three in between are
`before`, `new`, `after` -/
theorem perturb_splice_ff_far_getElem? (st : List σ) (posB posA : Nat) (before new after : σ)
    (hBA : posB + 3 ≤ posA) (h : posA + 1 < st.length) :
    ∃ out, ppSplice st posB false posA false before new after = some out ∧
      (∀ i, i ≤ posB → out[i]? = st[i]?) ∧
      out[posB + 1]? = some before ∧ out[posB + 2]? = some new ∧ out[posB + 3]? = some after ∧
      (∀ j, out[posB + 4 + j]? = st[posA + 1 + j]?) := by
  have hl : (st.take (posB + 1)).length = posB + 1 := length_take_le _ _ (by omega)
  refine ⟨_, ppSplice_ff_far st posB posA before new after hBA h, ?_, ?_, ?_, ?_, ?_⟩
  · intro i hi
    rw [List.append_assoc, List.getElem?_append_left (by omega),
      List.getElem?_take_of_lt (by omega)]
  · rw [List.append_assoc, List.getElem?_append_right (by omega), hl]
    simp
  · rw [List.append_assoc, List.getElem?_append_right (by omega), hl]
    have : posB + 2 - (posB + 1) = 1 := by omega
    simp [this]
  · rw [List.append_assoc, List.getElem?_append_right (by omega), hl]
    have : posB + 3 - (posB + 1) = 2 := by omega
    simp [this]
  · intro j
    rw [List.append_assoc, List.getElem?_append_right (by omega), hl]
    have : posB + 4 + j - (posB + 1) = j + 3 := by omega
    rw [this]
    simp [List.getElem?_drop]

end Splice

/-! ### non-vacuity: every branch theorem applied to a concrete path over `Nat`

States `0..5`; `10`/`11`/`12` = before/new/after.  `checkMotion` accepts exactly the listed ordered
pairs (NOT symmetric), `cut` exactly the listed triples; all hypotheses by `decide`. -/

private def exCm (l : List (Nat × Nat)) : Nat → Nat → Bool := fun a b => l.contains (a, b)
private abbrev exCut (l : List (Nat × Nat × Nat)) : Nat → Nat → Nat → Prop :=
  fun a b s => l.contains (a, b, s) = true

/-- far sub-branch of `ff`: `before ∈ (0,1)`, `after ∈ (4,5)` -/
example : ∃ out, ppSplice [0, 1, 2, 3, 4, 5] 0 false 4 false 10 11 12 = some out ∧
    out = [0, 10, 11, 12, 5] ∧
    Preserves (exCm [(10, 11), (11, 12)]) (exCut [(0, 1, 10), (4, 5, 12)]) (fun _ => False)
      [0, 1, 2, 3, 4, 5] out :=
  perturb_splice_preserves_ff (fun _ => False) [0, 1, 2, 3, 4, 5] 0 4 10 11 12 (by decide) (by decide)
    (by decide) (by decide) (by decide) (by decide)

example : ∃ out, ppSplice [0, 1, 2, 3, 4, 5] 0 false 4 false 10 11 12 = some out ∧
    out = [0, 10, 11, 12, 5] ∧ out.length = 6 - (4 - 0) + 3 ∧ out.length ≤ 6 ∧
    Preserves (exCm [(10, 11), (11, 12)]) (exCut [(0, 1, 10), (4, 5, 12)]) (fun _ => False)
      [0, 1, 2, 3, 4, 5] out :=
  perturb_splice_ff_far (fun _ => False) [0, 1, 2, 3, 4, 5] 0 4 10 11 12 (by decide) (by decide)
    (by decide) (by decide) (by decide) (by decide)

/-- same segment / adjacent / two apart -/
example : ∃ out, ppSplice [0, 1, 2, 3, 4, 5] 1 false 1 false 10 11 12 = some out ∧
    out = [0, 1, 10, 11, 12, 2, 3, 4, 5] ∧ out.length = 6 + 3 ∧
    Preserves (exCm [(10, 11), (11, 12)]) (exCut [(1, 2, 10), (1, 2, 12)]) (fun _ => False)
      [0, 1, 2, 3, 4, 5] out :=
  perturb_splice_ff_same_segment (fun _ => False) [0, 1, 2, 3, 4, 5] 1 10 11 12 (by decide)
    (by decide) (by decide) (by decide) (by decide)

example : ∃ out, ppSplice [0, 1, 2, 3, 4, 5] 1 false 2 false 10 11 12 = some out ∧
    out = [0, 1, 10, 11, 12, 3, 4, 5] ∧ out.length = 6 + 2 ∧
    Preserves (exCm [(10, 11), (11, 12)]) (exCut [(1, 2, 10), (2, 3, 12)]) (fun _ => False)
      [0, 1, 2, 3, 4, 5] out :=
  perturb_splice_ff_adjacent (fun _ => False) [0, 1, 2, 3, 4, 5] 1 10 11 12 (by decide)
    (by decide) (by decide) (by decide) (by decide)

example : ∃ out, ppSplice [0, 1, 2, 3, 4, 5] 1 false 3 false 10 11 12 = some out ∧
    out = [0, 1, 10, 11, 12, 4, 5] ∧ out.length = 6 + 1 ∧
    Preserves (exCm [(10, 11), (11, 12)]) (exCut [(1, 2, 10), (3, 4, 12)]) (fun _ => False)
      [0, 1, 2, 3, 4, 5] out :=
  perturb_splice_ff_two_apart (fun _ => False) [0, 1, 2, 3, 4, 5] 1 10 11 12 (by decide)
    (by decide) (by decide) (by decide) (by decide)

/-- `tt`: snapped to the vertices 0 and 5 -/
example : ∃ out, ppSplice [0, 1, 2, 3, 4, 5] 0 true 5 true 0 11 5 = some out ∧
    out = [0, 11, 5] ∧
    Preserves (exCm [(0, 11), (11, 5)]) (exCut []) (fun _ => False) [0, 1, 2, 3, 4, 5] out :=
  perturb_splice_preserves_tt (fun _ => False) [0, 1, 2, 3, 4, 5] 0 5 0 11 5 (by decide) (by decide)
    (by decide) (by decide)

/-- `ft`: `before ∈ (1,2)`, `after` = vertex 4 -/
example : ∃ out, ppSplice [0, 1, 2, 3, 4, 5] 1 false 4 true 10 11 4 = some out ∧
    out = [0, 1, 10, 11, 4, 5] ∧
    Preserves (exCm [(10, 11), (11, 4)]) (exCut [(1, 2, 10)]) (fun _ => False)
      [0, 1, 2, 3, 4, 5] out :=
  perturb_splice_preserves_ft (fun _ => False) [0, 1, 2, 3, 4, 5] 1 4 10 11 4 (by decide) (by decide)
    (by decide) (by decide) (by decide)

/-- `tf`: `before` = vertex 1, `after ∈ (3,4)` -/
example : ∃ out, ppSplice [0, 1, 2, 3, 4, 5] 1 true 3 false 1 11 12 = some out ∧
    out = [0, 1, 11, 12, 4, 5] ∧
    Preserves (exCm [(1, 11), (11, 12)]) (exCut [(3, 4, 12)]) (fun _ => False)
      [0, 1, 2, 3, 4, 5] out :=
  perturb_splice_preserves_tf (fun _ => False) [0, 1, 2, 3, 4, 5] 1 3 1 11 12 (by decide) (by decide)
    (by decide) (by decide) (by decide)

/-- the raw far-branch evaluation, the statement the C++ comment describes -/
example : ppSplice [0, 1, 2, 3, 4, 5, 6, 7] 1 false 5 false 10 11 12 = some [0, 1, 10, 11, 12, 6, 7] := by
  decide

end OmplModel.PathOps
