import OmplModel.Model.Copy
/-! Shape of `computeSignature` for nested spaces (helper lemmas for `Props/C09.lean`). -/
namespace OmplModel.Copy

mutual
/-- number of nodes `computeStateSpaceSignatureHelper` visits (genuine compounds are descended into) -/
def sigNodes : Sp → Nat
  | .compound _ cs => 1 + sigNodesL cs
  | _ => 1
def sigNodesL : List Sp → Nat
  | [] => 0
  | c :: cs => sigNodes c + sigNodesL cs
end

mutual
theorem sigBody_length : ∀ sp : Sp, (sigBody sp).length = 2 * sigNodes sp
  | .real _ _ => by simp [sigBody, sigNodes]
  | .so2 _ => by simp [sigBody, sigNodes]
  | .so3 _ => by simp [sigBody, sigNodes]
  | .time _ => by simp [sigBody, sigNodes]
  | .discrete _ => by simp [sigBody, sigNodes]
  | .wrapper _ _ => by simp [sigBody, sigNodes]
  | .compound _ cs => by
      have := sigBodyL_length cs
      simp [sigBody, sigNodes, this]; omega
theorem sigBodyL_length : ∀ cs : List Sp, (sigBodyL cs).length = 2 * sigNodesL cs
  | [] => by simp [sigBodyL, sigNodesL]
  | c :: cs => by
      have h1 := sigBody_length c
      have h2 := sigBodyL_length cs
      simp [sigBodyL, sigNodesL, h1, h2]; omega
end

theorem signature_nonwrapper (sp : Sp) (h : ∀ nm s, sp ≠ .wrapper nm s) :
    signature sp = ((sigBody sp).length : Int) :: sigBody sp := by
  cases sp <;> simp [signature] at h ⊢

end OmplModel.Copy
