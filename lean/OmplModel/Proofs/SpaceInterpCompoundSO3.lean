import OmplModel.Proofs.SpaceInterpCompound
import OmplModel.Proofs.SpaceInterpSO3
/-!
C07, all spaces over ℝ including SO(3) components, for exactly-unit quaternions (`unitQuats`):
the inductions of `SpaceInterpCompound.lean` extended by the SO(3) clause.  Only the Klein bottle
stays excluded (`noKlein`).
-/
open scoped OmplModel.SpaceInterp.RealNum
attribute [-instance] OmplModel.Num.instOfNat

namespace OmplModel.SpaceInterp
open OmplModel OmplModel.Space Real RealNum

/-- no Klein bottle anywhere inside -/
def noKlein {α : Type} : Space α → Bool
  | .klein => false
  | .ccons _ h tl => noKlein h && noKlein tl
  | .wrap s => noKlein s
  | _ => true

/-- every SO(3) component of the state is an exactly-unit quaternion -/
def unitQuats : Space ℝ → St ℝ → Prop
  | .so3, .so3 x y z w => x * x + y * y + z * z + w * w = 1
  | .ccons _ h tl, .ccons sh st => unitQuats h sh ∧ unitQuats tl st
  | .wrap s, st => unitQuats s st
  | _, _ => True

/-- t = 0, all spaces but Klein (SO(3): no unit hypothesis needed) -/
theorem interpolate_zero_so3 (sp : Space ℝ) (a b : St ℝ) (hsp : noKlein sp = true)
    (hwa : wellTyped sp a = true) (hwb : wellTyped sp b = true) (hba : inBounds sp a = true) :
    interpolate sp a b 0 = a := by
  induction sp generalizing a b with
  | so3 =>
    obtain ⟨x1, y1, z1, w1, rfl⟩ := wellTyped_so3 hwa
    obtain ⟨x2, y2, z2, w2, rfl⟩ := wellTyped_so3 hwb
    simp only [interpolateW, so3Interp_zero]
  | klein => simp [noKlein] at hsp
  | ccons w h tl ih1 ih2 =>
    obtain ⟨ah, at', rfl, ha1, ha2⟩ := wellTyped_ccons hwa
    obtain ⟨bh, bt, rfl, hb1, hb2⟩ := wellTyped_ccons hwb
    simp only [noKlein, inBounds, Bool.and_eq_true] at hsp hba
    simp only [interpolateW, ih1 ah bh hsp.1 ha1 hb1 hba.1, ih2 at' bt hsp.2 ha2 hb2 hba.2]
  | wrap s ih =>
    simp only [noKlein, wellTyped, inBounds] at hsp hwa hwb hba
    simp only [interpolateW]; exact ih a b hsp hwa hwb hba
  | _ => exact interpolate_zero _ a b (by simp [noSO3Klein]) hwa hwb hba

/-- bounds, all spaces but Klein, for exactly-unit quaternions -/
theorem interpolate_inBounds_so3 (sp : Space ℝ) (a b : St ℝ) (t : ℝ) (hsp : noKlein sp = true)
    (hwa : wellTyped sp a = true) (hwb : wellTyped sp b = true)
    (hba : inBounds sp a = true) (hbb : inBounds sp b = true)
    (hua : unitQuats sp a) (hub : unitQuats sp b) (ht0 : 0 ≤ t) (ht1 : t ≤ 1) :
    inBounds sp (interpolate sp a b t) = true := by
  induction sp generalizing a b with
  | so3 =>
    obtain ⟨x1, y1, z1, w1, rfl⟩ := wellTyped_so3 hwa
    obtain ⟨x2, y2, z2, w2, rfl⟩ := wellTyped_so3 hwb
    simp only [unitQuats] at hua hub
    simp only [interpolateW]; exact so3Interp_inB t hua hub
  | klein => simp [noKlein] at hsp
  | ccons w h tl ih1 ih2 =>
    obtain ⟨ah, at', rfl, ha1, ha2⟩ := wellTyped_ccons hwa
    obtain ⟨bh, bt, rfl, hb1, hb2⟩ := wellTyped_ccons hwb
    simp only [noKlein, inBounds, Bool.and_eq_true, unitQuats] at hsp hba hbb hua hub
    simp only [interpolateW, inBounds, Bool.and_eq_true]
    exact ⟨ih1 ah bh hsp.1 ha1 hb1 hba.1 hbb.1 hua.1 hub.1,
      ih2 at' bt hsp.2 ha2 hb2 hba.2 hbb.2 hua.2 hub.2⟩
  | wrap s ih =>
    simp only [noKlein, wellTyped, inBounds, unitQuats] at hsp hwa hwb hba hbb hua hub
    simp only [interpolateW, inBounds]; exact ih a b hsp hwa hwb hba hbb hua hub
  | _ => exact interpolate_inBounds _ a b t (by simp [noSO3Klein]) hwa hwb hba hbb ht0 ht1

/-- `equalStates` as coded is reflexive on well-typed states with unit quaternions -/
theorem eqStates_refl (sp : Space ℝ) (a : St ℝ) (hwa : wellTyped sp a = true)
    (hua : unitQuats sp a) : eqStates sp a a = true := by
  have hs : ∀ x : ℝ, scalarEq x x = true := fun x => by
    simp [scalarEq]
  have hr : ∀ xs : List ℝ, rvEq xs xs = true := fun xs => by
    induction xs with
    | nil => simp [rvEq]
    | cons x xs ih => simp [rvEq, ih]
  induction sp generalizing a with
  | rv lo hi => obtain ⟨xs, rfl, _, _⟩ := wellTyped_rv hwa; simp only [eqStates, hr]
  | so2 => obtain ⟨x, rfl⟩ := wellTyped_so2 hwa; simp only [eqStates, hs]
  | so3 =>
    obtain ⟨x, y, z, w, rfl⟩ := wellTyped_so3 hwa
    simp only [unitQuats] at hua
    simp only [eqStates, decide_eq_true_eq, (arcLength_self_unit hua).1, dblEps_pos]
  | time bd lo hi => obtain ⟨x, rfl⟩ := wellTyped_time hwa; simp only [eqStates, hs]
  | disc lo hi => obtain ⟨x, rfl⟩ := wellTyped_disc hwa; simp [eqStates]
  | cnil => rw [wellTyped_cnil hwa]; simp only [eqStates]
  | ccons w h tl ih1 ih2 =>
    obtain ⟨ah, at', rfl, ha1, ha2⟩ := wellTyped_ccons hwa
    simp only [unitQuats] at hua
    simp only [eqStates, ih1 ah ha1 hua.1, ih2 at' ha2 hua.2, Bool.and_self]
  | torus R r => obtain ⟨x, y, rfl⟩ := wellTyped_torus hwa; simp only [eqStates, hs, Bool.and_self]
  | mobius i r => obtain ⟨x, y, rfl⟩ := wellTyped_mobius hwa; simp only [eqStates, hs, hr, Bool.and_self]
  | klein => obtain ⟨x, y, rfl⟩ := wellTyped_klein hwa; simp only [eqStates, hs, hr, Bool.and_self]
  | sphere r => obtain ⟨x, y, rfl⟩ := wellTyped_sphere hwa; simp only [eqStates, hs, hr, Bool.and_self]
  | wrap s ih =>
    simp only [wellTyped, unitQuats] at hwa hua
    simp only [eqStates]; exact ih a hwa hua

/-- t = 1 gives a state equal to `to` as coded (`equalStates`; for SO(3) the result is `±to`),
all spaces but Klein, for exactly-unit `to` quaternions -/
theorem interpolate_one_eq (sp : Space ℝ) (a b : St ℝ) (hsp : noKlein sp = true)
    (hwa : wellTyped sp a = true) (hwb : wellTyped sp b = true) (hbb : inBounds sp b = true)
    (hub : unitQuats sp b) : eqStates sp (interpolate sp a b 1) b = true := by
  induction sp generalizing a b with
  | so3 =>
    obtain ⟨x1, y1, z1, w1, rfl⟩ := wellTyped_so3 hwa
    obtain ⟨x2, y2, z2, w2, rfl⟩ := wellTyped_so3 hwb
    simp only [unitQuats] at hub
    simp only [interpolateW]; exact so3Interp_one hub
  | klein => simp [noKlein] at hsp
  | ccons w h tl ih1 ih2 =>
    obtain ⟨ah, at', rfl, ha1, ha2⟩ := wellTyped_ccons hwa
    obtain ⟨bh, bt, rfl, hb1, hb2⟩ := wellTyped_ccons hwb
    simp only [noKlein, inBounds, Bool.and_eq_true, unitQuats] at hsp hbb hub
    simp only [interpolateW, eqStates, Bool.and_eq_true]
    exact ⟨ih1 ah bh hsp.1 ha1 hb1 hbb.1 hub.1, ih2 at' bt hsp.2 ha2 hb2 hbb.2 hub.2⟩
  | wrap s ih =>
    simp only [noKlein, wellTyped, inBounds, unitQuats] at hsp hwa hwb hbb hub
    simp only [interpolateW, eqStates]; exact ih a b hsp hwa hwb hbb hub
  | _ =>
    rw [interpolate_one _ a b (by simp [noSO3Klein]) hwa hwb hbb]
    exact eqStates_refl _ b hwb hub

end OmplModel.SpaceInterp
