import OmplModel.Model.PathOpsShortcutObj
import OmplModel.Proofs.PathOpsShortcutOrd
import OmplModel.Proofs.PathOpsSpliceLen
import OmplModel.Proofs.PathOpsRopeLen
/-
`partialShortcutPath` under an arbitrary objective (`psLoopObj` / `partialShortcutPathObj`, Model/PathOpsShortcutObj.lean).

* `PsCostStepD`: one executed splice — a directed step (`PsCutStepD`: ordered positions, `checkMotion` true for the ordered
  pair) that ALSO passed the routine's own cost test: `psAlongPath O start st … = some along` and
  `O.better along (O.motion s0 s1) = false`.
* `psLoopObj_steps`, `partialShortcutPathObj_steps`: every run (every objective, every draw stream, every `double` oracle, both
  `start` variants) is a sequence of such steps; hence (`.toD`) it preserves first / last / derived motions for every `checkMotion`.
* `psAlongO_add`, `psAlongPath_eq_pathLen`: over an additive cost type the loop's `alongPath` IS `pathLen` of `psAlongList`
  (the list of Proofs/PathOpsSpliceLen.lean), which ties the whole routine to `psSplice_pathLen_le_of_along`.
* `psSplice_cost_le_of_own_test` (second sample inside a segment) and `psSplice_cost_le_of_own_test_snapped` (second sample snapped to
  ANY vertex, the last one included — the case `psSplice_pathLen_le_of_cost` leaves out): one splice of the TREE's variant under an
  additive objective (`0 ≤ cost`, additive cuts, total order) never makes the path costlier, from the model's own `alongPath` and test.
* `PsCostStepD.pathLen_le`, `PsCostStepsD.pathLen_le`: hence every step and every run.
-/
namespace OmplModel.PathOps

variable {σ γ : Type}

inductive PsCostStepD (O : Obj σ γ) (start : AlongStart) (cm : σ → σ → Bool) (cut : σ → σ → σ → Prop) :
    List σ → List σ → Prop
  | mk (st : List σ) (pos0 pos1 : Nat) (idx0 idx1 : Bool) (s0 s1 : σ) (out : List σ) (along : γ)
      (h01 : pos0 < pos1) (hs : psSkip pos0 idx0 pos1 idx1 = false)
      (h0 : PsSample cut st pos0 idx0 s0) (h1 : PsSample cut st pos1 idx1 s1)
      (hcm : cm s0 s1 = true)
      (ha : psAlongPath O start st pos0 idx0 s0 pos1 idx1 s1 = some along)
      (hb : O.better along (O.motion s0 s1) = false)
      (h : psSplice st pos0 idx0 s0 pos1 idx1 s1 = some out) : PsCostStepD O start cm cut st out

inductive PsCostStepsD (O : Obj σ γ) (start : AlongStart) (cm : σ → σ → Bool) (cut : σ → σ → σ → Prop) :
    List σ → List σ → Prop
  | refl (st : List σ) : PsCostStepsD O start cm cut st st
  | head {st mid out : List σ} : PsCostStepD O start cm cut st mid → PsCostStepsD O start cm cut mid out →
      PsCostStepsD O start cm cut st out

theorem PsCostStepD.toD {O : Obj σ γ} {start : AlongStart} {cm : σ → σ → Bool} {cut : σ → σ → σ → Prop}
    {st out : List σ} (h : PsCostStepD O start cm cut st out) : PsCutStepD cm cut st out := by
  cases h with
  | mk pos0 pos1 idx0 idx1 s0 s1 _ along h01 hs h0 h1 hcm ha hb h =>
    exact .mk st pos0 pos1 idx0 idx1 s0 s1 out h01 hs h0 h1 hcm h

theorem PsCostStepsD.toD {O : Obj σ γ} {start : AlongStart} {cm : σ → σ → Bool} {cut : σ → σ → σ → Prop}
    {st out : List σ} (h : PsCostStepsD O start cm cut st out) : PsCutStepsD cm cut st out := by
  induction h with
  | refl => exact .refl _
  | head s _ ih => exact .head s.toD ih

/-- the sampled point of the objective-generic model is a `PsSample` (same expression as in `psLoopOrd`) -/
theorem psPoint_sample (E : PsEnvO σ γ) {cut : σ → σ → σ → Prop} (hcut : ∀ a b t, cut a b (E.interp a b t))
    (st : List σ) (ds : Array Float) (pos : Nat) (idx : Bool) (d : Float) (s : σ)
    (h : psPoint E st ds pos idx d = some s) : PsSample cut st pos idx s :=
  psPt_sample { cm := E.cm, dist := E.dist, interp := E.interp } hcut st ds pos idx d s h

/-- every run of the loop, under every objective and both `start` variants, is a sequence of validated splice steps that
passed the routine's own cost test (no law about `double`, none about the objective) -/
theorem psLoopObj_steps (E : PsEnvO σ γ) (start : AlongStart) {cut : σ → σ → σ → Prop}
    (hcut : ∀ a b t, cut a b (E.interp a b t)) (u : Nat → Float) (rr snap : Float) (maxEmpty : Nat) :
    ∀ (fuel i nochange : Nat) (st : List σ) (res : Bool) (out : List σ) (r : Bool),
      psLoopObj E start u rr snap maxEmpty fuel i nochange st res = some (out, r) →
      PsCostStepsD E.O start E.cm cut st out := by
  intro fuel
  induction fuel with
  | zero =>
    intro i nochange st res out r h
    simp only [psLoopObj, Option.some.injEq, Prod.mk.injEq] at h
    obtain ⟨rfl, _⟩ := h
    exact .refl _
  | succ fuel ih =>
    intro i nochange st res out r h
    simp only [psLoopObj] at h
    generalize (cumDistsFrom E.dist 0.0 st).toArray = ds at h
    generalize ds[ds.size - 1]! = back at h
    generalize (back - 0.0) * u (2 * i) + 0.0 = distTo0 at h
    generalize psSelectG true ds distTo0 (back * snap) = p0 at h
    generalize _ * u (2 * i + 1) + _ = distTo1 at h
    generalize psSelectG true ds distTo1 (back * snap) = p1 at h
    obtain ⟨pos0, idx0⟩ := p0
    obtain ⟨pos1, idx1⟩ := p1
    simp only at h
    split at h
    · split at h
      · exact ih _ _ _ _ _ _ h
      · next hs =>
        split at h
        · next s0 s1 hp0 hp1 =>
          have hS0 := psPoint_sample E hcut st ds pos0 idx0 distTo0 s0 hp0
          have hS1 := psPoint_sample E hcut st ds pos1 idx1 distTo1 s1 hp1
          generalize ho : (if pos0 > pos1 then (pos1, idx1, s1, pos0, idx0, s0)
            else (pos0, idx0, s0, pos1, idx1, s1)) = o at h
          obtain ⟨q0, j0, t0, q1, j1, t1⟩ := o
          simp only at h
          split at h
          · next hcm =>
            have hstep : ∀ st' along, psAlongPath E.O start st q0 j0 t0 q1 j1 t1 = some along →
                E.O.better along (E.O.motion t0 t1) = false →
                psSplice st q0 j0 t0 q1 j1 t1 = some st' →
                PsCostStepD E.O start E.cm cut st st' := by
              intro st' along hal hbt hsp
              have hs' : psSkip pos0 idx0 pos1 idx1 = false := by simpa using hs
              have hne : pos0 ≠ pos1 := by intro e; simp [psSkip, e] at hs'
              by_cases hgt : pos0 > pos1
              · rw [if_pos hgt] at ho
                simp only [Prod.mk.injEq] at ho
                obtain ⟨rfl, rfl, rfl, rfl, rfl, rfl⟩ := ho
                exact .mk st _ _ _ _ _ _ st' along hgt (by rw [psSkip_comm]; exact hs') hS1 hS0 hcm hal hbt hsp
              · rw [if_neg hgt] at ho
                simp only [Prod.mk.injEq] at ho
                obtain ⟨rfl, rfl, rfl, rfl, rfl, rfl⟩ := ho
                exact .mk st _ _ _ _ _ _ st' along (by omega) hs' hS0 hS1 hcm hal hbt hsp
            split at h
            · next along hal =>
              split at h
              · exact ih _ _ _ _ _ _ h
              · next hbt =>
                split at h
                · next st' hsp =>
                  exact .head (hstep st' along hal (by simpa using hbt) hsp) (ih _ _ _ _ _ _ h)
                · cases h
            · cases h
          · exact ih _ _ _ _ _ _ h
        · cases h
    · simp only [Option.some.injEq, Prod.mk.injEq] at h
      obtain ⟨rfl, _⟩ := h
      exact .refl _

theorem partialShortcutPathObj_steps {E : PsEnvO σ γ} {start : AlongStart} {cut : σ → σ → σ → Prop}
    (hcut : ∀ a b t, cut a b (E.interp a b t)) {u : Nat → Float} {ms me : Nat}
    {rr snap : Float} {path out : List σ} {r : Bool}
    (h : partialShortcutPathObj E start u ms me rr snap path = some (out, r)) :
    PsCostStepsD E.O start E.cm cut path out := by
  unfold partialShortcutPathObj at h
  split at h
  · simp only [Option.some.injEq, Prod.mk.injEq] at h
    obtain ⟨rfl, _⟩ := h
    exact .refl _
  · exact psLoopObj_steps E start hcut _ _ _ _ _ _ _ _ _ _ _ h

/-! ## additive objectives: the loop's `alongPath` is `pathLen` of `psAlongList` -/

section Add
variable {κ : Type} [AddCommMonoid κ] [LinearOrder κ] [IsOrderedAddMonoid κ]

/-- an additive objective: `combineCosts = +`, `identityCost = 0`, `isCostBetterThan = <`, motion cost `d` -/
def addObj (d : σ → σ → κ) : Obj σ κ :=
  { identity := 0, combine := fun a b => a + b, motion := d, better := fun a b => decide (a < b) }

theorem pathLen_take_one (d : σ → σ → κ) (l : List σ) : pathLen d (l.take 1) = 0 := by
  cases l with
  | nil => rfl
  | cons x r => simp [pathLen]

theorem psAlongO_add (d : σ → σ → κ) (st : List σ) :
    ∀ (k p : Nat) (acc v : κ), psAlongO (addObj d) st.toArray acc p k = some v →
      v = acc + pathLen d ((st.drop p).take (k + 1)) := by
  intro k
  induction k with
  | zero =>
    intro p acc v h
    simp only [psAlongO, Option.some.injEq] at h
    rw [pathLen_take_one, add_zero, h]
  | succ k ih =>
    intro p acc v h
    simp only [psAlongO, List.getElem?_toArray] at h
    split at h
    · next a b ha hb =>
      obtain ⟨hpa, rfl⟩ := List.getElem?_eq_some_iff.mp ha
      obtain ⟨hpb, rfl⟩ := List.getElem?_eq_some_iff.mp hb
      have := ih (p + 1) _ v h
      rw [this, List.drop_eq_getElem_cons hpa, List.drop_eq_getElem_cons hpb]
      simp only [List.take_succ_cons, pathLen, addObj, add_assoc]
    · cases h

theorem pathLen_cons_of_head (d : σ → σ → κ) (s h : σ) (M : List σ) (hM : M.head? = some h) :
    pathLen d (s :: M) = d s h + pathLen d M := by
  cases M with
  | nil => simp at hM
  | cons x r =>
    simp only [List.head?_cons, Option.some.injEq] at hM
    subst hM
    rfl

theorem pathLen_append_singleton (d : σ → σ → κ) (M : List σ) (l s : σ) (hM : M.getLast? = some l) :
    pathLen d (M ++ [s]) = pathLen d M + d l s := by
  obtain ⟨Z, rfl⟩ := List.getLast?_eq_some_iff.mp hM
  rw [List.append_assoc, List.singleton_append, pathLen_append_cons d Z l [s]]
  simp [pathLen]

/-- **the `alongPath` the tree's loop accumulates is the cost of `psAlongList`** (additive objective; `pos0 < pos1 < size`) -/
theorem psAlongPath_eq_pathLen (d : σ → σ → κ) (st : List σ) (pos0 pos1 : Nat) (idx0 idx1 : Bool) (s0 s1 : σ)
    (h01 : pos0 < pos1) (hp1 : pos1 < st.length) (along : κ)
    (h : psAlongPath (addObj d) .afterPos0 st pos0 idx0 s0 pos1 idx1 s1 = some along) :
    along = pathLen d (psAlongList st pos0 idx0 s0 pos1 idx1 s1) := by
  have e0 : st[pos0 + 1]? = some (st[pos0 + 1]'(by omega)) := List.getElem?_eq_getElem (by omega)
  have e1 : st[pos1]? = some (st[pos1]'hp1) := List.getElem?_eq_getElem hp1
  have hM : (st.drop (pos0 + 1)).take (pos1 - (pos0 + 1) + 1) = (st.take (pos1 + 1)).drop (pos0 + 1) := by
    rw [List.drop_take]
    congr 1
    omega
  have hne : (st.take (pos1 + 1)).drop (pos0 + 1) ≠ [] := by
    intro e
    have := congrArg List.length e
    simp only [List.length_drop, List.length_take, List.length_nil] at this
    omega
  have hhead : ((st.take (pos1 + 1)).drop (pos0 + 1)).head? = some (st[pos0 + 1]'(by omega)) := by
    rw [List.head?_drop, List.getElem?_take_of_lt (by omega), e0]
  have hlast : ((st.take (pos1 + 1)).drop (pos0 + 1)).getLast? = some (st[pos1]'hp1) := by
    rw [List.getLast?_drop, if_neg (by simp only [List.length_take]; omega), List.getLast?_take,
      if_neg (by omega)]
    simp [e1]
  unfold psAlongPath at h
  simp only [e0, e1, Option.map_some] at h
  cases idx0 <;> cases idx1 <;>
    simp only [Bool.false_eq_true, if_false, if_true, Option.map_eq_some_iff] at h <;>
    obtain ⟨v, hv, rfl⟩ := h <;>
    have hv' := psAlongO_add d st _ _ _ _ hv <;>
    rw [hM] at hv' <;>
    subst hv' <;>
    simp only [psAlongList, Bool.false_eq_true, if_false, if_true, List.nil_append, List.append_nil,
      List.singleton_append, addObj]
  · rw [pathLen_cons_of_head d s0 _ _ (by rw [List.head?_append, hhead]; rfl),
      pathLen_append_singleton d _ _ s1 hlast]
    exact (add_assoc _ _ _)
  · rw [pathLen_cons_of_head d s0 _ _ hhead, add_zero]
  · rw [pathLen_append_singleton d _ _ s1 hlast, zero_add]
  · rw [zero_add, add_zero]

/-- **one splice of the tree's routine under an additive objective never makes the path costlier**: non-negative motion costs,
cost-additive cut points, and the routine's OWN test as the model evaluates it (`psAlongPath … = some along`,
`better along (motionCost s0 s1) = false`).  The second sample is not snapped to the last vertex (`pos1 + 1 < size`), as in
`psSplice_pathLen_le_of_along`. -/
theorem psSplice_cost_le_of_own_test (d : σ → σ → κ) (hnn : ∀ a b, 0 ≤ d a b)
    (st : List σ) (pos0 pos1 : Nat) (idx0 idx1 : Bool) (s0 s1 : σ)
    (h01 : pos0 < pos1) (h1 : pos1 + 1 < st.length) (hs : psSkip pos0 idx0 pos1 idx1 = false)
    (hc0 : idx0 = false → d (st[pos0]'(by omega)) s0 + d s0 (st[pos0 + 1]'(by omega)) =
      d (st[pos0]'(by omega)) (st[pos0 + 1]'(by omega)))
    (hc1 : idx1 = false → d (st[pos1]'(by omega)) s1 + d s1 (st[pos1 + 1]'h1) =
      d (st[pos1]'(by omega)) (st[pos1 + 1]'h1))
    (hv0 : idx0 = true → s0 = st[pos0]'(by omega)) (hv1 : idx1 = true → s1 = st[pos1]'(by omega))
    (along : κ) (ha : psAlongPath (addObj d) .afterPos0 st pos0 idx0 s0 pos1 idx1 s1 = some along)
    (hb : (addObj d).better along ((addObj d).motion s0 s1) = false)
    {out : List σ} (h : psSplice st pos0 idx0 s0 pos1 idx1 s1 = some out) :
    pathLen d out ≤ pathLen d st := by
  have hal := psAlongPath_eq_pathLen d st pos0 pos1 idx0 idx1 s0 s1 h01 (by omega) along ha
  have hle : d s0 s1 ≤ along := by
    simp only [addObj, decide_eq_false_iff_not, not_lt] at hb
    exact hb
  refine psSplice_pathLen_le_of_along d hnn st pos0 pos1 idx0 idx1 s0 s1 h01 h1 hs hc0 hc1 ?_ h
  rw [← hal]
  have e0 : (if idx0 = true then st[pos0]'(by omega) else s0) = s0 := by
    cases idx0 with
    | false => rfl
    | true => exact (hv0 rfl).symm
  have e1 : (if idx1 = true then st[pos1]'(by omega) else s1) = s1 := by
    cases idx1 with
    | false => rfl
    | true => exact (hv1 rfl).symm
  rw [e0, e1]
  exact hle

/-- the second sample SNAPPED (any vertex `pos1 < size`, in particular the LAST one): one splice of the tree's routine under an
additive objective never makes the path costlier -/
theorem psSplice_cost_le_of_own_test_snapped (d : σ → σ → κ) (hnn : ∀ a b, 0 ≤ d a b)
    (st : List σ) (pos0 pos1 : Nat) (idx0 : Bool) (s0 s1 : σ)
    (h01 : pos0 < pos1) (hp1 : pos1 < st.length) (hs : psSkip pos0 idx0 pos1 true = false)
    (hc0 : idx0 = false → d (st[pos0]'(by omega)) s0 + d s0 (st[pos0 + 1]'(by omega)) =
      d (st[pos0]'(by omega)) (st[pos0 + 1]'(by omega)))
    (hv0 : idx0 = true → s0 = st[pos0]'(by omega)) (hv1 : s1 = st[pos1]'hp1)
    (along : κ) (ha : psAlongPath (addObj d) .afterPos0 st pos0 idx0 s0 pos1 true s1 = some along)
    (hb : (addObj d).better along ((addObj d).motion s0 s1) = false)
    {out : List σ} (h : psSplice st pos0 idx0 s0 pos1 true s1 = some out) :
    pathLen d out ≤ pathLen d st := by
  have hal := psAlongPath_eq_pathLen d st pos0 pos1 idx0 true s0 s1 h01 hp1 along ha
  have hle : d s0 s1 ≤ along := by
    simp only [addObj, decide_eq_false_iff_not, not_lt] at hb
    exact hb
  -- decompositions
  have hT : st.take (pos0 + 1) = st.take pos0 ++ [st[pos0]'(by omega)] :=
    List.take_succ_eq_append_getElem (by omega)
  have hD : st.drop pos1 = st[pos1]'hp1 :: st.drop (pos1 + 1) := List.drop_eq_getElem_cons hp1
  have hst : st = st.take (pos0 + 1) ++ ((st.take pos1).drop (pos0 + 1) ++ st.drop pos1) := by
    rw [← List.append_assoc, take_append_mid st (pos0 + 1) pos1 (by omega), List.take_append_drop]
  have hsnap : (st.take pos1).drop (pos0 + 1) ++ [st[pos1]'hp1] = (st.take (pos1 + 1)).drop (pos0 + 1) := by
    rw [List.take_succ_eq_append_getElem hp1,
      List.drop_append_of_le_length (by rw [List.length_take]; omega)]
  generalize hMid : (st.take pos1).drop (pos0 + 1) = Mid at hst hsnap
  generalize ha' : st[pos0]'(by omega) = a at hT hc0 hv0
  generalize hb' : st[pos1]'hp1 = b at hD hsnap hv1
  subst hv1
  -- both paths split at `a` and at `b`
  have key : ∀ X : List σ, pathLen d (a :: (X ++ [s1])) ≤ pathLen d (a :: (Mid ++ [s1])) →
      pathLen d (st.take (pos0 + 1) ++ X ++ st.drop pos1) ≤ pathLen d st := by
    intro X hX
    conv_rhs => rw [hst]
    rw [hT, hD]
    simp only [List.append_assoc, List.cons_append, List.nil_append]
    rw [pathLen_append_cons d (st.take pos0) a (X ++ s1 :: st.drop (pos1 + 1)),
      pathLen_append_cons d (st.take pos0) a (Mid ++ s1 :: st.drop (pos1 + 1)),
      pathLen_cons_append d X a s1, pathLen_cons_append d Mid a s1]
    exact add_le_add (le_refl _) (add_le_add hX (le_refl _))
  cases idx0 with
  | true =>
    have e0 := hv0 rfl
    subst e0
    rw [psSplice_tt st pos0 pos1 _ _ (by omega) (by omega)] at h
    obtain rfl := Option.some.inj h
    have := key [] (by
      simp only [List.nil_append]
      have h1 : pathLen d [s0, s1] = d s0 s1 := by simp [pathLen]
      rw [h1]
      refine le_trans hle ?_
      rw [hal]
      simp only [psAlongList, if_true, List.nil_append, List.append_nil, ← hsnap]
      exact pathLen_le_cons d hnn _ _)
    simpa using this
  | false =>
    have h02 : pos0 + 2 ≤ pos1 := by simp [psSkip] at hs; omega
    rw [psSplice_ft st pos0 pos1 _ _ h02 (by omega)] at h
    obtain rfl := Option.some.inj h
    refine key [s0] ?_
    -- Mid is non-empty, its head is st[pos0+1]
    have hm : Mid.head? = some (st[pos0 + 1]'(by omega)) := by
      rw [← hMid, List.head?_drop, List.getElem?_take_of_lt (by omega)]
      exact List.getElem?_eq_getElem (by omega)
    cases Mid with
    | nil => simp at hm
    | cons m Mid' =>
      simp only [List.head?_cons, Option.some.injEq] at hm
      have hc := hc0 rfl
      rw [← hm] at hc
      rw [hal] at hle
      simp only [psAlongList, Bool.false_eq_true, if_false, if_true, List.append_nil, ← hsnap,
        List.cons_append, pathLen] at hle ⊢
      rw [← hc, add_assoc]
      exact add_le_add (le_refl _) (by simpa [pathLen] using hle)

/-- one executed splice of the tree's whole routine (either kind of second sample) never makes the path costlier -/
theorem PsCostStepD.pathLen_le {d : σ → σ → κ} {cm : σ → σ → Bool} (hnn : ∀ a b, 0 ≤ d a b) {st out : List σ}
    (h : PsCostStepD (addObj d) .afterPos0 cm (fun a b s => d a s + d s b = d a b) st out) :
    pathLen d out ≤ pathLen d st := by
  cases h with
  | mk pos0 pos1 idx0 idx1 s0 s1 _ along h01 hs h0 h1 hcm ha hb h =>
    obtain ⟨hp0, hv0, hc0⟩ := h0
    obtain ⟨hp1, hv1, hc1⟩ := h1
    cases idx1 with
    | false =>
      obtain ⟨hq1, hc1'⟩ := hc1 rfl
      exact psSplice_cost_le_of_own_test d hnn st pos0 pos1 idx0 false s0 s1 h01 hq1 hs (fun hi => (hc0 hi).2)
        (fun _ => hc1') hv0 (fun h => Bool.noConfusion h) along ha hb h
    | true =>
      exact psSplice_cost_le_of_own_test_snapped d hnn st pos0 pos1 idx0 s0 s1 h01 hp1 hs (fun hi => (hc0 hi).2)
        hv0 (hv1 rfl) along ha hb h

theorem PsCostStepsD.pathLen_le {d : σ → σ → κ} {cm : σ → σ → Bool} (hnn : ∀ a b, 0 ≤ d a b) {st out : List σ}
    (h : PsCostStepsD (addObj d) .afterPos0 cm (fun a b s => d a s + d s b = d a b) st out) :
    pathLen d out ≤ pathLen d st := by
  induction h with
  | refl => exact le_refl _
  | head s _ ih => exact le_trans ih (s.pathLen_le hnn)

end Add

/-! ## metric setting: triangle inequality instead of the cost test (drops `pos1 + 1 < size` from the round-1 family) -/

section Tri
variable {κ : Type} [AddCommMonoid κ] [PartialOrder κ] [IsOrderedAddMonoid κ]

/-- second sample SNAPPED to any vertex `pos1 < size` (the LAST one included): the splice does not lengthen the path if the chord
`s0 → s1` is not longer than the chain `s0, states[pos0+1 .. pos1-1], s1` it replaces -/
theorem psSplice_pathLen_le_snapped_of_chord (d : σ → σ → κ)
    (st : List σ) (pos0 pos1 : Nat) (idx0 : Bool) (s0 s1 : σ)
    (h01 : pos0 < pos1) (hp1 : pos1 < st.length) (hs : psSkip pos0 idx0 pos1 true = false)
    (hc0 : idx0 = false → d (st[pos0]'(by omega)) s0 + d s0 (st[pos0 + 1]'(by omega)) =
      d (st[pos0]'(by omega)) (st[pos0 + 1]'(by omega)))
    (hv0 : idx0 = true → s0 = st[pos0]'(by omega)) (hv1 : s1 = st[pos1]'hp1)
    (hch : d s0 s1 ≤ pathLen d (s0 :: ((st.take pos1).drop (pos0 + 1) ++ [s1])))
    {out : List σ} (h : psSplice st pos0 idx0 s0 pos1 true s1 = some out) :
    pathLen d out ≤ pathLen d st := by
  have hT : st.take (pos0 + 1) = st.take pos0 ++ [st[pos0]'(by omega)] :=
    List.take_succ_eq_append_getElem (by omega)
  have hD : st.drop pos1 = st[pos1]'hp1 :: st.drop (pos1 + 1) := List.drop_eq_getElem_cons hp1
  have hst : st = st.take (pos0 + 1) ++ ((st.take pos1).drop (pos0 + 1) ++ st.drop pos1) := by
    rw [← List.append_assoc, take_append_mid st (pos0 + 1) pos1 (by omega), List.take_append_drop]
  have hm : pos0 + 1 < pos1 → ((st.take pos1).drop (pos0 + 1)).head? = some (st[pos0 + 1]'(by omega)) := by
    intro hlt
    rw [List.head?_drop, List.getElem?_take_of_lt hlt]
    exact List.getElem?_eq_getElem (by omega)
  generalize hMid : (st.take pos1).drop (pos0 + 1) = Mid at hst hch hm
  generalize ha' : st[pos0]'(by omega) = a at hT hc0 hv0
  generalize hb' : st[pos1]'hp1 = b at hD hv1
  subst hv1
  have key : ∀ X : List σ, pathLen d (a :: (X ++ [s1])) ≤ pathLen d (a :: (Mid ++ [s1])) →
      pathLen d (st.take (pos0 + 1) ++ X ++ st.drop pos1) ≤ pathLen d st := by
    intro X hX
    conv_rhs => rw [hst]
    rw [hT, hD]
    simp only [List.append_assoc, List.cons_append, List.nil_append]
    rw [pathLen_append_cons d (st.take pos0) a (X ++ s1 :: st.drop (pos1 + 1)),
      pathLen_append_cons d (st.take pos0) a (Mid ++ s1 :: st.drop (pos1 + 1)),
      pathLen_cons_append d X a s1, pathLen_cons_append d Mid a s1]
    exact add_le_add (le_refl _) (add_le_add hX (le_refl _))
  cases idx0 with
  | true =>
    have e0 := hv0 rfl
    subst e0
    rw [psSplice_tt st pos0 pos1 _ _ (by omega) (by omega)] at h
    obtain rfl := Option.some.inj h
    have := key [] (by
      simp only [List.nil_append]
      have h1 : pathLen d [s0, s1] = d s0 s1 := by simp [pathLen]
      rw [h1]
      exact hch)
    simpa using this
  | false =>
    have h02 : pos0 + 2 ≤ pos1 := by simp [psSkip] at hs; omega
    rw [psSplice_ft st pos0 pos1 _ _ h02 (by omega)] at h
    obtain rfl := Option.some.inj h
    refine key [s0] ?_
    have hm := hm (by omega)
    cases Mid with
    | nil => simp at hm
    | cons m Mid' =>
      simp only [List.head?_cons, Option.some.injEq] at hm
      have hc := hc0 rfl
      rw [← hm] at hc
      simp only [List.cons_append, List.nil_append, pathLen] at hch ⊢
      rw [← hc, add_assoc]
      exact add_le_add (le_refl _) (by simpa [pathLen] using hch)

/-- one executed splice of the whole routine in a METRIC setting (triangle inequality, interpolated states on geodesics): never
longer — second sample inside a segment or snapped to any vertex, the last one included -/
theorem PsCutStepD.pathLen_le_tri {d : σ → σ → κ} {cm : σ → σ → Bool} (tri : ∀ a b c, d a c ≤ d a b + d b c)
    {st out : List σ} (h : PsCutStepD cm (fun a b s => d a s + d s b = d a b) st out) :
    pathLen d out ≤ pathLen d st := by
  cases h with
  | mk pos0 pos1 idx0 idx1 s0 s1 _ h01 hs h0 h1 hcm h =>
    obtain ⟨hp0, hv0, hc0⟩ := h0
    obtain ⟨hp1, hv1, hc1⟩ := h1
    cases idx1 with
    | false =>
      obtain ⟨hq1, hc1'⟩ := hc1 rfl
      exact psSplice_pathLen_le d tri st pos0 pos1 idx0 false s0 s1 h01 hq1 hs (fun hi => (hc0 hi).2)
        (fun _ => hc1') h
    | true =>
      exact psSplice_pathLen_le_snapped_of_chord d st pos0 pos1 idx0 s0 s1 h01 hp1 hs (fun hi => (hc0 hi).2)
        hv0 (hv1 rfl) (dist_le_pathLen d tri _ s0 s1) h

theorem PsCutStepsD.pathLen_le_tri {d : σ → σ → κ} {cm : σ → σ → Bool} (tri : ∀ a b c, d a c ≤ d a b + d b c)
    {st out : List σ} (h : PsCutStepsD cm (fun a b s => d a s + d s b = d a b) st out) :
    pathLen d out ≤ pathLen d st := by
  induction h with
  | refl => exact le_refl _
  | head s _ ih => exact le_trans ih (s.pathLen_le_tri tri)

end Tri
end OmplModel.PathOps
