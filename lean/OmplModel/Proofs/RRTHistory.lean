import OmplModel.Model.RRTHistory
import OmplModel.Proofs.RRT
/-!
Invariant proofs for histories of one RRT object (round 10 of C01).  Arithmetic-free.

The single-call proofs of `Proofs/RRT.lean` start from `initTree`; here the same steps are redone for an arbitrary
tree that satisfies the invariant, with the edge justification `R` and the root predicate `V` as parameters, because
between two calls the intermediate-state flag may change (an edge added as a `getMotionStates` piece stays in the tree
after the flag is switched off) and the start set may grow.
-/
namespace OmplModel.RRT
open OmplModel.PlannerReport

variable {S D : Type}

/-- `Link` without the condition on the *current* value of `addIntermediateStates_` -/
def LinkAny (cfg : Cfg S D) (x y : S) : Prop :=
  cfg.checkMotion x y = true ∨
    ∃ a b, cfg.checkMotion a b = true ∧ ∃ l1 l2, a :: motionStates cfg a b = l1 ++ x :: y :: l2

theorem link_any (cfg : Cfg S D) (p : Params D) (x y : S) (h : Link (cfg.withParams p) x y) : LinkAny cfg x y := by
  rcases h with h | ⟨_, a, b, h1, l1, l2, h2⟩
  · exact Or.inl h
  · exact Or.inr ⟨a, b, h1, l1, l2, h2⟩

/-- the tree invariant with the root predicate and the edge justification as parameters -/
def TreeInvG (V : S → Prop) (R : S → S → Prop) (tree : Array (Node S)) : Prop :=
  ∀ (i : Nat) (nd : Node S), tree[i]? = some nd →
    match nd.parent with
    | none => V nd.state
    | some p => p < i ∧ ∃ np, tree[p]? = some np ∧ R np.state nd.state

theorem treeInvG_mono (V V' : S → Prop) (R R' : S → S → Prop) (hV : ∀ s, V s → V' s) (hR : ∀ x y, R x y → R' x y)
    (tree : Array (Node S)) (h : TreeInvG V R tree) : TreeInvG V' R' tree := by
  intro i nd hi
  have := h i nd hi
  split
  · next hp => simp only [hp] at this; exact hV _ this
  · next q hp =>
    simp only [hp] at this
    obtain ⟨h1, np, h2, h3⟩ := this
    exact ⟨h1, np, h2, hR _ _ h3⟩

theorem treeInv_G (cfg : Cfg S D) (starts : Array S) (tree : Array (Node S)) :
    TreeInv cfg starts tree ↔ TreeInvG (ValidStart cfg starts) (Link cfg) tree := Iff.rfl

theorem addChain_specG (V : S → Prop) (R : S → S → Prop) (l : List S) :
    ∀ (tree : Array (Node S)) (p : Nat) (np : Node S), tree[p]? = some np → TreeInvG V R tree →
      Chain R (np.state :: l) →
      TreeInvG V R (addChain tree p l).1 ∧
        (∀ (i : Nat) (nd : Node S), tree[i]? = some nd → (addChain tree p l).1[i]? = some nd) ∧
        ∃ nl, (addChain tree p l).1[(addChain tree p l).2]? = some nl ∧
          some nl.state = (np.state :: l).getLast? := by
  induction l with
  | nil =>
    intro tree p np hp hinv _
    exact ⟨hinv, fun _ _ h => h, np, hp, by simp⟩
  | cons s r ih =>
    intro tree p np hp hinv hch
    obtain ⟨hlink, hch'⟩ := hch
    have hpl : p < tree.size := (Array.getElem?_eq_some_iff.1 hp).1
    have hkeep : ∀ (i : Nat) (nd : Node S), tree[i]? = some nd → (tree.push ⟨s, some p⟩)[i]? = some nd := by
      intro i nd h
      have hi : i < tree.size := (Array.getElem?_eq_some_iff.1 h).1
      rw [Array.getElem?_push]
      rw [if_neg (by omega)]
      exact h
    have hnew : (tree.push ⟨s, some p⟩)[tree.size]? = some ⟨s, some p⟩ := by
      rw [Array.getElem?_push]; simp
    have hinv' : TreeInvG V R (tree.push ⟨s, some p⟩) := by
      intro i nd h
      rw [Array.getElem?_push] at h
      split at h
      · next hi =>
        simp only [Option.some.injEq] at h
        subst h
        subst hi
        exact ⟨hpl, np, hkeep p np hp, hlink⟩
      · have := hinv i nd h
        split
        · next hpar => simpa [hpar] using this
        · next q hpar =>
          simp only [hpar] at this
          obtain ⟨h1, nq, h2, h3⟩ := this
          exact ⟨h1, nq, hkeep q nq h2, h3⟩
    obtain ⟨i1, i2, nl, i3, i4⟩ := ih (tree.push ⟨s, some p⟩) tree.size ⟨s, some p⟩ hnew hinv' hch'
    refine ⟨i1, fun i nd h => i2 i nd (hkeep i nd h), nl, i3, ?_⟩
    rw [i4]
    simp [List.getLast?_cons_cons]

structure StInvG (cfg : Cfg S D) (V : S → Prop) (R : S → S → Prop) (st : St S D) : Prop where
  tree : TreeInvG V R st.tree
  sol : ∀ i, st.solution = some i → ∃ nd, st.tree[i]? = some nd ∧
    cfg.lt (cfg.goalDist nd.state) cfg.threshold = true ∧ st.approxdif = cfg.goalDist nd.state
  approx : st.solution = none → ∀ i, st.approxsol = some i → ∃ nd, st.tree[i]? = some nd ∧
    cfg.lt (cfg.goalDist nd.state) cfg.threshold = false ∧ st.approxdif = cfg.goalDist nd.state

theorem step_invG (cfg : Cfg S D) (V : S → Prop) (R : S → S → Prop) (hR : ∀ x y, Link cfg x y → R x y)
    (st : St S D) (dr : Draw S) (h : StInvG cfg V R st) : StInvG cfg V R (step cfg st dr) := by
  unfold step
  simp only
  split
  · exact h
  · next nm hnm =>
    generalize hds : (if cfg.lt cfg.maxDistance (cfg.dist nm.state dr.state) = true then
      cfg.interp nm.state dr.state (cfg.div cfg.maxDistance (cfg.dist nm.state dr.state)) else dr.state) = dstate
    split
    · next hcm =>
      generalize hl : (if cfg.addIntermediate = true then motionStates cfg nm.state dstate else [dstate]) = l
      have hch : Chain R (nm.state :: l) := by
        apply chain_mono _ _ hR
        subst hl
        split
        · next hi => exact motionStates_chain cfg _ _ hi hcm
        · exact ⟨Or.inl hcm, trivial⟩
      obtain ⟨a1, a2, nl, a3, a4⟩ := addChain_specG V R l st.tree _ nm hnm h.tree hch
      rw [a3]
      simp only
      split
      · next hsat =>
        exact ⟨a1, fun i hi => by
          simp only [Option.some.injEq] at hi; subst hi; exact ⟨nl, a3, hsat, rfl⟩,
          fun hn => by simp at hn⟩
      · next hsat =>
        split
        · exact ⟨a1, fun i hi => by simp at hi, fun _ i hi => by
            simp only [Option.some.injEq] at hi; subst hi
            exact ⟨nl, a3, by simpa using hsat, rfl⟩⟩
        · refine ⟨a1, ?_, ?_⟩
          · intro i hi
            obtain ⟨nd, h1, h2, h3⟩ := h.sol i hi
            exact ⟨nd, a2 i nd h1, h2, h3⟩
          · intro hn i hi
            obtain ⟨nd, h1, h2, h3⟩ := h.approx hn i hi
            exact ⟨nd, a2 i nd h1, h2, h3⟩
    · exact h

theorem loop_invG (cfg : Cfg S D) (V : S → Prop) (R : S → S → Prop) (hR : ∀ x y, Link cfg x y → R x y)
    (script : List (Draw S)) :
    ∀ st : St S D, StInvG cfg V R st → StInvG cfg V R (loop cfg st script).1 := by
  induction script with
  | nil => intro st h; exact h
  | cons dr rest ih =>
    intro st h
    simp only [loop]
    split
    · exact step_invG cfg V R hR st dr h
    · exact ih _ (step_invG cfg V R hR st dr h)

/-- walking the parents from a tree node yields a path from a root along justified edges -/
theorem pathTo_specG (V : S → Prop) (R : S → S → Prop) (tree : Array (Node S)) (hinv : TreeInvG V R tree) :
    ∀ (fuel i : Nat) (nd : Node S) (acc : List S), tree[i]? = some nd → i < fuel →
      ∃ l : List S, pathTo tree fuel i acc = l ++ acc ∧ (∃ s0, l.head? = some s0 ∧ V s0) ∧
        Chain R l ∧ l.getLast? = some nd.state := by
  intro fuel
  induction fuel with
  | zero => intro i nd acc _ hf; omega
  | succ f ih =>
    intro i nd acc hnd hf
    simp only [pathTo, hnd]
    have hi := hinv i nd hnd
    split
    · next hpar =>
      simp only [hpar] at hi
      exact ⟨[nd.state], rfl, ⟨nd.state, rfl, hi⟩, trivial, rfl⟩
    · next p hpar =>
      simp only [hpar] at hi
      obtain ⟨hp, np, hnp, hlink⟩ := hi
      obtain ⟨l, h1, h2, h3, h4⟩ := ih p np (nd.state :: acc) hnp (by omega)
      refine ⟨l ++ [nd.state], by simp [h1], ?_, ?_, by simp⟩
      · obtain ⟨s0, hs0, hv⟩ := h2
        refine ⟨s0, ?_, hv⟩
        cases l with
        | nil => simp at hs0
        | cons a r => simpa using hs0
      · apply chain_snoc _ _ _ h3
        intro z hz
        rw [h4] at hz
        simp only [Option.some.injEq] at hz
        subst hz
        exact hlink

/-- what a truthful report looks like when the object has a history: as `Real` of `Props/C01.lean`, with the
flag-independent edge justification and the threshold in force named explicitly -/
structure RealH (cfg : Cfg S D) (starts : Array S) (thr : D) (status : Status) (path : List S) (approx : Bool)
    (dif : D) : Prop where
  start : ∃ s0, path.head? = some s0 ∧ ValidStart cfg starts s0
  edges : Chain (LinkAny cfg) path
  goal : ∃ last, path.getLast? = some last ∧ dif = cfg.goalDist last ∧
    (approx = false ↔ cfg.lt (cfg.goalDist last) thr = true)
  exact : status = .exactSolution ↔ approx = false
  approximate : status = .approximateSolution ↔ approx = true

/-- appending roots that pass the input filter keeps the invariant -/
theorem append_roots_inv (V : S → Prop) (R : S → S → Prop) (tree : Array (Node S)) (roots : List S)
    (h : TreeInvG V R tree) (hr : ∀ s ∈ roots, V s) :
    TreeInvG V R (tree ++ (roots.map (fun s => (⟨s, none⟩ : Node S))).toArray) := by
  intro i nd hi
  rw [Array.getElem?_append] at hi
  split at hi
  · next hlt =>
    have := h i nd hi
    split
    · next hp => simpa [hp] using this
    · next q hp =>
      simp only [hp] at this
      obtain ⟨h1, np, h2, h3⟩ := this
      refine ⟨h1, np, ?_, h3⟩
      rw [Array.getElem?_append, if_pos (by omega)]
      exact h2
  · simp only [List.getElem?_toArray, List.getElem?_map, Option.map_eq_some_iff] at hi
    obtain ⟨s, hs, rfl⟩ := hi
    exact hr s (List.mem_of_getElem? hs)

/-- **one `solve()` on an object with a history**: from any tree that satisfies the invariant (roots `V`, edges `R`)
the call keeps the invariant, and its report is truthful. -/
theorem solveFrom_spec (cfg : Cfg S D) (starts : Array S) (V : S → Prop) (R : S → S → Prop)
    (hV : ∀ s, ValidStart cfg starts s → V s) (hR : ∀ x y, Link cfg x y → R x y)
    (pl : Planner S) (script : List (Draw S)) (hinv : TreeInvG V R pl.tree) :
    TreeInvG V R (solveFrom cfg starts pl script).tree ∧
      ((solveFrom cfg starts pl script).status.toBool = true →
        ∃ path approx dif, (solveFrom cfg starts pl script).added = some (path, approx, dif) ∧
          (∃ s0, path.head? = some s0 ∧ V s0) ∧ Chain R path ∧
          (∃ last, path.getLast? = some last ∧ dif = cfg.goalDist last ∧
            (approx = false ↔ cfg.lt (cfg.goalDist last) cfg.threshold = true)) ∧
          ((solveFrom cfg starts pl script).status = .exactSolution ↔ approx = false) ∧
          ((solveFrom cfg starts pl script).status = .approximateSolution ↔ approx = true)) ∧
      ((solveFrom cfg starts pl script).status.toBool = false → (solveFrom cfg starts pl script).added = none) := by
  have hds := (drainStarts_spec cfg.bounds cfg.valid starts (starts.size + 1) pl.pis).1
  have hroots : ∀ s ∈ (drainStarts cfg.bounds cfg.valid starts (starts.size + 1) pl.pis).1.map (fun x => x.2), V s := by
    intro s hs
    simp only [List.mem_map] at hs
    obtain ⟨x, hx, rfl⟩ := hs
    obtain ⟨hi, h1, h2, h3, _⟩ := hds x hx
    exact hV _ ⟨x.1, hi, h1, h2, h3⟩
  have h0 := append_roots_inv V R pl.tree _ hinv hroots
  simp only [List.map_map] at h0
  unfold solveFrom
  simp only
  have hfun : ((fun s => (⟨s, none⟩ : Node S)) ∘ fun x : Nat × S => x.2) = fun x : Nat × S => (⟨x.2, none⟩ : Node S) := rfl
  rw [hfun] at h0
  generalize pl.tree ++ ((drainStarts cfg.bounds cfg.valid starts (starts.size + 1) pl.pis).1.map
    (fun x => (⟨x.2, none⟩ : Node S))).toArray = tree0 at h0
  split
  · exact ⟨h0, fun h => by simp [Status.toBool] at h, fun _ => rfl⟩
  · have hl := loop_invG cfg V R hR script ⟨tree0, none, none, cfg.inf⟩
      ⟨h0, fun i h => by simp at h, fun _ i h => by simp at h⟩
    generalize loop cfg ⟨tree0, none, none, cfg.inf⟩ script = r at hl
    split
    · next i hsol =>
      refine ⟨hl.tree, fun _ => ?_, fun h => by simp [ofFlags_toBool] at h⟩
      refine ⟨_, _, _, rfl, ?_⟩
      cases hs : r.1.solution with
      | some j =>
        simp only [hs, Option.some.injEq] at hsol
        subst hsol
        obtain ⟨nd, h1, h2, h3⟩ := hl.sol j hs
        obtain ⟨l, e1, e2, e3, e4⟩ := pathTo_specG V R r.1.tree hl.tree (j + 1) j nd [] h1 (by omega)
        simp only [List.append_nil] at e1
        rw [e1]
        exact ⟨e2, e3, ⟨nd.state, e4, h3, by simp [h2]⟩, by simp [Status.ofFlags], by simp [Status.ofFlags]⟩
      | none =>
        simp only [hs] at hsol
        obtain ⟨nd, h1, h2, h3⟩ := hl.approx hs i hsol
        obtain ⟨l, e1, e2, e3, e4⟩ := pathTo_specG V R r.1.tree hl.tree (i + 1) i nd [] h1 (by omega)
        simp only [List.append_nil] at e1
        rw [e1]
        exact ⟨e2, e3, ⟨nd.state, e4, h3, by simp [h2]⟩, by simp [Status.ofFlags], by simp [Status.ofFlags]⟩
    · exact ⟨hl.tree, fun h => by simp [ofFlags_toBool] at h, fun _ => rfl⟩

/-- the start counter after a call: every start the problem definition holds has been looked at -/
theorem solveFrom_pis (cfg : Cfg S D) (starts : Array S) (pl : Planner S) (script : List (Draw S))
    (hle : pl.pis.addedStartStates ≤ starts.size) :
    (solveFrom cfg starts pl script).pis.addedStartStates = starts.size := by
  have := (drainStarts_exhausts cfg.bounds cfg.valid starts (starts.size + 1) pl.pis (by omega) hle).1
  unfold solveFrom
  simp only
  split
  · exact this
  · split <;> exact this

/-- a fresh object: `solveFrom` is the single-call model -/
theorem solve_eq_solveFrom (cfg : Cfg S D) (starts : Array S) (script : List (Draw S)) :
    solve cfg starts script = solveFrom cfg starts {} script := by
  unfold solve solveFrom initTree
  simp only [Array.empty_append]
  rfl

/-! ### histories -/

theorem validStart_push (cfg : Cfg S D) (starts : Array S) (x s : S) (h : ValidStart cfg starts s) :
    ValidStart cfg (starts.push x) s := by
  obtain ⟨k, hk, h1, h2, h3⟩ := h
  refine ⟨k, by simp; omega, ?_, h2, h3⟩
  rw [Array.getElem_push_lt hk]
  exact h1

/-- the invariant a history keeps -/
structure WInv (cfg : Cfg S D) (w : World S D) : Prop where
  tree : TreeInvG (ValidStart cfg w.pd.starts) (LinkAny cfg) w.planner.tree
  pis : w.planner.pis.addedStartStates ≤ w.pd.starts.size

/-- the report of one `solve` of a history is truthful for the parameters `p` then in force -/
def RepReal (cfg : Cfg S D) (starts : Array S) (pr : Params D × Report S D) : Prop :=
  (pr.2.status.toBool = true →
      ∃ path approx dif, pr.2.added = some (path, approx, dif) ∧
        RealH cfg starts pr.1.threshold pr.2.status path approx dif) ∧
    (pr.2.status.toBool = false → pr.2.added = none)

theorem realH_mono (cfg : Cfg S D) (a b : Array S) (hab : ∀ s, ValidStart cfg a s → ValidStart cfg b s)
    (thr : D) (st : Status) (path : List S) (approx : Bool) (dif : D) (h : RealH cfg a thr st path approx dif) :
    RealH cfg b thr st path approx dif := by
  obtain ⟨⟨s0, h1, h2⟩, e, g, x, y⟩ := h
  exact ⟨⟨s0, h1, hab _ h2⟩, e, g, x, y⟩

theorem repReal_mono (cfg : Cfg S D) (a b : Array S) (hab : ∀ s, ValidStart cfg a s → ValidStart cfg b s)
    (pr : Params D × Report S D) (h : RepReal cfg a pr) : RepReal cfg b pr := by
  refine ⟨fun hb => ?_, h.2⟩
  obtain ⟨path, approx, dif, h1, h2⟩ := h.1 hb
  exact ⟨path, approx, dif, h1, realH_mono cfg a b hab _ _ _ _ _ h2⟩

/-- one `solve` of a history -/
theorem solve_step (cfg : Cfg S D) (w : World S D) (script : List (Draw S)) (h : WInv cfg w) :
    let r := solveFrom (cfg.withParams w.params) w.pd.starts w.planner script
    TreeInvG (ValidStart cfg w.pd.starts) (LinkAny cfg) r.tree ∧ r.pis.addedStartStates = w.pd.starts.size ∧
      RepReal cfg w.pd.starts (w.params, r) := by
  intro r
  obtain ⟨a, b, c⟩ := solveFrom_spec (cfg.withParams w.params) w.pd.starts (ValidStart cfg w.pd.starts) (LinkAny cfg)
    (fun _ hs => hs) (link_any cfg w.params) w.planner script h.tree
  refine ⟨a, solveFrom_pis _ _ _ _ h.pis, fun hb => ?_, c⟩
  obtain ⟨path, approx, dif, h1, h2, h3, h4, h5, h6⟩ := b hb
  exact ⟨path, approx, dif, h1, ⟨h2, h3, h4, h5, h6⟩⟩

/-- the model of a history with the parameters in force recorded next to every report -/
def runOpsP (cfg : Cfg S D) (eps autoRange : D) :
    World S D → List (Op S D) → World S D × List (Params D × Report S D)
  | w, [] => (w, [])
  | w, op :: rest =>
    let a := applyOp cfg eps autoRange w op
    let b := runOpsP cfg eps autoRange a.1 rest
    (b.1, (match a.2 with | some r => [(w.params, r)] | none => []) ++ b.2)

theorem runOpsP_fst (cfg : Cfg S D) (eps autoRange : D) (ops : List (Op S D)) :
    ∀ w : World S D, (runOpsP cfg eps autoRange w ops).1 = (runOps cfg eps autoRange w ops).1 ∧
      (runOpsP cfg eps autoRange w ops).2.map (·.2) = (runOps cfg eps autoRange w ops).2 := by
  induction ops with
  | nil => intro w; exact ⟨rfl, rfl⟩
  | cons op rest ih =>
    intro w
    simp only [runOpsP, runOps]
    obtain ⟨h1, h2⟩ := ih (applyOp cfg eps autoRange w op).1
    refine ⟨h1, ?_⟩
    rw [List.map_append, h2]
    cases (applyOp cfg eps autoRange w op).2 <;> rfl

/-- where a solution of the problem definition comes from -/
def FromReport (zero : D) (pr : Params D × Report S D) (sol : Solution (List S) D) : Prop :=
  ∃ dif, pr.2.added = some (sol.path, sol.approximate, dif) ∧ sol.difference = if sol.approximate then dif else zero

/-- what one call does to the world -/
theorem applyOp_spec (cfg : Cfg S D) (eps autoRange : D) (w : World S D) (op : Op S D) (h : WInv cfg w) :
    let a := applyOp cfg eps autoRange w op
    WInv cfg a.1 ∧ (∀ s, ValidStart cfg w.pd.starts s → ValidStart cfg a.1.pd.starts s) ∧
      (∀ r, a.2 = some r → RepReal cfg a.1.pd.starts (w.params, r)) ∧
      (∀ sol ∈ a.1.pd.solutions, sol ∈ w.pd.solutions ∨ ∃ r, a.2 = some r ∧ FromReport cfg.zero (w.params, r) sol) := by
  cases op with
  | solve script =>
    obtain ⟨a, b, c⟩ := solve_step cfg w script h
    simp only [applyOp]
    refine ⟨⟨?_, ?_⟩, ?_, ?_, ?_⟩
    · split <;> exact a
    · split <;> exact Nat.le_of_eq b
    · split <;> exact fun _ hs => hs
    · intro r hr
      simp only [Option.some.injEq] at hr
      subst hr
      split <;> exact c
    · intro sol hsol
      split at hsol
      · next path approx dif hadd =>
        simp only [addSolutionPath, List.mem_append, List.mem_singleton] at hsol
        rcases hsol with hsol | rfl
        · exact Or.inl hsol
        · exact Or.inr ⟨_, rfl, dif, hadd, rfl⟩
      · exact Or.inl hsol
  | clear =>
    exact ⟨⟨fun i nd hi => by simp [applyOp] at hi, Nat.zero_le _⟩, fun _ hs => hs, fun r hr => by simp [applyOp] at hr,
      fun sol hs => Or.inl hs⟩
  | addStart s =>
    refine ⟨⟨?_, ?_⟩, fun x hx => validStart_push cfg _ s x hx, fun r hr => by simp [applyOp] at hr,
      fun sol hs => Or.inl hs⟩
    · exact treeInvG_mono _ _ _ _ (fun x hx => validStart_push cfg _ s x hx) (fun _ _ hxy => hxy) _ h.tree
    · have := h.pis
      simp only [applyOp, Array.size_push]
      omega
  | setRange r =>
    exact ⟨⟨h.tree, h.pis⟩, fun _ hs => hs, fun r hr => by simp [applyOp] at hr, fun sol hs => Or.inl hs⟩
  | setThreshold t =>
    exact ⟨⟨h.tree, h.pis⟩, fun _ hs => hs, fun r hr => by simp [applyOp] at hr, fun sol hs => Or.inl hs⟩
  | setIntermediate b =>
    exact ⟨⟨h.tree, h.pis⟩, fun _ hs => hs, fun r hr => by simp [applyOp] at hr, fun sol hs => Or.inl hs⟩
  | setup =>
    exact ⟨⟨h.tree, h.pis⟩, fun _ hs => hs, fun r hr => by simp [applyOp] at hr, fun sol hs => Or.inl hs⟩
  | clearSolutions =>
    exact ⟨⟨h.tree, h.pis⟩, fun _ hs => hs, fun r hr => by simp [applyOp] at hr, fun sol hs => by simp [applyOp] at hs⟩

/-- **every history keeps the invariant, and every report of every `solve` in it is truthful** (with respect to the
start states the problem definition holds at the end; they only grow) -/
theorem runOpsP_spec (cfg : Cfg S D) (eps autoRange : D) (ops : List (Op S D)) :
    ∀ w : World S D, WInv cfg w →
      let res := runOpsP cfg eps autoRange w ops
      WInv cfg res.1 ∧ (∀ s, ValidStart cfg w.pd.starts s → ValidStart cfg res.1.pd.starts s) ∧
        (∀ pr ∈ res.2, RepReal cfg res.1.pd.starts pr) ∧
        (∀ sol ∈ res.1.pd.solutions, sol ∈ w.pd.solutions ∨ ∃ pr ∈ res.2, FromReport cfg.zero pr sol) := by
  induction ops with
  | nil => intro w h; exact ⟨h, fun _ hs => hs, fun pr hpr => by simp [runOpsP] at hpr, fun sol hs => Or.inl hs⟩
  | cons op rest ih =>
    intro w h
    obtain ⟨a1, a2, a3, a4⟩ := applyOp_spec cfg eps autoRange w op h
    obtain ⟨b1, b2, b3, b4⟩ := ih _ a1
    simp only [runOpsP]
    refine ⟨b1, fun s hs => b2 s (a2 s hs), ?_, ?_⟩
    · intro pr hpr
      rw [List.mem_append] at hpr
      rcases hpr with hpr | hpr
      · cases hr : (applyOp cfg eps autoRange w op).2 with
        | none => rw [hr] at hpr; simp at hpr
        | some r =>
          rw [hr] at hpr
          simp only [List.mem_singleton] at hpr
          subst hpr
          exact repReal_mono cfg _ _ b2 _ (a3 r hr)
      · exact b3 pr hpr
    · intro sol hsol
      rcases b4 sol hsol with hs | ⟨pr, hpr, hf⟩
      · rcases a4 sol hs with hs' | ⟨r, hr, hf⟩
        · exact Or.inl hs'
        · refine Or.inr ⟨(w.params, r), ?_, hf⟩
          rw [hr]
          simp
      · exact Or.inr ⟨pr, List.mem_append_right _ hpr, hf⟩

theorem fresh_inv (cfg : Cfg S D) (starts : Array S) (p : Params D) : WInv cfg (World.fresh starts p) :=
  ⟨fun i nd hi => by simp [World.fresh] at hi, Nat.zero_le _⟩

end OmplModel.RRT
