import OmplModel.Model.SpaceInterp
/-!
C07, arithmetic-free part ([AF]): generic over any `[Num α]` (so it holds for the `Float`
instantiation the driver runs) and over *any* SO(2) leaf function `f` and Klein wrap `wr`.  Core Lean only.
-/
namespace OmplModel.SpaceInterp
open OmplModel OmplModel.Space

variable {α : Type} [Num α]

theorem rvInterp_length (xs ys : List α) (t : α) (h : ys.length = xs.length) :
    (rvInterp xs ys t).length = xs.length := by
  induction xs generalizing ys with
  | nil => cases ys <;> simp [rvInterp]
  | cons x xs ih =>
    cases ys with
    | nil => simp at h
    | cons y ys => simp [rvInterp, ih ys (by simpa using h)]

theorem so3Interp_wellTyped (x1 y1 z1 w1 x2 y2 z2 w2 t : α) :
    wellTyped .so3 (so3Interp x1 y1 z1 w1 x2 y2 z2 w2 t) = true := by
  unfold so3Interp
  simp only []
  split <;> rfl

/-- interpolation preserves the shape of the states, for every space and every SO(2) leaf -/
theorem interpolateW_wellTyped (f : α → α → α → α) (wr : α → α) (sp : Space α) (a b : St α) (t : α)
    (ha : wellTyped sp a = true) (hb : wellTyped sp b = true) :
    wellTyped sp (interpolateW f wr sp a b t) = true := by
  fun_induction interpolateW f wr sp a b t <;>
    simp_all [wellTyped, so3Interp_wellTyped]
  next lo hi xs ys t =>
    rw [rvInterp_length xs ys t (by omega)]; omega

theorem wellTyped_torus {R r : α} {a : St α} (h : wellTyped (.torus R r) a = true) :
    ∃ x y, a = .ccons (.so2 x) (.ccons (.so2 y) .cnil) := by
  unfold wellTyped at h
  split at h <;> simp_all

theorem wellTyped_sphere {r : α} {a : St α} (h : wellTyped (.sphere r) a = true) :
    ∃ x y, a = .ccons (.so2 x) (.ccons (.rv [y]) .cnil) := by
  unfold wellTyped at h
  split at h <;> simp_all

theorem wellTyped_mobius {i r : α} {a : St α} (h : wellTyped (.mobius i r) a = true) :
    ∃ x y, a = .ccons (.so2 x) (.ccons (.rv [y]) .cnil) := by
  unfold wellTyped at h
  split at h <;> simp_all

theorem wellTyped_klein {a : St α} (h : wellTyped (.klein : Space α) a = true) :
    ∃ x y, a = .ccons (.rv [x]) (.ccons (.so2 y) .cnil) := by
  unfold wellTyped at h
  split at h <;> simp_all

theorem wellTyped_rv {lo hi : List α} {a : St α} (h : wellTyped (.rv lo hi) a = true) :
    ∃ xs, a = .rv xs ∧ xs.length = lo.length ∧ lo.length = hi.length := by
  unfold wellTyped at h
  split at h <;> simp_all

theorem wellTyped_so2 {a : St α} (h : wellTyped (.so2 : Space α) a = true) : ∃ x, a = .so2 x := by
  unfold wellTyped at h
  split at h <;> simp_all

theorem wellTyped_so3 {a : St α} (h : wellTyped (.so3 : Space α) a = true) :
    ∃ x y z w, a = .so3 x y z w := by
  unfold wellTyped at h
  split at h <;> simp_all

theorem wellTyped_time {bd : Bool} {lo hi : α} {a : St α} (h : wellTyped (.time bd lo hi) a = true) :
    ∃ x, a = .time x := by
  unfold wellTyped at h
  split at h <;> simp_all

theorem wellTyped_disc {lo hi : Int} {a : St α} (h : wellTyped (.disc lo hi : Space α) a = true) :
    ∃ x, a = .disc x := by
  unfold wellTyped at h
  split at h <;> simp_all

theorem wellTyped_cnil {a : St α} (h : wellTyped (.cnil : Space α) a = true) : a = .cnil := by
  unfold wellTyped at h
  split at h <;> simp_all

theorem wellTyped_ccons {w : α} {hd tl : Space α} {a : St α} (h : wellTyped (.ccons w hd tl) a = true) :
    ∃ ah at', a = .ccons ah at' ∧ wellTyped hd ah = true ∧ wellTyped tl at' = true := by
  unfold wellTyped at h
  split at h <;> simp_all
  exact ⟨_, _, ⟨rfl, rfl⟩, h⟩

/-- Torus does not override `interpolate`: it is exactly its compound `[so2, so2]` -/
theorem interpolateW_torus_expand (f : α → α → α → α) (wr : α → α) (R r : α) (a b : St α) (t : α)
    (ha : wellTyped (.torus R r) a = true) (hb : wellTyped (.torus R r) b = true) :
    interpolateW f wr (.torus R r) a b t = interpolateW f wr (expand (.torus R r)) a b t := by
  obtain ⟨a1, a2, rfl⟩ := wellTyped_torus ha
  obtain ⟨b1, b2, rfl⟩ := wellTyped_torus hb
  simp [expand, interpolateW]

/-- Sphere does not override `interpolate`: it is exactly its compound `[so2, rv1]` -/
theorem interpolateW_sphere_expand (f : α → α → α → α) (wr : α → α) (r : α) (a b : St α) (t : α)
    (ha : wellTyped (.sphere r) a = true) (hb : wellTyped (.sphere r) b = true) :
    interpolateW f wr (.sphere r) a b t = interpolateW f wr (expand (.sphere r)) a b t := by
  obtain ⟨a1, a2, rfl⟩ := wellTyped_sphere ha
  obtain ⟨b1, b2, rfl⟩ := wellTyped_sphere hb
  simp [expand, interpolateW, rvInterp]

end OmplModel.SpaceInterp
