import OmplModel.Proofs.RRT
import OmplModel.Proofs.SpaceInterpLeaf
/-!
[EX] instantiation of `ConvexBounds` (Proofs/RRT.lean) for R^n over ℝ: the as-coded bounds predicate `rvInB`
(±eps slack) is preserved by `rvInterp` at parameters in [0, 1] (C07's `rvInB_interp`), `maxDistance / d ∈ [0, 1]`
when `d > maxDistance ≥ 0`, and `j / n ∈ [0, 1]` for `0 < j < n`.  What stays unverified is IEEE rounding.
-/
open scoped OmplModel.SpaceInterp.RealNum
attribute [-instance] OmplModel.Num.instOfNat

namespace OmplModel.RRT
open OmplModel OmplModel.SpaceInterp

/-- a configuration over ℝ whose space part is R^n as coded (`interpolate = rvInterp`, `satisfiesBounds = rvInB`,
`<`, `/` and `(double)j/(double)n` of ℝ); validity, motion validator, distance, goal, range value are arbitrary -/
structure RvCfg (cfg : Cfg (List ℝ) ℝ) (lo hi : List ℝ) : Prop where
  interp : cfg.interp = rvInterp
  bounds : cfg.bounds = fun s => rvInB s lo hi
  lt : ∀ a b, cfg.lt a b = true → a < b
  div : cfg.div = fun a b => a / b
  frac : cfg.frac = fun (j n : Nat) => ((j : ℝ) / (n : ℝ) : ℝ)
  range_nonneg : 0 ≤ cfg.maxDistance

theorem rv_convex (cfg : Cfg (List ℝ) ℝ) (lo hi : List ℝ) (h : RvCfg cfg lo hi) :
    ConvexBounds cfg (fun t => 0 ≤ t ∧ t ≤ 1) := by
  refine ⟨?_, ?_, ?_⟩
  · intro a b t ha hb ht
    rw [h.bounds] at ha hb ⊢
    rw [h.interp]
    exact rvInB_interp ha hb ht.1 ht.2
  · intro d hd
    have hlt := h.lt _ _ hd
    have hdpos : 0 < d := lt_of_le_of_lt h.range_nonneg hlt
    rw [h.div]
    exact ⟨div_nonneg h.range_nonneg hdpos.le, (div_le_one hdpos).2 hlt.le⟩
  · intro j n hj hjn
    rw [h.frac]
    have hn : (0 : ℝ) < (n : ℝ) := by exact_mod_cast (by omega : 0 < n)
    exact ⟨div_nonneg (Nat.cast_nonneg _) hn.le, (div_le_one hn).2 (by exact_mod_cast hjn.le)⟩

end OmplModel.RRT
