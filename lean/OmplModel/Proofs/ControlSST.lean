import OmplModel.Proofs.ControlRRT
import OmplModel.Model.CSST
/-! Helper lemmas for `Model/CSST.lean` (`control::SST::solve`): the tree is append-only, so the
generic tree invariant of `Proofs/ControlRRT.lean` carries over; the reported path is the snapshot
`prevSolution`, kept as a value satisfying `PathGood`; the pruning loop is dead as coded.
Core Lean only. -/
namespace OmplModel.CSST
open OmplModel.Control OmplModel.CRRT
variable {S U δ : Type}

/-- the stored control and whole step count are exactly one scripted draw -/
def GoodDraw (draws : List (Draw S U)) (u : U) (k : Nat) : Prop :=
  ∃ d ∈ draws, d.control = u ∧ d.steps = k

/-- what a snapshot path satisfies; `last` is its final state -/
def PathGood (P : Problem S U δ) (starts : List S) (draws : List (Draw S U)) (p : Path S U)
    (last : S) : Prop :=
  ∃ s0 sl, p = ofSegs s0 sl ∧ s0 ∈ starts ∧ P.valid s0 = true ∧
    ReplayOK P.step P.valid s0 sl ∧ endState s0 sl = last ∧ ∀ x ∈ sl, GoodDraw draws x.1 x.2.1

structure SInv (P : Problem S U δ) (starts : List S) (draws : List (Draw S U)) (st : St S U δ) :
    Prop where
  tree : TreeInvG P.step P.valid starts (GoodDraw draws) st.tree
  prev : ∀ p, st.prevSolution = some p →
    ∃ last, PathGood P starts draws p last ∧ (st.solution.isSome = true → (P.goal last).1 = true)
  havePrev : (st.solution.isSome = true ∨ st.approxsol.isSome = true) → st.prevSolution.isSome = true
  inact : ∀ i : Nat, st.inactive[i]?.getD false = false
  /-- the flag array is as long as the tree: `inact` is about every motion, not a statement made true by `getD`'s default -/
  isz : st.inactive.size = st.tree.size
  nn : st.nn = List.range st.tree.size

/-- `findClosestWitness` only ever changes the witness set -/
theorem fcw_eq (P : Problem S U δ) (st : St S U δ) (q : S) (node : Option Nat) :
    ∃ w, (findClosestWitness P st q node).1 = { st with wits := w } := by
  unfold findClosestWitness
  simp only
  split
  · exact ⟨_, rfl⟩
  · split
    · exact ⟨_, rfl⟩
    · exact ⟨st.wits, rfl⟩

/-- the pruning loop is dead when no motion is inactive -/
theorem pruneLoop_id (st : St S U δ) (h : ∀ i : Nat, st.inactive[i]?.getD false = false) (old fuel : Nat) :
    pruneLoop st old fuel = st := by
  cases fuel with
  | zero => rfl
  | succ fuel =>
    simp only [pruneLoop, Array.getD_eq_getD_getElem?, h old, Bool.false_and, Bool.false_eq_true,
      if_false]

theorem inact_push (a : Array Bool) (h : ∀ i : Nat, a[i]?.getD false = false) :
    ∀ i : Nat, (a.push false)[i]?.getD false = false := by
  intro i
  rw [Array.getElem?_push]
  split
  · rfl
  · exact h i

/-- pushing a good motion (and the bookkeeping that goes with it) keeps the tree-side invariants -/
theorem push_inv (P : Problem S U δ) (starts : List S) (draws : List (Draw S U)) (st : St S U δ)
    (hI : SInv P starts draws st) (m : Motion S U)
    (hm : GoodMotionG P.step P.valid starts (GoodDraw draws) st.tree st.tree.size m)
    (c : Array δ) (nc : Array Nat) (w : Array (Wit S)) :
    SInv P starts draws { st with tree := st.tree.push m, cost := c, nchild := nc, inactive := st.inactive.push false, nn := st.nn ++ [st.tree.size], wits := w } where
  tree := treeInvG_push _ _ _ _ _ _ hI.tree hm
  prev := hI.prev
  havePrev := hI.havePrev
  inact := inact_push _ hI.inact
  isz := by
    show (st.inactive.push false).size = (st.tree.push m).size
    rw [Array.size_push, Array.size_push, hI.isz]
  nn := by
    show st.nn ++ [st.tree.size] = List.range (st.tree.push m).size
    rw [Array.size_push, List.range_succ, hI.nn]

theorem wits_inv (P : Problem S U δ) (starts : List S) (draws : List (Draw S U)) (st : St S U δ)
    (hI : SInv P starts draws st) (w : Array (Wit S)) :
    SInv P starts draws { st with wits := w } :=
  ⟨hI.tree, hI.prev, hI.havePrev, hI.inact, hI.isz, hI.nn⟩

theorem addRoot_inv (P : Problem S U δ) (starts : List S) (draws : List (Draw S U)) (st : St S U δ)
    (s : S) (hs : s ∈ starts) (hv : P.valid s = true) (hI : SInv P starts draws st) :
    SInv P starts draws (addRoot P st s) := by
  unfold addRoot
  simp only
  obtain ⟨w, hw⟩ := fcw_eq P
    { st with tree := st.tree.push { state := s, control := P.nullControl, steps := 0, parent := none }, cost := st.cost.push P.zero, nchild := st.nchild.push 0, inactive := st.inactive.push false, nn := st.nn ++ [st.tree.size] } s (some st.tree.size)
  rw [hw]
  exact push_inv P starts draws st hI _ (Or.inl ⟨rfl, hs, hv⟩) _ _ w

theorem init_inv (P : Problem S U δ) (starts : List S) (draws : List (Draw S U)) :
    SInv P starts draws (init P starts) := by
  unfold init
  have key : ∀ (l : List S) (st : St S U δ), (∀ s ∈ l, s ∈ starts ∧ P.valid s = true) →
      SInv P starts draws st → SInv P starts draws (l.foldl (addRoot P) st) := by
    intro l
    induction l with
    | nil => intro st _ h; exact h
    | cons s l ih =>
      intro st hl h
      rw [List.foldl_cons]
      have hs := hl s (List.mem_cons_self ..)
      exact ih _ (fun x hx => hl x (List.mem_cons_of_mem _ hx))
        (addRoot_inv P starts draws st s hs.1 hs.2 h)
  refine key _ _ (fun s hs => List.mem_filter.mp hs) ?_
  refine ⟨?_, ?_, ?_, ?_, rfl, rfl⟩
  · intro i m h; simp at h
  · intro p h; cases h
  · intro h; rcases h with h | h <;> cases h
  · intro i; simp

/-- the snapshot of the branch ending in the motion just pushed -/
theorem reported_good (P : Problem S U δ) (starts : List S) (draws : List (Draw S U))
    (tree : Array (Motion S U)) (hT : TreeInvG P.step P.valid starts (GoodDraw draws) tree)
    (i : Nat) (m : Motion S U) (hi : tree[i]? = some m) :
    PathGood P starts draws (reported tree i) m.state :=
  chain_pathG P.step P.valid starts (GoodDraw draws) tree hT tree.size i m (lt_size_of_getElem? hi) hi

theorem sinv_ite (P : Problem S U δ) (starts : List S) (draws : List (Draw S U)) {c : Prop}
    [Decidable c] {a b : St S U δ × Bool} (ha : SInv P starts draws a.1)
    (hb : ¬c → SInv P starts draws b.1) : SInv P starts draws (if c then a else b).1 := by
  split
  · exact ha
  · rename_i h; exact hb h

theorem iter_inv (P : Problem S U δ) (starts : List S) (draws : List (Draw S U)) (st : St S U δ)
    (d : Draw S U) (hd : d ∈ draws) (hI : SInv P starts draws st) :
    SInv P starts draws (iter P st d).1 := by
  unfold iter
  simp only
  split
  · exact hI
  · rename_i n _
    split
    · exact hI
    · rename_i nm hn
      split
      · exact hI
      · rename_i hr
        have hr' : (pwv P.step P.valid nm.state d.control d.steps).1 = d.steps := by
          simpa using hr
        obtain ⟨w, hw⟩ := fcw_eq P st (pwv P.step P.valid nm.state d.control d.steps).2 none
        generalize findClosestWitness P st (pwv P.step P.valid nm.state d.control d.steps).2 none = fw at hw ⊢
        obtain ⟨st1, wi⟩ := fw
        simp only at hw ⊢
        subst hw
        have hI1 := wits_inv P starts draws st hI w
        dsimp only
        obtain ⟨p1, p2, _, _⟩ := pwv_spec' P.step P.valid nm.state d.control d.steps
        rw [hr'] at p1 p2
        have hm : GoodMotionG P.step P.valid starts (GoodDraw draws) st.tree st.tree.size { state := (pwv P.step P.valid nm.state d.control d.steps).2, control := d.control, steps := d.steps, parent := some n } :=
          Or.inr ⟨n, nm, rfl, lt_size_of_getElem? hn, hn, p1, p2, d, hd, rfl, rfl⟩
        generalize (pwv P.step P.valid nm.state d.control d.steps).2 = reached at hm ⊢
        generalize P.add (st.cost.getD n P.inf) (P.add (P.motionCost nm.state reached) P.zero) = cost
        cases hwit : w[wi]? with
        | none => exact hI1
        | some wit =>
          dsimp only
          refine sinv_ite P starts draws hI1 (fun _ => ?_)
          generalize w.setIfInBounds wi { state := wit.state, rep := some st.tree.size } = w2
          have hI2 := push_inv P starts draws st hI _ hm (st.cost.push cost)
            ((st.nchild.modify n (· + 1)).push 0) w2
          have hnew : (st.tree.push { state := reached, control := d.control, steps := d.steps, parent := some n })[st.tree.size]? = some { state := reached, control := d.control, steps := d.steps, parent := some n } := by
            rw [Array.getElem?_push, if_pos rfl]
          have hpg := reported_good P starts draws _ hI2.tree st.tree.size _ hnew
          dsimp only at hpg
          by_cases hsolv : ((P.goal reached).1 && P.lt cost st.prevSolutionCost) = true
          · -- a (better) exact solution: snapshot, `solution := idx`
            have hg : (P.goal reached).1 = true := by
              simp only [Bool.and_eq_true] at hsolv; exact hsolv.1
            simp only [hsolv, if_true, Bool.true_and, Option.isNone_some, Bool.false_and,
              Bool.false_eq_true, if_false]
            have hI3 : SInv P starts draws { tree := st.tree.push { state := reached, control := d.control, steps := d.steps, parent := some n }, cost := st.cost.push cost, nchild := (st.nchild.modify n (· + 1)).push 0, inactive := st.inactive.push false, nn := st.nn ++ [st.tree.size], wits := w2, solution := some st.tree.size, approxsol := st.approxsol, approxdif := (P.goal reached).2, prevSolution := some (reported (st.tree.push { state := reached, control := d.control, steps := d.steps, parent := some n }) st.tree.size), prevSolutionCost := cost } :=
              ⟨hI2.tree, fun p hp => ⟨reached, by cases Option.some.inj hp; exact hpg, fun _ => hg⟩,
                fun _ => rfl, hI2.inact, hI2.isz, hI2.nn⟩
            repeat' split
            all_goals first | exact hI3 | (rw [pruneLoop_id _ hI3.inact]; exact hI3)
          · have hsolv' : ((P.goal reached).1 && P.lt cost st.prevSolutionCost) = false := by
              simpa using hsolv
            simp only [hsolv', Bool.false_eq_true, if_false, Bool.false_and]
            by_cases happ : (st.solution.isNone && P.lt (P.goal reached).2 st.approxdif) = true
            · have hnone : st.solution.isSome = false := by
                simp only [Bool.and_eq_true, Option.isNone_iff_eq_none] at happ
                rw [happ.1]; rfl
              simp only [happ, if_true]
              have hI4 : SInv P starts draws { tree := st.tree.push { state := reached, control := d.control, steps := d.steps, parent := some n }, cost := st.cost.push cost, nchild := (st.nchild.modify n (· + 1)).push 0, inactive := st.inactive.push false, nn := st.nn ++ [st.tree.size], wits := w2, solution := st.solution, approxsol := some st.tree.size, approxdif := (P.goal reached).2, prevSolution := some (reported (st.tree.push { state := reached, control := d.control, steps := d.steps, parent := some n }) st.tree.size), prevSolutionCost := st.prevSolutionCost } :=
                ⟨hI2.tree,
                  fun p hp => ⟨reached, by cases Option.some.inj hp; exact hpg,
                    fun h => by rw [hnone] at h; cases h⟩,
                  fun _ => rfl, hI2.inact, hI2.isz, hI2.nn⟩
              repeat' split
              all_goals first | exact hI4 | (rw [pruneLoop_id _ hI4.inact]; exact hI4)
            · have happ' : (st.solution.isNone && P.lt (P.goal reached).2 st.approxdif) = false := by
                simpa using happ
              simp only [happ', Bool.false_eq_true, if_false]
              repeat' split
              all_goals first | exact hI2 | (rw [pruneLoop_id _ hI2.inact]; exact hI2)

theorem run_inv (P : Problem S U δ) (starts : List S) (draws : List (Draw S U)) :
    ∀ (ds : List (Draw S U)) (st : St S U δ), (∀ d ∈ ds, d ∈ draws) → SInv P starts draws st →
      SInv P starts draws (run P st ds) := by
  intro ds
  induction ds with
  | nil => intro st _ hI; exact hI
  | cons d ds ih =>
    intro st hsub hI
    have hI' := iter_inv P starts draws st d (hsub d (List.mem_cons_self ..)) hI
    simp only [run]
    split
    · exact hI'
    · exact ih _ (fun d' hd' => hsub d' (List.mem_cons_of_mem _ hd')) hI'

theorem solve_final_inv (P : Problem S U δ) (starts : List S) (draws : List (Draw S U)) :
    SInv P starts draws (solve P starts draws).final := by
  have h0 := init_inv P starts draws
  have h := run_inv P starts draws draws _ (fun _ h => h) h0
  unfold solve
  simp only
  split
  · exact h0
  · split
    · exact h
    · split <;> exact h

theorem solve_path (P : Problem S U δ) (starts : List S) (draws : List (Draw S U)) (p : Path S U)
    (hp : (solve P starts draws).path = some p) :
    ∃ last, PathGood P starts draws p last ∧
      ((solve P starts draws).status = .exact → (P.goal last).1 = true) := by
  have h := run_inv P starts draws draws _ (fun _ h => h) (init_inv P starts draws)
  unfold solve at hp ⊢
  simp only at hp ⊢
  split at hp
  · cases hp
  · rename_i hne
    rw [if_neg hne]
    split at hp
    · rename_i i hsol
      obtain ⟨last, h1, h2⟩ := h.prev p hp
      exact ⟨last, h1, fun _ => h2 (by rw [hsol]; rfl)⟩
    · split at hp
      · obtain ⟨last, h1, _⟩ := h.prev p hp
        refine ⟨last, h1, fun hst => ?_⟩
        cases hst
      · cases hp

theorem solve_status_path (P : Problem S U δ) (starts : List S) (draws : List (Draw S U)) :
    ((solve P starts draws).status = .exact ∨ (solve P starts draws).status = .approximate) ↔
      (solve P starts draws).path.isSome = true := by
  have h := run_inv P starts draws draws _ (fun _ h => h) (init_inv P starts draws)
  unfold solve
  simp only
  split
  · simp
  · split
    · rename_i i hsol
      have := h.havePrev (Or.inl (by rw [hsol]; rfl))
      simp [this]
    · split
      · rename_i i happ
        have := h.havePrev (Or.inr (by rw [happ]; rfl))
        simp [this]
      · simp

end OmplModel.CSST
