import OmplModel.Model.ControlExtra
import OmplModel.Model.ControlReconf
import Mathlib.Analysis.SpecialFunctions.Trigonometric.Inverse
import Mathlib.Analysis.SpecialFunctions.Complex.Arg
import Mathlib.Analysis.SpecialFunctions.Sqrt
import Mathlib.Tactic.Linarith
/-!
`RealVectorControlUniformSampler::sample` / `RNG::uniformReal` / `RNG::uniformInt` instantiated at the
real numbers ([EX]: exact arithmetic).  What this leaves unverified is exactly the IEEE rounding of
`(hi - lo) * r + lo` in the `Float` run (executed by the lock-step driver, not proved).

The `Num ℝ` structure `numReal` is the same as the instances in the other `*Real.lean` proof files;
it is a plain definition here (not an instance), passed explicitly to the model functions
(`uniformRealR`, `ctlSampleR`, `uniformIntR`), so that this file does not depend on another engine's
proofs and numerals / `≤` on `ℝ` keep their standard meaning in the statements.
-/
namespace OmplModel.ControlReal
open OmplModel OmplModel.Control

@[reducible] noncomputable def numReal : Num ℝ where
  ofNat n := (n : ℝ)
  ofDec m e := (m : ℝ) / (10 : ℝ) ^ e
  pi := Real.pi
  abs x := |x|
  sqrt := Real.sqrt
  sin := Real.sin
  cos := Real.cos
  acos := Real.arccos
  atan2 y x := Complex.arg ⟨x, y⟩
  floor x := (⌊x⌋ : ℝ)
  ceil x := (⌈x⌉ : ℝ)
  fmod x y := x - y * ((if 0 ≤ x / y then ⌊x / y⌋ else ⌈x / y⌉ : ℤ) : ℝ)
  decLt _ _ := Classical.propDecidable _
  decLe _ _ := Classical.propDecidable _
  toInt x := if 0 ≤ x then ⌊x⌋ else ⌈x⌉
  ofInt i := (i : ℝ)

/-- the model functions of `Model/ControlExtra.lean` at exact real arithmetic -/
noncomputable abbrev uniformRealR (lo hi r : ℝ) : ℝ := @uniformReal ℝ numReal lo hi r
noncomputable abbrev ctlSampleR (lo hi rs : List ℝ) : List ℝ := @ctlSample ℝ numReal lo hi rs
noncomputable abbrev uniformIntR (lo hi : Int) (r : ℝ) : Int := @uniformInt ℝ numReal lo hi r

theorem uniformReal_eq (lo hi r : ℝ) : uniformRealR lo hi r = (hi - lo) * r + lo := rfl

theorem uniformReal_bounds (lo hi r : ℝ) (h : lo ≤ hi) (h0 : 0 ≤ r) (h1 : r < 1) :
    lo ≤ uniformRealR lo hi r ∧ uniformRealR lo hi r ≤ hi ∧ (lo < hi → uniformRealR lo hi r < hi) := by
  rw [uniformReal_eq]
  have hd : 0 ≤ hi - lo := by linarith
  have hp : 0 ≤ (hi - lo) * r := mul_nonneg hd h0
  have hq : (hi - lo) * r ≤ (hi - lo) * 1 := mul_le_mul_of_nonneg_left (le_of_lt h1) hd
  refine ⟨by linarith, by linarith, ?_⟩
  intro hlt
  have hd' : 0 < hi - lo := by linarith
  have : (hi - lo) * r < (hi - lo) * 1 := mul_lt_mul_of_pos_left h1 hd'
  linarith

theorem ctlSample_bounds : ∀ (lo hi rs : List ℝ), hi.length = lo.length → rs.length = lo.length →
    (∀ (i : Nat) (l h : ℝ), lo[i]? = some l → hi[i]? = some h → l ≤ h) →
    (∀ r ∈ rs, 0 ≤ r ∧ r < 1) →
    (ctlSampleR lo hi rs).length = lo.length ∧
    ∀ (i : Nat) (l h x : ℝ), lo[i]? = some l → hi[i]? = some h → (ctlSampleR lo hi rs)[i]? = some x →
      l ≤ x ∧ x ≤ h ∧ (l < h → x < h) := by
  intro lo
  induction lo with
  | nil =>
    intro hi rs _ _ _ _
    refine ⟨by simp [ctlSampleR, ctlSample], ?_⟩
    intro i l h x hl; simp at hl
  | cons l0 lo ih =>
    intro hi rs h1 h2 hb hr
    match hi, rs, h1, h2 with
    | h0 :: hi, r0 :: rs, h1, h2 =>
      have ih' := ih hi rs (by simpa using h1) (by simpa using h2)
        (fun i l h hl hh => hb (i + 1) l h (by simpa using hl) (by simpa using hh))
        (fun r hr' => hr r (List.mem_cons_of_mem _ hr'))
      simp only [ctlSampleR, ctlSample]
      refine ⟨by simp [ih'.1], ?_⟩
      intro i l h x hl hh hx
      cases i with
      | zero =>
        have e1 : l0 = l := by simpa using hl
        have e2 : h0 = h := by simpa using hh
        have e3 : uniformRealR l0 h0 r0 = x := by simpa using hx
        subst e1 e2 e3
        have hr0 := hr r0 (List.mem_cons_self ..)
        exact uniformReal_bounds l0 h0 r0 (hb 0 l0 h0 (by simp) (by simp)) hr0.1 hr0.2
      | succ i =>
        exact ih'.2 i l h x (by simpa using hl) (by simpa using hh) (by simpa using hx)

theorem uniformInt_bounds (lo hi : Int) (r : ℝ) (h : lo ≤ hi) (h0 : 0 ≤ r) (h1 : r < 1) :
    lo ≤ uniformIntR lo hi r ∧ uniformIntR lo hi r ≤ hi := by
  have hlh : (lo : ℝ) ≤ (hi : ℝ) + 1 := by
    have : (lo : ℝ) ≤ (hi : ℝ) := by exact_mod_cast h
    linarith
  have hlt : (lo : ℝ) < (hi : ℝ) + 1 := by
    have : (lo : ℝ) ≤ (hi : ℝ) := by exact_mod_cast h
    linarith
  obtain ⟨b1, _, b3⟩ := uniformReal_bounds (lo : ℝ) ((hi : ℝ) + 1) r hlh h0 h1
  have b3 := b3 hlt
  have hv : @Num.toInt ℝ numReal (@Num.floor ℝ numReal (@uniformReal ℝ numReal (@Num.ofInt ℝ numReal lo)
      (@Num.ofInt ℝ numReal hi + @Num.ofNat ℝ numReal 1) r)) = ⌊uniformRealR (lo : ℝ) ((hi : ℝ) + 1) r⌋ := by
    show (if (0 : ℝ) ≤ ((⌊uniformRealR (lo : ℝ) ((hi : ℝ) + ((1 : ℕ) : ℝ)) r⌋ : ℤ) : ℝ) then
        ⌊((⌊uniformRealR (lo : ℝ) ((hi : ℝ) + ((1 : ℕ) : ℝ)) r⌋ : ℤ) : ℝ)⌋
      else ⌈((⌊uniformRealR (lo : ℝ) ((hi : ℝ) + ((1 : ℕ) : ℝ)) r⌋ : ℤ) : ℝ)⌉) = _
    rw [Int.floor_intCast, Int.ceil_intCast, ite_self, Nat.cast_one]
  have hlo : lo ≤ ⌊uniformRealR (lo : ℝ) ((hi : ℝ) + 1) r⌋ := Int.le_floor.mpr b1
  have hhi : ⌊uniformRealR (lo : ℝ) ((hi : ℝ) + 1) r⌋ < hi + 1 := by
    apply Int.floor_lt.mpr
    push_cast
    exact b3
  unfold uniformIntR uniformInt
  simp only [hv]
  split
  · exact ⟨h, le_refl _⟩
  · exact ⟨hlo, by omega⟩

/-! ## the step-count conversion of `PathControl` at exact real arithmetic -/

/-- `(int)floor(0.5 + duration / stepSize)` and `steps * stepSize` of `Model/Control.lean` at `ℝ` -/
noncomputable abbrev durToStepsR (d res : ℝ) : Int := @durToSteps ℝ numReal d res
noncomputable abbrev durOfStepsR (k : Nat) (h : ℝ) : ℝ := @durOfSteps ℝ numReal k h

theorem durOfSteps_eq (k : Nat) (h : ℝ) : durOfStepsR k h = (k : ℝ) * h := rfl

theorem durToSteps_eq (d res : ℝ) : durToStepsR d res = ⌊(1 / 2 : ℝ) + d / res⌋ := by
  show (if (0 : ℝ) ≤ ((⌊((5 : ℕ) : ℝ) / (10 : ℝ) ^ 1 + d / res⌋ : ℤ) : ℝ) then
      ⌊((⌊((5 : ℕ) : ℝ) / (10 : ℝ) ^ 1 + d / res⌋ : ℤ) : ℝ)⌋
    else ⌈((⌊((5 : ℕ) : ℝ) / (10 : ℝ) ^ 1 + d / res⌋ : ℤ) : ℝ)⌉) = _
  rw [Int.floor_intCast, Int.ceil_intCast, ite_self]
  congr 2
  norm_num

theorem durToSteps_round (k : ℕ) (h d : ℝ) (hq : |d / h - k| < 1 / 2) : durToStepsR d h = k := by
  rw [durToSteps_eq, Int.floor_eq_iff]
  have := abs_lt.mp hq
  constructor
  · push_cast; linarith [this.1]
  · push_cast; linarith [this.2]

theorem durToSteps_exact (k : ℕ) (h : ℝ) (hh : 0 < h) : durToStepsR (durOfStepsR k h) h = k := by
  apply durToSteps_round
  rw [durOfSteps_eq, mul_div_assoc, div_self (ne_of_gt hh), mul_one, sub_self, abs_zero]
  norm_num

/-- the quotient of the truncation witness -/
theorem trunc_witness_quot : ((6 - 1 / 2 ^ 50) * (7 / 10) : ℝ) / (7 / 10) = 6 - 1 / 2 ^ 50 := by
  rw [mul_div_assoc, div_self (by norm_num), mul_one]

theorem trunc_witness :
    |((6 - 1 / 2 ^ 50) * (7 / 10) : ℝ) / (7 / 10) - ((6 : ℕ) : ℝ)| < 1 / 2 ∧
    durToStepsR ((6 - 1 / 2 ^ 50) * (7 / 10)) (7 / 10) = 6 ∧
    ⌊((6 - 1 / 2 ^ 50) * (7 / 10) : ℝ) / (7 / 10)⌋ = 5 := by
  have hq : |((6 - 1 / 2 ^ 50) * (7 / 10) : ℝ) / (7 / 10) - ((6 : ℕ) : ℝ)| < 1 / 2 := by
    rw [trunc_witness_quot, abs_lt]
    constructor <;> norm_num
  refine ⟨hq, ?_, ?_⟩
  · exact_mod_cast durToSteps_round 6 _ _ hq
  · rw [trunc_witness_quot, Int.floor_eq_iff]
    constructor <;> norm_num

/-! ## the samplers of `Model/ControlReconf.lean` at exact real arithmetic -/

open OmplModel.ControlReconf in
/-- `RealVectorControlUniformSampler::sample` from the bounds handed in, raw draws in `[0, 1)` -/
theorem sampleReal_bounds {ρ : Type} (raw : ρ → ℝ × ρ) (hraw : ∀ g, 0 ≤ (raw g).1 ∧ (raw g).1 < 1) :
    ∀ (lo hi : List ℝ) (g : ρ), hi.length = lo.length →
      (∀ (i : Nat) (l h : ℝ), lo[i]? = some l → hi[i]? = some h → l ≤ h) →
      (@sampleReal ℝ ρ numReal raw lo hi g).1.length = lo.length ∧
      ∀ (i : Nat) (l h x : ℝ), lo[i]? = some l → hi[i]? = some h →
        (@sampleReal ℝ ρ numReal raw lo hi g).1[i]? = some x → l ≤ x ∧ x ≤ h := by
  intro lo
  induction lo with
  | nil =>
    intro hi g _ _
    refine ⟨by cases hi <;> simp [sampleReal], ?_⟩
    intro i l h x hl; simp at hl
  | cons l0 lo ih =>
    intro hi g h1 hb
    match hi, h1 with
    | h0 :: hi, h1 =>
      have ih' := ih hi (raw g).2 (by simpa using h1)
        (fun i l h hl hh => hb (i + 1) l h (by simpa using hl) (by simpa using hh))
      simp only [sampleReal]
      refine ⟨by simp [ih'.1], ?_⟩
      intro i l h x hl hh hx
      cases i with
      | zero =>
        have e1 : l0 = l := by simpa using hl
        have e2 : h0 = h := by simpa using hh
        have e3 : uniformRealR l0 h0 (raw g).1 = x := by simpa using hx
        subst e1 e2 e3
        have b := uniformReal_bounds l0 h0 (raw g).1 (hb 0 l0 h0 (by simp) (by simp)) (hraw g).1 (hraw g).2
        exact ⟨b.1, b.2.1⟩
      | succ i =>
        exact ih'.2 i l h x (by simpa using hl) (by simpa using hh) (by simpa using hx)

open OmplModel.ControlReconf in
/-- a draw of either sampler lies within the bounds it was handed -/
theorem sampleCtl_inB {ρ : Type} (raw : ρ → ℝ × ρ) (hraw : ∀ g, 0 ≤ (raw g).1 ∧ (raw g).1 < 1)
    (b : CBounds ℝ) (g : ρ) (hb : WFB (· ≤ ·) b) :
    InB (· ≤ ·) b (@sampleCtl ℝ ρ numReal raw b g).1 := by
  cases b with
  | real lo hi =>
    exact sampleReal_bounds raw hraw lo hi g hb.1 hb.2
  | disc lo hi =>
    exact uniformInt_bounds lo hi (raw g).1 hb (hraw g).1 (hraw g).2

open OmplModel.ControlReconf in
/-- `sampleStepCount(a, b) ∈ [a, b]` -/
theorem sampleSteps_range {ρ : Type} (raw : ρ → ℝ × ρ) (hraw : ∀ g, 0 ≤ (raw g).1 ∧ (raw g).1 < 1)
    (a b : Nat) (g : ρ) (h : a ≤ b) :
    a ≤ (@sampleSteps ℝ ρ numReal raw a b g).1 ∧ (@sampleSteps ℝ ρ numReal raw a b g).1 ≤ b := by
  have hb := uniformInt_bounds (Int.ofNat a) (Int.ofNat b) (raw g).1 (Int.ofNat_le.mpr h) (hraw g).1 (hraw g).2
  show a ≤ (uniformIntR (Int.ofNat a) (Int.ofNat b) (raw g).1).toNat ∧ (uniformIntR (Int.ofNat a) (Int.ofNat b) (raw g).1).toNat ≤ b
  have h1 : (a : Int) ≤ uniformIntR (Int.ofNat a) (Int.ofNat b) (raw g).1 := hb.1
  have h2 : uniformIntR (Int.ofNat a) (Int.ofNat b) (raw g).1 ≤ (b : Int) := hb.2
  omega

end OmplModel.ControlReal
