import OmplModel.Model.SpaceDistX
import OmplModel.Proofs.SpaceDistLaws
/-!
Laws of the spaces of `Model/SpaceDistX.lean` over ℝ: EmptyStateSpace, SpaceTimeStateSpace, the constrained
spaces (ambient distance) and the CForest wrapper (forwarding).  `none` is `+∞`.
-/
namespace OmplModel.SpaceDist
open OmplModel
attribute [-instance] OmplModel.Num.instOfNat

theorem fltEps_real : (fltEps : ℝ) = 1 / 8388608 := by
  show ((1:ℕ):ℝ) / ((8388608:ℕ):ℝ) = _
  norm_num
theorem fltEps_pos : (0:ℝ) < fltEps := by rw [fltEps_real]; norm_num

/-! ### EmptyStateSpace -/
theorem empty_dist (a b : St ℝ) : distX (.empty : SpaceX ℝ) a b = some 0 := by
  simp only [distX]; rw [rvDist_self]

theorem empty_equal (a b : St ℝ) (ha : inDom (SpaceX.empty : SpaceX ℝ).layout a)
    (hb : inDom (SpaceX.empty : SpaceX ℝ).layout b) : equalX (.empty : SpaceX ℝ) a b = true := by
  simp only [SpaceX.layout] at ha hb
  cases a <;> cases b <;> simp only [inDom] at ha hb
  rename_i xs ys
  have hx : xs = [] := by cases xs with | nil => rfl | cons _ _ => simp [rvIn] at ha
  have hy : ys = [] := by cases ys with | nil => rfl | cons _ _ => simp [rvIn] at hb
  subst hx hy
  simp [equalX, SpaceX.layout, equalStates, rvEqual]

/-! ### constrained spaces and the CForest wrapper: pure forwarding (all by `rfl`) -/
theorem constrained_forwards (amb : Space ℝ) (a b : St ℝ) :
    distX (.constrained amb) a b = some (dist amb a b) ∧ equalX (.constrained amb) a b = equalStates amb a b ∧
    inBoundsX (.constrained amb) a = satisfiesBounds amb a ∧ extentX (.constrained amb) = some (maxExtent amb) ∧
    claimsMetricX (.constrained amb) = false := ⟨rfl, rfl, rfl, rfl, rfl⟩

theorem cforest_forwards (s : SpaceX ℝ) (a b : St ℝ) :
    distX (.cforest s) a b = distX s a b ∧ equalX (.cforest s) a b = equalX s a b ∧
    inBoundsX (.cforest s) a = inBoundsX s a ∧ extentX (.cforest s) = extentX s ∧
    claimsMetricX (.cforest s) = claimsMetricX s := ⟨rfl, rfl, rfl, rfl, rfl⟩

theorem base_forwards (s : Space ℝ) (a b : St ℝ) :
    distX (.base s) a b = some (dist s a b) ∧ equalX (.base s) a b = equalStates s a b ∧
    inBoundsX (.base s) a = satisfiesBounds s a ∧ extentX (.base s) = some (maxExtent s) ∧
    claimsMetricX (.base s) = claimsMetric s := ⟨rfl, rfl, rfl, rfl, rfl⟩

/-! ### SpaceTimeStateSpace -/
theorem spacetime_shape {w1 w2 : ℝ} {bd : Bool} {lo hi : ℝ} {inner : Space ℝ} {a : St ℝ}
    (h : inDom (.ccons w1 inner (.ccons w2 (.time bd lo hi) .cnil)) a) :
    ∃ a1 t, a = .ccons a1 (.ccons (.time t) .cnil) ∧ inDom inner a1 := by
  obtain ⟨a1, a2, rfl, h1, h2⟩ := ccons_shape h
  obtain ⟨b1, b2, rfl, h3, h4⟩ := ccons_shape h2
  cases b1 <;> simp only [inDom] at h3
  cases b2 <;> simp only [inDom] at h4
  exact ⟨a1, _, rfl, h1⟩

theorem spacetime_dist_real (vmax w0 w1 : ℝ) (bd : Bool) (lo hi : ℝ) (inner : Space ℝ) (a1 b1 : St ℝ) (t1 t2 : ℝ) :
    distX (.spacetime vmax w0 w1 bd lo hi inner) (.ccons a1 (.ccons (.time t1) .cnil)) (.ccons b1 (.ccons (.time t2) .cnil)) =
      if |t1 - t2| + fltEps < dist inner a1 b1 / vmax then none
      else some (w0 * dist inner a1 b1 + w1 * |t1 - t2|) := by
  simp only [distX, timeDist_real]
  rfl

/-- the constructor: refused outside `[0, 1]`, otherwise the weights are `1 - timeWeight` and `timeWeight` -/
theorem mkSpacetime_real (vmax tw : ℝ) (bd : Bool) (lo hi : ℝ) (inner : Space ℝ) :
    SpaceX.mkSpacetime? vmax tw bd lo hi inner =
      if tw < 0 ∨ 1 < tw then none else some (.spacetime vmax (1 - tw) tw bd lo hi inner) := by
  simp only [SpaceX.mkSpacetime?, NumR.ofNat_eq, Nat.cast_one, Nat.cast_zero, Bool.or_eq_true, decide_eq_true_eq]

/-- zero to itself, symmetric; when finite: non-negative, and positive between states that are not `equalStates`
(for ANY two positive weights, however small — the code has no cut-off here).  The triangle inequality is not claimed
(`isMetricSpace()` is false). -/
theorem spacetime_laws (vmax w0 w1 : ℝ) (bd : Bool) (lo hi : ℝ) (inner : Space ℝ) (h0 : 0 < w0)
    (h1 : 0 < w1) (L : Laws inner) :
    (∀ a, inDom (SpaceX.spacetime vmax w0 w1 bd lo hi inner).layout a →
      distX (.spacetime vmax w0 w1 bd lo hi inner) a a = some 0) ∧
    (∀ a b, inDom (SpaceX.spacetime vmax w0 w1 bd lo hi inner).layout a →
      inDom (SpaceX.spacetime vmax w0 w1 bd lo hi inner).layout b →
      distX (.spacetime vmax w0 w1 bd lo hi inner) a b = distX (.spacetime vmax w0 w1 bd lo hi inner) b a) ∧
    (∀ a b d, inDom (SpaceX.spacetime vmax w0 w1 bd lo hi inner).layout a →
      inDom (SpaceX.spacetime vmax w0 w1 bd lo hi inner).layout b →
      distX (.spacetime vmax w0 w1 bd lo hi inner) a b = some d →
      0 ≤ d ∧ (equalX (.spacetime vmax w0 w1 bd lo hi inner) a b = false → 0 < d)) := by
  have he := fltEps_pos
  refine ⟨?_, ?_, ?_⟩
  · intro a ha
    obtain ⟨a1, t, rfl, h⟩ := spacetime_shape ha
    rw [spacetime_dist_real, L.self a1 h]
    have : ¬ (|t - t| + fltEps < (0:ℝ) / vmax) := by simp; linarith
    rw [if_neg this]; simp
  · intro a b ha hb
    obtain ⟨a1, t1, rfl, h1'⟩ := spacetime_shape ha
    obtain ⟨b1, t2, rfl, h2'⟩ := spacetime_shape hb
    rw [spacetime_dist_real, spacetime_dist_real, L.symm a1 b1 h1' h2', abs_sub_comm t1 t2]
  · intro a b d ha hb hd
    obtain ⟨a1, t1, rfl, h1'⟩ := spacetime_shape ha
    obtain ⟨b1, t2, rfl, h2'⟩ := spacetime_shape hb
    rw [spacetime_dist_real] at hd
    split_ifs at hd with hc
    have hd' : w0 * dist inner a1 b1 + w1 * |t1 - t2| = d := by simpa using hd
    have hn := L.nonneg a1 b1 h1' h2'
    have ht := abs_nonneg (t1 - t2)
    constructor
    · rw [← hd']; positivity
    · intro hne
      simp only [equalX, SpaceX.layout, equalStates, Bool.and_eq_false_iff, Bool.and_true] at hne
      rw [← hd']
      rcases hne with hne | hne
      · have := L.pos a1 b1 h1' h2' hne
        have : 0 < w0 * dist inner a1 b1 := mul_pos h0 this
        have : 0 ≤ w1 * |t1 - t2| := mul_nonneg h1.le ht
        linarith
      · have hpos := timeDist_pos t1 t2 hne
        rw [timeDist_real] at hpos
        have : 0 < w1 * |t1 - t2| := mul_pos h1 hpos
        have : 0 ≤ w0 * dist inner a1 b1 := mul_nonneg h0.le hn
        linarith

/-! ### Torus / Möbius / Klein / Sphere with weights changed by `setSubspaceWeight` (F361) -/
theorem mobiusDistW_r (w0 w1 u1 v1 u2 v2 : ℝ) :
    mobiusDistW w0 w1 u1 v1 u2 v2 =
      if |u2 - u1| ≤ Real.pi then w0 * so2Dist u1 u2 + w1 * |v1 - v2| else w0 * so2Dist u1 u2 + |(-v2) - v1| := by
  have h : mobiusDistW w0 w1 u1 v1 u2 v2 =
      if |u2 - u1| ≤ Real.pi then ((0:ℕ):ℝ) + w0 * so2Dist u1 u2 + w1 * rvDist [v1] [v2]
      else ((0:ℕ):ℝ) + w0 * so2Dist u1 u2 + Real.sqrt ((-v2 - v1) * (-v2 - v1)) := rfl
  rw [h, Seam.rvDist1_r, Real.sqrt_mul_self_eq_abs]
  norm_num

theorem extent2_r (w0 w1 e0 e1 : ℝ) (h0 : 0 < w0) (h1 : 0 < w1) : extent2 false w0 w1 e0 e1 = w0 * e0 + w1 * e1 := by
  have k0 : @LT.lt ℝ instNumReal.toLT (Num.ofNat 0) w0 := by simpa using h0
  have k1 : @LT.lt ℝ instNumReal.toLT (Num.ofNat 0) w1 := by simpa using h1
  simp only [extent2, Bool.false_eq_true, if_false, decide_eq_true_eq, k0, k1, if_true]
  simp

/-- with the default weights the weighted model IS the unweighted one -/
theorem mobiusDistW_default (u1 v1 u2 v2 : ℝ) : mobiusDistW 1 1 u1 v1 u2 v2 = mobiusDist u1 v1 u2 v2 := by
  rw [mobiusDistW_r, Seam.mobiusDist_r]; simp

/-- F361 witness: Möbius strip (intervalMax 1) with weights `(1, 1/10)`: the in-bounds states `(-1.6, 1)`, `(1.6, 1)` are at
distance `2π − 3.2 + 2` (the gluing branch ignores the second weight), the reported extent is `π + 1/5`. -/
theorem mobius_weighted_extent_exceeded :
    extentX (.weighted (.mobius 1 1) 1 (1 / 10) : SpaceX ℝ) = some (Real.pi + 1 / 5) ∧
    distX (.weighted (.mobius 1 1) 1 (1 / 10) : SpaceX ℝ) (.ccons (.so2 (-1.6)) (.ccons (.rv [1]) .cnil))
      (.ccons (.so2 1.6) (.ccons (.rv [1]) .cnil)) = some (2 * Real.pi - 3.2 + 2) ∧
    Real.pi + 1 / 5 < 2 * Real.pi - 3.2 + 2 := by
  have hpl := Real.pi_gt_d2
  have hpu := Real.pi_lt_d2
  refine ⟨?_, ?_, by linarith⟩
  · simp only [extentX, extentW]
    rw [extent2_r _ _ _ _ (by norm_num) (by norm_num), Seam.rvExtent1_r]
    norm_num
  · simp only [distX]
    rw [mobiusDistW_r, Seam.so2Dist_r]
    have e1 : |(1.6:ℝ) - (-1.6)| = 3.2 := by norm_num
    have e2 : |(-1.6:ℝ) - 1.6| = 3.2 := by norm_num [abs_of_neg]
    have e3 : |(-1:ℝ) - 1| = 2 := by norm_num [abs_of_neg]
    rw [e1, e2, e3, if_neg (by linarith), if_pos (by linarith)]
    norm_num

/-! ### zero weights -/
/-- a compound with a zero weight still CLAIMS to be a metric space (all components do) … -/
theorem zero_weight_claims_metric :
    claimsMetric (.ccons 0 .so2 (.ccons 1 (.rv [0] [1]) .cnil) : Space ℝ) = true := rfl

end OmplModel.SpaceDist
