import OmplModel.Proofs.Interleave
/-!
The enumerator `schedules` and the quantifier "every complete scheduler" describe the same interleavings:
every enumerated scheduler is complete, and every complete scheduler has the trace of an enumerated one
(stutter steps removed).  Core Lean only.
-/
namespace OmplModel.Interleave

variable {α : Type}

theorem all_isEmpty_iff (ts : List (List α)) : ts.all List.isEmpty = true ↔ ∀ t ∈ ts, t = [] := by
  simp [List.all_eq_true, List.isEmpty_iff]

theorem schedulesFuel_of_all_empty (fuel : Nat) (ts : List (List α)) (h : ∀ t ∈ ts, t = []) :
    schedulesFuel fuel ts = [[]] := by
  cases fuel with
  | zero => rfl
  | succ f => simp only [schedulesFuel, (all_isEmpty_iff ts).mpr h, if_true]

theorem schedulesFuel_complete (fuel : Nat) (ts : List (List α)) (is : List Nat)
    (hm : is ∈ schedulesFuel fuel ts) (hf : totalLen ts ≤ fuel) : Complete ts is := by
  induction fuel generalizing ts is with
  | zero =>
    simp only [schedulesFuel, List.mem_singleton] at hm
    subst hm
    have h0 : totalLen ts = 0 := by omega
    exact totalLen_eq_zero.mp h0
  | succ f ih =>
    simp only [schedulesFuel] at hm
    split at hm
    · rename_i hall
      simp only [List.mem_singleton] at hm
      subst hm
      exact (all_isEmpty_iff ts).mp hall
    · simp only [List.mem_flatMap, List.mem_range] at hm
      obtain ⟨i, _, hi⟩ := hm
      split at hi
      · rename_i a rest hget
        simp only [List.mem_map] at hi
        obtain ⟨is', his', rfl⟩ := hi
        have hl := totalLen_set hget
        have := ih (ts.set i rest) is' his' (by omega)
        simpa [Complete, remain, hget] using this
      · simp at hi

/-- every enumerated scheduler runs all threads to their end -/
theorem schedules_complete (ts : List (List α)) (is : List Nat) (h : is ∈ schedules ts) : Complete ts is :=
  schedulesFuel_complete _ ts is h (Nat.le_refl _)

theorem complete_mem_schedulesFuel (ts : List (List α)) (is : List Nat) (hc : Complete ts is) (fuel : Nat)
    (hf : totalLen ts ≤ fuel) : ∃ js ∈ schedulesFuel fuel ts, trace ts js = trace ts is := by
  induction is generalizing ts fuel with
  | nil =>
    refine ⟨[], ?_, rfl⟩
    rw [schedulesFuel_of_all_empty fuel ts hc]
    exact List.mem_singleton.mpr rfl
  | cons i is ih =>
    cases hget : ts[i]? with
    | none =>
      have hc' : Complete ts is := by simpa [Complete, remain, hget] using hc
      obtain ⟨js, hjs, htr⟩ := ih ts hc' fuel hf
      exact ⟨js, hjs, by simp [trace, hget, htr]⟩
    | some t =>
      cases t with
      | nil =>
        have hc' : Complete ts is := by simpa [Complete, remain, hget] using hc
        obtain ⟨js, hjs, htr⟩ := ih ts hc' fuel hf
        exact ⟨js, hjs, by simp [trace, hget, htr]⟩
      | cons a rest =>
        have hl := totalLen_set hget
        have hc' : Complete (ts.set i rest) is := by simpa [Complete, remain, hget] using hc
        obtain ⟨f, rfl⟩ : ∃ f, fuel = f + 1 := ⟨fuel - 1, by omega⟩
        obtain ⟨js, hjs, htr⟩ := ih (ts.set i rest) hc' f (by omega)
        have hlt : i < ts.length := by
          rcases Nat.lt_or_ge i ts.length with h' | h'
          · exact h'
          · rw [List.getElem?_eq_none h'] at hget; cases hget
        have hne : ¬ (ts.all List.isEmpty = true) := by
          intro hall
          have := (all_isEmpty_iff ts).mp hall _ (List.mem_of_getElem? hget)
          cases this
        refine ⟨i :: js, ?_, by simp [trace, hget, htr]⟩
        have hne' : ts.all List.isEmpty = false := by simpa using hne
        simp only [schedulesFuel, hne', Bool.false_eq_true, if_false, List.mem_flatMap, List.mem_range]
        refine ⟨i, hlt, ?_⟩
        simp only [hget, List.mem_map]
        exact ⟨js, hjs, rfl⟩

/-- every complete scheduler executes the same step sequence as some enumerated scheduler -/
theorem complete_mem_schedules (ts : List (List α)) (is : List Nat) (hc : Complete ts is) :
    ∃ js ∈ schedules ts, trace ts js = trace ts is :=
  complete_mem_schedulesFuel ts is hc _ (Nat.le_refl _)

end OmplModel.Interleave
