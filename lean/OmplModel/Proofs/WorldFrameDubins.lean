import OmplModel.Proofs.DubinsReach
import OmplModel.Proofs.DubinsRevCurve
import OmplModel.Proofs.RSBack
import OmplModel.Proofs.WorldFrameYaw
import Mathlib.Tactic.Linarith
import Mathlib.Tactic.Ring
import Mathlib.Tactic.LinearCombination
/-!
World-frame end-point correctness of the Dubins `interpolate` (C14, round 4), over ℝ.

`dubinsStates rho s1 s2` computes `d = |s2 − s1| / rho`, `th = atan2(dy, dx)` and feeds
`(d, mod2pi(s1.th − th), mod2pi(s2.th − th))` to the solvers; `interpPath` integrates the returned word
from `(0, 0, s1.th)` at unit radius, scales by `rho` and translates by `s1`.  The word-reach theorems of
round 1 (`solve_reaches`) live in the normalised frame: start `(0, 0, α)`, goal `(d, 0, β)`.  Here they
are lifted: integration commutes with rigid motions of the start pose (`integFull_fwd_move`; the rigid
motion `move` is the one of `Proofs/RSBack.lean`), the rotation by `th` maps `(d, 0)` to
`(dx, dy) / rho` (`Dubins.polar`), and `· rho` undoes `/ rho`.
-/
namespace OmplModel.Dubins
open OmplModel DubinsR OmplModel.RS
attribute [-instance] Num.instOfNat

/-! ## rigid motions -/

/-- one forward step commutes with a rigid motion of the start pose -/
theorem stepFwd_move (s : Seg) (v a b g : ℝ) (P : Pose ℝ) :
    stepFwd s v (move a b g P) = move a b g (stepFwd s v P) := by
  cases s
  · exact rsStep_move .L v a b g P
  · exact rsStep_move .S v a b g P
  · exact rsStep_move .R v a b g P

/-- one step of the `reverse_` loop commutes with a rigid motion of the start pose -/
theorem stepRev_move (s : Seg) (v a b g : ℝ) (P : Pose ℝ) :
    stepRev s v (move a b g P) = move a b g (stepRev s v P) := by
  rw [stepRev_eq_neg, stepRev_eq_neg, stepFwd_move]

theorem integFull_move (step : Seg → ℝ → Pose ℝ → Pose ℝ)
    (hs : ∀ s v a b g P, step s v (move a b g P) = move a b g (step s v P))
    (segs : List (Seg × ℝ)) (a b g : ℝ) (P : Pose ℝ) :
    integFull step segs (move a b g P) = move a b g (integFull step segs P) := by
  induction segs generalizing P with
  | nil => rfl
  | cons hd tl ih =>
    obtain ⟨s, l⟩ := hd
    show integFull step tl (step s l (move a b g P)) = move a b g (integFull step tl (step s l P))
    rw [hs, ih]

theorem integFull_fwd_move (segs : List (Seg × ℝ)) (a b g : ℝ) (P : Pose ℝ) :
    integFull stepFwd segs (move a b g P) = move a b g (integFull stepFwd segs P) :=
  integFull_move stepFwd stepFwd_move segs a b g P

theorem integFull_rev_move (segs : List (Seg × ℝ)) (a b g : ℝ) (P : Pose ℝ) :
    integFull stepRev segs (move a b g P) = move a b g (integFull stepRev segs P) :=
  integFull_move stepRev stepRev_move segs a b g P

/-- rotating the start pose `(0, 0, α)` about the origin -/
theorem move_heading (α g : ℝ) : move 0 0 g ⟨0, 0, α⟩ = ⟨0, 0, α + g⟩ := by
  simp [move]

/-! ## `interpolate` with the whole length as budget -/

/-- forward path, non-negative lengths: `interpolate(from, path, 1, ·)` drives the whole word -/
theorem interpPath_one_fwd (rho : ℝ) (frm : Pose ℝ) (P : Path ℝ) (hrev : P.rev = false)
    (ht : 0 ≤ P.t) (hp : 0 ≤ P.p) (hq : 0 ≤ P.q) :
    interpPath rho frm P 1 =
      ⟨(integFull stepFwd P.segList ⟨0, 0, frm.th⟩).x * rho + frm.x,
       (integFull stepFwd P.segList ⟨0, 0, frm.th⟩).y * rho + frm.y,
       so2Enforce (integFull stepFwd P.segList ⟨0, 0, frm.th⟩).th⟩ := by
  unfold interpPath
  simp only [hrev, Bool.false_eq_true, if_false, ofNat_zero]
  rw [one_mul, ← segList_sum, integ_total stepFwd stepFwd_zero _ (segList_nonneg P ht hp hq)]

/-- reversed path, non-negative lengths: `interpolate(from, path, 1, ·)` drives the whole reversed word -/
theorem interpPath_one_rev (rho : ℝ) (frm : Pose ℝ) (P : Path ℝ) (hrev : P.rev = true)
    (ht : 0 ≤ P.t) (hp : 0 ≤ P.p) (hq : 0 ≤ P.q) :
    interpPath rho frm P 1 =
      ⟨(integFull stepRev P.segList ⟨0, 0, frm.th⟩).x * rho + frm.x,
       (integFull stepRev P.segList ⟨0, 0, frm.th⟩).y * rho + frm.y,
       so2Enforce (integFull stepRev P.segList ⟨0, 0, frm.th⟩).th⟩ := by
  unfold interpPath
  simp only [hrev, if_true, ofNat_zero]
  rw [one_mul, ← segList_sum, integ_total stepRev stepRev_zero _ (segList_nonneg P ht hp hq)]

/-- `interpolate(from, path, 0, ·)` does not move (forward or `reverse_`, any lengths) -/
theorem interpPath_zero (rho : ℝ) (frm : Pose ℝ) (P : Path ℝ) :
    interpPath rho frm P 0 = ⟨frm.x, frm.y, so2Enforce frm.th⟩ := by
  unfold interpPath
  simp only [ofNat_zero]
  rw [zero_mul, integ_of_nonpos _ _ _ _ le_rfl]
  simp

theorem sqrt_mul_self_add (dx dy : ℝ) :
    Real.sqrt (dx * dx + dy * dy) = Real.sqrt (dx ^ 2 + dy ^ 2) := by
  rw [sq, sq]

/-! ## the world frame, forward -/

/-- the unit-radius end pose of a solver's word driven from `(0, 0, s1.th)`: scaled by `rho` its position
is the displacement `s2 − s1`, its heading is `s2.th` modulo 2π.  `(d, α, β)` is the normalised triple
`dubinsStates` computes from `s1`, `s2` (any representatives of the two angles modulo 2π). -/
theorem solve_end_world (m2p : ℝ → ℝ) (hm : Exact m2p) (w : Word)
    (rho : ℝ) (hrho : 0 < rho) (s1 s2 : Pose ℝ) (α β : ℝ)
    (hα : ∃ k₁ : ℤ, α = s1.th - Complex.arg ⟨s2.x - s1.x, s2.y - s1.y⟩ + k₁ * (2 * Real.pi))
    (hβ : ∃ k₂ : ℤ, β = s2.th - Complex.arg ⟨s2.x - s1.x, s2.y - s1.y⟩ + k₂ * (2 * Real.pi))
    (P : Path ℝ)
    (hb : NoClamp w (Real.sqrt ((s2.x - s1.x) * (s2.x - s1.x) + (s2.y - s1.y) * (s2.y - s1.y)) / rho) α β)
    (h : solve m2p w (Real.sqrt ((s2.x - s1.x) * (s2.x - s1.x) + (s2.y - s1.y) * (s2.y - s1.y)) / rho) α β
      = some P) :
    P.rev = false ∧
    (integFull stepFwd P.segList ⟨0, 0, s1.th⟩).x * rho = s2.x - s1.x ∧
    (integFull stepFwd P.segList ⟨0, 0, s1.th⟩).y * rho = s2.y - s1.y ∧
    ∃ k : ℤ, (integFull stepFwd P.segList ⟨0, 0, s1.th⟩).th = s2.th + k * (2 * Real.pi) := by
  obtain ⟨k₁, hk₁⟩ := hα
  obtain ⟨k₂, hk₂⟩ := hβ
  obtain ⟨_, hrev, hx, hy, k, hth⟩ := solve_reaches m2p hm w _ α β P hb h
  have hstart : (⟨0, 0, s1.th⟩ : Pose ℝ) = move 0 0 (s1.th - α) ⟨0, 0, α⟩ := by
    rw [move_heading]; congr 1; ring
  rw [hstart, integFull_fwd_move]
  generalize integFull stepFwd P.segList ⟨0, 0, α⟩ = G at hx hy hth
  obtain ⟨gx, gy, gth⟩ := G
  simp only at hx hy hth
  subst hy
  obtain ⟨hpc, hps⟩ := polar (s2.x - s1.x) (s2.y - s1.y)
  rw [← sqrt_mul_self_add] at hpc hps
  have hg : s1.th - α = Complex.arg ⟨s2.x - s1.x, s2.y - s1.y⟩ + ((-k₁ : ℤ) : ℝ) * (2 * Real.pi) := by
    rw [hk₁]; push_cast; ring
  have hc := cos_shift hg
  have hs := sin_shift hg
  have hX : gx * rho = Real.sqrt ((s2.x - s1.x) * (s2.x - s1.x) + (s2.y - s1.y) * (s2.y - s1.y)) := by
    rw [hx, div_mul_cancel₀ _ hrho.ne']
  simp only [move]
  rw [hc, hs]
  refine ⟨hrev, ?_, ?_, k₂ + k - k₁, ?_⟩
  · linear_combination Real.cos (Complex.arg ⟨s2.x - s1.x, s2.y - s1.y⟩) * hX + hpc
  · linear_combination Real.sin (Complex.arg ⟨s2.x - s1.x, s2.y - s1.y⟩) * hX + hps
  · rw [hth, hk₁, hk₂]; push_cast; ring

/-- **world-frame end point, forward**: for the normalised triple `(d, α, β)` that `dubinsStates` computes
from `s1`, `s2` (any representatives of the two angles modulo 2π), the path a word solver returns,
interpolated at `t = 1` from `s1`, is `s2` (yaw modulo 2π, then wrapped by `enforceBounds`) -/
theorem dubins_interp_one_world (m2p : ℝ → ℝ) (hm : Exact m2p) (hnn : ∀ x, 0 ≤ m2p x) (w : Word)
    (rho : ℝ) (hrho : 0 < rho) (s1 s2 : Pose ℝ) (α β : ℝ)
    (hα : ∃ k₁ : ℤ, α = s1.th - Complex.arg ⟨s2.x - s1.x, s2.y - s1.y⟩ + k₁ * (2 * Real.pi))
    (hβ : ∃ k₂ : ℤ, β = s2.th - Complex.arg ⟨s2.x - s1.x, s2.y - s1.y⟩ + k₂ * (2 * Real.pi))
    (P : Path ℝ)
    (hb : NoClamp w (Real.sqrt ((s2.x - s1.x) * (s2.x - s1.x) + (s2.y - s1.y) * (s2.y - s1.y)) / rho) α β)
    (h : solve m2p w (Real.sqrt ((s2.x - s1.x) * (s2.x - s1.x) + (s2.y - s1.y) * (s2.y - s1.y)) / rho) α β
      = some P) :
    ∃ k : ℤ, interpPath rho s1 P 1 = ⟨s2.x, s2.y, so2Enforce (s2.th + k * (2 * Real.pi))⟩ := by
  obtain ⟨hrev, hx, hy, k, hth⟩ := solve_end_world m2p hm w rho hrho s1 s2 α β hα hβ P hb h
  obtain ⟨h1, h2, h3⟩ := word_lengths_nonneg m2p hnn w _ α β P h
  refine ⟨k, ?_⟩
  rw [interpPath_one_fwd rho s1 P hrev h1 h2 h3, hx, hy, hth]
  refine congr (congr (congrArg Pose.mk ?_) ?_) rfl <;> ring

/-! ## the world frame, reversed (`reverse_`) -/

/-- **world-frame end point, reversed**: `P2` is a solver's path for the REVERSED pair (from `s2` to `s1`,
normalised accordingly).  Marked `reverse_` and interpolated at `t = 1` from `s1` it ends at `s2`
(yaw modulo 2π, then wrapped). -/
theorem dubins_interp_one_world_rev (m2p : ℝ → ℝ) (hm : Exact m2p) (hnn : ∀ x, 0 ≤ m2p x) (w : Word)
    (rho : ℝ) (hrho : 0 < rho) (s1 s2 : Pose ℝ) (α β : ℝ)
    (hα : ∃ k₁ : ℤ, α = s2.th - Complex.arg ⟨s1.x - s2.x, s1.y - s2.y⟩ + k₁ * (2 * Real.pi))
    (hβ : ∃ k₂ : ℤ, β = s1.th - Complex.arg ⟨s1.x - s2.x, s1.y - s2.y⟩ + k₂ * (2 * Real.pi))
    (P2 : Path ℝ)
    (hb : NoClamp w (Real.sqrt ((s1.x - s2.x) * (s1.x - s2.x) + (s1.y - s2.y) * (s1.y - s2.y)) / rho) α β)
    (h : solve m2p w (Real.sqrt ((s1.x - s2.x) * (s1.x - s2.x) + (s1.y - s2.y) * (s1.y - s2.y)) / rho) α β
      = some P2) :
    ∃ k : ℤ, interpPath rho s1 { P2 with rev := true } 1 =
      ⟨s2.x, s2.y, so2Enforce (s2.th + k * (2 * Real.pi))⟩ := by
  obtain ⟨hrev, hx, hy, K, hth⟩ := solve_end_world m2p hm w rho hrho s2 s1 α β hα hβ P2 hb h
  obtain ⟨h1, h2, h3⟩ := word_lengths_nonneg m2p hnn w _ α β P2 h
  refine ⟨-K, ?_⟩
  rw [interpPath_one_rev rho s1 { P2 with rev := true } rfl h1 h2 h3, segList_rev P2 hrev]
  have hret := integFull_rev_retraces P2.segList ⟨0, 0, s2.th⟩
  generalize integFull stepFwd P2.segList ⟨0, 0, s2.th⟩ = E at hx hy hth hret
  obtain ⟨ex, ey, eth⟩ := E
  simp only at hx hy hth
  have hg : -((K : ℝ) * (2 * Real.pi)) = 0 + ((-K : ℤ) : ℝ) * (2 * Real.pi) := by push_cast; ring
  have hc : Real.cos (-((K : ℝ) * (2 * Real.pi))) = 1 := by rw [cos_shift hg, Real.cos_zero]
  have hs : Real.sin (-((K : ℝ) * (2 * Real.pi))) = 0 := by rw [sin_shift hg, Real.sin_zero]
  have hstart : (⟨0, 0, s1.th⟩ : Pose ℝ) = move (-ex) (-ey) (-((K : ℝ) * (2 * Real.pi))) ⟨ex, ey, eth⟩ := by
    simp only [move, hc, hs]
    refine congr (congr (congrArg Pose.mk ?_) ?_) ?_
    · ring
    · ring
    · rw [hth]; ring
  rw [hstart, integFull_rev_move, hret]
  simp only [move, hc, hs]
  refine congr (congr (congrArg Pose.mk ?_) ?_) (congrArg so2Enforce ?_)
  · linear_combination (-1 : ℝ) * hx
  · linear_combination (-1 : ℝ) * hy
  · push_cast; ring

/-- the degenerate early return `zeroPath d` = `LSL (0, d, 0)`: a straight segment of length `rho·d` along
the START heading -/
theorem zeroPath_interp_one (rho d : ℝ) (hd : 0 ≤ d) (s1 : Pose ℝ) :
    interpPath rho s1 (zeroPath d) 1 =
      ⟨s1.x + rho * d * Real.cos s1.th, s1.y + rho * d * Real.sin s1.th, so2Enforce s1.th⟩ := by
  have hz : (zeroPath d : Path ℝ) = ⟨.LSL, 0, d, 0, false⟩ := by
    unfold zeroPath; simp only [ofNat_zero]
  rw [hz, interpPath_one_fwd rho s1 _ rfl le_rfl hd le_rfl]
  have he : integFull stepFwd (Path.segList (⟨.LSL, 0, d, 0, false⟩ : Path ℝ)) ⟨0, 0, s1.th⟩ =
      ⟨0 + d * Real.cos s1.th, 0 + d * Real.sin s1.th, s1.th⟩ := by
    show stepFwd .L 0 (stepFwd .S d (stepFwd .L 0 ⟨0, 0, s1.th⟩)) = _
    rw [stepFwd_zero, stepFwd_zero, stepFwd_S]
  rw [he]
  refine congr (congr (congrArg Pose.mk ?_) ?_) rfl <;> ring

/-- world frame: the straight-line distance is at most `rho · length` -/
theorem dubins_world_len_ge (m2p : ℝ → ℝ) (hm : Exact m2p) (hnn : ∀ x, 0 ≤ m2p x) (w : Word)
    (rho : ℝ) (hrho : 0 < rho) (D α β : ℝ) (hD : 0 ≤ D) (P : Path ℝ)
    (hb : NoClamp w (D / rho) α β) (h : solve m2p w (D / rho) α β = some P) : D ≤ rho * P.len := by
  have h1 := solve_len_ge m2p hm hnn w (D / rho) α β P hb (div_nonneg hD hrho.le) h
  rw [div_le_iff₀ hrho] at h1
  linarith

/-- `interpolate(from, to, t, ·)` over ℝ: the two shortcut returns and the path branch -/
theorem interpolate_of_one_le (rho : ℝ) (sym : Bool) (frm tgt : Pose ℝ) (t : ℝ) (h : 1 ≤ t) :
    interpolate rho sym frm tgt t = some tgt := by
  unfold interpolate
  simp only [ofNat_one, ofNat_zero]
  rw [if_pos h]

theorem interpolate_of_nonpos (rho : ℝ) (sym : Bool) (frm tgt : Pose ℝ) (t : ℝ) (h : t ≤ 0) :
    interpolate rho sym frm tgt t = some frm := by
  unfold interpolate
  simp only [ofNat_one, ofNat_zero]
  rw [if_neg (by linarith), if_pos h]

theorem interpolate_mid (rho : ℝ) (sym : Bool) (frm tgt : Pose ℝ) (t : ℝ) (h0 : 0 < t) (h1 : t < 1)
    (P : Path ℝ) (hP : choosePath rho sym frm tgt = .path P) :
    interpolate rho sym frm tgt t = some (interpPath rho frm P t) := by
  unfold interpolate
  simp only [ofNat_one, ofNat_zero]
  rw [if_neg (by linarith), if_neg (by linarith), hP]

/-- for coincident poses `dubinsStates` takes the degenerate early return -/
theorem dubinsStates_self (rho : ℝ) (s : Pose ℝ) : dubinsStates rho s s = .path (zeroPath 0) := by
  unfold dubinsStates dubins
  simp only [sqrt_eq, atan2_eq, sub_self, mul_zero, add_zero, Real.sqrt_zero, zero_div]
  have hdeg : degenerate (0 : ℝ) (mod2pi (s.th - Complex.arg ⟨0, 0⟩)) (mod2pi (s.th - Complex.arg ⟨0, 0⟩)) = true := by
    unfold degenerate
    simp only [abs_eq, eps_eq, sub_self, abs_zero, Bool.and_eq_true, decide_eq_true_eq]
    constructor <;> positivity
  rw [if_pos hdeg]

end OmplModel.Dubins
