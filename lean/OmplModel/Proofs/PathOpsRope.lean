/-
Proofs about `ropeShortcutPathG` of `OmplModel.Model.PathOps` (model of
`PathSimplifier::ropeShortcutPathG`, src/ompl/geometric/src/PathSimplifier.cpp lines 187-291).
Core Lean only.
-/
import OmplModel.Model.PathOps
import OmplModel.Proofs.PathOpsDensify

namespace OmplModel.PathOps

variable {σ γ : Type}

/-! ## ropeDensify -/

theorem ropeDensify_ne_nil (E : RopeEnv σ γ) (l : List σ) (h : l ≠ []) : ropeDensify E l ≠ [] := by
  match l with
  | [] => exact absurd rfl h
  | [_] => simp [ropeDensify]
  | _ :: _ :: _ => simp [ropeDensify]

theorem ropeDensify_head? (E : RopeEnv σ γ) (l : List σ) : (ropeDensify E l).head? = l.head? := by
  match l with
  | [] => simp [ropeDensify]
  | [_] => simp [ropeDensify]
  | _ :: _ :: _ => simp [ropeDensify]

theorem ropeDensify_getLast? (E : RopeEnv σ γ) (l : List σ) :
    (ropeDensify E l).getLast? = l.getLast? := by
  induction l with
  | nil => simp [ropeDensify]
  | cons a r ih =>
    cases r with
    | nil => simp [ropeDensify]
    | cons b r' =>
      rw [ropeDensify, getLast?_cons_append_of_ne_nil _ _ _ (ropeDensify_ne_nil E _ (by simp)), ih,
        List.getLast?_cons_cons]

theorem ropeDensify_sublist (E : RopeEnv σ γ) (l : List σ) : l.Sublist (ropeDensify E l) := by
  induction l with
  | nil => simp [ropeDensify]
  | cons a r ih =>
    cases r with
    | nil => simp [ropeDensify]
    | cons b r' =>
      rw [ropeDensify]
      exact List.Sublist.cons_cons _ (List.Sublist.trans ih (List.sublist_append_right _ _))

theorem ropeDensify_length_ge (E : RopeEnv σ γ) (l : List σ) : l.length ≤ (ropeDensify E l).length :=
  (ropeDensify_sublist E l).length_le

/-- (x, y) is a motion of the chain a, interpK a b n 0, …, interpK a b n (n-1), b for some n -/
def InChain (E : RopeEnv σ γ) (x y a b : σ) : Prop := ∃ n, (x, y) ∈ adj (a :: (inters E a b n ++ [b]))

/-- `Derived E inp (x, y)`: (x,y) is a piece of an input motion or of a motion checkMotion answered
true for -/
def Derived (E : RopeEnv σ γ) (inp : List σ) (p : σ × σ) : Prop :=
  ∃ a b, ((a, b) ∈ adj inp ∨ E.cm a b = true) ∧ InChain E p.1 p.2 a b

theorem inChain_self (E : RopeEnv σ γ) (a b : σ) : InChain E a b a b :=
  ⟨0, by simp [inters, adj]⟩

theorem derived_of_adj (E : RopeEnv σ γ) (inp : List σ) (p : σ × σ) (h : p ∈ adj inp) :
    Derived E inp p :=
  ⟨p.1, p.2, Or.inl h, inChain_self E _ _⟩

/-- every motion of the densified path is a piece of an input motion -/
theorem ropeDensify_adj (E : RopeEnv σ γ) (l : List σ) :
    ∀ p ∈ adj (ropeDensify E l), ∃ a b, (a, b) ∈ adj l ∧ InChain E p.1 p.2 a b := by
  induction l with
  | nil => simp [ropeDensify, adj]
  | cons a r ih =>
    cases r with
    | nil => simp [ropeDensify, adj]
    | cons b r' =>
      intro p hp
      rw [ropeDensify] at hp
      have hp' : p ∈ adj ((a :: inters E a b (E.nInter a b)) ++ ropeDensify E (b :: r')) := hp
      have hab : (a, b) ∈ adj (a :: b :: r') := by simp [adj]
      rcases mem_adj_append _ _ p hp' with h | h | ⟨x, y, hx, hy, rfl⟩
      · exact ⟨a, b, hab, E.nInter a b, mem_adj_append_left (a :: inters E a b _) [b] p h⟩
      · obtain ⟨a', b', h1, h2⟩ := ih p h
        exact ⟨a', b', mem_adj_cons a _ _ h1, h2⟩
      · rw [ropeDensify_head?] at hy
        simp only [List.head?_cons, Option.some.injEq] at hy
        subst hy
        exact ⟨a, b, hab, E.nInter a b, mem_adj_seam (a :: inters E a b _) [b] x b hx rfl⟩

theorem ropeDensify_derived (E : RopeEnv σ γ) (l : List σ) :
    ∀ p ∈ adj (ropeDensify E l), Derived E l p := by
  intro p hp
  obtain ⟨a, b, h1, h2⟩ := ropeDensify_adj E l p hp
  exact ⟨a, b, Or.inl h1, h2⟩

/-! ## the invariant of the two loops -/

/-- `st` has the end points of `inp` and consists of derived motions only -/
def Good (E : RopeEnv σ γ) (inp st : List σ) : Prop :=
  st.head? = inp.head? ∧ st.getLast? = inp.getLast? ∧ ∀ p ∈ adj st, Derived E inp p

/-- what one run of the `j` loop on `st` guarantees -/
def JOk (E : RopeEnv σ γ) (fixed : Bool) (inp st : List σ) : JRes σ → Prop
  | .ret st' changed o => Good E inp st' ∧ (changed = false → st' = st) ∧ (fixed = true → o = false)
  | .next => True
  | .restart st' o => Good E inp st' ∧ (fixed = true → o = false)
  | .err => False

theorem cumCostsFrom_length (E : RopeEnv σ γ) (acc : γ) (l : List σ) :
    (cumCostsFrom E acc l).length = l.length := by
  induction l generalizing acc with
  | nil => rfl
  | cons a r ih =>
    cases r with
    | nil => rfl
    | cons b r' => simp only [cumCostsFrom, List.length_cons, ih]

theorem cumCosts_length (E : RopeEnv σ γ) (l : List σ) : (cumCosts E l).length = l.length :=
  cumCostsFrom_length E _ l

theorem length_take_succ (st : List σ) (i : Nat) (hi : i < st.length) :
    (st.take (i + 1)).length = i + 1 := by
  rw [List.length_take]; omega

theorem erase_get_i (st : List σ) (i d : Nat) (hi : i < st.length) :
    (st.take (i + 1) ++ st.drop d)[i]? = some st[i] := by
  rw [List.getElem?_append_left (by rw [length_take_succ st i hi]; omega)]
  simp [hi]

theorem erase_get_succ (st : List σ) (i d : Nat) (hi : i < st.length) (hd : d < st.length) :
    (st.take (i + 1) ++ st.drop d)[i + 1]? = some st[d] := by
  rw [List.getElem?_append_right (by rw [length_take_succ st i hi]; omega), length_take_succ st i hi]
  simp [hd]

theorem erase_take (st : List σ) (i d : Nat) (hi : i < st.length) :
    (st.take (i + 1) ++ st.drop d).take (i + 1) = st.take (i + 1) := by
  rw [List.take_append_of_le_length (by rw [length_take_succ st i hi]; omega)]
  rw [List.take_take]; simp

theorem erase_drop (st : List σ) (i d : Nat) (hi : i < st.length) :
    (st.take (i + 1) ++ st.drop d).drop (i + 1) = st.drop d := by
  have := length_take_succ st i hi
  rw [List.drop_append_of_le_length (by omega), List.drop_of_length_le (by omega), List.nil_append]

theorem eraseChk_ok (st : List σ) (a b : Nat) (hab : a ≤ b) (hb : b ≤ st.length) :
    eraseChk st a b = some (st.take a ++ st.drop b) := by
  simp [eraseChk, eraseRange, hab, hb]

/-- the shortcut step keeps the invariant -/
theorem good_splice (E : RopeEnv σ γ) (inp st : List σ) (i d n : Nat) (hG : Good E inp st)
    (hi : i < st.length) (hd : d < st.length) (hcm : E.cm st[i] st[d] = true) :
    Good E inp (st.take (i + 1) ++ inters E st[i] st[d] n ++ st.drop d) := by
  obtain ⟨h1, h2, h3⟩ := splice_aux st i d (inters E st[i] st[d] n) hi hd
  refine ⟨h1.trans hG.1, h2.trans hG.2.1, ?_⟩
  intro p hp
  rcases h3 p hp with h | h
  · exact hG.2.2 p h
  · exact ⟨st[i], st[d], Or.inr hcm, n, h⟩

theorem JOk_ite (E : RopeEnv σ γ) (fixed : Bool) (inp st : List σ) (c : Prop) [Decidable c]
    (X : List σ) (o : Bool) (hG : Good E inp X) (ho : fixed = true → o = false) :
    JOk E fixed inp st (if c then .ret X true o else .restart X o) := by
  split
  · exact ⟨hG, fun h => absurd h (by simp), ho⟩
  · exact ⟨hG, ho⟩

theorem ropeInner_ok (E : RopeEnv σ γ) (fixed : Bool) (inp st : List σ) (i : Nat)
    (hG : Good E inp st) : ∀ j, j < st.length → JOk E fixed inp st (ropeInnerG E fixed st i j) := by
  intro j
  induction j with
  | zero => intro _; simp [ropeInnerG, JOk]
  | succ j ih =>
    intro hj
    have ihj := ih (by omega)
    rw [ropeInnerG]
    split
    · trivial
    · rename_i hij
      have hi : i < st.length := by omega
      have hc : (cumCosts E st).length = st.length := cumCosts_length E st
      rw [List.getElem?_eq_getElem hi, List.getElem?_eq_getElem hj]
      dsimp only
      split
      · rename_i hcm
        rw [List.getElem?_eq_getElem (show j + 1 < (cumCosts E st).length by omega),
          List.getElem?_eq_getElem (show i < (cumCosts E st).length by omega)]
        dsimp only
        split
        · split
          · exact ⟨hG, fun _ => rfl, fun _ => rfl⟩
          · trivial
        · split
          · rw [eraseChk_ok st (i + 1) (j + 1) (by omega) (by omega)]
            dsimp only
            rw [erase_get_i st i (j + 1) hi, erase_get_succ st i (j + 1) hi hj]
            dsimp only
            rw [erase_take st i (j + 1) hi, erase_drop st i (j + 1) hi]
            have hgood := fun n => good_splice E inp st i (j + 1) n hG hi hj hcm
            have hfix : fixed = true → (if fixed = true then (st[j + 1], false) else
                match (st.take (i + 1) ++ st.drop (j + 1))[j + 1]? with
                | some x => (x, false)
                | none => (st[j + 1], true)).snd = false := by
              intro h; subst h; rfl
            exact JOk_ite E fixed inp st _ _ _ (hgood _) hfix
          · exact ihj
      · exact ihj

theorem ropeOuter_ok (E : RopeEnv σ γ) (fixed : Bool) (inp st0 : List σ) :
    ∀ (fuel : Nat) (st : List σ) (i : Nat) (res oob : Bool), Good E inp st →
      (res = false → st = st0) → (fixed = true → oob = false) →
      ∃ out r o fo, ropeOuterG E fixed fuel st i res oob = some (out, r, o, fo) ∧ Good E inp out ∧
        (r = false → out = st0) ∧ (fixed = true → o = false) := by
  intro fuel
  induction fuel with
  | zero =>
    intro st i res oob hG hres hoob
    exact ⟨st, res, oob, true, rfl, hG, hres, hoob⟩
  | succ fuel ih =>
    intro st i res oob hG hres hoob
    rw [ropeOuterG]
    split
    · have hk := ropeInner_ok E fixed inp st i hG (st.length - 1) (by omega)
      generalize ropeInnerG E fixed st i (st.length - 1) = jr at hk
      cases jr with
      | ret st' changed o =>
        obtain ⟨h1, h2, h3⟩ := hk
        refine ⟨st', res || changed, oob || o, false, rfl, h1, ?_, ?_⟩
        · intro h
          rw [Bool.or_eq_false_iff] at h
          rw [h2 h.2, hres h.1]
        · intro h
          rw [hoob h, h3 h]; rfl
      | next => exact ih st (i + 1) res oob hG hres hoob
      | restart st' o =>
        obtain ⟨h1, h3⟩ := hk
        refine ih st' 0 true (oob || o) h1 (fun h => absurd h (by simp)) ?_
        intro h
        rw [hoob h, h3 h]; rfl
      | err => exact absurd hk (by simp [JOk])
    · exact ⟨st, res, oob, false, rfl, hG, hres, hoob⟩

theorem good_self (E : RopeEnv σ γ) (path : List σ) : Good E path path :=
  ⟨rfl, rfl, derived_of_adj E path⟩

theorem good_densify (E : RopeEnv σ γ) (path : List σ) : Good E path (ropeDensify E path) :=
  ⟨ropeDensify_head? E path, ropeDensify_getLast? E path, ropeDensify_derived E path⟩

/-- everything at once -/
theorem rope_spec (E : RopeEnv σ γ) (fixed : Bool) (fuel : Nat) (path : List σ) :
    ∃ out r o fo, ropeShortcutPathG E fixed fuel path = some (out, r, o, fo) ∧ Good E path out ∧
      (r = false → out = path ∨ out = ropeDensify E path) ∧ (fixed = true → o = false) := by
  rw [ropeShortcutPathG]
  split
  · exact ⟨path, false, false, false, rfl, good_self E path, fun _ => Or.inl rfl, fun _ => rfl⟩
  · obtain ⟨out, r, o, fo, h1, h2, h3, h4⟩ :=
      ropeOuter_ok E fixed path (ropeDensify E path) fuel (ropeDensify E path) 0 false false
        (good_densify E path) (fun _ => rfl) (fun _ => rfl)
    exact ⟨out, r, o, fo, h1, h2, fun h => Or.inr (h3 h), h4⟩

/-! ## the required statements -/

/-- checked indexing: apart from the flagged stale read, no index of the routine is ever out of
range and no erase range is ill-formed (the model never returns `none`) -/
theorem rope_indices_partial (E : RopeEnv σ γ) (fixed : Bool) (fuel : Nat) (path : List σ) :
    (ropeShortcutPathG E fixed fuel path).isSome = true := by
  obtain ⟨out, r, o, fo, h, _⟩ := rope_spec E fixed fuel path
  rw [h]; rfl

/-- the repaired variant never reads past the end -/
theorem rope_fixed_no_oob {E : RopeEnv σ γ} {fuel : Nat} {path out : List σ} {r oob fo : Bool}
    (h : ropeShortcutPathG E true fuel path = some (out, r, oob, fo)) : oob = false := by
  obtain ⟨out', r', o', fo', h', _, _, h4⟩ := rope_spec E true fuel path
  rw [h] at h'
  simp only [Option.some.injEq, Prod.mk.injEq] at h'
  obtain ⟨_, _, rfl, _⟩ := h'
  exact h4 rfl

theorem rope_keeps_first {E : RopeEnv σ γ} {fixed : Bool} {fuel : Nat} {path out : List σ}
    {r oob fo : Bool} (h : ropeShortcutPathG E fixed fuel path = some (out, r, oob, fo)) :
    out.head? = path.head? := by
  obtain ⟨out', r', o', fo', h', hG, _, _⟩ := rope_spec E fixed fuel path
  rw [h] at h'
  simp only [Option.some.injEq, Prod.mk.injEq] at h'
  obtain ⟨rfl, _, _, _⟩ := h'
  exact hG.1

theorem rope_keeps_last {E : RopeEnv σ γ} {fixed : Bool} {fuel : Nat} {path out : List σ}
    {r oob fo : Bool} (h : ropeShortcutPathG E fixed fuel path = some (out, r, oob, fo)) :
    out.getLast? = path.getLast? := by
  obtain ⟨out', r', o', fo', h', hG, _, _⟩ := rope_spec E fixed fuel path
  rw [h] at h'
  simp only [Option.some.injEq, Prod.mk.injEq] at h'
  obtain ⟨rfl, _, _, _⟩ := h'
  exact hG.2.1

/-- only validated motions: every motion of the result is a piece (in the chain sense) of an input
motion or of a motion for which checkMotion returned true -/
theorem rope_only_validated {E : RopeEnv σ γ} {fixed : Bool} {fuel : Nat} {path out : List σ}
    {r oob fo : Bool} (h : ropeShortcutPathG E fixed fuel path = some (out, r, oob, fo)) :
    ∀ p ∈ adj out, Derived E path p := by
  obtain ⟨out', r', o', fo', h', hG, _, _⟩ := rope_spec E fixed fuel path
  rw [h] at h'
  simp only [Option.some.injEq, Prod.mk.injEq] at h'
  obtain ⟨rfl, _, _, _⟩ := h'
  exact hG.2.2

/-- return value false ⇒ only the densification happened -/
theorem rope_false_unchanged {E : RopeEnv σ γ} {fixed : Bool} {fuel : Nat} {path out : List σ}
    {oob fo : Bool} (h : ropeShortcutPathG E fixed fuel path = some (out, false, oob, fo)) :
    out = path ∨ out = ropeDensify E path := by
  obtain ⟨out', r', o', fo', h', _, h3, _⟩ := rope_spec E fixed fuel path
  rw [h] at h'
  simp only [Option.some.injEq, Prod.mk.injEq] at h'
  obtain ⟨rfl, rfl, _, _⟩ := h'
  exact h3 rfl

/-! ## F9 witnesses (the unchanged tree, `fixed = false`) -/

/-- every motion is valid and costs 1 (hop count), nothing is ever interpolated -/
def f9Env : RopeEnv Nat Nat where
  cm := fun _ _ => true
  nInter := fun _ _ => 0
  interpK := fun a _ _ _ => a
  identity := 0
  combine := (· + ·)
  motion := fun _ _ => 1
  subtract := (· - ·)
  better := fun a b => decide (a < b)
  eqCost := 0

/-- F9: on a three-state path the shortcut 0→2 erases index 1 and then reads `states[2]` of a
two-element vector -/
theorem rope_oob : ∃ out r fo, ropeShortcutPathG f9Env false 10 [0, 1, 2] = some (out, r, true, fo) :=
  ⟨[0, 2], true, false, by decide⟩

/-- the same input is harmless with the repair -/
theorem rope_oob_fixed : ropeShortcutPathG f9Env true 10 [0, 1, 2] = some ([0, 2], true, false, false) := by
  decide

/-- `|a - b|` -/
def absDiff (a b : Nat) : Nat := (a - b) + (b - a)

/-- points on a line: distance and cost `|a - b|`, `delta = 4`, linear interpolation, motions longer
than 4 are invalid, `equivalenceTolerance = 0` -/
def f9Env2 : RopeEnv Nat Nat where
  cm := fun a b => decide (absDiff a b ≤ 4)
  nInter := fun a b => if absDiff a b > 4 then absDiff a b / 4 else 0
  interpK := fun a b n k => if a ≤ b then a + (b - a) * (k + 1) / (n + 1) else a - (a - b) * (k + 1) / (n + 1)
  identity := 0
  combine := (· + ·)
  motion := absDiff
  subtract := (· - ·)
  better := fun a b => decide (a < b)
  eqCost := 0

/-- F9, second face: when the stale index is still in range it names a DIFFERENT state than the
intended `states[i+1]`.  Path `0, 4, 2, 6, 10, 14` (all segments of length ≤ delta = 4, nothing to
densify): the shortcut `0 → 2` (i = 0, j = 2) erases index 1; now `states[j] = 6`, so the unchanged
code computes `distance(0, 6) = 6 > delta`, i.e. one intermediate state, and inserts the midpoint `1`
of the segment `0 → 2` whose real length 2 calls for none; the repaired code reads `states[i+1] = 2`. -/
theorem rope_stale_wrong_state :
    ropeShortcutPathG f9Env2 false 10 [0, 4, 2, 6, 10, 14] = some ([0, 1, 2, 6, 10, 14], true, false, false) ∧
    ropeShortcutPathG f9Env2 true 10 [0, 4, 2, 6, 10, 14] = some ([0, 2, 6, 10, 14], true, false, false) := by
  constructor <;> decide

/-- the out-of-range read in the geometric environment -/
theorem rope_oob_line : ropeShortcutPathG f9Env2 false 10 [0, 4, 2] = some ([0, 2], true, true, false) := by
  decide

end OmplModel.PathOps
