import OmplModel.Model.MotionReconf
import OmplModel.Proofs.Motion
/-!
Lemmas for round 10 of C05 (core Lean only): the configuration machine reads "last write wins"; the world-threading
versions of the two checks compute the pure checks whenever the answers do not depend on the world, and leave the world
as the fold of the questions' side effects.
-/
namespace OmplModel.Motion

/-! ### configuration histories -/

section hist
variable {ρ φ δ : Type} (E : Env ρ φ δ) (c0 : Config ρ φ)

theorem after_checker (h : List (Op ρ φ δ)) : (c0.after E h).checker = lastChecker c0.checker h := by
  induction h with
  | nil => rfl
  | cons op h ih => cases op <;> simp [Config.after, Config.step, lastChecker, ih]

theorem after_pending (h : List (Op ρ φ δ)) : (c0.after E h).pending = lastResolution c0.pending h := by
  induction h with
  | nil => rfl
  | cons op h ih => cases op <;> simp [Config.after, Config.step, lastResolution, ih]

theorem after_factor (h : List (Op ρ φ δ)) : (c0.after E h).factor = lastFactor c0.factor h := by
  induction h with
  | nil => rfl
  | cons op h ih => cases op <;> simp [Config.after, Config.step, lastFactor, ih]

theorem after_val (h : List (Op ρ φ δ)) : (c0.after E h).val = lastValidator c0.val h := by
  induction h with
  | nil => rfl
  | cons op h ih => cases op <;> simp [Config.after, Config.step, lastValidator, ih]

theorem after_effective (h : List (Op ρ φ δ)) :
    (c0.after E h).effective = effectiveResolution c0.pending c0.effective h := by
  induction h with
  | nil => rfl
  | cons op h ih =>
    cases op with
    | setValidator v s =>
      cases s <;> simp [Config.after, Config.step, effectiveResolution, ih, after_pending]
    | setup => simp [Config.after, Config.step, effectiveResolution, after_pending]
    | _ => simp [Config.after, Config.step, effectiveResolution, ih]

theorem lastChecker_dropChecks (k : Nat) (h : List (Op ρ φ δ)) : lastChecker k (dropChecks h) = lastChecker k h := by
  induction h with
  | nil => rfl
  | cons op h ih => cases op <;> simp [dropChecks, lastChecker, ih]

theorem lastResolution_dropChecks (r : ρ) (h : List (Op ρ φ δ)) :
    lastResolution r (dropChecks h) = lastResolution r h := by
  induction h with
  | nil => rfl
  | cons op h ih => cases op <;> simp [dropChecks, lastResolution, ih]

theorem lastFactor_dropChecks (f : φ) (h : List (Op ρ φ δ)) : lastFactor f (dropChecks h) = lastFactor f h := by
  induction h with
  | nil => rfl
  | cons op h ih => cases op <;> simp [dropChecks, lastFactor, ih]

theorem lastValidator_dropChecks (v : Validator) (h : List (Op ρ φ δ)) :
    lastValidator v (dropChecks h) = lastValidator v h := by
  induction h with
  | nil => rfl
  | cons op h ih => cases op <;> simp [dropChecks, lastValidator, ih]

theorem effectiveResolution_dropChecks (p e : ρ) (h : List (Op ρ φ δ)) :
    effectiveResolution p e (dropChecks h) = effectiveResolution p e h := by
  induction h with
  | nil => rfl
  | cons op h ih =>
    cases op with
    | setValidator v s => cases s <;> simp [dropChecks, effectiveResolution, ih, lastResolution_dropChecks]
    | setup => simp [dropChecks, effectiveResolution, lastResolution_dropChecks]
    | _ => simp [dropChecks, effectiveResolution, ih]

end hist

/-! ### world-threading checks -/

theorem linScanW_fst (ask : Ask) (v : Nat → Bool) (h : ∀ j w, (ask j w).1 = v j) (j k : Nat) (w : World) :
    (linScanW ask j k w).1 = linScan v j k := by
  induction k generalizing j w with
  | zero => rfl
  | succ k ih =>
    simp only [linScanW, linScan, h]
    split
    · simp [ih]
    · rfl

theorem linScanW_snd (ask : Ask) (v : Nat → Bool) (h : ∀ j w, (ask j w).1 = v j) (j k : Nat) (w : World) :
    (linScanW ask j k w).2 = (linScan v j k).1.foldl (fun w j => (ask j w).2) w := by
  induction k generalizing j w with
  | zero => rfl
  | succ k ih =>
    simp only [linScanW, linScan, h]
    split
    · simp [ih]
    · rfl

theorem bisectLoopW_fst (ask : Ask) (v : Nat → Bool) (h : ∀ j w, (ask j w).1 = v j) (q : List (Nat × Nat))
    (w : World) : (bisectLoopW ask q w).1 = bisectLoop v q := by
  fun_induction bisectLoop v q generalizing w with
  | case1 => simp [bisectLoopW]
  | case2 lo hi rest hv r ih =>
    rw [bisectLoopW]
    simp only [h, hv, if_true]
    rw [ih]
  | case3 lo hi rest hv =>
    rw [bisectLoopW]
    simp [h, hv]

theorem bisectLoopW_snd (ask : Ask) (v : Nat → Bool) (h : ∀ j w, (ask j w).1 = v j) (q : List (Nat × Nat))
    (w : World) : (bisectLoopW ask q w).2 = (bisectLoop v q).2.foldl (fun w j => (ask j w).2) w := by
  fun_induction bisectLoop v q generalizing w with
  | case1 => simp [bisectLoopW]
  | case2 lo hi rest hv r ih =>
    rw [bisectLoopW]
    simp only [h, hv, if_true]
    rw [ih]
    rfl
  | case3 lo hi rest hv =>
    rw [bisectLoopW]
    simp [h, hv]

/-- the pure check of either form. -/
def checkPure (threeArg : Bool) (n : Nat) (v : Nat → Bool) : Result :=
  if threeArg then checkLinear n v else checkBisect n v

/-- whenever the answers do not depend on the world, the world-threading check returns the pure check's result and
leaves the world as the side effects of its questions, in order, with one counter bumped at the end. -/
theorem checkW_spec (three : Bool) (ask : Ask) (v : Nat → Bool) (h : ∀ j w, (ask j w).1 = v j) (n : Nat) (w : World) :
    checkW three ask n w =
      (checkPure three n v,
        ((checkPure three n v).queries.foldl (fun w j => (ask j w).2) w).bump
          (checkPure three n v).dValid (checkPure three n v).dInvalid) := by
  cases three with
  | true =>
    simp only [checkW, checkPure, if_true, checkLinearW, checkLinear]
    by_cases hn : 1 < n
    · simp only [hn, if_true, linScanW_fst ask v h, linScanW_snd ask v h]
      cases hr : (linScan v 1 (n - 1)).2 with
      | some j => simp
      | none =>
        simp only [h]
        by_cases hv : v n = true
        · simp [hv, List.foldl_append]
        · simp [hv, List.foldl_append]
    · simp only [hn, if_false, h]
      by_cases hv : v n = true
      · simp [hv]
      · simp [hv]
  | false =>
    simp only [checkW, checkPure, checkBisectW, checkBisect, checkBisectGen, h]
    by_cases hv : v n = true
    · simp only [hv, Bool.not_true, if_false, Bool.false_eq_true]
      by_cases hn : 2 ≤ n
      · simp only [hn, if_true, bisectLoopW_fst ask v h, bisectLoopW_snd ask v h]
        by_cases hb : (bisectLoop v [(1, n - 1)]).1 = true
        · simp [hb]
        · simp [hb]
      · simp [hn]
    · simp [hv]

/-! ### the hook -/

def iter (f : World → World) : Nat → World → World
  | 0, w => w
  | m + 1, w => iter f m (f w)

theorem foldl_const (f : World → World) (l : List Nat) (w : World) :
    l.foldl (fun w _ => f w) w = iter f l.length w := by
  induction l generalizing w with
  | nil => rfl
  | cons a l ih => simp [iter, ih]

/-- with a scratch state of its own, a question's answer is the predicate's, whatever the hook does. -/
theorem askVia_own_fst (mid n : Nat) (v : Nat × Nat → Bool) (hook : World → World) (j : Nat) (w : World) :
    (askVia false mid n v hook j w).1 = v (mid, j) := by
  simp [askVia]

theorem askVia_own_snd (mid n : Nat) (v : Nat × Nat → Bool) (hook : World → World) (j : Nat) (w : World) :
    (askVia false mid n v hook j w).2 = hook w := by
  simp [askVia]

/-- a nested call with its own scratch state: the pure result, one counter bumped, nothing else touched. -/
theorem nestedCall_own (three : Bool) (n' : Nat) (v : Nat × Nat → Bool) (w : World) :
    nestedCall false three n' v w =
      (checkPure three n' (fun j => v (1, j)),
        w.bump (checkPure three n' (fun j => v (1, j))).dValid (checkPure three n' (fun j => v (1, j))).dInvalid) := by
  unfold nestedCall
  rw [checkW_spec three _ (fun j => v (1, j)) (fun j w => askVia_own_fst 1 n' v id j w)]
  have : ∀ (l : List Nat) (w : World), l.foldl (fun w j => (askVia false 1 n' v id j w).2) w = w := by
    intro l
    induction l with
    | nil => intro w; rfl
    | cons a l ih => intro w; rw [List.foldl_cons, askVia_own_snd]; exact ih w
  rw [this]

/-- the world after `m` questions of the outer call, in closed form. -/
def afterQuestions (k : Nat) (R : Result) (m : Nat) (w : World) : World :=
  if w.asked < k ∧ k ≤ w.asked + m then
    { w with cv := w.cv + R.dValid, ci := w.ci + R.dInvalid, asked := w.asked + m, nested := some R }
  else { w with asked := w.asked + m }

theorem iter_hookAt (k : Nat) (three : Bool) (n' : Nat) (v : Nat × Nat → Bool) (m : Nat) (w : World) :
    iter (hookAt false k three n' v) m w = afterQuestions k (checkPure three n' (fun j => v (1, j))) m w := by
  induction m generalizing w with
  | zero =>
    have : ¬ (w.asked < k ∧ k ≤ w.asked + 0) := by omega
    simp only [iter, afterQuestions, if_neg this]
    cases w
    simp
  | succ m ih =>
    simp only [iter]
    rw [ih]
    simp only [hookAt, nestedCall_own]
    by_cases hk : w.asked + 1 = k
    · simp only [hk, if_true, afterQuestions, World.bump]
      have h1 : ¬ (k < k ∧ k ≤ k + m) := by omega
      have h2 : w.asked < k ∧ k ≤ w.asked + (m + 1) := by omega
      simp only [h1, h2, if_false]
      subst hk
      cases w
      simp
      omega
    · simp only [hk, if_false, afterQuestions]
      by_cases hc : w.asked < k ∧ k ≤ w.asked + (m + 1)
      · have : w.asked + 1 < k ∧ k ≤ w.asked + 1 + m := by omega
        simp only [hc, this, and_self, if_true]
        cases w
        simp
        omega
      · have : ¬ (w.asked + 1 < k ∧ k ≤ w.asked + 1 + m) := by omega
        simp only [hc, this, if_false]
        cases w
        simp
        omega

/-- for every validator, given a path, the two forms are the two core functions. -/
theorem checkMotion3_path (val : Validator) (n : Nat) (v : Nat → Bool) : checkMotion3 val true n v = checkLinear n v := by
  cases val <;> simp [checkMotion3]

theorem checkMotion2_path (val : Validator) (n : Nat) (v : Nat → Bool) : checkMotion2 val true n v = checkBisect n v := by
  cases val <;> simp [checkMotion2, checkBisect]
  unfold checkBisectGen
  by_cases h : v n = true <;> simp [h]

/-! ### the constrained validator -/

theorem traverseW_fst (ask : Ask) (v : Nat → Bool) (h : ∀ j w, (ask j w).1 = v j) (m : Nat) (geom : Bool) (w : World) :
    (traverseW ask m geom w).1 = traverse m geom v := by
  unfold traverseW traverse
  rw [linScanW_fst ask v h]
  cases (linScan v 1 m).2 <;> rfl

theorem traverseGW_fst (ask : Ask) (v : Nat → Bool) (h : ∀ j w, (ask j w).1 = v j) (mode : TMode) (m : Nat)
    (geom : Bool) (w : World) : (traverseGW ask mode m geom w).1 = traverseG mode m geom v := by
  cases mode <;> simp only [traverseGW, traverseG, h, traverseW_fst ask v h]
  · cases v 0 <;> simp
  · split
    · rfl
    · cases v 0 <;> simp

theorem constrained2GW_fst (ask : Ask) (v : Nat → Bool) (h : ∀ j w, (ask j w).1 = v j) (mode : TMode) (sat : Bool)
    (m : Nat) (geom : Bool) (w : World) :
    (constrained2GW ask mode sat m geom w).1 = constrained2G mode sat m geom v := by
  simp only [constrained2GW, constrained2G, h, traverseGW_fst ask v h]
  cases v (m + 1) <;> cases sat <;> cases (traverseG mode m geom v).1 <;> simp

theorem constrained3GW_fst (ask : Ask) (v : Nat → Bool) (h : ∀ j w, (ask j w).1 = v j) (mode : TMode)
    (hasFirst sat : Bool) (m : Nat) (geom : Bool) (w : World) :
    (constrained3GW ask mode hasFirst sat m geom w).1 = constrained3G mode hasFirst sat m geom v := by
  simp only [constrained3GW, constrained3G, h, traverseGW_fst ask v h]
  cases (traverseG mode m geom v).2.2.2 <;> cases v (m + 1) <;> cases sat <;>
    cases (traverseG mode m geom v).1 <;> simp

end OmplModel.Motion
