import OmplModel.Proofs.SpaceInterpSO3
/-!
C07, SO(3) over ℝ, geodesic facts of the slerp branch for exactly-unit quaternions:
`⟨from, slerp t⟩ = cos(t θ)` (so the *unclamped* arc length is proportional to t), the coded distance
outside the clamp band, and the witness that the clamp band breaks proportionality.

`θ` is always `arcLength from to` (= `arccos |dq|` in the slerp branch, `0` in the copy branch).
-/
open scoped OmplModel.SpaceInterp.RealNum
attribute [-instance] OmplModel.Num.instOfNat

namespace OmplModel.SpaceInterp
open OmplModel Real RealNum

/-- the sign the code gives to the `to` quaternion -/
noncomputable def qsgn (D : ℝ) : ℝ := if D < 0 then -1 else 1

theorem qsgn_mul_self (D : ℝ) : qsgn D * qsgn D = 1 := by unfold qsgn; split_ifs <;> norm_num
theorem qsgn_mul (D : ℝ) : qsgn D * D = |D| := by
  unfold qsgn; split_ifs with h
  · rw [abs_of_neg h]; ring
  · rw [abs_of_nonneg (not_lt.mp h)]; ring
theorem ite_neg_eq_qsgn (D y : ℝ) : (if D < 0 then -y else y) = qsgn D * y := by
  unfold qsgn; split_ifs <;> ring

/-! ### the slerp branch is taken iff `|dq| ≤ 1 - 1e-9` -/

theorem arcLength_big_of_le {x1 y1 z1 w1 x2 y2 z2 w2 : ℝ}
    (h : |quatDot x1 y1 z1 w1 x2 y2 z2 w2| ≤ 1 - 1 / 10 ^ 9) :
    dblEps < arcLength x1 y1 z1 w1 x2 y2 z2 w2 := by
  by_contra hn
  have h0 := arcLength_small hn
  rw [arcLength_eq, if_neg (not_lt.mpr h), Real.arccos_eq_zero] at h0
  norm_num at h
  linarith

theorem arcLength_nonneg (x1 y1 z1 w1 x2 y2 z2 w2 : ℝ) :
    0 ≤ arcLength x1 y1 z1 w1 x2 y2 z2 w2 := by
  rw [arcLength_eq]; split_ifs
  · exact le_refl _
  · exact Real.arccos_nonneg _

theorem arcLength_le_pi_div_two (x1 y1 z1 w1 x2 y2 z2 w2 : ℝ) :
    arcLength x1 y1 z1 w1 x2 y2 z2 w2 ≤ π / 2 := by
  rw [arcLength_eq]; split_ifs
  · exact div_nonneg pi_pos.le (by norm_num)
  · exact Real.arccos_le_pi_div_two.mpr (abs_nonneg _)

/-- `so3Interp` in the slerp branch, with the sign written as a factor -/
theorem so3Interp_closed {x1 y1 z1 w1 x2 y2 z2 w2 : ℝ} (t : ℝ)
    (h : dblEps < arcLength x1 y1 z1 w1 x2 y2 z2 w2) :
    so3Interp x1 y1 z1 w1 x2 y2 z2 w2 t =
      (let θ := arcLength x1 y1 z1 w1 x2 y2 z2 w2
       let d := 1 / Real.sin θ
       let s0 := Real.sin ((1 - t) * θ)
       let s1 := qsgn (quatDot x1 y1 z1 w1 x2 y2 z2 w2) * Real.sin (t * θ)
       .so3 ((x1 * s0 + x2 * s1) * d) ((y1 * s0 + y2 * s1) * d) ((z1 * s0 + z2 * s1) * d)
         ((w1 * s0 + w2 * s1) * d)) := by
  rw [so3Interp_big t h]; simp only [ite_neg_eq_qsgn]

/-! ### scalar trigonometry -/

/-- `sin((1-t)θ) + cos θ sin(tθ) = sin θ cos(tθ)` -/
theorem slerp_dot_from (θ t : ℝ) :
    Real.sin ((1 - t) * θ) + Real.cos θ * Real.sin (t * θ) = Real.sin θ * Real.cos (t * θ) := by
  have e : (1 - t) * θ = θ - t * θ := by ring
  rw [e, Real.sin_sub]; ring

/-- `cos θ sin((1-s)θ) + sin(sθ) = sin θ cos((1-s)θ)` -/
theorem slerp_dot_to (θ s : ℝ) :
    Real.cos θ * Real.sin ((1 - s) * θ) + Real.sin (s * θ) = Real.sin θ * Real.cos ((1 - s) * θ) := by
  have e : s * θ = θ - (1 - s) * θ := by ring
  rw [e, Real.sin_sub]; ring

/-! ### `⟨from, slerp t⟩ = cos(tθ)` -/

theorem quatDot_from_slerp {x1 y1 z1 w1 x2 y2 z2 w2 : ℝ} (t : ℝ)
    (h1 : x1 * x1 + y1 * y1 + z1 * z1 + w1 * w1 = 1)
    (h : dblEps < arcLength x1 y1 z1 w1 x2 y2 z2 w2) :
    ∃ x y z w, so3Interp x1 y1 z1 w1 x2 y2 z2 w2 t = .so3 x y z w ∧
      quatDot x1 y1 z1 w1 x y z w = Real.cos (t * arcLength x1 y1 z1 w1 x2 y2 z2 w2) := by
  rw [so3Interp_closed t h]
  refine ⟨_, _, _, _, rfl, ?_⟩
  have hs := (sin_arcLength_pos h).ne'
  have hc := cos_arcLength h
  have key := slerp_dot_from (arcLength x1 y1 z1 w1 x2 y2 z2 w2) t
  have hq := qsgn_mul (quatDot x1 y1 z1 w1 x2 y2 z2 w2)
  rw [hc, ← hq] at key
  generalize qsgn (quatDot x1 y1 z1 w1 x2 y2 z2 w2) = σ at key ⊢
  rw [quatDot_eq] at key ⊢
  generalize Real.sin ((1 - t) * arcLength x1 y1 z1 w1 x2 y2 z2 w2) = s0 at key ⊢
  generalize Real.sin (t * arcLength x1 y1 z1 w1 x2 y2 z2 w2) = s1 at key ⊢
  generalize Real.cos (t * arcLength x1 y1 z1 w1 x2 y2 z2 w2) = ct at key ⊢
  generalize Real.sin (arcLength x1 y1 z1 w1 x2 y2 z2 w2) = S at key hs ⊢
  field_simp
  linear_combination s0 * h1 + key

/-! ### proportional distance: unclamped, coded outside the band, and the band witness -/

theorem mul_arcLength_mem {x1 y1 z1 w1 x2 y2 z2 w2 t : ℝ} (ht0 : 0 ≤ t) (ht1 : t ≤ 1) :
    0 ≤ t * arcLength x1 y1 z1 w1 x2 y2 z2 w2 ∧ t * arcLength x1 y1 z1 w1 x2 y2 z2 w2 ≤ π / 2 := by
  have h0 := arcLength_nonneg x1 y1 z1 w1 x2 y2 z2 w2
  have h1 := arcLength_le_pi_div_two x1 y1 z1 w1 x2 y2 z2 w2
  exact ⟨mul_nonneg ht0 h0, le_trans (mul_le_of_le_one_left h0 ht1) h1⟩

theorem cos_mul_arcLength_nonneg {x1 y1 z1 w1 x2 y2 z2 w2 t : ℝ} (ht0 : 0 ≤ t) (ht1 : t ≤ 1) :
    0 ≤ Real.cos (t * arcLength x1 y1 z1 w1 x2 y2 z2 w2) := by
  obtain ⟨h0, h1⟩ := mul_arcLength_mem (x1 := x1) (y1 := y1) (z1 := z1) (w1 := w1) (x2 := x2)
    (y2 := y2) (z2 := z2) (w2 := w2) ht0 ht1
  exact Real.cos_nonneg_of_neg_pi_div_two_le_of_le (by linarith [pi_pos]) h1

/-- the *unclamped* arc length `arccos |⟨from, ·⟩|` of the slerp point is `t θ` -/
theorem so3Interp_arc_unclamped {x1 y1 z1 w1 x2 y2 z2 w2 t : ℝ}
    (h1 : x1 * x1 + y1 * y1 + z1 * z1 + w1 * w1 = 1)
    (h : dblEps < arcLength x1 y1 z1 w1 x2 y2 z2 w2) (ht0 : 0 ≤ t) (ht1 : t ≤ 1) :
    ∃ x y z w, so3Interp x1 y1 z1 w1 x2 y2 z2 w2 t = .so3 x y z w ∧
      Real.arccos |quatDot x1 y1 z1 w1 x y z w|
        = t * Real.arccos |quatDot x1 y1 z1 w1 x2 y2 z2 w2| := by
  obtain ⟨x, y, z, w, e, hd⟩ := quatDot_from_slerp t h1 h
  refine ⟨x, y, z, w, e, ?_⟩
  obtain ⟨m0, m1⟩ := mul_arcLength_mem (x1 := x1) (y1 := y1) (z1 := z1) (w1 := w1) (x2 := x2)
    (y2 := y2) (z2 := z2) (w2 := w2) ht0 ht1
  rw [hd, abs_of_nonneg (cos_mul_arcLength_nonneg ht0 ht1),
    Real.arccos_cos m0 (by linarith [pi_pos]), (arcLength_big h).2]

/-- the coded distance is proportional outside the clamp band (`hband`); the copy branch is trivial -/
theorem so3Interp_dist_band {x1 y1 z1 w1 x2 y2 z2 w2 t : ℝ}
    (h1 : x1 * x1 + y1 * y1 + z1 * z1 + w1 * w1 = 1) (ht0 : 0 ≤ t) (ht1 : t ≤ 1)
    (hband : dblEps < arcLength x1 y1 z1 w1 x2 y2 z2 w2 →
      Real.cos (t * arcLength x1 y1 z1 w1 x2 y2 z2 w2) ≤ 1 - 1 / 10 ^ 9) :
    dist .so3 (.so3 x1 y1 z1 w1) (so3Interp x1 y1 z1 w1 x2 y2 z2 w2 t)
      = t * arcLength x1 y1 z1 w1 x2 y2 z2 w2 := by
  by_cases h : dblEps < arcLength x1 y1 z1 w1 x2 y2 z2 w2
  · obtain ⟨x, y, z, w, e, hd⟩ := quatDot_from_slerp t h1 h
    obtain ⟨m0, m1⟩ := mul_arcLength_mem (x1 := x1) (y1 := y1) (z1 := z1) (w1 := w1) (x2 := x2)
      (y2 := y2) (z2 := z2) (w2 := w2) ht0 ht1
    rw [e]
    simp only [dist]
    rw [arcLength_eq x1 y1 z1 w1 x y z w, hd, abs_of_nonneg (cos_mul_arcLength_nonneg ht0 ht1),
      if_neg (not_lt.mpr (hband h)), Real.arccos_cos m0 (by linarith [pi_pos])]
  · rw [so3Interp_small t h]
    simp only [dist]
    rw [(arcLength_self_unit h1).1, arcLength_small h, mul_zero]

/-- inside the band the coded distance of the slerp point is 0 -/
theorem so3Interp_dist_in_band {x1 y1 z1 w1 x2 y2 z2 w2 t : ℝ}
    (h1 : x1 * x1 + y1 * y1 + z1 * z1 + w1 * w1 = 1) (ht0 : 0 ≤ t) (ht1 : t ≤ 1)
    (h : dblEps < arcLength x1 y1 z1 w1 x2 y2 z2 w2)
    (hin : 1 - 1 / 10 ^ 9 < Real.cos (t * arcLength x1 y1 z1 w1 x2 y2 z2 w2)) :
    dist .so3 (.so3 x1 y1 z1 w1) (so3Interp x1 y1 z1 w1 x2 y2 z2 w2 t) = 0 := by
  obtain ⟨x, y, z, w, e, hd⟩ := quatDot_from_slerp t h1 h
  rw [e]
  simp only [dist]
  rw [arcLength_eq x1 y1 z1 w1 x y z w, hd, abs_of_nonneg (cos_mul_arcLength_nonneg ht0 ht1),
    if_pos hin]

/-- witness (F5): orthogonal unit quaternions, t = 1e-6: coded distance 0, but `t * d = t π/2 > 0` -/
theorem so3Interp_dist_witness :
    dist .so3 (.so3 0 0 0 1) (so3Interp (0 : ℝ) 0 0 1 1 0 0 0 (1 / 1000000)) = 0 ∧
      arcLength (0 : ℝ) 0 0 1 1 0 0 0 = π / 2 := by
  have hθ : arcLength (0 : ℝ) 0 0 1 1 0 0 0 = π / 2 := by
    rw [arcLength_eq, quatDot_eq]; norm_num
  have hb : dblEps < arcLength (0 : ℝ) 0 0 1 1 0 0 0 := by
    rw [hθ, dblEps_eq]; linarith [pi_gt_three]
  refine ⟨so3Interp_dist_in_band (by norm_num) (by norm_num) (by norm_num) hb ?_, hθ⟩
  rw [hθ]
  have hc := Real.one_sub_sq_div_two_le_cos (x := 1 / 1000000 * (π / 2))
  have hp : π < 4 := pi_lt_four
  have hp0 := pi_pos
  have : (1 / 1000000 * (π / 2)) ^ 2 / 2 < 1 / 10 ^ 9 := by nlinarith
  linarith

end OmplModel.SpaceInterp
