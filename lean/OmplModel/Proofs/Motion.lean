import OmplModel.Model.Motion
/-!
Helper lemmas for C05 (core Lean only; no arithmetic law of any number type is used: everything
here is about indices, lists and the queue, i.e. `[AF]` in DESIGN's terms).
-/
namespace OmplModel.Motion

/-! ### the linear scan -/

theorem linScan_some {v : Nat → Bool} {j k m : Nat} (h : (linScan v j k).2 = some m) :
    j ≤ m ∧ m < j + k ∧ v m = false ∧ (∀ i, j ≤ i → i < m → v i = true) ∧
      (linScan v j k).1 = List.range' j (m + 1 - j) := by
  induction k generalizing j with
  | zero => simp [linScan] at h
  | succ k ih =>
    unfold linScan at h ⊢
    by_cases hv : v j = true
    · simp only [hv, if_true] at h ⊢
      obtain ⟨h1, h2, h3, h4, h5⟩ := ih h
      refine ⟨by omega, by omega, h3, ?_, ?_⟩
      · intro i hi1 hi2
        by_cases hij : i = j
        · subst hij; exact hv
        · exact h4 i (by omega) hi2
      · rw [h5]
        have : m + 1 - j = (m + 1 - (j + 1)) + 1 := by omega
        rw [this, List.range'_succ]
    · simp only [hv] at h ⊢
      simp only [Bool.false_eq_true, if_false, Option.some.injEq] at h ⊢
      subst h
      refine ⟨by omega, by omega, by simpa using hv, ?_, ?_⟩
      · intro i h1 h2; omega
      · simp

theorem linScan_none {v : Nat → Bool} {j k : Nat} (h : (linScan v j k).2 = none) :
    (∀ i, j ≤ i → i < j + k → v i = true) ∧ (linScan v j k).1 = List.range' j k := by
  induction k generalizing j with
  | zero => exact ⟨by intro i h1 h2; omega, by simp [linScan]⟩
  | succ k ih =>
    unfold linScan at h ⊢
    by_cases hv : v j = true
    · simp only [hv, if_true] at h ⊢
      obtain ⟨h1, h2⟩ := ih h
      refine ⟨?_, ?_⟩
      · intro i hi1 hi2
        by_cases hij : i = j
        · subst hij; exact hv
        · exact h1 i (by omega) (by omega)
      · rw [h2, List.range'_succ]
    · simp [hv] at h

theorem linScan_none_of_all {v : Nat → Bool} {j k : Nat} (h : ∀ i, j ≤ i → i < j + k → v i = true) :
    (linScan v j k).2 = none := by
  cases hr : (linScan v j k).2 with
  | none => rfl
  | some m =>
    obtain ⟨h1, h2, h3, _, _⟩ := linScan_some hr
    have := h m h1 h2
    simp [h3] at this

theorem range'_one_snoc (n : Nat) (h : 1 ≤ n) : List.range' 1 (n - 1) ++ [n] = List.range' 1 n := by
  have e : n = (n - 1) + 1 := by omega
  conv => rhs; rw [e]
  rw [List.range'_concat]
  simp; omega

/-- the scan part of `checkLinear`. -/
def linPart (n : Nat) (v : Nat → Bool) : List Nat × Option Nat :=
  if 1 < n then linScan v 1 (n - 1) else ([], none)

theorem checkLinear_eq (n : Nat) (v : Nat → Bool) :
    checkLinear n v =
      match (linPart n v).2 with
      | some j => ⟨false, some j, (linPart n v).1, 0, 1⟩
      | none =>
        if v n then ⟨true, none, (linPart n v).1 ++ [n], 1, 0⟩
        else ⟨false, some n, (linPart n v).1 ++ [n], 0, 1⟩ := rfl

theorem linPart_some {n : Nat} {v : Nat → Bool} {j : Nat} (h : (linPart n v).2 = some j) :
    1 ≤ j ∧ j < n ∧ v j = false ∧ (∀ i, 1 ≤ i → i < j → v i = true) ∧
      (linPart n v).1 = List.range' 1 j := by
  unfold linPart at h ⊢
  by_cases hn : 1 < n
  · simp only [hn, if_true] at h ⊢
    obtain ⟨h1, h2, h3, h4, h5⟩ := linScan_some h
    refine ⟨h1, by omega, h3, h4, ?_⟩
    rw [h5]; congr 1
  · simp [hn] at h

theorem linPart_none {n : Nat} {v : Nat → Bool} (h : (linPart n v).2 = none) :
    (∀ i, 1 ≤ i → i < n → v i = true) ∧ (linPart n v).1 = List.range' 1 (n - 1) := by
  unfold linPart at h ⊢
  by_cases hn : 1 < n
  · simp only [hn, if_true] at h ⊢
    obtain ⟨h1, h2⟩ := linScan_none h
    exact ⟨fun i hi1 hi2 => h1 i hi1 (by omega), h2⟩
  · simp only [hn, if_false]
    refine ⟨fun i h1 h2 => by omega, ?_⟩
    have : n - 1 = 0 := by omega
    simp [this]

/-- complete description of the three-argument check: either everything is valid and the result is
the success record, or there is a least invalid index `j` (in `[1,n]`, or `0` when `n = 0`) and
the result is the failure record for `j`. -/
theorem checkLinear_spec (n : Nat) (v : Nat → Bool) :
    ((v n = true ∧ ∀ i, 1 ≤ i → i < n → v i = true) ∧
        checkLinear n v = ⟨true, none, List.range' 1 (n - 1) ++ [n], 1, 0⟩) ∨
    (∃ j, v j = false ∧ (∀ i, 1 ≤ i → i < j → v i = true) ∧ j ≤ n ∧ (1 ≤ n → 1 ≤ j) ∧
        checkLinear n v = ⟨false, some j, List.range' 1 (j - 1) ++ [j], 0, 1⟩) := by
  rw [checkLinear_eq]
  cases hr : (linPart n v).2 with
  | some j =>
    obtain ⟨h1, h2, h3, h4, h5⟩ := linPart_some hr
    right
    refine ⟨j, h3, h4, by omega, fun _ => h1, ?_⟩
    simp only [h5, range'_one_snoc j h1]
  | none =>
    obtain ⟨h1, h2⟩ := linPart_none hr
    by_cases hv : v n = true
    · left
      exact ⟨⟨hv, h1⟩, by simp [hv, h2]⟩
    · right
      refine ⟨n, by simpa using hv, h1, Nat.le_refl _, fun h => h, ?_⟩
      simp [hv, h2]

/-! ### intervals covered by a queue -/

/-- the indices of the closed interval `[p.1, p.2]`. -/
def iv (p : Nat × Nat) : List Nat := List.range' p.1 (p.2 + 1 - p.1)

/-- all indices still owed by the queue (with multiplicity). -/
def ivs (q : List (Nat × Nat)) : List Nat := q.flatMap iv

def WF (q : List (Nat × Nat)) : Prop := ∀ p ∈ q, p.1 ≤ p.2

theorem ivs_append (a b : List (Nat × Nat)) : ivs (a ++ b) = ivs a ++ ivs b := by
  simp [ivs, List.flatMap_append]

theorem ivs_cons (p : Nat × Nat) (r : List (Nat × Nat)) : ivs (p :: r) = iv p ++ ivs r := by
  simp [ivs]

theorem ivs_push {lo hi : Nat} (h : lo ≤ hi) :
    ivs (push lo hi ((lo + hi) / 2)) =
      List.range' lo ((lo + hi) / 2 - lo) ++ List.range' ((lo + hi) / 2 + 1) (hi - (lo + hi) / 2) := by
  have h1 : lo ≤ (lo + hi) / 2 := by omega
  have h2 : (lo + hi) / 2 ≤ hi := by omega
  generalize (lo + hi) / 2 = mid at *
  unfold push
  by_cases ha : lo < mid <;> by_cases hb : hi > mid
  · simp only [ha, hb, if_true, ivs, iv, List.flatMap_append, List.flatMap_cons, List.flatMap_nil,
      List.append_nil]
    congr 2 <;> omega
  · have : hi - mid = 0 := by omega
    simp only [ha, hb, if_true, if_false, ivs, iv, List.flatMap_cons,
      List.flatMap_nil, List.append_nil, this, List.range'_zero]
    congr 1; omega
  · have : mid - lo = 0 := by omega
    simp only [ha, hb, if_true, if_false, ivs, iv, List.flatMap_cons,
      List.flatMap_nil, List.append_nil, List.nil_append, this, List.range'_zero]
    congr 1; omega
  · have h3 : hi - mid = 0 := by omega
    have h4 : mid - lo = 0 := by omega
    simp [ha, hb, ivs, h3, h4]

/-- an interval is its midpoint plus what the two pushed intervals cover. -/
theorem iv_split {lo hi : Nat} (h : lo ≤ hi) :
    (iv (lo, hi)).Perm ((lo + hi) / 2 :: ivs (push lo hi ((lo + hi) / 2))) := by
  rw [ivs_push h]
  have h1 : lo ≤ (lo + hi) / 2 := by omega
  have h2 : (lo + hi) / 2 ≤ hi := by omega
  generalize (lo + hi) / 2 = mid at *
  have e : iv (lo, hi) = List.range' lo (mid - lo) ++ (mid :: List.range' (mid + 1) (hi - mid)) := by
    unfold iv
    have : hi + 1 - lo = (mid - lo) + ((hi - mid) + 1) := by omega
    simp only [this]
    rw [← List.range'_append_1]
    congr 1
    rw [List.range'_succ]
    congr 2 <;> omega
  rw [e]
  exact List.perm_middle

theorem WF_push {lo hi : Nat} : WF (push lo hi ((lo + hi) / 2)) := by
  intro p hp
  unfold push at hp
  simp only [List.mem_append] at hp
  rcases hp with hp | hp
  · split at hp
    · simp at hp; subst hp; simp; omega
    · simp at hp
  · split at hp
    · simp at hp; subst hp; simp; omega
    · simp at hp

theorem WF_step {lo hi : Nat} {rest : List (Nat × Nat)} (h : WF ((lo, hi) :: rest)) :
    WF (rest ++ push lo hi ((lo + hi) / 2)) := by
  intro p hp
  rcases List.mem_append.1 hp with hp | hp
  · exact h p (List.mem_cons_of_mem _ hp)
  · exact WF_push p hp

/-- the queue after a valid midpoint owes exactly the old indices minus that midpoint. -/
theorem ivs_step {lo hi : Nat} {rest : List (Nat × Nat)} (h : lo ≤ hi) :
    (ivs ((lo, hi) :: rest)).Perm ((lo + hi) / 2 :: ivs (rest ++ push lo hi ((lo + hi) / 2))) := by
  rw [ivs_cons, ivs_append]
  have := iv_split h
  calc iv (lo, hi) ++ ivs rest
      _ |>.Perm (((lo + hi) / 2 :: ivs (push lo hi ((lo + hi) / 2))) ++ ivs rest) := this.append_right _
      _ |>.Perm ((lo + hi) / 2 :: (ivs rest ++ ivs (push lo hi ((lo + hi) / 2)))) := by
        simp only [List.cons_append]
        exact List.Perm.cons _ List.perm_append_comm

/-! ### the bisection loop -/

theorem mid_mem_ivs {lo hi : Nat} {rest : List (Nat × Nat)} (h : lo ≤ hi) :
    (lo + hi) / 2 ∈ ivs ((lo, hi) :: rest) :=
  (ivs_step (rest := rest) h).symm.subset (List.mem_cons_self)

/-- everything the property needs about one run of the queue loop, for every queue of well-formed
intervals and every predicate:
1. without a failure the midpoints queried are a permutation of all owed indices (each exactly once);
2. in any case no index is queried twice and none outside the owed ones;
3. success means every queried index was valid;
4. failure means the last queried index is invalid and all before it were valid. -/
theorem bisectLoop_spec (v : Nat → Bool) (q : List (Nat × Nat)) (hq : WF q) :
    ((bisectLoop v q).1 = true → (bisectLoop v q).2.Perm (ivs q)) ∧
    (∃ t, ((bisectLoop v q).2 ++ t).Perm (ivs q)) ∧
    ((bisectLoop v q).1 = true → ∀ i ∈ (bisectLoop v q).2, v i = true) ∧
    ((bisectLoop v q).1 = false → ∃ pre j, (bisectLoop v q).2 = pre ++ [j] ∧ v j = false ∧
      ∀ i ∈ pre, v i = true) := by
  fun_induction bisectLoop v q with
  | case1 => simp [ivs]
  | case2 lo hi rest hv r ih =>
    have hlh : lo ≤ hi := hq (lo, hi) (List.mem_cons_self)
    obtain ⟨ih1, ih2, ih3, ih4⟩ := ih (WF_step hq)
    have hp := ivs_step (rest := rest) hlh
    refine ⟨?_, ?_, ?_, ?_⟩
    · intro hr
      exact ((ih1 hr).cons _).trans hp.symm
    · obtain ⟨t, ht⟩ := ih2
      exact ⟨t, by simpa [r] using (ht.cons ((lo + hi) / 2)).trans hp.symm⟩
    · intro hr i hi
      rcases List.mem_cons.1 hi with rfl | hi
      · exact hv
      · exact ih3 hr i hi
    · intro hr
      obtain ⟨pre, j, e, hj, hpre⟩ := ih4 hr
      refine ⟨(lo + hi) / 2 :: pre, j, by simp [r, e], hj, ?_⟩
      intro i hi
      rcases List.mem_cons.1 hi with rfl | hi
      · exact hv
      · exact hpre i hi
  | case3 lo hi rest hv =>
    have hlh : lo ≤ hi := hq (lo, hi) (List.mem_cons_self)
    refine ⟨by simp, ?_, by simp, ?_⟩
    · exact ⟨_, (ivs_step (rest := rest) hlh).symm⟩
    · intro _
      exact ⟨[], (lo + hi) / 2, by simp, by simpa using hv, by simp⟩

theorem bisectLoop_verdict (v : Nat → Bool) (q : List (Nat × Nat)) (hq : WF q) :
    (bisectLoop v q).1 = true ↔ ∀ i ∈ ivs q, v i = true := by
  obtain ⟨h1, ⟨t, h2⟩, h3, h4⟩ := bisectLoop_spec v q hq
  constructor
  · intro hr i hi
    exact h3 hr i ((h1 hr).symm.subset hi)
  · intro hall
    cases hr : (bisectLoop v q).1 with
    | true => rfl
    | false =>
      obtain ⟨pre, j, e, hj, _⟩ := h4 hr
      have : j ∈ ivs q := h2.subset (by simp [e])
      have := hall j this
      simp [hj] at this

theorem bisectLoop_nodup (v : Nat → Bool) (q : List (Nat × Nat)) (hq : WF q) (hd : (ivs q).Nodup) :
    (bisectLoop v q).2.Nodup ∧ ∀ i ∈ (bisectLoop v q).2, i ∈ ivs q := by
  obtain ⟨_, ⟨t, h2⟩, _, _⟩ := bisectLoop_spec v q hq
  have hn : ((bisectLoop v q).2 ++ t).Nodup := h2.nodup_iff.2 hd
  exact ⟨(List.nodup_append.1 hn).1, fun i hi => h2.subset (List.mem_append_left _ hi)⟩

theorem ivs_single (lo hi : Nat) : ivs [(lo, hi)] = List.range' lo (hi + 1 - lo) := by
  simp [ivs, iv]

/-- the queue part of `checkBisectGen`. -/
def bisPart (n : Nat) (v : Nat → Bool) : Bool × List Nat :=
  if 2 ≤ n then bisectLoop v [(1, n - 1)] else (true, [])

theorem checkBisectGen_eq (c : Bool) (n : Nat) (v : Nat → Bool) :
    checkBisectGen c n v =
      if !v n then ⟨false, none, [n], 0, if c then 1 else 0⟩
      else if (bisPart n v).1 then ⟨true, none, n :: (bisPart n v).2, 1, 0⟩
      else ⟨false, none, n :: (bisPart n v).2, 0, 1⟩ := rfl

theorem bisPart_facts (n : Nat) (v : Nat → Bool) :
    ((bisPart n v).1 = true ↔ ∀ j, 1 ≤ j → j < n → v j = true) ∧
    ((bisPart n v).1 = true → (bisPart n v).2.Perm (List.range' 1 (n - 1))) ∧
    (bisPart n v).2.Nodup ∧
    (∀ i ∈ (bisPart n v).2, 1 ≤ i ∧ i < n) := by
  unfold bisPart
  by_cases hn : 2 ≤ n
  · simp only [hn, if_true]
    have hw : WF [(1, n - 1)] := by intro p hp; simp at hp; subst hp; simp; omega
    have hi : ivs [(1, n - 1)] = List.range' 1 (n - 1) := by
      have : n - 1 + 1 - 1 = n - 1 := by omega
      rw [ivs_single, this]
    have h1 := bisectLoop_verdict v _ hw
    have h2 := (bisectLoop_spec v _ hw).1
    have h3 := bisectLoop_nodup v _ hw (by rw [hi]; exact List.nodup_range')
    rw [hi] at h1 h2 h3
    refine ⟨?_, h2, h3.1, ?_⟩
    · rw [h1]
      constructor
      · intro h j hj1 hj2; exact h j (List.mem_range'_1.2 (by omega))
      · intro h j hj
        have := List.mem_range'_1.1 hj
        exact h j (by omega) (by omega)
    · intro i hi'
      have := List.mem_range'_1.1 (h3.2 i hi')
      omega
  · simp only [hn, if_false]
    have : n - 1 = 0 := by omega
    refine ⟨⟨fun _ j h1 h2 => by omega, fun _ => trivial⟩, by simp [this], by simp, by simp⟩

theorem bisPart_fail (n : Nat) (v : Nat → Bool) (h : (bisPart n v).1 = false) :
    ∃ pre j, (bisPart n v).2 = pre ++ [j] ∧ v j = false ∧ ∀ i ∈ pre, v i = true := by
  unfold bisPart at h ⊢
  by_cases hn : 2 ≤ n
  · simp only [hn, if_true] at h ⊢
    have hw : WF [(1, n - 1)] := by intro p hp; simp at hp; subst hp; simp; omega
    exact (bisectLoop_spec v _ hw).2.2.2 h
  · simp [hn] at h

/-! ### the state-list loop is the same loop on the interiors -/

def shrink (p : Nat × Nat) : Nat × Nat := (p.1 + 1, p.2 - 1)

theorem listPush_shrink {a b : Nat} (h : a + 2 ≤ b) :
    (listPush a b ((a + b) / 2)).map shrink = push (a + 1) (b - 1) ((a + b) / 2) := by
  unfold listPush push shrink
  by_cases h1 : a < (a + b) / 2 - 1 <;> by_cases h2 : b > (a + b) / 2 + 1
  · have h3 : a + 1 < (a + b) / 2 := by omega
    have h4 : b - 1 > (a + b) / 2 := by omega
    simp [h1, h2, h3, h4]
  · have h3 : a + 1 < (a + b) / 2 := by omega
    have h4 : ¬ b - 1 > (a + b) / 2 := by omega
    simp [h1, h2, h3, h4]
  · have h3 : ¬ a + 1 < (a + b) / 2 := by omega
    have h4 : b - 1 > (a + b) / 2 := by omega
    simp [h1, h2, h3, h4]
  · have h3 : ¬ a + 1 < (a + b) / 2 := by omega
    have h4 : ¬ b - 1 > (a + b) / 2 := by omega
    simp [h1, h2, h3, h4]

/-- intervals of the list form always have a non-empty interior. -/
def LWF (q : List (Nat × Nat)) : Prop := ∀ p ∈ q, p.1 + 2 ≤ p.2

theorem LWF_step {a b : Nat} {rest : List (Nat × Nat)} (h : LWF ((a, b) :: rest)) :
    LWF (rest ++ listPush a b ((a + b) / 2)) := by
  intro p hp
  rcases List.mem_append.1 hp with hp | hp
  · exact h p (List.mem_cons_of_mem _ hp)
  · unfold listPush at hp
    rcases List.mem_append.1 hp with hp | hp
    · split at hp
      · simp at hp; subst hp; simp; omega
      · simp at hp
    · split at hp
      · simp at hp; subst hp; simp; omega
      · simp at hp

theorem listLoop_eq_bisectLoop (v : Nat → Bool) (q : List (Nat × Nat)) (hq : LWF q) :
    listLoop v q = bisectLoop v (q.map shrink) := by
  fun_induction listLoop v q with
  | case1 => simp [bisectLoop]
  | case2 a b rest hv r ih =>
    have hab : a + 2 ≤ b := hq (a, b) (List.mem_cons_self)
    have hm : (a + 1 + (b - 1)) / 2 = (a + b) / 2 := by congr 1; omega
    have := ih (LWF_step hq)
    rw [List.map_cons, shrink, bisectLoop]
    simp only [hm, hv, if_true]
    rw [List.map_append, listPush_shrink hab] at this
    simp only [r, this]
  | case3 a b rest hv =>
    have hab : a + 2 ≤ b := hq (a, b) (List.mem_cons_self)
    have hm : (a + 1 + (b - 1)) / 2 = (a + b) / 2 := by congr 1; omega
    rw [List.map_cons, shrink, bisectLoop]
    simp [hm, hv]

theorem WF_map_shrink {q : List (Nat × Nat)} (hq : LWF q) : WF (q.map shrink) := by
  intro p hp
  obtain ⟨p', hp', rfl⟩ := List.mem_map.1 hp
  have := hq p' hp'
  simp [shrink]; omega

/-! ### segment count of a compound space -/

theorem foldl_max_ge (cs : List Nat) (s : Nat) :
    s ≤ cs.foldl (fun sc sci => if sci > sc then sci else sc) s ∧
      ∀ c ∈ cs, c ≤ cs.foldl (fun sc sci => if sci > sc then sci else sc) s := by
  induction cs generalizing s with
  | nil => simp
  | cons c r ih =>
    simp only [List.foldl_cons, List.mem_cons]
    by_cases hc : c > s
    · simp only [hc, if_true]
      obtain ⟨h1, h2⟩ := ih c
      refine ⟨by omega, ?_⟩
      rintro x (rfl | hx)
      · exact h1
      · exact h2 x hx
    · simp only [hc, if_false]
      obtain ⟨h1, h2⟩ := ih s
      refine ⟨h1, ?_⟩
      rintro x (rfl | hx)
      · omega
      · exact h2 x hx

theorem foldl_max_mem (cs : List Nat) (s : Nat) :
    cs.foldl (fun sc sci => if sci > sc then sci else sc) s = s ∨
      cs.foldl (fun sc sci => if sci > sc then sci else sc) s ∈ cs := by
  induction cs generalizing s with
  | nil => simp
  | cons c r ih =>
    simp only [List.foldl_cons, List.mem_cons]
    by_cases hc : c > s
    · simp only [hc, if_true]
      rcases ih c with h | h
      · right; left; exact h
      · right; right; exact h
    · simp only [hc, if_false]
      rcases ih s with h | h
      · left; exact h
      · right; right; exact h

/-! ### getMotionStates -/

theorem msLoop_eq (c sz : Nat) (j added k : Nat) :
    msLoop c sz j added k = ((List.range' j k).map (fun i => Slot.frac i c)).take (sz - added) := by
  induction k generalizing j added with
  | zero => simp [msLoop]
  | succ k ih =>
    unfold msLoop
    by_cases h : added < sz
    · simp only [h, if_true, ih, List.range'_succ, List.map_cons]
      have : sz - added = (sz - (added + 1)) + 1 := by omega
      rw [this, List.take_succ_cons]
    · have : sz - added = 0 := by omega
      simp [h, this]

def msInterior (c : Nat) : List Slot := (List.range' 1 (c - 1)).map (fun j => Slot.frac j c)

theorem msInterior_length (c : Nat) : (msInterior c).length = c - 1 := by simp [msInterior]

theorem msFull_length (c : Nat) (e : Bool) :
    (msFull c e).length = (if e then 2 else 0) + (if c < 2 then 0 else c - 1) := by
  unfold msFull
  cases e <;> by_cases h : c < 2 <;> simp [h] <;> omega

/-- the call writes exactly the prefix of the full list that fits. -/
theorem getMotionStatesC_eq_take (c : Nat) (e a : Bool) (size : Nat) :
    (getMotionStatesC c e a size).written =
        (msFull c e).take (if a then (msFull c e).length else size) ∧
      (getMotionStatesC c e a size).newSize = (if a then (msFull c e).length else size) := by
  have hlen := msFull_length c e
  unfold getMotionStatesC
  by_cases hc : c < 2
  · simp only [hc, if_true]
    cases e
    · simp only [Bool.false_eq_true, if_false]
      refine ⟨?_, ?_⟩
      · simp [msFull, hc]
      · simp only [hlen, hc]; simp
    · simp only [if_true]
      have hf : msFull c true = [Slot.start, Slot.goal] := by simp [msFull, hc]
      cases a
      · simp only [Bool.false_eq_true, if_false, hf]
        refine ⟨?_, trivial⟩
        rcases size with _ | _ | size <;> simp
      · simp [hf]
  · simp only [hc, if_false]
    have hc2 : 2 ≤ c := by omega
    cases e
    · -- no end points
      have hf : msFull c false = msInterior c := by simp [msFull, hc, msInterior]
      simp only [Bool.false_and, Bool.and_false, Bool.false_eq_true, if_false, List.length_nil, List.nil_append,
        List.append_nil, msLoop_eq, Nat.sub_zero]
      rw [hf]
      cases a
      · simp [msInterior]
      · simp [msInterior]
    · have hf : msFull c true = Slot.start :: (msInterior c ++ [Slot.goal]) := by
        simp [msFull, hc, msInterior]
      simp only [Bool.true_and, Bool.and_true, msLoop_eq]
      rw [hf]
      have key : ∀ sz, (if decide (0 < sz) = true then [Slot.start] else []) ++
            List.take (sz - (if decide (0 < sz) = true then [Slot.start] else []).length)
              (List.map (fun i => Slot.frac i c) (List.range' 1 (c - 1))) ++
            (if decide ((if decide (0 < sz) = true then [Slot.start] else []).length +
                (List.take (sz - (if decide (0 < sz) = true then [Slot.start] else []).length)
                  (List.map (fun i => Slot.frac i c) (List.range' 1 (c - 1)))).length < sz) = true
              then [Slot.goal] else []) =
          (Slot.start :: (msInterior c ++ [Slot.goal])).take sz := by
        intro sz
        rcases sz with _ | m
        · simp
        · simp only [Nat.zero_lt_succ, decide_true, if_true, List.length_cons, List.length_nil,
            List.take_succ_cons, List.cons_append, List.nil_append, List.take_append]
          congr 1
          have hl : (msInterior c).length = c - 1 := msInterior_length c
          simp only [msInterior] at hl ⊢
          simp only [List.length_take, List.length_map, List.length_range', Nat.add_sub_cancel]
          by_cases hm : c - 1 < m
          · have h1 : 0 + 1 + min m (c - 1) < m + 1 := by omega
            have h2 : m - (c - 1) = (m - (c - 1) - 1) + 1 := by omega
            simp [h1]
            rw [h2]; simp
          · have h1 : ¬ 0 + 1 + min m (c - 1) < m + 1 := by omega
            have h2 : m - (c - 1) = 0 := by omega
            simp [h1, h2]
      cases a
      · simp only [Bool.false_eq_true, if_false]
        exact ⟨key size, trivial⟩
      · simp only [if_true]
        have : (Slot.start :: (msInterior c ++ [Slot.goal])).length = c + 1 := by
          simp [msInterior_length]; omega
        rw [this]
        exact ⟨key (c + 1), rfl⟩

theorem msFull_get_noEndpoints (c p : Nat) (h : p + 1 < c) :
    (msFull c false)[p]? = some (Slot.frac (p + 1) c) := by
  have hc : ¬ c < 2 := by omega
  simp only [msFull, Bool.false_eq_true, if_false, hc, List.nil_append, List.append_nil]
  rw [List.getElem?_map, List.getElem?_range' (by omega)]
  simp; omega

theorem msFull_get_endpoints (c p : Nat) (hc : 2 ≤ c) :
    (msFull c true)[0]? = some Slot.start ∧
    (1 ≤ p → p < c → (msFull c true)[p]? = some (Slot.frac p c)) ∧
    (msFull c true)[c]? = some Slot.goal := by
  have hc' : ¬ c < 2 := by omega
  have hf : msFull c true = Slot.start :: (msInterior c ++ [Slot.goal]) := by
    simp [msFull, hc', msInterior]
  have hl := msInterior_length c
  refine ⟨by simp [hf], ?_, ?_⟩
  · intro h1 h2
    obtain ⟨q, rfl⟩ : ∃ q, p = q + 1 := ⟨p - 1, by omega⟩
    rw [hf, List.getElem?_cons_succ, List.getElem?_append_left (by omega)]
    simp only [msInterior]
    rw [List.getElem?_map, List.getElem?_range' (by omega)]
    simp; omega
  · obtain ⟨q, rfl⟩ : ∃ q, c = q + 1 := ⟨c - 1, by omega⟩
    rw [hf, List.getElem?_cons_succ, List.getElem?_append_right (by omega)]
    simp [hl]

/-! ### the constrained traversal -/

theorem traverse_spec (m : Nat) (geom : Bool) (v : Nat → Bool) :
    ((traverse m geom v).1 = true ↔ geom = true ∧ ∀ j, 1 ≤ j → j ≤ m → v j = true) ∧
    (traverse m geom v).2.2 ≤ m ∧
    (∀ j, 1 ≤ j → j ≤ (traverse m geom v).2.2 → v j = true) ∧
    ((traverse m geom v).2.2 < m → v ((traverse m geom v).2.2 + 1) = false) ∧
    (traverse m geom v).2.1 = List.range' 1 (min m ((traverse m geom v).2.2 + 1)) := by
  unfold traverse
  cases hr : (linScan v 1 m).2 with
  | some j =>
    obtain ⟨h1, h2, h3, h4, h5⟩ := linScan_some hr
    have hj : j - 1 + 1 = j := by omega
    refine ⟨?_, by simp; omega, ?_, ?_, ?_⟩
    · simp only [Bool.false_eq_true, false_iff, not_and]
      intro _ hall
      have := hall j h1 (by omega)
      simp [h3] at this
    · intro i hi1 hi2; exact h4 i hi1 (by simp at hi2; omega)
    · intro _; simp only [hj]; exact h3
    · simp only [h5, hj]
      have : min m j = j := by omega
      rw [this]; congr 1
  | none =>
    obtain ⟨h1, h2⟩ := linScan_none hr
    refine ⟨?_, by simp, ?_, by simp, ?_⟩
    · simp only
      constructor
      · intro hg; exact ⟨hg, fun j a b => h1 j a (by omega)⟩
      · intro h; exact h.1
    · intro i hi1 hi2; exact h1 i hi1 (by simp at hi2; omega)
    · simp only [h2]
      have : min m (m + 1) = m := by omega
      rw [this]

end OmplModel.Motion
