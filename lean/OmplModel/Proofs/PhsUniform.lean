import OmplModel.Proofs.PhsVolume
/-!
"Samples are uniformly distributed over the region", measure-theoretically: the PHS map `w ↦ centre + L w`
(`L = imgL (c/2) (√(c²−cmin²)/2) axis`, one fixed linear map with `det L = (c/2)·rⁿ ≠ 0`) carries the normalised
Lebesgue measure of the unit ball to the normalised Lebesgue measure of the informed set: for EVERY set `A`,
`vol(T⁻¹A ∩ ball) · vol(PHS) = vol(A ∩ PHS) · vol(ball)`.  And the radius law of `uniformInBall`: `u ↦ u^(1/n)` carries
the uniform law on `[0,1]` to the law of the norm of a uniform point of the unit ball.
-/
namespace OmplModel.Phs
open OmplModel
attribute [-instance] Num.instOfNat

namespace PhsUniform
open PhsGeom PhsVolume MeasureTheory
open scoped Pointwise
open scoped InnerProductSpace

theorem phs_pushforward_uniform (n : ℕ) (F1 F2 : EuclideanSpace ℝ (Fin (n + 1))) (hne : F1 ≠ F2) (c : ℝ)
    (hc : ‖F2 - F1‖ < c) (A : Set (EuclideanSpace ℝ (Fin (n + 1)))) :
    volume ((fun w => (1 / 2 : ℝ) • (F1 + F2)
        + imgL (c / 2) (Real.sqrt (c ^ 2 - ‖F2 - F1‖ ^ 2) / 2) ((1 / ‖F2 - F1‖) • (F2 - F1)) w) ⁻¹' A
          ∩ Metric.ball 0 1)
      * volume {x : EuclideanSpace ℝ (Fin (n + 1)) | ‖x - F1‖ + ‖x - F2‖ < c}
    = volume (A ∩ {x : EuclideanSpace ℝ (Fin (n + 1)) | ‖x - F1‖ + ‖x - F2‖ < c})
      * volume (Metric.ball (0 : EuclideanSpace ℝ (Fin (n + 1))) 1) := by
  set L := imgL (c / 2) (Real.sqrt (c ^ 2 - ‖F2 - F1‖ ^ 2) / 2) ((1 / ‖F2 - F1‖) • (F2 - F1)) with hL
  set ctr := (1 / 2 : ℝ) • (F1 + F2) with hctr
  set B := Metric.ball (0 : EuclideanSpace ℝ (Fin (n + 1))) 1 with hB
  have he : ‖(1 / ‖F2 - F1‖) • (F2 - F1)‖ = 1 := axis_norm hne
  obtain ⟨bas, hbas⟩ := Orthonormal.exists_orthonormalBasis_extension_of_card_eq
    (𝕜 := ℝ) (E := EuclideanSpace ℝ (Fin (n + 1))) (ι := Fin (n + 1)) (by simp)
    (v := fun _ => (1 / ‖F2 - F1‖) • (F2 - F1)) (s := {0})
    ⟨fun _ => he, fun i j hij => absurd (Subsingleton.elim i j) hij⟩
  have hb0 : bas 0 = (1 / ‖F2 - F1‖) • (F2 - F1) := hbas 0 (Set.mem_singleton 0)
  have hcpos : 0 < c / 2 := by have := norm_nonneg (F2 - F1); linarith
  have hspos : 0 < Real.sqrt (c ^ 2 - ‖F2 - F1‖ ^ 2) / 2 := by
    have h0 := norm_nonneg (F2 - F1)
    have : 0 < c ^ 2 - ‖F2 - F1‖ ^ 2 := by nlinarith
    have := Real.sqrt_pos.2 this
    linarith
  have hdet : LinearMap.det L ≠ 0 := by
    rw [hL, ← hb0, det_imgL]
    exact (mul_pos hcpos (pow_pos hspos n)).ne'
  have hinj : Function.Injective L := (L.equivOfDetNeZero hdet).injective
  -- the informed set is the translate of `L '' B`
  have hset : {x : EuclideanSpace ℝ (Fin (n + 1)) | ‖x - F1‖ + ‖x - F2‖ < c}
      = (fun x => -ctr + x) ⁻¹' (L '' B) := informed_set_eq hne hc
  -- pull everything back along the translation `x ↦ ctr + x`
  have hA : (fun w => ctr + L w) ⁻¹' A ∩ B = L ⁻¹' ((fun x => ctr + x) ⁻¹' A ∩ L '' B) := by
    ext w
    simp only [Set.mem_inter_iff, Set.mem_preimage, Set.mem_image]
    constructor
    · rintro ⟨h1, h2⟩
      exact ⟨h1, w, h2, rfl⟩
    · rintro ⟨h1, w', hw', e⟩
      exact ⟨h1, hinj e ▸ hw'⟩
  have hBeq : B = L ⁻¹' (L '' B) := (Set.preimage_image_eq B hinj).symm
  have hAP : A ∩ {x : EuclideanSpace ℝ (Fin (n + 1)) | ‖x - F1‖ + ‖x - F2‖ < c}
      = (fun x => -ctr + x) ⁻¹' ((fun x => ctr + x) ⁻¹' A ∩ L '' B) := by
    rw [hset]
    ext x
    simp only [Set.mem_inter_iff, Set.mem_preimage, add_neg_cancel_left]
  have hvB : volume B = ENNReal.ofReal |(LinearMap.det L)⁻¹| * volume (L '' B) := by
    conv_lhs => rw [hBeq]
    exact Measure.addHaar_preimage_linearMap volume hdet _
  rw [hA, Measure.addHaar_preimage_linearMap volume hdet, hAP, hset, measure_preimage_add, measure_preimage_add, hvB]
  ring

/-- radius law of `uniformInBall`: for `0 ≤ t ≤ 1` the set of draws `u ∈ [0,1]` with `u^(1/(n+1)) ≤ t` is `[0, t^(n+1)]`,
of length `t^(n+1)` = (volume of the ball of radius `t`) / (volume of the unit ball) -/
theorem radius_law (n : ℕ) (t : ℝ) (h0 : 0 ≤ t) (h1 : t ≤ 1) :
    {u : ℝ | 0 ≤ u ∧ u ≤ 1 ∧ u ^ ((1 : ℝ) / ((n : ℝ) + 1)) ≤ t} = Set.Icc 0 (t ^ (n + 1)) ∧
    volume {u : ℝ | 0 ≤ u ∧ u ≤ 1 ∧ u ^ ((1 : ℝ) / ((n : ℝ) + 1)) ≤ t} = ENNReal.ofReal (t ^ (n + 1)) ∧
    volume (Metric.ball (0 : EuclideanSpace ℝ (Fin (n + 1))) t)
      = ENNReal.ofReal (t ^ (n + 1)) * volume (Metric.ball (0 : EuclideanSpace ℝ (Fin (n + 1))) 1) := by
  have hn : (0 : ℝ) < (n : ℝ) + 1 := by positivity
  have hset : {u : ℝ | 0 ≤ u ∧ u ≤ 1 ∧ u ^ ((1 : ℝ) / ((n : ℝ) + 1)) ≤ t} = Set.Icc 0 (t ^ (n + 1)) := by
    ext u
    simp only [Set.mem_ofPred_eq, Set.mem_Icc]
    have key : ∀ u : ℝ, 0 ≤ u → (u ^ ((1 : ℝ) / ((n : ℝ) + 1)) ≤ t ↔ u ≤ t ^ (n + 1)) := by
      intro u hu
      have hroot : (u ^ ((1 : ℝ) / ((n : ℝ) + 1))) ^ (n + 1) = u := by
        rw [← Real.rpow_natCast, ← Real.rpow_mul hu]
        have : (1 : ℝ) / ((n : ℝ) + 1) * ((n + 1 : ℕ) : ℝ) = 1 := by push_cast; field_simp
        rw [this, Real.rpow_one]
      have hr0 : 0 ≤ u ^ ((1 : ℝ) / ((n : ℝ) + 1)) := Real.rpow_nonneg hu _
      constructor
      · intro h
        calc u = (u ^ ((1 : ℝ) / ((n : ℝ) + 1))) ^ (n + 1) := hroot.symm
          _ ≤ t ^ (n + 1) := pow_le_pow_left₀ hr0 h _
      · intro h
        by_contra hlt
        push Not at hlt
        have : t ^ (n + 1) < (u ^ ((1 : ℝ) / ((n : ℝ) + 1))) ^ (n + 1) := pow_lt_pow_left₀ hlt h0 (Nat.succ_ne_zero n)
        rw [hroot] at this
        linarith
    constructor
    · rintro ⟨hu0, _, hu⟩
      exact ⟨hu0, (key u hu0).1 hu⟩
    · rintro ⟨hu0, hu⟩
      refine ⟨hu0, le_trans hu (pow_le_one₀ h0 h1), (key u hu0).2 hu⟩
  refine ⟨hset, ?_, ?_⟩
  · rw [hset, Real.volume_Icc, sub_zero]
  · have := Measure.addHaar_ball_mul (μ := (volume : Measure (EuclideanSpace ℝ (Fin (n + 1))))) (0 : EuclideanSpace ℝ (Fin (n + 1))) h0 1
    rw [mul_one] at this
    rw [this, finrank_euclideanSpace, Fintype.card_fin]

/-- **polar factorisation of the uniform law on the ball**: for EVERY set `S` of directions and every radius `t > 0`, the
part of the ball of radius `t` whose direction lies in `S` is the `t`-dilate of the corresponding part of the unit ball, so
its volume is `t^(n+1)` times it: under the uniform law on the unit ball, radius and direction are independent and
`P(‖x‖ < t) = t^(n+1)`. -/
theorem ball_polar_factorisation (n : ℕ) (S : Set (EuclideanSpace ℝ (Fin (n + 1)))) (t : ℝ) (ht : 0 < t) :
    volume {x : EuclideanSpace ℝ (Fin (n + 1)) | ‖x‖ < t ∧ x ≠ 0 ∧ ‖x‖⁻¹ • x ∈ S}
      = ENNReal.ofReal (t ^ (n + 1))
        * volume {x : EuclideanSpace ℝ (Fin (n + 1)) | ‖x‖ < 1 ∧ x ≠ 0 ∧ ‖x‖⁻¹ • x ∈ S} := by
  have hset : {x : EuclideanSpace ℝ (Fin (n + 1)) | ‖x‖ < t ∧ x ≠ 0 ∧ ‖x‖⁻¹ • x ∈ S}
      = t • {x : EuclideanSpace ℝ (Fin (n + 1)) | ‖x‖ < 1 ∧ x ≠ 0 ∧ ‖x‖⁻¹ • x ∈ S} := by
    ext x
    rw [Set.mem_smul_set_iff_inv_smul_mem₀ ht.ne']
    simp only [Set.mem_ofPred_eq]
    have hn : ‖t⁻¹ • x‖ = t⁻¹ * ‖x‖ := by rw [norm_smul, Real.norm_eq_abs, abs_of_pos (inv_pos.2 ht)]
    have hdir : ‖t⁻¹ • x‖⁻¹ • t⁻¹ • x = ‖x‖⁻¹ • x := by
      rw [hn, smul_smul, mul_inv, inv_inv, mul_assoc, mul_comm (‖x‖⁻¹), ← mul_assoc, mul_inv_cancel₀ ht.ne', one_mul]
    rw [hdir, hn]
    constructor
    · rintro ⟨h1, h2, h3⟩
      refine ⟨?_, ?_, h3⟩
      · rw [inv_mul_lt_iff₀ ht]; simpa using h1
      · exact smul_ne_zero (inv_ne_zero ht.ne') h2
    · rintro ⟨h1, h2, h3⟩
      refine ⟨?_, ?_, h3⟩
      · rw [inv_mul_lt_iff₀ ht] at h1; simpa using h1
      · intro h0; exact h2 (by rw [h0, smul_zero])
  rw [hset, Measure.addHaar_smul, finrank_euclideanSpace, Fintype.card_fin, abs_of_pos (pow_pos ht _)]

end PhsUniform
end OmplModel.Phs
