import OmplModel.Proofs.GridSteps
/-!
`updateAll` (user pokes data of some cells, then `GridB::updateAll()`) preserves the invariant `Inv`
(helper for `Props/C13.lean`; core Lean only).
-/
namespace OmplModel.Grid
open OmplModel.Heap

/-! ### the list lemma behind `Heap.items_pokeRebuild` -/

section listlemma
variable {κ : Type}

/-- one step of the fold of `Heap.items_pokeRebuild` -/
def updL (it : List (Nat × κ)) (hk : Nat × κ) : List (Nat × κ) :=
  it.map (fun p => if p.1 == hk.1 then hk else p)

theorem foldl_updL_perm_congr : ∀ (T : List (Nat × κ)) {Y Y' : List (Nat × κ)}, Y.Perm Y' →
    (T.foldl updL Y).Perm (T.foldl updL Y')
  | [], _, _, h => h
  | t :: T, _, _, h => by
    rw [List.foldl_cons, List.foldl_cons]
    exact foldl_updL_perm_congr T (h.map _)

theorem updL_of_notin {Y : List (Nat × κ)} {hk : Nat × κ} (h : hk.1 ∉ Y.map (·.1)) : updL Y hk = Y := by
  unfold updL
  conv => rhs; rw [← List.map_id Y]
  apply List.map_congr_left
  intro p hp
  have hne : p.1 ≠ hk.1 := fun he => h (List.mem_map.2 ⟨p, hp, he⟩)
  have : (p.1 == hk.1) = false := by simpa using hne
  simp [this]

theorem foldl_updL_cons : ∀ (T : List (Nat × κ)) (hk : Nat × κ) (Y0 : List (Nat × κ)),
    hk.1 ∉ T.map (·.1) → T.foldl updL (hk :: Y0) = hk :: T.foldl updL Y0
  | [], _, _, _ => rfl
  | t :: T, hk, Y0, h => by
    rw [List.map_cons, List.mem_cons, not_or] at h
    rw [List.foldl_cons, List.foldl_cons]
    have : updL (hk :: Y0) t = hk :: updL Y0 t := by
      unfold updL
      rw [List.map_cons]
      have : (hk.1 == t.1) = false := by simpa using h.1
      simp [this]
    rw [this]
    exact foldl_updL_cons T hk _ h.2

/-- poking every handle of a heap (each once) with the entries of `X` leaves exactly `X` -/
theorem foldl_updL_perm : ∀ (X Y : List (Nat × κ)), (X.map (·.1)).Nodup →
    (Y.map (·.1)).Perm (X.map (·.1)) → (X.foldl updL Y).Perm X
  | [], Y, _, hp => by
    have : Y = [] := by simpa using hp
    subst this; exact List.Perm.refl _
  | hk :: T, Y, nd, hp => by
    rw [List.map_cons, List.nodup_cons] at nd
    rw [List.map_cons] at hp
    have hmem : hk.1 ∈ Y.map (·.1) := hp.mem_iff.2 (by simp)
    obtain ⟨p, hpY, hpe⟩ := List.mem_map.1 hmem
    obtain ⟨s, t, rfl⟩ := List.append_of_mem hpY
    have hY : (s ++ p :: t).Perm (p :: (s ++ t)) := List.perm_middle
    have hp0 : ((s ++ t).map (·.1)).Perm (T.map (·.1)) := by
      have := (hY.map (·.1)).symm.trans hp
      rw [List.map_cons, hpe] at this
      exact this.cons_inv
    have hn0 : hk.1 ∉ (s ++ t).map (·.1) := fun h => nd.1 (hp0.mem_iff.1 h)
    rw [List.foldl_cons]
    have h1 : (updL (s ++ p :: t) hk).Perm (hk :: (s ++ t)) := by
      refine (hY.map _).trans ?_
      show (updL (p :: (s ++ t)) hk).Perm _
      have : updL (p :: (s ++ t)) hk = hk :: updL (s ++ t) hk := by
        unfold updL; rw [List.map_cons]; simp [hpe]
      rw [this, updL_of_notin hn0]
    refine (foldl_updL_perm_congr T h1).trans ?_
    rw [foldl_updL_cons T hk _ nd.1]
    exact (foldl_updL_perm T (s ++ t) nd.2 hp0).cons _

end listlemma

/-! ### `pokeData` and the update events change the `data` field only -/

/-- forget the data -/
def strip (c : Cell) : Cell := { c with data := 0 }

theorem strip_setData (c : Cell) (d : Int) : strip { c with data := d } = strip c := rfl

theorem setCell_strip {cells : List Cell} {x : Coord} {c : Cell} (nd : (cells.map (·.coord)).Nodup)
    (hget : getCell cells x = some c) (d : Int) :
    (setCell cells { c with data := d }).map strip = cells.map strip := by
  have hcm := getCell_some_mem hget
  unfold setCell
  rw [List.map_map]
  apply List.map_congr_left
  intro e he
  simp only [Function.comp]
  split
  · rename_i h
    have hex : e.coord = x := (by simpa using h : e.coord = c.coord).trans hcm.2
    have h1 : getCell cells x = some e := (getCell_eq_some_iff nd).2 ⟨he, hex⟩
    rw [hget] at h1
    cases h1
    rfl
  · rfl

theorem pokeData_strip : ∀ (chg : List (Coord × Int)) (cells : List Cell), (cells.map (·.coord)).Nodup →
    (pokeData cells chg).map strip = cells.map strip
  | [], _, _ => rfl
  | (x, d) :: rest, cells, nd => by
    unfold pokeData
    split
    · rename_i c hget
      rw [pokeData_strip rest _ (by rw [map_coord_setCell]; exact nd)]
      exact setCell_strip nd hget d
    · exact pokeData_strip rest cells nd

theorem event_strip (ev : Cell → Int) (l : List Cell) :
    (l.map (fun c => { c with data := ev c })).map strip = l.map strip := by
  rw [List.map_map]
  apply List.map_congr_left
  intro c _
  rfl

theorem updateAll_cells_strip {cfg : Cfg} {cells : List Cell} (chg : List (Coord × Int))
    (nd : (cells.map (·.coord)).Nodup) :
    ((pokeData cells chg).map (fun c => { c with data := cfg.ev c })).map strip = cells.map strip := by
  rw [event_strip, pokeData_strip chg cells nd]

/-! ### what equal stripped lists share -/

theorem map_coord_of_strip {a b : List Cell} (h : b.map strip = a.map strip) :
    b.map (·.coord) = a.map (·.coord) := by
  have := congrArg (List.map (·.coord)) h
  rw [List.map_map, List.map_map] at this
  exact this

theorem map_id_of_strip {a b : List Cell} (h : b.map strip = a.map strip) :
    b.map (·.id) = a.map (·.id) := by
  have := congrArg (List.map (·.id)) h
  rw [List.map_map, List.map_map] at this
  exact this

theorem mem_of_strip {a b : List Cell} (h : b.map strip = a.map strip) {d : Cell} (hd : d ∈ b) :
    ∃ c ∈ a, strip c = strip d := by
  have : strip d ∈ a.map strip := by rw [← h]; exact List.mem_map.2 ⟨d, hd, rfl⟩
  obtain ⟨c, hc, he⟩ := List.mem_map.1 this
  exact ⟨c, hc, he⟩

theorem side_fst (p : Cell → Bool) (hp : ∀ c, p (strip c) = p c) (l : List Cell) :
    (side p l).map (·.1) = ((l.map strip).filter p).map (·.helem) := by
  induction l with
  | nil => rfl
  | cons c l ih =>
    rw [side_cons, List.map_append, ih, List.map_cons, List.filter_cons, hp c]
    unfold one
    by_cases h : p c = true
    · simp [h, strip]
    · simp [h]

theorem side_fst_of_strip {a b : List Cell} (h : b.map strip = a.map strip) (p : Cell → Bool)
    (hp : ∀ c, p (strip c) = p c) : (side p b).map (·.1) = (side p a).map (·.1) := by
  rw [side_fst p hp, side_fst p hp, h]

/-! ### the heaps after `pokeRebuild` -/

theorem pokeRebuild_side {lt : Key → Key → Bool} {H : Heap Key} {p : Cell → Bool} {a b : List Cell}
    (ok : H.HandlesOK) (hH : H.items.Perm (side p a)) (h : b.map strip = a.map strip)
    (hp : ∀ c, p (strip c) = p c) :
    (H.pokeRebuild lt (side p b)).items.Perm (side p b) := by
  refine (Heap.items_pokeRebuild lt H (side p b) ok).trans ?_
  have hfst := side_fst_of_strip h p hp
  have hY : (H.items.map (·.1)).Perm ((side p b).map (·.1)) := by rw [hfst]; exact hH.map _
  have nd : ((side p b).map (·.1)).Nodup := (hY.nodup_iff).1 ok.nodup
  exact foldl_updL_perm (side p b) H.items nd hY

/-! ### the theorem -/

theorem updateAll_inv {cfg : Cfg} {g : GridB} {chg : List (Coord × Int)} (hi : Inv cfg g) :
    Inv cfg (updateAll cfg g chg) := by
  have hs := updateAll_cells_strip (cfg := cfg) chg hi.nodup
  have hco := map_coord_of_strip hs
  refine ⟨⟨?_, ?_, ?_, ?_, ?_, hi.extH.pokeRebuild _ _, hi.intH.pokeRebuild _ _, ?_, ?_⟩, ?_⟩
  · show (((pokeData g.cells chg).map (fun c => { c with data := cfg.ev c })).map (·.coord)).Nodup
    rw [hco]; exact hi.nodup
  · intro d hd
    obtain ⟨c, hc, he⟩ := mem_of_strip hs hd
    have : c.coord = d.coord := (congrArg Cell.coord he :)
    rw [← this]; exact hi.len c hc
  · intro d hd
    obtain ⟨c, hc, he⟩ := mem_of_strip hs hd
    have h1 : c.border = d.border := (congrArg Cell.border he :)
    have h2 : c.nbrs = d.nbrs := (congrArg Cell.nbrs he :)
    rw [← h1, ← h2]; exact hi.border c hc
  · exact pokeRebuild_side (p := (·.border)) hi.extH hi.ext hs (fun _ => rfl)
  · exact pokeRebuild_side (p := fun c => !c.border) hi.intH hi.int hs (fun _ => rfl)
  · intro d hd
    obtain ⟨c, hc, he⟩ := mem_of_strip hs hd
    have : c.id = d.id := (congrArg Cell.id he :)
    show d.id < g.nextId
    rw [← this]; exact hi.idlt c hc
  · show (((pokeData g.cells chg).map (fun c => { c with data := cfg.ev c })).map (·.id)).Nodup
    rw [map_id_of_strip hs]; exact hi.idnd
  · intro d hd
    obtain ⟨c, hc, he⟩ := mem_of_strip hs hd
    have h1 : c.coord = d.coord := (congrArg Cell.coord he :)
    have h2 : c.nbrs = d.nbrs := (congrArg Cell.nbrs he :)
    show d.nbrs = cnt cfg ((pokeData g.cells chg).map (fun c => { c with data := cfg.ev c })) d.coord
    rw [cnt_congr hco, ← h1, ← h2]; exact hi.count c hc

end OmplModel.Grid
