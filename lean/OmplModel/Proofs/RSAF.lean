import OmplModel.Model.ReedsShepp
import OmplModel.Proofs.DubinsAF
/-!
Arithmetic-free [AF] lemmas about the Reeds–Shepp model (C14, round 2).  Core Lean only, generic over
`[RSNum α]`: no algebraic law of `α` is used, so every statement holds for the `Float` instantiation
(the one the driver runs) as well as for ℝ.

* the candidate fold `cands.foldl consider acc` (one family `CSC`, `CCC`, … of the C++) keeps the
  initial `(Lmin, path)` or ends on one of the candidates, and no candidate's key (nor the initial
  `Lmin`) is strictly below the final `Lmin` — needs only that `<` is a strict weak order
  (round 1's `StrictWeak`);
* `rsInteg` (the interpolation loop with its running signed budget) = driving the truncated signed
  word fully; the truncated word spells a prefix of the original.
-/
namespace OmplModel.RS
open OmplModel OmplModel.Dubins

section
variable {α : Type} [RSNum α]

/-! ## `gtOpt` (`Lmin > L`, `none` = `DBL_MAX`) -/

theorem gtOpt_none (L : α) : gtOpt (none : Option α) L = true := rfl

theorem gtOpt_some (m L : α) : gtOpt (some m) L = decide (L < m) := rfl

theorem gtOpt_false_iff (r : Option α) (L : α) :
    gtOpt r L = false ↔ ∃ m, r = some m ∧ ¬ L < m := by
  cases r with
  | none => simp [gtOpt]
  | some m => simp [gtOpt]

/-- `¬ m < r` and `¬ L < m` give `¬ L < r` -/
theorem gtOpt_false_trans (h : StrictWeak α) (r : Option α) (m L : α)
    (h1 : gtOpt r m = false) (h2 : ¬ L < m) : gtOpt r L = false := by
  obtain ⟨r', rfl, hr⟩ := (gtOpt_false_iff r m).mp h1
  exact (gtOpt_false_iff _ _).mpr ⟨r', rfl, h.negTrans L m r' h2 hr⟩

/-- `¬ L < r` and `L < m` give `¬ m < r` -/
theorem gtOpt_false_of_lt (h : StrictWeak α) (r : Option α) (m L : α)
    (h1 : gtOpt r L = false) (h2 : L < m) : gtOpt r m = false := by
  obtain ⟨r', rfl, hr⟩ := (gtOpt_false_iff r L).mp h1
  exact (gtOpt_false_iff _ _).mpr ⟨r', rfl, h.negTrans m L r' (h.asymm L m h2) hr⟩

theorem gtOpt_self_false (h : StrictWeak α) (m : α) : gtOpt (some m) m = false := by
  rw [gtOpt_some, decide_eq_false_iff_not]
  exact fun hlt => h.asymm m m hlt hlt

/-! ## one `consider` step -/

theorem consider_none (acc : Acc α) : consider acc none = acc := rfl

theorem consider_some_take (acc : Acc α) (L : α) (p : RSPath α) (hgt : gtOpt acc.lmin L = true) :
    consider acc (some (L, p)) = ⟨some L, some p⟩ := by
  simp only [consider, hgt, if_true]

theorem consider_some_keep (acc : Acc α) (L : α) (p : RSPath α) (hgt : gtOpt acc.lmin L = false) :
    consider acc (some (L, p)) = acc := by
  simp only [consider, hgt, Bool.false_eq_true, if_false]

/-! ## the fold -/

/-- the fold keeps the initial `(Lmin, path)` or ends on one of the candidates -/
theorem foldl_consider_mem (cands : List (Cand α)) (acc : Acc α) :
    ((cands.foldl consider acc).path = acc.path ∧ (cands.foldl consider acc).lmin = acc.lmin) ∨
      ∃ L p, some (L, p) ∈ cands ∧ (cands.foldl consider acc).lmin = some L ∧
        (cands.foldl consider acc).path = some p := by
  induction cands generalizing acc with
  | nil => exact Or.inl ⟨rfl, rfl⟩
  | cons c cs ih =>
    simp only [List.foldl_cons]
    rcases ih (consider acc c) with ⟨h1, h2⟩ | ⟨L, p, hm, h1, h2⟩
    · cases c with
      | none => left; rw [h1, h2]; exact ⟨rfl, rfl⟩
      | some Lp =>
        obtain ⟨L, p⟩ := Lp
        cases hgt : gtOpt acc.lmin L with
        | true =>
          right
          rw [consider_some_take acc L p hgt] at h1 h2 ⊢
          exact ⟨L, p, List.mem_cons_self, h2, h1⟩
        | false =>
          left
          rw [consider_some_keep acc L p hgt] at h1 h2 ⊢
          exact ⟨h1, h2⟩
    · right; exact ⟨L, p, List.mem_cons_of_mem _ hm, h1, h2⟩

/-- no candidate's key is strictly below the final `Lmin`, and the final `Lmin` is not above the
initial one -/
theorem foldl_consider_min (h : StrictWeak α) (cands : List (Cand α)) (acc : Acc α) :
    (∀ L p, some (L, p) ∈ cands → gtOpt (cands.foldl consider acc).lmin L = false) ∧
      (∀ m, acc.lmin = some m → gtOpt (cands.foldl consider acc).lmin m = false) := by
  induction cands generalizing acc with
  | nil =>
    refine ⟨fun L p hm => (by cases hm), fun m hm => ?_⟩
    simp only [List.foldl_nil, hm]
    exact gtOpt_self_false h m
  | cons c cs ih =>
    simp only [List.foldl_cons]
    obtain ⟨ih1, ih2⟩ := ih (consider acc c)
    cases c with
    | none =>
      rw [consider_none] at ih1 ih2 ⊢
      refine ⟨fun L p hm => ?_, ih2⟩
      rcases List.mem_cons.mp hm with hc | hm
      · cases hc
      · exact ih1 L p hm
    | some Lp =>
      obtain ⟨L0, p0⟩ := Lp
      cases hgt : gtOpt acc.lmin L0 with
      | true =>
        rw [consider_some_take acc L0 p0 hgt] at ih1 ih2 ⊢
        have hL0 := ih2 L0 rfl
        refine ⟨fun L p hm => ?_, fun m hm => ?_⟩
        · rcases List.mem_cons.mp hm with hc | hm
          · obtain ⟨rfl, rfl⟩ := Prod.mk.inj (Option.some.inj hc)
            exact hL0
          · exact ih1 L p hm
        · rw [hm, gtOpt_some, decide_eq_true_eq] at hgt
          exact gtOpt_false_of_lt h _ m L0 hL0 hgt
      | false =>
        rw [consider_some_keep acc L0 p0 hgt] at ih1 ih2 ⊢
        refine ⟨fun L p hm => ?_, ih2⟩
        rcases List.mem_cons.mp hm with hc | hm
        · obtain ⟨rfl, rfl⟩ := Prod.mk.inj (Option.some.inj hc)
          obtain ⟨m, hm', hlt⟩ := (gtOpt_false_iff _ _).mp hgt
          exact gtOpt_false_trans h _ m L (ih2 m hm') hlt
        · exact ih1 L p hm

/-- **One family returns a shortest of its candidates** (arithmetic-free core): `runFamily` either
keeps the incoming path `cur`, and then no candidate's key is strictly below the incoming
`Lmin = startLmin off cur`; or it returns the path of one of the candidates `(L, p)`, no candidate's
key is strictly below `L`, and the incoming `Lmin` is not strictly below `L` either. -/
theorem runFamily_min (h : StrictWeak α) (off : Option α) (cands : List (Cand α))
    (cur : Option (RSPath α)) :
    (runFamily off cands cur = cur ∧
        ∀ L p, some (L, p) ∈ cands → gtOpt (startLmin off cur) L = false) ∨
      ∃ L p, some (L, p) ∈ cands ∧ runFamily off cands cur = some p ∧
        (∀ L' p', some (L', p') ∈ cands → ¬ L' < L) ∧
        (∀ m, startLmin off cur = some m → ¬ m < L) := by
  obtain ⟨hmin1, hmin2⟩ := foldl_consider_min h cands ⟨startLmin off cur, cur⟩
  rcases foldl_consider_mem cands ⟨startLmin off cur, cur⟩ with ⟨h1, h2⟩ | ⟨L, p, hm, h1, h2⟩
  · left
    refine ⟨h1, fun L p hm => ?_⟩
    have := hmin1 L p hm
    rw [h2] at this; exact this
  · right
    refine ⟨L, p, hm, h2, fun L' p' hm' => ?_, fun m hm' => ?_⟩
    · have := hmin1 L' p' hm'
      rw [h1, gtOpt_some, decide_eq_false_iff_not] at this; exact this
    · have := hmin2 m hm'
      rw [h1, gtOpt_some, decide_eq_false_iff_not] at this; exact this

/-! ## the interpolation loop drives the truncated signed word -/

/-- `rsInteg` (running budget `seg`, signed lengths, early exit) = `rsIntegFull` on `rsTruncate segs seg`. -/
theorem rsInteg_eq_integFull_truncate (segs : List (RSeg × α)) (seg : α) (P : Pose α) :
    rsInteg segs seg P = rsIntegFull (rsTruncate segs seg) P := by
  induction segs generalizing seg P with
  | nil => rfl
  | cons hd tl ih =>
    obtain ⟨s, l⟩ := hd
    simp only [rsInteg, rsTruncate]
    split
    · split
      · simp only [rsIntegFull]; exact ih _ _
      · simp only [rsIntegFull]; exact ih _ _
    · rfl

/-- the pose `interpolate` reports at `t` is reached by driving the truncated signed word from
`(0,0,yaw)`, then scaling by `rho`, translating by `frm` and wrapping the yaw. -/
theorem rsInterpPath_eq (rho : α) (frm : Pose α) (p : RSPath α) (t : α) :
    rsInterpPath rho frm p t =
      ⟨(rsIntegFull (rsTruncate p.segList (t * p.len)) ⟨0, 0, frm.th⟩).x * rho + frm.x,
       (rsIntegFull (rsTruncate p.segList (t * p.len)) ⟨0, 0, frm.th⟩).y * rho + frm.y,
       so2Enforce (rsIntegFull (rsTruncate p.segList (t * p.len)) ⟨0, 0, frm.th⟩).th⟩ := by
  unfold rsInterpPath
  simp only [rsInteg_eq_integFull_truncate]

/-- the truncated word has the letters of a prefix of the original, in the same order -/
theorem rsTruncate_letters_prefix (segs : List (RSeg × α)) (seg : α) :
    (rsTruncate segs seg).map Prod.fst <+: segs.map Prod.fst := by
  induction segs generalizing seg with
  | nil => simp [rsTruncate]
  | cons hd tl ih =>
    obtain ⟨s, l⟩ := hd
    simp only [rsTruncate]
    split
    · split
      · simp only [List.map_cons]
        exact List.prefix_cons_inj s |>.mpr (ih _)
      · simp only [List.map_cons]
        exact List.prefix_cons_inj s |>.mpr (ih _)
    · simp

end
end OmplModel.RS
