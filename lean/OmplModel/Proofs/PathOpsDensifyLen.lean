import OmplModel.Proofs.PathOpsDensify
import OmplModel.Proofs.PathOpsRopeLen
/-
"Densifying a path … leaves length unchanged" for `PathGeometric::interpolate()` and `interpolate(count)` (round 10, second lap;
`subdivide_length_eq` existed): if the states `getMotionStates` puts on a motion are cost-additive (`geo`: the chain
`a, motionStates …, b` is as long as `a → b`), `interpolateAll` and `interpolateCount` keep `pathLen` — for every
`validSegmentCount`, every rounding function, every remaining-length bookkeeping (incl. the unsigned wrap-arounds of the model).
-/
namespace OmplModel.PathOps
variable {σ : Type}
section L
variable {κ : Type} [AddCommMonoid κ]

theorem interpolateAll_cons (vsc : σ → σ → Nat) (frac : σ → σ → Nat → Nat → σ) (b : σ) (r : List σ) :
    ∃ t, interpolateAll vsc frac (b :: r) = b :: t := by
  cases r with
  | nil => exact ⟨[], rfl⟩
  | cons c r' => exact ⟨_, rfl⟩

/-- `interpolate()` leaves the length unchanged when the states of a motion lie on a geodesic -/
theorem interpolateAll_pathLen (d : σ → σ → κ) (vsc : σ → σ → Nat) (frac : σ → σ → Nat → Nat → σ)
    (geo : ∀ a b cnt, pathLen d (a :: (motionStates frac a b cnt ++ [b])) = d a b) :
    ∀ l : List σ, pathLen d (interpolateAll vsc frac l) = pathLen d l := by
  intro l
  induction l with
  | nil => rfl
  | cons a r ih =>
    cases r with
    | nil => rfl
    | cons b r' =>
      obtain ⟨t, ht⟩ := interpolateAll_cons vsc frac b r'
      rw [interpolateAll, ht, pathLen_cons_append d _ a b t, geo, ← ht, ih]
      rfl

theorem icLoop_cons {α : Type} (segLen : σ → σ → α) (sub : α → α → α) (approx : Int → α → α → Int)
    (frac : σ → σ → Nat → Nat → σ) (size i : Nat) (count : Int) (rem : α) (b : σ) (r : List σ) :
    ∃ t, icLoop segLen sub approx frac size i count rem (b :: r) = b :: t := by
  cases r with
  | nil => exact ⟨[], by simp [icLoop]⟩
  | cons c r' =>
    rw [icLoop]
    split
    · exact ⟨_, rfl⟩
    · exact ⟨_, rfl⟩

/-- `interpolate(count)` leaves the length unchanged (same hypothesis), whatever the rounding function and the bookkeeping return -/
theorem icLoop_pathLen {α : Type} (d : σ → σ → κ) (segLen : σ → σ → α) (sub : α → α → α) (approx : Int → α → α → Int)
    (frac : σ → σ → Nat → Nat → σ)
    (geo : ∀ a b cnt, pathLen d (a :: (motionStates frac a b cnt ++ [b])) = d a b) (size : Nat) :
    ∀ (l : List σ) (i : Nat) (count : Int) (rem : α),
      pathLen d (icLoop segLen sub approx frac size i count rem l) = pathLen d l := by
  intro l
  induction l with
  | nil => intro i count rem; simp [icLoop]
  | cons a r ih =>
    intro i count rem
    cases r with
    | nil => simp [icLoop]
    | cons b r' =>
      rw [icLoop]
      split
      · dsimp only
        obtain ⟨t, ht⟩ := icLoop_cons segLen sub approx frac size (i + 1) _ (sub rem (segLen a b)) b r'
        have hb : ∀ (c : Prop) [Decidable c] (k : Nat),
            pathLen d (a :: ((if c then motionStates frac a b k else []) ++ [b])) = d a b := by
          intro c _ k
          split
          · exact geo _ _ _
          · simp [pathLen]
        rw [ht, pathLen_cons_append d _ a b t, ← ht, ih, hb]
        rfl
      · obtain ⟨t, ht⟩ := icLoop_cons segLen sub approx frac size (i + 1) (count - 1) rem b r'
        rw [ht]
        have := ih (i + 1) (count - 1) rem
        rw [ht] at this
        simp only [pathLen]
        rw [this]

theorem interpolateCount_pathLen {α : Type} (d : σ → σ → κ) (segLen : σ → σ → α) (sub : α → α → α)
    (approx : Int → α → α → Int) (frac : σ → σ → Nat → Nat → σ)
    (geo : ∀ a b cnt, pathLen d (a :: (motionStates frac a b cnt ++ [b])) = d a b) (len : α) (n : Nat) (l : List σ) :
    pathLen d (interpolateCount segLen sub approx frac len n l) = pathLen d l := by
  unfold interpolateCount
  split
  · rfl
  · exact icLoop_pathLen d segLen sub approx frac geo _ l 0 n len

end L
end OmplModel.PathOps
