import OmplModel.Model.ConstrainedAtlas
import OmplModel.Proofs.Constrained
/-!
Helper lemmas for the atlas part of C16 (arithmetic-free, core Lean only): they hold for every
`Arith`, `Ambient` and every stateful `AtlasOracle` (every answer stream), every fuel.
-/
namespace OmplModel.Constrained

variable {σ S U C D : Type}

/-- `x` is what some `psi` call that returned `true` left behind -/
def PsiOut (O : AtlasOracle σ S U C D) (x : S) : Prop := ∃ s c u, (O.psi s c u).1 = (true, x)

/-- some `isValid(x)` call returned `true` -/
def AValid (O : AtlasOracle σ S U C D) (x : S) : Prop := ∃ s, (O.valid s x).1 = true

theorem validOrSkip_true (O : AtlasOracle σ S U C D) (i : Bool) (s : σ) (x : S)
    (h : ¬ (validOrSkip O i s x).1 = false) (hi : i = false) : AValid O x := by
  subst hi
  simp only [validOrSkip, Bool.false_eq_true, ↓reduceIte] at h
  exact ⟨s, by simpa using h⟩

section atlas
variable (A : Arith D) (Am : Ambient S D) (O : AtlasOracle σ S U C D) (P : AtlasParams D)
  (interpolate : Bool) (frm to : S) (distMax : D)

/-- what the loop body guarantees about an accepted (pushed) state -/
structure AStepOK (scratch x : S) (done : Bool) : Prop where
  psi : PsiOut O x
  valid : interpolate = false → AValid O x
  step : A.le (A.mul P.lambda P.delta) (Am.dist scratch x) = false
  done_eq : done = A.le (Am.dist x to) P.delta

theorem atlasStep_accept (s : σ) (c : C) (uj ub : U) (scratch : S) (dist factor : D) (created : Nat)
    (x : S) (s' : σ) (c' : C) (uj' ub' : U) (dist' : D) (created' : Nat) (done : Bool)
    (h : atlasStep A Am O P interpolate frm to distMax s c uj ub scratch dist factor created =
      .accept x s' c' uj' ub' dist' created' done) :
    AStepOK A Am O P interpolate to scratch x done := by
  unfold atlasStep at h
  simp only at h
  split at h
  · cases h
  · rename_i hpsi
    split at h
    · cases h
    · split at h
      · cases h
      · rename_i hstep
        split at h
        · cases h
        · rename_i hv
          split at h
          · cases h
          · split at h
            · cases h
            · split at h
              · cases h
              · have hpsi' : PsiOut O (O.psi (O.advance s uj ub (A.mul factor P.delta)).2 c
                    (O.advance s uj ub (A.mul factor P.delta)).1).1.2 :=
                  ⟨_, c, _, Prod.ext (by simpa using hpsi) rfl⟩
                split at h
                · split at h
                  · cases h
                  · simp only [AStep.accept.injEq] at h
                    obtain ⟨hx, _, _, _, _, _, _, hd⟩ := h
                    subst hx
                    exact ⟨hpsi', validOrSkip_true O interpolate _ _ hv, by simpa using hstep, hd.symm⟩
                · simp only [AStep.accept.injEq] at h
                  obtain ⟨hx, _, _, _, _, _, _, hd⟩ := h
                  subst hx
                  exact ⟨hpsi', validOrSkip_true O interpolate _ _ hv, by simpa using hstep, hd.symm⟩

/-- the pushed states, seen from the state before them -/
inductive ATrace : S → List S → Prop
  | nil (prev : S) : ATrace prev []
  | cons {prev x : S} {xs : List S} {done : Bool} :
      AStepOK A Am O P interpolate to prev x done → ATrace x xs → ATrace prev (x :: xs)

theorem atlasLoop_trace : ∀ (k : Nat) (s : σ) (c : C) (uj ub : U) (scratch : S) (dist factor : D)
    (created : Nat),
    ATrace A Am O P interpolate to scratch
      (atlasLoop A Am O P interpolate frm to distMax k s c uj ub scratch dist factor created).states
  | 0, s, c, uj, ub, scratch, dist, factor, created => by simp only [atlasLoop]; exact .nil _
  | k + 1, s, c, uj, ub, scratch, dist, factor, created => by
    simp only [atlasLoop]
    split
    · exact .nil _
    · cases hst : atlasStep A Am O P interpolate frm to distMax s c uj ub scratch dist factor created with
      | stop why s' => exact .nil _
      | backoff s' uj' => exact atlasLoop_trace k _ _ _ _ _ _ _ _
      | accept x s' c' uj' ub' dist' created' done =>
        have hok := atlasStep_accept A Am O P interpolate frm to distMax s c uj ub scratch dist factor
          created x s' c' uj' ub' dist' created' done hst
        simp only
        split
        · exact .cons hok (.nil _)
        · exact .cons hok (atlasLoop_trace k _ _ _ _ _ _ _ _)

theorem ATrace.mem {prev : S} {xs : List S} (h : ATrace A Am O P interpolate to prev xs) :
    ∀ x ∈ xs, PsiOut O x ∧ (interpolate = false → AValid O x) := by
  induction h with
  | nil => intro x hx; simp at hx
  | cons hok _ ih =>
    intro y hy
    rcases List.mem_cons.mp hy with rfl | hy
    · exact ⟨hok.psi, hok.valid⟩
    · exact ih y hy

theorem ATrace.step {prev : S} {xs : List S} (h : ATrace A Am O P interpolate to prev xs) :
    Consec (fun a b => A.le (A.mul P.lambda P.delta) (Am.dist a b) = false) (prev :: xs) := by
  induction h with
  | nil => exact trivial
  | cons hok _ ih => exact ⟨hok.step, ih⟩

/-- the returned flag of the loop: `true` only through the `reached` exit, where it is the
conjunction of the two closeness tests on the last pushed state -/
theorem atlasLoop_ok : ∀ (k : Nat) (s : σ) (c : C) (uj ub : U) (scratch : S) (dist factor : D)
    (created : Nat),
    (atlasLoop A Am O P interpolate frm to distMax k s c uj ub scratch dist factor created).ok = true →
    ∀ y, (scratch :: (atlasLoop A Am O P interpolate frm to distMax k s c uj ub scratch dist factor
        created).states).getLast? = some y →
      A.le (Am.dist to y) P.delta = true ∧ A.le (Am.dist y to) P.delta = true
  | 0, s, c, uj, ub, scratch, dist, factor, created => by simp [atlasLoop]
  | k + 1, s, c, uj, ub, scratch, dist, factor, created => by
    simp only [atlasLoop]
    split
    · simp
    · cases hst : atlasStep A Am O P interpolate frm to distMax s c uj ub scratch dist factor created with
      | stop why s' => simp
      | backoff s' uj' => exact atlasLoop_ok k _ _ _ _ _ _ _ _
      | accept x s' c' uj' ub' dist' created' done =>
        have hok := atlasStep_accept A Am O P interpolate frm to distMax s c uj ub scratch dist factor
          created x s' c' uj' ub' dist' created' done hst
        simp only
        split
        · rename_i hd
          intro h y hy
          simp only at h
          simp only [List.getLast?_cons_cons, List.getLast?_singleton, Option.some.injEq] at hy
          subst hy
          refine ⟨h, ?_⟩
          rw [hok.done_eq] at hd
          exact hd
        · intro h y hy
          simp only [List.getLast?_cons_cons] at hy
          exact atlasLoop_ok k s' c' uj' ub' x dist' A.one created' h y hy

end atlas

/-! ### TangentBundle -/

/-- `tbProject` answers `true` only with the output of a successful `psi` that was answered valid -/
theorem tbProject_true (O : AtlasOracle σ S U C D) (s : σ) (x : S) (r : Bool × S × σ)
    (h : tbProject O s x = some r) (hr : r.1 = true) : PsiOut O r.2.1 ∧ AValid O r.2.1 := by
  unfold tbProject at h
  simp only at h
  split at h
  · cases h
  · rename_i c hc
    split at h
    · rename_i hp
      simp only [Option.some.injEq] at h
      subst h
      exact ⟨⟨_, c, _, Prod.ext hp rfl⟩, ⟨_, hr⟩⟩
    · simp only [Option.some.injEq] at h
      subst h
      simp at hr

/-- the TangentBundle geodesic stores `from` first whenever it touches the list -/
theorem tbGeodesic_head (A : Arith D) (Am : Ambient S D) (O : AtlasOracle σ S U C D) (P : AtlasParams D)
    (isFin : D → Bool) (fuel : Nat) (s : σ) (frm to : S) (i : Bool) (l : List S)
    (h : (tbGeodesic A Am O P isFin fuel s frm to i).states = some l) : l.head? = some frm := by
  unfold tbGeodesic at h
  simp only at h
  split at h
  · cases h
  · split at h
    · cases h
    · split at h
      · simp only [Option.some.injEq] at h; subst h; rfl
      · split at h
        · simp only [Option.some.injEq] at h; subst h; rfl
        · simp only [Option.some.injEq] at h; subst h; rfl

theorem tbGeodesic_ok_some (A : Arith D) (Am : Ambient S D) (O : AtlasOracle σ S U C D) (P : AtlasParams D)
    (isFin : D → Bool) (fuel : Nat) (s : σ) (frm to : S) (i : Bool)
    (h : (tbGeodesic A Am O P isFin fuel s frm to i).ok = true) :
    ∃ l, (tbGeodesic A Am O P isFin fuel s frm to i).states = some l := by
  unfold tbGeodesic at h ⊢
  simp only at h ⊢
  split
  · rename_i h1; simp [h1] at h
  · rename_i h1
    simp only [h1] at h
    split
    · rename_i h2; simp [h2] at h
    · split
      · exact ⟨_, rfl⟩
      · split
        · exact ⟨_, rfl⟩
        · exact ⟨_, rfl⟩

/-! ### the repaired TangentBundle traversal validates what it stores -/

section tbvalid
variable (A : Arith D) (Am : Ambient S D) (O : AtlasOracle σ S U C D) (P : AtlasParams D)
  (isFin : D → Bool) (interpolate : Bool) (frm to : S) (distMax : D)

theorem tbStep_accept_valid (s : σ) (c : C) (uj ub : U) (scratch : S) (dist : D) (created : Nat)
    (x : S) (s' : σ) (c' : C) (uj' ub' : U) (dist' : D) (created' : Nat) (done : Bool)
    (h : tbStep A Am O P isFin interpolate frm to distMax s c uj ub scratch dist created =
      .accept x s' c' uj' ub' dist' created' done) :
    interpolate = false → AValid O x := by
  unfold tbStep at h
  dsimp only at h
  split at h
  · cases h
  · split at h
    · cases h
    · split at h
      · cases h
      · split at h
        · cases h
        · split at h
          · cases h
          · split at h
            · cases h
            · split at h
              · cases h
              · rename_i hv
                split at h
                · split at h
                  · cases h
                  · simp only [TStep.accept.injEq] at h
                    obtain ⟨hx, _⟩ := h
                    subst hx
                    exact validOrSkip_true O interpolate _ _ hv
                · simp only [TStep.accept.injEq] at h
                  obtain ⟨hx, _⟩ := h
                  subst hx
                  exact validOrSkip_true O interpolate _ _ hv

theorem tbLoop_valid : ∀ (k : Nat) (s : σ) (c : C) (uj ub : U) (scratch : S) (dist : D) (created : Nat),
    ∀ x ∈ (tbLoop A Am O P isFin interpolate frm to distMax k s c uj ub scratch dist created).states,
      interpolate = false → AValid O x
  | 0, s, c, uj, ub, scratch, dist, created => by simp [tbLoop]
  | k + 1, s, c, uj, ub, scratch, dist, created => by
    simp only [tbLoop]
    cases hst : tbStep A Am O P isFin interpolate frm to distMax s c uj ub scratch dist created with
    | stop why s' scratch' => simp
    | accept x s' c' uj' ub' dist' created' done =>
      have hv := tbStep_accept_valid A Am O P isFin interpolate frm to distMax s c uj ub scratch dist created
        x s' c' uj' ub' dist' created' done hst
      simp only
      split
      · intro y hy
        simp only [List.mem_singleton] at hy
        subst hy
        exact hv
      · intro y hy
        rcases List.mem_cons.mp hy with rfl | hy
        · exact hv
        · exact tbLoop_valid k _ _ _ _ _ _ _ y hy

end tbvalid

/-! ### samplers -/

theorem dec32_pos (t : Nat) (h1 : 0 < t) (h2 : t < 4294967296) : dec32 t = t - 1 := by
  unfold dec32; omega

/-- what `nearLoop` returns: the output of a successful `psi` with `tries ≠ 0`, or `tries = 0` -/
theorem nearLoop_spec (O : AtlasOracle σ S U C D) (c : C) (ru : U) (d : D) (f : Nat) :
    ∀ (s : σ) (tries : Nat) (buf : S) (via : Via) (n : Nat) (r : S × Via × Nat × Nat × σ),
      nearLoop O c ru d f s tries buf via n = some r →
      (r.2.1 = .psi ∧ PsiOut O r.1 ∧ 0 < r.2.2.1) ∨ r.2.2.1 = 0 := by
  induction f with
  | zero => intro s tries buf via n r h; simp [nearLoop] at h
  | succ f ih =>
    intro s tries buf via n r h
    rw [nearLoop] at h
    simp only at h
    split at h
    · rename_i hpos
      split at h
      · exact ih _ _ _ _ _ r h
      · rename_i hp
        simp only [Option.some.injEq] at h
        subst h
        exact Or.inl ⟨rfl, ⟨_, c, _, Prod.ext (by simpa using hp) rfl⟩, hpos⟩
    · rename_i hpos
      simp only [Option.some.injEq] at h
      subst h
      exact Or.inr (Nat.eq_zero_of_not_pos hpos)

/-- if every `psi` fails, `nearLoop` ends with `tries = 0` (for the code's pre-decrement) -/
theorem nearLoop_all_fail (O : AtlasOracle σ S U C D) (c : C) (ru : U) (d : D)
    (hfail : ∀ s c u, (O.psi s c u).1.1 = false) (f : Nat) :
    ∀ (s : σ) (tries : Nat) (buf : S) (via : Via) (n : Nat),
      0 < tries → tries < 4294967296 → tries ≤ f →
      ∃ r, nearLoop O c ru d f s tries buf via n = some r ∧ r.2.2.1 = 0 := by
  induction f with
  | zero => intro s tries buf via n h1 _ h3; omega
  | succ f ih =>
    intro s tries buf via n h1 h2 h3
    rw [nearLoop]
    simp only
    rw [dec32_pos tries h1 h2]
    by_cases hpos : 0 < tries - 1
    · rw [if_pos hpos, if_pos (hfail _ _ _)]
      exact ih _ (tries - 1) _ _ _ hpos (by omega) (by omega)
    · rw [if_neg hpos]
      exact ⟨_, rfl, Nat.eq_zero_of_not_pos hpos⟩

/-- what the nested loops of `sampleUniform` return: a successful `psi` output, or the origin
of the last sampled chart -/
theorem uniOuter_spec (O : AtlasOracle σ S U C D) (fuel f : Nat) :
    ∀ (s : σ) (tries : Nat) (buf : S) (via : Via) (n : Nat) (r : S × Via × C × U × Nat × σ),
      uniOuter O fuel f s tries buf via n = some r →
      (r.2.1 = .psi ∧ PsiOut O r.1) ∨ (r.2.1 = .fallback ∧ r.1 = O.origin r.2.2.1) := by
  induction f with
  | zero => intro s tries buf via n r h; simp [uniOuter] at h
  | succ f ih =>
    intro s tries buf via n r h
    rw [uniOuter] at h
    simp only at h
    split at h
    · cases h
    · rename_i c ru tries' s' _
      split at h
      · split at h
        · exact ih _ _ _ _ _ r h
        · rename_i hp
          simp only [Option.some.injEq] at h
          subst h
          exact Or.inl ⟨rfl, ⟨_, c, _, Prod.ext (by simpa using hp) rfl⟩⟩
      · simp only [Option.some.injEq] at h
        subst h
        exact Or.inr ⟨rfl, rfl⟩

theorem nearFinish_raw (Am : Ambient S D) (O : AtlasOracle σ S U C D) (c : C) (near : S)
    (r : S × Via × Nat × Nat × σ) :
    (nearFinish Am O c near r).raw = (if r.2.2.1 = 0 then near else r.1) ∧
    (nearFinish Am O c near r).via = (if r.2.2.1 = 0 then Via.fallback else r.2.1) ∧
    (nearFinish Am O c near r).state = Am.clamp (nearFinish Am O c near r).raw := ⟨rfl, rfl, rfl⟩

end OmplModel.Constrained
