import OmplModel.Proofs.SpaceInterpFix61
import OmplModel.Proofs.SpaceInterpMobius
/-!
C07, the tree with the F61 and F159 repairs (`interpolateTree = postMobius ∘ interpolateFix61`): over ℝ
the Mobius gluing after the cylinder branch is the identity on interpolation results, so
`interpolateTree = interpolate` on well-typed in-bounds states, for every space.  `postMobius`
preserves the shape for any `Num` ([AF]).
-/
open scoped OmplModel.SpaceInterp.RealNum
attribute [-instance] OmplModel.Num.instOfNat

namespace OmplModel.SpaceInterp
open OmplModel OmplModel.Space Real RealNum

/-! ### [AF] shape -/

theorem postMobius_wellTyped {α : Type} [Num α] (sp : Space α) (a b r : St α)
    (ha : wellTyped sp a = true) (hb : wellTyped sp b = true) (hr : wellTyped sp r = true) :
    wellTyped sp (postMobius sp a b r) = true := by
  fun_induction postMobius sp a b r <;> simp_all [wellTyped]

/-- the tree interpolation preserves the shape, for any `Num` -/
theorem interpolateTree_wellTyped {α : Type} [Num α] (sp : Space α) (a b : St α) (t : α)
    (ha : wellTyped sp a = true) (hb : wellTyped sp b = true) :
    wellTyped sp (interpolateTree sp a b t) = true :=
  postMobius_wellTyped sp a b _ ha hb (interpolateW_wellTyped _ _ sp a b t ha hb)

/-! ### the Mobius mirror test is false on cylinder-branch results -/

theorem mobius_post_short {u1 u2 t : ℝ} (h : |u2 - u1| ≤ π) (ht0 : 0 ≤ t) (ht1 : t ≤ 1) :
    |u2 - so2Interp u1 u2 t| ≤ π := by
  rw [so2Interp_short t h]
  have e : u2 - (u1 + (u2 - u1) * t) = (u2 - u1) * (1 - t) := by ring
  rw [e, abs_mul, abs_of_nonneg (sub_nonneg.mpr ht1)]
  calc |u2 - u1| * (1 - t) ≤ |u2 - u1| * 1 :=
        mul_le_mul_of_nonneg_left (by linarith) (abs_nonneg _)
    _ ≤ π := by linarith

theorem mobius_post_fix {u1 u2 t : ℝ} (hu1 : -π ≤ u1) (hu1' : u1 < π) (hu2 : -π ≤ u2) (hu2' : u2 < π)
    (h : |u2 - u1| ≤ π) (ht0 : 0 ≤ t) (ht1 : t ≤ 1) : |u2 - so2InterpFix u1 u2 t| ≤ π := by
  rw [so2InterpFix_eq hu1 hu1' hu2 hu2' ht0 ht1]; exact mobius_post_short h ht0 ht1

/-! ### `postMobius` is the identity on interpolation results -/

theorem postMobius_interpolate (sp : Space ℝ) (a b : St ℝ) (t : ℝ)
    (hwa : wellTyped sp a = true) (hwb : wellTyped sp b = true) (ht0 : 0 ≤ t) (ht1 : t ≤ 1) :
    postMobius sp a b (interpolate sp a b t) = interpolate sp a b t := by
  induction sp generalizing a b with
  | ccons w h tl ih1 ih2 =>
    obtain ⟨ah, at', rfl, ha1, ha2⟩ := wellTyped_ccons hwa
    obtain ⟨bh, bt, rfl, hb1, hb2⟩ := wellTyped_ccons hwb
    simp only [interpolateW, postMobius, ih1 ah bh ha1 hb1, ih2 at' bt ha2 hb2]
  | mobius imax rad =>
    obtain ⟨u1, v1, rfl⟩ := wellTyped_mobius hwa
    obtain ⟨u2, v2, rfl⟩ := wellTyped_mobius hwb
    simp only [interpolateW, postMobius, abs_eq, pi_eq]
    split_ifs with h hm
    · exfalso
      rw [mobiusInterp_short _ _ _ h] at hm
      exact absurd (mobius_post_short h ht0 ht1) (not_le.mpr hm)
    · rfl
    · rfl
  | wrap s ih =>
    simp only [wellTyped] at hwa hwb
    simp only [interpolateW, postMobius]; exact ih a b hwa hwb
  | _ => simp only [postMobius]

theorem interpolateTree_eq (sp : Space ℝ) (a b : St ℝ) (t : ℝ)
    (hwa : wellTyped sp a = true) (hwb : wellTyped sp b = true)
    (hba : inBounds sp a = true) (hbb : inBounds sp b = true) (ht0 : 0 ≤ t) (ht1 : t ≤ 1) :
    interpolateTree sp a b t = interpolate sp a b t := by
  unfold interpolateTree
  rw [interpolateFix61_eq sp a b t hwa hwb hba hbb ht0 ht1]
  exact postMobius_interpolate sp a b t hwa hwb ht0 ht1

end OmplModel.SpaceInterp
