import OmplModel.Proofs.SpaceInterpSO2
import OmplModel.Proofs.SpaceInterpLeaf
/-!
C07, Mobius strip over ℝ: end points and bounds of `mobiusInterp so2Interp`.
-/
open scoped OmplModel.SpaceInterp.RealNum
attribute [-instance] OmplModel.Num.instOfNat

namespace OmplModel.SpaceInterp
open OmplModel Real RealNum

theorem mobiusInterp_short {u1 u2 : ℝ} (v1 v2 t : ℝ) (h : |u2 - u1| ≤ π) :
    mobiusInterp so2Interp u1 v1 u2 v2 t = (so2Interp u1 u2 t, lerp v1 v2 t) := by
  simp [mobiusInterp, h]

theorem mobiusInterp_long {u1 u2 : ℝ} (v1 v2 t : ℝ) (h : ¬ |u2 - u1| ≤ π) :
    mobiusInterp so2Interp u1 v1 u2 v2 t =
      (so2Interp u1 u2 t,
        if |u2 - so2Interp u1 u2 t| ≤ π then -(v1 + (-v2 - v1) * t) else v1 + (-v2 - v1) * t) := by
  simp [mobiusInterp, h]

theorem mobiusInterp_zero {u1 u2 : ℝ} (v1 v2 : ℝ) (h1 : -π ≤ u1) (h2 : u1 < π) :
    mobiusInterp so2Interp u1 v1 u2 v2 0 = (u1, v1) := by
  by_cases h : |u2 - u1| ≤ π
  · rw [mobiusInterp_short _ _ _ h, so2Interp_zero h1 h2, lerp_zero]
  · rw [mobiusInterp_long _ _ _ h, so2Interp_zero h1 h2, if_neg h]; simp

theorem mobiusInterp_one {u1 u2 : ℝ} (v1 v2 : ℝ) (h1 : -π ≤ u2) (h2 : u2 < π) :
    mobiusInterp so2Interp u1 v1 u2 v2 1 = (u2, v2) := by
  by_cases h : |u2 - u1| ≤ π
  · rw [mobiusInterp_short _ _ _ h, so2Interp_one h1 h2, lerp_one]
  · rw [mobiusInterp_long _ _ _ h, so2Interp_one h1 h2, if_pos (by simp [pi_pos.le])]
    congr 1; ring

/-- the width bounds `[-imax, imax]` are symmetric, so the mirrored coordinate stays inside -/
theorem mobiusInterp_inB {u1 u2 v1 v2 imax t : ℝ}
    (hv1 : rvInB [v1] [-imax] [imax] = true) (hv2 : rvInB [v2] [-imax] [imax] = true)
    (ht0 : 0 ≤ t) (ht1 : t ≤ 1) :
    rvInB [(mobiusInterp so2Interp u1 v1 u2 v2 t).2] [-imax] [imax] = true := by
  by_cases h : |u2 - u1| ≤ π
  · rw [mobiusInterp_short _ _ _ h]
    exact rvInB_interp (xs := [v1]) (ys := [v2]) hv1 hv2 ht0 ht1
  · rw [mobiusInterp_long _ _ _ h]
    rw [rvInB_cons] at hv1 hv2 ⊢
    simp only [rvInB, and_true] at hv1 hv2 ⊢
    have e : v1 + (-v2 - v1) * t = lerp v1 (-v2) t := by rw [lerp_eq]
    have l1 := lerp_le (a := v1) (b := -v2) (h := imax + dblEps) (by linarith [hv1.1])
      (by linarith [hv2.2]) ht0 ht1
    have l2 := le_lerp (a := v1) (b := -v2) (l := -imax - dblEps) (by linarith [hv1.2])
      (by linarith [hv2.1]) ht0 ht1
    rw [e]
    split_ifs <;> constructor <;> linarith

end OmplModel.SpaceInterp
