import OmplModel.Proofs.DubinsReal
import Mathlib.Analysis.SpecialFunctions.Trigonometric.Inverse
import Mathlib.Analysis.SpecialFunctions.Complex.Arg
import Mathlib.Analysis.SpecialFunctions.Sqrt
import Mathlib.Tactic.Linarith
import Mathlib.Tactic.Ring
import Mathlib.Tactic.LinearCombination
/-!
[EX] the six word solvers reach the goal (C14).  Over ℝ, for every angle normalisation `m2p` that
changes its argument by an exact multiple of 2π (`Exact m2p`; the fudge-free `mod2piExact` is one),
the path a solver returns, driven from `(0,0,α)` by the model's own `stepFwd` integration, ends at
position `(d, 0)` with heading `β` modulo 2π.  These are the exact versions of the `assert`s in the
six `dubinsXXX` functions of DubinsStateSpace.cpp.

Excluded by hypothesis: the two fudges of the code's `mod2pi` (`mod2pi_fudge_bound` quantifies what
they change) and, for RSL/LSR, the band `tmp ∈ [DUBINS_ZERO, 0)` where the code clamps `p` to 0.
-/
namespace OmplModel.Dubins
open OmplModel DubinsR
attribute [-instance] Num.instOfNat

/-! ## angle normalisation -/

/-- `m2p` changes its argument by an exact integer multiple of 2π -/
def Exact (m2p : ℝ → ℝ) : Prop := ∀ x, ∃ k : ℤ, m2p x = x + k * (2 * Real.pi)

theorem mod2piExact_eq (x : ℝ) :
    mod2piExact x = x - 2 * Real.pi * (⌊x / (2 * Real.pi)⌋ : ℝ) := by
  unfold mod2piExact; rw [twopi_eq, floor_eq]

theorem mod2piExact_exact : Exact mod2piExact := by
  intro x
  refine ⟨-⌊x / (2 * Real.pi)⌋, ?_⟩
  rw [mod2piExact_eq]; push_cast; ring

theorem mod2piExact_nonneg (x : ℝ) : 0 ≤ mod2piExact x := by
  rw [mod2piExact_eq]
  have h := Int.floor_le (x / (2 * Real.pi))
  have h2 := mul_le_mul_of_nonneg_left h twopi_pos.le
  rw [mul_div_cancel₀ _ twopi_pos.ne'] at h2
  linarith

theorem mod2piExact_lt (x : ℝ) : mod2piExact x < 2 * Real.pi := by
  rw [mod2piExact_eq]
  have h := Int.lt_floor_add_one (x / (2 * Real.pi))
  have h2 := mul_lt_mul_of_pos_left h twopi_pos
  rw [mul_div_cancel₀ _ twopi_pos.ne'] at h2
  linarith

theorem mod2pi_eq (x : ℝ) :
    mod2pi x = if x < 0 ∧ -(1 / 10 ^ 7) < x then 0
      else if 2 * Real.pi - mod2piExact x < 1 / 2 * (1 / 10 ^ 6) then 0 else mod2piExact x := by
  unfold mod2pi mod2piExact
  simp only [twopi_eq, floor_eq, half_eq, eps_eq, dzero_eq, ofNat_zero]

theorem mod2pi_nonneg (x : ℝ) : 0 ≤ mod2pi x := by
  rw [mod2pi_eq]
  split
  · exact le_rfl
  · split
    · exact le_rfl
    · exact mod2piExact_nonneg x

/-- what the two fudges of the code's `mod2pi` change: the result is within `ε/2` of an exact
representative of `x` modulo 2π. -/
theorem mod2pi_fudge_bound (x : ℝ) :
    ∃ k : ℤ, |mod2pi x - (x + k * (2 * Real.pi))| ≤ (eps : ℝ) / 2 := by
  rw [mod2pi_eq, eps_eq]
  obtain ⟨k0, hk0⟩ := mod2piExact_exact x
  split
  · rename_i h
    refine ⟨0, ?_⟩
    rw [abs_le]; constructor <;> norm_num <;> linarith [h.1, h.2]
  · split
    · rename_i h
      refine ⟨k0 - 1, ?_⟩
      have hlt := mod2piExact_lt x
      have e : (0 : ℝ) - (x + ((k0 - 1 : ℤ) : ℝ) * (2 * Real.pi)) = 2 * Real.pi - mod2piExact x := by
        rw [hk0]; push_cast; ring
      rw [e, abs_of_pos (by linarith)]
      linarith
    · refine ⟨k0, ?_⟩
      rw [hk0, sub_self, abs_zero]; norm_num

/-! ## trigonometric helpers -/

theorem sin_shift {a b : ℝ} {k : ℤ} (h : a = b + k * (2 * Real.pi)) : Real.sin a = Real.sin b := by
  rw [h, Real.sin_add_int_mul_two_pi]

theorem cos_shift {a b : ℝ} {k : ℤ} (h : a = b + k * (2 * Real.pi)) : Real.cos a = Real.cos b := by
  rw [h, Real.cos_add_int_mul_two_pi]

/-- polar form of the point `(X, Y)` with `atan2` -/
theorem polar (X Y : ℝ) :
    Real.sqrt (X ^ 2 + Y ^ 2) * Real.cos (Complex.arg ⟨X, Y⟩) = X ∧
    Real.sqrt (X ^ 2 + Y ^ 2) * Real.sin (Complex.arg ⟨X, Y⟩) = Y := by
  have h1 := Complex.norm_mul_cos_arg ⟨X, Y⟩
  have h2 := Complex.norm_mul_sin_arg ⟨X, Y⟩
  rw [Complex.norm_eq_sqrt_sq_add_sq] at h1 h2
  exact ⟨h1, h2⟩

/-- the rotation identity behind RSL (`c = 2`) and LSR (`c = -2`) -/
theorem csc_rot (X Y p c : ℝ) (h : X ^ 2 + Y ^ 2 = p ^ 2 + c ^ 2) (hc : c ≠ 0) :
    p * Real.cos (Complex.arg ⟨X, Y⟩ - Complex.arg ⟨p, c⟩) -
        c * Real.sin (Complex.arg ⟨X, Y⟩ - Complex.arg ⟨p, c⟩) = X ∧
    p * Real.sin (Complex.arg ⟨X, Y⟩ - Complex.arg ⟨p, c⟩) +
        c * Real.cos (Complex.arg ⟨X, Y⟩ - Complex.arg ⟨p, c⟩) = Y := by
  obtain ⟨hcA, hsA⟩ := polar X Y
  obtain ⟨hcB, hsB⟩ := polar p c
  rw [h] at hcA hsA
  have hpos : 0 < p ^ 2 + c ^ 2 := by positivity
  have hr2 : Real.sqrt (p ^ 2 + c ^ 2) ^ 2 = p ^ 2 + c ^ 2 := Real.sq_sqrt hpos.le
  have hr0 : Real.sqrt (p ^ 2 + c ^ 2) ≠ 0 := (Real.sqrt_pos.mpr hpos).ne'
  generalize Real.sqrt (p ^ 2 + c ^ 2) = r at *
  generalize Complex.arg ⟨X, Y⟩ = A at *
  generalize Complex.arg ⟨p, c⟩ = B at *
  rw [Real.cos_sub, Real.sin_sub]
  constructor
  · apply mul_left_cancel₀ hr0
    linear_combination (p * Real.cos A - c * Real.sin A) * hcB + (p * Real.sin A + c * Real.cos A) * hsB +
      r * hcA - Real.cos A * hr2
  · apply mul_left_cancel₀ hr0
    linear_combination (p * Real.sin A + c * Real.cos A) * hcB + (c * Real.sin A - p * Real.cos A) * hsB +
      r * hsA - Real.sin A * hr2

/-! ## end poses of three-letter words -/

theorem stepFwd_L (v : ℝ) (P : Pose ℝ) : stepFwd .L v P =
    ⟨P.x + Real.sin (P.th + v) - Real.sin P.th, P.y - Real.cos (P.th + v) + Real.cos P.th, P.th + v⟩ := rfl
theorem stepFwd_R (v : ℝ) (P : Pose ℝ) : stepFwd .R v P =
    ⟨P.x - Real.sin (P.th - v) + Real.sin P.th, P.y + Real.cos (P.th - v) - Real.cos P.th, P.th - v⟩ := rfl
theorem stepFwd_S (v : ℝ) (P : Pose ℝ) : stepFwd .S v P =
    ⟨P.x + v * Real.cos P.th, P.y + v * Real.sin P.th, P.th⟩ := rfl

theorem segList_fwd (w : Word) (t p q : ℝ) :
    Path.segList (⟨w, t, p, q, false⟩ : Path ℝ) = w.segs.zip [t, p, q] := rfl

theorem end_LSL (t p q α : ℝ) :
    integFull stepFwd (Path.segList (⟨.LSL, t, p, q, false⟩ : Path ℝ)) ⟨0, 0, α⟩ =
      ⟨-Real.sin α + p * Real.cos (α + t) + Real.sin (α + t + q),
       Real.cos α + p * Real.sin (α + t) - Real.cos (α + t + q), α + t + q⟩ := by
  simp only [segList_fwd, Word.segs, List.zip_cons_cons, List.zip_nil_right, integFull, stepFwd_L, stepFwd_S]
  congr 1 <;> ring

theorem end_RSR (t p q α : ℝ) :
    integFull stepFwd (Path.segList (⟨.RSR, t, p, q, false⟩ : Path ℝ)) ⟨0, 0, α⟩ =
      ⟨Real.sin α + p * Real.cos (α - t) - Real.sin (α - t - q),
       -Real.cos α + p * Real.sin (α - t) + Real.cos (α - t - q), α - t - q⟩ := by
  simp only [segList_fwd, Word.segs, List.zip_cons_cons, List.zip_nil_right, integFull, stepFwd_R, stepFwd_S]
  congr 1 <;> ring

theorem end_RSL (t p q α : ℝ) :
    integFull stepFwd (Path.segList (⟨.RSL, t, p, q, false⟩ : Path ℝ)) ⟨0, 0, α⟩ =
      ⟨Real.sin α + (p * Real.cos (α - t) - 2 * Real.sin (α - t)) + Real.sin (α - t + q),
       -Real.cos α + (p * Real.sin (α - t) + 2 * Real.cos (α - t)) - Real.cos (α - t + q), α - t + q⟩ := by
  simp only [segList_fwd, Word.segs, List.zip_cons_cons, List.zip_nil_right, integFull, stepFwd_R, stepFwd_S,
    stepFwd_L]
  congr 1 <;> ring

theorem end_LSR (t p q α : ℝ) :
    integFull stepFwd (Path.segList (⟨.LSR, t, p, q, false⟩ : Path ℝ)) ⟨0, 0, α⟩ =
      ⟨-Real.sin α + (p * Real.cos (α + t) + 2 * Real.sin (α + t)) - Real.sin (α + t - q),
       Real.cos α + (p * Real.sin (α + t) - 2 * Real.cos (α + t)) + Real.cos (α + t - q), α + t - q⟩ := by
  simp only [segList_fwd, Word.segs, List.zip_cons_cons, List.zip_nil_right, integFull, stepFwd_R, stepFwd_S,
    stepFwd_L]
  congr 1 <;> ring

theorem end_RLR (t p q α : ℝ) :
    integFull stepFwd (Path.segList (⟨.RLR, t, p, q, false⟩ : Path ℝ)) ⟨0, 0, α⟩ =
      ⟨Real.sin α + (2 * Real.sin (α - t + p) - 2 * Real.sin (α - t)) - Real.sin (α - t + p - q),
       -Real.cos α + (-2 * Real.cos (α - t + p) + 2 * Real.cos (α - t)) + Real.cos (α - t + p - q),
       α - t + p - q⟩ := by
  simp only [segList_fwd, Word.segs, List.zip_cons_cons, List.zip_nil_right, integFull, stepFwd_R, stepFwd_L]
  congr 1 <;> ring

theorem end_LRL (t p q α : ℝ) :
    integFull stepFwd (Path.segList (⟨.LRL, t, p, q, false⟩ : Path ℝ)) ⟨0, 0, α⟩ =
      ⟨-Real.sin α + (-2 * Real.sin (α + t - p) + 2 * Real.sin (α + t)) + Real.sin (α + t - p + q),
       Real.cos α + (2 * Real.cos (α + t - p) - 2 * Real.cos (α + t)) - Real.cos (α + t - p + q),
       α + t - p + q⟩ := by
  simp only [segList_fwd, Word.segs, List.zip_cons_cons, List.zip_nil_right, integFull, stepFwd_R, stepFwd_L]
  congr 1 <;> ring

/-- what a reach theorem asserts about a returned path -/
def Reaches (P : Path ℝ) (w : Word) (d α β : ℝ) : Prop :=
  P.w = w ∧ P.rev = false ∧
  (integFull stepFwd P.segList ⟨0, 0, α⟩).x = d ∧
  (integFull stepFwd P.segList ⟨0, 0, α⟩).y = 0 ∧
  ∃ k : ℤ, (integFull stepFwd P.segList ⟨0, 0, α⟩).th = β + k * (2 * Real.pi)

/-! ## LSL and RSR -/

theorem word_LSL_reaches (m2p : ℝ → ℝ) (hm : Exact m2p) (d α β : ℝ) (P : Path ℝ)
    (h : dubinsLSL m2p d α β = some P) : Reaches P .LSL d α β := by
  unfold dubinsLSL at h
  simp only [cos_eq, sin_eq, atan2_eq, sqrt_eq, max_eq, ofNat_two, ofNat_zero] at h
  split at h
  case isFalse => cases h
  obtain rfl := Option.some.inj h
  clear h
  set X := d + Real.sin α - Real.sin β with hX
  set Y := Real.cos β - Real.cos α with hY
  have htmp : 2 + d * d - 2 * (Real.cos α * Real.cos β + Real.sin α * Real.sin β - d * (Real.sin α - Real.sin β)) =
      X ^ 2 + Y ^ 2 := by
    rw [hX, hY]
    linear_combination (-1 : ℝ) * Real.sin_sq_add_cos_sq α - Real.sin_sq_add_cos_sq β
  rw [htmp, max_eq_left (by positivity)]
  obtain ⟨hc, hs⟩ := polar X Y
  obtain ⟨k1, hk1⟩ := hm (-α + Complex.arg ⟨X, Y⟩)
  obtain ⟨k2, hk2⟩ := hm (β - Complex.arg ⟨X, Y⟩)
  generalize Complex.arg ⟨X, Y⟩ = θ at *
  generalize m2p (-α + θ) = t at *
  generalize m2p (β - θ) = q at *
  generalize Real.sqrt (X ^ 2 + Y ^ 2) = p at *
  refine ⟨rfl, rfl, ?_⟩
  rw [end_LSL]
  have e1 : α + t = θ + k1 * (2 * Real.pi) := by rw [hk1]; ring
  have e2 : α + t + q = β + ((k1 + k2 : ℤ) : ℝ) * (2 * Real.pi) := by rw [hk1, hk2]; push_cast; ring
  refine ⟨?_, ?_, k1 + k2, e2⟩
  · show -Real.sin α + p * Real.cos (α + t) + Real.sin (α + t + q) = d
    rw [cos_shift e1, sin_shift e2, hc, hX]; ring
  · show Real.cos α + p * Real.sin (α + t) - Real.cos (α + t + q) = 0
    rw [sin_shift e1, cos_shift e2, hs, hY]; ring

theorem word_RSR_reaches (m2p : ℝ → ℝ) (hm : Exact m2p) (d α β : ℝ) (P : Path ℝ)
    (h : dubinsRSR m2p d α β = some P) : Reaches P .RSR d α β := by
  unfold dubinsRSR at h
  simp only [cos_eq, sin_eq, atan2_eq, sqrt_eq, max_eq, ofNat_two, ofNat_zero] at h
  split at h
  case isFalse => cases h
  obtain rfl := Option.some.inj h
  clear h
  set X := d - Real.sin α + Real.sin β with hX
  set Y := Real.cos α - Real.cos β with hY
  have htmp : 2 + d * d - 2 * (Real.cos α * Real.cos β + Real.sin α * Real.sin β - d * (Real.sin β - Real.sin α)) =
      X ^ 2 + Y ^ 2 := by
    rw [hX, hY]
    linear_combination (-1 : ℝ) * Real.sin_sq_add_cos_sq α - Real.sin_sq_add_cos_sq β
  rw [htmp, max_eq_left (by positivity)]
  obtain ⟨hc, hs⟩ := polar X Y
  obtain ⟨k1, hk1⟩ := hm (α - Complex.arg ⟨X, Y⟩)
  obtain ⟨k2, hk2⟩ := hm (-β + Complex.arg ⟨X, Y⟩)
  generalize Complex.arg ⟨X, Y⟩ = θ at *
  generalize m2p (α - θ) = t at *
  generalize m2p (-β + θ) = q at *
  generalize Real.sqrt (X ^ 2 + Y ^ 2) = p at *
  refine ⟨rfl, rfl, ?_⟩
  rw [end_RSR]
  have e1 : α - t = θ + ((-k1 : ℤ) : ℝ) * (2 * Real.pi) := by rw [hk1]; push_cast; ring
  have e2 : α - t - q = β + ((-k1 - k2 : ℤ) : ℝ) * (2 * Real.pi) := by rw [hk1, hk2]; push_cast; ring
  refine ⟨?_, ?_, -k1 - k2, e2⟩
  · show Real.sin α + p * Real.cos (α - t) - Real.sin (α - t - q) = d
    rw [cos_shift e1, sin_shift e2, hc, hX]; ring
  · show -Real.cos α + p * Real.sin (α - t) + Real.cos (α - t - q) = 0
    rw [sin_shift e1, cos_shift e2, hs, hY]; ring

/-! ## RSL and LSR -/

/-- RSL reaches the goal when the code's `tmp` is non-negative (in the band `[DUBINS_ZERO, 0)` the
code clamps `p` to 0 and the identity holds only approximately). -/
theorem word_RSL_reaches (m2p : ℝ → ℝ) (hm : Exact m2p) (d α β : ℝ) (P : Path ℝ)
    (hnn : 0 ≤ d * d - 2 + 2 * (Real.cos α * Real.cos β + Real.sin α * Real.sin β - d * (Real.sin α + Real.sin β)))
    (h : dubinsRSL m2p d α β = some P) : Reaches P .RSL d α β := by
  unfold dubinsRSL at h
  simp only [cos_eq, sin_eq, atan2_eq, sqrt_eq, max_eq, ofNat_two, ofNat_zero] at h
  split at h
  case isFalse => cases h
  obtain rfl := Option.some.inj h
  clear h
  rw [max_eq_left hnn]
  set X := d - Real.sin α - Real.sin β with hX
  set Y := Real.cos α + Real.cos β with hY
  have htmp : d * d - 2 + 2 * (Real.cos α * Real.cos β + Real.sin α * Real.sin β - d * (Real.sin α + Real.sin β)) =
      X ^ 2 + Y ^ 2 - 4 := by
    rw [hX, hY]
    linear_combination (-1 : ℝ) * Real.sin_sq_add_cos_sq α - Real.sin_sq_add_cos_sq β
  rw [htmp] at hnn ⊢
  have hp2 : X ^ 2 + Y ^ 2 = Real.sqrt (X ^ 2 + Y ^ 2 - 4) ^ 2 + 2 ^ 2 := by
    rw [Real.sq_sqrt hnn]; ring
  obtain ⟨hx, hy⟩ := csc_rot X Y (Real.sqrt (X ^ 2 + Y ^ 2 - 4)) 2 hp2 two_ne_zero
  generalize Real.sqrt (X ^ 2 + Y ^ 2 - 4) = p at *
  generalize Complex.arg ⟨X, Y⟩ - Complex.arg ⟨p, 2⟩ = θ at *
  obtain ⟨k1, hk1⟩ := hm (α - θ)
  obtain ⟨k2, hk2⟩ := hm (β - θ)
  generalize m2p (α - θ) = t at *
  generalize m2p (β - θ) = q at *
  refine ⟨rfl, rfl, ?_⟩
  rw [end_RSL]
  have e1 : α - t = θ + ((-k1 : ℤ) : ℝ) * (2 * Real.pi) := by rw [hk1]; push_cast; ring
  have e2 : α - t + q = β + ((k2 - k1 : ℤ) : ℝ) * (2 * Real.pi) := by rw [hk1, hk2]; push_cast; ring
  refine ⟨?_, ?_, k2 - k1, e2⟩
  · show Real.sin α + (p * Real.cos (α - t) - 2 * Real.sin (α - t)) + Real.sin (α - t + q) = d
    rw [cos_shift e1, sin_shift e1, sin_shift e2, hx, hX]; ring
  · show -Real.cos α + (p * Real.sin (α - t) + 2 * Real.cos (α - t)) - Real.cos (α - t + q) = 0
    rw [cos_shift e1, sin_shift e1, cos_shift e2, hy, hY]; ring

/-- LSR reaches the goal when the code's `tmp` is non-negative. -/
theorem word_LSR_reaches (m2p : ℝ → ℝ) (hm : Exact m2p) (d α β : ℝ) (P : Path ℝ)
    (hnn : 0 ≤ -2 + d * d + 2 * (Real.cos α * Real.cos β + Real.sin α * Real.sin β + d * (Real.sin α + Real.sin β)))
    (h : dubinsLSR m2p d α β = some P) : Reaches P .LSR d α β := by
  unfold dubinsLSR at h
  simp only [cos_eq, sin_eq, atan2_eq, sqrt_eq, max_eq, ofNat_two, ofNat_zero] at h
  split at h
  case isFalse => cases h
  obtain rfl := Option.some.inj h
  clear h
  rw [max_eq_left hnn]
  set X := d + Real.sin α + Real.sin β with hX
  set Y := -Real.cos α - Real.cos β with hY
  have htmp : -2 + d * d + 2 * (Real.cos α * Real.cos β + Real.sin α * Real.sin β + d * (Real.sin α + Real.sin β)) =
      X ^ 2 + Y ^ 2 - 4 := by
    rw [hX, hY]
    linear_combination (-1 : ℝ) * Real.sin_sq_add_cos_sq α - Real.sin_sq_add_cos_sq β
  rw [htmp] at hnn ⊢
  have hp2 : X ^ 2 + Y ^ 2 = Real.sqrt (X ^ 2 + Y ^ 2 - 4) ^ 2 + (-2) ^ 2 := by
    rw [Real.sq_sqrt hnn]; ring
  obtain ⟨hx, hy⟩ := csc_rot X Y (Real.sqrt (X ^ 2 + Y ^ 2 - 4)) (-2) hp2 (by norm_num)
  generalize Real.sqrt (X ^ 2 + Y ^ 2 - 4) = p at *
  generalize Complex.arg ⟨X, Y⟩ - Complex.arg ⟨p, -2⟩ = θ at *
  obtain ⟨k1, hk1⟩ := hm (-α + θ)
  obtain ⟨k2, hk2⟩ := hm (-β + θ)
  generalize m2p (-α + θ) = t at *
  generalize m2p (-β + θ) = q at *
  refine ⟨rfl, rfl, ?_⟩
  rw [end_LSR]
  have e1 : α + t = θ + ((k1 : ℤ) : ℝ) * (2 * Real.pi) := by rw [hk1]; ring
  have e2 : α + t - q = β + ((k1 - k2 : ℤ) : ℝ) * (2 * Real.pi) := by rw [hk1, hk2]; push_cast; ring
  refine ⟨?_, ?_, k1 - k2, e2⟩
  · show -Real.sin α + (p * Real.cos (α + t) + 2 * Real.sin (α + t)) - Real.sin (α + t - q) = d
    rw [cos_shift e1, sin_shift e1, sin_shift e2]; linear_combination hx + hX
  · show Real.cos α + (p * Real.sin (α + t) - 2 * Real.cos (α + t)) + Real.cos (α + t - q) = 0
    rw [cos_shift e1, sin_shift e1, cos_shift e2]; linear_combination hy + hY

/-! ## RLR and LRL -/

/-- the middle-arc identity of the CCC words: with `r² = X² + Y²`, `cos p = 1 - r²/8`, `p ∈ (π, 2π)`,
`θ = atan2 (Y, X)`: the chord of an arc of angle `p` on a radius-2 circle, bisected by direction `θ`. -/
theorem ccc_core (X Y tmp : ℝ) (h : tmp = 1 - (X ^ 2 + Y ^ 2) / 8) (habs : |tmp| < 1) :
    2 * Real.sin (Complex.arg ⟨X, Y⟩ + 1 / 2 * (2 * Real.pi - Real.arccos tmp)) -
      2 * Real.sin (Complex.arg ⟨X, Y⟩ - 1 / 2 * (2 * Real.pi - Real.arccos tmp)) = X ∧
    -2 * Real.cos (Complex.arg ⟨X, Y⟩ + 1 / 2 * (2 * Real.pi - Real.arccos tmp)) +
      2 * Real.cos (Complex.arg ⟨X, Y⟩ - 1 / 2 * (2 * Real.pi - Real.arccos tmp)) = Y := by
  obtain ⟨hlo, hhi⟩ := abs_lt.mp habs
  have hcos : Real.cos (2 * Real.pi - Real.arccos tmp) = tmp := by
    rw [Real.cos_two_pi_sub, Real.cos_arccos hlo.le hhi.le]
  have ha0 := Real.arccos_nonneg tmp
  have ha1 := Real.arccos_le_pi tmp
  have hpi := Real.pi_pos
  set u := 1 / 2 * (2 * Real.pi - Real.arccos tmp) with hu
  have h2u : 2 * Real.pi - Real.arccos tmp = 2 * u := by rw [hu]; ring
  rw [h2u, Real.cos_two_mul] at hcos
  have hsin0 : 0 ≤ Real.sin u :=
    Real.sin_nonneg_of_nonneg_of_le_pi (by rw [hu]; linarith) (by rw [hu]; linarith)
  have hsq : (4 * Real.sin u) ^ 2 = X ^ 2 + Y ^ 2 := by
    have := Real.sin_sq_add_cos_sq u
    nlinarith
  have hr : Real.sqrt (X ^ 2 + Y ^ 2) = 4 * Real.sin u := by
    rw [← hsq, Real.sqrt_sq (by linarith)]
  obtain ⟨hc, hs⟩ := polar X Y
  rw [hr] at hc hs
  rw [Real.sin_add, Real.sin_sub, Real.cos_add, Real.cos_sub]
  constructor
  · linear_combination hc
  · linear_combination hs

theorem word_RLR_reaches (m2p : ℝ → ℝ) (hm : Exact m2p) (d α β : ℝ) (P : Path ℝ)
    (h : dubinsRLR m2p d α β = some P) : Reaches P .RLR d α β := by
  unfold dubinsRLR at h
  simp only [cos_eq, sin_eq, atan2_eq, acos_eq, abs_eq, ofNat_two, ofNat_six, ofNat_one, ofDec_125_3, twopi_eq,
    half_eq] at h
  split at h
  case isFalse => cases h
  rename_i habs
  obtain rfl := Option.some.inj h
  clear h
  set X := d - Real.sin α + Real.sin β with hX
  set Y := Real.cos α - Real.cos β with hY
  have htmp : 1 / 8 * (6 - d * d + 2 * (Real.cos α * Real.cos β + Real.sin α * Real.sin β + d * (Real.sin α - Real.sin β))) =
      1 - (X ^ 2 + Y ^ 2) / 8 := by
    rw [hX, hY]
    linear_combination (1 / 8 : ℝ) * Real.sin_sq_add_cos_sq α + (1 / 8 : ℝ) * Real.sin_sq_add_cos_sq β
  obtain ⟨hx, hy⟩ := ccc_core X Y _ htmp habs
  generalize 1 / 8 * (6 - d * d + 2 * (Real.cos α * Real.cos β + Real.sin α * Real.sin β + d * (Real.sin α - Real.sin β))) = tmp at *
  generalize Complex.arg ⟨X, Y⟩ = θ at *
  generalize 2 * Real.pi - Real.arccos tmp = p at *
  obtain ⟨k1, hk1⟩ := hm (α - θ + 1 / 2 * p)
  generalize m2p (α - θ + 1 / 2 * p) = t at *
  obtain ⟨k2, hk2⟩ := hm (α - β - t + p)
  generalize m2p (α - β - t + p) = q at *
  refine ⟨rfl, rfl, ?_⟩
  rw [end_RLR]
  have e0 : α - t = θ - 1 / 2 * p + ((-k1 : ℤ) : ℝ) * (2 * Real.pi) := by rw [hk1]; push_cast; ring
  have e1 : α - t + p = θ + 1 / 2 * p + ((-k1 : ℤ) : ℝ) * (2 * Real.pi) := by rw [hk1]; push_cast; ring
  have e2 : α - t + p - q = β + ((-k2 : ℤ) : ℝ) * (2 * Real.pi) := by rw [hk2]; push_cast; ring
  refine ⟨?_, ?_, -k2, e2⟩
  · show Real.sin α + (2 * Real.sin (α - t + p) - 2 * Real.sin (α - t)) - Real.sin (α - t + p - q) = d
    rw [sin_shift e0, sin_shift e1, sin_shift e2, hx, hX]; ring
  · show -Real.cos α + (-2 * Real.cos (α - t + p) + 2 * Real.cos (α - t)) + Real.cos (α - t + p - q) = 0
    rw [cos_shift e0, cos_shift e1, cos_shift e2, hy, hY]; ring

theorem word_LRL_reaches (m2p : ℝ → ℝ) (hm : Exact m2p) (d α β : ℝ) (P : Path ℝ)
    (h : dubinsLRL m2p d α β = some P) : Reaches P .LRL d α β := by
  unfold dubinsLRL at h
  simp only [cos_eq, sin_eq, atan2_eq, acos_eq, abs_eq, ofNat_two, ofNat_six, ofNat_one, ofDec_125_3, twopi_eq,
    half_eq] at h
  split at h
  case isFalse => cases h
  rename_i habs
  obtain rfl := Option.some.inj h
  clear h
  set X := d + Real.sin α - Real.sin β with hX
  set Y := -Real.cos α + Real.cos β with hY
  have htmp : 1 / 8 * (6 - d * d + 2 * (Real.cos α * Real.cos β + Real.sin α * Real.sin β - d * (Real.sin α - Real.sin β))) =
      1 - (X ^ 2 + Y ^ 2) / 8 := by
    rw [hX, hY]
    linear_combination (1 / 8 : ℝ) * Real.sin_sq_add_cos_sq α + (1 / 8 : ℝ) * Real.sin_sq_add_cos_sq β
  obtain ⟨hx, hy⟩ := ccc_core X Y _ htmp habs
  generalize 1 / 8 * (6 - d * d + 2 * (Real.cos α * Real.cos β + Real.sin α * Real.sin β - d * (Real.sin α - Real.sin β))) = tmp at *
  generalize Complex.arg ⟨X, Y⟩ = θ at *
  generalize 2 * Real.pi - Real.arccos tmp = p at *
  obtain ⟨k1, hk1⟩ := hm (-α + θ + 1 / 2 * p)
  generalize m2p (-α + θ + 1 / 2 * p) = t at *
  obtain ⟨k2, hk2⟩ := hm (β - α - t + p)
  generalize m2p (β - α - t + p) = q at *
  refine ⟨rfl, rfl, ?_⟩
  rw [end_LRL]
  have e0 : α + t = θ + 1 / 2 * p + ((k1 : ℤ) : ℝ) * (2 * Real.pi) := by rw [hk1]; ring
  have e1 : α + t - p = θ - 1 / 2 * p + ((k1 : ℤ) : ℝ) * (2 * Real.pi) := by rw [hk1]; ring
  have e2 : α + t - p + q = β + ((k2 : ℤ) : ℝ) * (2 * Real.pi) := by rw [hk2]; ring
  refine ⟨?_, ?_, k2, e2⟩
  · show -Real.sin α + (-2 * Real.sin (α + t - p) + 2 * Real.sin (α + t)) + Real.sin (α + t - p + q) = d
    rw [sin_shift e0, sin_shift e1, sin_shift e2]; linear_combination hx + hX
  · show Real.cos α + (2 * Real.cos (α + t - p) - 2 * Real.cos (α + t)) - Real.cos (α + t - p + q) = 0
    rw [cos_shift e0, cos_shift e1, cos_shift e2]; linear_combination hy + hY

/-! ## segment lengths are non-negative -/

theorem word_lengths_nonneg (m2p : ℝ → ℝ) (hm : ∀ x, 0 ≤ m2p x) (w : Word) (d α β : ℝ) (P : Path ℝ)
    (h : solve m2p w d α β = some P) : 0 ≤ P.t ∧ 0 ≤ P.p ∧ 0 ≤ P.q := by
  have hacos : ∀ x : ℝ, 0 ≤ 2 * Real.pi - Real.arccos x := fun x => by
    have := Real.arccos_le_pi x; have := Real.pi_pos; linarith
  cases w <;> simp only [solve] at h
  · unfold dubinsLSL at h
    simp only [sqrt_eq] at h
    split at h
    case isFalse => cases h
    obtain rfl := Option.some.inj h
    exact ⟨hm _, Real.sqrt_nonneg _, hm _⟩
  · unfold dubinsRSR at h
    simp only [sqrt_eq] at h
    split at h
    case isFalse => cases h
    obtain rfl := Option.some.inj h
    exact ⟨hm _, Real.sqrt_nonneg _, hm _⟩
  · unfold dubinsRSL at h
    simp only [sqrt_eq] at h
    split at h
    case isFalse => cases h
    obtain rfl := Option.some.inj h
    exact ⟨hm _, Real.sqrt_nonneg _, hm _⟩
  · unfold dubinsLSR at h
    simp only [sqrt_eq] at h
    split at h
    case isFalse => cases h
    obtain rfl := Option.some.inj h
    exact ⟨hm _, Real.sqrt_nonneg _, hm _⟩
  · unfold dubinsRLR at h
    simp only [acos_eq, twopi_eq] at h
    split at h
    case isFalse => cases h
    obtain rfl := Option.some.inj h
    exact ⟨hm _, hacos _, hm _⟩
  · unfold dubinsLRL at h
    simp only [acos_eq, twopi_eq] at h
    split at h
    case isFalse => cases h
    obtain rfl := Option.some.inj h
    exact ⟨hm _, hacos _, hm _⟩

end OmplModel.Dubins
