import OmplModel.Proofs.Rng
import OmplModel.Model.RngSphere
/-! Helper lemmas for the sphere-based routines and for copies of an `RNG` (core Lean only, arithmetic-free). -/
namespace OmplModel.Rng

theorem uniformNormalVector_sim {a b : Rng} (h : Sim a b) (dim : Nat) :
    (a.uniformNormalVector dim).1 = (b.uniformNormalVector dim).1 ∧
      Sim (a.uniformNormalVector dim).2 (b.uniformNormalVector dim).2 := by
  have hg : a.gen = b.gen := h.2.1
  unfold Rng.uniformNormalVector
  rw [hg]
  split
  · exact ⟨rfl, h⟩
  · exact ⟨rfl, genOnly_sim h _⟩

theorem uniformInBall_sim {a b : Rng} (h : Sim a b) (rad : Float) (dim : Nat) :
    (a.uniformInBall rad dim).1 = (b.uniformInBall rad dim).1 ∧
      Sim (a.uniformInBall rad dim).2 (b.uniformInBall rad dim).2 := by
  have hs := uniformNormalVector_sim h dim
  unfold Rng.uniformInBall
  simp only []
  rw [hs.1]
  cases hv : (b.uniformNormalVector dim).1 with
  | none => exact ⟨rfl, hs.2⟩
  | some v =>
    have hg : (a.uniformNormalVector dim).2.gen = (b.uniformNormalVector dim).2.gen := hs.2.2.1
    simp only [Rng.uniformReal, hg]
    exact ⟨trivial, genOnly_sim hs.2 _⟩

theorem shuffle_sim {a b : Rng} (h : Sim a b) (v : Array Nat) :
    (a.shuffle v).1 = (b.shuffle v).1 ∧ Sim (a.shuffle v).2 (b.shuffle v).2 := by
  have hg : a.gen = b.gen := h.2.1
  unfold Rng.shuffle
  rw [hg]
  split
  · exact ⟨rfl, h⟩
  · exact ⟨rfl, genOnly_sim h _⟩

theorem stepX_sim {a b : Rng} (h : Sim a b) (op : OpX) :
    (a.stepX op).1 = (b.stepX op).1 ∧ Sim (a.stepX op).2 (b.stepX op).2 := by
  cases op with
  | base op =>
    have := step_sim h op
    simp only [Rng.stepX]; exact ⟨by rw [this.1], this.2⟩
  | shuffle n =>
    have := shuffle_sim h (Array.range n)
    simp only [Rng.stepX]; exact ⟨by rw [this.1], this.2⟩
  | sphere d =>
    have := uniformNormalVector_sim h d
    simp only [Rng.stepX]; exact ⟨by rw [this.1], this.2⟩
  | ball r d =>
    have := uniformInBall_sim h r d
    simp only [Rng.stepX]; exact ⟨by rw [this.1], this.2⟩

theorem runX_sim {a b : Rng} (h : Sim a b) (ops : List OpX) : a.runX ops = b.runX ops := by
  induction ops generalizing a b with
  | nil => rfl
  | cons op ops ih =>
    have := stepX_sim h op
    simp only [Rng.runX]
    rw [this.1, ih this.2]

def Rng.afterX (r : Rng) : List OpX → Rng
  | [] => r
  | op :: ops => Rng.afterX (r.stepX op).2 ops

theorem runX_append (r : Rng) (xs ys : List OpX) :
    r.runX (xs ++ ys) = r.runX xs ++ (r.afterX xs).runX ys := by
  induction xs generalizing r with
  | nil => rfl
  | cons x xs ih => simp only [List.cons_append, Rng.runX, Rng.afterX, ih]

theorem runX_length (r : Rng) (xs : List OpX) : (r.runX xs).length = xs.length := by
  induction xs generalizing r with
  | nil => rfl
  | cons x xs ih => simp only [Rng.runX, List.length_cons, ih]

/-! ### copies -/

/-- the sphere routine of a copy (bound to object `o ≠ k`) does not look at object `k` at all … -/
theorem sphereAt_ignores_other (rngs : Array Rng) (k o dim : Nat) (hko : k ≠ o) (r' : Rng) :
    (sphereAt (rngs.setIfInBounds k r') o dim).1 = (sphereAt rngs o dim).1 := by
  unfold sphereAt
  rw [Array.getElem?_setIfInBounds_ne hko]
  split <;> rfl

/-- … and does not change it -/
theorem sphereAt_leaves_other (rngs : Array Rng) (k o dim : Nat) (hko : k ≠ o) :
    (sphereAt rngs o dim).2[k]? = rngs[k]? := by
  unfold sphereAt
  split
  · rfl
  · simp only []
    rw [Array.getElem?_setIfInBounds_ne (Ne.symm hko)]

/-- for an object that is not a copy, `sphereAt` is `uniformNormalVector` on that object -/
theorem sphereAt_self (rngs : Array Rng) (o dim : Nat) (h : o < rngs.size) :
    sphereAt rngs o dim =
      ((rngs[o].uniformNormalVector dim).1, rngs.setIfInBounds o (rngs[o].uniformNormalVector dim).2) := by
  unfold sphereAt
  simp [Array.getElem?_eq_getElem h]

/-- the fixed copy constructor (/repo af02ab991): the copy is a new object bound to *itself*.  Its sphere routine is the
routine of its own engine state (which is the original's at the time of the copy), leaves the original alone, and
after `setLocalSeed s` on the copy it prints what a fresh `RNG(s)` prints. -/
theorem sphereAt_fixed_copy (rngs : Array Rng) (k dim : Nat) (h : k < rngs.size) (s : UInt64) :
    (sphereAt (rngs.push rngs[k]) rngs.size dim).1 = (rngs[k].uniformNormalVector dim).1 ∧
      (sphereAt (rngs.push rngs[k]) rngs.size dim).2[k]? = some rngs[k] ∧
      (sphereAt ((rngs.push rngs[k]).setIfInBounds rngs.size (rngs[k].setLocalSeed s)) rngs.size dim).1 =
        ((Rng.create s).uniformNormalVector dim).1 := by
  refine ⟨?_, ?_, ?_⟩
  · simp [sphereAt]
  · have hne : k ≠ rngs.size := Nat.ne_of_lt h
    rw [sphereAt_leaves_other _ k rngs.size dim hne]
    simp [Array.getElem?_push, hne, h]
  · have := uniformNormalVector_sim (setLocalSeed_sim_create rngs[k] s) dim
    simp [sphereAt, this.1]

end OmplModel.Rng
