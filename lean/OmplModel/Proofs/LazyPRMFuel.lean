import OmplModel.Proofs.LazyPRMComp
/-!
Fuel sufficiency of LazyPRM's breadth-first relabelling (`markComponent`): with the as-modelled fuel of `2·|E| + 2` pops
the traversal always runs to an empty queue, so afterwards every edge joins two equal component ids.  Hence the model's
`checkSame` self-check (which is not part of the C++) can never set `Roadmap.stale`: neither in `uniteComponents` after
an edge was added nor in the relabelling that follows a removal.

Potential: `|queue| + pending`, where `pending` counts the edge ends whose vertex does not carry the new id yet.  A pop
of a vertex that already has the new id lowers `|queue|` by one; a pop of any other vertex `n` relabels it, which takes
at least `deg n` edge ends out of `pending` and appends `deg n` entries to the queue.
-/
namespace OmplModel.LazyPRM

variable {S D : Type}

theorem get_set (comp : Array Nat) (n c x : Nat) :
    (comp.setIfInBounds n c)[x]?.getD 0 = if n = x ∧ n < comp.size then c else comp[x]?.getD 0 := by
  rw [Array.getElem?_setIfInBounds]
  by_cases hnx : n = x
  · subst hnx
    by_cases hlt : n < comp.size
    · simp [hlt]
    · simp [hlt]
  · simp [hnx]

/-- 1 when the vertex does not carry `newC` (yet), else 0 -/
def endc (newC : Nat) (comp : Array Nat) (x : Nat) : Nat := if comp[x]?.getD 0 = newC then 0 else 1

theorem endc_le_one (newC : Nat) (comp : Array Nat) (x : Nat) : endc newC comp x ≤ 1 := by
  unfold endc; split <;> omega

theorem endc_pos (newC : Nat) (comp : Array Nat) (x : Nat) (h : comp[x]?.getD 0 ≠ newC) : endc newC comp x = 1 := by
  unfold endc; rw [if_neg h]

theorem endc_set_self (newC n : Nat) (comp : Array Nat) (h : n < comp.size) :
    endc newC (comp.setIfInBounds n newC) n = 0 := by
  unfold endc; rw [get_set]; simp [h]

theorem endc_set_le (newC n : Nat) (comp : Array Nat) (x : Nat) :
    endc newC (comp.setIfInBounds n newC) x ≤ endc newC comp x := by
  unfold endc
  rw [get_set]
  by_cases h : n = x ∧ n < comp.size
  · rw [if_pos h, if_pos rfl]; omega
  · rw [if_neg h]; omega

/-- number of edge ends whose vertex does not carry `newC` (yet) -/
def pending (newC : Nat) (comp : Array Nat) : List (Edge D) → Nat
  | [] => 0
  | e :: r => endc newC comp e.u + endc newC comp e.v + pending newC comp r

theorem pending_le (newC : Nat) (comp : Array Nat) (E : List (Edge D)) : pending newC comp E ≤ 2 * E.length := by
  induction E with
  | nil => simp [pending]
  | cons e r ih =>
    simp only [pending, List.length_cons]
    have := endc_le_one newC comp e.u
    have := endc_le_one newC comp e.v
    omega

theorem adjacent_cons (e : Edge D) (r : List (Edge D)) (n : Nat) :
    adjacent (e :: r) n = if e.touches n = true then e.other n :: adjacent r n else adjacent r n := by
  unfold adjacent
  by_cases h : e.touches n = true
  · simp [h]
  · simp [h]

/-- relabelling `n` takes at least `deg n` edge ends out of `pending` -/
theorem pending_step (newC n : Nat) (comp : Array Nat) (hn : comp[n]?.getD 0 ≠ newC) :
    ∀ E : List (Edge D), (∀ e ∈ E, e.u < comp.size ∧ e.v < comp.size) →
      pending newC (comp.setIfInBounds n newC) E + (adjacent E n).length ≤ pending newC comp E := by
  intro E
  induction E with
  | nil => intro _; simp [pending, adjacent]
  | cons e r ih =>
    intro hb
    have ihr := ih (fun e' he' => hb e' (List.mem_cons_of_mem _ he'))
    obtain ⟨hu, hv⟩ := hb e (List.mem_cons_self ..)
    have leu := endc_set_le newC n comp e.u
    have lev := endc_set_le newC n comp e.v
    rw [adjacent_cons]
    simp only [pending]
    by_cases hnu : n = e.u
    · have ht : e.touches n = true := by simp [Edge.touches, hnu]
      rw [if_pos ht]
      simp only [List.length_cons]
      have h0 : endc newC (comp.setIfInBounds n newC) e.u = 0 := by
        rw [← hnu]; exact endc_set_self newC n comp (hnu ▸ hu)
      have h1 : endc newC comp e.u = 1 := endc_pos newC comp e.u (hnu ▸ hn)
      omega
    · by_cases hnv : n = e.v
      · have ht : e.touches n = true := by simp [Edge.touches, hnv]
        rw [if_pos ht]
        simp only [List.length_cons]
        have h0 : endc newC (comp.setIfInBounds n newC) e.v = 0 := by
          rw [← hnv]; exact endc_set_self newC n comp (hnv ▸ hv)
        have h1 : endc newC comp e.v = 1 := endc_pos newC comp e.v (hnv ▸ hn)
        omega
      · have ht : ¬ e.touches n = true := by
          simp only [Edge.touches, Bool.or_eq_true, beq_iff_eq, not_or]
          exact ⟨fun h => hnu h.symm, fun h => hnv h.symm⟩
        rw [if_neg ht]
        omega

/-- what is known about an edge while the traversal is under way -/
def EdgeInv (newC : Nat) (q : List Nat) (comp : Array Nat) (e : Edge D) : Prop :=
  comp[e.u]?.getD 0 = comp[e.v]?.getD 0 ∨ (e.u ∈ q ∧ comp[e.u]?.getD 0 ≠ newC) ∨ (e.v ∈ q ∧ comp[e.v]?.getD 0 ≠ newC) ∨
    (comp[e.u]?.getD 0 = newC ∧ e.v ∈ q) ∨ (comp[e.v]?.getD 0 = newC ∧ e.u ∈ q)

theorem mem_adjacent_of_u (E : List (Edge D)) (e : Edge D) (he : e ∈ E) : e.v ∈ adjacent E e.u := by
  unfold adjacent
  refine List.mem_map.2 ⟨e, List.mem_filter.2 ⟨he, by simp [Edge.touches]⟩, by simp [Edge.other]⟩

theorem mem_adjacent_of_v (E : List (Edge D)) (e : Edge D) (he : e ∈ E) (hne : e.u ≠ e.v) : e.u ∈ adjacent E e.v := by
  unfold adjacent
  refine List.mem_map.2 ⟨e, List.mem_filter.2 ⟨he, by simp [Edge.touches]⟩, ?_⟩
  simp [Edge.other, hne]

/-- **fuel sufficiency**: whenever the fuel exceeds the potential, the traversal ends on an empty queue and every edge
joins equal ids afterwards -/
theorem markLoop_closed (E : List (Edge D)) (newC : Nat) :
    ∀ (fuel : Nat) (q : List Nat) (comp : Array Nat) (sizes : List (Nat × Nat)),
      q.length + pending newC comp E < fuel → (∀ e ∈ E, e.u < comp.size ∧ e.v < comp.size) →
      (∀ e ∈ E, EdgeInv newC q comp e) →
      ∀ e ∈ E, (markLoop E newC fuel q comp sizes).1[e.u]?.getD 0 = (markLoop E newC fuel q comp sizes).1[e.v]?.getD 0 := by
  intro fuel
  induction fuel with
  | zero => intro q comp sizes h; omega
  | succ f ih =>
    intro q comp sizes hf hb hinv
    cases q with
    | nil =>
      intro e he
      simp only [markLoop]
      rcases hinv e he with h | h | h | h | h
      · exact h
      all_goals simp at h
    | cons n rest =>
      simp only [markLoop]
      simp only [List.length_cons] at hf
      by_cases hc : (comp[n]?.getD 0 == newC) = true
      · rw [if_pos hc]
        have hcn : comp[n]?.getD 0 = newC := by simpa using hc
        refine ih rest comp sizes (by omega) hb ?_
        intro e he
        rcases hinv e he with h | ⟨h1, h2⟩ | ⟨h1, h2⟩ | ⟨h1, h2⟩ | ⟨h1, h2⟩
        · exact Or.inl h
        · rcases List.mem_cons.1 h1 with h | h
          · exact absurd (h ▸ hcn) h2
          · exact Or.inr (Or.inl ⟨h, h2⟩)
        · rcases List.mem_cons.1 h1 with h | h
          · exact absurd (h ▸ hcn) h2
          · exact Or.inr (Or.inr (Or.inl ⟨h, h2⟩))
        · rcases List.mem_cons.1 h2 with h | h
          · exact Or.inl (by rw [h1, h, hcn])
          · exact Or.inr (Or.inr (Or.inr (Or.inl ⟨h1, h⟩)))
        · rcases List.mem_cons.1 h2 with h | h
          · exact Or.inl (by rw [h1, h, hcn])
          · exact Or.inr (Or.inr (Or.inr (Or.inr ⟨h1, h⟩)))
      · rw [if_neg hc]
        have hcn : comp[n]?.getD 0 ≠ newC := by simpa using hc
        have hstep := pending_step newC n comp hcn E hb
        refine ih (rest ++ adjacent E n) (comp.setIfInBounds n newC) _ (by simp only [List.length_append]; omega)
          (by simpa using hb) ?_
        intro e he
        obtain ⟨hu, hv⟩ := hb e he
        unfold EdgeInv
        simp only [get_set, List.mem_append]
        by_cases hnu : n = e.u
        · have hlt : n < comp.size := hnu ▸ hu
          rw [if_pos ⟨hnu, hlt⟩]
          by_cases hnv : n = e.v
          · rw [if_pos ⟨hnv, hlt⟩]; exact Or.inl rfl
          · refine Or.inr (Or.inr (Or.inr (Or.inl ⟨rfl, Or.inr ?_⟩)))
            rw [hnu]
            exact mem_adjacent_of_u E e he
        · rw [if_neg (fun h => hnu h.1)]
          by_cases hnv : n = e.v
          · have hlt : n < comp.size := hnv ▸ hv
            rw [if_pos ⟨hnv, hlt⟩]
            refine Or.inr (Or.inr (Or.inr (Or.inr ⟨rfl, Or.inr ?_⟩)))
            rw [hnv]
            exact mem_adjacent_of_v E e he (fun h => hnu (hnv.trans h.symm))
          · rw [if_neg (fun h => hnv h.1)]
            have keepu : e.u ∈ n :: rest → e.u ∈ rest ∨ e.u ∈ adjacent E n := fun h =>
              (List.mem_cons.1 h).elim (fun h' => absurd h'.symm hnu) Or.inl
            have keepv : e.v ∈ n :: rest → e.v ∈ rest ∨ e.v ∈ adjacent E n := fun h =>
              (List.mem_cons.1 h).elim (fun h' => absurd h'.symm hnv) Or.inl
            rcases hinv e he with h | ⟨h1, h2⟩ | ⟨h1, h2⟩ | ⟨h1, h2⟩ | ⟨h1, h2⟩
            · exact Or.inl h
            · exact Or.inr (Or.inl ⟨keepu h1, h2⟩)
            · exact Or.inr (Or.inr (Or.inl ⟨keepv h1, h2⟩))
            · exact Or.inr (Or.inr (Or.inr (Or.inl ⟨h1, keepv h2⟩)))
            · exact Or.inr (Or.inr (Or.inr (Or.inr ⟨h1, keepu h2⟩)))

/-- `markComponent` with the as-coded fuel: if every edge either joins equal ids already or hangs on the seed `v` (whose
id is not the new one), every edge joins equal ids afterwards -/
theorem markComponent_same (r : Roadmap S D) (v newC : Nat)
    (hb : ∀ e ∈ r.edges, e.u < r.comp.size ∧ e.v < r.comp.size)
    (hpre : ∀ e ∈ r.edges, compOf r e.u = compOf r e.v ∨ (e.u = v ∧ compOf r v ≠ newC) ∨ (e.v = v ∧ compOf r v ≠ newC)) :
    ∀ e ∈ (markComponent r v newC).edges,
      compOf (markComponent r v newC) e.u = compOf (markComponent r v newC) e.v := by
  intro e he
  have he' : e ∈ r.edges := he
  rw [compOf_mark, compOf_mark]
  refine markLoop_closed r.edges newC (2 * r.edges.length + 2) [v] r.comp r.sizes ?_ hb ?_ e he'
  · have := pending_le newC r.comp r.edges
    simp only [List.length_singleton]; omega
  · intro e1 he1
    unfold EdgeInv
    rcases hpre e1 he1 with h | ⟨h1, h2⟩ | ⟨h1, h2⟩
    · exact Or.inl h
    · exact Or.inr (Or.inl ⟨by simp [h1], by rw [h1]; exact h2⟩)
    · exact Or.inr (Or.inr (Or.inl ⟨by simp [h1], by rw [h1]; exact h2⟩))

/-- so the self-check after a relabelling never fires -/
theorem checkSame_mark_stale (r : Roadmap S D) (v newC : Nat)
    (hb : ∀ e ∈ r.edges, e.u < r.comp.size ∧ e.v < r.comp.size)
    (hpre : ∀ e ∈ r.edges, compOf r e.u = compOf r e.v ∨ (e.u = v ∧ compOf r v ≠ newC) ∨ (e.v = v ∧ compOf r v ≠ newC)) :
    (checkSame (markComponent r v newC)).stale = r.stale := by
  have h := markComponent_same r v newC hb hpre
  have hall : ((markComponent r v newC).edges.all
      (fun e => compOf (markComponent r v newC) e.u == compOf (markComponent r v newC) e.v)) = true := by
    rw [List.all_eq_true]
    intro e he
    simpa using h e he
  unfold checkSame
  simp only [hall, Bool.not_true, Bool.or_false]
  rfl

/-- **`uniteComponents` after `addEdge`** (the only relabelling on the insertion side): the self-check is redundant -/
theorem unite_stale_eq (r : Roadmap S D) (m n : Nat) (w : D) (hsame : ∀ e ∈ r.edges, compOf r e.u = compOf r e.v)
    (hb : ∀ e ∈ r.edges, e.u < r.comp.size ∧ e.v < r.comp.size) (hm : m < r.comp.size) (hn : n < r.comp.size) :
    (uniteComponents (addEdge r m n w) m n).stale = r.stale := by
  have hb' : ∀ e ∈ (addEdge r m n w).edges, e.u < (addEdge r m n w).comp.size ∧ e.v < (addEdge r m n w).comp.size := by
    intro e he
    simp only [addEdge, List.mem_append, List.mem_singleton] at he
    rcases he with he | rfl
    · exact hb e he
    · exact ⟨hm, hn⟩
  unfold uniteComponents
  simp only
  split
  · rfl
  · next hne =>
    have hne' : compOf (addEdge r m n w) m ≠ compOf (addEdge r m n w) n := by simpa using hne
    split
    · rw [checkSame_mark_stale (addEdge r m n w) n _ hb']
      · rfl
      · intro e he
        simp only [addEdge, List.mem_append, List.mem_singleton] at he
        rcases he with he | rfl
        · exact Or.inl (hsame e he)
        · exact Or.inr (Or.inr ⟨rfl, fun h => hne' h.symm⟩)
    · rw [checkSame_mark_stale (addEdge r m n w) m _ hb']
      · rfl
      · intro e he
        simp only [addEdge, List.mem_append, List.mem_singleton] at he
        rcases he with he | rfl
        · exact Or.inl (hsame e he)
        · exact Or.inr (Or.inl ⟨rfl, hne'⟩)

/-- the relabelling after a removal: its `checkSame` never fires either (only `checkNone` can set the flag there) -/
theorem relabel_stale_eq (c0 : Nat) (l : List Nat) :
    ∀ r : Roadmap S D, (∀ e ∈ r.edges, compOf r e.u = compOf r e.v) →
      (∀ e ∈ r.edges, e.u < r.comp.size ∧ e.v < r.comp.size) → (relabelNeighbours c0 l r).stale = r.stale := by
  induction l with
  | nil => intro r _ _; rfl
  | cons n rest ih =>
    intro r hsame hb
    simp only [relabelNeighbours]
    split
    · have hpre : ∀ e ∈ (freshComp r).edges, compOf (freshComp r) e.u = compOf (freshComp r) e.v ∨
          (e.u = n ∧ compOf (freshComp r) n ≠ r.compCount) ∨ (e.v = n ∧ compOf (freshComp r) n ≠ r.compCount) :=
        fun e he => Or.inl (hsame e he)
      have hb1 : ∀ e ∈ (freshComp r).edges, e.u < (freshComp r).comp.size ∧ e.v < (freshComp r).comp.size := hb
      rw [ih]
      · rw [checkSame_mark_stale (freshComp r) n r.compCount hb1 hpre]; rfl
      · exact markComponent_same (freshComp r) n r.compCount hb1 hpre
      · intro e he
        have hsz : (checkSame (markComponent (freshComp r) n r.compCount)).comp.size = r.comp.size :=
          (markLoop_spec (freshComp r).edges r.compCount n (2 * (freshComp r).edges.length + 2) [n]
            (freshComp r).comp (freshComp r).sizes
            (fun z hz => by simp only [List.mem_singleton] at hz; subst hz; exact Conn.refl _)).1
        rw [hsz]
        exact hb e he
    · exact ih r hsame hb

end OmplModel.LazyPRM
