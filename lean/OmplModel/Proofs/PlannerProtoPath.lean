import OmplModel.Proofs.PlannerProtoAlloc
/-!
C03: a reported path is never empty (generic in a lawful core), the RRT-like tree core is lawful, and
`lastGoalMotion_` never dangles.  Core Lean only, arithmetic-free.
-/
namespace OmplModel.PlannerProto

variable {σ δ D C : Type}

theorem applyRes_idx (ltD : δ → δ → Bool) (N : Nat) :
    ∀ (res : List (Nat × Bool × δ)) (s : Search δ),
      (∀ i, s.solution = some i → i < N) → (∀ i, s.approxsol = some i → i < N) → (∀ r ∈ res, r.1 < N) →
      (∀ i, (applyRes ltD s res).1.solution = some i → i < N) ∧
      (∀ i, (applyRes ltD s res).1.approxsol = some i → i < N) := by
  intro res
  induction res with
  | nil => intro s h1 h2 _; exact ⟨by simpa [applyRes] using h1, by simpa [applyRes] using h2⟩
  | cons a r ih =>
    intro s h1 h2 h3
    obtain ⟨idx, sat, dist⟩ := a
    have hi : idx < N := h3 (idx, sat, dist) List.mem_cons_self
    cases sat with
    | true =>
      simp only [applyRes, if_true]
      refine ⟨?_, h2⟩
      intro i h
      simp at h
      omega
    | false =>
      simp only [applyRes, Bool.false_eq_true, if_false]
      apply ih
      · intro i h
        have : s.solution = some i := by split at h <;> simpa using h
        exact h1 i this
      · intro i h
        split at h
        · simp at h; omega
        · exact h2 i h
      · intro r' hr'; exact h3 r' (List.mem_cons_of_mem _ hr')

theorem loop_idx (cs : CoreSpec σ δ D C) (hl : LawfulCore cs) (ltD : δ → δ → Bool) :
    ∀ (k : Nat) (ds : List D) (c : C) (s : Search δ) (n : Nat),
      (∀ i, s.solution = some i → i < cs.size c) → (∀ i, s.approxsol = some i → i < cs.size c) →
      (∀ i, (loop cs ltD k ds c s n).s.solution = some i → i < cs.size (loop cs ltD k ds c s n).core) ∧
      (∀ i, (loop cs ltD k ds c s n).s.approxsol = some i → i < cs.size (loop cs ltD k ds c s n).core) ∧
      cs.size c ≤ cs.size (loop cs ltD k ds c s n).core := by
  intro k
  induction k with
  | zero => intro ds c s n h1 h2; simpa [loop] using ⟨h1, h2⟩
  | succ k ih =>
    intro ds c s n h1 h2
    cases ds with
    | nil => simpa [loop] using ⟨h1, h2⟩
    | cons d ds =>
      have hs := hl.size_iterate c n d
      have A := applyRes_idx ltD (cs.size (cs.iterate c n d).core) (cs.iterate c n d).res s
        (fun i h => Nat.lt_of_lt_of_le (h1 i h) hs) (fun i h => Nat.lt_of_lt_of_le (h2 i h) hs)
        (fun r hr => hl.idx_iterate c n d r hr)
      simp only [loop]
      split
      · exact ⟨A.1, A.2, hs⟩
      · have := ih ds (cs.iterate c n d).core (applyRes ltD s (cs.iterate c n d).res).1 (cs.iterate c n d).next A.1 A.2
        exact ⟨this.1, this.2.1, Nat.le_trans hs this.2.2⟩

theorem finish_added (cs : CoreSpec σ δ D C) (hl : LawfulCore cs) (P : Params σ δ) (m1 : M σ δ C) (pd : Pdef σ δ)
    (e12 : List Ev) (rm xs : Nat) (r : LoopOut δ C)
    (h1 : ∀ i, r.s.solution = some i → i < cs.size r.core) (h2 : ∀ i, r.s.approxsol = some i → i < cs.size r.core) :
    (∀ s ∈ (finish cs P m1 pd e12 rm xs r).added, s.path ≠ [] ∧
      ∃ i, i < cs.size (finish cs P m1 pd e12 rm xs r).m.core ∧ s.path = cs.pathTo (finish cs P m1 pd e12 rm xs r).m.core i ∧
        (finish cs P m1 pd e12 rm xs r).m.lastGoal = some i) ∧
    (∀ i, (finish cs P m1 pd e12 rm xs r).m.lastGoal = some i →
      m1.lastGoal = some i ∨ i < cs.size (finish cs P m1 pd e12 rm xs r).m.core) ∧
    (finish cs P m1 pd e12 rm xs r).m.core = r.core := by
  unfold finish
  split
  · rename_i i a hp
    have hi : i < cs.size r.core := by
      unfold pick at hp
      split at hp
      · rename_i j hj; simp at hp; exact hp.1 ▸ h1 j hj
      · simp at hp; exact h2 i hp.1
    refine ⟨?_, ?_, rfl⟩
    · intro s hs
      simp at hs
      subst hs
      exact ⟨hl.path_nonempty _ _ hi, i, hi, rfl, rfl⟩
    · intro j hj
      simp at hj
      exact Or.inr (hj ▸ hi)
  · refine ⟨by simp, ?_, rfl⟩
    intro j hj
    exact Or.inl hj

/-- every path `solve` adds has at least one state and is the root-to-motion path of a motion of the tree -/
theorem solve_added (cs : CoreSpec σ δ D C) (hl : LawfulCore cs) (P : Params σ δ) (m : M σ δ C) (k : Nat) (ds : List D) :
    ∀ s ∈ (solve cs P m k ds).added, s.path ≠ [] ∧
      ∃ i, i < cs.size (solve cs P m k ds).m.core ∧ s.path = cs.pathTo (solve cs P m k ds).m.core i := by
  unfold solve
  cases m.pdef with
  | none => simp
  | some pd =>
    simp only
    split
    · simp
    · have L := loop_idx cs hl P.ltD k ds (prologue cs m pd).1.core ⟨none, none, P.inf⟩ ((prologue cs m pd).1.next + 2)
        (by simp) (by simp)
      intro s hs
      obtain ⟨h1, i, hi, h2, _⟩ := (finish_added cs hl P _ pd _ _ _ _ L.1 L.2.1).1 s hs
      exact ⟨h1, i, hi, h2⟩

/-! ## the RRT-like core is lawful -/

theorem walk_ne_nil (t : Tree σ) (i : Nat) (acc : List σ) (h : i < t.size) : walk t i acc ≠ [] := by
  induction i using Nat.strongRecOn generalizing acc with
  | _ i ih =>
    unfold walk
    simp only [h, dite_true]
    split
    · simp
    · rename_i p _
      split
      · rename_i hp
        exact ih p hp _ (Nat.lt_trans hp h)
      · simp

theorem rrt_lawful : LawfulCore (rrtCore : CoreSpec σ δ (Draw σ δ) (Tree σ)) where
  owned_init := by simp [rrtCore]
  owned_addRoot := by
    intro c i s
    simp only [rrtCore, Array.toList_push, List.map_append, List.map_cons, List.map_nil]
    exact List.perm_append_comm
  iterate_replay := by
    intro c n d L X h
    simp only [rrtCore]
    split
    · refine ⟨n :: L, by simp [replay, alloc_step], ?_⟩
      simp only [Array.toList_push, List.map_append, List.map_cons, List.map_nil]
      have h1 : (n :: L).Perm (n :: (List.map (fun x => x.sid) c.toList ++ X)) := h.cons n
      refine h1.trans ?_
      have : (List.map (fun x => x.sid) c.toList ++ [n] ++ X).Perm (n :: (List.map (fun x => x.sid) c.toList ++ X)) := by
        have := (List.perm_append_comm (l₁ := List.map (fun x : Motion σ => x.sid) c.toList) (l₂ := [n])).append_right X
        simp at this ⊢
      exact this.symm
    · exact ⟨L, by simp [replay], h⟩
  size_iterate := by
    intro c i d
    simp only [rrtCore]
    split
    · simp
    · exact Nat.le_refl _
  idx_iterate := by
    intro c i d r hr
    simp only [rrtCore] at hr ⊢
    split at hr
    · simp only [List.mem_singleton] at hr
      rename_i hv
      simp only [hv, if_true]
      rw [hr]; simp
    · simp at hr
  path_nonempty := by
    intro c i h
    exact walk_ne_nil c i [] h

end OmplModel.PlannerProto
