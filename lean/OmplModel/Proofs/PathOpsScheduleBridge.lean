import OmplModel.Proofs.PathOpsSchedule
import OmplModel.Proofs.PathOpsRemove
import OmplModel.Proofs.PathOpsBSpline
import OmplModel.Proofs.PathOpsRepair
import OmplModel.Proofs.PathOpsBetterGoal
/-
Bridge between the CONCRETE routine models of `PathSimplifier` (Model/PathOps.lean,
Model/PathOpsWhole.lean, Model/PathOpsRepair.lean), whose specs are proved in Proofs/PathOpsRemove,
PathOpsBSpline, PathOpsRepair, PathOpsDensify, PathOpsBetterGoal, and the ABSTRACT hypothesis
`RoutinesPreserve` of the composition theorem `simplify_schedule_preserves` (Proofs/PathOpsSchedule.lean).

Every `*_preserves` below has the form "a run of the concrete routine `Preserves cm cut isGoal`", for
ANY `cut` / `isGoal` that contain what the routine needs:
* `reduceVertices`, `collapseCloseVertices`, `checkAndRepair` (result `true`): nothing;
* `smoothBSpline`: `cut a b (E.mid a b)`;
* `findBetterGoal`: `cut a b (E.interp a b t)`, `isGoal (E.goalAt k)`, and the law `a < b → ¬ b <= a`
  of `findBetterGoal_only_validated`;
* `partialShortcutPath`: at the level of splice sequences (`PsCutStep`: the spliced-in states are cut
  points of the motions they were sampled on) AND `checkMotion` symmetric: the routine asks
  `checkMotion(s0, s1)` BEFORE it orders the two samples by position, so the motion that ends up in the
  path can be the reverse of the one that was validated.
-/
namespace OmplModel.PathOps

variable {σ : Type}

/-! ## 1. reduceVertices / collapseCloseVertices -/

/-- a sequence of validated vertex removals preserves, for every `cut` and `isGoal` -/
theorem Shortcuts.preserves {cm : σ → σ → Bool} (cut : σ → σ → σ → Prop) (isGoal : σ → Prop)
    {inp out : List σ} (h : Shortcuts cm inp out) : Preserves cm cut isGoal inp out :=
  ⟨h.head?, Or.inl h.getLast?, fun p hp => (h.adj p hp).elim Deriv.input Deriv.validated⟩

theorem reduce_preserves {cm : σ → σ → Bool} (cut : σ → σ → σ → Prop) (isGoal : σ → Prop)
    {rangeOf draw : Nat → Nat} {ms me : Nat} {path out : List σ} {r : Bool}
    (h : reduceVertices cm rangeOf draw ms me path = some (out, r)) :
    Preserves cm cut isGoal path out :=
  (reduceVertices_shortcuts h).preserves cut isGoal

theorem collapse_preserves {α : Type} [BEq σ] {cm : σ → σ → Bool} (cut : σ → σ → σ → Prop)
    (isGoal : σ → Prop) {dist : σ → σ → α} {lt : α → α → Bool} {inf : α} {ms me : Nat}
    {path out : List σ} {r : Bool}
    (h : collapseCloseVertices cm dist lt inf ms me path = some (out, r)) :
    Preserves cm cut isGoal path out :=
  (collapse_shortcuts h).preserves cut isGoal

/-! ## 2. smoothBSpline -/

/-- the B-spline routine's own derivation relation is `Deriv` with the midpoints as cut points -/
theorem BsDerived.deriv {E : BsEnv σ} {cut : σ → σ → σ → Prop} (hcut : ∀ a b, cut a b (E.mid a b))
    {inp : List σ} {p : σ × σ} (h : BsDerived E inp p) : Deriv E.cm cut inp p := by
  induction h with
  | input hp => exact Deriv.input hp
  | validated hp => exact Deriv.validated hp
  | @firstHalf q _ ih => exact Deriv.prefixCut (a := q.1) (b := q.2) ih (hcut _ _)
  | @secondHalf q _ ih => exact Deriv.suffixCut (a := q.1) (b := q.2) ih (hcut _ _)

theorem bspline_preserves (E : BsEnv σ) {cut : σ → σ → σ → Prop} (isGoal : σ → Prop)
    (hcut : ∀ a b, cut a b (E.mid a b)) (n : Nat) (path : List σ) :
    Preserves E.cm cut isGoal path (smoothBSpline E n path) :=
  ⟨smoothBSpline_head? E n path, Or.inl (smoothBSpline_getLast? E n path),
    fun p hp => (smoothBSpline_only_validated E n path p hp).deriv hcut⟩

/-! ## 3. checkAndRepair -/

/-- a `checkAndRepair` that reports success (`result = true`) preserves: same end points, every motion
of the result answered `true` by `checkMotion` -/
theorem repair_preserves {E : RepairEnv σ} (cut : σ → σ → σ → Prop) (isGoal : σ → Prop)
    {path out : List σ} {orig : Bool} (h : checkAndRepair E path = some (out, orig, true)) :
    Preserves E.cm cut isGoal path out := by
  obtain ⟨_, hh, hl⟩ := checkAndRepair_shape h
  have hm := checkAndRepair_true_motions h
  rw [List.all_eq_true] at hm
  exact ⟨hh, Or.inl hl, fun p hp => Deriv.validated (hm p hp)⟩

/-! ## 4. partialShortcutPath, at the level of splice sequences -/

/-- consecutive states are a motion -/
theorem mem_adj_getElem_succ (l : List σ) (i : Nat) (h : i + 1 < l.length) :
    (l[i]'(by omega), l[i + 1]'h) ∈ adj l := by
  have h2 := mem_adj_seam (l.take (i + 1)) (l.drop (i + 1)) (l[i]'(by omega)) (l[i + 1]'h)
    (getLast?_take_succ l i (by omega)) (head?_drop_lt l (i + 1) h)
  rwa [List.take_append_drop] at h2

/-- one executed splice of `partialShortcutPath` (after the ordering step): ordered positions that
passed the `continue` filter; an unsnapped sample (`idx = false`) lies on the segment it was sampled on
(`cut`), a snapped one (`idx = true`) IS the vertex; `checkMotion` answered `true` for the two samples
in the order they had BEFORE the ordering step (either order) -/
inductive PsCutStep (cm : σ → σ → Bool) (cut : σ → σ → σ → Prop) : List σ → List σ → Prop
  | mk (st : List σ) (pos0 pos1 : Nat) (idx0 idx1 : Bool) (s0 s1 : σ) (out : List σ)
      (h01 : pos0 < pos1) (h1 : pos1 + 1 < st.length) (hs : psSkip pos0 idx0 pos1 idx1 = false)
      (hc0 : idx0 = false → cut (st[pos0]'(by omega)) (st[pos0 + 1]'(by omega)) s0)
      (hc1 : idx1 = false → cut (st[pos1]'(by omega)) (st[pos1 + 1]'h1) s1)
      (hv0 : idx0 = true → s0 = st[pos0]'(by omega))
      (hv1 : idx1 = true → s1 = st[pos1]'(by omega))
      (hcm : cm s0 s1 = true ∨ cm s1 s0 = true)
      (h : psSplice st pos0 idx0 s0 pos1 idx1 s1 = some out) : PsCutStep cm cut st out

inductive PsCutSteps (cm : σ → σ → Bool) (cut : σ → σ → σ → Prop) : List σ → List σ → Prop
  | refl (st : List σ) : PsCutSteps cm cut st st
  | step {st mid out : List σ} : PsCutSteps cm cut st mid → PsCutStep cm cut mid out →
      PsCutSteps cm cut st out

theorem PsCutSteps.trans {cm : σ → σ → Bool} {cut : σ → σ → σ → Prop} {l m n : List σ}
    (h1 : PsCutSteps cm cut l m) (h2 : PsCutSteps cm cut m n) : PsCutSteps cm cut l n := by
  induction h2 with
  | refl => exact h1
  | step _ s ih => exact .step ih s

/-- one splice preserves, for a symmetric `checkMotion` -/
theorem PsCutStep.preserves {cm : σ → σ → Bool} {cut : σ → σ → σ → Prop} (isGoal : σ → Prop)
    (hsym : ∀ a b, cm a b = cm b a) {st out : List σ} (h : PsCutStep cm cut st out) :
    Preserves cm cut isGoal st out := by
  cases h with
  | mk pos0 pos1 idx0 idx1 s0 s1 _ h01 h1 hs hc0 hc1 hv0 hv1 hcm h =>
    obtain ⟨out', h', hh, hl, ha⟩ := psSplice_spec st pos0 pos1 idx0 idx1 s0 s1 h01 h1 hs
    rw [h] at h'
    obtain rfl := Option.some.inj h'
    have hcm' : cm s0 s1 = true := hcm.elim id (fun h => by rw [hsym]; exact h)
    have e0 : (if idx0 = true then st[pos0]'(by omega) else s0) = s0 := by
      cases idx0 with
      | false => rfl
      | true => exact (hv0 rfl).symm
    have e1 : (if idx1 = true then st[pos1]'(by omega) else s1) = s1 := by
      cases idx1 with
      | false => rfl
      | true => exact (hv1 rfl).symm
    refine ⟨hh, Or.inl hl, fun p hp => ?_⟩
    rcases ha p hp with h | rfl | ⟨hi, rfl⟩ | ⟨hi, rfl⟩
    · exact Deriv.input h
    · refine Deriv.validated ?_
      simp only [e0, e1]
      exact hcm'
    · exact Deriv.prefixCut (Deriv.input (mem_adj_getElem_succ st pos0 (by omega))) (hc0 hi)
    · exact Deriv.suffixCut (Deriv.input (mem_adj_getElem_succ st pos1 h1)) (hc1 hi)

/-- any number of splices preserves -/
theorem PsCutSteps.preserves {cm : σ → σ → Bool} {cut : σ → σ → σ → Prop} (isGoal : σ → Prop)
    (hsym : ∀ a b, cm a b = cm b a) {st out : List σ} (h : PsCutSteps cm cut st out) :
    Preserves cm cut isGoal st out := by
  induction h with
  | refl => exact Preserves.refl cm cut isGoal _
  | step _ s ih => exact ih.trans (s.preserves isGoal hsym)

/-! ## 5. findBetterGoal -/

section BetterGoal
variable {α γ : Type}

/-- a run of `findBetterGoal` preserves, whatever it returns: `false` leaves the path as it is; `true`
keeps the first state, ends in a sampled goal state, and every motion is an input motion, the prefix
of an input motion cut at an interpolated state, or the validated motion into the goal -/
theorem betterGoal_preserves {E : BgEnv σ α γ} {cut : σ → σ → σ → Prop} {isGoal : σ → Prop}
    (hcut : ∀ a b t, cut a b (E.interp a b t)) (hgoal : ∀ k, isGoal (E.goalAt k))
    (hlaw : ∀ a b, E.N.lt a b = true → E.N.le b a = false)
    {path out : List σ} {r : Bool} (h : findBetterGoal E path = some (out, r)) :
    Preserves E.cm cut isGoal path out := by
  cases r with
  | false =>
    rw [findBetterGoal_false_unchanged h]
    exact Preserves.refl _ _ _ _
  | true =>
    obtain ⟨g, hg, _⟩ := findBetterGoal_last_is_goal h
    refine ⟨findBetterGoal_keeps_first h, Or.inr ⟨_, hg, hgoal g⟩, fun p hp => ?_⟩
    rcases findBetterGoal_only_validated hlaw h p hp with h1 | ⟨a, b, t, hab, rfl⟩ | h1
    · exact Deriv.input h1
    · exact Deriv.prefixCut (Deriv.input hab) (hcut a b t)
    · exact Deriv.validated h1

/-- … with the canonical `cut` ("an interpolated state of the motion") and `isGoal` ("a sampled goal") -/
theorem betterGoal_preserves_interp {E : BgEnv σ α γ}
    (hlaw : ∀ a b, E.N.lt a b = true → E.N.le b a = false)
    {path out : List σ} {r : Bool} (h : findBetterGoal E path = some (out, r)) :
    Preserves E.cm (fun a b s => ∃ t, s = E.interp a b t) (fun g => ∃ k, g = E.goalAt k) path out :=
  betterGoal_preserves (fun _ _ t => ⟨t, rfl⟩) (fun k => ⟨k, rfl⟩) hlaw h

end BetterGoal

/-! ## 6. the packaged corollary -/

/-- every routine field of `R` is, at every call index and on every path, SOME run of the
corresponding concrete model with `checkMotion = cm` (all other parameters — draws, step bounds,
validity / distance oracles, samplers — existentially quantified, so they may differ from call to
call), with cut points in `cut` and sampled goals in `isGoal`.
`partialShortcut` is the exception: it is asked to be a sequence of `PsCutStep`s (there is no
whole-routine refinement theorem of the `double` model `psLoopG` into splice sequences yet).
`α`/`γ`: number and cost type of `findBetterGoal`'s environment; `β`: distance type of
`collapseCloseVertices`. -/
structure RoutinesAreRuns (α γ β : Type) [BEq σ] (cm : σ → σ → Bool) (cut : σ → σ → σ → Prop)
    (isGoal : σ → Prop) (R : Routines σ) : Prop where
  partialShortcut : ∀ k l, PsCutSteps cm cut l (R.partialShortcut k l).1
  findBetterGoal : ∀ k l, ∃ E : BgEnv σ α γ, E.cm = cm ∧ (∀ a b t, cut a b (E.interp a b t)) ∧
    (∀ g, isGoal (E.goalAt g)) ∧ (∀ a b, E.N.lt a b = true → E.N.le b a = false) ∧
    _root_.OmplModel.PathOps.findBetterGoal E l = some (R.findBetterGoal k l)
  smoothBSpline : ∀ k l, ∃ (E : BsEnv σ) (n : Nat), E.cm = cm ∧ (∀ a b, cut a b (E.mid a b)) ∧
    R.smoothBSpline k l = _root_.OmplModel.PathOps.smoothBSpline E n l
  checkAndRepair : ∀ k l, ∃ E : RepairEnv σ, E.cm = cm ∧
    _root_.OmplModel.PathOps.checkAndRepair E l = some (R.checkAndRepair k l)
  reduceVertices : ∀ k l, ∃ (rangeOf draw : Nat → Nat) (ms me : Nat),
    _root_.OmplModel.PathOps.reduceVertices cm rangeOf draw ms me l = some (R.reduceVertices k l)
  collapseClose : ∀ k l, ∃ (dist : σ → σ → β) (lt : β → β → Bool) (inf : β) (ms me : Nat),
    collapseCloseVertices cm dist lt inf ms me l = some (R.collapseClose k l)

/-- routines that are runs of the concrete models satisfy the hypothesis of the composition theorem
(`hsym`: only for `partialShortcut`, see `PsCutStep`) -/
theorem routinesPreserve_of_specs {α γ β : Type} [BEq σ] {cm : σ → σ → Bool}
    {cut : σ → σ → σ → Prop} {isGoal : σ → Prop} {R : Routines σ}
    (hsym : ∀ a b, cm a b = cm b a) (h : RoutinesAreRuns α γ β cm cut isGoal R) :
    RoutinesPreserve cm cut isGoal R where
  partialShortcut := fun k l => (h.partialShortcut k l).preserves isGoal hsym
  findBetterGoal := by
    intro k l
    obtain ⟨E, rfl, hcut, hgoal, hlaw, hE⟩ := h.findBetterGoal k l
    exact betterGoal_preserves hcut hgoal hlaw (r := (R.findBetterGoal k l).2) hE
  smoothBSpline := by
    intro k l
    obtain ⟨E, n, rfl, hcut, hE⟩ := h.smoothBSpline k l
    rw [hE]
    exact bspline_preserves E isGoal hcut n l
  checkAndRepair := by
    intro k l hres
    obtain ⟨E, rfl, hE⟩ := h.checkAndRepair k l
    have hE' : _root_.OmplModel.PathOps.checkAndRepair E l =
        some ((R.checkAndRepair k l).1, (R.checkAndRepair k l).2.1, true) := by
      rw [hE, ← hres]
    exact repair_preserves cut isGoal hE'
  reduceVertices := by
    intro k l
    obtain ⟨rangeOf, draw, ms, me, hE⟩ := h.reduceVertices k l
    exact reduce_preserves cut isGoal (r := (R.reduceVertices k l).2) hE
  collapseClose := by
    intro k l
    obtain ⟨dist, lt, inf, ms, me, hE⟩ := h.collapseClose k l
    exact collapse_preserves cut isGoal (r := (R.collapseClose k l).2) hE

/-- **Composition over the concrete models**: if every routine call of the schedule is some run of the
corresponding concrete routine model (with a symmetric `checkMotion`), then every run of `simplify`
that ends with `valid = true` — no `checkAndRepair` reported failure — preserves: same first state;
same last state or a sampled goal; every motion an input motion, a validated motion, or a piece of one
cut at a state on it.  Every `ptc` stream, `atLeastOnce`, fuel. -/
theorem simplify_schedule_preserves_concrete {α γ β : Type} [BEq σ] {cm : σ → σ → Bool}
    {cut : σ → σ → σ → Prop} {isGoal : σ → Prop} {R : Routines σ}
    (hsym : ∀ a b, cm a b = cm b a) (h : RoutinesAreRuns α γ β cm cut isGoal R)
    (ptc : Nat → Bool) (atLeastOnce : Bool) (fuel : Nat) (inp : List σ)
    (hvalid : (simplify R ptc atLeastOnce fuel inp).valid = true) :
    Preserves cm cut isGoal inp (simplify R ptc atLeastOnce fuel inp).path :=
  simplify_schedule_preserves (routinesPreserve_of_specs hsym h) ptc atLeastOnce fuel inp hvalid

end OmplModel.PathOps
