import OmplModel.Proofs.PathOpsSchedule
import OmplModel.Proofs.PathOpsRemove
import OmplModel.Proofs.PathOpsBSpline
import OmplModel.Proofs.PathOpsRepair
import OmplModel.Proofs.PathOpsBetterGoal
/-
Bridge between the CONCRETE routine models of `PathSimplifier` (Model/PathOps.lean,
Model/PathOpsWhole.lean, Model/PathOpsRepair.lean), whose specs are proved in Proofs/PathOpsRemove,
PathOpsBSpline, PathOpsRepair, PathOpsDensify, PathOpsBetterGoal, and the ABSTRACT hypothesis
`RoutinesPreserve` of the composition theorem `simplify_schedule_preserves` (Proofs/PathOpsSchedule.lean).

Every `*_preserves` below has the form "a run of the concrete routine `Preserves cm cut isGoal`", for
ANY `cut` / `isGoal` that contain what the routine needs:
* `reduceVertices`, `collapseCloseVertices`, `checkAndRepair` (result `true`): nothing;
* `smoothBSpline`: `cut a b (E.mid a b)`;
* `findBetterGoal`: `cut a b (E.interp a b t)`, `isGoal (E.goalAt k)`, and the law `a < b → ¬ b <= a`
  of `findBetterGoal_only_validated`;
* `partialShortcutPath`: `cut a b (E.interp a b t)` AND `checkMotion` symmetric: the routine asks
  `checkMotion(s0, s1)` BEFORE it orders the two samples by position, so the motion that ends up in the
  path can be the reverse of the one that was validated (`psCutStep_needs_symmetry`: the hypothesis
  cannot be dropped).  Two levels: splice sequences (`PsCutStep`, the spliced-in states are cut points
  of the motions they were sampled on; `PsCutStep.preserves`, `PsCutSteps.preserves`) and the whole
  routine model `psLoopG` / `partialShortcutPathG` at `double` (`partialShortcut_preserves`).  The whole
  routine needs the slightly weaker step `PsCutStepW`: `PsCutStep` (as `psSplice_spec`) asks
  `pos1 + 1 < size`, but a second sample snapped to the LAST vertex has `pos1 = size - 1`.

`RoutinesAreRuns` / `routinesPreserve_of_specs` / `simplify_schedule_preserves_concrete` package the six
bridges: every routine field of a `Routines σ` is some run of its concrete model ⇒ the composition
theorem applies.
-/
namespace OmplModel.PathOps

variable {σ : Type}

/-! ## 1. reduceVertices / collapseCloseVertices -/

/-- a sequence of validated vertex removals preserves, for every `cut` and `isGoal` -/
theorem Shortcuts.preserves {cm : σ → σ → Bool} (cut : σ → σ → σ → Prop) (isGoal : σ → Prop)
    {inp out : List σ} (h : Shortcuts cm inp out) : Preserves cm cut isGoal inp out :=
  ⟨h.head?, Or.inl h.getLast?, fun p hp => (h.adj p hp).elim Deriv.input Deriv.validated⟩

theorem reduce_preserves {cm : σ → σ → Bool} (cut : σ → σ → σ → Prop) (isGoal : σ → Prop)
    {rangeOf draw : Nat → Nat} {ms me : Nat} {path out : List σ} {r : Bool}
    (h : reduceVertices cm rangeOf draw ms me path = some (out, r)) :
    Preserves cm cut isGoal path out :=
  (reduceVertices_shortcuts h).preserves cut isGoal

theorem collapse_preserves {α : Type} [BEq σ] {cm : σ → σ → Bool} (cut : σ → σ → σ → Prop)
    (isGoal : σ → Prop) {dist : σ → σ → α} {lt : α → α → Bool} {inf : α} {ms me : Nat}
    {path out : List σ} {r : Bool}
    (h : collapseCloseVertices cm dist lt inf ms me path = some (out, r)) :
    Preserves cm cut isGoal path out :=
  (collapse_shortcuts h).preserves cut isGoal

/-! ## 2. smoothBSpline -/

/-- the B-spline routine's own derivation relation is `Deriv` with the midpoints as cut points -/
theorem BsDerived.deriv {E : BsEnv σ} {cut : σ → σ → σ → Prop} (hcut : ∀ a b, cut a b (E.mid a b))
    {inp : List σ} {p : σ × σ} (h : BsDerived E inp p) : Deriv E.cm cut inp p := by
  induction h with
  | input hp => exact Deriv.input hp
  | validated hp => exact Deriv.validated hp
  | @firstHalf q _ ih => exact Deriv.prefixCut (a := q.1) (b := q.2) ih (hcut _ _)
  | @secondHalf q _ ih => exact Deriv.suffixCut (a := q.1) (b := q.2) ih (hcut _ _)

theorem bspline_preserves (E : BsEnv σ) {cut : σ → σ → σ → Prop} (isGoal : σ → Prop)
    (hcut : ∀ a b, cut a b (E.mid a b)) (n : Nat) (path : List σ) :
    Preserves E.cm cut isGoal path (smoothBSpline E n path) :=
  ⟨smoothBSpline_head? E n path, Or.inl (smoothBSpline_getLast? E n path),
    fun p hp => (smoothBSpline_only_validated E n path p hp).deriv hcut⟩

/-! ## 3. checkAndRepair -/

/-- a `checkAndRepair` that reports success (`result = true`) preserves: same end points, every motion
of the result answered `true` by `checkMotion` -/
theorem repair_preserves {E : RepairEnv σ} (cut : σ → σ → σ → Prop) (isGoal : σ → Prop)
    {path out : List σ} {orig : Bool} (h : checkAndRepair E path = some (out, orig, true)) :
    Preserves E.cm cut isGoal path out := by
  obtain ⟨_, hh, hl⟩ := checkAndRepair_shape h
  have hm := checkAndRepair_true_motions h
  rw [List.all_eq_true] at hm
  exact ⟨hh, Or.inl hl, fun p hp => Deriv.validated (hm p hp)⟩

/-! ## 4. partialShortcutPath, at the level of splice sequences -/

/-- consecutive states are a motion -/
theorem mem_adj_getElem_succ (l : List σ) (i : Nat) (h : i + 1 < l.length) :
    (l[i]'(by omega), l[i + 1]'h) ∈ adj l := by
  have h2 := mem_adj_seam (l.take (i + 1)) (l.drop (i + 1)) (l[i]'(by omega)) (l[i + 1]'h)
    (getLast?_take_succ l i (by omega)) (head?_drop_lt l (i + 1) h)
  rwa [List.take_append_drop] at h2

/-- one executed splice of `partialShortcutPath` (after the ordering step): ordered positions that
passed the `continue` filter; an unsnapped sample (`idx = false`) lies on the segment it was sampled on
(`cut`), a snapped one (`idx = true`) IS the vertex; `checkMotion` answered `true` for the two samples
in the order they had BEFORE the ordering step (either order) -/
inductive PsCutStep (cm : σ → σ → Bool) (cut : σ → σ → σ → Prop) : List σ → List σ → Prop
  | mk (st : List σ) (pos0 pos1 : Nat) (idx0 idx1 : Bool) (s0 s1 : σ) (out : List σ)
      (h01 : pos0 < pos1) (h1 : pos1 + 1 < st.length) (hs : psSkip pos0 idx0 pos1 idx1 = false)
      (hc0 : idx0 = false → cut (st[pos0]'(by omega)) (st[pos0 + 1]'(by omega)) s0)
      (hc1 : idx1 = false → cut (st[pos1]'(by omega)) (st[pos1 + 1]'h1) s1)
      (hv0 : idx0 = true → s0 = st[pos0]'(by omega))
      (hv1 : idx1 = true → s1 = st[pos1]'(by omega))
      (hcm : cm s0 s1 = true ∨ cm s1 s0 = true)
      (h : psSplice st pos0 idx0 s0 pos1 idx1 s1 = some out) : PsCutStep cm cut st out

inductive PsCutSteps (cm : σ → σ → Bool) (cut : σ → σ → σ → Prop) : List σ → List σ → Prop
  | refl (st : List σ) : PsCutSteps cm cut st st
  | step {st mid out : List σ} : PsCutSteps cm cut st mid → PsCutStep cm cut mid out →
      PsCutSteps cm cut st out

theorem PsCutSteps.trans {cm : σ → σ → Bool} {cut : σ → σ → σ → Prop} {l m n : List σ}
    (h1 : PsCutSteps cm cut l m) (h2 : PsCutSteps cm cut m n) : PsCutSteps cm cut l n := by
  induction h2 with
  | refl => exact h1
  | step _ s ih => exact .step ih s

/-- one splice preserves, for a symmetric `checkMotion` -/
theorem PsCutStep.preserves {cm : σ → σ → Bool} {cut : σ → σ → σ → Prop} (isGoal : σ → Prop)
    (hsym : ∀ a b, cm a b = cm b a) {st out : List σ} (h : PsCutStep cm cut st out) :
    Preserves cm cut isGoal st out := by
  cases h with
  | mk pos0 pos1 idx0 idx1 s0 s1 _ h01 h1 hs hc0 hc1 hv0 hv1 hcm h =>
    obtain ⟨out', h', hh, hl, ha⟩ := psSplice_spec st pos0 pos1 idx0 idx1 s0 s1 h01 h1 hs
    rw [h] at h'
    obtain rfl := Option.some.inj h'
    have hcm' : cm s0 s1 = true := hcm.elim id (fun h => by rw [hsym]; exact h)
    have e0 : (if idx0 = true then st[pos0]'(by omega) else s0) = s0 := by
      cases idx0 with
      | false => rfl
      | true => exact (hv0 rfl).symm
    have e1 : (if idx1 = true then st[pos1]'(by omega) else s1) = s1 := by
      cases idx1 with
      | false => rfl
      | true => exact (hv1 rfl).symm
    refine ⟨hh, Or.inl hl, fun p hp => ?_⟩
    rcases ha p hp with h | rfl | ⟨hi, rfl⟩ | ⟨hi, rfl⟩
    · exact Deriv.input h
    · refine Deriv.validated ?_
      simp only [e0, e1]
      exact hcm'
    · exact Deriv.prefixCut (Deriv.input (mem_adj_getElem_succ st pos0 (by omega))) (hc0 hi)
    · exact Deriv.suffixCut (Deriv.input (mem_adj_getElem_succ st pos1 h1)) (hc1 hi)

/-- any number of splices preserves -/
theorem PsCutSteps.preserves {cm : σ → σ → Bool} {cut : σ → σ → σ → Prop} (isGoal : σ → Prop)
    (hsym : ∀ a b, cm a b = cm b a) {st out : List σ} (h : PsCutSteps cm cut st out) :
    Preserves cm cut isGoal st out := by
  induction h with
  | refl => exact Preserves.refl cm cut isGoal _
  | step _ s ih => exact ih.trans (s.preserves isGoal hsym)

/-- `hsym` cannot be dropped: with `checkMotion` answering `true` for `2 → 0` only, joining the
vertices 0 and 2 of `[0, 1, 2, 3]` is a `PsCutStep` (second disjunct of `hcm`), but the motion `0 → 2` of
the result is neither an input motion nor validated (and nothing is a cut point here) -/
theorem psCutStep_needs_symmetry :
    ∃ (cm : Nat → Nat → Bool) (st out : List Nat),
      PsCutStep cm (fun _ _ _ => False) st out ∧
      ¬ Preserves cm (fun _ _ _ => False) (fun _ => False) st out := by
  refine ⟨fun a b => a == 2 && b == 0, [0, 1, 2, 3], [0, 2, 3], ?_, ?_⟩
  · exact .mk [0, 1, 2, 3] 0 2 true true 0 2 [0, 2, 3] (by decide) (by decide) (by decide)
      (fun h => Bool.noConfusion h) (fun h => Bool.noConfusion h) (fun _ => rfl) (fun _ => rfl)
      (Or.inr (by decide)) (by decide)
  · intro ⟨_, _, hd⟩
    have key : ∀ p, Deriv (fun a b => a == 2 && b == 0) (fun _ _ _ => False) [0, 1, 2, 3] p →
        p ∈ adj [0, 1, 2, 3] ∨ (p.1 == 2 && p.2 == 0) = true := by
      intro p h
      induction h with
      | input hp => exact Or.inl hp
      | validated hp => exact Or.inr hp
      | prefixCut _ hc => exact hc.elim
      | suffixCut _ hc => exact hc.elim
    have := key (0, 2) (hd (0, 2) (by decide))
    revert this
    decide

/-! ### the whole routine (`psLoopG`, the `double` model the driver runs in lock-step) -/

/-- the `continue` filter is symmetric in the two samples (it is evaluated before the ordering step) -/
theorem psSkip_comm (a : Nat) (i : Bool) (b : Nat) (j : Bool) : psSkip a i b j = psSkip b j a i := by
  cases i <;> cases j <;> simp [psSkip] <;> grind

/-- what the routine knows about a sampled point `(pos, index ≥ 0, state)`: `pos` is a vertex index;
snapped (`idx = true`): the state IS that vertex; not snapped: there is a next vertex and the state
lies on the motion between the two -/
def PsSample (cut : σ → σ → σ → Prop) (st : List σ) (pos : Nat) (idx : Bool) (s : σ) : Prop :=
  ∃ hp : pos < st.length, (idx = true → s = st[pos]) ∧
    (idx = false → ∃ h1 : pos + 1 < st.length, cut st[pos] st[pos + 1] s)

/-- one executed splice as the whole routine makes it: `PsCutStep` without `pos1 + 1 < size` when the
second sample is snapped -/
inductive PsCutStepW (cm : σ → σ → Bool) (cut : σ → σ → σ → Prop) : List σ → List σ → Prop
  | mk (st : List σ) (pos0 pos1 : Nat) (idx0 idx1 : Bool) (s0 s1 : σ) (out : List σ)
      (h01 : pos0 < pos1) (hs : psSkip pos0 idx0 pos1 idx1 = false)
      (h0 : PsSample cut st pos0 idx0 s0) (h1 : PsSample cut st pos1 idx1 s1)
      (hcm : cm s0 s1 = true ∨ cm s1 s0 = true)
      (h : psSplice st pos0 idx0 s0 pos1 idx1 s1 = some out) : PsCutStepW cm cut st out

theorem PsCutStep.toW {cm : σ → σ → Bool} {cut : σ → σ → σ → Prop} {st out : List σ}
    (h : PsCutStep cm cut st out) : PsCutStepW cm cut st out := by
  cases h with
  | mk pos0 pos1 idx0 idx1 s0 s1 _ h01 h1 hs hc0 hc1 hv0 hv1 hcm h =>
    exact .mk st pos0 pos1 idx0 idx1 s0 s1 out h01 hs
      ⟨by omega, hv0, fun hi => ⟨by omega, hc0 hi⟩⟩ ⟨by omega, hv1, fun hi => ⟨h1, hc1 hi⟩⟩ hcm h

theorem PsCutStepW.preserves {cm : σ → σ → Bool} {cut : σ → σ → σ → Prop} (isGoal : σ → Prop)
    (hsym : ∀ a b, cm a b = cm b a) {st out : List σ} (h : PsCutStepW cm cut st out) :
    Preserves cm cut isGoal st out := by
  cases h with
  | mk pos0 pos1 idx0 idx1 s0 s1 _ h01 hs h0 h1 hcm h =>
    obtain ⟨hp0, hv0, hc0⟩ := h0
    obtain ⟨hp1, hv1, hc1⟩ := h1
    have hcm' : cm s0 s1 = true := hcm.elim id (fun h => by rw [hsym]; exact h)
    cases idx1 with
    | false =>
      obtain ⟨hq1, hc1'⟩ := hc1 rfl
      exact (PsCutStep.mk st pos0 pos1 idx0 false s0 s1 out h01 hq1 hs
        (fun hi => (hc0 hi).2) (fun _ => hc1') hv0 hv1 hcm h).preserves isGoal hsym
    | true =>
      have e1 := hv1 rfl
      cases idx0 with
      | true =>
        have e0 := hv0 rfl
        obtain ⟨hh, hl, ha⟩ := splice_aux st pos0 pos1 [] hp0 hp1
        rw [List.append_nil] at hh hl ha
        rw [psSplice_tt st pos0 pos1 s0 s1 (by omega) (by omega)] at h
        obtain rfl := Option.some.inj h
        refine ⟨hh, Or.inl hl, fun p hp => ?_⟩
        rcases ha p hp with h | h
        · exact Deriv.input h
        · simp only [List.cons_append, List.nil_append, adj, List.mem_cons, List.not_mem_nil,
            or_false] at h
          subst h
          exact Deriv.validated (by rw [← e0, ← e1]; exact hcm')
      | false =>
        obtain ⟨hq0, hc0'⟩ := hc0 rfl
        have h02 : pos0 + 2 ≤ pos1 := by simp [psSkip] at hs; omega
        obtain ⟨hh, hl, ha⟩ := splice_aux st pos0 pos1 [s0] hp0 hp1
        rw [psSplice_ft st pos0 pos1 s0 s1 h02 (by omega)] at h
        obtain rfl := Option.some.inj h
        refine ⟨hh, Or.inl hl, fun p hp => ?_⟩
        rcases ha p hp with h | h
        · exact Deriv.input h
        · simp only [List.cons_append, List.nil_append, adj, List.mem_cons, List.not_mem_nil,
            or_false] at h
          rcases h with rfl | rfl
          · exact Deriv.prefixCut (Deriv.input (mem_adj_getElem_succ st pos0 hq0)) hc0'
          · exact Deriv.validated (by rw [← e1]; exact hcm')

inductive PsCutStepsW (cm : σ → σ → Bool) (cut : σ → σ → σ → Prop) : List σ → List σ → Prop
  | refl (st : List σ) : PsCutStepsW cm cut st st
  | head {st mid out : List σ} : PsCutStepW cm cut st mid → PsCutStepsW cm cut mid out →
      PsCutStepsW cm cut st out

theorem PsCutStepsW.preserves {cm : σ → σ → Bool} {cut : σ → σ → σ → Prop} (isGoal : σ → Prop)
    (hsym : ∀ a b, cm a b = cm b a) {st out : List σ} (h : PsCutStepsW cm cut st out) :
    Preserves cm cut isGoal st out := by
  induction h with
  | refl => exact Preserves.refl cm cut isGoal _
  | head s _ ih => exact (s.preserves isGoal hsym).trans ih

/-- the local function `pt` of `psLoopG`: a sampled point that was computed without an index error is
a `PsSample` -/
theorem psPt_sample (E : PsEnv σ) {cut : σ → σ → σ → Prop} (hcut : ∀ a b t, cut a b (E.interp a b t))
    (st : List σ) (ds : Array Float) (pos : Nat) (idx : Bool) (d : Float) (s : σ)
    (h : (if idx = true then st[pos]? else
        match st[pos]?, st[pos + 1]?, ds[pos]?, ds[pos + 1]? with
        | some a, some b, some da, some db => some (E.interp a b ((d - da) / (db - da)))
        | _, _, _, _ => none) = some s) :
    PsSample cut st pos idx s := by
  cases idx with
  | true =>
    simp only [if_true] at h
    obtain ⟨hp, he⟩ := List.getElem?_eq_some_iff.mp h
    exact ⟨hp, fun _ => he.symm, fun h => Bool.noConfusion h⟩
  | false =>
    simp only [Bool.false_eq_true, if_false] at h
    split at h
    · next a b da db ha hb _ _ =>
      obtain ⟨hp, hea⟩ := List.getElem?_eq_some_iff.mp ha
      obtain ⟨hp1, heb⟩ := List.getElem?_eq_some_iff.mp hb
      simp only [Option.some.injEq] at h
      subst hea heb h
      exact ⟨hp, fun h => Bool.noConfusion h, fun _ => ⟨hp1, hcut _ _ _⟩⟩
    · cases h

/-- the loop of `partialShortcutPath` (both variants of the snap test, every draw stream, every
`double` oracle; no law about `double` is used: all bounds come from the checked indexing) is a
sequence of `PsCutStepW`s -/
theorem psLoopG_steps (E : PsEnv σ) {cut : σ → σ → σ → Prop} (hcut : ∀ a b t, cut a b (E.interp a b t))
    (fixed : Bool) (u : Nat → Float) (rr snap : Float) (maxEmpty : Nat) :
    ∀ (fuel i nochange : Nat) (st : List σ) (res : Bool) (out : List σ) (r : Bool),
      psLoopG E fixed u rr snap maxEmpty fuel i nochange st res = some (out, r) →
      PsCutStepsW E.cm cut st out := by
  intro fuel
  induction fuel with
  | zero =>
    intro i nochange st res out r h
    simp only [psLoopG, Option.some.injEq, Prod.mk.injEq] at h
    obtain ⟨rfl, _⟩ := h
    exact .refl _
  | succ fuel ih =>
    intro i nochange st res out r h
    simp only [psLoopG] at h
    generalize (cumDistsFrom E.dist 0.0 st).toArray = ds at h
    generalize ds[ds.size - 1]! = back at h
    generalize (back - 0.0) * u (2 * i) + 0.0 = distTo0 at h
    generalize psSelectG fixed ds distTo0 (back * snap) = p0 at h
    generalize _ * u (2 * i + 1) + _ = distTo1 at h
    generalize psSelectG fixed ds distTo1 (back * snap) = p1 at h
    obtain ⟨pos0, idx0⟩ := p0
    obtain ⟨pos1, idx1⟩ := p1
    simp only at h
    split at h
    · split at h
      · exact ih _ _ _ _ _ _ h
      · next hs =>
        split at h
        · next s0 s1 hp0 hp1 =>
          have hS0 := psPt_sample E hcut st ds pos0 idx0 distTo0 s0 hp0
          have hS1 := psPt_sample E hcut st ds pos1 idx1 distTo1 s1 hp1
          split at h
          · next hcm =>
            generalize ho : (if pos0 > pos1 then (pos1, idx1, s1, pos0, idx0, s0)
              else (pos0, idx0, s0, pos1, idx1, s1)) = o at h
            obtain ⟨q0, j0, t0, q1, j1, t1⟩ := o
            simp only at h
            have hstep : ∀ st', psSplice st q0 j0 t0 q1 j1 t1 = some st' →
                PsCutStepW E.cm cut st st' := by
              intro st' hsp
              have hs' : psSkip pos0 idx0 pos1 idx1 = false := by simpa using hs
              have hne : pos0 ≠ pos1 := by intro e; simp [psSkip, e] at hs'
              by_cases hgt : pos0 > pos1
              · rw [if_pos hgt] at ho
                simp only [Prod.mk.injEq] at ho
                obtain ⟨rfl, rfl, rfl, rfl, rfl, rfl⟩ := ho
                exact .mk st _ _ _ _ _ _ st' hgt (by rw [psSkip_comm]; exact hs') hS1 hS0
                  (Or.inr hcm) hsp
              · rw [if_neg hgt] at ho
                simp only [Prod.mk.injEq] at ho
                obtain ⟨rfl, rfl, rfl, rfl, rfl, rfl⟩ := ho
                exact .mk st _ _ _ _ _ _ st' (by omega) hs' hS0 hS1 (Or.inl hcm) hsp
            split at h
            · split at h
              · split at h
                · exact ih _ _ _ _ _ _ h
                · split at h
                  · next st' hsp => exact .head (hstep st' hsp) (ih _ _ _ _ _ _ h)
                  · cases h
              · cases h
            · cases h
          · exact ih _ _ _ _ _ _ h
        · cases h
    · simp only [Option.some.injEq, Prod.mk.injEq] at h
      obtain ⟨rfl, _⟩ := h
      exact .refl _

theorem partialShortcutPathG_steps {E : PsEnv σ} {cut : σ → σ → σ → Prop}
    (hcut : ∀ a b t, cut a b (E.interp a b t)) {fixed : Bool} {u : Nat → Float} {ms me : Nat}
    {rr snap : Float} {path out : List σ} {r : Bool}
    (h : partialShortcutPathG E fixed u ms me rr snap path = some (out, r)) :
    PsCutStepsW E.cm cut path out := by
  unfold partialShortcutPathG at h
  split at h
  · simp only [Option.some.injEq, Prod.mk.injEq] at h
    obtain ⟨rfl, _⟩ := h
    exact .refl _
  · exact psLoopG_steps E hcut _ _ _ _ _ _ _ _ _ _ _ _ h

/-- a run of `partialShortcutPath` (the routine in the tree, or the one before fix f9a435dd6) preserves,
for a symmetric `checkMotion` -/
theorem partialShortcutG_preserves {E : PsEnv σ} {cut : σ → σ → σ → Prop} (isGoal : σ → Prop)
    (hsym : ∀ a b, E.cm a b = E.cm b a) (hcut : ∀ a b t, cut a b (E.interp a b t))
    {fixed : Bool} {u : Nat → Float} {ms me : Nat} {rr snap : Float} {path out : List σ} {r : Bool}
    (h : partialShortcutPathG E fixed u ms me rr snap path = some (out, r)) :
    Preserves E.cm cut isGoal path out :=
  (partialShortcutPathG_steps hcut h).preserves isGoal hsym

theorem partialShortcut_preserves {E : PsEnv σ} {cut : σ → σ → σ → Prop} (isGoal : σ → Prop)
    (hsym : ∀ a b, E.cm a b = E.cm b a) (hcut : ∀ a b t, cut a b (E.interp a b t))
    {u : Nat → Float} {ms me : Nat} {rr snap : Float} {path out : List σ} {r : Bool}
    (h : partialShortcutPath E u ms me rr snap path = some (out, r)) :
    Preserves E.cm cut isGoal path out :=
  partialShortcutG_preserves isGoal hsym hcut h

/-! ## 5. findBetterGoal -/

section BetterGoal
variable {α γ : Type}

/-- a run of `findBetterGoal` preserves, whatever it returns: `false` leaves the path as it is; `true`
keeps the first state, ends in a sampled goal state, and every motion is an input motion, the prefix
of an input motion cut at an interpolated state, or the validated motion into the goal -/
theorem betterGoal_preserves {E : BgEnv σ α γ} {cut : σ → σ → σ → Prop} {isGoal : σ → Prop}
    (hcut : ∀ a b t, cut a b (E.interp a b t)) (hgoal : ∀ k, isGoal (E.goalAt k))
    (hlaw : ∀ a b, E.N.lt a b = true → E.N.le b a = false)
    {path out : List σ} {r : Bool} (h : findBetterGoal E path = some (out, r)) :
    Preserves E.cm cut isGoal path out := by
  cases r with
  | false =>
    rw [findBetterGoal_false_unchanged h]
    exact Preserves.refl _ _ _ _
  | true =>
    obtain ⟨g, hg, _⟩ := findBetterGoal_last_is_goal h
    refine ⟨findBetterGoal_keeps_first h, Or.inr ⟨_, hg, hgoal g⟩, fun p hp => ?_⟩
    rcases findBetterGoal_only_validated hlaw h p hp with h1 | ⟨a, b, t, hab, rfl⟩ | h1
    · exact Deriv.input h1
    · exact Deriv.prefixCut (Deriv.input hab) (hcut a b t)
    · exact Deriv.validated h1

/-- … with the canonical `cut` ("an interpolated state of the motion") and `isGoal` ("a sampled goal") -/
theorem betterGoal_preserves_interp {E : BgEnv σ α γ}
    (hlaw : ∀ a b, E.N.lt a b = true → E.N.le b a = false)
    {path out : List σ} {r : Bool} (h : findBetterGoal E path = some (out, r)) :
    Preserves E.cm (fun a b s => ∃ t, s = E.interp a b t) (fun g => ∃ k, g = E.goalAt k) path out :=
  betterGoal_preserves (fun _ _ t => ⟨t, rfl⟩) (fun k => ⟨k, rfl⟩) hlaw h

end BetterGoal

/-! ## 6. the packaged corollary -/

/-- every routine field of `R` is, at every call index and on every path, SOME run of the
corresponding concrete model with `checkMotion = cm` (all other parameters — draws, step bounds,
validity / distance oracles, samplers — existentially quantified, so they may differ from call to
call), with cut points in `cut` and sampled goals in `isGoal`.
`α`/`γ`: number and cost type of `findBetterGoal`'s environment; `β`: distance type of
`collapseCloseVertices`. -/
structure RoutinesAreRuns (α γ β : Type) [BEq σ] (cm : σ → σ → Bool) (cut : σ → σ → σ → Prop)
    (isGoal : σ → Prop) (R : Routines σ) : Prop where
  partialShortcut : ∀ k l, ∃ (E : PsEnv σ) (u : Nat → Float) (ms me : Nat) (rr snap : Float),
    E.cm = cm ∧ (∀ a b t, cut a b (E.interp a b t)) ∧
    partialShortcutPath E u ms me rr snap l = some (R.partialShortcut k l)
  findBetterGoal : ∀ k l, ∃ E : BgEnv σ α γ, E.cm = cm ∧ (∀ a b t, cut a b (E.interp a b t)) ∧
    (∀ g, isGoal (E.goalAt g)) ∧ (∀ a b, E.N.lt a b = true → E.N.le b a = false) ∧
    _root_.OmplModel.PathOps.findBetterGoal E l = some (R.findBetterGoal k l)
  smoothBSpline : ∀ k l, ∃ (E : BsEnv σ) (n : Nat), E.cm = cm ∧ (∀ a b, cut a b (E.mid a b)) ∧
    R.smoothBSpline k l = _root_.OmplModel.PathOps.smoothBSpline E n l
  checkAndRepair : ∀ k l, ∃ E : RepairEnv σ, E.cm = cm ∧
    _root_.OmplModel.PathOps.checkAndRepair E l = some (R.checkAndRepair k l)
  reduceVertices : ∀ k l, ∃ (rangeOf draw : Nat → Nat) (ms me : Nat),
    _root_.OmplModel.PathOps.reduceVertices cm rangeOf draw ms me l = some (R.reduceVertices k l)
  collapseClose : ∀ k l, ∃ (dist : σ → σ → β) (lt : β → β → Bool) (inf : β) (ms me : Nat),
    collapseCloseVertices cm dist lt inf ms me l = some (R.collapseClose k l)

/-- routines that are runs of the concrete models satisfy the hypothesis of the composition theorem
(`hsym`: only for `partialShortcut`, see `PsCutStep`) -/
theorem routinesPreserve_of_specs {α γ β : Type} [BEq σ] {cm : σ → σ → Bool}
    {cut : σ → σ → σ → Prop} {isGoal : σ → Prop} {R : Routines σ}
    (hsym : ∀ a b, cm a b = cm b a) (h : RoutinesAreRuns α γ β cm cut isGoal R) :
    RoutinesPreserve cm cut isGoal R where
  partialShortcut := by
    intro k l
    obtain ⟨E, u, ms, me, rr, snap, rfl, hcut, hE⟩ := h.partialShortcut k l
    exact partialShortcut_preserves isGoal hsym hcut (r := (R.partialShortcut k l).2) hE
  findBetterGoal := by
    intro k l
    obtain ⟨E, rfl, hcut, hgoal, hlaw, hE⟩ := h.findBetterGoal k l
    exact betterGoal_preserves hcut hgoal hlaw (r := (R.findBetterGoal k l).2) hE
  smoothBSpline := by
    intro k l
    obtain ⟨E, n, rfl, hcut, hE⟩ := h.smoothBSpline k l
    rw [hE]
    exact bspline_preserves E isGoal hcut n l
  checkAndRepair := by
    intro k l hres
    obtain ⟨E, rfl, hE⟩ := h.checkAndRepair k l
    have hE' : _root_.OmplModel.PathOps.checkAndRepair E l =
        some ((R.checkAndRepair k l).1, (R.checkAndRepair k l).2.1, true) := by
      rw [hE, ← hres]
    exact repair_preserves cut isGoal hE'
  reduceVertices := by
    intro k l
    obtain ⟨rangeOf, draw, ms, me, hE⟩ := h.reduceVertices k l
    exact reduce_preserves cut isGoal (r := (R.reduceVertices k l).2) hE
  collapseClose := by
    intro k l
    obtain ⟨dist, lt, inf, ms, me, hE⟩ := h.collapseClose k l
    exact collapse_preserves cut isGoal (r := (R.collapseClose k l).2) hE

/-- **Composition over the concrete models**: if every routine call of the schedule is some run of the
corresponding concrete routine model (with a symmetric `checkMotion`), then every run of `simplify`
that ends with `valid = true` — no `checkAndRepair` reported failure — preserves: same first state;
same last state or a sampled goal; every motion an input motion, a validated motion, or a piece of one
cut at a state on it.  Every `ptc` stream, `atLeastOnce`, fuel. -/
theorem simplify_schedule_preserves_concrete {α γ β : Type} [BEq σ] {cm : σ → σ → Bool}
    {cut : σ → σ → σ → Prop} {isGoal : σ → Prop} {R : Routines σ}
    (hsym : ∀ a b, cm a b = cm b a) (h : RoutinesAreRuns α γ β cm cut isGoal R)
    (ptc : Nat → Bool) (atLeastOnce : Bool) (fuel : Nat) (inp : List σ)
    (hvalid : (simplify R ptc atLeastOnce fuel inp).valid = true) :
    Preserves cm cut isGoal inp (simplify R ptc atLeastOnce fuel inp).path :=
  simplify_schedule_preserves (routinesPreserve_of_specs hsym h) ptc atLeastOnce fuel inp hvalid

/-- corollary for `simplifyMax` -/
theorem simplifyMax_schedule_preserves_concrete {α γ β : Type} [BEq σ] {cm : σ → σ → Bool}
    {cut : σ → σ → σ → Prop} {isGoal : σ → Prop} {R : Routines σ}
    (hsym : ∀ a b, cm a b = cm b a) (h : RoutinesAreRuns α γ β cm cut isGoal R)
    (fuel : Nat) (inp : List σ) (hvalid : (simplifyMax R fuel inp).valid = true) :
    Preserves cm cut isGoal inp (simplifyMax R fuel inp).path :=
  simplifyMax_schedule_preserves (routinesPreserve_of_specs hsym h) fuel inp hvalid

end OmplModel.PathOps
