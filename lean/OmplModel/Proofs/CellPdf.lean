import OmplModel.Model.CellPdf
import OmplModel.Proofs.PdfLeaves
import OmplModel.Proofs.PdfChecked
/-! Invariant of the cell-PDF protocol (`Model/CellPdf.lean`): PDF elements ↔ non-empty grid cells is a bijection through
`elem_` / the element payload, each element carries the coded weight of its cell's CURRENT motion count, and the count is
the net number of motions the history left in the cell.  Arithmetic-free. -/
namespace OmplModel.CellPdf
open OmplModel.Pdf
variable {α : Type}

theorem gw_update [WOps α] (s : Pdf α) (hsh : ShapeInv s) (hix : IdxSync s) (h : Nat) (w : α)
    (hl : (s.getWeight h).isSome = true) (k : Nat) :
    (s.update h w).getWeight k = if k = h then some w else s.getWeight k := by
  have := (refines_update s ⟨s.getWeight, s.next⟩ h w hsh hix ⟨fun _ => rfl, rfl⟩).1 k
  simp only [Abs.step, hl, if_true] at this
  exact this

theorem gw_add [WOps α] (s : Pdf α) (hsh : ShapeInv s) (hix : IdxSync s) (w : α)
    (hw : WOps.lt w (WOps.zero : α) = false) (k : Nat) :
    (s.add w).getWeight k = if k = s.next then some w else s.getWeight k := by
  have := (refines_add s ⟨s.getWeight, s.next⟩ w hsh hix ⟨fun _ => rfl, rfl⟩).1 k
  simp only [Abs.step, hw, Bool.false_eq_true, if_false] at this
  exact this

theorem gw_remove [WOps α] (s : Pdf α) (hsh : ShapeInv s) (hix : IdxSync s) (h k : Nat) :
    (s.remove h).getWeight k = if k = h then none else s.getWeight k := by
  have := (refines_remove s ⟨s.getWeight, s.next⟩ h hsh hix ⟨fun _ => rfl, rfl⟩).1 k
  simp only [Abs.step] at this
  exact this

theorem gw_fresh (s : Pdf α) (hix : IdxSync s) (h : Nat) (hh : s.next ≤ h) : s.getWeight h = none := by
  rw [getWeight_eq, hix.fresh h hh]; rfl

theorem gw_clear (s : Pdf α) (h : Nat) : s.clear.getWeight h = none := by
  simp [Pdf.clear, Pdf.getWeight]

/-- a stored handle has a weight -/
theorem gw_of_mem (s : Pdf α) (hsh : ShapeInv s) (hix : IdxSync s) (h : Nat) (hm : h ∈ s.data) :
    (s.getWeight h).isSome = true := by
  obtain ⟨i, hi, e⟩ := Array.getElem_of_mem hm
  have hf := hix.fwd i hi
  rw [e] at hf
  have hsz := row0_size s hsh
  rw [getWeight_eq, hf]
  simp [hsz, hi]

/-- … and a handle with a weight is stored -/
theorem mem_of_gw (s : Pdf α) (hix : IdxSync s) (h : Nat) (hg : (s.getWeight h).isSome = true) : h ∈ s.data := by
  rw [getWeight_eq] at hg
  cases hi : s.idx h with
  | none => rw [hi] at hg; simp at hg
  | some i => exact Array.mem_of_getElem? (hix.bwd h i hi)

@[simp] theorem setAt_apply {κ β : Type} [DecidableEq κ] (f : κ → β) (k : κ) (v : β) (x : κ) :
    setAt f k v x = if x = k then v else f x := rfl

structure CInv (cfg : Cfg α) (st : St α) : Prop where
  shape : ShapeInv st.pdf
  idx : IdxSync st.pdf
  /-- a grid cell is non-empty, its `elem_` is an element whose payload is that cell, with the coded weight -/
  fwd : ∀ c n e, st.cell c = some (n, e) → 0 < n ∧ st.owner e = some c ∧ st.pdf.getWeight e = some (cfg.wCell n)
  /-- every element is the `elem_` of the grid cell its payload names -/
  bwd : ∀ h, (st.pdf.getWeight h).isSome = true → ∃ c n, st.owner h = some c ∧ st.cell c = some (n, h)

theorem cinv_empty (cfg : Cfg α) : CInv cfg ({} : St α) :=
  ⟨shapeInv_empty, idxSync_empty, fun _ _ _ h => (by cases h), fun h hg => (by simp [Pdf.getWeight] at hg)⟩

/-- re-weighting an existing cell (count `n ↦ m`, `m > 0`) -/
theorem cinv_reweigh [WOps α] (cfg : Cfg α) (st : St α) (hinv : CInv cfg st) (c : Coord) (n e m : Nat)
    (hc : st.cell c = some (n, e)) (hm : 0 < m) :
    CInv cfg { st with cell := setAt st.cell c (some (m, e)), pdf := st.pdf.update e (cfg.wCell m) } := by
  obtain ⟨_, hown, hwt⟩ := hinv.fwd c n e hc
  have hl : (st.pdf.getWeight e).isSome = true := by rw [hwt]; rfl
  refine ⟨shapeInv_update _ _ _ hinv.shape, idxSync_update _ _ _ hinv.idx, ?_, ?_⟩
  · intro c' n' e' hc'
    simp only [setAt] at hc'
    rw [gw_update _ hinv.shape hinv.idx _ _ hl]
    by_cases hcc : c' = c
    · subst hcc
      simp only [if_true, Option.some.injEq, Prod.mk.injEq] at hc'
      obtain ⟨rfl, rfl⟩ := hc'
      exact ⟨hm, hown, by simp⟩
    · simp only [hcc, if_false] at hc'
      obtain ⟨hp, ho, hw⟩ := hinv.fwd c' n' e' hc'
      have hne : e' ≠ e := by
        intro he; subst he
        rw [hown] at ho
        exact hcc (Option.some.inj ho).symm
      exact ⟨hp, ho, by simp [hne, hw]⟩
  · intro h hg
    rw [gw_update _ hinv.shape hinv.idx _ _ hl] at hg
    by_cases hhe : h = e
    · subst hhe
      exact ⟨c, m, hown, by simp [setAt]⟩
    · simp only [hhe, if_false] at hg
      obtain ⟨c0, n0, ho, hc0⟩ := hinv.bwd h hg
      have hne : c0 ≠ c := by
        intro hcc; subst hcc
        rw [hc] at hc0
        simp only [Option.some.injEq, Prod.mk.injEq] at hc0
        exact hhe hc0.2.symm
      exact ⟨c0, n0, ho, by simp [setAt, hne, hc0]⟩

theorem cinv_addMotion [WOps α] (cfg : Cfg α) (hw : WOps.lt cfg.wOne (WOps.zero : α) = false)
    (hone : cfg.wCell 1 = cfg.wOne) (st : St α) (hinv : CInv cfg st) (c : Coord) :
    CInv cfg (addMotion cfg st c) := by
  unfold addMotion
  cases hc : st.cell c with
  | some ne =>
    obtain ⟨n, e⟩ := ne
    exact cinv_reweigh cfg st hinv c n e (n + 1) hc (by omega)
  | none =>
    have hfr : st.pdf.getWeight st.pdf.next = none := gw_fresh _ hinv.idx _ (Nat.le_refl _)
    refine ⟨shapeInv_add _ _ hinv.shape, idxSync_add _ _ hinv.idx, ?_, ?_⟩
    · intro c' n' e' hc'
      simp only [setAt] at hc' ⊢
      rw [gw_add _ hinv.shape hinv.idx _ hw]
      by_cases hcc : c' = c
      · subst hcc
        simp only [if_true, Option.some.injEq, Prod.mk.injEq] at hc'
        obtain ⟨rfl, rfl⟩ := hc'
        exact ⟨by omega, by simp, by simp [hone]⟩
      · simp only [hcc, if_false] at hc'
        obtain ⟨hp, ho, hwt⟩ := hinv.fwd c' n' e' hc'
        have hne : e' ≠ st.pdf.next := by
          intro he; rw [he, hfr] at hwt; cases hwt
        exact ⟨hp, by simp [hne, ho], by simp [hne, hwt]⟩
    · intro h hg
      rw [gw_add _ hinv.shape hinv.idx _ hw] at hg
      simp only [setAt]
      by_cases hhe : h = st.pdf.next
      · subst hhe
        exact ⟨c, 1, by simp, by simp⟩
      · simp only [hhe, if_false] at hg
        obtain ⟨c0, n0, ho, hc0⟩ := hinv.bwd h hg
        have hne : c0 ≠ c := by
          intro hcc; subst hcc; rw [hc] at hc0; cases hc0
        exact ⟨c0, n0, by simp [hhe, ho], by simp [hne, hc0]⟩

theorem cinv_removeMotion [WOps α] (cfg : Cfg α) (st : St α) (hinv : CInv cfg st) (c : Coord) :
    CInv cfg (removeMotion cfg st c) := by
  unfold removeMotion
  cases hc : st.cell c with
  | none => exact hinv
  | some ne =>
    obtain ⟨n, e⟩ := ne
    simp only
    obtain ⟨hpos, hown, hwt⟩ := hinv.fwd c n e hc
    by_cases hn : n ≤ 1
    · rw [if_pos hn]
      refine ⟨shapeInv_remove _ _ hinv.shape, idxSync_remove _ _ hinv.idx, ?_, ?_⟩
      · intro c' n' e' hc'
        simp only [setAt] at hc' ⊢
        rw [gw_remove _ hinv.shape hinv.idx]
        by_cases hcc : c' = c
        · simp [hcc] at hc'
        · simp only [hcc, if_false] at hc'
          obtain ⟨hp, ho, hw⟩ := hinv.fwd c' n' e' hc'
          have hne : e' ≠ e := by
            intro he; subst he
            rw [hown] at ho
            exact hcc (Option.some.inj ho).symm
          exact ⟨hp, by simp [hne, ho], by simp [hne, hw]⟩
      · intro h hg
        rw [gw_remove _ hinv.shape hinv.idx] at hg
        simp only [setAt]
        by_cases hhe : h = e
        · simp [hhe] at hg
        · simp only [hhe, if_false] at hg
          obtain ⟨c0, n0, ho, hc0⟩ := hinv.bwd h hg
          have hne : c0 ≠ c := by
            intro hcc; subst hcc
            rw [hc] at hc0
            simp only [Option.some.injEq, Prod.mk.injEq] at hc0
            exact hhe hc0.2.symm
          exact ⟨c0, n0, by simp [hhe, ho], by simp [hne, hc0]⟩
    · rw [if_neg hn]
      exact cinv_reweigh cfg st hinv c n e (n - 1) hc (by omega)

theorem cinv_clear (cfg : Cfg α) (st : St α) : CInv cfg (clear st) :=
  ⟨shapeInv_clear _, idxSync_clear _, fun _ _ _ h => (by cases h), fun h hg => (by simp [clear, gw_clear] at hg)⟩

theorem cinv_step [WOps α] (cfg : Cfg α) (hw : WOps.lt cfg.wOne (WOps.zero : α) = false)
    (hone : cfg.wCell 1 = cfg.wOne) (st : St α) (hinv : CInv cfg st) (op : COp) : CInv cfg (step cfg st op) := by
  cases op with
  | add c => exact cinv_addMotion cfg hw hone st hinv c
  | remove c => exact cinv_removeMotion cfg st hinv c
  | clear => exact cinv_clear cfg st

/-- the motion count of every cell is what the specification side computes -/
def CountSpec (st : St α) (f : Coord → Nat) : Prop :=
  ∀ c, (st.cell c).map (·.1) = if f c = 0 then none else some (f c)

theorem countSpec_step [WOps α] (cfg : Cfg α) (st : St α) (f : Coord → Nat) (h : CountSpec st f) (op : COp) :
    CountSpec (step cfg st op) (netStep f op) := by
  cases op with
  | add c =>
    intro c'
    have hc0 := h c
    simp only [step, addMotion, netStep, setAt]
    cases hc : st.cell c with
    | some ne =>
      obtain ⟨n, e⟩ := ne
      rw [hc] at hc0
      simp only [Option.map_some] at hc0
      have hf : f c = n := by
        by_cases hz : f c = 0
        · simp [hz] at hc0
        · simp only [hz, if_false, Option.some.injEq] at hc0; exact hc0.symm
      by_cases hcc : c' = c
      · subst hcc; simp [hf]
      · simp only [setAt_apply, hcc, if_false]; exact h c'
    | none =>
      rw [hc] at hc0
      have hf : f c = 0 := by
        by_cases hz : f c = 0
        · exact hz
        · simp [hz] at hc0
      by_cases hcc : c' = c
      · subst hcc; simp [hf]
      · simp only [setAt_apply, hcc, if_false]; exact h c'
  | remove c =>
    intro c'
    have hc0 := h c
    simp only [step, removeMotion, netStep, setAt]
    cases hc : st.cell c with
    | none =>
      rw [hc] at hc0
      have hf : f c = 0 := by
        by_cases hz : f c = 0
        · exact hz
        · simp [hz] at hc0
      by_cases hcc : c' = c
      · subst hcc; simp [hf, hc]
      · simp only [setAt_apply, hcc, if_false]; exact h c'
    | some ne =>
      obtain ⟨n, e⟩ := ne
      rw [hc] at hc0
      simp only [Option.map_some] at hc0
      have hf : f c = n ∧ n ≠ 0 := by
        by_cases hz : f c = 0
        · simp [hz] at hc0
        · simp only [hz, if_false, Option.some.injEq] at hc0; exact ⟨hc0.symm, by omega⟩
      simp only
      by_cases hn : n ≤ 1
      · rw [if_pos hn]
        simp only [setAt]
        by_cases hcc : c' = c
        · subst hcc
          have : f c' - 1 = 0 := by omega
          simp [this]
        · simp only [setAt_apply, hcc, if_false]; exact h c'
      · rw [if_neg hn]
        simp only [setAt]
        by_cases hcc : c' = c
        · subst hcc
          have h1 : f c' - 1 ≠ 0 := by omega
          have h2 : n - 1 ≠ 0 := by omega
          simp [h1, h2, hf.1]
        · simp only [setAt_apply, hcc, if_false]; exact h c'
  | clear =>
    intro c'
    simp [step, clear, netStep]

theorem run_inv [WOps α] (cfg : Cfg α) (hw : WOps.lt cfg.wOne (WOps.zero : α) = false)
    (hone : cfg.wCell 1 = cfg.wOne) : ∀ (ops : List COp) (st : St α) (f : Coord → Nat), CInv cfg st → CountSpec st f →
    CInv cfg (run cfg st ops) ∧ CountSpec (run cfg st ops) (ops.foldl netStep f)
  | [], _, _, h1, h2 => ⟨h1, h2⟩
  | op :: ops, st, f, h1, h2 =>
    run_inv cfg hw hone ops (step cfg st op) (netStep f op) (cinv_step cfg hw hone st h1 op)
      (countSpec_step cfg st f h2 op)

/-- the checked step is the step (no PDF edit of the protocol leaves the storage) -/
theorem stepC_eq [WOps α] (cfg : Cfg α) (st : St α) (hinv : CInv cfg st) (op : COp) :
    stepC cfg st op = some (step cfg st op) := by
  cases op with
  | add c =>
    simp only [stepC, step, addMotion]
    cases hc : st.cell c with
    | some ne => simp only [updateC_eq _ _ _ hinv.shape, Option.map_some]
    | none => simp only [addC_eq _ _ hinv.shape, Option.map_some]
  | remove c =>
    simp only [stepC, step, removeMotion]
    cases hc : st.cell c with
    | none => rfl
    | some ne =>
      simp only
      split
      · simp only [removeC_eq _ _ hinv.shape hinv.idx, Option.map_some]
      · simp only [updateC_eq _ _ _ hinv.shape, Option.map_some]
  | clear => rfl

theorem runC_eq [WOps α] (cfg : Cfg α) (hw : WOps.lt cfg.wOne (WOps.zero : α) = false)
    (hone : cfg.wCell 1 = cfg.wOne) : ∀ (ops : List COp) (st : St α), CInv cfg st →
    runC cfg st ops = some (run cfg st ops)
  | [], _, _ => rfl
  | op :: ops, st, hinv => by
    unfold runC
    rw [stepC_eq cfg st hinv op]
    simp only
    rw [runC_eq cfg hw hone ops (step cfg st op) (cinv_step cfg hw hone st hinv op)]
    rfl

/-! ### the two-vector constructor `PDF(data, weights)`: as coded, `add` in a loop on a fresh object -/

theorem ofWeights_snoc [WOps α] (ws : List α) (w : α) : Pdf.ofWeights (ws ++ [w]) = (Pdf.ofWeights ws).add w := by
  simp [Pdf.ofWeights, List.foldl_append]

structure CtorSpec (ws : List α) (s : Pdf α) : Prop where
  shape : ShapeInv s
  idx : IdxSync s
  size : s.data.size = ws.length
  next : s.next = ws.length
  pos : ∀ i, i < ws.length → s.data[i]? = some i
  weight : ∀ i, i < ws.length → s.getWeight i = ws[i]?

theorem ctorSpec_add [WOps α] (pre : List α) (s : Pdf α) (w : α) (ih : CtorSpec pre s)
    (hw : WOps.lt w (WOps.zero : α) = false) : CtorSpec (pre ++ [w]) (s.add w) := by
  have hsz : (s.add w).data = s.data.push s.next := by
    unfold Pdf.add; simp [hw]
  have hnx : (s.add w).next = s.next + 1 := by
    unfold Pdf.add; simp [hw]
  refine ⟨shapeInv_add _ _ ih.shape, idxSync_add _ _ ih.idx, by rw [hsz]; simp [ih.size], by rw [hnx, ih.next]; simp,
    ?_, ?_⟩
  · intro i hi
    rw [hsz, Array.getElem?_push, ih.size, ih.next]
    by_cases h : i = pre.length
    · simp [h]
    · have : i < pre.length := by simp at hi; omega
      simp [h, ih.pos i this]
  · intro i hi
    rw [gw_add _ ih.shape ih.idx _ hw, ih.next]
    by_cases h : i = pre.length
    · simp [h]
    · have hlt : i < pre.length := by simp at hi; omega
      simp [h, ih.weight i hlt, List.getElem?_append_left hlt]

theorem ctorSpec_foldl [WOps α] : ∀ (ws pre : List α) (s : Pdf α), CtorSpec pre s →
    (∀ w ∈ ws, WOps.lt w (WOps.zero : α) = false) → CtorSpec (pre ++ ws) (ws.foldl Pdf.add s)
  | [], pre, s, h, _ => by simpa using h
  | w :: ws, pre, s, h, hnn => by
    have := ctorSpec_foldl ws (pre ++ [w]) (s.add w) (ctorSpec_add pre s w h (hnn w (by simp)))
      (fun x hx => hnn x (by simp [hx]))
    simpa using this

theorem ofWeights_spec [WOps α] (ws : List α) (hnn : ∀ w ∈ ws, WOps.lt w (WOps.zero : α) = false) :
    CtorSpec ws (Pdf.ofWeights ws) := by
  have := ctorSpec_foldl ws [] ({} : Pdf α)
    ⟨shapeInv_empty, idxSync_empty, rfl, rfl, fun i hi => by simp at hi, fun i hi => by simp at hi⟩ hnn
  simpa [Pdf.ofWeights] using this

/-- `tree_` is empty exactly when `data_` is, and no row of `tree_` is ever empty -/
theorem tree_nil_iff (s : Pdf α) (hs : ShapeInv s) : (s.tree = [] ↔ s.data.size = 0) ∧ ∀ r ∈ s.tree, 0 < r.size := by
  unfold ShapeInv at hs
  constructor
  · constructor
    · intro h; rw [h] at hs; exact hs
    · intro h; rw [h, shapeSizes_zero_iff, sizes_eq_nil] at hs; exact hs
  · intro r hr
    exact shapeSizes_pos _ _ hs r.size (by unfold sizes; exact List.mem_map_of_mem hr)

end OmplModel.CellPdf
