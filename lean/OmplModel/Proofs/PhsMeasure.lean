import OmplModel.Proofs.PhsReal
import Mathlib.Analysis.SpecialFunctions.Gamma.Basic
import Mathlib.Analysis.SpecialFunctions.Gaussian.GaussianIntegral
import Mathlib.MeasureTheory.Measure.Lebesgue.VolumeOfBalls
import Mathlib.Tactic.Linarith
import Mathlib.Tactic.Ring
import Mathlib.Tactic.Positivity
import Mathlib.Tactic.NormNum
import Mathlib.Tactic.FieldSimp
/-!
Measure formulas of the informed-sampling model (C15) at `ℝ`: `unitNBallMeasure n` is
`√π ^ n / Γ(n/2 + 1)` (the Lebesgue measure of the unit `n`-ball), `phsMeasure` is the closed-form
measure of the prolate hyperspheroid, and the finite "overlap rejection" identity: picking a region
in proportion to its measure and keeping a point with probability `1 / (number of regions containing
it)` gives every covered cell the same density.
-/
namespace OmplModel.Phs
open OmplModel
attribute [-instance] Num.instOfNat

namespace PhsMeasure

/-! ### the loops are the closed forms -/

/-- the repeated product is the power -/
theorem powNat_eq (x : ℝ) (n : ℕ) : powNat x n = x ^ n := by
  induction n with
  | zero => simp only [powNat, PhsR.ofNat_eq, Nat.cast_one, pow_zero]
  | succ k ih => rw [powNat, ih, pow_succ]

/-- the radii loop multiplies `k` times by `conj / 2` -/
theorem radiiLoop_eq (conj l : ℝ) (k : ℕ) : radiiLoop conj k l = l * (conj / 2) ^ k := by
  induction k generalizing l with
  | zero => rw [radiiLoop, pow_zero, mul_one]
  | succ k ih =>
    rw [radiiLoop, ih]
    simp only [PhsR.ofNat_eq, Nat.cast_ofNat]
    ring

/-! ### the half-integer Gamma recurrence -/

/-- `gammaHalf n = Γ(n/2 + 1)` -/
theorem gammaHalf_eq_Gamma : ∀ n : ℕ, (gammaHalf n : ℝ) = Real.Gamma ((n : ℝ) / 2 + 1)
  | 0 => by
    simp only [gammaHalf, PhsR.ofNat_eq, Nat.cast_one, Nat.cast_zero, zero_div, zero_add,
      Real.Gamma_one]
  | 1 => by
    have h : ((1 : ℕ) : ℝ) / 2 + 1 = 1 / 2 + 1 := by norm_num
    rw [h, Real.Gamma_add_one (by norm_num), Real.Gamma_one_half_eq]
    simp only [gammaHalf, PhsR.sqrt_eq, PhsR.pi_eq, PhsR.ofNat_eq, Nat.cast_ofNat]
    ring
  | n + 2 => by
    have h : ((n + 2 : ℕ) : ℝ) / 2 + 1 = ((n : ℝ) / 2 + 1) + 1 := by push_cast; ring
    have hne : (n : ℝ) / 2 + 1 ≠ 0 := by positivity
    rw [h, Real.Gamma_add_one hne, gammaHalf, gammaHalf_eq_Gamma n]
    simp only [PhsR.ofNat_eq, Nat.cast_ofNat]
    push_cast
    ring

/-- `gammaHalf n` is positive -/
theorem gammaHalf_pos (n : ℕ) : 0 < (gammaHalf n : ℝ) := by
  rw [gammaHalf_eq_Gamma]
  exact Real.Gamma_pos_of_pos (by positivity)

/-! ### the unit ball measure -/

/-- `unitNBallMeasure n = √π ^ n / Γ(n/2 + 1)` -/
theorem unitNBall_eq (n : ℕ) :
    (unitNBallMeasure n : ℝ) = Real.sqrt Real.pi ^ n / Real.Gamma ((n : ℝ) / 2 + 1) := by
  rw [unitNBallMeasure, powNat_eq, gammaHalf_eq_Gamma]
  rfl

/-- the unit ball measure is positive -/
theorem unitNBall_pos (n : ℕ) : 0 < (unitNBallMeasure n : ℝ) := by
  rw [unitNBall_eq]
  have : 0 < Real.sqrt Real.pi := Real.sqrt_pos.2 Real.pi_pos
  exact div_pos (pow_pos this n) (Real.Gamma_pos_of_pos (by positivity))

/-- the two-step recurrence `V(n+2) = V(n) · 2π / (n+2)` -/
theorem unitNBall_rec (n : ℕ) :
    (unitNBallMeasure (n + 2) : ℝ) = unitNBallMeasure n * (2 * Real.pi / ((n : ℝ) + 2)) := by
  have hg := gammaHalf_pos n
  have hn : (0 : ℝ) < (n : ℝ) + 2 := by positivity
  have hpi : Real.sqrt Real.pi ^ 2 = Real.pi := Real.sq_sqrt Real.pi_pos.le
  simp only [unitNBallMeasure, powNat_eq, gammaHalf, PhsR.sqrt_eq, PhsR.pi_eq, PhsR.ofNat_eq,
    Nat.cast_ofNat]
  push_cast
  rw [pow_add, hpi]
  field_simp

/-- `V(0) = 1` -/
theorem unitNBall_zero : (unitNBallMeasure 0 : ℝ) = 1 := by
  simp only [unitNBallMeasure, powNat, gammaHalf, PhsR.ofNat_eq, Nat.cast_one, div_one]

/-- `V(1) = 2` -/
theorem unitNBall_one : (unitNBallMeasure 1 : ℝ) = 2 := by
  have : 0 < Real.sqrt Real.pi := Real.sqrt_pos.2 Real.pi_pos
  simp only [unitNBallMeasure, powNat_eq, gammaHalf, PhsR.sqrt_eq, PhsR.pi_eq, PhsR.ofNat_eq,
    Nat.cast_ofNat]
  field_simp

/-- `V(2) = π` -/
theorem unitNBall_two : (unitNBallMeasure 2 : ℝ) = Real.pi := by
  have := unitNBall_rec 0
  rw [unitNBall_zero] at this
  rw [this]; norm_num

/-- `V(3) = 4/3 · π` -/
theorem unitNBall_three : (unitNBallMeasure 3 : ℝ) = 4 / 3 * Real.pi := by
  have := unitNBall_rec 1
  rw [unitNBall_one] at this
  rw [this]; norm_num; ring

/-- `unitNBallMeasure n` is the Lebesgue volume of the Euclidean unit ball of `ℝⁿ` (every `n`,
including the one-point space `n = 0`) -/
theorem unitNBall_volume (n : ℕ) :
    MeasureTheory.volume (Metric.ball (0 : EuclideanSpace ℝ (Fin n)) 1)
      = ENNReal.ofReal (unitNBallMeasure n) := by
  cases n with
  | zero =>
    rw [unitNBall_zero, ENNReal.ofReal_one]
    have hball : Metric.ball (0 : EuclideanSpace ℝ (Fin 0)) 1 = Set.univ := by
      ext x
      simp [-PhsR.ofNat_lit, Subsingleton.elim x 0]
    rw [hball, ← (PiLp.volume_preserving_toLp (Fin 0)).measure_preimage
      MeasurableSet.univ.nullMeasurableSet]
    simp [-PhsR.ofNat_lit, MeasureTheory.volume_pi]
  | succ k =>
    rw [EuclideanSpace.volume_ball, Fintype.card_fin, ENNReal.ofReal_one, one_pow, one_mul,
      unitNBall_eq]

/-! ### the PHS measure -/

/-- closed form of `prolateHyperspheroidMeasure` when it does not throw -/
theorem measure_formula (n : ℕ) (cmin c : ℝ) (h : cmin ≤ c) :
    phsMeasure n cmin c
      = some (unitNBallMeasure n * (c / 2) * (Real.sqrt (c ^ 2 - cmin ^ 2) / 2) ^ (n - 1)) := by
  have hn : ¬ (@LT.lt ℝ instNumRealP.toLT c cmin) := fun h' =>
    absurd ((PhsR.lt_iff _ _).1 h') (not_lt.2 h)
  have hsq : c * c - cmin * cmin = c ^ 2 - cmin ^ 2 := by ring
  rw [phsMeasure, if_neg hn]
  simp only [PhsR.sqrt_eq, PhsR.ofNat_eq, radiiLoop_eq, Nat.cast_ofNat, hsq]
  congr 1
  ring

/-- `prolateHyperspheroidMeasure` throws exactly when the transverse diameter is too small -/
theorem measure_throws (n : ℕ) (cmin c : ℝ) (h : c < cmin) : phsMeasure n cmin c = none := by
  have hn : @LT.lt ℝ instNumRealP.toLT c cmin := (PhsR.lt_iff _ _).2 h
  rw [phsMeasure, if_pos hn]

/-- the PHS measure is positive for a nondegenerate PHS -/
theorem measure_pos (n : ℕ) (cmin c : ℝ) (h0 : 0 ≤ cmin) (h : cmin < c) :
    ∃ m, phsMeasure n cmin c = some m ∧ 0 < m := by
  refine ⟨_, measure_formula n cmin c h.le, ?_⟩
  have hc : 0 < c := lt_of_le_of_lt h0 h
  have hs : 0 < Real.sqrt (c ^ 2 - cmin ^ 2) := Real.sqrt_pos.2 (by nlinarith)
  have := unitNBall_pos n
  positivity

/-! ### overlap rejection (finite version)

`ι` = regions (the PHSs), `κ` = cells of a finite partition fine enough that every region is a union
of cells, `μ j` = measure of cell `j`, `S i` = cells of region `i`.  The sampler picks region `i` with
probability `m i / M`, then (uniformly in the region) cell `j ∈ S i` with probability `μ j / m i`,
then keeps the point with probability `1 / k j`, `k j` = number of regions containing cell `j`. -/

section overlap
variable {ι κ : Type} [Fintype ι] [DecidableEq κ]

/-- measure of region `i` -/
def regionMass (μ : κ → ℝ) (S : ι → Finset κ) (i : ι) : ℝ := ∑ j ∈ S i, μ j

/-- summed measure of the regions (overlaps counted with multiplicity) -/
def totalMass (μ : κ → ℝ) (S : ι → Finset κ) : ℝ := ∑ i, regionMass μ S i

/-- number of regions containing cell `j` -/
def cover (S : ι → Finset κ) (j : κ) : ℕ := (Finset.univ.filter (fun i => j ∈ S i)).card

/-- probability that one iteration ends with an accepted point in cell `j` -/
noncomputable def acceptMass (μ : κ → ℝ) (S : ι → Finset κ) (j : κ) : ℝ :=
  ∑ i, if j ∈ S i then
    (regionMass μ S i / totalMass μ S) * (μ j / regionMass μ S i) * (1 / (cover S j : ℝ)) else 0

/-- probability that one iteration proposes a point in cell `j` (no rejection step) -/
noncomputable def proposeMass (μ : κ → ℝ) (S : ι → Finset κ) (j : κ) : ℝ :=
  ∑ i, if j ∈ S i then (regionMass μ S i / totalMass μ S) * (μ j / regionMass μ S i) else 0

/-- sum of a constant over the regions containing `j` -/
theorem sum_cover (S : ι → Finset κ) (j : κ) (x : ℝ) :
    (∑ i, if j ∈ S i then x else 0) = (cover S j : ℝ) * x := by
  rw [Finset.sum_ite, Finset.sum_const_zero, add_zero, Finset.sum_const, nsmul_eq_mul, cover]

omit [DecidableEq κ] in
/-- picking region `i` then cell `j` in it has probability `μ j / M` whatever the region -/
theorem pick_mass (μ : κ → ℝ) (S : ι → Finset κ) (hm : ∀ i, 0 < regionMass μ S i) (i : ι) (j : κ) :
    (regionMass μ S i / totalMass μ S) * (μ j / regionMass μ S i) = μ j / totalMass μ S := by
  rw [div_mul_div_comm, mul_comm (regionMass μ S i), mul_div_mul_right _ _ (hm i).ne']

/-- With the `1 / k` rejection step every covered cell receives mass `μ j / M`. -/
theorem overlap_rejection_uniform (μ : κ → ℝ) (S : ι → Finset κ)
    (hm : ∀ i, 0 < regionMass μ S i) (j : κ) (hk : 0 < cover S j) :
    acceptMass μ S j = μ j / totalMass μ S := by
  have hk' : (cover S j : ℝ) ≠ 0 := Nat.cast_ne_zero.2 hk.ne'
  unfold acceptMass
  simp only [pick_mass μ S hm]
  rw [sum_cover, mul_comm (μ j / totalMass μ S), ← mul_assoc, mul_one_div_cancel hk', one_mul]

/-- Hence the accepted density is the same constant `1 / M` on every covered cell. -/
theorem overlap_rejection_density (μ : κ → ℝ) (S : ι → Finset κ)
    (hm : ∀ i, 0 < regionMass μ S i) (j : κ) (hμ : 0 < μ j) (hk : 0 < cover S j) :
    acceptMass μ S j / μ j = 1 / totalMass μ S := by
  rw [overlap_rejection_uniform μ S hm j hk, div_div, mul_comm, ← div_div, div_self hμ.ne']

/-- An uncovered cell is never produced. -/
theorem overlap_rejection_uncovered (μ : κ → ℝ) (S : ι → Finset κ) (j : κ) (hk : cover S j = 0) :
    acceptMass μ S j = 0 := by
  unfold acceptMass
  refine Finset.sum_eq_zero fun i _ => ?_
  rw [hk, Nat.cast_zero, div_zero, mul_zero, ite_self]

/-- Contrast: without the rejection step a cell covered `k` times receives `k` times the mass. -/
theorem no_rejection_mass (μ : κ → ℝ) (S : ι → Finset κ)
    (hm : ∀ i, 0 < regionMass μ S i) (j : κ) :
    proposeMass μ S j = (cover S j : ℝ) * μ j / totalMass μ S := by
  unfold proposeMass
  simp only [pick_mass μ S hm]
  rw [sum_cover, mul_div_assoc]

/-- the setting is satisfiable: two regions `{0,1}`, `{1,2}` over three unit cells; the middle cell
is covered twice -/
example :
    let μ : Fin 3 → ℝ := fun _ => 1
    let S : Fin 2 → Finset (Fin 3) := fun i => if i = 0 then {0, 1} else {1, 2}
    (∀ j, 0 < μ j) ∧ (∀ i, 0 < regionMass μ S i) ∧ cover S 1 = 2 ∧ cover S 0 = 1 := by
  intro μ S
  refine ⟨fun _ => one_pos, ?_, by decide, by decide⟩
  intro i
  fin_cases i <;> simp [-PhsR.ofNat_lit, regionMass, μ, S]

end overlap

end PhsMeasure
end OmplModel.Phs
