import OmplModel.Model.HeapAudit
import OmplModel.Model.HeapPos
import OmplModel.Proofs.Heap
/-! The Bool audits of `Model/HeapAudit.lean` decide the proved invariants of `Proofs/Heap.lean`
(`HeapInv`, `PosSync`, "top is a minimum", `Sorted`).  Core Lean only. -/
namespace OmplModel.Heap
variable {κ : Type}

theorem edgeOk_iff (lt : κ → κ → Bool) (a : Array (Elem κ)) (c : Nat) :
    edgeOk lt a c = true ↔
      ∀ (hc : c < a.size), (h0 : 0 < c) → lt a[c].key (a[(c - 1) / 2]'(by omega)).key = false := by
  unfold edgeOk
  split
  · rename_i h
    constructor
    · intro hb _ _
      cases hq : lt a[c].key (a[(c - 1) / 2]'(by omega)).key
      · rfl
      · simp [hq] at hb
    · intro H
      simp [H h.2 h.1]
  · rename_i h
    constructor
    · intro _ hc h0; exact absurd ⟨h0, hc⟩ h
    · intro _; rfl

/-- **the Bool audit decides the proved invariant** -/
theorem heapOrdered_iff_inv' (lt : κ → κ → Bool) (a : Array (Elem κ)) :
    heapOrdered lt a = true ↔ HeapInv lt a := by
  unfold heapOrdered
  rw [List.all_eq_true]
  constructor
  · intro H c hc h0 _
    exact (edgeOk_iff lt a c).mp (H c (List.mem_range.mpr hc)) hc h0
  · intro H c _
    exact (edgeOk_iff lt a c).mpr (fun hc h0 => H c hc h0 (Nat.zero_le _))

theorem posConsistent_iff' (a : Array (Elem κ)) (pos : Array Nat) :
    posConsistent a pos = true ↔ PosSync a pos := by
  unfold posConsistent PosSync
  rw [List.all_eq_true]
  constructor
  · intro H i hi
    have := H i (List.mem_range.mpr hi)
    simp only [hi, ↓reduceDIte, Bool.and_eq_true, decide_eq_true_eq, beq_iff_eq] at this
    exact this
  · intro H i hm
    have hi := List.mem_range.mp hm
    simp only [hi, ↓reduceDIte, Bool.and_eq_true, decide_eq_true_eq, beq_iff_eq]
    exact H i hi

theorem topIsMin_iff' (lt : κ → κ → Bool) (a : Array (Elem κ)) :
    topIsMin lt a = true ↔ ∀ i, (hi : i < a.size) → lt a[i].key (a[0]'(by omega)).key = false := by
  unfold topIsMin
  split
  · rename_i h0
    rw [List.all_eq_true]
    constructor
    · intro H i hi
      have := H a[i] (by simp)
      cases hq : lt a[i].key a[0].key
      · rfl
      · simp [hq] at this
    · intro H e he
      obtain ⟨i, hi, rfl⟩ := List.getElem_of_mem he
      simp only [Array.length_toList] at hi
      simp [H i hi]
  · rename_i h0
    constructor
    · intro _ i hi; omega
    · intro _; rfl

theorem sorted_of_sortedB {lt : κ → κ → Bool} (h : SWO lt) (l : List (Elem κ)) (H : sortedB lt l = true) :
    Sorted lt l := by
  have hN := h.negtrans
  unfold Sorted
  induction l with
  | nil => exact List.Pairwise.nil
  | cons x rest ih =>
    cases rest with
    | nil => exact List.pairwise_singleton _ _
    | cons y rest2 =>
      simp only [sortedB, Bool.and_eq_true, Bool.not_eq_true'] at H
      have ih' := ih H.2
      have ih2 := List.pairwise_cons.mp ih'
      rw [List.pairwise_cons]
      refine ⟨?_, ih'⟩
      intro z hz
      rcases List.mem_cons.mp hz with rfl | hz
      · exact H.1
      · exact hN _ _ _ (ih2.1 z hz) H.1

theorem sortedB_of_sorted (lt : κ → κ → Bool) (l : List (Elem κ)) (H : Sorted lt l) : sortedB lt l = true := by
  unfold Sorted at H
  induction l with
  | nil => rfl
  | cons x rest ih =>
    cases rest with
    | nil => rfl
    | cons y rest2 =>
      rw [List.pairwise_cons] at H
      simp only [sortedB, Bool.and_eq_true, Bool.not_eq_true']
      exact ⟨H.1 y (by simp), ih H.2⟩

/-- a false audit names a concrete heap edge that is violated -/
theorem bad_edge_of_not_heapOrdered (lt : κ → κ → Bool) (a : Array (Elem κ)) (H : heapOrdered lt a = false) :
    ∃ c, ∃ (hc : c < a.size), ∃ (_h0 : 0 < c), lt a[c].key (a[(c - 1) / 2]'(by omega)).key = true := by
  unfold heapOrdered at H
  have : ¬ (List.range a.size).all (edgeOk lt a) = true := by simp [H]
  rw [List.all_eq_true] at this
  have ⟨c, hc⟩ : ∃ c, c ∈ List.range a.size ∧ ¬ edgeOk lt a c = true := by
    apply Classical.byContradiction
    intro hne
    apply this
    intro c hm
    apply Classical.byContradiction
    intro hcn
    exact hne ⟨c, hm, hcn⟩
  obtain ⟨hm, hbad⟩ := hc
  have hcs := List.mem_range.mp hm
  unfold edgeOk at hbad
  split at hbad
  · rename_i hh
    refine ⟨c, hh.2, hh.1, ?_⟩
    cases hq : lt a[c].key (a[(c - 1) / 2]'(by omega)).key
    · simp [hq] at hbad
    · rfl
  · exact absurd rfl hbad

/-! ### the user's side: `setKey` is "poke, then update(handle)" -/

theorem setKey_eq_poke_update (lt : κ → κ → Bool) (s : Heap κ) (hd : Nat) (k : κ) :
    s.setKey lt hd k = (s.poke hd k).update lt hd := by
  unfold Heap.setKey Heap.poke Heap.update
  simp only [pokeAll]
  cases hf : findIdx s.arr hd with
  | none => simp [hf]
  | some p =>
    obtain ⟨hps, hh⟩ := findIdx_spec _ _ _ hf
    simp only [hps, ↓reduceDIte]
    have e1 : s.arr.setIfInBounds p ⟨hd, k⟩ = s.arr.set p ⟨hd, k⟩ hps := by simp [Array.setIfInBounds, hps]
    rw [e1]
    -- the handle is still found at the same slot after the poke
    have hf2 : findIdx (s.arr.set p ⟨hd, k⟩ hps) hd = some p := by
      unfold findIdx at hf ⊢
      rw [Array.findIdx?_eq_some_iff_getElem] at hf ⊢
      obtain ⟨_, h1, h2⟩ := hf
      refine ⟨by simpa using hps, by simp, ?_⟩
      intro j hj
      have := h2 j hj
      have hne : p ≠ j := by omega
      simpa [Array.getElem_set, hne] using this
    simp [hf2]

end OmplModel.Heap
