import OmplModel.Model.HeapAudit
import OmplModel.Model.HeapPos
import OmplModel.Proofs.Heap
/-! The Bool audits of `Model/HeapAudit.lean` decide the proved invariants of `Proofs/Heap.lean`
(`HeapInv`, `PosSync`, "top is a minimum", `Sorted`).  Core Lean only. -/
namespace OmplModel.Heap
variable {κ : Type}

theorem edgeOk_iff (lt : κ → κ → Bool) (a : Array (Elem κ)) (c : Nat) :
    edgeOk lt a c = true ↔
      ∀ (hc : c < a.size), (h0 : 0 < c) → lt a[c].key (a[(c - 1) / 2]'(by omega)).key = false := by
  unfold edgeOk
  split
  · rename_i h
    constructor
    · intro hb _ _
      cases hq : lt a[c].key (a[(c - 1) / 2]'(by omega)).key
      · rfl
      · simp [hq] at hb
    · intro H
      simp [H h.2 h.1]
  · rename_i h
    constructor
    · intro _ hc h0; exact absurd ⟨h0, hc⟩ h
    · intro _; rfl

/-- **the Bool audit decides the proved invariant** -/
theorem heapOrdered_iff_inv' (lt : κ → κ → Bool) (a : Array (Elem κ)) :
    heapOrdered lt a = true ↔ HeapInv lt a := by
  unfold heapOrdered
  rw [List.all_eq_true]
  constructor
  · intro H c hc h0 _
    exact (edgeOk_iff lt a c).mp (H c (List.mem_range.mpr hc)) hc h0
  · intro H c _
    exact (edgeOk_iff lt a c).mpr (fun hc h0 => H c hc h0 (Nat.zero_le _))

theorem posConsistent_iff' (a : Array (Elem κ)) (pos : Array Nat) :
    posConsistent a pos = true ↔ PosSync a pos := by
  unfold posConsistent PosSync
  rw [List.all_eq_true]
  constructor
  · intro H i hi
    have := H i (List.mem_range.mpr hi)
    simp only [hi, ↓reduceDIte, Bool.and_eq_true, decide_eq_true_eq, beq_iff_eq] at this
    exact this
  · intro H i hm
    have hi := List.mem_range.mp hm
    simp only [hi, ↓reduceDIte, Bool.and_eq_true, decide_eq_true_eq, beq_iff_eq]
    exact H i hi

theorem topIsMin_iff' (lt : κ → κ → Bool) (a : Array (Elem κ)) :
    topIsMin lt a = true ↔ ∀ i, (hi : i < a.size) → lt a[i].key (a[0]'(by omega)).key = false := by
  unfold topIsMin
  split
  · rename_i h0
    rw [List.all_eq_true]
    constructor
    · intro H i hi
      have := H a[i] (by simp)
      cases hq : lt a[i].key a[0].key
      · rfl
      · simp [hq] at this
    · intro H e he
      obtain ⟨i, hi, rfl⟩ := List.getElem_of_mem he
      simp only [Array.length_toList] at hi
      simp [H i hi]
  · rename_i h0
    constructor
    · intro _ i hi; omega
    · intro _; rfl

theorem sorted_of_sortedB {lt : κ → κ → Bool} (h : SWO lt) (l : List (Elem κ)) (H : sortedB lt l = true) :
    Sorted lt l := by
  have hN := h.negtrans
  unfold Sorted
  induction l with
  | nil => exact List.Pairwise.nil
  | cons x rest ih =>
    cases rest with
    | nil => exact List.pairwise_singleton _ _
    | cons y rest2 =>
      simp only [sortedB, Bool.and_eq_true, Bool.not_eq_true'] at H
      have ih' := ih H.2
      have ih2 := List.pairwise_cons.mp ih'
      rw [List.pairwise_cons]
      refine ⟨?_, ih'⟩
      intro z hz
      rcases List.mem_cons.mp hz with rfl | hz
      · exact H.1
      · exact hN _ _ _ (ih2.1 z hz) H.1

theorem sortedB_of_sorted (lt : κ → κ → Bool) (l : List (Elem κ)) (H : Sorted lt l) : sortedB lt l = true := by
  unfold Sorted at H
  induction l with
  | nil => rfl
  | cons x rest ih =>
    cases rest with
    | nil => rfl
    | cons y rest2 =>
      rw [List.pairwise_cons] at H
      simp only [sortedB, Bool.and_eq_true, Bool.not_eq_true']
      exact ⟨H.1 y (by simp), ih H.2⟩

/-- a false audit names a concrete heap edge that is violated -/
theorem bad_edge_of_not_heapOrdered (lt : κ → κ → Bool) (a : Array (Elem κ)) (H : heapOrdered lt a = false) :
    ∃ c, ∃ (hc : c < a.size), ∃ (_h0 : 0 < c), lt a[c].key (a[(c - 1) / 2]'(by omega)).key = true := by
  unfold heapOrdered at H
  have : ¬ (List.range a.size).all (edgeOk lt a) = true := by simp [H]
  rw [List.all_eq_true] at this
  have ⟨c, hc⟩ : ∃ c, c ∈ List.range a.size ∧ ¬ edgeOk lt a c = true := by
    apply Classical.byContradiction
    intro hne
    apply this
    intro c hm
    apply Classical.byContradiction
    intro hcn
    exact hne ⟨c, hm, hcn⟩
  obtain ⟨hm, hbad⟩ := hc
  have hcs := List.mem_range.mp hm
  unfold edgeOk at hbad
  split at hbad
  · rename_i hh
    refine ⟨c, hh.2, hh.1, ?_⟩
    cases hq : lt a[c].key (a[(c - 1) / 2]'(by omega)).key
    · simp [hq] at hbad
    · rfl
  · exact absurd rfl hbad

/-! ### the user's side: `setKey` is "poke, then update(handle)" -/

theorem setKey_eq_poke_update (lt : κ → κ → Bool) (s : Heap κ) (hd : Nat) (k : κ) :
    s.setKey lt hd k = (s.poke hd k).update lt hd := by
  unfold Heap.setKey Heap.poke Heap.update
  simp only [pokeAll]
  cases hf : findIdx s.arr hd with
  | none => simp [hf]
  | some p =>
    obtain ⟨hps, hh⟩ := findIdx_spec _ _ _ hf
    simp only [hps, ↓reduceDIte]
    have e1 : s.arr.setIfInBounds p ⟨hd, k⟩ = s.arr.set p ⟨hd, k⟩ hps := by simp [Array.setIfInBounds, hps]
    rw [e1]
    -- the handle is still found at the same slot after the poke
    have hf2 : findIdx (s.arr.set p ⟨hd, k⟩ hps) hd = some p := by
      unfold findIdx at hf ⊢
      rw [Array.findIdx?_eq_some_iff_getElem] at hf ⊢
      obtain ⟨_, h1, h2⟩ := hf
      refine ⟨by simpa using hps, by simp, ?_⟩
      intro j hj
      have := h2 j hj
      have hne : p ≠ j := by omega
      simpa [Array.getElem_set, hne] using this
    simp [hf2]

/-! ### key abstraction (ranks)

If `f` carries the order (`lt' (f x) (f y) = lt x y`) then sifting, removal, the pop loop and every audit commute with
`mapKey f`: judging the rank vector of a dump is judging the dump. -/
section Map
variable {κ' : Type}

@[simp] theorem size_mapKey (f : κ → κ') (a : Array (Elem κ)) : (mapKey f a).size = a.size := by simp [mapKey]
@[simp] theorem getElem_mapKey (f : κ → κ') (a : Array (Elem κ)) (i : Nat) (h : i < (mapKey f a).size) :
    (mapKey f a)[i] = ⟨(a[i]'(by simpa using h)).h, f (a[i]'(by simpa using h)).key⟩ := by simp [mapKey]

theorem mapKey_swap (f : κ → κ') (a : Array (Elem κ)) (i j : Nat) (hi : i < a.size) (hj : j < a.size) :
    (mapKey f a).swap i j (by simpa using hi) (by simpa using hj) = mapKey f (a.swap i j hi hj) := by
  apply Array.ext
  · simp
  · intro k h1 h2
    simp only [Array.getElem_swap, getElem_mapKey]
    split
    · rfl
    · split <;> rfl

theorem siftUp_map (lt : κ → κ → Bool) (lt' : κ' → κ' → Bool) (f : κ → κ') (hf : ∀ x y, lt' (f x) (f y) = lt x y)
    (a : Array (Elem κ)) (i : Nat) : siftUp lt' (mapKey f a) i = mapKey f (siftUp lt a i) := by
  fun_induction siftUp lt a i with
  | case1 a i hi hlt ih =>
    rw [siftUp]
    have hi' : 0 < i ∧ i < (mapKey f a).size := by simpa using hi
    simp only [hi', and_self, ↓reduceDIte, getElem_mapKey, hf, hlt, ↓reduceIte]
    rw [mapKey_swap f a i ((i-1)/2) hi.2 (by omega)]
    exact ih
  | case2 a i hi hlt =>
    rw [siftUp]
    have hi' : 0 < i ∧ i < (mapKey f a).size := by simpa using hi
    simp [hi', hf, hlt]
  | case3 a i hi =>
    rw [siftUp]
    have hi' : ¬ (0 < i ∧ i < (mapKey f a).size) := by simpa using hi
    rw [dif_neg hi']

theorem siftDown_map (lt : κ → κ → Bool) (lt' : κ' → κ' → Bool) (f : κ → κ') (hf : ∀ x y, lt' (f x) (f y) = lt x y)
    (a : Array (Elem κ)) (i : Nat) : siftDown lt' (mapKey f a) i = mapKey f (siftDown lt a i) := by
  fun_induction siftDown lt a i with
  | case1 a i h2 hlr hlt ih =>
    rw [siftDown]
    have h2' : 2 * i + 2 < (mapKey f a).size := by simpa using h2
    simp only [h2', ↓reduceDIte, getElem_mapKey, hf, hlr, hlt, ↓reduceIte]
    rw [mapKey_swap f a (2 * i + 1) i (by omega) (by omega)]
    exact ih
  | case2 a i h2 hlr hlt =>
    rw [siftDown]
    have h2' : 2 * i + 2 < (mapKey f a).size := by simpa using h2
    simp only [h2', ↓reduceDIte, getElem_mapKey, hf, hlr, hlt, ↓reduceIte]
    simp
  | case3 a i h2 hlr hlt ih =>
    rw [siftDown]
    have h2' : 2 * i + 2 < (mapKey f a).size := by simpa using h2
    simp only [h2', ↓reduceDIte, getElem_mapKey, hf, hlr, hlt, ↓reduceIte]
    rw [mapKey_swap f a (2 * i + 2) i (by omega) (by omega)]
    exact ih
  | case4 a i h2 hlr hlt =>
    rw [siftDown]
    have h2' : 2 * i + 2 < (mapKey f a).size := by simpa using h2
    simp only [h2', ↓reduceDIte, getElem_mapKey, hf, hlr, hlt]
    simp
  | case5 a i h2 h3 hlt =>
    rw [siftDown]
    have h2' : ¬ 2 * i + 2 < (mapKey f a).size := by simpa using h2
    have h3' : 2 * i + 1 < (mapKey f a).size := by simpa using h3
    simp only [h2', h3', ↓reduceDIte, getElem_mapKey, hf, hlt, ↓reduceIte]
    exact mapKey_swap f a (2 * i + 1) i (by omega) (by omega)
  | case6 a i h2 h3 hlt =>
    rw [siftDown]
    have h2' : ¬ 2 * i + 2 < (mapKey f a).size := by simpa using h2
    have h3' : 2 * i + 1 < (mapKey f a).size := by simpa using h3
    simp only [h2', h3', ↓reduceDIte, getElem_mapKey, hf, hlt]
    simp
  | case7 a i h2 h3 =>
    rw [siftDown]
    have h2' : ¬ 2 * i + 2 < (mapKey f a).size := by simpa using h2
    have h3' : ¬ 2 * i + 1 < (mapKey f a).size := by simpa using h3
    rw [dif_neg h2', dif_neg h3']

theorem mapKey_pop (f : κ → κ') (a : Array (Elem κ)) : (mapKey f a).pop = mapKey f a.pop := by
  simp [mapKey]

theorem removePos_map (lt : κ → κ → Bool) (lt' : κ' → κ' → Bool) (f : κ → κ') (hf : ∀ x y, lt' (f x) (f y) = lt x y)
    (a : Array (Elem κ)) (p : Nat) : removePos lt' (mapKey f a) p = mapKey f (removePos lt a p) := by
  unfold removePos
  by_cases h : p + 1 < a.size
  · have h' : p + 1 < (mapKey f a).size := by simpa using h
    simp only [h, h', ↓reduceDIte]
    have e : (mapKey f a).size - 1 = a.size - 1 := by simp
    have := mapKey_swap f a p (a.size - 1) (by omega) (by omega)
    simp only [e]
    rw [this, mapKey_pop, siftUp_map lt lt' f hf, siftDown_map lt lt' f hf]
  · have h' : ¬ p + 1 < (mapKey f a).size := by simpa using h
    simp only [h, h', ↓reduceDIte]
    exact mapKey_pop f a

theorem drain_map (lt : κ → κ → Bool) (lt' : κ' → κ' → Bool) (f : κ → κ') (hf : ∀ x y, lt' (f x) (f y) = lt x y)
    (n : Nat) (a : Array (Elem κ)) :
    drain lt' n (mapKey f a) = (drain lt n a).map (fun e => ⟨e.h, f e.key⟩) := by
  induction n generalizing a with
  | zero => simp [drain]
  | succ n ih =>
    unfold drain
    by_cases h0 : 0 < a.size
    · have h0' : 0 < (mapKey f a).size := by simpa using h0
      simp only [h0, h0', ↓reduceDIte, List.map_cons, getElem_mapKey]
      rw [removePos_map lt lt' f hf, ih]
    · have h0' : ¬ 0 < (mapKey f a).size := by simpa using h0
      simp [h0]

theorem edgeOk_map (lt : κ → κ → Bool) (lt' : κ' → κ' → Bool) (f : κ → κ') (hf : ∀ x y, lt' (f x) (f y) = lt x y)
    (a : Array (Elem κ)) (c : Nat) : edgeOk lt' (mapKey f a) c = edgeOk lt a c := by
  unfold edgeOk
  by_cases h : 0 < c ∧ c < a.size
  · have h' : 0 < c ∧ c < (mapKey f a).size := by simpa using h
    simp [h, hf]
  · have h' : ¬ (0 < c ∧ c < (mapKey f a).size) := by simpa using h
    rw [dif_neg h, dif_neg h']

theorem heapOrdered_map (lt : κ → κ → Bool) (lt' : κ' → κ' → Bool) (f : κ → κ') (hf : ∀ x y, lt' (f x) (f y) = lt x y)
    (a : Array (Elem κ)) : heapOrdered lt' (mapKey f a) = heapOrdered lt a := by
  unfold heapOrdered
  simp only [size_mapKey]
  congr 1
  funext c
  exact edgeOk_map lt lt' f hf a c

theorem topIsMin_map (lt : κ → κ → Bool) (lt' : κ' → κ' → Bool) (f : κ → κ') (hf : ∀ x y, lt' (f x) (f y) = lt x y)
    (a : Array (Elem κ)) : topIsMin lt' (mapKey f a) = topIsMin lt a := by
  unfold topIsMin
  by_cases h0 : 0 < a.size
  · have h0' : 0 < (mapKey f a).size := by simpa using h0
    simp only [h0, h0', ↓reduceDIte, getElem_mapKey]
    simp [mapKey, List.all_map, hf, Function.comp_def]
  · have h0' : ¬ 0 < (mapKey f a).size := by simpa using h0
    rw [dif_neg h0, dif_neg h0']

theorem popAll_map (lt : κ → κ → Bool) (lt' : κ' → κ' → Bool) (f : κ → κ') (hf : ∀ x y, lt' (f x) (f y) = lt x y)
    (a : Array (Elem κ)) : popAll lt' (mapKey f a) = (popAll lt a).map (fun e => ⟨e.h, f e.key⟩) := by
  unfold popAll
  rw [size_mapKey]
  exact drain_map lt lt' f hf a.size a

end Map

end OmplModel.Heap
