import OmplModel.Proofs.DubinsReach
/-!
The reversed traversal of the symmetric Dubins variant, geometrically (C14, round 3), over ℝ:
driving the reversed word with the reversing step `stepRev` from the *end* of the forward curve for an arc
length `σ` arrives at the point of the forward curve at arc length `L − σ` (`reverse_traces_forward_curve`).
So when `interpolate` chooses the `to → from` path and drives it reversed, the state at `t` is the point at
`(1 − t)·L` of that path's own curve.
-/
namespace OmplModel.Dubins
open OmplModel DubinsR

attribute [-instance] Num.instOfNat

theorem integ_cons_pos (step : Seg → ℝ → Pose ℝ → Pose ℝ) (s : Seg) (l : ℝ) (rest : List (Seg × ℝ))
    (seg : ℝ) (P : Pose ℝ) (h : 0 < seg) :
    integ step ((s, l) :: rest) seg P = integ step rest (seg - min seg l) (step s (min seg l) P) := by
  have h' : @LT.lt ℝ instNumRealD.toLT (@OfNat.ofNat ℝ 0 (Num.instOfNat 0)) seg := by
    rw [ofNat_zero]; exact h
  simp only [integ, if_pos h', min_eq]

theorem integ_of_nonpos (step : Seg → ℝ → Pose ℝ → Pose ℝ) (segs : List (Seg × ℝ)) (seg : ℝ) (P : Pose ℝ)
    (h : seg ≤ 0) : integ step segs seg P = P := by
  cases segs with
  | nil => rfl
  | cons hd tl =>
    obtain ⟨s, l⟩ := hd
    have h' : ¬ @LT.lt ℝ instNumRealD.toLT (@OfNat.ofNat ℝ 0 (Num.instOfNat 0)) seg := by
      rw [ofNat_zero]; exact not_lt.mpr h
    simp only [integ, if_neg h']

theorem sum_nonneg' (segs : List (Seg × ℝ)) (hnn : ∀ x ∈ segs, 0 ≤ x.2) : 0 ≤ (segs.map Prod.snd).sum := by
  induction segs with
  | nil => simp
  | cons hd tl ih =>
    simp only [List.map_cons, List.sum_cons]
    have := hnn hd List.mem_cons_self
    have := ih (fun x hx => hnn x (List.mem_cons_of_mem _ hx))
    linarith

/-- with a budget that does not exceed the first part, the second part is never reached -/
theorem integ_append_le (step : Seg → ℝ → Pose ℝ → Pose ℝ) (l1 l2 : List (Seg × ℝ))
    (hnn : ∀ x ∈ l1, 0 ≤ x.2) (B : ℝ) (P : Pose ℝ) (hB : B ≤ (l1.map Prod.snd).sum) :
    integ step (l1 ++ l2) B P = integ step l1 B P := by
  induction l1 generalizing B P with
  | nil =>
    simp only [List.map_nil, List.sum_nil] at hB
    rw [List.nil_append, integ_of_nonpos _ _ _ _ hB, integ_of_nonpos _ _ _ _ hB]
  | cons hd tl ih =>
    obtain ⟨s, l⟩ := hd
    have hl : 0 ≤ l := hnn (s, l) List.mem_cons_self
    have htl : ∀ x ∈ tl, 0 ≤ x.2 := fun x hx => hnn x (List.mem_cons_of_mem _ hx)
    have hs := sum_nonneg' tl htl
    simp only [List.map_cons, List.sum_cons] at hB
    rcases lt_or_ge 0 B with hpos | hz
    · rw [List.cons_append, integ_cons_pos _ _ _ _ _ _ hpos, integ_cons_pos _ _ _ _ _ _ hpos]
      apply ih htl
      rcases le_total B l with h | h
      · rw [min_eq_left h]; linarith
      · rw [min_eq_right h]; linarith
    · rw [integ_of_nonpos _ _ _ _ hz, integ_of_nonpos _ _ _ _ hz]

/-- with a budget that covers the first part, the first part is driven fully -/
theorem integ_append_ge (step : Seg → ℝ → Pose ℝ → Pose ℝ) (h0 : ∀ s P, step s 0 P = P)
    (l1 l2 : List (Seg × ℝ)) (hnn : ∀ x ∈ l1, 0 ≤ x.2) (B : ℝ) (P : Pose ℝ)
    (hB : (l1.map Prod.snd).sum ≤ B) :
    integ step (l1 ++ l2) B P = integ step l2 (B - (l1.map Prod.snd).sum) (integFull step l1 P) := by
  induction l1 generalizing B P with
  | nil => simp [integFull]
  | cons hd tl ih =>
    obtain ⟨s, l⟩ := hd
    have hl : 0 ≤ l := hnn (s, l) List.mem_cons_self
    have htl : ∀ x ∈ tl, 0 ≤ x.2 := fun x hx => hnn x (List.mem_cons_of_mem _ hx)
    have hs := sum_nonneg' tl htl
    simp only [List.map_cons, List.sum_cons] at hB ⊢
    rcases lt_or_ge 0 B with hpos | hz
    · rw [List.cons_append, integ_cons_pos _ _ _ _ _ _ hpos, min_eq_right (by linarith)]
      rw [ih htl (B - l) _ (by linarith)]
      simp only [integFull]
      congr 1; ring
    · -- B = 0, every length is 0: nothing moves
      have hl0 : l = 0 := by linarith
      have hs0 : (tl.map Prod.snd).sum = 0 := by linarith
      have hB0 : B = 0 := by linarith
      subst hl0
      have key := ih htl 0 (step s 0 P) (by linarith)
      rw [integ_of_nonpos _ _ _ _ (le_refl 0), hs0, sub_zero, integ_of_nonpos _ _ _ _ (le_refl 0)] at key
      rw [integ_of_nonpos _ _ _ _ hz]
      simp only [integFull]
      rw [← key, h0, hB0, hs0]
      simp only [zero_add, sub_zero]
      rw [integ_of_nonpos _ _ _ _ (le_refl 0)]

/-- `stepRev` is `stepFwd` with the length negated -/
theorem stepRev_eq_neg (s : Seg) (v : ℝ) (P : Pose ℝ) : stepRev s v P = stepFwd s (-v) P := by
  obtain ⟨x, y, th⟩ := P
  cases s
  · show Pose.mk (x + Real.sin (th - v) - Real.sin th) (y - Real.cos (th - v) + Real.cos th) (th - v) =
      Pose.mk (x + Real.sin (th + -v) - Real.sin th) (y - Real.cos (th + -v) + Real.cos th) (th + -v)
    have e : th - v = th + -v := sub_eq_add_neg _ _
    rw [e]
  · show Pose.mk (x - v * Real.cos th) (y - v * Real.sin th) th =
      Pose.mk (x + -v * Real.cos th) (y + -v * Real.sin th) th
    congr 1 <;> ring
  · show Pose.mk (x - Real.sin (th + v) + Real.sin th) (y + Real.cos (th + v) - Real.cos th) (th + v) =
      Pose.mk (x - Real.sin (th - -v) + Real.sin th) (y + Real.cos (th - -v) - Real.cos th) (th - -v)
    have e : th - -v = th + v := sub_neg_eq_add _ _
    rw [e]

/-- backing up by `v` after driving `l` forwards along the same letter is driving `l − v` forwards -/
theorem stepRev_after_stepFwd (s : Seg) (l v : ℝ) (P : Pose ℝ) :
    stepRev s v (stepFwd s l P) = stepFwd s (l - v) P := by
  rw [stepRev_eq_neg, ← stepFwd_add, sub_eq_add_neg]

/-- **the reversed traversal moves backwards along the forward curve**: for a word with non-negative lengths
of total length `L` and `0 ≤ σ ≤ L`, driving the reversed word with `stepRev` for `σ` from the end of the
forward curve arrives at the forward curve's point at arc length `L − σ`. -/
theorem reverse_traces_forward_curve (segs : List (Seg × ℝ)) (hnn : ∀ x ∈ segs, 0 ≤ x.2) (Q : Pose ℝ)
    (σ : ℝ) (h0 : 0 ≤ σ) (h1 : σ ≤ (segs.map Prod.snd).sum) :
    integ stepRev segs.reverse σ (integFull stepFwd segs Q) =
      integ stepFwd segs ((segs.map Prod.snd).sum - σ) Q := by
  induction segs generalizing Q σ with
  | nil =>
    simp only [List.map_nil, List.sum_nil] at h1 ⊢
    rw [List.reverse_nil, integ_of_nonpos _ _ _ _ h1]; rfl
  | cons hd tl ih =>
    obtain ⟨s, l⟩ := hd
    have hl : 0 ≤ l := hnn (s, l) List.mem_cons_self
    have htl : ∀ x ∈ tl, 0 ≤ x.2 := fun x hx => hnn x (List.mem_cons_of_mem _ hx)
    have hs := sum_nonneg' tl htl
    have hrevnn : ∀ x ∈ tl.reverse, 0 ≤ x.2 := fun x hx => htl x (List.mem_reverse.mp hx)
    have hrevsum : (tl.reverse.map Prod.snd).sum = (tl.map Prod.snd).sum := by
      rw [List.map_reverse, List.sum_reverse]
    simp only [List.map_cons, List.sum_cons] at h1 ⊢
    rw [List.reverse_cons]
    show integ stepRev (tl.reverse ++ [(s, l)]) σ (integFull stepFwd tl (stepFwd s l Q)) = _
    rcases le_or_gt σ (tl.map Prod.snd).sum with hle | hgt
    · -- the reversed traversal stays inside the tail
      rw [integ_append_le _ _ _ hrevnn _ _ (by rw [hrevsum]; exact hle), ih htl _ _ h0 hle]
      rcases lt_or_ge 0 (l + (tl.map Prod.snd).sum - σ) with hpos | hz
      · rw [integ_cons_pos _ _ _ _ _ _ hpos, min_eq_right (by linarith)]
        congr 1; ring
      · have hl0 : l = 0 := by linarith
        have hz' : (tl.map Prod.snd).sum - σ ≤ 0 := by linarith
        rw [integ_of_nonpos _ _ _ _ hz, integ_of_nonpos _ _ _ _ hz', hl0, stepFwd_zero]
    · -- the tail is retraced completely, then part of the head segment
      rw [integ_append_ge stepRev stepRev_zero _ _ hrevnn _ _ (by rw [hrevsum]; exact hgt.le), hrevsum,
        integFull_rev_retraces]
      have hpos : 0 < σ - (tl.map Prod.snd).sum := by linarith
      rw [integ_cons_pos _ _ _ _ _ _ hpos, min_eq_left (by linarith)]
      rw [integ_of_nonpos _ _ _ _ (by linarith), stepRev_after_stepFwd]
      rcases lt_or_ge 0 (l + (tl.map Prod.snd).sum - σ) with hp | hz
      · rw [integ_cons_pos _ _ _ _ _ _ hp, min_eq_left (by linarith),
          integ_of_nonpos _ _ _ _ (by linarith)]
        congr 1; ring
      · rw [integ_of_nonpos _ _ _ _ hz]
        have : l - (σ - (tl.map Prod.snd).sum) = 0 := by linarith
        rw [this, stepFwd_zero]

end OmplModel.Dubins
