import OmplModel.Model.Oracle
/-!
Oracle-machine lemmas (DESIGN 1.4), all arithmetic-free.

* `transcript_answers`: every answer in the transcript is the environment's answer.
* `run_congr`: environments that agree on the questions a run asked give the same run.
* `unasked_flip`: changing the answer to a question that was never asked changes nothing.
* `undisciplined_refutable`: a whole *stretch* of never-asked points can be made invalid without
  changing transcript or output (necessity of the discipline).
* `checked_points_valid`, `checked_motion_passes`: what the transcript answered valid *is* valid in
  the run's environment, and an edge whose subdivision points were all answered valid passes
  `checkMotion` again (sufficiency, strict form).
* `discipline_sound`: if the answered-valid indices along an edge are dense (consecutive ones
  `near`), every all-invalid stretch of the edge (among the indexed curve points) is `near`
  (sufficiency, gap form).  Curve length enters only as the abstract relation `near a b`
  ("the stretch from index a to index b is at most g long"), required to be monotone under
  shrinking the stretch.
-/
namespace OmplModel.Oracle

variable {Q A Out : Type}

theorem transcript_answers (env : Q → A) (c : Comp Q A Out) :
    ∀ qa ∈ (run env c).1, qa.2 = env qa.1 := by
  induction c with
  | done o => intro qa h; simp [run] at h
  | ask q k ih =>
    intro qa h
    simp only [run, List.mem_cons] at h
    rcases h with rfl | h
    · rfl
    · exact ih _ qa h

/-- environments agreeing on the asked questions give the same transcript and output -/
theorem run_congr (e1 e2 : Q → A) (c : Comp Q A Out)
    (h : ∀ q ∈ asked e1 c, e2 q = e1 q) : run e2 c = run e1 c := by
  induction c with
  | done o => rfl
  | ask q k ih =>
    have hq : e2 q = e1 q := h q (by simp [asked, run])
    have ih' := ih (e1 q) (by
      intro q' hq'
      apply h
      simp only [asked, run, List.map_cons, List.mem_cons]
      exact Or.inr hq')
    simp only [run, hq, ih']

theorem unasked_flip [DecidableEq Q] (env : Q → A) (c : Comp Q A Out) (q0 : Q) (a0 : A)
    (h : q0 ∉ asked env c) : run (flip env q0 a0) c = run env c := by
  apply run_congr
  intro q hq
  unfold flip
  split
  · next heq => subst heq; exact absurd hq h
  · rfl

/-- **Necessity of the discipline.**  If the run never asked about any point of the stretch `S`,
then in the environment that differs from the original exactly on `S` (where it answers `bad`:
an obstacle covering the stretch) the same computation yields the same transcript and the same
output.  So no planner can vouch for stretches it did not query. -/
theorem undisciplined_refutable (S : Q → Bool) (bad : A) (env : Q → A) (c : Comp Q A Out)
    (h : ∀ q ∈ asked env c, S q = false) :
    run (blockOn S bad env) c = run env c ∧
      (∀ q, S q = true → blockOn S bad env q = bad) ∧
      (∀ q, S q = false → blockOn S bad env q = env q) := by
  refine ⟨?_, ?_, ?_⟩
  · apply run_congr
    intro q hq
    simp [blockOn, h q hq]
  · intro q hq; simp [blockOn, hq]
  · intro q hq; simp [blockOn, hq]

/-- the same along a curve: `γ` maps curve parameters to states, `I` is a stretch of parameters
(abstractly `Long`, e.g. "longer than g"); if no point of the stretch was asked there is an
environment with the same run in which the whole stretch is invalid. -/
theorem undisciplined_refutable_curve {ι : Type} (γ : ι → Q) (Long : (ι → Prop) → Prop)
    (env : Q → Bool) (c : Comp Q Bool Out)
    (h : ∃ I : ι → Prop, Long I ∧ ∀ t, I t → γ t ∉ asked env c) :
    ∃ env' : Q → Bool, run env' c = run env c ∧ ∃ I : ι → Prop, Long I ∧ ∀ t, I t → env' (γ t) = false := by
  classical
  obtain ⟨I, hL, hI⟩ := h
  refine ⟨blockOn (fun q => decide (∃ t, I t ∧ γ t = q)) false env, ?_, I, hL, ?_⟩
  · refine (undisciplined_refutable _ false env c ?_).1
    intro q hq
    simp only [decide_eq_false_iff_not, not_exists, not_and]
    intro t ht heq
    exact hI t ht (heq ▸ hq)
  · intro t ht
    have : decide (∃ t', I t' ∧ γ t' = γ t) = true := by
      simp only [decide_eq_true_eq]; exact ⟨t, ht, rfl⟩
    simp [blockOn, this]

/-- **What was answered valid is valid** in the run's environment. -/
theorem checked_points_valid (env : Q → Bool) (c : Comp Q Bool Out) (q : Q)
    (h : (q, true) ∈ (run env c).1) : env q = true :=
  (transcript_answers env c (q, true) h).symm

/-- **Strict discipline is sufficient**: a reported edge `(a, b)` all of whose subdivision points
(`b` and `interpolate(a,b,j/n)`, `0 < j < n`) were answered valid by the transcript passes the
motion check again in the run's environment. -/
theorem checked_motion_passes (env : Q → Bool) (c : Comp Q Bool Out)
    (interp : Q → Q → Nat → Nat → Q) (segCount : Q → Q → Nat) (a b : Q)
    (h : ∀ p ∈ motionPoints interp segCount a b, (p, true) ∈ (run env c).1) :
    checkMotion env interp segCount a b = true := by
  unfold checkMotion
  rw [List.all_eq_true]
  intro p hp
  exact checked_points_valid env c p (h p hp)

/-- conversely a passed motion check means every one of its points is valid -/
theorem checkMotion_points (valid : Q → Bool) (interp : Q → Q → Nat → Nat → Q) (segCount : Q → Q → Nat)
    (a b : Q) (h : checkMotion valid interp segCount a b = true) :
    valid b = true ∧ ∀ j, 0 < j → j < segCount a b → valid (interp a b j (segCount a b)) = true := by
  unfold checkMotion motionPoints at h
  rw [List.all_eq_true] at h
  refine ⟨h b (by simp), ?_⟩
  intro j hj0 hjn
  apply h
  simp only [List.mem_cons, List.mem_map, List.mem_range]
  exact Or.inr ⟨j - 1, by omega, by congr 1; omega⟩

/-- consecutive elements increase and are `near` -/
def Dense (near : Nat → Nat → Prop) : List Nat → Prop
  | [] => True
  | [_] => True
  | a :: b :: r => a < b ∧ near a b ∧ Dense near (b :: r)

/-- **Gap discipline is sufficient.**  Curve points are indexed by `Nat` (any fine subdivision of
the edge); `c0 :: cs` are the indices the transcript answered valid, increasing, consecutive ones
`near` (at most `g` apart in curve length).  Then every stretch `[x, y]` of the edge all of whose
indexed points are invalid in the run's environment is `near` as well: no invalid stretch longer
than `g`. -/
theorem discipline_sound (env : Q → Bool) (c : Comp Q Bool Out) (pt : Nat → Q)
    (near : Nat → Nat → Prop)
    (hmono : ∀ a b a' b', near a b → a ≤ a' → b' ≤ b → near a' b')
    (cs : List Nat) (c0 : Nat) (hd : Dense near (c0 :: cs))
    (hvalid : ∀ i ∈ c0 :: cs, (pt i, true) ∈ (run env c).1)
    (x y : Nat) (hx : c0 ≤ x) (hxy : x ≤ y) (hy : y ≤ (c0 :: cs).getLast (by simp))
    (hinv : ∀ i, x ≤ i → i ≤ y → env (pt i) = false) : near x y := by
  induction cs generalizing c0 with
  | nil =>
    simp only [List.getLast_singleton] at hy
    have hv := checked_points_valid env c _ (hvalid c0 (by simp))
    have := hinv c0 (by omega) (by omega)
    rw [hv] at this; exact absurd this (by simp)
  | cons b r ih =>
    obtain ⟨hlt, hnear, hd'⟩ := hd
    by_cases hyb : y ≤ b
    · exact hmono _ _ _ _ hnear hx hyb
    · have hxb : b < x := by
        by_cases hxb : b < x
        · exact hxb
        · have hv := checked_points_valid env c _ (hvalid b (by simp))
          have := hinv b (by omega) (by omega)
          rw [hv] at this; exact absurd this (by simp)
      apply ih b hd' (fun i hi => hvalid i (List.mem_cons_of_mem _ hi)) (by omega)
      simpa [List.getLast_cons] using hy

end OmplModel.Oracle
