import OmplModel.Proofs.SpaceDistReal
import Mathlib.Analysis.Real.Pi.Bounds
import Mathlib.Tactic.Linarith
import Mathlib.Tactic.NormNum
/-!
C06, findings F6 and F12 at `ℝ`: the seam-crossing distances of the Möbius strip and the Klein bottle
are not metrics (triangle inequality fails on in-bounds states) although the spaces claim
`isMetricSpace()`; the sphere distance is 0 between distinct states at a pole and exceeds the reported
maximum extent.  The remaining laws (non-negativity, symmetry, `d(x,x)=0`, extent bound) are proved.
-/
namespace OmplModel.SpaceDist.Seam
open OmplModel OmplModel.SpaceDist
attribute [-instance] OmplModel.Num.instOfNat

/-! ### bridges to ordinary real expressions -/

theorem so2Dist_r (a b : ℝ) :
    so2Dist a b = if Real.pi < |a - b| then 2 * Real.pi - |a - b| else |a - b| := by
  show (if Real.pi < |a - b| then ((2:ℕ):ℝ) * Real.pi - |a - b| else |a - b|) = _
  norm_num

theorem so2InBounds_r (v : ℝ) : so2InBounds v = true ↔ (-Real.pi ≤ v ∧ v < Real.pi) := by
  unfold so2InBounds
  rw [Bool.and_eq_true, decide_eq_true_iff, decide_eq_true_iff]
  exact ⟨fun h => ⟨h.2, h.1⟩, fun h => ⟨h.2, h.1⟩⟩

theorem cmp2_r (x y : ℝ) : cmp2 x y = x + y := by
  show ((0:ℕ):ℝ) + ((1:ℕ):ℝ) * x + ((1:ℕ):ℝ) * y = _
  norm_num

theorem rvDist1_r (a b : ℝ) : rvDist [a] [b] = |a - b| := by
  show Real.sqrt (((0:ℕ):ℝ) + (a - b) * (a - b)) = _
  rw [Nat.cast_zero, zero_add, Real.sqrt_mul_self_eq_abs]

theorem rvExtent1_r (lo hi : ℝ) : rvExtent [lo] [hi] = |hi - lo| := by
  show Real.sqrt (((0:ℕ):ℝ) + (hi - lo) * (hi - lo)) = _
  rw [Nat.cast_zero, zero_add, Real.sqrt_mul_self_eq_abs]

theorem mobiusDist_r (u1 v1 u2 v2 : ℝ) :
    mobiusDist u1 v1 u2 v2 =
      if |u2 - u1| ≤ Real.pi then so2Dist u1 u2 + |v1 - v2| else so2Dist u1 u2 + |(-v2) - v1| := by
  have h : mobiusDist u1 v1 u2 v2 =
      if |u2 - u1| ≤ Real.pi then cmp2 (so2Dist u1 u2) (rvDist [v1] [v2])
      else ((0:ℕ):ℝ) + ((1:ℕ):ℝ) * so2Dist u1 u2 + Real.sqrt ((-v2 - v1) * (-v2 - v1)) := rfl
  rw [h, cmp2_r, rvDist1_r, Real.sqrt_mul_self_eq_abs]
  norm_num

theorem kleinDist_r (u1 v1 u2 v2 : ℝ) :
    kleinDist u1 v1 u2 v2 =
      if |u2 - u1| ≤ Real.pi / 2 then |u1 - u2| + so2Dist v1 v2
      else (Real.pi - |u2 - u1|) +
        so2Dist (if 0 < v2 then Real.pi - v2 else -Real.pi - v2) v1 := by
  have h : kleinDist u1 v1 u2 v2 =
      if |u2 - u1| ≤ ((1:ℕ):ℝ) / ((2:ℕ):ℝ) * Real.pi then cmp2 (rvDist [u1] [u2]) (so2Dist v1 v2)
      else (Real.pi - |u2 - u1|) +
        so2Dist (if ((0:ℕ):ℝ) < v2 then Real.pi - v2 else -Real.pi - v2) v1 := rfl
  rw [h, cmp2_r, rvDist1_r]
  have e : ((1:ℕ):ℝ) / ((2:ℕ):ℝ) * Real.pi = Real.pi / 2 := by norm_num; ring
  rw [e, Nat.cast_zero]

/-! ### F6: the triangle inequality fails -/

theorem so2InBounds_of (v : ℝ) (h1 : -3 ≤ v) (h2 : v ≤ 3) : so2InBounds v = true := by
  rw [so2InBounds_r]
  have := Real.pi_gt_d2
  constructor <;> linarith

theorem mobius_triangle_fails :
    ¬ (∀ u1 v1 u2 v2 u3 v3 : ℝ, so2InBounds u1 = true → so2InBounds u2 = true →
        so2InBounds u3 = true → |v1| ≤ 1 → |v2| ≤ 1 → |v3| ≤ 1 →
        mobiusDist u1 v1 u3 v3 ≤ mobiusDist u1 v1 u2 v2 + mobiusDist u2 v2 u3 v3) := by
  intro h
  have hpl := Real.pi_gt_d2
  have hpu := Real.pi_lt_d2
  have h1 : |(1:ℝ)| ≤ 1 := by norm_num
  have := h (-1.6) 1 0 1 1.6 1 (so2InBounds_of _ (by norm_num) (by norm_num))
    (so2InBounds_of _ (by norm_num) (by norm_num)) (so2InBounds_of _ (by norm_num) (by norm_num))
    h1 h1 h1
  have eac : mobiusDist (-1.6) 1 1.6 1 = 2 * Real.pi - 3.2 + 2 := by
    rw [mobiusDist_r, so2Dist_r]
    have e1 : |(1.6:ℝ) - (-1.6)| = 3.2 := by norm_num
    have e2 : |(-1.6:ℝ) - 1.6| = 3.2 := by norm_num [abs_of_neg]
    have e3 : |(-1:ℝ) - 1| = 2 := by norm_num [abs_of_neg]
    rw [e1, e2, e3, if_neg (by linarith), if_pos (by linarith)]
  have eab : mobiusDist (-1.6:ℝ) 1 0 1 = 1.6 := by
    rw [mobiusDist_r, so2Dist_r]
    have e1 : |(0:ℝ) - (-1.6)| = 1.6 := by norm_num
    have e2 : |(-1.6:ℝ) - 0| = 1.6 := by norm_num [abs_of_neg]
    rw [e1, e2, if_pos (by linarith), if_neg (by linarith)]
    norm_num
  have ebc : mobiusDist (0:ℝ) 1 1.6 1 = 1.6 := by
    rw [mobiusDist_r, so2Dist_r]
    have e1 : |(1.6:ℝ) - 0| = 1.6 := by norm_num
    have e2 : |(0:ℝ) - 1.6| = 1.6 := by norm_num [abs_of_neg]
    rw [e1, e2, if_pos (by linarith), if_neg (by linarith)]
    norm_num
  rw [eac, eab, ebc] at this
  linarith

theorem klein_triangle_fails :
    ¬ (∀ u1 v1 u2 v2 u3 v3 : ℝ, (0 ≤ u1 ∧ u1 ≤ Real.pi) → (0 ≤ u2 ∧ u2 ≤ Real.pi) →
        (0 ≤ u3 ∧ u3 ≤ Real.pi) → so2InBounds v1 = true → so2InBounds v2 = true →
        so2InBounds v3 = true →
        kleinDist u1 v1 u3 v3 ≤ kleinDist u1 v1 u2 v2 + kleinDist u2 v2 u3 v3) := by
  intro h
  have hpl := Real.pi_gt_d2
  have hpu := Real.pi_lt_d2
  have hv : so2InBounds (0.1:ℝ) = true := so2InBounds_of _ (by norm_num) (by norm_num)
  have := h 0.7 0.1 1.55 0.1 2.4 0.1 ⟨by norm_num, by linarith⟩ ⟨by norm_num, by linarith⟩
    ⟨by norm_num, by linarith⟩ hv hv hv
  have eac : kleinDist 0.7 0.1 2.4 0.1 = (Real.pi - 1.7) + (Real.pi - 0.2) := by
    rw [kleinDist_r]
    have e1 : |(2.4:ℝ) - 0.7| = 1.7 := by norm_num
    rw [e1, if_neg (by linarith), if_pos (by norm_num : (0:ℝ) < 0.1), so2Dist_r]
    have e2 : |Real.pi - 0.1 - 0.1| = Real.pi - 0.2 := by
      rw [abs_of_nonneg (by linarith)]; ring
    rw [e2, if_neg (by linarith)]
  have eab : kleinDist (0.7:ℝ) 0.1 1.55 0.1 = 0.85 := by
    rw [kleinDist_r, so2Dist_r]
    have e1 : |(1.55:ℝ) - 0.7| = 0.85 := by norm_num
    have e2 : |(0.7:ℝ) - 1.55| = 0.85 := by norm_num [abs_of_neg]
    have e3 : |(0.1:ℝ) - 0.1| = 0 := by norm_num
    rw [e1, e2, e3, if_pos (by linarith), if_neg (by linarith)]
    norm_num
  have ebc : kleinDist (1.55:ℝ) 0.1 2.4 0.1 = 0.85 := by
    rw [kleinDist_r, so2Dist_r]
    have e1 : |(2.4:ℝ) - 1.55| = 0.85 := by norm_num
    have e2 : |(1.55:ℝ) - 2.4| = 0.85 := by norm_num [abs_of_neg]
    have e3 : |(0.1:ℝ) - 0.1| = 0 := by norm_num
    rw [e1, e2, e3, if_pos (by linarith), if_neg (by linarith)]
    norm_num
  rw [eac, eab, ebc] at this
  linarith

/-! ### F12: the sphere -/

/-- `sphereDistReal` with ordinary real literals (its source literals elaborate through `Num`'s `OfNat`) -/
theorem sphereDistReal_r (r t1 p1 t2 p2 : ℝ) :
    sphereDistReal r t1 p1 t2 p2 =
      2 * r * Real.arcsin (Real.sqrt
        (Real.sin (1 / 2 * ((p1 - Real.pi / 2) - (p2 - Real.pi / 2))) *
            Real.sin (1 / 2 * ((p1 - Real.pi / 2) - (p2 - Real.pi / 2))) +
          Real.cos (p1 - Real.pi / 2) * Real.cos (p2 - Real.pi / 2) *
            Real.sin (1 / 2 * (t1 - t2)) * Real.sin (1 / 2 * (t1 - t2)))) := by
  have h1 : ((1:ℕ):ℝ) = 1 := Nat.cast_one
  show 2 * r * Real.arcsin (Real.sqrt
        (Real.sin (((1:ℕ):ℝ) / 2 * ((p1 - Real.pi / 2) - (p2 - Real.pi / 2))) *
            Real.sin (((1:ℕ):ℝ) / 2 * ((p1 - Real.pi / 2) - (p2 - Real.pi / 2))) +
          Real.cos (p1 - Real.pi / 2) * Real.cos (p2 - Real.pi / 2) *
            Real.sin (((1:ℕ):ℝ) / 2 * (t1 - t2)) * Real.sin (((1:ℕ):ℝ) / 2 * (t1 - t2)))) = _
  rw [h1]

theorem sphere_pole_distance_zero : ∀ r t1 t2 : ℝ, sphereDistReal r t1 0 t2 0 = 0 := by
  intro r t1 t2
  have hc : Real.cos (0 - Real.pi / 2) = 0 := by
    rw [zero_sub, Real.cos_neg, Real.cos_pi_div_two]
  unfold sphereDistReal
  simp only [hc, sub_self, mul_zero, zero_mul, Real.sin_zero, add_zero, Real.sqrt_zero,
    Real.arcsin_zero]

theorem sphere_pole_not_positive :
    ¬ (∀ r t1 p1 t2 p2 : ℝ, 0 < r → (t1 ≠ t2 ∨ p1 ≠ p2) → 0 < sphereDistReal r t1 p1 t2 p2) := by
  intro h
  have := h 1 0 0 1 0 one_pos (Or.inl (by norm_num))
  rw [sphere_pole_distance_zero] at this
  exact lt_irrefl _ this

theorem sphere_antipodal (r : ℝ) : sphereDistReal r 0 0 0 Real.pi = r * Real.pi := by
  have hc : Real.cos (0 - Real.pi / 2) = 0 := by
    rw [zero_sub, Real.cos_neg, Real.cos_pi_div_two]
  have hs : (1 / 2 : ℝ) * ((0 - Real.pi / 2) - (Real.pi - Real.pi / 2)) = -(Real.pi / 2) := by ring
  rw [sphereDistReal_r, hs, hc, Real.sin_neg, Real.sin_pi_div_two]
  norm_num
  ring

theorem sphere_extent_exceeded :
    ∀ r : ℝ, 2 < r → cmp2 Real.pi (rvExtent [0] [Real.pi]) < sphereDistReal r 0 0 0 Real.pi := by
  intro r hr
  rw [sphere_antipodal, cmp2_r, rvExtent1_r, sub_zero, abs_of_pos Real.pi_pos]
  nlinarith [Real.pi_pos]

/-! ### the laws that do hold -/

theorem so2Dist_le_pi (a b : ℝ) : so2Dist a b ≤ Real.pi := by
  rw [so2Dist_r]
  split_ifs <;> linarith [Real.pi_pos]

theorem so2Dist_nonneg_of_abs (a b : ℝ) (h : |a - b| ≤ 2 * Real.pi) : 0 ≤ so2Dist a b := by
  rw [so2Dist_r]
  split_ifs <;> linarith [abs_nonneg (a - b)]

theorem so2Dist_nonneg (a b : ℝ) (ha : so2InBounds a = true) (hb : so2InBounds b = true) :
    0 ≤ so2Dist a b := by
  rw [so2InBounds_r] at ha hb
  exact so2Dist_nonneg_of_abs a b (abs_le.mpr ⟨by linarith, by linarith⟩)

theorem so2Dist_comm (a b : ℝ) : so2Dist a b = so2Dist b a := by
  rw [so2Dist_r, so2Dist_r, abs_sub_comm]

theorem so2Dist_self (a : ℝ) : so2Dist a a = 0 := by
  rw [so2Dist_r, sub_self, abs_zero, if_neg (not_lt.mpr Real.pi_pos.le)]

/-! #### Möbius -/

theorem mobiusDist_nonneg (u1 v1 u2 v2 : ℝ) (h1 : so2InBounds u1 = true)
    (h2 : so2InBounds u2 = true) : 0 ≤ mobiusDist u1 v1 u2 v2 := by
  rw [mobiusDist_r]
  have := so2Dist_nonneg u1 u2 h1 h2
  split_ifs
  · linarith [abs_nonneg (v1 - v2)]
  · linarith [abs_nonneg (-v2 - v1)]

theorem mobiusDist_symm (u1 v1 u2 v2 : ℝ) : mobiusDist u1 v1 u2 v2 = mobiusDist u2 v2 u1 v1 := by
  rw [mobiusDist_r, mobiusDist_r, abs_sub_comm u2 u1, so2Dist_comm u1 u2, abs_sub_comm v1 v2]
  have e : -v2 - v1 = -v1 - v2 := by ring
  rw [e]

theorem mobiusDist_self (u v : ℝ) : mobiusDist u v u v = 0 := by
  rw [mobiusDist_r, sub_self, abs_zero, if_pos Real.pi_pos.le, so2Dist_self, sub_self, abs_zero,
    add_zero]

/-- the reported extent of the Möbius space is `π + 2·imax` -/
theorem mobiusExtent_r (imax : ℝ) (h : 0 ≤ imax) :
    cmp2 Real.pi (rvExtent [-imax] [imax]) = Real.pi + 2 * imax := by
  rw [cmp2_r, rvExtent1_r, abs_of_nonneg (by linarith)]
  ring

theorem mobiusDist_le_extent (u1 v1 u2 v2 imax : ℝ) (hv1 : |v1| ≤ imax) (hv2 : |v2| ≤ imax)
    (h : 0 ≤ imax) :
    mobiusDist u1 v1 u2 v2 ≤ cmp2 Real.pi (rvExtent [-imax] [imax]) := by
  rw [mobiusExtent_r imax h, mobiusDist_r]
  have := so2Dist_le_pi u1 u2
  obtain ⟨a1, b1⟩ := abs_le.mp hv1
  obtain ⟨a2, b2⟩ := abs_le.mp hv2
  split_ifs
  · have : |v1 - v2| ≤ 2 * imax := abs_le.mpr ⟨by linarith, by linarith⟩
    linarith
  · have : |-v2 - v1| ≤ 2 * imax := abs_le.mpr ⟨by linarith, by linarith⟩
    linarith

/-! #### Klein bottle -/

theorem kleinDist_nonneg (u1 v1 u2 v2 : ℝ) (hu1 : 0 ≤ u1 ∧ u1 ≤ Real.pi)
    (hu2 : 0 ≤ u2 ∧ u2 ≤ Real.pi) (hv1 : so2InBounds v1 = true) (hv2 : so2InBounds v2 = true) :
    0 ≤ kleinDist u1 v1 u2 v2 := by
  rw [kleinDist_r]
  split_ifs with hc hp
  · linarith [abs_nonneg (u1 - u2), so2Dist_nonneg v1 v2 hv1 hv2]
  · rw [so2InBounds_r] at hv1 hv2
    have hu : |u2 - u1| ≤ Real.pi := abs_le.mpr ⟨by linarith [hu1.2, hu2.1], by linarith [hu1.1, hu2.2]⟩
    have := so2Dist_nonneg_of_abs (Real.pi - v2) v1 (abs_le.mpr ⟨by linarith, by linarith⟩)
    linarith
  · rw [so2InBounds_r] at hv1 hv2
    have hu : |u2 - u1| ≤ Real.pi := abs_le.mpr ⟨by linarith [hu1.2, hu2.1], by linarith [hu1.1, hu2.2]⟩
    have := so2Dist_nonneg_of_abs (-Real.pi - v2) v1 (abs_le.mpr ⟨by linarith, by linarith⟩)
    linarith

/-- the two reversed differences differ by `2π`, which `so2Dist` identifies on this range -/
theorem so2Dist_rev (v1 v2 : ℝ) (h : -Real.pi ≤ v1 + v2) (h' : v1 + v2 ≤ Real.pi) :
    so2Dist (-Real.pi - v2) v1 = so2Dist (Real.pi - v1) v2 := by
  rw [so2Dist_r, so2Dist_r]
  have e1 : |(-Real.pi - v2) - v1| = Real.pi + (v1 + v2) := by
    rw [abs_of_nonpos (by linarith)]; ring
  have e2 : |Real.pi - v1 - v2| = Real.pi - (v1 + v2) := by
    rw [abs_of_nonneg (by linarith)]; ring
  rw [e1, e2]
  split_ifs <;> linarith

/-- the seam reversal is applied to `v2` only, but the result is symmetric on in-bounds angles -/
theorem klein_rev_symm (v1 v2 : ℝ) (hv1 : so2InBounds v1 = true) (hv2 : so2InBounds v2 = true) :
    so2Dist (if 0 < v2 then Real.pi - v2 else -Real.pi - v2) v1 =
      so2Dist (if 0 < v1 then Real.pi - v1 else -Real.pi - v1) v2 := by
  rw [so2InBounds_r] at hv1 hv2
  by_cases h1 : 0 < v1 <;> by_cases h2 : 0 < v2
  · rw [if_pos h1, if_pos h2, so2Dist_r, so2Dist_r]
    have e : Real.pi - v2 - v1 = Real.pi - v1 - v2 := by ring
    rw [e]
  · rw [if_pos h1, if_neg h2]
    exact so2Dist_rev v1 v2 (by linarith) (by linarith)
  · rw [if_neg h1, if_pos h2]
    exact (so2Dist_rev v2 v1 (by linarith) (by linarith)).symm
  · rw [if_neg h1, if_neg h2, so2Dist_r, so2Dist_r]
    have e : -Real.pi - v2 - v1 = -Real.pi - v1 - v2 := by ring
    rw [e]

theorem kleinDist_symm (u1 v1 u2 v2 : ℝ) (hv1 : so2InBounds v1 = true)
    (hv2 : so2InBounds v2 = true) : kleinDist u1 v1 u2 v2 = kleinDist u2 v2 u1 v1 := by
  rw [kleinDist_r, kleinDist_r, abs_sub_comm u1 u2, klein_rev_symm v1 v2 hv1 hv2,
    so2Dist_comm v1 v2]

theorem kleinDist_self (u v : ℝ) : kleinDist u v u v = 0 := by
  rw [kleinDist_r, sub_self, abs_zero, if_pos (by linarith [Real.pi_pos]), so2Dist_self, add_zero]

/-- the reported extent of the Klein bottle is `2π` -/
theorem kleinExtent_r : cmp2 (rvExtent [0] [Real.pi]) Real.pi = 2 * Real.pi := by
  rw [cmp2_r, rvExtent1_r, sub_zero, abs_of_pos Real.pi_pos]
  ring

theorem kleinDist_le_extent (u1 v1 u2 v2 : ℝ) :
    kleinDist u1 v1 u2 v2 ≤ cmp2 (rvExtent [0] [Real.pi]) Real.pi := by
  rw [kleinExtent_r, kleinDist_r]
  have hpi := Real.pi_pos
  by_cases hc : |u2 - u1| ≤ Real.pi / 2
  · rw [if_pos hc, abs_sub_comm u1 u2]
    linarith [so2Dist_le_pi v1 v2]
  · rw [if_neg hc]
    linarith [abs_nonneg (u2 - u1),
      so2Dist_le_pi (if 0 < v2 then Real.pi - v2 else -Real.pi - v2) v1]

/-! ### the same extents as `maxExtent` of the model's `Space` constructors -/

theorem maxExtent_mobius (imax rad : ℝ) :
    maxExtent (Space.mobius imax rad) = cmp2 Real.pi (rvExtent [-imax] [imax]) := rfl

theorem maxExtent_klein :
    maxExtent (Space.klein : Space ℝ) = cmp2 (rvExtent [0] [Real.pi]) Real.pi := by
  show cmp2 (rvExtent [((0:ℕ):ℝ)] [Real.pi]) Real.pi = _
  rw [Nat.cast_zero]

theorem maxExtent_sphere (r : ℝ) : maxExtent (Space.sphere r) = Real.pi * r := rfl

end OmplModel.SpaceDist.Seam
