import OmplModel.Proofs.SpaceBoundsSamplers
import OmplModel.Proofs.SpaceBoundsValid
/-!
C08 helper lemmas, part 6 (round 10, `[EX]`): the bridge between the arithmetic-free valid-state sampler lemmas
(`SamplerOk`, `CallsExt`) and the modelled default samplers over ℝ, and convexity of `satisfiesBounds` on R^n
(with its `eps` slack) under `RealVectorStateSpace::interpolate`.
-/
namespace OmplModel.SpaceBounds
open OmplModel
attribute [-instance] Num.instOfNat

/-- the `eps`-slack box of `RealVectorStateSpace::satisfiesBounds` is convex: `from + (to - from) * t`, `0 ≤ t ≤ 1` -/
theorem rvInterp_sat {t : ℝ} (h0 : 0 ≤ t) (h1 : t ≤ 1) : ∀ (lo hi a b : List ℝ), rvSat lo hi a = true →
    rvSat lo hi b = true → rvSat lo hi (rvInterp t a b) = true
  | [], _, _, _, _, _ => by simp [rvSat]
  | _ :: _, [], _, _, _, _ => by simp [rvSat]
  | _ :: _, _ :: _, [], _, _, _ => by simp [rvInterp, rvSat]
  | _ :: _, _ :: _, _ :: _, [], _, _ => by simp [rvInterp, rvSat]
  | l :: lo, h :: hi, a :: as, b :: bs, ha, hb => by
    simp only [rvSat, Bool.and_eq_true, rvSat1_iff] at ha hb
    simp only [rvInterp, rvSat, Bool.and_eq_true, rvSat1_iff]
    refine ⟨⟨?_, ?_⟩, rvInterp_sat h0 h1 lo hi as bs ha.2 hb.2⟩
    · nlinarith [ha.1.1, hb.1.1]
    · nlinarith [ha.1.2, hb.1.2]

/-- an oracle whose inner `StateSampler` IS the modelled default sampler of the space `sp`: the k-th call draws from the
RNG streams at position `pos k` (any positions: whatever the earlier calls consumed) -/
noncomputable def defaultSamplerOrc {κ : Type} (R : Rng ℝ) (sp : Space ℝ) (pos : Nat → Pos) (ans : Nat → Bool × κ) :
    Orc (OmplModel.St ℝ) ℝ κ where
  samp k c := match c with
    | .uniform => (sampleUniform R sp (pos k)).1
    | .near c d => (sampleNear R none sp c d (pos k)).1
    | .gauss m sd => (sampleGauss R none sp m sd (pos k)).1
  ans := ans

end OmplModel.SpaceBounds
