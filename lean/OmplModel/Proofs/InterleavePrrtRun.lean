import OmplModel.Model.InterleavePrrtRun
import OmplModel.Proofs.InterleavePrrt
/-!
pRRT, round 10: the epilogue of `solve()` (`report`, `pathFuel`) and the approximate-solution bookkeeping, for every
scheduler.  Arithmetic-free, core Lean only.
-/
namespace OmplModel.Interleave

variable {S D : Type}

/-! ## the tree only grows by appending a child of an existing node -/

/-- how pRRT's tree comes about: the start state, then nodes whose parent is already there -/
inductive Grown (root : S) : List (S × Option S) → Prop where
  | init : Grown root [(root, none)]
  | add (tree : List (S × Option S)) (c p : S) : Grown root tree → p ∈ nodes tree → Grown root (tree ++ [(c, some p)])

theorem grown_step (e : PEnv S D) (hsel : ∀ l x, l ≠ [] → e.sel l x ∈ l) (a : PStep S) (s : PStore S D)
    (h : PInv e s ∧ Grown e.root s.tree) : PInv e (PStep.apply e a s) ∧ Grown e.root (PStep.apply e a s).tree := by
  refine ⟨pinv_step e hsel a s h.1, ?_⟩
  cases a with
  | nearest t x => exact h.2
  | check t => exact h.2
  | upd t =>
    have htree : (PStep.apply e (.upd t) s).tree = s.tree := by
      simp only [PStep.apply]
      split
      · split
        · rfl
        · split
          · rfl
          · split <;> rfl
      · rfl
    rw [htree]; exact h.2
  | add t =>
    by_cases hok : (s.loc t).ok = true
    · have happly : (PStep.apply e (.add t) s).tree = s.tree ++ [((s.loc t).cand, some (s.loc t).near)] := by
        simp [PStep.apply, hok]
      rw [happly]
      exact Grown.add _ _ _ h.2 (h.1.near_in t)
    · have happly : PStep.apply e (.add t) s = s := by simp [PStep.apply, hok]
      rw [happly]; exact h.2

theorem grown_init (e : PEnv S D) : PInv e (PStore.init e) ∧ Grown e.root (PStore.init e).tree :=
  ⟨pinv_init e, Grown.init⟩

variable [DecidableEq S]

/-! ## `findNode` -/

theorem findNode_some {tree : List (S × Option S)} {c : S} {n : S × Option S} (h : findNode tree c = some n) :
    n ∈ tree ∧ n.1 = c := by
  refine ⟨List.mem_of_find?_eq_some h, ?_⟩
  have := List.find?_some h
  simpa using this

theorem findNode_isSome_of_mem {tree : List (S × Option S)} {c : S} (h : c ∈ nodes tree) :
    ∃ n, findNode tree c = some n := by
  simp only [nodes, List.mem_map] at h
  obtain ⟨n, hn, hc⟩ := h
  cases hf : findNode tree c with
  | some m => exact ⟨m, rfl⟩
  | none =>
    have := List.find?_eq_none.mp hf n hn
    simp [hc] at this

theorem findNode_append_of_mem {tree : List (S × Option S)} {c : S} (x : S × Option S) (h : c ∈ nodes tree) :
    findNode (tree ++ [x]) c = findNode tree c := by
  obtain ⟨n, hn⟩ := findNode_isSome_of_mem h
  simp only [findNode] at hn ⊢
  rw [List.find?_append, hn]
  rfl

theorem findNode_append_of_not_mem {tree : List (S × Option S)} {c : S} (o : Option S) (h : c ∉ nodes tree) :
    findNode (tree ++ [(c, o)]) c = some (c, o) := by
  have hnone : findNode tree c = none := by
    cases hf : findNode tree c with
    | none => rfl
    | some n =>
      obtain ⟨hm, hc⟩ := findNode_some hf
      exact absurd (by simp only [nodes, List.mem_map]; exact ⟨n, hm, hc⟩) h
  simp only [findNode] at hnone ⊢
  rw [List.find?_append, hnone]
  simp

/-! ## the parent walk -/

theorem pathFuel_head (f : Nat) (tree : List (S × Option S)) (c : S) :
    ∃ rest, pathFuel f tree c = c :: rest := by
  cases f with
  | zero => exact ⟨[], rfl⟩
  | succ f =>
    simp only [pathFuel]
    split
    · exact ⟨_, rfl⟩
    · exact ⟨[], rfl⟩

/-- consecutive entries of `mpath` are (child, parent) edges of the tree -/
def Linked (tree : List (S × Option S)) : List S → Prop
  | [] => True
  | [_] => True
  | c :: p :: rest => (c, some p) ∈ tree ∧ Linked tree (p :: rest)

theorem pathFuel_linked (f : Nat) (tree : List (S × Option S)) (c : S) : Linked tree (pathFuel f tree c) := by
  induction f generalizing c with
  | zero => simp [pathFuel, Linked]
  | succ f ih =>
    simp only [pathFuel]
    split
    · rename_i n p hf
      obtain ⟨hm, hc⟩ := findNode_some hf
      simp only at hc
      subst hc
      obtain ⟨rest, hr⟩ := pathFuel_head f tree p
      have := ih p
      rw [hr] at this ⊢
      exact ⟨hm, this⟩
    · simp [Linked]

theorem linked_infix {tree : List (S × Option S)} {l : List S} (h : Linked tree l) {c p : S}
    (hi : [c, p] <:+: l) : (c, some p) ∈ tree := by
  induction l with
  | nil => simp at hi
  | cons a l ih =>
    cases l with
    | nil =>
      obtain ⟨s, t, hst⟩ := hi
      have := congrArg List.length hst
      simp at this
      omega
    | cons b l =>
      rcases List.infix_cons_iff.mp hi with hp | hi'
      · obtain ⟨t, ht⟩ := hp
        simp only [List.cons_append, List.nil_append, List.cons.injEq] at ht
        obtain ⟨rfl, rfl, _⟩ := ht
        exact h.1
      · exact ih h.2 hi'

omit [DecidableEq S] in
/-- in a grown tree a node that is found has its parent in the tree -/
theorem grown_parent_mem {root : S} {tree : List (S × Option S)} (hg : Grown root tree) {c p : S}
    (h : (c, some p) ∈ tree) : p ∈ nodes tree := by
  induction hg with
  | init => simp at h
  | add tree c' p' _ hp ih =>
    simp only [List.mem_append, List.mem_singleton] at h
    rcases h with h | h
    · exact mem_nodes_append (ih h)
    · cases h
      exact mem_nodes_append hp

omit [DecidableEq S] in
theorem grown_none_root {root : S} {tree : List (S × Option S)} (hg : Grown root tree) {c : S}
    (h : (c, none) ∈ tree) : c = root := by
  induction hg with
  | init => simpa using h
  | add tree c' p' _ _ ih =>
    simp only [List.mem_append, List.mem_singleton] at h
    rcases h with h | h
    · exact ih h
    · cases h

/-- walking from a node of the old tree never looks at the appended entry -/
theorem pathFuel_append {root : S} {tree : List (S × Option S)} (hg : Grown root tree) (x : S × Option S) (f : Nat)
    (c : S) (hc : c ∈ nodes tree) : pathFuel f (tree ++ [x]) c = pathFuel f tree c := by
  induction f generalizing c with
  | zero => rfl
  | succ f ih =>
    simp only [pathFuel]
    rw [findNode_append_of_mem x hc]
    cases hf : findNode tree c with
    | none => rfl
    | some n =>
      obtain ⟨c', o⟩ := n
      cases o with
      | none => rfl
      | some p =>
        obtain ⟨hm, hc'⟩ := findNode_some hf
        simp only at hc'
        subst hc'
        simp only
        rw [ih p (grown_parent_mem hg hm)]

/-- **the fuel suffices**: from every node of a grown tree the walk ends at the root -/
theorem pathFuel_last_root {root : S} {tree : List (S × Option S)} (hg : Grown root tree) :
    ∀ c ∈ nodes tree, ∀ f, tree.length ≤ f → (pathFuel f tree c).getLast? = some root := by
  induction hg with
  | init =>
    intro c hc f hf
    simp [nodes] at hc
    subst hc
    cases f with
    | zero => simp at hf
    | succ f => simp [pathFuel, findNode]
  | add tree c' p' hg hp ih =>
    intro c hc f hf
    simp only [List.length_append, List.length_singleton] at hf
    by_cases hold : c ∈ nodes tree
    · rw [pathFuel_append hg _ f c hold]
      exact ih c hold f (by omega)
    · have hcc : c = c' := by
        rw [nodes_append] at hc
        simp only [List.mem_append, List.mem_singleton] at hc
        rcases hc with hc | hc
        · exact absurd hc hold
        · exact hc
      subst hcc
      obtain ⟨f', rfl⟩ : ∃ f', f = f' + 1 := ⟨f - 1, by omega⟩
      simp only [pathFuel]
      rw [findNode_append_of_not_mem (some p') hold]
      simp only
      rw [pathFuel_append hg _ f' p' hp]
      obtain ⟨rest, hr⟩ := pathFuel_head f' tree p'
      have := ih p' hp f' (by omega)
      rw [hr] at this ⊢
      simpa [List.getLast?_cons_cons] using this

/-- the path handed to `addSolutionPath`: starts at the root, ends at the state it was asked for, and every consecutive
pair is a (parent, child) edge of the tree -/
theorem solutionPath_spec {root : S} {tree : List (S × Option S)} (hg : Grown root tree) (c : S) (hc : c ∈ nodes tree) :
    (solutionPath tree c).head? = some root ∧ (solutionPath tree c).getLast? = some c ∧
      ∀ a b, [a, b] <:+: solutionPath tree c → (b, some a) ∈ tree := by
  refine ⟨?_, ?_, ?_⟩
  · simp only [solutionPath, List.head?_reverse]
    exact pathFuel_last_root hg c hc _ (Nat.le_refl _)
  · obtain ⟨rest, hr⟩ := pathFuel_head tree.length tree c
    simp [solutionPath, List.getLast?_reverse, hr]
  · intro a b hab
    have : [b, a] <:+: pathFuel tree.length tree c := by
      have h2 := List.reverse_infix.mpr hab
      simpa [solutionPath] using h2
    exact linked_infix (pathFuel_linked _ _ _) this

/-! ## `(approx, approxdif)` and `(sol, approxdif)` belong together -/

/-- what the `SolutionInfo` fields mean while no exact solution is set -/
def ApproxInv (e : PEnv S D) (s : PStore S D) : Prop :=
  s.sol = none → (match s.approx with
    | some c => s.approxdif = some (e.dist c)
    | none => s.approxdif = none)

omit [DecidableEq S] in
theorem approxInv_step (e : PEnv S D) (a : PStep S) (s : PStore S D) (h : ApproxInv e s) :
    ApproxInv e (PStep.apply e a s) := by
  cases a with
  | nearest t x => exact h
  | check t => exact h
  | add t =>
    simp only [PStep.apply]
    split
    · exact h
    · exact h
  | upd t =>
    by_cases hadd : (s.loc t).added = true
    · by_cases hg : e.goal (s.loc t).cand = true
      · intro hs
        simp [PStep.apply, hadd, hg] at hs
      · have hg' : e.goal (s.loc t).cand = false := by simpa using hg
        simp only [PStep.apply, hadd, hg', ↓reduceIte, Bool.false_eq_true]
        cases hd : s.approxdif with
        | none => intro _; simp
        | some d =>
          simp only []
          split
          · intro _; simp
          · exact h
    · have happly : PStep.apply e (.upd t) s = s := by simp [PStep.apply, hadd]
      rw [happly]; exact h

/-- the exact solution carries its own goal distance -/
def SolOwnDiff (e : PEnv S D) (s : PStore S D) : Prop :=
  ∀ c, s.sol = some c → e.goal c = true ∧ s.approxdif = some (e.dist c)

omit [DecidableEq S] in
theorem solOwnDiff_step (e : PEnv S D)
    (hgoal : ∀ a b, e.goal a = true → e.lt (e.dist b) (e.dist a) = true → e.goal b = true)
    (a : PStep S) (s : PStore S D) (h : SolOwnDiff e s) : SolOwnDiff e (PStep.apply e a s) := by
  cases a with
  | nearest t x => exact h
  | check t => exact h
  | add t =>
    simp only [PStep.apply]
    split
    · exact h
    · exact h
  | upd t =>
    by_cases hadd : (s.loc t).added = true
    · by_cases hg : e.goal (s.loc t).cand = true
      · intro c hc
        simp only [PStep.apply, hadd, hg, ↓reduceIte] at hc ⊢
        cases hc
        exact ⟨hg, rfl⟩
      · have hg' : e.goal (s.loc t).cand = false := by simpa using hg
        simp only [PStep.apply, hadd, hg', ↓reduceIte, Bool.false_eq_true]
        cases hd : s.approxdif with
        | none =>
          intro c hc
          have := (h c hc).2
          rw [hd] at this; cases this
        | some d =>
          simp only []
          split
          · rename_i hlt
            intro c hc
            obtain ⟨hgc, hdc⟩ := h c hc
            rw [hd] at hdc
            cases hdc
            exact absurd (hgoal c _ hgc hlt) hg
          · exact h
    · have happly : PStep.apply e (.upd t) s = s := by simp [PStep.apply, hadd]
      rw [happly]; exact h

/-! ## the approximate solution is the closest of all updated states -/

omit [DecidableEq S] in
theorem sol_none_of_step (e : PEnv S D) (a : PStep S) (s : PStore S D) (h : (PStep.apply e a s).sol = none) :
    s.sol = none := by
  cases a with
  | nearest t x => exact h
  | check t => exact h
  | add t =>
    simp only [PStep.apply] at h
    split at h
    · exact h
    · exact h
  | upd t =>
    simp only [PStep.apply] at h
    split at h
    · split at h
      · simp at h
      · split at h
        · exact h
        · split at h <;> exact h
    · exact h

/-- `Closest e U s`: while there is no exact solution, no state of `U` is strictly closer than `approxdif` -/
def Closest (e : PEnv S D) (U : List S) (s : PStore S D) : Prop :=
  s.sol = none → ∀ c ∈ U, ∃ d, s.approxdif = some d ∧ e.lt (e.dist c) d = false

omit [DecidableEq S] in
theorem closest_step (e : PEnv S D) (hirr : ∀ a, e.lt a a = false)
    (htr : ∀ a b c, e.lt a b = true → e.lt b c = true → e.lt a c = true)
    (a : PStep S) (s : PStore S D) (U : List S) (h : Closest e U s) :
    Closest e (U ++ updatedCands e [a] s) (PStep.apply e a s) := by
  have hkeep : ∀ s' : PStore S D, s'.sol = s.sol → s'.approxdif = s.approxdif → Closest e (U ++ []) s' := by
    intro s' h1 h2 hs c hc
    rw [List.append_nil] at hc
    rw [h2]; exact h (h1 ▸ hs) c hc
  cases a with
  | nearest t x => exact hkeep _ rfl rfl
  | check t => exact hkeep _ rfl rfl
  | add t =>
    simp only [updatedCands, PStep.apply]
    split
    · exact hkeep _ rfl rfl
    · exact hkeep _ rfl rfl
  | upd t =>
    by_cases hadd : (s.loc t).added = true
    · simp only [updatedCands, hadd, ↓reduceIte, List.append_nil]
      by_cases hg : e.goal (s.loc t).cand = true
      · intro hs
        simp [PStep.apply, hadd, hg] at hs
      · have hg' : e.goal (s.loc t).cand = false := by simpa using hg
        simp only [PStep.apply, hadd, hg', ↓reduceIte, Bool.false_eq_true]
        cases hd : s.approxdif with
        | none =>
          intro hs c hc
          simp only at hs
          simp only [List.mem_append, List.mem_singleton] at hc
          rcases hc with hc | hc
          · obtain ⟨d, hd', _⟩ := h hs c hc
            rw [hd] at hd'; cases hd'
          · subst hc
            exact ⟨_, rfl, hirr _⟩
        | some d =>
          simp only []
          split
          · rename_i hlt
            intro hs c hc
            simp only at hs
            simp only [List.mem_append, List.mem_singleton] at hc
            rcases hc with hc | hc
            · obtain ⟨d', hd', hnl⟩ := h hs c hc
              rw [hd] at hd'; cases hd'
              refine ⟨_, rfl, ?_⟩
              cases hcl : e.lt (e.dist c) (e.dist (s.loc t).cand) with
              | false => rfl
              | true => rw [htr _ _ _ hcl hlt] at hnl; cases hnl
            · subst hc
              exact ⟨_, rfl, hirr _⟩
          · rename_i hnlt
            intro hs c hc
            simp only [List.mem_append, List.mem_singleton] at hc
            rcases hc with hc | hc
            · exact h hs c hc
            · subst hc
              exact ⟨d, hd, by simpa using hnlt⟩
    · have happly : PStep.apply e (.upd t) s = s := by simp [PStep.apply, hadd]
      simp only [updatedCands, hadd]
      rw [happly]
      simpa using h

omit [DecidableEq S] in
theorem closest_run (e : PEnv S D) (hirr : ∀ a, e.lt a a = false)
    (htr : ∀ a b c, e.lt a b = true → e.lt b c = true → e.lt a c = true)
    (l : List (PStep S)) (s : PStore S D) (U : List S) (h : Closest e U s) :
    Closest e (U ++ updatedCands e l s) (runSteps (PStep.apply e) l s) := by
  induction l generalizing s U with
  | nil => simpa [updatedCands, runSteps] using h
  | cons a l ih =>
    have h1 := closest_step e hirr htr a s U h
    have h2 := ih (PStep.apply e a s) _ h1
    rw [runSteps_cons]
    have hu : updatedCands e (a :: l) s = updatedCands e [a] s ++ updatedCands e l (PStep.apply e a s) := by
      simp [updatedCands]
    rw [hu, ← List.append_assoc]
    exact h2

/-! ## an added state reaches the solution update (local part) -/

/-- the worker a step belongs to -/
def PStep.thread : PStep S → Nat
  | .nearest t _ => t
  | .check t => t
  | .add t => t
  | .upd t => t

omit [DecidableEq S] in
theorem loc_other (e : PEnv S D) (a : PStep S) (t : Nat) (h : a.thread ≠ t) (s : PStore S D) :
    (PStep.apply e a s).loc t = s.loc t := by
  cases a with
  | nearest u x => simp only [PStep.apply]; exact setLoc_other _ _ (by simpa [PStep.thread] using h.symm)
  | check u => simp only [PStep.apply]; exact setLoc_other _ _ (by simpa [PStep.thread] using h.symm)
  | add u =>
    simp only [PStep.apply]
    split
    · exact setLoc_other _ _ (by simpa [PStep.thread] using h.symm)
    · rfl
  | upd u =>
    simp only [PStep.apply]
    split
    · split
      · rfl
      · split
        · rfl
        · split <;> rfl
    · rfl

omit [DecidableEq S] in
theorem loc_run_others (e : PEnv S D) (l : List (PStep S)) (t : Nat) (h : ∀ a ∈ l, a.thread ≠ t) (s : PStore S D) :
    (runSteps (PStep.apply e) l s).loc t = s.loc t := by
  induction l generalizing s with
  | nil => rfl
  | cons a l ih =>
    rw [runSteps_cons, ih (fun b hb => h b (List.mem_cons_of_mem _ hb)), loc_other e a t (h a List.mem_cons_self)]

omit [DecidableEq S] in
theorem updatedCands_append (e : PEnv S D) (l₁ l₂ : List (PStep S)) (s : PStore S D) :
    updatedCands e (l₁ ++ l₂) s = updatedCands e l₁ s ++ updatedCands e l₂ (runSteps (PStep.apply e) l₁ s) := by
  induction l₁ generalizing s with
  | nil => simp [updatedCands, runSteps]
  | cons a l ih => simp [updatedCands, ih, runSteps_cons, List.append_assoc]

omit [DecidableEq S] in
/-- worker `t` adds its candidate, other workers do whatever they do, worker `t` reaches its update: the added state is
among the updated ones -/
theorem added_then_updated (e : PEnv S D) (t : Nat) (l : List (PStep S)) (hl : ∀ a ∈ l, a.thread ≠ t) (s : PStore S D)
    (hok : (s.loc t).ok = true) :
    (s.loc t).cand ∈ updatedCands e ([PStep.add t] ++ l ++ [PStep.upd t]) s := by
  rw [List.append_assoc, updatedCands_append, updatedCands_append]
  refine List.mem_append_right _ (List.mem_append_right _ ?_)
  have hadd : (PStep.apply e (.add t) s).loc t = { s.loc t with added := true } := by
    simp [PStep.apply, hok, setLoc_same]
  have hloc : (runSteps (PStep.apply e) l (runSteps (PStep.apply e) [PStep.add t] s)).loc t = { s.loc t with added := true } := by
    rw [loc_run_others e l t hl]
    simpa [runSteps] using hadd
  simp [updatedCands, hloc]

/-! ## the concrete nearest-neighbour answer is a tree node (discharges `hsel` for the environment `drv_conc` runs) -/

theorem nearestFrom_mem (x best : Vec) (bd : Float) (ns : List Vec) : nearestFrom x best bd ns ∈ best :: ns := by
  induction ns generalizing best bd with
  | nil => simp [nearestFrom]
  | cons n ns ih =>
    simp only [nearestFrom]
    split
    · have := ih n (rvDistance n x)
      simp only [List.mem_cons] at this ⊢
      rcases this with h | h
      · exact Or.inr (Or.inl h)
      · exact Or.inr (Or.inr h)
    · have := ih best bd
      simp only [List.mem_cons] at this ⊢
      rcases this with h | h
      · exact Or.inl h
      · exact Or.inr (Or.inr h)

theorem nearestOf_mem (l : List Vec) (x : Vec) (h : l ≠ []) : nearestOf l x ∈ l := by
  cases l with
  | nil => exact absurd rfl h
  | cons n ns => exact nearestFrom_mem x n _ ns

theorem nearestHinted_mem (hint : Option Vec) (l : List Vec) (x : Vec) (h : l ≠ []) : nearestHinted hint l x ∈ l := by
  simp only [nearestHinted]
  cases hint with
  | none => exact nearestOf_mem l x h
  | some v =>
    simp only
    split
    · rename_i hc; exact hc.1
    · exact nearestOf_mem l x h

end OmplModel.Interleave
