import OmplModel.Model.SpaceBounds
import Mathlib.Analysis.SpecialFunctions.Complex.Arg
/-!
C08 helper lemmas, part 1: the `Num ℝ` instance of this engine, C `fmod` over ℝ, and the leaf facts
about bound enforcement (clamps, SO(2) wrap, SO(3) normalisation).  `[EX]`: exact real arithmetic.
-/
namespace OmplModel.SpaceBounds
open OmplModel

-- `Num.instOfNat` (numerals through `Num.ofNat`) would hijack the literals of ℝ in this file; the model
-- writes `Num.ofNat k` explicitly, so the instance is switched off here.
attribute [-instance] Num.instOfNat

/-- C `trunc` -/
noncomputable def truncR (y : ℝ) : ℝ := if 0 ≤ y then (⌊y⌋ : ℝ) else (⌈y⌉ : ℝ)
/-- C `fmod` over ℝ: `x - m * trunc(x / m)` -/
noncomputable def fmodR (x m : ℝ) : ℝ := x - m * truncR (x / m)

noncomputable instance instNumReal : Num ℝ where
  toAdd := inferInstance
  toSub := inferInstance
  toMul := inferInstance
  toDiv := inferInstance
  toNeg := inferInstance
  toLT := inferInstance
  toLE := inferInstance
  ofNat n := (n : ℝ)
  ofDec m e := (m : ℝ) / 10 ^ e
  pi := Real.pi
  abs x := |x|
  sqrt := Real.sqrt
  sin := Real.sin
  cos := Real.cos
  acos := Real.arccos
  atan2 y x := Complex.arg ⟨x, y⟩
  floor x := (⌊x⌋ : ℝ)
  ceil x := (⌈x⌉ : ℝ)
  fmod := fmodR
  decLt _ _ := Classical.propDecidable _
  decLe _ _ := Classical.propDecidable _
  toInt x := if 0 ≤ x then ⌊x⌋ else ⌈x⌉
  ofInt i := (i : ℝ)

/-! ### accessors -/
section acc
variable {α : Type} [Num α]
@[simp] theorem vals_rv (xs : List α) : St.vals (.rv xs : OmplModel.St α) = xs := rfl
@[simp] theorem ang_so2 (v : α) : St.ang (.so2 v : OmplModel.St α) = v := rfl
@[simp] theorem qx_so3 (x y z w : α) : St.qx (.so3 x y z w : OmplModel.St α) = x := rfl
@[simp] theorem qy_so3 (x y z w : α) : St.qy (.so3 x y z w : OmplModel.St α) = y := rfl
@[simp] theorem qz_so3 (x y z w : α) : St.qz (.so3 x y z w : OmplModel.St α) = z := rfl
@[simp] theorem qw_so3 (x y z w : α) : St.qw (.so3 x y z w : OmplModel.St α) = w := rfl
@[simp] theorem tm_time (t : α) : St.tm (.time t : OmplModel.St α) = t := rfl
@[simp] theorem dv_disc (v : Int) : St.dv (.disc v : OmplModel.St α) = v := rfl
@[simp] theorem hd_ccons (a b : OmplModel.St α) : St.hd (.ccons a b) = a := rfl
@[simp] theorem tl_ccons (a b : OmplModel.St α) : St.tl (.ccons a b) = b := rfl
@[simp] theorem hd_pair (a b : OmplModel.St α) : St.hd (pair a b) = a := rfl
@[simp] theorem hd_tl_pair (a b : OmplModel.St α) : St.hd (St.tl (pair a b)) = b := rfl
end acc

/-! ### constants -/
theorem eps_val : (eps : ℝ) = 1 / 4503599627370496 := by simp [eps, Num.ofNat]
theorem eps_pos : (0 : ℝ) < eps := by rw [eps_val]; norm_num
theorem qErr_val : (qErr : ℝ) = 1 / 1000000000 := by simp [qErr, Num.ofDec]; norm_num
theorem so3Eps_val : (so3Eps : ℝ) = 2107342 / 100000000000000 := by simp [so3Eps, Num.ofDec]; norm_num
theorem so3Tiny_val : (so3Tiny : ℝ) = 1 / 1000000 := by simp [so3Tiny, Num.ofDec]; norm_num
theorem twoPi_val : (twoPi : ℝ) = 2 * Real.pi := by simp [twoPi, Num.ofNat, Num.pi]
theorem pi_val : (Num.pi : ℝ) = Real.pi := rfl

/-! ### `fmod` -/
theorem truncR_abs_le (y : ℝ) : |truncR y| ≤ |y| := by
  unfold truncR
  split_ifs with h
  · rw [abs_of_nonneg h, abs_of_nonneg (by exact_mod_cast Int.floor_nonneg.mpr h)]
    exact Int.floor_le y
  · push Not at h
    have h1 : (⌈y⌉ : ℝ) ≤ 0 := by exact_mod_cast Int.ceil_le.mpr (by simpa using h.le)
    rw [abs_of_neg h, abs_of_nonpos h1]
    linarith [Int.le_ceil y]

theorem truncR_close (y : ℝ) : |y - truncR y| < 1 := by
  unfold truncR
  split_ifs with h
  · rw [abs_of_nonneg (by linarith [Int.floor_le y])]
    linarith [Int.lt_floor_add_one y]
  · rw [abs_of_nonpos (by linarith [Int.le_ceil y])]
    linarith [Int.ceil_lt_add_one y]

theorem truncR_sign_nonneg {y : ℝ} (h : 0 ≤ y) : truncR y ≤ y := by
  unfold truncR; rw [if_pos h]; exact Int.floor_le y

theorem truncR_sign_neg {y : ℝ} (h : y < 0) : y ≤ truncR y := by
  unfold truncR; rw [if_neg (not_le.mpr h)]; exact Int.le_ceil y

/-- `|fmod x m| < m` for `m > 0` -/
theorem fmodR_abs_lt (x : ℝ) {m : ℝ} (hm : 0 < m) : |fmodR x m| < m := by
  unfold fmodR
  have h := truncR_close (x / m)
  have : x - m * truncR (x / m) = m * (x / m - truncR (x / m)) := by field_simp
  rw [this, abs_mul, abs_of_pos hm]
  nlinarith [abs_nonneg (x / m - truncR (x / m))]

/-- `fmod x m = x` when `|x| < m` -/
theorem fmodR_small {x m : ℝ} (hm : 0 < m) (hx : |x| < m) : fmodR x m = x := by
  unfold fmodR
  have hy : |x / m| < 1 := by rw [abs_div, abs_of_pos hm]; exact (div_lt_one hm).mpr hx
  have ht : truncR (x / m) = 0 := by
    unfold truncR
    rw [abs_lt] at hy
    split_ifs with h
    · have : ⌊x / m⌋ = 0 := Int.floor_eq_iff.mpr ⟨by simpa using h, by simpa using hy.2⟩
      simp [this]
    · have : ⌈x / m⌉ = 0 := Int.ceil_eq_iff.mpr ⟨by simpa using hy.1, by push Not at h; simpa using h.le⟩
      simp [this]
  rw [ht]; ring

/-! ### clamps -/
theorem clampHL_mem {lo hi : ℝ} (h : lo ≤ hi) (v : ℝ) : lo ≤ clampHL lo hi v ∧ clampHL lo hi v ≤ hi := by
  unfold clampHL
  split_ifs <;> constructor <;> linarith

theorem clampLH_mem {lo hi : ℝ} (h : lo ≤ hi) (v : ℝ) : lo ≤ clampLH lo hi v ∧ clampLH lo hi v ≤ hi := by
  unfold clampLH
  split_ifs <;> constructor <;> linarith

theorem clampHL_of_mem {lo hi v : ℝ} (h1 : lo ≤ v) (h2 : v ≤ hi) : clampHL lo hi v = v := by
  unfold clampHL
  rw [if_neg (not_lt.mpr h2), if_neg (not_lt.mpr h1)]

theorem rvSat1_iff (l h x : ℝ) : rvSat1 l h x = true ↔ l - eps ≤ x ∧ x ≤ h + eps := by
  unfold rvSat1
  simp only [Bool.not_eq_true', Bool.or_eq_false_iff, decide_eq_false_iff_not, not_lt]
  constructor <;> rintro ⟨a, b⟩ <;> constructor <;> linarith

theorem rvSat1_of_mem {l h x : ℝ} (h1 : l ≤ x) (h2 : x ≤ h) : rvSat1 l h x = true := by
  rw [rvSat1_iff]; constructor <;> linarith [eps_pos]

theorem timeSat_iff (l h x : ℝ) : timeSat l h x = true ↔ l - eps ≤ x ∧ x ≤ h + eps := by
  unfold timeSat; simp

/-- enforcing moves an in-bounds coordinate by at most `eps` (the slack of `satisfiesBounds`) -/
theorem clampHL_close {l h x : ℝ} (_hlh : l ≤ h) (hs : l - eps ≤ x ∧ x ≤ h + eps) :
    |clampHL l h x - x| ≤ eps := by
  unfold clampHL
  have := eps_pos
  split_ifs with h1 h2
  · rw [abs_of_nonpos (by linarith)]; linarith
  · rw [abs_of_nonneg (by linarith)]; linarith
  · simp; exact this.le

/-! ### R^n -/
/-- every low bound is at most its high bound -/
def rvOk : List ℝ → List ℝ → Prop
  | l :: lo, h :: hi => l ≤ h ∧ rvOk lo hi
  | _, _ => True

theorem rvEnforce_sat : ∀ (lo hi xs : List ℝ), rvOk lo hi → rvSat lo hi (rvEnforce lo hi xs) = true
  | [], _, xs, _ => by simp [rvSat]
  | _ :: _, [], xs, _ => by simp [rvSat]
  | _ :: _, _ :: _, [], _ => by simp [rvEnforce, rvSat]
  | l :: lo, h :: hi, x :: xs, hok => by
    simp only [rvEnforce, rvSat, Bool.and_eq_true]
    exact ⟨rvSat1_of_mem (clampHL_mem hok.1 x).1 (clampHL_mem hok.1 x).2, rvEnforce_sat lo hi xs hok.2⟩

theorem rvEnforce_idem : ∀ (lo hi xs : List ℝ), rvOk lo hi →
    rvEnforce lo hi (rvEnforce lo hi xs) = rvEnforce lo hi xs
  | [], _, xs, _ => by simp [rvEnforce]
  | _ :: _, [], xs, _ => by simp [rvEnforce]
  | _ :: _, _ :: _, [], _ => by simp [rvEnforce]
  | l :: lo, h :: hi, x :: xs, hok => by
    simp only [rvEnforce]
    rw [clampHL_of_mem (clampHL_mem hok.1 x).1 (clampHL_mem hok.1 x).2, rvEnforce_idem lo hi xs hok.2]

/-- coordinate-wise closeness of two vectors -/
def listClose (tol : ℝ) : List ℝ → List ℝ → Prop
  | a :: as, b :: bs => |a - b| ≤ tol ∧ listClose tol as bs
  | [], [] => True
  | _, _ => False

theorem listClose_refl {tol : ℝ} (h : 0 ≤ tol) : ∀ xs, listClose tol xs xs
  | [] => trivial
  | x :: xs => ⟨by simpa using h, listClose_refl h xs⟩

theorem rvEnforce_close : ∀ (lo hi xs : List ℝ), rvOk lo hi → rvSat lo hi xs = true →
    listClose eps (rvEnforce lo hi xs) xs
  | [], _, xs, _, _ => by simpa [rvEnforce] using listClose_refl eps_pos.le xs
  | _ :: _, [], xs, _, _ => by simpa [rvEnforce] using listClose_refl eps_pos.le xs
  | _ :: _, _ :: _, [], _, _ => by simp [rvEnforce, listClose]
  | l :: lo, h :: hi, x :: xs, hok, hs => by
    simp only [rvSat, Bool.and_eq_true] at hs
    simp only [rvEnforce, listClose]
    exact ⟨clampHL_close hok.1 ((rvSat1_iff _ _ _).mp hs.1), rvEnforce_close lo hi xs hok.2 hs.2⟩

/-! ### SO(2) -/
theorem so2Sat_iff (v : ℝ) : so2Sat v = true ↔ -Real.pi ≤ v ∧ v < Real.pi := by
  unfold so2Sat; simp [pi_val]; tauto

/-- the wrapped value lies in the code's own bound predicate `[-π, π)` -/
theorem so2Enforce_sat (x : ℝ) : so2Sat (so2Enforce x) = true := by
  rw [so2Sat_iff]
  unfold so2Enforce
  simp only [twoPi_val, pi_val, Num.fmod]
  have hp := Real.pi_pos
  have h := abs_lt.mp (fmodR_abs_lt x (m := 2 * Real.pi) (by linarith))
  split_ifs with h1 h2 <;> constructor <;> linarith

theorem so2Enforce_noop {v : ℝ} (h : so2Sat v = true) : so2Enforce v = v := by
  rw [so2Sat_iff] at h
  have hp := Real.pi_pos
  unfold so2Enforce
  simp only [twoPi_val, pi_val, Num.fmod]
  rw [fmodR_small (by linarith) (abs_lt.mpr ⟨by linarith, by linarith⟩)]
  rw [if_neg (by linarith), if_neg (by linarith)]

theorem so2Enforce_idem (x : ℝ) : so2Enforce (so2Enforce x) = so2Enforce x :=
  so2Enforce_noop (so2Enforce_sat x)

/-- the wrap changes the angle by a whole number of turns -/
theorem so2Enforce_cong (x : ℝ) : ∃ k : ℤ, so2Enforce x = x + k * (2 * Real.pi) := by
  unfold so2Enforce
  simp only [twoPi_val, pi_val, Num.fmod, fmodR, truncR]
  split_ifs
  · exact ⟨-⌊x / (2 * Real.pi)⌋ + 1, by push_cast; ring⟩
  · exact ⟨-⌊x / (2 * Real.pi)⌋ - 1, by push_cast; ring⟩
  · exact ⟨-⌊x / (2 * Real.pi)⌋, by push_cast; ring⟩
  · exact ⟨-⌈x / (2 * Real.pi)⌉ + 1, by push_cast; ring⟩
  · exact ⟨-⌈x / (2 * Real.pi)⌉ - 1, by push_cast; ring⟩
  · exact ⟨-⌈x / (2 * Real.pi)⌉, by push_cast; ring⟩

/-! ### discrete -/
theorem discEnforce_sat {lo hi : Int} (h : lo ≤ hi) (v : Int) : discSat lo hi (discEnforce lo hi v) = true := by
  unfold discSat discEnforce
  split_ifs <;> simp <;> omega

theorem discEnforce_noop {lo hi v : Int} (h : discSat lo hi v = true) : discEnforce lo hi v = v := by
  unfold discSat at h; unfold discEnforce
  simp at h
  split_ifs <;> omega

/-! ### SO(3) -/
theorem nrmSq_val (x y z w : ℝ) : nrmSq x y z w = x * x + y * y + z * z + w * w := rfl
theorem nrmSq_nonneg (x y z w : ℝ) : 0 ≤ nrmSq x y z w := by
  rw [nrmSq_val]; nlinarith [mul_self_nonneg x, mul_self_nonneg y, mul_self_nonneg z, mul_self_nonneg w]
theorem nrmSq_scale (x y z w s : ℝ) : nrmSq (x * s) (y * s) (z * s) (w * s) = s * s * nrmSq x y z w := by
  simp only [nrmSq_val]; ring

/-- unit norm squared satisfies the bounds predicate -/
theorem so3Sat_of_close {x y z w : ℝ} (h : |nrmSq x y z w - 1| ≤ eps) : so3Sat x y z w = true := by
  unfold so3Sat so3Norm
  simp only [Num.abs, Num.ofNat, Nat.cast_one]
  rw [if_neg (not_lt.mpr h)]
  simp [qErr_val]

/-- all three branches of SO3StateSpace::enforceBounds end inside the bounds predicate -/
theorem so3Enforce_sat (x y z w : ℝ) :
    ∃ a b c d, so3Enforce x y z w = .so3 a b c d ∧ so3Sat a b c d = true := by
  unfold so3Enforce
  simp only [Num.abs, Num.ofNat, Nat.cast_one, Nat.cast_ofNat, Nat.cast_zero, Num.sqrt, so3Eps_val, so3Tiny_val]
  set m := nrmSq x y z w with hm
  have hm0 : 0 ≤ m := nrmSq_nonneg x y z w
  have he := eps_val
  split_ifs with h1 h2
  · -- first-order renormalisation: 1 - m' = ((1-m)/(1+m))²
    refine ⟨_, _, _, _, rfl, so3Sat_of_close ?_⟩
    rw [nrmSq_scale, ← hm]
    rw [abs_lt] at h1
    have hpos : 0 < 1 + m := by linarith
    have key : 2 / (1 + m) * (2 / (1 + m)) * m - 1 = -(((1 - m) / (1 + m)) ^ 2) := by
      field_simp; ring
    rw [key, abs_neg, abs_of_nonneg (sq_nonneg _), he]
    have hr : |(1 - m) / (1 + m)| ≤ 11 / 1000000000 := by
      rw [abs_div, abs_of_pos hpos, div_le_iff₀ hpos, abs_le]
      constructor <;> nlinarith
    calc ((1 - m) / (1 + m)) ^ 2 = |(1 - m) / (1 + m)| ^ 2 := (sq_abs _).symm
      _ ≤ (11 / 1000000000) ^ 2 := by
        apply pow_le_pow_left₀ (abs_nonneg _) hr
      _ ≤ 1 / 4503599627370496 := by norm_num
  · -- identity quaternion
    refine ⟨_, _, _, _, rfl, so3Sat_of_close ?_⟩
    simp [nrmSq_val, eps_pos.le]
  · -- exact normalisation
    refine ⟨_, _, _, _, rfl, so3Sat_of_close ?_⟩
    rw [nrmSq_scale, ← hm]
    push Not at h2
    have hmp : 0 < m := by linarith
    have hs : Real.sqrt m * Real.sqrt m = m := Real.mul_self_sqrt hm0
    have hsp : 0 < Real.sqrt m := Real.sqrt_pos.mpr hmp
    have : 1 / Real.sqrt m * (1 / Real.sqrt m) * m = 1 := by
      field_simp; linarith
    rw [this]; simp [eps_pos.le]

/-! ### legal bound settings and closeness of states -/

/-- the bound settings the property quantifies over: every low bound is at most its high bound
(zero-width allowed; OMPL's own setters reject inverted bounds) -/
def boundsOk : Space ℝ → Prop
  | .rv lo hi => rvOk lo hi
  | .time b lo hi => b = true → lo ≤ hi
  | .disc lo hi => lo ≤ hi
  | .ccons _ h t => boundsOk h ∧ boundsOk t
  | .mobius imax _ => 0 ≤ imax
  | .wrap s => boundsOk s
  | _ => True

/-- no SO(3) component anywhere -/
def so3Free : Space ℝ → Prop
  | .so3 => False
  | .ccons _ h t => so3Free h ∧ so3Free t
  | .wrap s => so3Free s
  | _ => True

/-- `a` equals `b` up to `tol` in every real coordinate; exactly in SO(2), discrete and structure;
an SO(3) component is a positive multiple `k` of the other with `|k - 1| ≤ 2e-9` (same rotation) -/
def stClose (tol : ℝ) : OmplModel.St ℝ → OmplModel.St ℝ → Prop
  | .rv a, .rv b => listClose tol a b
  | .so2 a, .so2 b => a = b
  | .so3 x y z w, .so3 x' y' z' w' =>
    ∃ k : ℝ, |k - 1| ≤ 2 / 1000000000 ∧ x = x' * k ∧ y = y' * k ∧ z = z' * k ∧ w = w' * k
  | .time a, .time b => |a - b| ≤ tol
  | .disc a, .disc b => a = b
  | .cnil, .cnil => True
  | .ccons a b, .ccons a' b' => stClose tol a a' ∧ stClose tol b b'
  | _, _ => False

/-- an in-bounds quaternion goes through the first-order branch and is rescaled by `k`, `|k-1| ≤ 2e-9` -/
theorem so3Enforce_close {x y z w : ℝ} (h : so3Sat x y z w = true) :
    ∃ k : ℝ, |k - 1| ≤ 2 / 1000000000 ∧ so3Enforce x y z w = .so3 (x * k) (y * k) (z * k) (w * k) := by
  unfold so3Sat so3Norm at h
  simp only [Num.abs, Num.ofNat, Nat.cast_one, Num.sqrt, qErr_val, decide_eq_true_eq] at h
  set m := nrmSq x y z w with hm
  have hm0 : 0 ≤ m := nrmSq_nonneg x y z w
  have he := eps_val
  -- |m - 1| < 2.1e-9
  have hclose : |m - 1| < 21 / 10000000000 := by
    split_ifs at h with h1
    · have hs : Real.sqrt m * Real.sqrt m = m := Real.mul_self_sqrt hm0
      have hs0 := Real.sqrt_nonneg m
      rw [abs_lt] at h ⊢
      constructor <;> nlinarith
    · push Not at h1
      rw [he] at h1
      exact lt_of_le_of_lt h1 (by norm_num)
  unfold so3Enforce
  simp only [Num.abs, Num.ofNat, Nat.cast_one, Nat.cast_ofNat, so3Eps_val, ← hm]
  rw [abs_lt] at hclose
  have h1 : |1 - m| < 2107342 / 100000000000000 := by
    rw [abs_lt]; constructor <;> linarith
  rw [if_pos h1]
  refine ⟨2 / (1 + m), ?_, rfl⟩
  have hpos : 0 < 1 + m := by linarith
  have : 2 / (1 + m) - 1 = (1 - m) / (1 + m) := by field_simp; ring
  rw [this, abs_div, abs_of_pos hpos, div_le_iff₀ hpos, abs_le]
  constructor <;> nlinarith

end OmplModel.SpaceBounds
