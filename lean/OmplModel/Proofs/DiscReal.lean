import OmplModel.Model.Discretization
import Mathlib.Analysis.SpecialFunctions.Trigonometric.Inverse
import Mathlib.Analysis.SpecialFunctions.Complex.Arg
import Mathlib.Analysis.SpecialFunctions.Sqrt
import Mathlib.Analysis.SpecialFunctions.Log.Basic
/-!
`Num ℝ` for the `Discretization` model: `computeImportance` over the reals ([EX]: what stays unverified is IEEE
rounding, in particular underflow of the quotient to 0, which is why `selectMotion` carries its `score < epsilon`
repair).  Own instance on purpose: no other engine's proof file is imported.
-/
namespace OmplModel.Disc
open OmplModel

noncomputable instance instNumRealDisc : Num ℝ where
  ofNat n := (n : ℝ)
  ofDec m e := (m : ℝ) / (10 : ℝ) ^ e
  pi := Real.pi
  abs x := |x|
  sqrt := Real.sqrt
  sin := Real.sin
  cos := Real.cos
  acos := Real.arccos
  atan2 y x := Complex.arg ⟨x, y⟩
  floor x := (⌊x⌋ : ℝ)
  ceil x := (⌈x⌉ : ℝ)
  fmod x y := x - y * ((if 0 ≤ x / y then ⌊x / y⌋ else ⌈x / y⌉ : ℤ) : ℝ)
  decLt _ _ := Classical.propDecidable _
  decLe _ _ := Classical.propDecidable _
  toInt x := if 0 ≤ x then ⌊x⌋ else ⌈x⌉
  ofInt i := (i : ℝ)

noncomputable instance instHasLogReal : HasLog ℝ := ⟨Real.log⟩

attribute [-instance] Num.instOfNat

theorem importance_real (cd : CellData ℝ) (nbrs : Nat) :
    importance cd nbrs = cd.score / ((((nbrs + 1 : Nat) : ℝ) * cd.coverage) * (cd.selections : ℝ)) := rfl

/-- over ℝ the importance of a cell with positive score, positive coverage and at least one selection is
positive, and it does not exceed `score / coverage` (more neighbours or selections only lower it). -/
theorem importance_pos (cd : CellData ℝ) (nbrs : Nat) (hs : 0 < cd.score) (hc : 0 < cd.coverage)
    (hsel : 1 ≤ cd.selections) :
    0 < importance cd nbrs ∧ importance cd nbrs ≤ cd.score / cd.coverage := by
  rw [importance_real]
  have h1 : (1 : ℝ) ≤ ((nbrs + 1 : Nat) : ℝ) := by exact_mod_cast Nat.le_add_left 1 nbrs
  have h2 : (1 : ℝ) ≤ (cd.selections : ℝ) := by exact_mod_cast hsel
  have hden : 0 < (((nbrs + 1 : Nat) : ℝ) * cd.coverage) * (cd.selections : ℝ) := by positivity
  refine ⟨div_pos hs hden, ?_⟩
  apply div_le_div_of_nonneg_left hs.le hc
  calc cd.coverage = (1 * cd.coverage) * 1 := by ring
    _ ≤ (((nbrs + 1 : Nat) : ℝ) * cd.coverage) * (cd.selections : ℝ) := by
        apply mul_le_mul _ h2 (by norm_num) (by positivity)
        exact mul_le_mul_of_nonneg_right h1 hc.le

/-- the score a new cell starts with is positive (`iteration_ ≥ 1`, `dist ≥ 0`) -/
theorem initial_score_pos (iteration : Nat) (dist : ℝ) (hi : 1 ≤ iteration) (hd : 0 ≤ dist) :
    0 < ((Num.ofNat 1 : ℝ) + HasLog.log (Num.ofNat iteration : ℝ)) / ((Num.ofNat 1 : ℝ) + dist) := by
  show 0 < (((1 : Nat) : ℝ) + Real.log ((iteration : Nat) : ℝ)) / (((1 : Nat) : ℝ) + dist)
  have h1 : (1 : ℝ) ≤ (iteration : ℝ) := by exact_mod_cast hi
  have := Real.log_nonneg h1
  apply div_pos <;> simp <;> linarith

end OmplModel.Disc
