import OmplModel.Proofs.Ptc
import Mathlib.Tactic.Linarith
import Mathlib.Tactic.FieldSimp
import Mathlib.Tactic.Ring
import Mathlib.Tactic.Positivity
import Mathlib.Data.Rat.Defs
import Mathlib.Algebra.Order.Field.Rat
/-!
The cost-convergence recurrence and `Planner::solve(double)` over the rationals (`[EX]`: what these
lemmas leave unverified is IEEE rounding, which the driver executes bit-exactly at `Float`).
-/
namespace OmplModel.Ptc

instance : PNum ℚ where
  ofNat := fun n => (n : ℚ)
  tenth := 1 / 10
  decLt := fun _ _ => inferInstance

/-- the property's recurrence: the average after `k` reported costs (`c j` = cost of report `j+1`):
`avg₀ = 0`, `avgₖ = ((m - 1)·avgₖ₋₁ + cₖ) / m` with `m = min(k, window)`. -/
def avg (win : Nat) (c : Nat → ℚ) : Nat → ℚ
  | 0 => 0
  | k + 1 => (((min (k + 1) win - 1 : Nat) : ℚ) * avg win c k + c k) / ((min (k + 1) win : Nat) : ℚ)

/-- report `k ≥ 1` is one after which the average changed by less than the relative threshold, with
at least `window` reports seen -/
def FiresAt (win : Nat) (eps : ℚ) (c : Nat → ℚ) (k : Nat) : Prop :=
  1 ≤ k ∧ win ≤ k ∧ (1 - eps) * avg win c (k - 1) < avg win c k ∧ avg win c k < (1 + eps) * avg win c (k - 1)

/-- `k` reports in a row through the problem definition's callback -/
def reportSeq (c : Nat → ℚ) : Nat → World ℚ → World ℚ
  | 0, w => w
  | k + 1, w => reportCost (reportSeq c k w) (c k)

theorem size_pred (m : Nat) (h1 : 1 ≤ m) (h2 : m < sizeMod) : (m + (sizeMod - 1)) % sizeMod = m - 1 := by
  unfold sizeMod at *
  omega

theorem reportSeq_spec (i win : Nat) (eps : ℚ) (c : Nat → ℚ) (hw1 : 1 ≤ win) (hw2 : win < sizeMod)
    (w0 : World ℚ) (hcb : w0.cb = some ⟨i, win, eps, 0, 0⟩) (ht : w0.st.term i = false) :
    ∀ k, (reportSeq c k w0).cb = some ⟨i, win, eps, avg win c k, k⟩ ∧
      ((reportSeq c k w0).st.term i = true ↔ ∃ j, j ≤ k ∧ FiresAt win eps c j) := by
  intro k
  induction k with
  | zero =>
    refine ⟨by simpa [reportSeq, avg] using hcb, ?_⟩
    simp only [reportSeq, ht]
    constructor
    · intro h; exact absurd h (by simp)
    · rintro ⟨j, hj, hf⟩
      have : j = 0 := by omega
      subst this
      exact absurd hf.1 (by omega)
  | succ k ih =>
    obtain ⟨ihcb, ihterm⟩ := ih
    have hm1 : 1 ≤ min (k + 1) win := by omega
    have hm2 : min (k + 1) win < sizeMod := by omega
    have hstep : (CC.step (⟨i, win, eps, avg win c k, k⟩ : CC ℚ) (c k)) =
        (⟨i, win, eps, avg win c (k + 1), k + 1⟩,
          decide (min (k + 1) win = win) && (decide ((1 - eps) * avg win c k < avg win c (k + 1)) &&
            decide (avg win c (k + 1) < (1 + eps) * avg win c k))) := by
      simp only [CC.step, size_pred _ hm1 hm2, avg, PNum.ofNat]
      norm_num
    constructor
    · simp only [reportSeq, reportCost, ihcb, hstep]
    · have hfire : (decide (min (k + 1) win = win) && (decide ((1 - eps) * avg win c k < avg win c (k + 1)) &&
            decide (avg win c (k + 1) < (1 + eps) * avg win c k))) = true ↔ FiresAt win eps c (k + 1) := by
        simp only [Bool.and_eq_true, decide_eq_true_eq, FiresAt, Nat.add_sub_cancel]
        constructor
        · rintro ⟨h1, h2, h3⟩
          exact ⟨by omega, by omega, h2, h3⟩
        · rintro ⟨_, h1, h2, h3⟩
          exact ⟨by omega, h2, h3⟩
      simp only [reportSeq, reportCost, ihcb, hstep]
      by_cases hf : FiresAt win eps c (k + 1)
      · rw [if_pos (hfire.mpr hf)]
        constructor
        · intro _; exact ⟨k + 1, Nat.le_refl _, hf⟩
        · intro _; simp [upd]
      · have hnf : ¬ ((decide (min (k + 1) win = win) && (decide ((1 - eps) * avg win c k < avg win c (k + 1)) &&
            decide (avg win c (k + 1) < (1 + eps) * avg win c k))) = true) := fun h => hf (hfire.mp h)
        rw [if_neg hnf, ihterm]
        constructor
        · rintro ⟨j, hj, hfj⟩; exact ⟨j, by omega, hfj⟩
        · rintro ⟨j, hj, hfj⟩
          by_cases hjk : j = k + 1
          · subst hjk; exact absurd hfj hf
          · exact ⟨j, by omega, hfj⟩

/-! ### cost reports interleaved with other operations -/

/-- `k` reports through the callback, report `j+1` preceded by the batch `segs j` of other operations -/
def reportSeqI (env : Env) (c : Nat → ℚ) (segs : Nat → List (Op ℚ)) : Nat → World ℚ → World ℚ
  | 0, w => w
  | k + 1, w => reportCost ((reportSeqI env c segs k w).run env (segs k)) (c k)

/-- one report, from a world whose callback carries `(avgₖ, k)` and whose flag says "some report `≤ k` fired" -/
theorem reportCost_spec (i win : Nat) (eps : ℚ) (c : Nat → ℚ) (hw1 : 1 ≤ win) (hw2 : win < sizeMod) (k : Nat)
    (w : World ℚ) (hcb : w.cb = some ⟨i, win, eps, avg win c k, k⟩)
    (hterm : w.st.term i = true ↔ ∃ j, j ≤ k ∧ FiresAt win eps c j) :
    (reportCost w (c k)).cb = some ⟨i, win, eps, avg win c (k + 1), k + 1⟩ ∧
      ((reportCost w (c k)).st.term i = true ↔ ∃ j, j ≤ k + 1 ∧ FiresAt win eps c j) := by
  have hm1 : 1 ≤ min (k + 1) win := by omega
  have hm2 : min (k + 1) win < sizeMod := by omega
  have hstep : (CC.step (⟨i, win, eps, avg win c k, k⟩ : CC ℚ) (c k)) =
      (⟨i, win, eps, avg win c (k + 1), k + 1⟩,
        decide (min (k + 1) win = win) && (decide ((1 - eps) * avg win c k < avg win c (k + 1)) &&
          decide (avg win c (k + 1) < (1 + eps) * avg win c k))) := by
    simp only [CC.step, size_pred _ hm1 hm2, avg, PNum.ofNat]
    norm_num
  constructor
  · simp only [reportCost, hcb, hstep]
  · have hfire : (decide (min (k + 1) win = win) && (decide ((1 - eps) * avg win c k < avg win c (k + 1)) &&
          decide (avg win c (k + 1) < (1 + eps) * avg win c k))) = true ↔ FiresAt win eps c (k + 1) := by
      simp only [Bool.and_eq_true, decide_eq_true_eq, FiresAt, Nat.add_sub_cancel]
      constructor
      · rintro ⟨h1, h2, h3⟩
        exact ⟨by omega, by omega, h2, h3⟩
      · rintro ⟨_, h1, h2, h3⟩
        exact ⟨by omega, h2, h3⟩
    simp only [reportCost, hcb, hstep]
    by_cases hf : FiresAt win eps c (k + 1)
    · rw [if_pos (hfire.mpr hf)]
      constructor
      · intro _; exact ⟨k + 1, Nat.le_refl _, hf⟩
      · intro _; simp [upd]
    · have hnf : ¬ ((decide (min (k + 1) win = win) && (decide ((1 - eps) * avg win c k < avg win c (k + 1)) &&
          decide (avg win c (k + 1) < (1 + eps) * avg win c k))) = true) := fun h => hf (hfire.mp h)
      rw [if_neg hnf, hterm]
      constructor
      · rintro ⟨j, hj, hfj⟩; exact ⟨j, by omega, hfj⟩
      · rintro ⟨j, hj, hfj⟩
        by_cases hjk : j = k + 1
        · subst hjk; exact absurd hfj hf
        · exact ⟨j, by omega, hfj⟩

theorem reportSeqI_spec (env : Env) (i win : Nat) (eps : ℚ) (c : Nat → ℚ) (hw1 : 1 ≤ win) (hw2 : win < sizeMod)
    (segs : Nat → List (Op ℚ)) (hq : ∀ k, ∀ op ∈ segs k, CostQuiet i op)
    (w0 : World ℚ) (hcb : w0.cb = some ⟨i, win, eps, 0, 0⟩) (ht : w0.st.term i = false) :
    ∀ k, (reportSeqI env c segs k w0).cb = some ⟨i, win, eps, avg win c k, k⟩ ∧
      ((reportSeqI env c segs k w0).st.term i = true ↔ ∃ j, j ≤ k ∧ FiresAt win eps c j) := by
  intro k
  induction k with
  | zero =>
    refine ⟨by simpa [reportSeqI, avg] using hcb, ?_⟩
    simp only [reportSeqI, ht]
    constructor
    · intro h; exact absurd h (by simp)
    · rintro ⟨j, hj, hf⟩
      have : j = 0 := by omega
      subst this
      exact absurd hf.1 (by omega)
  | succ k ih =>
    obtain ⟨ihcb, ihterm⟩ := ih
    obtain ⟨q1, q2⟩ := run_quiet env i (segs k) (reportSeqI env c segs k w0) (hq k)
    simp only [reportSeqI]
    exact reportCost_spec i win eps c hw1 hw2 k _ (q1.trans ihcb) (by rw [q2]; exact ihterm)

/-! ### `Planner::solve(double)` -/

theorem stdMin_eq_min (a b : ℚ) : stdMin a b = min a b := by
  unfold stdMin
  by_cases h : b < a
  · rw [if_pos h, min_eq_right (le_of_lt h)]
  · rw [if_neg h, min_eq_left (not_lt.mp h)]

theorem solveDouble_lt (t : ℚ) (h : t < 1) : solveDouble t = .direct t := by
  have h' : t < (PNum.ofNat 1 : ℚ) := by simpa [PNum.ofNat] using h
  simp only [solveDouble, if_pos h']

theorem solveDouble_ge (t : ℚ) (h : 1 ≤ t) : solveDouble t = .polled t (min (t / 100) (1 / 10)) := by
  have h' : ¬ t < (PNum.ofNat 1 : ℚ) := by simpa [PNum.ofNat] using h
  simp only [solveDouble, if_neg h', stdMin_eq_min]
  simp [PNum.ofNat, PNum.tenth]

theorem solve_interval_ok (t : ℚ) (h : 1 ≤ t) :
    timedInterval t (min (t / 100) (1 / 10)) = min (t / 100) (1 / 10) ∧ 0 < min (t / 100) (1 / 10) := by
  have h1 : min (t / 100) (1 / 10) ≤ t / 100 := min_le_left _ _
  have h2 : 0 < min (t / 100) (1 / 10) := by
    apply lt_min
    · linarith
    · norm_num
  refine ⟨?_, h2⟩
  unfold timedInterval
  have : ¬ t < min (t / 100) (1 / 10) := by
    intro hh
    linarith
  rw [if_neg this]

/-! ### the interval clamp of `timedPlannerTerminationCondition(duration, interval)` -/

theorem timedInterval_eq_min (d i : ℚ) : timedInterval d i = min d i := by
  unfold timedInterval
  by_cases h : d < i
  · rw [if_pos h, min_eq_left (le_of_lt h)]
  · rw [if_neg h, min_eq_right (not_lt.mp h)]

/-! ### window 1: the average is the last cost -/

theorem avg_window_one (c : Nat → ℚ) (k : Nat) : avg 1 c (k + 1) = c k := by
  have h : min (k + 1) 1 = 1 := by omega
  simp [avg, h]

end OmplModel.Ptc
