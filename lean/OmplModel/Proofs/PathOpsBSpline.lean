/-
Proofs about the whole-routine model of `PathSimplifier::smoothBSpline`
(`OmplModel.Model.PathOpsWhole`, section "smoothBSpline").  Core Lean only.

For EVERY environment `E : BsEnv σ` (arbitrary `isValid` / `checkMotion` / `interpolate(·,·,0.5)` /
"moved more than minChange" oracles, no law assumed), every `maxSteps` and every input path:
* the endpoints are kept (`smoothBSpline_head?`, `smoothBSpline_getLast?`);
* every motion of the result is an input motion, a motion `checkMotion` answered `true` for, or a
  (recursive) half of one of those, cut at the interpolated midpoint (`smoothBSpline_only_validated`);
* in one pass a vertex is replaced only at an even index `2 ≤ i < size - 1`, only by the B-spline point
  of the ORIGINAL neighbours, and only if the full acceptance test held (`bsGo_accepts`,
  `bsPass_accepts`); the counter `u` is zero only if nothing was replaced (`bsPass_zero`);
* the loop body runs `k ≤ maxSteps` times and the result has `2^k * (size - 1) + 1` states
  (`smoothBSpline_length`); paths shorter than 3 and `maxSteps = 0` are the identity.
-/
import OmplModel.Model.PathOpsWhole
import OmplModel.Proofs.PathOpsDensify

namespace OmplModel.PathOps

variable {σ : Type}

/-! ## list helpers -/

theorem mem_adj_cons_cases (x : σ) (L : List σ) (q : σ × σ) (h : q ∈ adj (x :: L)) :
    (∃ y, L.head? = some y ∧ q = (x, y)) ∨ q ∈ adj L := by
  cases L with
  | nil => simp [adj] at h
  | cons y L' =>
    simp only [adj, List.mem_cons] at h
    rcases h with h | h
    · exact Or.inl ⟨y, rfl, h⟩
    · exact Or.inr h

theorem mem_adj_head (x y : σ) (L : List σ) (h : L.head? = some y) : (x, y) ∈ adj (x :: L) := by
  cases L with
  | nil => simp at h
  | cons z L' =>
    simp only [List.head?_cons, Option.some.injEq] at h
    subst h
    simp [adj]

/-! ## one pass -/

/-- the pass never touches the first state of its argument -/
theorem bsGo_head? (E : BsEnv σ) (l : List σ) : (bsGo E l).1.head? = l.head? := by
  fun_cases bsGo E l <;> simp_all

theorem bsGo_cons (E : BsEnv σ) (a : σ) (l : List σ) : ∃ t, (bsGo E (a :: l)).1 = a :: t := by
  have h := bsGo_head? E (a :: l)
  cases hr : (bsGo E (a :: l)).1 with
  | nil => rw [hr] at h; simp at h
  | cons b t =>
    rw [hr] at h
    simp only [List.head?_cons, Option.some.injEq] at h
    exact ⟨t, by rw [h]⟩

theorem bsGo_length (E : BsEnv σ) (l : List σ) : (bsGo E l).1.length = l.length := by
  fun_induction bsGo E l with
  | case1 p c n rest r h ih => simp only [r, List.length_cons, ih]
  | case2 p c n rest r h ih => simp only [r, List.length_cons, ih]
  | case3 l _ => rfl

/-- the pass never touches the last state -/
theorem bsGo_getLast? (E : BsEnv σ) (l : List σ) : (bsGo E l).1.getLast? = l.getLast? := by
  fun_induction bsGo E l with
  | case1 p c n rest r h ih =>
    obtain ⟨t, ht⟩ := bsGo_cons E n rest
    simp only [] at ih ⊢
    rw [ht] at ih ⊢
    rw [List.getLast?_cons_cons, List.getLast?_cons_cons, ih, List.getLast?_cons_cons,
      List.getLast?_cons_cons]
  | case2 p c n rest r h ih =>
    obtain ⟨t, ht⟩ := bsGo_cons E n rest
    simp only [] at ih ⊢
    rw [ht] at ih ⊢
    rw [List.getLast?_cons_cons, List.getLast?_cons_cons, ih, List.getLast?_cons_cons,
      List.getLast?_cons_cons]
  | case3 l _ => rfl

/-- the counter `u` is zero only if no vertex was replaced -/
theorem bsGo_zero (E : BsEnv σ) (l : List σ) (h : (bsGo E l).2 = 0) : (bsGo E l).1 = l := by
  fun_induction bsGo E l with
  | case1 p c n rest r hacc ih => simp at h
  | case2 p c n rest r hacc ih => simp only [] at h ih ⊢; rw [ih h]
  | case3 l _ => rfl

/-- EVERY REPLACED VERTEX WAS ACCEPTED BY THE FULL TEST.  In one run of the inner `while` (over the
list starting at `states[1]`), each position either keeps its state, or it is the middle (`c`) of a
triple `p, c, n` of ORIGINAL states at list positions `j, j+1, j+2` with `j` even (so `c` is an even
index of the path and `p`, `n` odd ones), the full test `bsAccept` held — `isValid p`,
`checkMotion p t`, `checkMotion t n`, `distance(c, t) > minChange` for `t = bsPoint p c n` — and
the position now holds `t`. -/
theorem bsGo_accepts (E : BsEnv σ) (l : List σ) (i : Nat) :
    (bsGo E l).1[i]? = l[i]? ∨
    ∃ j p c n, i = j + 1 ∧ j % 2 = 0 ∧ l[j]? = some p ∧ l[j + 1]? = some c ∧ l[j + 2]? = some n ∧
      bsAccept E p c n = true ∧ (bsGo E l).1[i]? = some (bsPoint E p c n) := by
  fun_induction bsGo E l generalizing i with
  | case1 p c n rest r h ih =>
    match i with
    | 0 => left; rfl
    | 1 => right; exact ⟨0, p, c, n, rfl, rfl, rfl, rfl, rfl, h, rfl⟩
    | i + 2 =>
      rcases ih i with h' | ⟨j, p', c', n', hi, hj, h1, h2, h3, h4, h5⟩
      · left; simpa using h'
      · right
        refine ⟨j + 2, p', c', n', by omega, by omega, ?_, ?_, ?_, h4, ?_⟩
        · simpa using h1
        · simpa using h2
        · simpa using h3
        · simpa using h5
  | case2 p c n rest r h ih =>
    match i with
    | 0 => left; rfl
    | 1 => left; rfl
    | i + 2 =>
      rcases ih i with h' | ⟨j, p', c', n', hi, hj, h1, h2, h3, h4, h5⟩
      · left; simpa using h'
      · right
        refine ⟨j + 2, p', c', n', by omega, by omega, ?_, ?_, ?_, h4, ?_⟩
        · simpa using h1
        · simpa using h2
        · simpa using h3
        · simpa using h5
  | case3 l _ => left; rfl

/-- the acceptance test unfolded -/
theorem bsAccept_iff (E : BsEnv σ) (p c n : σ) :
    bsAccept E p c n = true ↔
      E.valid p = true ∧ E.cm p (bsPoint E p c n) = true ∧ E.cm (bsPoint E p c n) n = true ∧
        E.moved c (bsPoint E p c n) = true := by
  simp only [bsAccept, Bool.and_eq_true]
  constructor
  · rintro ⟨⟨a, b, c⟩, d⟩; exact ⟨a, b, c, d⟩
  · rintro ⟨a, b, c, d⟩; exact ⟨⟨a, b, c⟩, d⟩

/-- motions after the inner `while`: old motions, or motions `checkMotion` answered `true` for -/
theorem bsGo_adj (E : BsEnv σ) (l : List σ) :
    ∀ q ∈ adj (bsGo E l).1, q ∈ adj l ∨ E.cm q.1 q.2 = true := by
  fun_induction bsGo E l with
  | case1 p c n rest r h ih =>
    obtain ⟨_, h1, h2, _⟩ := (bsAccept_iff E p c n).1 h
    obtain ⟨t, ht⟩ := bsGo_cons E n rest
    intro q hq
    simp only [] at ih hq
    rw [ht] at ih hq
    simp only [adj, List.mem_cons] at hq
    rcases hq with rfl | rfl | hq
    · exact Or.inr h1
    · exact Or.inr h2
    · rcases ih q hq with h' | h'
      · exact Or.inl (mem_adj_cons _ _ _ (mem_adj_cons _ _ _ h'))
      · exact Or.inr h'
  | case2 p c n rest r h ih =>
    obtain ⟨t, ht⟩ := bsGo_cons E n rest
    intro q hq
    simp only [] at ih hq
    rw [ht] at ih hq
    simp only [adj, List.mem_cons] at hq ⊢
    rcases hq with rfl | rfl | hq
    · exact Or.inl (Or.inl rfl)
    · exact Or.inl (Or.inr (Or.inl rfl))
    · rcases ih q hq with h' | h'
      · exact Or.inl (Or.inr (Or.inr h'))
      · exact Or.inr h'
  | case3 l _ => intro q hq; exact Or.inl hq

theorem bsPass_head? (E : BsEnv σ) (l : List σ) : (bsPass E l).1.head? = l.head? := by
  cases l <;> simp [bsPass]

theorem bsPass_length (E : BsEnv σ) (l : List σ) : (bsPass E l).1.length = l.length := by
  cases l with
  | nil => simp [bsPass]
  | cons a r => simp [bsPass, bsGo_length]

theorem bsPass_getLast? (E : BsEnv σ) (l : List σ) : (bsPass E l).1.getLast? = l.getLast? := by
  cases l with
  | nil => simp [bsPass]
  | cons a r =>
    simp only [bsPass]
    cases r with
    | nil => simp [bsGo]
    | cons b r' =>
      obtain ⟨t, ht⟩ := bsGo_cons E b r'
      have h := bsGo_getLast? E (b :: r')
      rw [ht] at h ⊢
      rw [List.getLast?_cons_cons, h, List.getLast?_cons_cons]

theorem bsPass_zero (E : BsEnv σ) (l : List σ) (h : (bsPass E l).2 = 0) : (bsPass E l).1 = l := by
  cases l with
  | nil => simp [bsPass]
  | cons a r => simp only [bsPass] at h ⊢; rw [bsGo_zero E r h]

/-- `bsGo_accepts` in path indices: a state of the path changes in one pass only at an even index
`i` with `2 ≤ i` and `i + 1 < size` (the C++ `i < n1`), and only to the B-spline point of the
original `states[i-1], states[i], states[i+1]`, for which the full test held -/
theorem bsPass_accepts (E : BsEnv σ) (l : List σ) (i : Nat) :
    (bsPass E l).1[i]? = l[i]? ∨
    ∃ p c n, 2 ≤ i ∧ i % 2 = 0 ∧ l[i - 1]? = some p ∧ l[i]? = some c ∧ l[i + 1]? = some n ∧
      bsAccept E p c n = true ∧ (bsPass E l).1[i]? = some (bsPoint E p c n) := by
  cases l with
  | nil => left; rfl
  | cons a r =>
    simp only [bsPass]
    match i with
    | 0 => left; rfl
    | i + 1 =>
      rcases bsGo_accepts E r i with h | ⟨j, p, c, n, hi, hj, h1, h2, h3, h4, h5⟩
      · left; simpa using h
      · right
        subst hi
        refine ⟨p, c, n, by omega, by omega, ?_, ?_, ?_, h4, ?_⟩
        · simpa using h1
        · simpa using h2
        · simpa using h3
        · simpa using h5

/-- motions after one pass: old motions, or motions `checkMotion` answered `true` for -/
theorem bsPass_adj (E : BsEnv σ) (l : List σ) :
    ∀ q ∈ adj (bsPass E l).1, q ∈ adj l ∨ E.cm q.1 q.2 = true := by
  cases l with
  | nil => intro q hq; exact Or.inl hq
  | cons a r =>
    intro q hq
    simp only [bsPass] at hq
    rcases mem_adj_cons_cases _ _ _ hq with ⟨y, hy, rfl⟩ | hq
    · rw [bsGo_head?] at hy
      exact Or.inl (mem_adj_head a y r hy)
    · rcases bsGo_adj E r q hq with h | h
      · exact Or.inl (mem_adj_cons _ _ _ h)
      · exact Or.inr h

/-! ## the loop -/

theorem bsLoop_head? (E : BsEnv σ) (n : Nat) (st : List σ) : (bsLoop E n st).head? = st.head? := by
  induction n generalizing st with
  | zero => rfl
  | succ s ih =>
    simp only [bsLoop]
    split
    · rw [bsPass_head?, subdivide_head?]
    · rw [ih, bsPass_head?, subdivide_head?]

theorem bsLoop_getLast? (E : BsEnv σ) (n : Nat) (st : List σ) :
    (bsLoop E n st).getLast? = st.getLast? := by
  induction n generalizing st with
  | zero => rfl
  | succ s ih =>
    simp only [bsLoop]
    split
    · rw [bsPass_getLast?, subdivide_getLast?]
    · rw [ih, bsPass_getLast?, subdivide_getLast?]

/-- motions the routine may leave in the path: input motions, motions `checkMotion` answered `true`
for, and the two halves (cut at the interpolated midpoint) of such a motion -/
inductive BsDerived (E : BsEnv σ) (inp : List σ) : σ × σ → Prop
  | input {p} : p ∈ adj inp → BsDerived E inp p
  | validated {p} : E.cm p.1 p.2 = true → BsDerived E inp p
  | firstHalf {q} : BsDerived E inp q → BsDerived E inp (q.1, E.mid q.1 q.2)
  | secondHalf {q} : BsDerived E inp q → BsDerived E inp (E.mid q.1 q.2, q.2)

/-- one executed iteration (subdivide + pass) keeps the invariant -/
theorem bsStep_derived (E : BsEnv σ) (inp st : List σ) (h : ∀ p ∈ adj st, BsDerived E inp p) :
    ∀ p ∈ adj (bsPass E (subdivide E.mid st)).1, BsDerived E inp p := by
  intro p hp
  rcases bsPass_adj E _ p hp with hp | hp
  · obtain ⟨q, hq, rfl | rfl⟩ := subdivide_adj E.mid st p hp
    · exact (h q hq).firstHalf
    · exact (h q hq).secondHalf
  · exact .validated hp

theorem bsLoop_derived (E : BsEnv σ) (inp : List σ) (n : Nat) (st : List σ)
    (h : ∀ p ∈ adj st, BsDerived E inp p) : ∀ p ∈ adj (bsLoop E n st), BsDerived E inp p := by
  induction n generalizing st with
  | zero => exact h
  | succ s ih =>
    simp only [bsLoop]
    split
    · exact bsStep_derived E inp st h
    · exact ih _ (bsStep_derived E inp st h)

/-- the loop body runs `k ≤ n` times (at least once if `n > 0`), each run doubling the number of
motions -/
theorem bsLoop_length (E : BsEnv σ) (n : Nat) (st : List σ) (hne : st ≠ []) :
    ∃ k, k ≤ n ∧ (k = 0 → n = 0) ∧ (bsLoop E n st).length = 2 ^ k * (st.length - 1) + 1 := by
  induction n generalizing st with
  | zero =>
    refine ⟨0, Nat.le_refl _, fun _ => rfl, ?_⟩
    have : 0 < st.length := List.length_pos_iff.mpr hne
    simp only [bsLoop]; omega
  | succ s ih =>
    have hpos : 0 < st.length := List.length_pos_iff.mpr hne
    have hlen : (bsPass E (subdivide E.mid st)).1.length = 2 * (st.length - 1) + 1 := by
      rw [bsPass_length, subdivide_length _ _ hne]; omega
    simp only [bsLoop]
    split
    · exact ⟨1, by omega, by omega, by rw [hlen]⟩
    · have hne' : (bsPass E (subdivide E.mid st)).1 ≠ [] := by
        intro h0; rw [h0] at hlen; simp at hlen
      obtain ⟨k, hk, _, hl⟩ := ih _ hne'
      refine ⟨k + 1, by omega, by omega, ?_⟩
      rw [hl, hlen, Nat.pow_succ, Nat.mul_assoc]
      rfl

/-! ## smoothBSpline -/

/-- ENDPOINTS KEPT: the first state is never touched -/
theorem smoothBSpline_head? (E : BsEnv σ) (n : Nat) (path : List σ) :
    (smoothBSpline E n path).head? = path.head? := by
  unfold smoothBSpline; split
  · rfl
  · exact bsLoop_head? E n path

/-- ENDPOINTS KEPT: the last state is never touched -/
theorem smoothBSpline_getLast? (E : BsEnv σ) (n : Nat) (path : List σ) :
    (smoothBSpline E n path).getLast? = path.getLast? := by
  unfold smoothBSpline; split
  · rfl
  · exact bsLoop_getLast? E n path

/-- ONLY VALIDATED MOTIONS (three-way classification): every motion of the result is an input
motion, a validated pair, or a half (recursively) of one of those -/
theorem smoothBSpline_only_validated (E : BsEnv σ) (n : Nat) (path : List σ) :
    ∀ p ∈ adj (smoothBSpline E n path), BsDerived E path p := by
  unfold smoothBSpline; split
  · exact fun p hp => .input hp
  · exact bsLoop_derived E path n path fun p hp => .input hp

/-- TERMINATION / STEP BOUND: the loop body runs `k ≤ maxSteps` times (at least once when
`maxSteps > 0`), and each executed iteration subdivides once -/
theorem smoothBSpline_length (E : BsEnv σ) (n : Nat) (path : List σ) (h : 3 ≤ path.length) :
    ∃ k, k ≤ n ∧ (k = 0 → n = 0) ∧
      (smoothBSpline E n path).length = 2 ^ k * (path.length - 1) + 1 := by
  unfold smoothBSpline
  rw [if_neg (by omega)]
  exact bsLoop_length E n path (by intro h0; rw [h0] at h; simp at h)

theorem smoothBSpline_short (E : BsEnv σ) (n : Nat) (path : List σ) (h : path.length < 3) :
    smoothBSpline E n path = path := by
  unfold smoothBSpline; rw [if_pos h]

theorem smoothBSpline_zero_steps (E : BsEnv σ) (path : List σ) : smoothBSpline E 0 path = path := by
  unfold smoothBSpline; split <;> rfl

end OmplModel.PathOps
