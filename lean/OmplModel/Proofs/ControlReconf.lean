import OmplModel.Model.ControlReconf
import OmplModel.Proofs.Control
/-! Helper lemmas for `Model/ControlReconf.lean` (control samplers under reconfiguration).  Core Lean only; arithmetic-free:
the draw functions are parameters constrained only by their contracts. -/
namespace OmplModel.ControlReconf
open OmplModel OmplModel.Control

variable {α ρ S δ : Type}

/-- the invariant every setter preserves: bounds well formed, `minSteps ≤ maxSteps` -/
def ConfOK (le : α → α → Prop) (c : Conf α) : Prop := WFB le c.cb ∧ c.minSteps ≤ c.maxSteps

/-- contracts of the two draw functions -/
def DrawOK (le : α → α → Prop) (P : Params α ρ S δ) : Prop :=
  (∀ b g, WFB le b → InB le b (P.drawCtl b g).1) ∧
  (∀ a b g, a ≤ b → a ≤ (P.drawSteps a b g).1 ∧ (P.drawSteps a b g).1 ≤ b)

theorem stepM_conf (P : Params α ρ S δ) (cached : Bool) (st : St α ρ) (op : Op α ρ S) :
    (stepM P cached st op).1.conf = applyConf st.conf op := by
  cases op <;> rfl

theorem stAfter_conf (P : Params α ρ S δ) (cached : Bool) :
    ∀ (ops : List (Op α ρ S)) (st : St α ρ), (stAfter P cached st ops).conf = confAfter st.conf ops := by
  intro ops
  induction ops with
  | nil => intro st; rfl
  | cons op ops ih =>
    intro st
    show (stAfter P cached (stepM P cached st op).1 ops).conf = confAfter (applyConf st.conf op) ops
    rw [ih, stepM_conf]

theorem applyConf_ok (le : α → α → Prop) (c : Conf α) (op : Op α ρ S) (hc : ConfOK le c) (ho : OpOK le op) :
    ConfOK le (applyConf c op) := by
  cases op with
  | setBounds b => exact ⟨ho, hc.2⟩
  | setMinMax a b => exact ⟨hc.1, ho⟩
  | setStep dt => exact hc
  | realloc g => exact hc
  | sample => exact hc
  | stepCount a b => exact hc
  | sampleTo s d => exact hc

theorem confAfter_ok (le : α → α → Prop) :
    ∀ (ops : List (Op α ρ S)) (c : Conf α), ConfOK le c → (∀ op ∈ ops, OpOK le op) → ConfOK le (confAfter c ops) := by
  intro ops
  induction ops with
  | nil => intro c hc _; exact hc
  | cons op ops ih =>
    intro c hc ho
    exact ih (applyConf c op) (applyConf_ok le c op hc (ho op (List.mem_cons_self ..)))
      (fun o h => ho o (List.mem_cons_of_mem _ h))

theorem drawsLater_ok (le : α → α → Prop) (P : Params α ρ S δ) (hd : DrawOK le P) (cb : CBounds α) (mn mx : Nat)
    (hb : WFB le cb) (hm : mn ≤ mx) :
    ∀ n g, ∀ x ∈ (drawsLater P cb mn mx n g).1, InB le cb x.1 ∧ x.2 ≤ mx := by
  intro n
  induction n with
  | zero => intro g x hx; simp [drawsLater] at hx
  | succ n ih =>
    intro g x hx
    simp only [drawsLater, List.mem_cons] at hx
    rcases hx with rfl | hx
    · exact ⟨hd.1 cb _ hb, (hd.2 mn mx g hm).2⟩
    · exact ih _ x hx

theorem drawsAll_ok (le : α → α → Prop) (P : Params α ρ S δ) (hd : DrawOK le P) (cb : CBounds α) (mn mx : Nat)
    (hb : WFB le cb) (hm : mn ≤ mx) (g : ρ) :
    ∀ x ∈ (drawsAll P cb mn mx g).1, InB le cb x.1 ∧ x.2 ≤ mx := by
  intro x hx
  simp only [drawsAll, List.mem_cons] at hx
  rcases hx with rfl | hx
  · exact ⟨hd.1 cb _ hb, (hd.2 mn mx _ hm).2⟩
  · exact drawsLater_ok le P hd cb mn mx hb hm _ _ x hx

/-- one operation of the as-coded sampler meets the property for the configuration it ran under -/
theorem stepM_ok (le : α → α → Prop) (P : Params α ρ S δ) (hd : DrawOK le P) (st : St α ρ) (op : Op α ρ S)
    (hc : ConfOK le st.conf) (ho : OpOK le op) :
    OutOK le P st.conf op (stepM P false st op).2 := by
  cases op with
  | setBounds b => trivial
  | setMinMax a b => trivial
  | setStep dt => trivial
  | realloc g => trivial
  | sample => exact hd.1 _ _ hc.1
  | stepCount a b => exact hd.2 a b _ ho
  | sampleTo src dest =>
    intro u n s' hr
    have hs := sampleTo_ok (P.step st.conf.dt) P.valid P.dist P.lt src dest _ (u, n, s') hr
    obtain ⟨h1, h2, k, hk, hnk⟩ := hs
    have hx := drawsAll_ok le P hd st.conf.cb st.conf.minSteps st.conf.maxSteps hc.1 hc.2 st.gen (u, k) hk
    exact ⟨hx.1, Nat.le_trans hnk hx.2, h1, h2⟩

/-- the `i`-th output of a run is the `i`-th operation applied to the state after the first `i` operations -/
theorem run_getElem? (P : Params α ρ S δ) (cached : Bool) :
    ∀ (ops : List (Op α ρ S)) (st : St α ρ) (i : Nat) (op : Op α ρ S), ops[i]? = some op →
      (run P cached st ops)[i]? = some (stepM P cached (stAfter P cached st (ops.take i)) op).2 := by
  intro ops
  induction ops with
  | nil => intro st i op h; simp at h
  | cons o ops ih =>
    intro st i op h
    cases i with
    | zero =>
      have : o = op := by simpa using h
      subst this
      simp [run, stAfter]
    | succ i =>
      have h' : ops[i]? = some op := by simpa using h
      have := ih (stepM P cached st o).1 i op h'
      simpa [run, stAfter] using this

theorem run_length (P : Params α ρ S δ) (cached : Bool) :
    ∀ (ops : List (Op α ρ S)) (st : St α ρ), (run P cached st ops).length = ops.length := by
  intro ops
  induction ops with
  | nil => intro st; rfl
  | cons o ops ih => intro st; simp [run, ih]

/-- **history theorem**: for every history of setters, re-allocations and draws, the output of every operation meets the
property for the configuration in force when it ran (`confAfter` of the operations before it). -/
theorem run_ok (le : α → α → Prop) (P : Params α ρ S δ) (hd : DrawOK le P) (st : St α ρ) (ops : List (Op α ρ S))
    (hc : ConfOK le st.conf) (ho : ∀ op ∈ ops, OpOK le op) (i : Nat) (op : Op α ρ S) (hi : ops[i]? = some op) :
    ∃ out, (run P false st ops)[i]? = some out ∧ OutOK le P (confAfter st.conf (ops.take i)) op out := by
  refine ⟨_, run_getElem? P false ops st i op hi, ?_⟩
  have hconf := stAfter_conf P false (ops.take i) st
  have hok : ConfOK le (stAfter P false st (ops.take i)).conf := by
    rw [hconf]
    exact confAfter_ok le _ _ hc (fun o h => ho o (List.mem_of_mem_take h))
  have hop : OpOK le op := ho op (List.mem_of_getElem? hi)
  have := stepM_ok le P hd (stAfter P false st (ops.take i)) op hok hop
  rw [hconf] at this
  exact this

end OmplModel.ControlReconf
