import OmplModel.Model.ControlReconf
import OmplModel.Proofs.Control
/-! Helper lemmas for `Model/ControlReconf.lean` (control samplers under reconfiguration).  Core Lean only; arithmetic-free:
the draw functions are parameters constrained only by their contracts. -/
namespace OmplModel.ControlReconf
open OmplModel OmplModel.Control

variable {α ρ S δ : Type}

/-- the invariant every setter preserves: bounds well formed, `minSteps ≤ maxSteps` -/
def ConfOK (le : α → α → Prop) (c : Conf α) : Prop := WFB le c.cb ∧ c.minSteps ≤ c.maxSteps

/-- contracts of the two draw functions -/
def DrawOK (le : α → α → Prop) (P : Params α ρ S δ) : Prop :=
  (∀ b g, WFB le b → InB le b (P.drawCtl b g).1) ∧
  (∀ a b g, a ≤ b → a ≤ (P.drawSteps a b g).1 ∧ (P.drawSteps a b g).1 ≤ b)

theorem stepM_conf (P : Params α ρ S δ) (cached : Bool) (st : St α ρ) (op : Op α ρ S) :
    (stepM P cached st op).1.conf = applyConf st.conf op := by
  cases op <;> rfl

theorem stAfter_conf (P : Params α ρ S δ) (cached : Bool) :
    ∀ (ops : List (Op α ρ S)) (st : St α ρ), (stAfter P cached st ops).conf = confAfter st.conf ops := by
  intro ops
  induction ops with
  | nil => intro st; rfl
  | cons op ops ih =>
    intro st
    show (stAfter P cached (stepM P cached st op).1 ops).conf = confAfter (applyConf st.conf op) ops
    rw [ih, stepM_conf]

theorem applyConf_ok (le : α → α → Prop) (c : Conf α) (op : Op α ρ S) (hc : ConfOK le c) (ho : OpOK le op) :
    ConfOK le (applyConf c op) := by
  cases op with
  | setBounds b => exact ⟨ho, hc.2⟩
  | setMinMax a b => exact ⟨hc.1, ho⟩
  | setStep dt => exact hc
  | realloc g => exact hc
  | sample => exact hc
  | stepCount a b => exact hc
  | sampleTo s d => exact hc
  | steerTo s d => exact hc

theorem confAfter_ok (le : α → α → Prop) :
    ∀ (ops : List (Op α ρ S)) (c : Conf α), ConfOK le c → (∀ op ∈ ops, OpOK le op) → ConfOK le (confAfter c ops) := by
  intro ops
  induction ops with
  | nil => intro c hc _; exact hc
  | cons op ops ih =>
    intro c hc ho
    exact ih (applyConf c op) (applyConf_ok le c op hc (ho op (List.mem_cons_self ..)))
      (fun o h => ho o (List.mem_cons_of_mem _ h))

theorem drawsLater_ok (le : α → α → Prop) (P : Params α ρ S δ) (hd : DrawOK le P) (cb : CBounds α) (mn mx : Nat)
    (hb : WFB le cb) (hm : mn ≤ mx) :
    ∀ n g, ∀ x ∈ (drawsLater P cb mn mx n g).1, InB le cb x.1 ∧ x.2 ≤ mx := by
  intro n
  induction n with
  | zero => intro g x hx; simp [drawsLater] at hx
  | succ n ih =>
    intro g x hx
    simp only [drawsLater, List.mem_cons] at hx
    rcases hx with rfl | hx
    · exact ⟨hd.1 cb _ hb, (hd.2 mn mx g hm).2⟩
    · exact ih _ x hx

theorem drawsAll_ok (le : α → α → Prop) (P : Params α ρ S δ) (hd : DrawOK le P) (cb : CBounds α) (mn mx : Nat)
    (hb : WFB le cb) (hm : mn ≤ mx) (g : ρ) :
    ∀ x ∈ (drawsAll P cb mn mx g).1, InB le cb x.1 ∧ x.2 ≤ mx := by
  intro x hx
  simp only [drawsAll, List.mem_cons] at hx
  rcases hx with rfl | hx
  · exact ⟨hd.1 cb _ hb, (hd.2 mn mx _ hm).2⟩
  · exact drawsLater_ok le P hd cb mn mx hb hm _ _ x hx

/-- one operation of the as-coded sampler meets the property for the configuration it ran under -/
theorem stepM_ok (le : α → α → Prop) (P : Params α ρ S δ) (hd : DrawOK le P) (st : St α ρ) (op : Op α ρ S)
    (hc : ConfOK le st.conf) (ho : OpOK le op) :
    OutOK le P st.conf op (stepM P false st op).2 := by
  cases op with
  | setBounds b => trivial
  | setMinMax a b => trivial
  | setStep dt => trivial
  | realloc g => trivial
  | sample => exact hd.1 _ _ hc.1
  | stepCount a b => exact hd.2 a b _ ho
  | sampleTo src dest =>
    intro u n s' hr
    have hs := sampleTo_ok (P.step st.conf.dt) P.valid P.dist P.lt src dest _ (u, n, s') hr
    obtain ⟨h1, h2, k, hk, hnk⟩ := hs
    have hx := drawsAll_ok le P hd st.conf.cb st.conf.minSteps st.conf.maxSteps hc.1 hc.2 st.gen (u, k) hk
    exact ⟨hx.1, Nat.le_trans hnk hx.2, h1, h2⟩
  | steerTo src dest =>
    intro u n s' hr
    simp only [steeredTo] at hr
    cases hs : P.steer src dest with
    | none => rw [hs] at hr; cases hr
    | some ud =>
      obtain ⟨u0, d⟩ := ud
      rw [hs] at hr
      have e := Option.some.inj hr
      have e1 : u0 = u := (Prod.mk.inj e).1
      have e2 : (pwv (P.step st.conf.dt) P.valid src u0 (P.toSteps d st.conf.dt)).1 = n := (Prod.mk.inj (Prod.mk.inj e).2).1
      have e3 : (pwv (P.step st.conf.dt) P.valid src u0 (P.toSteps d st.conf.dt)).2 = s' := (Prod.mk.inj (Prod.mk.inj e).2).2
      subst e1
      have sp := pwv_spec' (P.step st.conf.dt) P.valid src u0 (P.toSteps d st.conf.dt)
      rw [e2, e3] at sp
      exact ⟨⟨d, rfl, sp.2.2.2, sp.2.2.1⟩, sp.1, sp.2.1⟩

/-- the `i`-th output of a run is the `i`-th operation applied to the state after the first `i` operations -/
theorem run_getElem? (P : Params α ρ S δ) (cached : Bool) :
    ∀ (ops : List (Op α ρ S)) (st : St α ρ) (i : Nat) (op : Op α ρ S), ops[i]? = some op →
      (run P cached st ops)[i]? = some (stepM P cached (stAfter P cached st (ops.take i)) op).2 := by
  intro ops
  induction ops with
  | nil => intro st i op h; simp at h
  | cons o ops ih =>
    intro st i op h
    cases i with
    | zero =>
      have : o = op := by simpa using h
      subst this
      simp [run, stAfter]
    | succ i =>
      have h' : ops[i]? = some op := by simpa using h
      have := ih (stepM P cached st o).1 i op h'
      simpa [run, stAfter] using this

theorem run_length (P : Params α ρ S δ) (cached : Bool) :
    ∀ (ops : List (Op α ρ S)) (st : St α ρ), (run P cached st ops).length = ops.length := by
  intro ops
  induction ops with
  | nil => intro st; rfl
  | cons o ops ih => intro st; simp [run, ih]

/-- **history theorem**: for every history of setters, re-allocations and draws, the output of every operation meets the
property for the configuration in force when it ran (`confAfter` of the operations before it). -/
theorem run_ok (le : α → α → Prop) (P : Params α ρ S δ) (hd : DrawOK le P) (st : St α ρ) (ops : List (Op α ρ S))
    (hc : ConfOK le st.conf) (ho : ∀ op ∈ ops, OpOK le op) (i : Nat) (op : Op α ρ S) (hi : ops[i]? = some op) :
    ∃ out, (run P false st ops)[i]? = some out ∧ OutOK le P (confAfter st.conf (ops.take i)) op out := by
  refine ⟨_, run_getElem? P false ops st i op hi, ?_⟩
  have hconf := stAfter_conf P false (ops.take i) st
  have hok : ConfOK le (stAfter P false st (ops.take i)).conf := by
    rw [hconf]
    exact confAfter_ok le _ _ hc (fun o h => ho o (List.mem_of_mem_take h))
  have hop : OpOK le op := ho op (List.mem_of_getElem? hi)
  have := stepM_ok le P hd (stAfter P false st (ops.take i)) op hok hop
  rw [hconf] at this
  exact this

/-! ## re-entrancy -/
section reentrant
variable {U σ : Type}

theorem pwvLoopM_pure (step : S → U → S) (valid : S → Bool) (cb : σ → S → Bool × σ)
    (hcb : ∀ w s, (cb w s).1 = valid s) (u : U) :
    ∀ fuel i cur w, (pwvLoopM step cb u fuel i cur w).1 = pwvLoop step valid u fuel i cur := by
  intro fuel
  induction fuel with
  | zero => intro i cur w; rfl
  | succ fuel ih =>
    intro i cur w
    simp only [pwvLoopM, pwvLoop, hcb]
    split
    · exact ih _ _ _
    · rfl

theorem pwvM_pure (step : S → U → S) (valid : S → Bool) (cb : σ → S → Bool × σ)
    (hcb : ∀ w s, (cb w s).1 = valid s) (s : S) (u : U) (n : Nat) (w : σ) :
    (pwvM step cb s u n w).1 = pwv step valid s u n := by
  cases n with
  | zero => rfl
  | succ n =>
    simp only [pwvM, pwv, hcb]
    split
    · exact pwvLoopM_pure step valid cb hcb u _ _ _ _
    · rfl

theorem pwvLoop_bounds (step : S → U → S) (valid : S → Bool) (u : U) :
    ∀ fuel i cur, i ≤ (pwvLoop step valid u fuel i cur).1 ∧ (pwvLoop step valid u fuel i cur).1 ≤ i + fuel := by
  intro fuel
  induction fuel with
  | zero => intro i cur; simp [pwvLoop]
  | succ fuel ih =>
    intro i cur
    simp only [pwvLoop]
    split
    · have := ih (i + 1) (step cur u); omega
    · simp

/-- number of validity queries of one call: `min (r + 1) steps` -/
def queries (r steps : Nat) : Nat := min (r + 1) steps

theorem nest_if_aux {β : Type} (c k q : Nat) (X rec : β) :
    (c + 1 + q, if c + 1 ≤ k ∧ k < c + 1 + q then X else if c = k then X else rec) =
      (c + (1 + q), if c ≤ k ∧ k < c + (1 + q) then X else rec) := by
  refine Prod.ext (by show c + 1 + q = c + (1 + q); omega) ?_
  show (if c + 1 ≤ k ∧ k < c + 1 + q then X else if c = k then X else rec) = (if c ≤ k ∧ k < c + (1 + q) then X else rec)
  by_cases h1 : c + 1 ≤ k ∧ k < c + 1 + q
  · rw [if_pos h1, if_pos (by omega)]
  · rw [if_neg h1]
    by_cases h2 : c = k
    · rw [if_pos h2, if_pos (by omega)]
    · rw [if_neg h2, if_neg (by omega)]

theorem pwvLoopM_nest {β : Type} (step : S → U → S) (valid : S → Bool) (k : Nat) (x : β) (u : U) :
    ∀ fuel i cur c rec,
      (pwvLoopM step (nestCbX valid k x) u fuel i cur (c, rec)).2 =
        (c + queries ((pwvLoop step valid u fuel i cur).1 - i) fuel,
         if c ≤ k ∧ k < c + queries ((pwvLoop step valid u fuel i cur).1 - i) fuel then some x else rec) := by
  intro fuel
  induction fuel with
  | zero =>
    intro i cur c rec
    have hq : queries (i - i) 0 = 0 := by simp [queries]
    simp only [pwvLoopM, pwvLoop, hq]
    rw [if_neg (by omega)]
    rfl
  | succ fuel ih =>
    intro i cur c rec
    simp only [pwvLoopM, pwvLoop, nestCbX]
    by_cases hv : valid (step cur u) = true
    · simp only [hv, if_true]
      rw [ih]
      have hge := pwvLoop_bounds step valid u fuel (i + 1) (step cur u)
      have e : queries ((pwvLoop step valid u fuel (i + 1) (step cur u)).1 - i) (fuel + 1) =
          1 + queries ((pwvLoop step valid u fuel (i + 1) (step cur u)).1 - (i + 1)) fuel := by
        simp only [queries]; omega
      rw [e]
      exact nest_if_aux c k _ _ rec
    · have hv' : valid (step cur u) = false := by simpa using hv
      simp only [hv', Bool.false_eq_true, if_false]
      have hq : queries (i - i) (fuel + 1) = 1 := by simp only [queries, Nat.sub_self]; omega
      rw [hq]
      refine Prod.ext rfl ?_
      show (if c = k then some x else rec) = (if c ≤ k ∧ k < c + 1 then some x else rec)
      by_cases h2 : c = k
      · rw [if_pos h2, if_pos (by omega)]
      · rw [if_neg h2, if_neg (by omega)]

theorem pwvM_nestX {β : Type} (step : S → U → S) (valid : S → Bool) (k : Nat) (x : β) (s : S) (u : U) (n : Nat) :
    pwvM step (nestCbX valid k x) s u n (0, none) =
      (pwv step valid s u n,
       (queries (pwv step valid s u n).1 n, if k < queries (pwv step valid s u n).1 n then some x else none)) := by
  have h1 := pwvM_pure step valid (nestCbX valid k x) (fun w s => by cases w; rfl) s u n (0, none)
  refine Prod.ext h1 ?_
  cases n with
  | zero => simp [pwvM, queries]
  | succ n =>
    simp only [pwvM, pwv, nestCbX]
    by_cases hv : valid (step s u) = true
    · simp only [hv, if_true]
      rw [pwvLoopM_nest]
      have hge := pwvLoop_bounds step valid u n 1 (step s u)
      have e : queries (pwvLoop step valid u n 1 (step s u)).1 (n + 1) =
          1 + queries ((pwvLoop step valid u n 1 (step s u)).1 - 1) n := by
        simp only [queries]; omega
      rw [e]
      have := nest_if_aux 0 k (queries ((pwvLoop step valid u n 1 (step s u)).1 - 1) n) (some x) (none : Option β)
      simpa using this
    · have hv' : valid (step s u) = false := by simpa using hv
      simp only [hv', Bool.false_eq_true, if_false]
      have hq : queries 0 (n + 1) = 1 := by simp only [queries]; omega
      rw [hq]
      refine Prod.ext rfl ?_
      show (if 0 = k then some x else none) = (if k < 1 then some x else none)
      by_cases h2 : 0 = k
      · rw [if_pos h2, if_pos (by omega)]
      · rw [if_neg h2, if_neg (by omega)]

end reentrant

end OmplModel.ControlReconf
