import OmplModel.Proofs.ControlRRT
import OmplModel.Model.CKPIECE
import OmplModel.Proofs.DiscProps
/-! Helper lemmas for `Model/CKPIECE.lean` (`control::KPIECE1::solve`): the generic tree invariant of
`Proofs/ControlRRT.lean` for split motions, and the C13 Discretization invariant `DInv` (reused from
`Proofs/DiscInv.lean`: `select_inv`, `updScore_inv`, `select_returns_live`, `GridAccess`, …) extended
to the control planner's own `addCell`. Core Lean only; arithmetic-free (any `Num α`). -/
namespace OmplModel.CKPIECE
open OmplModel OmplModel.Control OmplModel.CRRT OmplModel.Grid OmplModel.Disc
variable {S U α ρ : Type} [Num α] [HasLog α]

/-! ## propagation facts -/

theorem propagate_add (step : S → U → S) (s : S) (u : U) (a b : Nat) :
    propagate step s u (a + b) = propagate step (propagate step s u a) u b := by
  induction b with
  | zero => rfl
  | succ b ih =>
    show step (propagate step s u (a + b)) u = step (propagate step (propagate step s u a) u b) u
    rw [ih]

theorem findNext_bounds (coords : List Coord) (index count : Nat) (h : index < count) :
    index ≤ findNext coords index count ∧ findNext coords index count < count := by
  unfold findNext
  cases hf : ((List.range count).drop (index + 1)).find? (fun i => coords[i]? != coords[index]?) with
  | none => simp only; omega
  | some i =>
    simp only
    have hm := List.mem_of_find?_eq_some hf
    have h1 : i < count := List.mem_range.mp (List.mem_of_mem_drop hm)
    obtain ⟨j, hj⟩ := List.getElem?_of_mem hm
    rw [List.getElem?_drop] at hj
    have hlt : index + 1 + j < count := by
      by_cases hlt : index + 1 + j < count
      · exact hlt
      · rw [List.getElem?_eq_none (by simp; omega)] at hj; cases hj
    rw [List.getElem?_range hlt] at hj
    have : index + 1 + j = i := Option.some.inj hj
    omega

/-- the states the iteration reads out of the pre-sized vector: `cd` valid propagation steps -/
theorem kpiece_states (step : S → U → S) (valid : S → Bool) (s : S) (u : U) (steps M : Nat) :
    someStates ((pwvVec step valid s u steps (List.replicate (M + 1) none) false).2.take
        (pwvVec step valid s u steps (List.replicate (M + 1) none) false).1) =
      (List.range (pwvVec step valid s u steps (List.replicate (M + 1) none) false).1).map
        (fun i => propagate step s u (i + 1)) ∧
    (∀ i, 1 ≤ i → i ≤ (pwvVec step valid s u steps (List.replicate (M + 1) none) false).1 →
      valid (propagate step s u i) = true) ∧
    (pwvVec step valid s u steps (List.replicate (M + 1) none) false).1 ≤ steps := by
  have hout : pwvVec step valid s u steps (List.replicate (M + 1) none) false =
      pwvVecLoop step valid u false (min steps (M + 1)) 0 s (List.replicate (M + 1) none) := by
    simp [pwvVec, List.replicate_succ]
  rw [hout]
  have h := pwvVecLoop_noalloc step valid s u (min steps (M + 1)) 0 (List.replicate (M + 1) none)
    (by simp only [List.length_replicate]; omega)
  have hs := pwvLoop_spec step valid s u (min steps (M + 1)) 0
  rw [show propagate step s u 0 = s from rfl] at h hs
  obtain ⟨h1, h2, _, h4, _, _⟩ := h
  obtain ⟨_, _, s3, s4, _⟩ := hs
  rw [← h1] at s3 s4 h4
  generalize pwvVecLoop step valid u false (min steps (M + 1)) 0 s (List.replicate (M + 1) none) = out
    at h1 h2 h4 s3 s4 ⊢
  simp only [List.length_replicate] at h2
  refine ⟨?_, fun i hi1 hi2 => s4 i (by omega) hi2, by omega⟩
  have : out.2.take out.1 = (List.range out.1).map (fun i => some (propagate step s u (i + 1))) := by
    apply List.ext_getElem?
    intro i
    by_cases hi : i < out.1
    · rw [List.getElem?_take_of_lt hi, h4 i (Nat.zero_le _) hi, List.getElem?_map, List.getElem?_range hi]
      rfl
    · rw [List.getElem?_eq_none (by simp; omega), List.getElem?_eq_none (by simp; omega)]
  rw [this, someStates_map_some]

/-! ## `addCell` keeps the C13 Discretization invariant (as `Disc.add_inv`; only the coverage and
score formulas differ, which `DInv` does not mention) -/

theorem addCell_inv {P : Params α} {d : Disc α} {live : Live} (h : DInv P d live) {m steps : Nat} {x : Coord}
    {dist : α} (hx : x.length = P.dim) (hm : m ∉ live.map (·.1)) :
    DInv P (addCell P d m steps x dist) (live ++ [(m, x)]) := by
  have hlnd : ((live ++ [(m, x)]).map (·.1)).Nodup := by
    rw [List.map_append, List.nodup_append]
    refine ⟨h.lnd, by simp, ?_⟩
    intro a ha b hb hab
    simp at hb; subst hb; subst hab; exact hm ha
  unfold addCell
  cases hl : lookup d.cdata x with
  | some cd =>
    have hxk : x ∈ keys d.cdata :=
      Classical.byContradiction (fun hn => by rw [lookup_none_iff.2 hn] at hl; cases hl)
    have hhas : has d.grid.cells x = true := (h.has_iff x).2 hxk
    simp only [hhas, if_true]
    have hi' : Grid.Inv (gcfg P (setData d.cdata x
        { cd with motions := cd.motions ++ [m], coverage := cd.coverage + Num.ofNat steps })) d.grid :=
      h.ginv.shape (shape P _ _)
    refine ⟨step_inv (op := .upd x 0) trivial hi', ?_, ?_, ?_, ?_, hlnd⟩
    · show (Grid.step _ d.grid (.upd x 0)).cells.map (·.coord) = keys (setData _ _ _)
      rw [keys_setData, ← h.sync]; exact coords_update _ _ _ _
    · intro e he
      rcases mem_setData he with rfl | ⟨hme, hne⟩
      · have := h.lookup_mot hl
        refine ⟨?_, by simp⟩
        show cd.motions ++ [m] = motionsAt (live ++ [(m, x)]) x
        rw [motionsAt_append, this.1]; simp
      · rw [motionsAt_append]
        have : (x == e.1) = false := by simpa using (Ne.symm hne)
        simp only [this, Bool.false_eq_true, if_false, List.append_nil]
        exact h.mot e hme
    · intro p hp
      show p.2 ∈ keys (setData _ _ _)
      rw [keys_setData]
      rcases List.mem_append.1 hp with hp | hp
      · exact h.cov p hp
      · simp at hp; subst hp; exact hxk
    · show d.size + 1 = (live ++ [(m, x)]).length
      rw [h.size]; simp
  | none =>
    have hxk : x ∉ keys d.cdata := lookup_none_iff.1 hl
    have hhas : has d.grid.cells x = false := by
      cases hh : has d.grid.cells x with
      | false => rfl
      | true => exact absurd ((h.has_iff x).1 hh) hxk
    simp only [hhas, Bool.false_eq_true, if_false]
    have hi'' : ∀ tbl', Grid.Inv (gcfg P tbl') d.grid := fun _ => h.ginv.shape (shape P _ _)
    have hat : motionsAt live x = [] := by
      unfold motionsAt
      have : live.filter (fun p => p.2 == x) = [] := by
        apply List.filter_eq_nil_iff.2
        intro p hp hpx
        exact hxk ((by simpa using hpx : p.2 = x) ▸ h.cov p hp)
      rw [this]; rfl
    refine ⟨step_inv (op := .new x 0) hx (hi'' _), ?_, ?_, ?_, ?_, hlnd⟩
    · show (Grid.step _ d.grid (.new x 0)).cells.map (·.coord) = keys (d.cdata ++ [_])
      rw [coords_step (hi'' _) (.new x 0) hx]
      simp only [hhas, Bool.false_eq_true, if_false]
      rw [h.sync]; unfold keys; rw [List.map_append]; rfl
    · intro e he
      rcases List.mem_append.1 he with hme | hme
      · have hne : e.1 ≠ x := fun hex => hxk (hex ▸ List.mem_map.2 ⟨e, hme, rfl⟩)
        rw [motionsAt_append]
        have : (x == e.1) = false := by simpa using (Ne.symm hne)
        simp only [this, Bool.false_eq_true, if_false, List.append_nil]
        exact h.mot e hme
      · simp at hme; subst hme
        refine ⟨?_, by simp⟩
        show [m] = motionsAt (live ++ [(m, x)]) x
        rw [motionsAt_append, hat]; simp
    · intro p hp
      show p.2 ∈ keys (d.cdata ++ [_])
      unfold keys; rw [List.map_append]
      rcases List.mem_append.1 hp with hp | hp
      · exact List.mem_append_left _ (h.cov p hp)
      · simp at hp; subst hp; simp
    · show d.size + 1 = (live ++ [(m, x)]).length
      rw [h.size]; simp

theorem addCell_access {P : Params α} (d : Disc α) (m steps : Nat) (x : Coord) (dist : α)
    (hx : x.length = P.dim) : GridAccess P d (addCell P d m steps x dist) := by
  unfold addCell
  cases hl : lookup d.cdata x with
  | some cd =>
    simp only []
    split
    · exact .one _ (.upd x 0) rfl trivial (by intro y dd h; cases h) (by intro y h; cases h)
    · exact .none rfl
  | none =>
    simp only []
    split
    · exact .none rfl
    · rename_i hh
      refine .one _ (.new x 0) rfl hx ?_ (by intro y h; cases h)
      intro y dd he
      cases he
      simpa using hh

omit [HasLog α] in
theorem scaleScore_eq (Pb : Problem S U α ρ) (d : Disc α) (x : Coord) (f : α) :
    scaleScore Pb d x f = d ∨ ∃ s, scaleScore Pb d x f = updScore Pb.P d x s := by
  unfold scaleScore
  split
  · exact Or.inr ⟨_, rfl⟩
  · exact Or.inl rfl

/-! ## the planner's accesses to the discretization, as a history -/

/-- one access of `control::KPIECE1` to its `TreeData`: `addMotion` of a fresh motion under a coordinate
of the right dimension, `selectMotion`, a score change with `grid.update(cell)`, `iteration++` -/
inductive KStep (P : Params α) : Disc α → Live → Disc α → Live → Prop
  | add (d : Disc α) (live : Live) (m steps : Nat) (x : Coord) (dist : α) (hx : x.length = P.dim)
      (hm : m ∉ live.map (·.1)) : KStep P d live (addCell P d m steps x dist) (live ++ [(m, x)])
  | select (d : Disc α) (live : Live) (u : α) (pick : Nat → Nat) : KStep P d live (select P d u pick).1 live
  | upd (d : Disc α) (live : Live) (x : Coord) (s : α) : KStep P d live (updScore P d x s) live
  | count (d : Disc α) (live : Live) : KStep P d live (countIteration d) live

/-- the states of the discretization reachable by such accesses from the empty one -/
inductive KReach (P : Params α) (bf : α) : Disc α → Live → Prop
  | init : KReach P bf { bf := bf } []
  | step {d d' : Disc α} {live live' : Live} : KReach P bf d live → KStep P d live d' live' → KReach P bf d' live'

theorem kstep_inv {P : Params α} {d d' : Disc α} {live live' : Live} (h : DInv P d live)
    (s : KStep P d live d' live') : DInv P d' live' := by
  cases s with
  | add m steps x dist hx hm => exact addCell_inv h hx hm
  | select u pick => exact (select_inv h u pick).1
  | upd x s => exact updScore_inv h x s
  | count => exact ⟨h.ginv, h.sync, h.mot, h.cov, h.size, h.lnd⟩

theorem kreach_inv {P : Params α} {bf : α} {d : Disc α} {live : Live} (h : KReach P bf d live) :
    DInv P d live := by
  induction h with
  | init => exact empty_inv P bf
  | step _ s ih => exact kstep_inv ih s

theorem kstep_access {P : Params α} {d d' : Disc α} {live live' : Live} (s : KStep P d live d' live') :
    GridAccess P d d' := by
  cases s with
  | add m steps x dist hx hm => exact addCell_access d m steps x dist hx
  | select u pick => exact select_access d u pick
  | upd x s =>
    unfold updScore
    split
    · exact .one _ (.upd x 0) rfl trivial (by intro y dd h; cases h) (by intro y h; cases h)
    · exact .none rfl
  | count => exact .none rfl

/-! ## motions stored under the projection of their state -/

/-- motion `i` is stored under `coordOf` of its state -/
def liveOf (Pb : Problem S U α ρ) (tree : Array (Motion S U)) : Live :=
  (List.range tree.size).map (fun i => (i, ((tree[i]?).map (fun m => Pb.coordOf m.state)).getD []))

omit [Num α] [HasLog α] in
theorem liveOf_push (Pb : Problem S U α ρ) (tree : Array (Motion S U)) (m : Motion S U) :
    liveOf Pb (tree.push m) = liveOf Pb tree ++ [(tree.size, Pb.coordOf m.state)] := by
  unfold liveOf
  rw [Array.size_push, List.range_succ, List.map_append]
  congr 1
  · apply List.map_congr_left
    intro i hi
    rw [getElem?_push_lt _ _ _ (List.mem_range.mp hi)]
  · simp

omit [Num α] [HasLog α] in
theorem liveOf_fst (Pb : Problem S U α ρ) (tree : Array (Motion S U)) :
    (liveOf Pb tree).map (·.1) = List.range tree.size := by
  unfold liveOf
  rw [List.map_map]
  exact List.map_id' _ |>.symm ▸ (List.map_congr_left (fun _ _ => rfl))

omit [Num α] [HasLog α] in
theorem mem_liveOf (Pb : Problem S U α ρ) (tree : Array (Motion S U)) (i : Nat) (x : Coord) :
    (i, x) ∈ liveOf Pb tree ↔ ∃ mo, tree[i]? = some mo ∧ x = Pb.coordOf mo.state := by
  unfold liveOf
  constructor
  · intro h
    obtain ⟨j, hj, e⟩ := List.mem_map.mp h
    have hlt := List.mem_range.mp hj
    simp only [Prod.mk.injEq] at e
    obtain ⟨rfl, e2⟩ := e
    rw [Array.getElem?_eq_getElem hlt] at e2
    exact ⟨tree[j], Array.getElem?_eq_getElem hlt, e2.symm⟩
  · rintro ⟨mo, h1, rfl⟩
    exact List.mem_map.mpr ⟨i, List.mem_range.mpr (lt_size_of_getElem? h1), by rw [h1]; rfl⟩

/-! ## CloseSamples -/

omit [HasLog α] in
theorem closeInsert_mem : ∀ (l : List (Close α)) (c c' : Close α), c' ∈ closeInsert l c → c' ∈ l ∨ c' = c := by
  intro l
  induction l with
  | nil => intro c c' h; simp [closeInsert] at h; exact Or.inr h
  | cons x xs ih =>
    intro c c' h
    simp only [closeInsert] at h
    split at h
    · rcases List.mem_cons.mp h with h | h
      · exact Or.inr h
      · exact Or.inl h
    · split at h
      · rcases List.mem_cons.mp h with h | h
        · exact Or.inl (h ▸ List.mem_cons_self ..)
        · rcases ih c c' h with h | h
          · exact Or.inl (List.mem_cons_of_mem _ h)
          · exact Or.inr h
      · exact Or.inl h

omit [HasLog α] in
theorem closeConsider_mem (n : Nat) (l : List (Close α)) (c c' : Close α)
    (h : c' ∈ closeConsider n l c) : c' ∈ l ∨ c' = c := by
  unfold closeConsider at h
  split at h
  · exact Or.inr (by simpa using h)
  · split at h
    · rcases closeInsert_mem _ c c' h with h | h
      · split at h
        · exact Or.inl (List.dropLast_subset _ h)
        · exact Or.inl h
      · exact Or.inr h
    · exact Or.inl h

omit [HasLog α] in
theorem closeSelect_mem (n : Nat) (l l' : List (Close α)) (m : Nat) (x : Coord)
    (h : closeSelect n l = some (m, x, l')) :
    (∃ c ∈ l, c.motion = m) ∧ ∀ c' ∈ l', ∃ c ∈ l, c'.motion = c.motion := by
  unfold closeSelect at h
  split at h
  · rename_i first rest last _
    simp only [Option.some.injEq, Prod.mk.injEq] at h
    obtain ⟨h1, _, h3⟩ := h
    refine ⟨⟨first, List.mem_cons_self .., h1⟩, ?_⟩
    intro c' hc'
    rw [← h3] at hc'
    rcases closeConsider_mem _ _ _ _ hc' with hc | hc
    · exact ⟨c', List.mem_cons_of_mem _ hc, rfl⟩
    · exact ⟨first, List.mem_cons_self .., by rw [hc]⟩
  · cases h

/-! ## the planner invariant -/

/-- a split motion: a whole number ≥ 1 of steps of one scripted control, at most the drawn count -/
def GoodK (draws : List (Draw U)) (u : U) (k : Nat) : Prop :=
  1 ≤ k ∧ ∃ d ∈ draws, d.control = u ∧ k ≤ d.steps

structure KInvC (Pb : Problem S U α ρ) (starts : List S) (draws : List (Draw U)) (n0 : Nat)
    (tree : Array (Motion S U)) (disc : Disc α) (close : List (Close α)) (sol app : Option Nat) : Prop where
  tinv : TreeInvG Pb.step Pb.valid starts (GoodK draws) tree
  solok : ∀ i, sol = some i → ∃ m, tree[i]? = some m ∧ (Pb.goal m.state).1 = true
  appok : ∀ i, app = some i → i < tree.size
  closeok : ∀ c ∈ close, c.motion < tree.size
  grow : n0 ≤ tree.size
  /-- needs the projection to have `dim` coordinates -/
  dreach : (∀ s, (Pb.coordOf s).length = Pb.P.dim) → KReach Pb.P Pb.borderFraction disc (liveOf Pb tree)

def KInv (Pb : Problem S U α ρ) (starts : List S) (draws : List (Draw U)) (n0 : Nat) (st : St S U α ρ) : Prop :=
  KInvC Pb starts draws n0 st.tree st.disc st.close st.solution st.approxsol

section
variable {Pb : Problem S U α ρ} {starts : List S} {draws : List (Draw U)} {n0 : Nat}
  {tree : Array (Motion S U)} {disc : Disc α} {close : List (Close α)} {sol app : Option Nat}

theorem KInvC.push (h : KInvC Pb starts draws n0 tree disc close sol app) (m : Motion S U)
    (hm : GoodMotionG Pb.step Pb.valid starts (GoodK draws) tree tree.size m) (k : Nat) (dist : α) :
    KInvC Pb starts draws n0 (tree.push m) (addCell Pb.P disc tree.size k (Pb.coordOf m.state) dist)
      close sol app := by
  refine ⟨treeInvG_push _ _ _ _ _ _ h.tinv hm, ?_, ?_, ?_, ?_, ?_⟩
  · intro i hi
    obtain ⟨m', h1, h2⟩ := h.solok i hi
    exact ⟨m', by rw [getElem?_push_lt _ _ _ (lt_size_of_getElem? h1)]; exact h1, h2⟩
  · intro i hi; have := h.appok i hi; rw [Array.size_push]; omega
  · intro c hc; have := h.closeok c hc; rw [Array.size_push]; omega
  · have := h.grow; rw [Array.size_push]; omega
  · intro hcoord
    rw [liveOf_push]
    exact .step (h.dreach hcoord) (.add _ _ _ _ _ _ (hcoord _) (by rw [liveOf_fst]; simp))

theorem KInvC.setSol (h : KInvC Pb starts draws n0 tree disc close sol app) (i : Nat) (m : Motion S U)
    (hi : tree[i]? = some m) (hg : (Pb.goal m.state).1 = true) :
    KInvC Pb starts draws n0 tree disc close (some i) app :=
  ⟨h.tinv, fun j hj => by cases Option.some.inj hj; exact ⟨m, hi, hg⟩, h.appok, h.closeok, h.grow, h.dreach⟩

theorem KInvC.setApp (h : KInvC Pb starts draws n0 tree disc close sol app) (i : Nat) (hi : i < tree.size) :
    KInvC Pb starts draws n0 tree disc close sol (some i) :=
  ⟨h.tinv, h.solok, fun j hj => by cases Option.some.inj hj; exact hi, h.closeok, h.grow, h.dreach⟩

theorem KInvC.setClose (h : KInvC Pb starts draws n0 tree disc close sol app) (l : List (Close α))
    (hl : ∀ c ∈ l, c.motion < tree.size) : KInvC Pb starts draws n0 tree disc l sol app :=
  ⟨h.tinv, h.solok, h.appok, hl, h.grow, h.dreach⟩

theorem KInvC.setDisc (h : KInvC Pb starts draws n0 tree disc close sol app) (d' : Disc α)
    (hd : KReach Pb.P Pb.borderFraction disc (liveOf Pb tree) → KReach Pb.P Pb.borderFraction d' (liveOf Pb tree)) :
    KInvC Pb starts draws n0 tree d' close sol app :=
  ⟨h.tinv, h.solok, h.appok, h.closeok, h.grow, fun hc => hd (h.dreach hc)⟩

theorem KInvC.scale (h : KInvC Pb starts draws n0 tree disc close sol app) (x : Coord) (f : α) :
    KInvC Pb starts draws n0 tree (scaleScore Pb disc x f) close sol app := by
  refine h.setDisc _ (fun hr => ?_)
  rcases scaleScore_eq Pb disc x f with e | ⟨s, e⟩
  · rw [e]; exact hr
  · rw [e]; exact .step hr (.upd _ _ _ _)

end

/-- the `while (index < cd)` loop keeps the invariant.  `s0` is the state of the selected motion; the
`i`-th propagated state is `propagate s0 u (i+1)`; `existing` holds `propagate s0 u index`. -/
theorem splitLoop_inv (Pb : Problem S U α ρ) (starts : List S) (draws : List (Draw U)) (n0 : Nat)
    (states : List S) (coords : List Coord) (u : U) (cd : Nat) (s0 : S)
    (hstates : ∀ i, i < cd → states[i]? = some (propagate Pb.step s0 u (i + 1)))
    (hval : ∀ i, 1 ≤ i → i ≤ cd → Pb.valid (propagate Pb.step s0 u i) = true)
    (hd : ∃ d ∈ draws, d.control = u ∧ cd ≤ d.steps) :
    ∀ (fuel index existing : Nat) (st : St S U α ρ), KInv Pb starts draws n0 st →
      (∃ pe, st.tree[existing]? = some pe ∧ pe.state = propagate Pb.step s0 u index) →
      KInv Pb starts draws n0 (splitLoop Pb states coords u cd fuel index existing st).1 := by
  intro fuel
  induction fuel with
  | zero => intro index existing st h _; exact h
  | succ fuel ih =>
    intro index existing st h hex
    simp only [splitLoop]
    by_cases hlt : index < cd
    · rw [if_pos hlt]
      obtain ⟨hb1, hb2⟩ := findNext_bounds coords index cd hlt
      generalize findNext coords index cd = nx at hb1 hb2
      simp only [hstates nx hb2]
      obtain ⟨pe, hpe, hpes⟩ := hex
      have hm : GoodMotionG Pb.step Pb.valid starts (GoodK draws) st.tree st.tree.size
          { state := propagate Pb.step s0 u (nx + 1), control := u, steps := nx - index + 1, parent := some existing } := by
        refine Or.inr ⟨existing, pe, rfl, lt_size_of_getElem? hpe, hpe, ?_, ?_, ?_⟩
        · show propagate Pb.step s0 u (nx + 1) = propagate Pb.step pe.state u (nx - index + 1)
          rw [hpes, ← propagate_add]; congr 1; omega
        · intro j hj1 hj2
          show Pb.valid (propagate Pb.step pe.state u j) = true
          rw [hpes, ← propagate_add]
          have hj2' : j ≤ nx - index + 1 := hj2
          exact hval _ (by omega) (by omega)
        · obtain ⟨d, hd1, hd2, hd3⟩ := hd
          exact ⟨by show 1 ≤ nx - index + 1; omega, d, hd1, hd2, by show nx - index + 1 ≤ d.steps; omega⟩
      have h1 := KInvC.push h _ hm (nx - index + 1) (Pb.goal (propagate Pb.step s0 u (nx + 1))).2
      have hnew : (st.tree.push { state := propagate Pb.step s0 u (nx + 1), control := u, steps := nx - index + 1, parent := some existing })[st.tree.size]? =
          some { state := propagate Pb.step s0 u (nx + 1), control := u, steps := nx - index + 1, parent := some existing } := by
        rw [Array.getElem?_push, if_pos rfl]
      by_cases hg : (Pb.goal (propagate Pb.step s0 u (nx + 1))).1 = true
      · rw [if_pos hg]
        exact h1.setSol _ _ hnew hg
      · rw [if_neg hg]
        apply ih
        · by_cases ha : (Pb.goal (propagate Pb.step s0 u (nx + 1))).2 < st.approxdif
          · simp only [if_pos ha]
            refine ((h1.setApp st.tree.size (lt_size_of_getElem? hnew)).setClose _ ?_)
            intro c hc
            rcases closeConsider_mem _ _ _ _ hc with hc | hc
            · exact h1.closeok c hc
            · rw [hc]; exact lt_size_of_getElem? hnew
          · simp only [if_neg ha]
            refine (h1.setClose _ ?_)
            intro c hc
            rcases closeConsider_mem _ _ _ _ hc with hc | hc
            · exact h1.closeok c hc
            · rw [hc]; exact lt_size_of_getElem? hnew
        · refine ⟨{ state := propagate Pb.step s0 u (nx + 1), control := u, steps := nx - index + 1, parent := some existing }, ?_, rfl⟩
          by_cases ha : (Pb.goal (propagate Pb.step s0 u (nx + 1))).2 < st.approxdif
          · simp only [if_pos ha]; exact hnew
          · simp only [if_neg ha]; exact hnew
    · rw [if_neg hlt]; exact h

/-! ## the split motions of one iteration share one control and their step counts add up -/

/-- each motion's parent is the previous new one (the first one's is `e`); `n` is the index of the head -/
def ChainFrom : Nat → Nat → List (Motion S U) → Prop
  | _, _, [] => True
  | e, n, m :: ms => m.parent = some e ∧ ChainFrom n (n + 1) ms

theorem splitLoop_spec (Pb : Problem S U α ρ) (states : List S) (coords : List Coord) (u : U) (cd : Nat)
    (hlen : states.length = cd) :
    ∀ (fuel index existing : Nat) (st : St S U α ρ), index ≤ cd → cd ≤ index + fuel →
      ∃ news : List (Motion S U),
        (splitLoop Pb states coords u cd fuel index existing st).1.tree.toList = st.tree.toList ++ news ∧
        ChainFrom existing st.tree.size news ∧ (∀ m ∈ news, m.control = u ∧ 1 ≤ m.steps) ∧
        (if (splitLoop Pb states coords u cd fuel index existing st).2 = true
          then news ≠ [] ∧ (news.map (·.steps)).sum ≤ cd - index
          else (news.map (·.steps)).sum = cd - index) := by
  intro fuel
  induction fuel with
  | zero =>
    intro index existing st h1 h2
    refine ⟨[], by simp [splitLoop], trivial, by simp, ?_⟩
    simp only [splitLoop, Bool.false_eq_true, if_false, List.map_nil, List.sum_nil]; omega
  | succ fuel ih =>
    intro index existing st h1 h2
    simp only [splitLoop]
    by_cases hlt : index < cd
    · rw [if_pos hlt]
      obtain ⟨hb1, hb2⟩ := findNext_bounds coords index cd hlt
      generalize findNext coords index cd = nx at hb1 hb2
      have hs : states[nx]? = some (states[nx]'(by omega)) := List.getElem?_eq_getElem (by omega)
      generalize states[nx]'(by omega) = s at hs
      simp only [hs]
      by_cases hg : (Pb.goal s).1 = true
      · simp only [if_pos hg, if_true]
        refine ⟨[{ state := s, control := u, steps := nx - index + 1, parent := some existing }], ?_, ⟨rfl, trivial⟩, ?_, by simp, ?_⟩
        · simp
        · intro m hm
          have : m = { state := s, control := u, steps := nx - index + 1, parent := some existing } := by simpa using hm
          rw [this]; exact ⟨rfl, by show 1 ≤ nx - index + 1; omega⟩
        · simp only [List.map_cons, List.map_nil, List.sum_cons, List.sum_nil]; omega
      · rw [if_neg hg]
        have key := ih (nx + 1) st.tree.size
        generalize hst3 : ({ tree := _, disc := _, close := _, rng := _, solution := _, approxsol := _, approxdif := _ } : St S U α ρ) = st3
        have ht3 : st3.tree = st.tree.push { state := s, control := u, steps := nx - index + 1, parent := some existing } := by
          rw [← hst3]
          by_cases ha : (Pb.goal s).2 < st.approxdif
          · simp only [if_pos ha]
          · simp only [if_neg ha]
        obtain ⟨news, e1, e2, e3, e4⟩ := key st3 (by omega) (by omega)
        refine ⟨{ state := s, control := u, steps := nx - index + 1, parent := some existing } :: news, ?_, ⟨rfl, ?_⟩, ?_, ?_⟩
        · rw [e1, ht3]; simp
        · rw [ht3, Array.size_push] at e2; exact e2
        · intro m hm
          rcases List.mem_cons.mp hm with hm | hm
          · rw [hm]; exact ⟨rfl, by show 1 ≤ nx - index + 1; omega⟩
          · exact e3 m hm
        · split
          · rename_i hf
            rw [if_pos hf] at e4
            refine ⟨by simp, ?_⟩
            simp only [List.map_cons, List.sum_cons]; omega
          · rename_i hf
            rw [if_neg hf] at e4
            simp only [List.map_cons, List.sum_cons]; omega
    · rw [if_neg hlt]
      refine ⟨[], by simp, trivial, by simp, ?_⟩
      simp only [Bool.false_eq_true, if_false, List.map_nil, List.sum_nil]; omega

/-! ## selection -/

theorem selectGrid_inv (Pb : Problem S U α ρ) (starts : List S) (draws : List (Draw U)) (n0 : Nat)
    (st : St S U α ρ) (h : KInv Pb starts draws n0 st) : KInv Pb starts draws n0 (selectGrid Pb st).1 := by
  unfold selectGrid
  simp only
  have hd := KInvC.setDisc h (Disc.select Pb.P st.disc (Pb.rng01 st.rng).1 (fun _ => 0)).1
    (fun hr => .step hr (.select _ _ _ _))
  split
  · exact hd
  · split
    · exact hd
    · exact hd

/-! `iter` cut into its three stages (definitionally the same code, `iter_eq` is `rfl`) so that the
proofs can treat the selection result and the `0.05` draw as opaque values -/

/-- `tree_.iteration++` and the choice between `CloseSamples` and the grid -/
def viaCloseF (Pb : Problem S U α ρ) (st0 : St S U α ρ) : St S U α ρ × Option (Nat × Coord) :=
  let st : St S U α ρ := { st0 with disc := countIteration st0.disc }
  if st.close.isEmpty then selectGrid Pb st
  else
    let r := Pb.rng01 st.rng
    let st' := { st with rng := r.2 }
    if r.1 < Pb.goalBias then
      match closeSelect Pb.nClose st'.close with
      | some (m, x, l) => ({ st' with close := l }, some (m, x))
      | none => selectGrid Pb st'
    else selectGrid Pb st'

/-- `interestingMotion || rng_.uniform01() < 0.05` -/
def goF (Pb : Problem S U α ρ) (st1 : St S U α ρ) (intr : Bool) : Bool × ρ :=
  if intr then (true, st1.rng)
  else
    let r5 := Pb.rng01 st1.rng
    (decide (r5.1 < Num.ofDec 5 2), r5.2)

/-- the rest of the iteration after the selection -/
def iterTail (Pb : Problem S U α ρ) (dr : Draw U) (viaClose : St S U α ρ × Option (Nat × Coord)) :
    St S U α ρ × Flow :=
  let st1 := viaClose.1
  match viaClose.2 with
  | none => (st1, .halt)
  | some (ex, ecell) =>
    match st1.tree[ex]? with
    | none => (st1, .halt)
    | some em =>
      let r := pwvVec Pb.step Pb.valid em.state dr.control dr.steps (List.replicate (Pb.maxSteps + 1) none) false
      let cd := r.1
      if Pb.minSteps ≤ cd then
        let states := someStates (r.2.take cd)
        let coords := states.map Pb.coordOf
        let avg := (2 * st1.disc.size) / (3 * st1.disc.grid.cells.length)
        let intr := interesting st1.disc coords avg
        let go : Bool × ρ := goF Pb st1 intr
        let st2 := { st1 with rng := go.2 }
        let sp : St S U α ρ × Bool :=
          if go.1 then splitLoop Pb states coords dr.control cd cd 0 ex st2 else (st2, false)
        if sp.2 then (sp.1, .done)
        else
          ({ sp.1 with disc := scaleScore Pb sp.1.disc ecell Pb.goodScoreFactor }, .cont)
      else
        ({ st1 with disc := scaleScore Pb st1.disc ecell Pb.badScoreFactor }, .cont)

theorem iter_eq (Pb : Problem S U α ρ) (st0 : St S U α ρ) (dr : Draw U) :
    iter Pb st0 dr = iterTail Pb dr (viaCloseF Pb st0) := rfl

theorem viaCloseF_inv (Pb : Problem S U α ρ) (starts : List S) (draws : List (Draw U)) (n0 : Nat)
    (st0 : St S U α ρ) (h : KInv Pb starts draws n0 st0) : KInv Pb starts draws n0 (viaCloseF Pb st0).1 := by
  have h' : KInv Pb starts draws n0 { st0 with disc := countIteration st0.disc } :=
    KInvC.setDisc h _ (fun hr => .step hr (.count _ _))
  unfold viaCloseF
  simp only
  split
  · exact selectGrid_inv Pb starts draws n0 _ h'
  · split
    · split
      · rename_i m x l hcs
        obtain ⟨_, hl⟩ := closeSelect_mem _ _ _ _ _ hcs
        exact KInvC.setClose h' l (fun c hc => by
          obtain ⟨c0, hc0, e⟩ := hl c hc
          rw [e]; exact h'.closeok c0 hc0)
      · exact selectGrid_inv Pb starts draws n0 _ h'
    · exact selectGrid_inv Pb starts draws n0 _ h'

theorem iterTail_inv (Pb : Problem S U α ρ) (starts : List S) (draws : List (Draw U)) (n0 : Nat)
    (dr : Draw U) (hdr : dr ∈ draws) (vc : St S U α ρ × Option (Nat × Coord))
    (hv : KInv Pb starts draws n0 vc.1) : KInv Pb starts draws n0 (iterTail Pb dr vc).1 := by
  unfold iterTail
  obtain ⟨st1, o⟩ := vc
  simp only at hv ⊢
  cases o with
  | none => exact hv
  | some p =>
    obtain ⟨ex, ecell⟩ := p
    simp only
    cases hem : st1.tree[ex]? with
    | none => exact hv
    | some em =>
      simp only
      obtain ⟨k1, k2, k3⟩ := kpiece_states Pb.step Pb.valid em.state dr.control dr.steps Pb.maxSteps
      generalize pwvVec Pb.step Pb.valid em.state dr.control dr.steps (List.replicate (Pb.maxSteps + 1) none) false = r
        at k1 k2 k3 ⊢
      rw [k1]
      by_cases hmin : Pb.minSteps ≤ r.1
      · rw [if_pos hmin]
        generalize goF Pb st1 _ = go
        have hsp := splitLoop_inv Pb starts draws n0
          ((List.range r.1).map (fun i => propagate Pb.step em.state dr.control (i + 1)))
          (((List.range r.1).map (fun i => propagate Pb.step em.state dr.control (i + 1))).map Pb.coordOf)
          dr.control r.1 em.state
          (fun i hi => by rw [List.getElem?_map, List.getElem?_range hi]; rfl) k2 ⟨dr, hdr, rfl, k3⟩
          r.1 0 ex { st1 with rng := go.2 } hv ⟨em, hem, rfl⟩
        by_cases hgo : go.1 = true
        · simp only [hgo, if_true]
          split
          · exact hsp
          · exact KInvC.scale hsp _ _
        · simp only [hgo, Bool.false_eq_true, if_false]
          exact KInvC.scale hv _ _
      · rw [if_neg hmin]
        exact KInvC.scale hv _ _

theorem iter_inv (Pb : Problem S U α ρ) (starts : List S) (draws : List (Draw U)) (n0 : Nat)
    (st0 : St S U α ρ) (dr : Draw U) (hdr : dr ∈ draws) (h : KInv Pb starts draws n0 st0) :
    KInv Pb starts draws n0 (iter Pb st0 dr).1 := by
  rw [iter_eq]
  exact iterTail_inv Pb starts draws n0 dr hdr _ (viaCloseF_inv Pb starts draws n0 st0 h)

theorem run_inv (Pb : Problem S U α ρ) (starts : List S) (draws : List (Draw U)) (n0 : Nat) :
    ∀ (ds : List (Draw U)) (st : St S U α ρ), (∀ d ∈ ds, d ∈ draws) → KInv Pb starts draws n0 st →
      KInv Pb starts draws n0 (run Pb st ds) := by
  intro ds
  induction ds with
  | nil => intro st _ hI; exact hI
  | cons d ds ih =>
    intro st hsub hI
    have hI' := iter_inv Pb starts draws n0 st d (hsub d (List.mem_cons_self ..)) hI
    simp only [run]
    split
    · rename_i st' heq
      rw [heq] at hI'
      exact ih _ (fun d' hd' => hsub d' (List.mem_cons_of_mem _ hd')) hI'
    · rename_i st' _ heq
      rw [heq] at hI'
      exact hI'

theorem init_inv (Pb : Problem S U α ρ) (g : ρ) (starts : List S) (draws : List (Draw U)) :
    KInv Pb starts draws 0 (init Pb g starts) := by
  unfold init
  have key : ∀ (l : List S) (st : St S U α ρ), (∀ s ∈ l, s ∈ starts ∧ Pb.valid s = true) →
      KInv Pb starts draws 0 st → KInv Pb starts draws 0 (l.foldl
        (fun st s => { st with tree := st.tree.push { state := s, control := Pb.nullControl, steps := 0, parent := none }, disc := addCell Pb.P st.disc st.tree.size 0 (Pb.coordOf s) (Num.ofNat 1) }) st) := by
    intro l
    induction l with
    | nil => intro st _ h; exact h
    | cons s l ih =>
      intro st hl h
      rw [List.foldl_cons]
      have hs := hl s (List.mem_cons_self ..)
      exact ih _ (fun x hx => hl x (List.mem_cons_of_mem _ hx))
        (KInvC.push h { state := s, control := Pb.nullControl, steps := 0, parent := none }
          (Or.inl ⟨rfl, hs.1, hs.2⟩) 0 (Num.ofNat 1))
  refine key _ _ (fun s hs => List.mem_filter.mp hs) ⟨?_, ?_, ?_, ?_, Nat.le_refl _, fun _ => .init⟩
  · intro i m h; simp at h
  · intro i h; cases h
  · intro i h; cases h
  · intro c hc; cases hc

/-! ## solve -/

theorem solve_final_inv (Pb : Problem S U α ρ) (g : ρ) (starts : List S) (draws : List (Draw U)) :
    KInv Pb starts draws (init Pb g starts).tree.size (solve Pb g starts draws).final := by
  have h00 := init_inv Pb g starts draws
  have h0 : KInv Pb starts draws (init Pb g starts).tree.size (init Pb g starts) :=
    ⟨h00.tinv, h00.solok, h00.appok, h00.closeok, Nat.le_refl _, h00.dreach⟩
  have h := run_inv Pb starts draws _ draws _ (fun _ h => h) h0
  unfold solve
  simp only
  split
  · exact h0
  · split
    · exact h
    · split <;> exact h

theorem solve_path (Pb : Problem S U α ρ) (g : ρ) (starts : List S) (draws : List (Draw U)) (p : Path S U)
    (h : (solve Pb g starts draws).path = some p) :
    ∃ s0 sl, p = ofSegs s0 sl ∧ s0 ∈ starts ∧ Pb.valid s0 = true ∧
      ReplayOK Pb.step Pb.valid s0 sl ∧ (∀ x ∈ sl, GoodK draws x.1 x.2.1) ∧
      ((solve Pb g starts draws).status = .exact → (Pb.goal (endState s0 sl)).1 = true) := by
  have hI := run_inv Pb starts draws 0 draws _ (fun _ h => h) (init_inv Pb g starts draws)
  unfold solve at h ⊢
  simp only at h ⊢
  split at h
  · cases h
  · rename_i hsz
    rw [if_neg hsz]
    split at h
    · rename_i i hsol
      obtain ⟨m, hm, hg⟩ := hI.solok i hsol
      obtain ⟨s0, sl, e1, e2, e3, e4, e5, e6⟩ :=
        chain_pathG Pb.step Pb.valid starts (GoodK draws) _ hI.tinv _ i m (lt_size_of_getElem? hm) hm
      cases Option.some.inj h
      refine ⟨s0, sl, e1, e2, e3, e4, e6, ?_⟩
      intro _; rw [e5]; exact hg
    · split at h
      · rename_i hsol _ i happ
        have hlt := hI.appok i happ
        obtain ⟨s0, sl, e1, e2, e3, e4, e5, e6⟩ :=
          chain_pathG Pb.step Pb.valid starts (GoodK draws) _ hI.tinv _ i _ hlt (Array.getElem?_eq_getElem hlt)
        cases Option.some.inj h
        refine ⟨s0, sl, e1, e2, e3, e4, e6, ?_⟩
        intro hst
        cases hst
      · cases h

theorem solve_status_path (Pb : Problem S U α ρ) (g : ρ) (starts : List S) (draws : List (Draw U)) :
    ((solve Pb g starts draws).status = .exact ∨ (solve Pb g starts draws).status = .approximate) ↔
      (solve Pb g starts draws).path.isSome = true := by
  unfold solve
  simp only
  split
  · simp
  · split
    · simp
    · split <;> simp

/-! ## `selectMotion` answers a motion of the tree; the `halt` branches are dead -/

omit [Num α] [HasLog α] in
theorem liveOf_ne_nil (Pb : Problem S U α ρ) (tree : Array (Motion S U)) (h : 0 < tree.size) :
    liveOf Pb tree ≠ [] := by
  intro e
  have hl : (liveOf Pb tree).length = tree.size := by simp [liveOf]
  rw [e] at hl
  have : tree.size = 0 := hl.symm
  omega

omit [HasLog α] in
theorem tree_pos_of_cells (Pb : Problem S U α ρ) (tree : Array (Motion S U)) (d : Disc α)
    (h : DInv Pb.P d (liveOf Pb tree)) (hc : d.grid.cells.length ≠ 0) : 0 < tree.size := by
  cases hcs : d.grid.cells with
  | nil => rw [hcs] at hc; exact absurd rfl hc
  | cons c cs =>
    have hk : c.coord ∈ keys d.cdata := by rw [← h.sync, hcs]; simp
    obtain ⟨e, he, _⟩ := List.mem_map.mp hk
    have hm := h.mot e he
    rcases Nat.eq_zero_or_pos tree.size with hz | hp
    · have : liveOf Pb tree = [] := by simp [liveOf, hz]
      rw [this] at hm
      exact absurd hm.1 (by simpa [motionsAt] using hm.2)
    · exact hp

theorem selectGrid_some (Pb : Problem S U α ρ) (starts : List S) (draws : List (Draw U)) (n0 : Nat)
    (hcoord : ∀ s, (Pb.coordOf s).length = Pb.P.dim) (hrng : ∀ g hi, (Pb.rngHalf g hi).1 ≤ hi)
    (st : St S U α ρ) (h : KInv Pb starts draws n0 st) (hn : 0 < st.tree.size) :
    ∃ ex x, (selectGrid Pb st).2 = some (ex, x) ∧ ex < (selectGrid Pb st).1.tree.size := by
  have hD : DInv Pb.P st.disc (liveOf Pb st.tree) := kreach_inv (h.dreach hcoord)
  have hne := liveOf_ne_nil Pb st.tree hn
  obtain ⟨m, x, hs, hm⟩ := select_returns_live hD hne (Pb.rng01 st.rng).1 (fun _ => 0) (fun n hn => hn)
  have hD1 := (select_inv hD (Pb.rng01 st.rng).1 (fun _ => 0)).1
  unfold selectGrid
  simp only [hs]
  have hxk : x ∈ keys (Disc.select Pb.P st.disc (Pb.rng01 st.rng).1 (fun _ => 0)).1.cdata := hD1.cov _ hm
  cases hl : lookup (Disc.select Pb.P st.disc (Pb.rng01 st.rng).1 (fun _ => 0)).1.cdata x with
  | none => exact absurd hxk (lookup_none_iff.1 hl)
  | some cd =>
    simp only
    obtain ⟨hmo, hnn⟩ := hD1.lookup_mot hl
    have hlen : 0 < cd.motions.length := List.length_pos_iff.2 hnn
    have hr := hrng (Pb.rng01 st.rng).2 (cd.motions.length - 1)
    have hlt : (Pb.rngHalf (Pb.rng01 st.rng).2 (cd.motions.length - 1)).1 < cd.motions.length := by omega
    rw [List.getElem?_eq_getElem hlt]
    refine ⟨_, x, rfl, ?_⟩
    have hmem : cd.motions[(Pb.rngHalf (Pb.rng01 st.rng).2 (cd.motions.length - 1)).1] ∈ cd.motions :=
      List.getElem_mem hlt
    generalize cd.motions[(Pb.rngHalf (Pb.rng01 st.rng).2 (cd.motions.length - 1)).1] = m' at hmem ⊢
    rw [hmo] at hmem
    unfold motionsAt at hmem
    obtain ⟨p, hp, hpm⟩ := List.mem_map.1 hmem
    obtain ⟨hpl, _⟩ := List.mem_filter.1 hp
    have : p.1 ∈ (liveOf Pb st.tree).map (·.1) := List.mem_map.2 ⟨p, hpl, rfl⟩
    rw [liveOf_fst, List.mem_range, hpm] at this
    exact this

theorem selectGrid_tree (Pb : Problem S U α ρ) (st : St S U α ρ) : (selectGrid Pb st).1.tree = st.tree := by
  unfold selectGrid
  simp only
  split
  · rfl
  · split <;> rfl

theorem viaCloseF_some (Pb : Problem S U α ρ) (starts : List S) (draws : List (Draw U)) (n0 : Nat)
    (hcoord : ∀ s, (Pb.coordOf s).length = Pb.P.dim) (hrng : ∀ g hi, (Pb.rngHalf g hi).1 ≤ hi)
    (st0 : St S U α ρ) (h : KInv Pb starts draws n0 st0) (hn : 0 < st0.tree.size) :
    ∃ ex x, (viaCloseF Pb st0).2 = some (ex, x) ∧ ex < (viaCloseF Pb st0).1.tree.size := by
  have h' : KInv Pb starts draws n0 { st0 with disc := countIteration st0.disc } :=
    KInvC.setDisc h _ (fun hr => .step hr (.count _ _))
  unfold viaCloseF
  simp only
  split
  · exact selectGrid_some Pb starts draws n0 hcoord hrng _ h' hn
  · split
    · split
      · rename_i m x l hcs
        obtain ⟨⟨c, hc, hcm⟩, _⟩ := closeSelect_mem _ _ _ _ _ hcs
        exact ⟨m, x, rfl, by rw [← hcm]; exact h'.closeok c hc⟩
      · exact selectGrid_some Pb starts draws n0 hcoord hrng _ h' hn
    · exact selectGrid_some Pb starts draws n0 hcoord hrng _ h' hn

theorem iter_no_halt (Pb : Problem S U α ρ) (starts : List S) (draws : List (Draw U)) (n0 : Nat)
    (hcoord : ∀ s, (Pb.coordOf s).length = Pb.P.dim) (hrng : ∀ g hi, (Pb.rngHalf g hi).1 ≤ hi)
    (st0 : St S U α ρ) (h : KInv Pb starts draws n0 st0) (hn : 0 < st0.tree.size) (dr : Draw U) :
    (iter Pb st0 dr).2 ≠ .halt := by
  rw [iter_eq]
  obtain ⟨ex, x, h1, h2⟩ := viaCloseF_some Pb starts draws n0 hcoord hrng st0 h hn
  generalize viaCloseF Pb st0 = vc at h1 h2
  obtain ⟨st1, o⟩ := vc
  simp only at h1 h2
  subst h1
  unfold iterTail
  simp only [Array.getElem?_eq_getElem h2]
  repeat' split
  all_goals simp

theorem solve_tree_pos (Pb : Problem S U α ρ) (g : ρ) (starts : List S) (draws : List (Draw U))
    (hcoord : ∀ s, (Pb.coordOf s).length = Pb.P.dim)
    (hst : (solve Pb g starts draws).status ≠ .invalidStart) : 0 < (solve Pb g starts draws).final.tree.size := by
  have hI := solve_final_inv Pb g starts draws
  have h0 := init_inv Pb g starts draws
  have hpos : 0 < (init Pb g starts).tree.size := by
    refine tree_pos_of_cells Pb _ _ (kreach_inv (h0.dreach hcoord)) ?_
    intro hz
    apply hst
    unfold solve
    simp only [hz, if_true]
  exact Nat.lt_of_lt_of_le hpos hI.grow

omit [Num α] [HasLog α] in
theorem chainFrom_get : ∀ (news : List (Motion S U)) (e n : Nat), ChainFrom e n news →
    ∀ (i : Nat) (m : Motion S U), news[i]? = some m → m.parent = some (if i = 0 then e else n + i - 1) := by
  intro news
  induction news with
  | nil => intro e n _ i m h; simp at h
  | cons x xs ih =>
    intro e n h i m hi
    cases i with
    | zero =>
      have : x = m := by simpa using hi
      rw [← this]; exact h.1
    | succ i =>
      have := ih n (n + 1) h.2 i m (by simpa using hi)
      rw [this]
      by_cases hi0 : i = 0
      · simp [hi0]
      · simp only [hi0, if_false, Nat.succ_ne_zero]; congr 1; omega

end OmplModel.CKPIECE
