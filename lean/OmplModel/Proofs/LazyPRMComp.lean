import OmplModel.Proofs.LazyPRM
/-!
Soundness of LazyPRM's connected-component bookkeeping (`vertexComponentProperty_`, `markComponent`,
`uniteComponents`, the relabelling after vertex / edge removals): two vertices of the current roadmap with the same
component id are connected in the current roadmap.

The model's breadth-first `markLoop` is fuel-bounded; instead of proving the bound sufficient, the model checks after every
relabelling that every edge joins equal ids (`checkSame`) and, after the relabelling that follows a vertex removal, that
the old id is gone (`checkNone`); a failed check sets `Roadmap.stale`.  Everything here is stated for `stale = false`
(the driver prints the flag; it is false on every lock-step run).  Arithmetic-free.
`Proofs/LazyPRMFuel.lean` proves the bound sufficient, so `checkSame` never fires; `checkNone` is what is left.
-/
namespace OmplModel.LazyPRM

variable {S D : Type}

def Adj (edges : List (Edge D)) (a b : Nat) : Prop := ∃ e ∈ edges, e.joins a b = true

inductive Conn (edges : List (Edge D)) : Nat → Nat → Prop where
  | refl (a : Nat) : Conn edges a a
  | step {a b c : Nat} : Conn edges a b → Adj edges b c → Conn edges a c

theorem joins_symm (e : Edge D) (a b : Nat) : e.joins a b = e.joins b a := by
  unfold Edge.joins; rw [Bool.or_comm]

theorem Adj.symm {E : List (Edge D)} {a b : Nat} (h : Adj E a b) : Adj E b a := by
  obtain ⟨e, he, hj⟩ := h; exact ⟨e, he, by rw [joins_symm]; exact hj⟩

theorem Conn.trans {E : List (Edge D)} {a b c : Nat} (h1 : Conn E a b) (h2 : Conn E b c) : Conn E a c := by
  induction h2 with
  | refl => exact h1
  | step _ hadj ih => exact Conn.step ih hadj

theorem Conn.single {E : List (Edge D)} {a b : Nat} (h : Adj E a b) : Conn E a b := Conn.step (Conn.refl a) h

theorem Conn.symm {E : List (Edge D)} {a b : Nat} (h : Conn E a b) : Conn E b a := by
  induction h with
  | refl => exact Conn.refl _
  | step _ hadj ih => exact (Conn.single hadj.symm).trans ih

theorem Conn.mono {E E' : List (Edge D)} (hsub : ∀ e ∈ E, e ∈ E') {a b : Nat} (h : Conn E a b) : Conn E' a b := by
  induction h with
  | refl => exact Conn.refl _
  | step _ hadj ih =>
    obtain ⟨e, he, hj⟩ := hadj
    exact Conn.step ih ⟨e, hsub e he, hj⟩

theorem adjacent_adj (E : List (Edge D)) (n a : Nat) (h : a ∈ adjacent E n) : Adj E n a := by
  unfold adjacent at h
  simp only [List.mem_map, List.mem_filter] at h
  obtain ⟨e, ⟨he, ht⟩, rfl⟩ := h
  refine ⟨e, he, ?_⟩
  unfold Edge.touches at ht
  unfold Edge.other Edge.joins
  simp only [Bool.or_eq_true, beq_iff_eq] at ht
  by_cases hu : e.u = n
  · simp [hu]
  · rcases ht with ht | ht
    · exact absurd ht hu
    · simp [hu, ht]

/-- what the breadth-first relabelling does: every entry keeps its id or gets `newC`, and only vertices connected to
the seed get relabelled -/
theorem markLoop_spec (E : List (Edge D)) (newC seed : Nat) :
    ∀ (fuel : Nat) (q : List Nat) (comp : Array Nat) (sizes : List (Nat × Nat)), (∀ x ∈ q, Conn E seed x) →
      (markLoop E newC fuel q comp sizes).1.size = comp.size ∧
        ∀ x, (markLoop E newC fuel q comp sizes).1[x]?.getD 0 = comp[x]?.getD 0 ∨
          ((markLoop E newC fuel q comp sizes).1[x]?.getD 0 = newC ∧ Conn E seed x) := by
  intro fuel
  induction fuel with
  | zero => intro q comp sizes _; exact ⟨rfl, fun x => Or.inl rfl⟩
  | succ f ih =>
    intro q comp sizes hq
    cases q with
    | nil => exact ⟨rfl, fun x => Or.inl rfl⟩
    | cons n rest =>
      simp only [markLoop]
      by_cases hc : (comp[n]?.getD 0 == newC) = true
      · rw [if_pos hc]
        exact ih rest comp sizes (fun x hx => hq x (List.mem_cons_of_mem _ hx))
      · rw [if_neg hc]
        obtain ⟨i1, i2⟩ := ih (rest ++ adjacent E n) (comp.setIfInBounds n newC) _ (by
          intro x hx
          simp only [List.mem_append] at hx
          rcases hx with hx | hx
          · exact hq x (List.mem_cons_of_mem _ hx)
          · exact Conn.step (hq n (by simp)) (adjacent_adj E n x hx))
        refine ⟨by rw [i1]; simp, ?_⟩
        intro x
        rcases i2 x with h | h
        · rw [Array.getElem?_setIfInBounds] at h
          by_cases hnx : n = x
          · by_cases hlt : n < comp.size
            · subst hnx
              exact Or.inr ⟨by rw [h]; simp [hlt], hq n (by simp)⟩
            · subst hnx
              left; rw [h]; simp [hlt, Array.getElem?_eq_none (Nat.le_of_not_lt hlt)]
          · left; rw [h]; simp [hnx]
        · exact Or.inr h

theorem markLoop_seed (E : List (Edge D)) (newC v : Nat) (fuel : Nat) (comp : Array Nat) (sizes : List (Nat × Nat))
    (hv : v < comp.size) : (markLoop E newC (fuel + 1) [v] comp sizes).1[v]?.getD 0 = newC := by
  simp only [markLoop]
  by_cases hc : (comp[v]?.getD 0 == newC) = true
  · rw [if_pos hc]
    rcases (markLoop_spec E newC v fuel [] comp sizes (by simp)).2 v with h | h
    · rw [h]; simpa using hc
    · exact h.1
  · rw [if_neg hc]
    rcases (markLoop_spec E newC v fuel ([] ++ adjacent E v) (comp.setIfInBounds v newC) _
      (fun x hx => by simp at hx; exact Conn.single (adjacent_adj E v x hx))).2 v with h | h
    · rw [h, Array.getElem?_setIfInBounds]; simp [hv]
    · exact h.1

/-! ### the component invariant -/

structure Good (r : Roadmap S D) : Prop where
  sizeC : r.comp.size = r.states.size
  /-- component ids in use are below `componentCount_` (so `componentCount_++` is fresh) -/
  bound : ∀ v, v < r.comp.size → compOf r v < r.compCount
  /-- every edge joins two vertices with the same id -/
  same : ∀ e ∈ r.edges, compOf r e.u = compOf r e.v
  /-- **same id ⇒ connected** -/
  sound : ∀ u v, isAlive r u = true → isAlive r v = true → compOf r u = compOf r v → Conn r.edges u v
  aliveLt : ∀ v, isAlive r v = true → v < r.comp.size

theorem compOf_mark (r : Roadmap S D) (v c x : Nat) :
    compOf (markComponent r v c) x = (markLoop r.edges c (2 * r.edges.length + 2) [v] r.comp r.sizes).1[x]?.getD 0 := rfl

theorem checkSame_same (r : Roadmap S D) (h : (checkSame r).stale = false) :
    r.stale = false ∧ ∀ e ∈ r.edges, compOf r e.u = compOf r e.v := by
  unfold checkSame at h
  simp only [Bool.or_eq_false_iff, Bool.not_eq_false', List.all_eq_true, beq_iff_eq] at h
  exact h

/-- connectivity inside one id class survives the removal of edges none of which has that id -/
theorem conn_avoid (E E' : List (Edge D)) (comp : Nat → Nat) (c : Nat) (hsame : ∀ e ∈ E, comp e.u = comp e.v)
    (hsub : ∀ e ∈ E, comp e.u = c → e ∈ E') {u v : Nat} (h : Conn E u v) (hu : comp u = c) :
    comp v = c ∧ Conn E' u v := by
  induction h with
  | refl => exact ⟨hu, Conn.refl _⟩
  | step _ hadj ih =>
    obtain ⟨hb, hc⟩ := ih
    obtain ⟨e, he, hj⟩ := hadj
    rcases joins_cases e _ _ hj with ⟨h1, h2⟩ | ⟨h1, h2⟩
    · have heu : comp e.u = c := by rw [h1]; exact hb
      exact ⟨by rw [← h2, ← hsame e he]; exact heu, Conn.step hc ⟨e, hsub e he heu, hj⟩⟩
    · have hev : comp e.v = c := by rw [h2]; exact hb
      have heu : comp e.u = c := by rw [hsame e he]; exact hev
      exact ⟨by rw [← h1]; exact heu, Conn.step hc ⟨e, hsub e he heu, hj⟩⟩

/-- a set of ids closed under adjacency contains everything connected to one of its members -/
theorem conn_closed (E : List (Edge D)) (comp : Nat → Nat) (hsame : ∀ e ∈ E, comp e.u = comp e.v) {u v : Nat}
    (h : Conn E u v) : comp v = comp u := by
  induction h with
  | refl => rfl
  | step _ hadj ih =>
    obtain ⟨e, he, hj⟩ := hadj
    rcases joins_cases e _ _ hj with ⟨h1, h2⟩ | ⟨h1, h2⟩
    · rw [← h2, ← hsame e he, h1]; exact ih
    · rw [← h1, hsame e he, h2]; exact ih

/-! ### (A) a new vertex -/

theorem pushVertex_good (r : Roadmap S D) (s : S) (h : Good r) (hA : r.alive.size = r.states.size)
    (hE : ∀ e ∈ r.edges, isAlive r e.u = true ∧ isAlive r e.v = true) : Good (pushVertex r s) := by
  have hcomp : ∀ x, compOf (pushVertex r s) x = if x = r.comp.size then r.compCount else compOf r x := by
    intro x
    unfold compOf pushVertex
    simp only
    rw [Array.getElem?_push]
    by_cases hx : x = r.comp.size
    · simp [hx]
    · simp [hx]
  have halive : ∀ x, isAlive (pushVertex r s) x = true → x = r.comp.size ∨ (isAlive r x = true ∧ x < r.comp.size) := by
    intro x hx
    unfold isAlive pushVertex at hx
    simp only at hx
    rw [Array.getElem?_push] at hx
    by_cases hxs : x = r.alive.size
    · left; rw [hxs, hA, h.sizeC]
    · right
      simp only [hxs, if_false] at hx
      exact ⟨hx, h.aliveLt x hx⟩
  have hold : ∀ x, x < r.comp.size → compOf (pushVertex r s) x = compOf r x := by
    intro x hx; rw [hcomp, if_neg (by omega)]
  refine ⟨by simp [pushVertex, h.sizeC], ?_, ?_, ?_, ?_⟩
  · intro v hv
    rw [hcomp]
    show _ < r.compCount + 1
    split
    · omega
    · have : v < r.comp.size := by
        have : (pushVertex r s).comp.size = r.comp.size + 1 := by simp [pushVertex]
        omega
      have := h.bound v this
      omega
  · intro e he
    have he' : e ∈ r.edges := he
    have hu := h.aliveLt _ (hE e he').1
    have hv := h.aliveLt _ (hE e he').2
    rw [hold _ hu, hold _ hv]
    exact h.same e he'
  · intro u v hu hv huv
    show Conn r.edges u v
    rcases halive u hu with rfl | ⟨hua, hul⟩ <;> rcases halive v hv with rfl | ⟨hva, hvl⟩
    · exact Conn.refl _
    · rw [hcomp, hcomp, if_pos rfl, if_neg (by omega)] at huv
      have := h.bound v hvl; omega
    · rw [hcomp, hcomp, if_pos rfl, if_neg (by omega)] at huv
      have := h.bound u hul; omega
    · rw [hold u hul, hold v hvl] at huv
      exact h.sound u v hua hva huv
  · intro v hv
    rcases halive v hv with rfl | ⟨_, hlt⟩
    · simp [pushVertex]
    · simp [pushVertex]; omega

/-! ### (B) a new edge and `uniteComponents` -/

/-- relabelling the seed's side with the id of a vertex it is adjacent to keeps "same id ⇒ connected" -/
theorem mark_target_sound (r : Roadmap S D) (x y c : Nat) (hc : compOf r y = c) (hadj : Adj r.edges x y)
    (hy : isAlive r y = true)
    (hs : ∀ u v, isAlive r u = true → isAlive r v = true → compOf r u = compOf r v → Conn r.edges u v) :
    ∀ u v, isAlive r u = true → isAlive r v = true →
      compOf (markComponent r x c) u = compOf (markComponent r x c) v → Conn r.edges u v := by
  have hspec := (markLoop_spec r.edges c x (2 * r.edges.length + 2) [x] r.comp r.sizes
    (fun z hz => by simp only [List.mem_singleton] at hz; subst hz; exact Conn.refl _)).2
  intro u v hu hv huv
  rw [compOf_mark, compOf_mark] at huv
  rcases hspec u with h1 | ⟨h1, c1⟩ <;> rcases hspec v with h2 | ⟨h2, c2⟩
  · exact hs u v hu hv (by unfold compOf; rw [← h1, ← h2]; exact huv)
  · have hcu : compOf r u = compOf r y := by unfold compOf at hc ⊢; rw [← h1, huv, h2, hc]
    exact (hs u y hu hy hcu).trans ((Conn.single hadj.symm).trans c2)
  · have hcv : compOf r y = compOf r v := by unfold compOf at hc ⊢; rw [← h2, ← huv, h1, hc]
    exact (c1.symm.trans (Conn.single hadj)).trans (hs y v hy hv hcv)
  · exact c1.symm.trans c2

theorem mark_good (r : Roadmap S D) (x c : Nat) (hsz : r.comp.size = r.states.size)
    (hb : ∀ v, v < r.comp.size → compOf r v < r.compCount) (hc : c < r.compCount)
    (hal : ∀ v, isAlive r v = true → v < r.comp.size)
    (hsound : ∀ u v, isAlive r u = true → isAlive r v = true →
      compOf (markComponent r x c) u = compOf (markComponent r x c) v → Conn r.edges u v)
    (hst : (checkSame (markComponent r x c)).stale = false) :
    Good (checkSame (markComponent r x c)) ∧ r.stale = false := by
  obtain ⟨hst1, hsame⟩ := checkSame_same _ hst
  have hspec := markLoop_spec r.edges c x (2 * r.edges.length + 2) [x] r.comp r.sizes
    (fun z hz => by simp only [List.mem_singleton] at hz; subst hz; exact Conn.refl _)
  refine ⟨⟨?_, ?_, hsame, hsound, ?_⟩, hst1⟩
  · show (markLoop r.edges c (2 * r.edges.length + 2) [x] r.comp r.sizes).1.size = r.states.size
    rw [hspec.1]; exact hsz
  · intro v hv
    have hv' : v < r.comp.size := by
      have : (checkSame (markComponent r x c)).comp.size = r.comp.size := hspec.1
      omega
    show compOf (markComponent r x c) v < r.compCount
    rw [compOf_mark]
    rcases hspec.2 v with h | ⟨h, _⟩
    · rw [h]; exact hb v hv'
    · rw [h]; exact hc
  · intro v hv
    have : (checkSame (markComponent r x c)).comp.size = r.comp.size := hspec.1
    rw [this]; exact hal v hv

theorem addEdge_unite_good (r : Roadmap S D) (m n : Nat) (w : D) (h : Good r) (hm : isAlive r m = true)
    (hn : isAlive r n = true) (hst : (uniteComponents (addEdge r m n w) m n).stale = false) :
    Good (uniteComponents (addEdge r m n w) m n) ∧ r.stale = false := by
  have hsub : ∀ e ∈ r.edges, e ∈ (addEdge r m n w).edges := by
    intro e he; simp [addEdge, he]
  have hadj : Adj (addEdge r m n w).edges m n := ⟨⟨m, n, w, false⟩, by simp [addEdge], by simp [Edge.joins]⟩
  have hsound1 : ∀ u v, isAlive (addEdge r m n w) u = true → isAlive (addEdge r m n w) v = true →
      compOf (addEdge r m n w) u = compOf (addEdge r m n w) v → Conn (addEdge r m n w).edges u v :=
    fun u v hu hv huv => (h.sound u v hu hv huv).mono hsub
  unfold uniteComponents at hst ⊢
  simp only at hst ⊢
  split at hst
  · next heq =>
    rw [if_pos heq]
    simp only [beq_iff_eq] at heq
    refine ⟨⟨h.sizeC, h.bound, ?_, hsound1, h.aliveLt⟩, hst⟩
    intro e he
    simp only [addEdge, List.mem_append, List.mem_singleton] at he
    rcases he with he | rfl
    · exact h.same e he
    · exact heq
  · next hne =>
    rw [if_neg hne]
    split at hst
    · next hgt =>
      rw [if_pos hgt]
      exact mark_good (addEdge r m n w) n _ h.sizeC h.bound (h.bound m (h.aliveLt m hm)) h.aliveLt
        (mark_target_sound (addEdge r m n w) n m _ rfl hadj.symm hm hsound1) hst
    · next hgt =>
      rw [if_neg hgt]
      exact mark_good (addEdge r m n w) m _ h.sizeC h.bound (h.bound n (h.aliveLt n hn)) h.aliveLt
        (mark_target_sound (addEdge r m n w) m n _ rfl hadj hn hsound1) hst

/-! ### (C) removal of vertices -/

structure Mid (c0 : Nat) (r : Roadmap S D) : Prop where
  sizeC : r.comp.size = r.states.size
  bound : ∀ v, v < r.comp.size → compOf r v < r.compCount
  same : ∀ e ∈ r.edges, compOf r e.u = compOf r e.v
  soundEx : ∀ u v, isAlive r u = true → isAlive r v = true → compOf r u = compOf r v → compOf r u ≠ c0 →
    Conn r.edges u v
  aliveLt : ∀ v, isAlive r v = true → v < r.comp.size
  c0lt : c0 < r.compCount

theorem relabel_stale_mono (c0 : Nat) (l : List Nat) :
    ∀ r : Roadmap S D, (relabelNeighbours c0 l r).stale = false → r.stale = false := by
  induction l with
  | nil => intro r h; exact h
  | cons n rest ih =>
    intro r h
    simp only [relabelNeighbours] at h
    split at h
    · exact (checkSame_same _ (ih _ h)).1
    · exact ih r h

theorem relabel_mid (c0 : Nat) (l : List Nat) :
    ∀ r : Roadmap S D, Mid c0 r → (relabelNeighbours c0 l r).stale = false →
      Mid c0 (relabelNeighbours c0 l r) ∧ r.stale = false := by
  induction l with
  | nil => intro r h hst; exact ⟨h, hst⟩
  | cons n rest ih =>
    intro r h hst
    simp only [relabelNeighbours] at hst ⊢
    split at hst
    · next hc =>
      rw [if_pos hc]
      have hspec := markLoop_spec (freshComp r).edges r.compCount n (2 * (freshComp r).edges.length + 2) [n]
        (freshComp r).comp (freshComp r).sizes
        (fun z hz => by simp only [List.mem_singleton] at hz; subst hz; exact Conn.refl _)
      have hmid2 : (checkSame (markComponent (freshComp r) n r.compCount)).stale = false →
          Mid c0 (checkSame (markComponent (freshComp r) n r.compCount)) := by
        intro hst2
        obtain ⟨_, hsame⟩ := checkSame_same _ hst2
        have hsz : (checkSame (markComponent (freshComp r) n r.compCount)).comp.size = r.comp.size := hspec.1
        refine ⟨by rw [hsz]; exact h.sizeC, ?_, hsame, ?_, fun v hv => by rw [hsz]; exact h.aliveLt v hv, ?_⟩
        · intro v hv
          show compOf (markComponent (freshComp r) n r.compCount) v < r.compCount + 1
          rw [compOf_mark]
          rcases hspec.2 v with h1 | ⟨h1, _⟩
          · rw [h1]; have := h.bound v (by omega); unfold compOf at this; exact Nat.lt_succ_of_lt this
          · rw [h1]; omega
        · intro u v hu hv huv hne
          show Conn r.edges u v
          have huv' : compOf (markComponent (freshComp r) n r.compCount) u =
              compOf (markComponent (freshComp r) n r.compCount) v := huv
          have hne' : compOf (markComponent (freshComp r) n r.compCount) u ≠ c0 := hne
          rw [compOf_mark] at huv' hne'
          rw [compOf_mark] at huv'
          rcases hspec.2 u with h1 | ⟨h1, c1⟩ <;> rcases hspec.2 v with h2 | ⟨h2, c2⟩
          · apply h.soundEx u v hu hv
            · unfold compOf; show (freshComp r).comp[u]?.getD 0 = (freshComp r).comp[v]?.getD 0
              rw [← h1, ← h2]; exact huv'
            · unfold compOf; show (freshComp r).comp[u]?.getD 0 ≠ c0
              rw [← h1]; exact hne'
          · exfalso
            have := h.bound u (h.aliveLt u hu)
            unfold compOf at this
            have e1 : (freshComp r).comp[u]?.getD 0 = r.compCount := by rw [← h1, huv', h2]
            have : r.comp[u]?.getD 0 = r.compCount := e1
            omega
          · exfalso
            have := h.bound v (h.aliveLt v hv)
            unfold compOf at this
            have e1 : (freshComp r).comp[v]?.getD 0 = r.compCount := by rw [← h2, ← huv', h1]
            have : r.comp[v]?.getD 0 = r.compCount := e1
            omega
          · exact c1.symm.trans c2
        · show c0 < r.compCount + 1
          have := h.c0lt; omega
      have hst2 : (checkSame (markComponent (freshComp r) n r.compCount)).stale = false :=
        relabel_stale_mono c0 rest _ hst
      obtain ⟨i1, i2⟩ := ih _ (hmid2 hst2) hst
      exact ⟨i1, (checkSame_same _ i2).1⟩
    · next hc =>
      rw [if_neg hc]
      exact ih r h hst

theorem checkNone_none (r : Roadmap S D) (c0 : Nat) (h : (checkNone r c0).stale = false) :
    r.stale = false ∧ ∀ v, isAlive r v = true → compOf r v ≠ c0 := by
  unfold checkNone at h
  simp only [Bool.or_eq_false_iff, List.any_eq_false, List.mem_range, Bool.and_eq_true, beq_iff_eq, not_and] at h
  refine ⟨h.1, ?_⟩
  intro v hv
  have hlt : v < r.alive.size := by
    unfold isAlive at hv
    by_cases hlt : v < r.alive.size
    · exact hlt
    · rw [Array.getElem?_eq_none (by omega)] at hv; simp at hv
  exact h.2 v hlt hv

theorem removeVertices_good (r : Roadmap S D) (start : Nat) (rm : List Nat) (h : Good r)
    (hstart : isAlive r start = true) (hrm : ∀ v ∈ rm, compOf r v = compOf r start)
    (hst : (removeVertices r start rm).stale = false) :
    Good (removeVertices r start rm) ∧ r.stale = false := by
  unfold removeVertices at hst ⊢
  obtain ⟨hst1, hnone⟩ := checkNone_none _ _ hst
  have hal : ∀ v, isAlive (killVertices r rm) v = (isAlive r v && !rm.contains v) := by
    intro v; unfold isAlive killVertices; exact foldl_kill rm r.alive v
  have hmid0 : Mid (compOf r start) (killVertices r rm) := by
    refine ⟨h.sizeC, h.bound, ?_, ?_, ?_, h.bound start (h.aliveLt start hstart)⟩
    · intro e he
      simp only [killVertices, List.mem_filter] at he
      exact h.same e he.1
    · intro u v hu hv huv hne
      rw [hal] at hu hv
      simp only [Bool.and_eq_true] at hu hv
      have hc := h.sound u v hu.1 hv.1 huv
      refine (conn_avoid r.edges (killVertices r rm).edges (compOf r) (compOf r u) h.same ?_ hc rfl).2
      intro e he heu
      simp only [killVertices, List.mem_filter, Bool.not_eq_true', Bool.or_eq_false_iff]
      refine ⟨he, ?_, ?_⟩
      · cases hcu : rm.contains e.u with
        | false => rfl
        | true =>
          have := hrm e.u (by simpa using hcu)
          rw [heu] at this
          exact absurd this hne
      · cases hcv : rm.contains e.v with
        | false => rfl
        | true =>
          have := hrm e.v (by simpa using hcv)
          rw [← h.same e he, heu] at this
          exact absurd this hne
    · intro v hv
      rw [hal] at hv
      simp only [Bool.and_eq_true] at hv
      exact h.aliveLt v hv.1
  obtain ⟨m1, m2⟩ := relabel_mid (compOf r start) (formerNeighbours r rm) (killVertices r rm) hmid0 hst1
  refine ⟨⟨m1.sizeC, m1.bound, m1.same, ?_, m1.aliveLt⟩, m2⟩
  intro u v hu hv huv
  exact m1.soundEx u v hu hv huv (hnone u hu)

/-! ### (D) removal of an edge -/

theorem three_way (E : List (Edge D)) (pos prevV : Nat) {x y : Nat} (h : Conn E x y) :
    let E' := E.filter (fun e => !e.joins pos prevV)
    Conn E' x y ∨ (Conn E' x pos ∧ Conn E' prevV y) ∨ (Conn E' x prevV ∧ Conn E' pos y) := by
  intro E'
  induction h with
  | refl => exact Or.inl (Conn.refl _)
  | step _ hadj ih =>
    rename_i b c _
    obtain ⟨e, he, hj⟩ := hadj
    by_cases hrem : e.joins pos prevV = true
    · -- the removed edge: {b, c} = {pos, prevV}
      have hbc : (b = pos ∧ c = prevV) ∨ (b = prevV ∧ c = pos) := by
        rcases joins_cases e _ _ hj with ⟨h1, h2⟩ | ⟨h1, h2⟩ <;>
          rcases joins_cases e _ _ hrem with ⟨h3, h4⟩ | ⟨h3, h4⟩
        · exact Or.inl ⟨by rw [← h1, h3], by rw [← h2, h4]⟩
        · exact Or.inr ⟨by rw [← h1, h3], by rw [← h2, h4]⟩
        · exact Or.inr ⟨by rw [← h2, h4], by rw [← h1, h3]⟩
        · exact Or.inl ⟨by rw [← h2, h4], by rw [← h1, h3]⟩
      rcases hbc with ⟨rfl, rfl⟩ | ⟨rfl, rfl⟩
      · rcases ih with h1 | ⟨h1, h2⟩ | ⟨h1, h2⟩
        · exact Or.inr (Or.inl ⟨h1, Conn.refl _⟩)
        · exact Or.inl (h1.trans h2.symm)
        · exact Or.inl h1
      · rcases ih with h1 | ⟨h1, h2⟩ | ⟨h1, h2⟩
        · exact Or.inr (Or.inr ⟨h1, Conn.refl _⟩)
        · exact Or.inl h1
        · exact Or.inl (h1.trans h2.symm)
    · have he' : e ∈ E' := by simp [E', he, hrem]
      have hadj' : Adj E' b c := ⟨e, he', hj⟩
      rcases ih with h1 | ⟨h1, h2⟩ | ⟨h1, h2⟩
      · exact Or.inl (Conn.step h1 hadj')
      · exact Or.inr (Or.inl ⟨h1, Conn.step h2 hadj'⟩)
      · exact Or.inr (Or.inr ⟨h1, Conn.step h2 hadj'⟩)

theorem dropEdge_good (r : Roadmap S D) (pos prevV : Nat) (h : Good r) (hpos : isAlive r pos = true)
    (hst : (checkSame (markComponent (freshComp (dropEdge r pos prevV)) pos (dropEdge r pos prevV).compCount)).stale = false) :
    Good (checkSame (markComponent (freshComp (dropEdge r pos prevV)) pos (dropEdge r pos prevV).compCount)) ∧
      r.stale = false := by
  obtain ⟨hst1, hsame⟩ := checkSame_same _ hst
  generalize hr1 : freshComp (dropEdge r pos prevV) = r1 at hst hst1 hsame ⊢
  have hf : r1.edges = r.edges.filter (fun e => !e.joins pos prevV) ∧ r1.comp = r.comp ∧ r1.alive = r.alive ∧
      r1.states = r.states ∧ r1.compCount = r.compCount + 1 ∧ r1.sizes = sizeSet r.sizes r.compCount 0 := by
    subst hr1; exact ⟨rfl, rfl, rfl, rfl, rfl, rfl⟩
  have hcc : (dropEdge r pos prevV).compCount = r.compCount := rfl
  rw [hcc] at hst hst1 hsame ⊢
  have hspec := markLoop_spec r1.edges r.compCount pos (2 * r1.edges.length + 2) [pos] r1.comp r1.sizes
    (fun z hz => by simp only [List.mem_singleton] at hz; subst hz; exact Conn.refl _)
  have hsz : (checkSame (markComponent r1 pos r.compCount)).comp.size = r.comp.size := by
    show (markLoop r1.edges r.compCount (2 * r1.edges.length + 2) [pos] r1.comp r1.sizes).1.size = _
    rw [hspec.1, hf.2.1]
  have hold : ∀ v, compOf r1 v = compOf r v := by intro v; unfold compOf; rw [hf.2.1]
  have halive : ∀ v, isAlive (checkSame (markComponent r1 pos r.compCount)) v = isAlive r v := by
    intro v; unfold isAlive; show r1.alive[v]?.getD false = _; rw [hf.2.2.1]
  have hposC : compOf (markComponent r1 pos r.compCount) pos = r.compCount := by
    rw [compOf_mark]
    have : 2 * r1.edges.length + 2 = (2 * r1.edges.length + 1) + 1 := by omega
    rw [this]
    exact markLoop_seed r1.edges r.compCount pos _ r1.comp r1.sizes (by rw [hf.2.1]; exact h.aliveLt pos hpos)
  have hstale : r.stale = false := by
    have : (markComponent r1 pos r.compCount).stale = r.stale := by subst hr1; rfl
    rw [← this]; exact hst1
  have hstates : (checkSame (markComponent r1 pos r.compCount)).states = r.states := hf.2.2.2.1
  refine ⟨⟨by rw [hsz, hstates]; exact h.sizeC, ?_, hsame, ?_,
    fun v hv => by rw [hsz]; rw [halive] at hv; exact h.aliveLt v hv⟩, hstale⟩
  · intro v hv
    show compOf (markComponent r1 pos r.compCount) v < r1.compCount
    rw [hf.2.2.2.2.1, compOf_mark]
    rcases hspec.2 v with h1 | ⟨h1, _⟩
    · rw [h1]
      have := h.bound v (by omega)
      unfold compOf at this
      rw [hf.2.1]; omega
    · rw [h1]; omega
  · intro u v hu hv huv
    rw [halive] at hu hv
    show Conn r1.edges u v
    have huv' : compOf (markComponent r1 pos r.compCount) u = compOf (markComponent r1 pos r.compCount) v := huv
    have hcu := compOf_mark r1 pos r.compCount u
    have hcv := compOf_mark r1 pos r.compCount v
    rcases hspec.2 u with h1 | ⟨h1, c1⟩ <;> rcases hspec.2 v with h2 | ⟨h2, c2⟩
    · -- both keep their old id
      have hou : compOf (markComponent r1 pos r.compCount) u = compOf r u := by rw [hcu, h1]; exact hold u
      have hov : compOf (markComponent r1 pos r.compCount) v = compOf r v := by rw [hcv, h2]; exact hold v
      have hold_eq : compOf r u = compOf r v := by rw [← hou, ← hov]; exact huv'
      have hc := h.sound u v hu hv hold_eq
      -- a vertex connected to `pos` in the new graph carries the fresh id
      have hfresh : ∀ z, Conn r1.edges pos z → compOf (markComponent r1 pos r.compCount) z = r.compCount := by
        intro z hz
        rw [conn_closed r1.edges (compOf (markComponent r1 pos r.compCount)) hsame hz]; exact hposC
      have hnu : ¬ Conn r1.edges pos u := by
        intro hz
        have := hfresh u hz
        rw [hou] at this
        have hb := h.bound u (h.aliveLt u hu); omega
      have hnv : ¬ Conn r1.edges pos v := by
        intro hz
        have := hfresh v hz
        rw [hov] at this
        have hb := h.bound v (h.aliveLt v hv); omega
      rw [hf.1]
      rcases three_way r.edges pos prevV hc with h3 | ⟨h3, _⟩ | ⟨_, h4⟩
      · exact h3
      · exact absurd (by rw [hf.1]; exact h3.symm) hnu
      · exact absurd (by rw [hf.1]; exact h4) hnv
    · exfalso
      have : compOf r u = r.compCount := by rw [← hold u]; unfold compOf; rw [← h1, ← hcu, huv', hcv, h2]
      have hb := h.bound u (h.aliveLt u hu); omega
    · exfalso
      have : compOf r v = r.compCount := by rw [← hold v]; unfold compOf; rw [← h2, ← hcv, ← huv', hcu, h1]
      have hb := h.bound v (h.aliveLt v hv); omega
    · exact c1.symm.trans c2

/-! ### plumbing: the invariant through every step of `solve` -/

theorem Conn.mono' {E E' : List (Edge D)} (hsub : ∀ e ∈ E, ∃ e' ∈ E', e'.u = e.u ∧ e'.v = e.v) {a b : Nat}
    (h : Conn E a b) : Conn E' a b := by
  induction h with
  | refl => exact Conn.refl _
  | step _ hadj ih =>
    obtain ⟨e, he, hj⟩ := hadj
    obtain ⟨e', he', hu, hv⟩ := hsub e he
    exact Conn.step ih ⟨e', he', by unfold Edge.joins at hj ⊢; rw [hu, hv]; exact hj⟩

theorem unite_stale_mono (r : Roadmap S D) (a b : Nat) (h : (uniteComponents r a b).stale = false) : r.stale = false := by
  unfold uniteComponents at h
  simp only at h
  split at h
  · exact h
  · split at h <;> exact (checkSame_same _ h).1

theorem connectAll_good (cfg : Cfg S D) (m : Nat) (s : S) (l : List Nat) :
    ∀ r : Roadmap S D, (r.stale = false → Good r) → isAlive r m = true → (∀ n ∈ l, isAlive r n = true) →
      (connectAll cfg m s l r).stale = false → Good (connectAll cfg m s l r) ∧ r.stale = false := by
  induction l with
  | nil => intro r hg _ _ hst; exact ⟨hg hst, hst⟩
  | cons n rest ih =>
    intro r hg hm hl hst
    simp only [connectAll] at hst ⊢
    split at hst
    · next hf =>
      rw [if_pos hf]
      generalize hw : cfg.cost s (r.states[n]?.getD s) = w at hst ⊢
      have ha : ∀ x, isAlive (uniteComponents (addEdge r m n w) m n) x = isAlive r x := by
        intro x; unfold isAlive; rw [(uniteComponents_core (addEdge r m n w) m n).2.1]; rfl
      have hg2 : (uniteComponents (addEdge r m n w) m n).stale = false → Good (uniteComponents (addEdge r m n w) m n) := by
        intro hs2
        have hs1 : r.stale = false := unite_stale_mono (addEdge r m n w) m n hs2
        exact (addEdge_unite_good r m n w (hg hs1) hm (hl n (by simp)) hs2).1
      obtain ⟨i1, i2⟩ := ih _ hg2 (by rw [ha]; exact hm) (fun x hx => by rw [ha]; exact hl x (List.mem_cons_of_mem _ hx)) hst
      exact ⟨i1, unite_stale_mono (addEdge r m n w) m n i2⟩
    · next hf =>
      rw [if_neg hf]
      exact ih r hg hm (fun x hx => hl x (List.mem_cons_of_mem _ hx)) hst

theorem addMilestone_good (cfg : Cfg S D) (r : Roadmap S D) (s : S) (hr : RInv cfg r) (hg : r.stale = false → Good r)
    (hst : (addMilestone cfg r s).1.stale = false) : Good (addMilestone cfg r s).1 ∧ r.stale = false := by
  unfold addMilestone at hst ⊢
  simp only at hst ⊢
  have hg0 : (pushVertex r s).stale = false → Good (pushVertex r s) :=
    fun hs => pushVertex_good r s (hg hs) hr.sizeA hr.edgeAlive
  have hm0 : isAlive (pushVertex r s) r.states.size = true := by
    unfold isAlive pushVertex; simp only
    rw [Array.getElem?_push, if_pos (by rw [hr.sizeA])]; rfl
  have hnb : ∀ n ∈ neighbours cfg r s, isAlive (pushVertex r s) n = true := by
    intro n hn
    have := hr.nnAlive n (neighbours_mem_nn cfg r s n hn)
    have hlt := alive_lt r hr.sizeA _ this
    unfold isAlive pushVertex at *; simp only
    rw [Array.getElem?_push, if_neg (by rw [hr.sizeA]; omega)]; exact this
  obtain ⟨c1, c2⟩ := connectAll_good cfg r.states.size s (neighbours cfg r s) (pushVertex r s) hg0 hm0 hnb hst
  exact ⟨⟨c1.sizeC, c1.bound, c1.same, c1.sound, c1.aliveLt⟩, c2⟩

theorem walk_same (r : Roadmap S D) (hsame : ∀ e ∈ r.edges, compOf r e.u = compOf r e.v) (p : List Nat) (a : Nat)
    (hw : walkOk r (a :: p) = true) : ∀ v ∈ a :: p, compOf r v = compOf r a := by
  induction p generalizing a with
  | nil => intro v hv; simp only [List.mem_singleton] at hv; rw [hv]
  | cons b rest ih =>
    simp only [walkOk, Bool.and_eq_true] at hw
    obtain ⟨⟨_, he⟩, hw'⟩ := hw
    have hab : compOf r b = compOf r a := by
      unfold hasEdge at he
      simp only [List.any_eq_true] at he
      obtain ⟨e, hee, hj⟩ := he
      rcases joins_cases e a b hj with ⟨h1, h2⟩ | ⟨h1, h2⟩
      · rw [← h1, ← h2]; exact (hsame e hee).symm
      · rw [← h1, ← h2]; exact hsame e hee
    intro v hv
    simp only [List.mem_cons] at hv
    rcases hv with rfl | hv
    · rfl
    · rw [ih b hw' v (by simpa using hv), hab]

theorem checkEdges_good (cfg : Cfg S D) (pairs : List (Nat × Nat)) :
    ∀ r : Roadmap S D, (r.stale = false → Good r) → (∀ pq ∈ pairs, isAlive r pq.1 = true) →
      (checkEdges cfg pairs r).1.stale = false → Good (checkEdges cfg pairs r).1 ∧ r.stale = false := by
  induction pairs with
  | nil => intro r hg _ hst; exact ⟨hg hst, hst⟩
  | cons pq rest ih =>
    intro r hg hal hst
    obtain ⟨pos, prevV⟩ := pq
    simp only [checkEdges] at hst ⊢
    generalize hok : (edgeFlag r pos prevV || (match r.states[pos]?, r.states[prevV]? with
        | some a, some b => cfg.checkMotion a b
        | _, _ => false)) = ok at hst ⊢
    cases ok with
    | true =>
      simp only [if_true] at hst ⊢
      have hg1 : (flagEdge r pos prevV).stale = false → Good (flagEdge r pos prevV) := by
        intro hs
        have g := hg hs
        refine ⟨g.sizeC, g.bound, ?_, ?_, g.aliveLt⟩
        · intro e he
          simp only [flagEdge, setEdgeFlag, List.mem_map] at he
          obtain ⟨e1, he1, rfl⟩ := he
          have := g.same e1 he1
          split <;> exact this
        · intro u v hu hv huv
          refine (g.sound u v hu hv huv).mono' ?_
          intro e he
          refine ⟨if e.joins pos prevV then { e with flag := true } else e, ?_, ?_⟩
          · simp only [flagEdge, setEdgeFlag, List.mem_map]; exact ⟨e, he, rfl⟩
          · split <;> exact ⟨rfl, rfl⟩
      exact ih _ hg1 (fun q hq => hal q (List.mem_cons_of_mem _ hq)) hst
    | false =>
      simp only [Bool.false_eq_true, if_false] at hst ⊢
      have hs0 : r.stale = false := (checkSame_same _ hst).1
      exact dropEdge_good r pos prevV (hg hs0) (hal (pos, prevV) (by simp)) hst

theorem pairsOf_alive (r : Roadmap S D) (p : List Nat) (h : ∀ v ∈ p, isAlive r v = true) :
    ∀ pq ∈ pairsOf p, isAlive r pq.1 = true := by
  induction p with
  | nil => intro pq hpq; simp [pairsOf] at hpq
  | cons a rest ih =>
    cases rest with
    | nil => intro pq hpq; simp [pairsOf] at hpq
    | cons b rest' =>
      intro pq hpq
      simp only [pairsOf, List.mem_cons] at hpq
      rcases hpq with rfl | hpq
      · exact h a (by simp)
      · exact ih (fun v hv => h v (List.mem_cons_of_mem _ hv)) pq hpq

theorem constructSolution_good (cfg : Cfg S D) (r : Roadmap S D) (start goal : Nat) (p : List Nat) (hr : RInv cfg r)
    (hg : r.stale = false → Good r) (hp : pathOk r start goal p = true)
    (hst : (constructSolution cfg r start p).1.stale = false) :
    Good (constructSolution cfg r start p).1 ∧ r.stale = false := by
  unfold pathOk at hp
  simp only [Bool.and_eq_true, beq_iff_eq, decide_eq_true_eq] at hp
  obtain ⟨⟨⟨hh, _⟩, _⟩, hw⟩ := hp
  have halive := walkOk_alive r p hw
  unfold constructSolution at hst ⊢
  simp only at hst ⊢
  obtain ⟨_, _, c3, _⟩ := checkVertices_spec cfg r ((p.drop 1).dropLast.reverse) r.vflag [] hr.vflagSound
  generalize checkVertices cfg r ((p.drop 1).dropLast.reverse) r.vflag [] = cv at c3 hst ⊢
  have hgw : (withFlags r cv.1).stale = false → Good (withFlags r cv.1) := fun hs =>
    let g := hg hs; ⟨g.sizeC, g.bound, g.same, g.sound, g.aliveLt⟩
  split at hst
  · next hne =>
    rw [if_pos hne]
    have hs0 : r.stale = false := by
      have h1 := (checkNone_none _ _ hst).1
      exact relabel_stale_mono _ _ (killVertices (withFlags r cv.1) cv.2) h1
    have g := hg hs0
    cases p with
    | nil => simp at hh
    | cons a rest =>
      simp only [List.head?_cons, Option.some.injEq] at hh
      subst hh
      have hsm := walk_same r g.same rest a hw
      have hrm : ∀ v ∈ cv.2, compOf (withFlags r cv.1) v = compOf (withFlags r cv.1) a := by
        intro v hv
        rcases c3 v hv with h1 | ⟨h1, _⟩
        · simp at h1
        · apply hsm
          have h2 : v ∈ ((a :: rest).drop 1).dropLast := by simpa using h1
          exact List.mem_cons_of_mem _ ((List.dropLast_sublist _).subset (by simpa using h2))
      exact removeVertices_good (withFlags r cv.1) a cv.2 (hgw hs0) (halive a (by simp)) hrm hst
  · next hne =>
    rw [if_neg hne]
    have hpa : ∀ pq ∈ (pairsOf p).reverse, isAlive (withFlags r cv.1) pq.1 = true := by
      intro pq hpq
      exact pairsOf_alive r p halive pq (by simpa using hpq)
    have key := checkEdges_good cfg ((pairsOf p).reverse) (withFlags r cv.1) hgw hpa
    generalize checkEdges cfg ((pairsOf p).reverse) (withFlags r cv.1) = ce at key hst ⊢
    split at hst
    · next hok => rw [if_pos hok]; exact key hst
    · next hok => rw [if_neg hok]; exact key hst

theorem constructLoop_good (cfg : Cfg S D) (starts : Array S) (startV goalV : Nat) (fuel : Nat) :
    ∀ (st : St S D) (evs : List (Event S)), StInv cfg starts st → (st.rm.stale = false → Good st.rm) →
      (constructLoop cfg startV goalV fuel st evs).1.rm.stale = false →
      Good (constructLoop cfg startV goalV fuel st evs).1.rm ∧ st.rm.stale = false := by
  induction fuel with
  | zero => intro st evs _ hg hst; exact ⟨hg hst, hst⟩
  | succ f ih =>
    intro st evs h hg
    simp only [constructLoop]
    split
    · next p rest =>
      split
      · next hpok =>
        obtain ⟨c1, c2, c3, _⟩ := constructSolution_spec cfg st.rm startV p h.rm
        have key := constructSolution_good cfg st.rm startV goalV p h.rm hg hpok
        generalize constructSolution cfg st.rm startV p = cs at c1 c2 c3 key
        have hst1 : StInv cfg starts { st with rm := cs.1 } :=
          ⟨c1, keep_ok cfg _ (fun s hp => hp.valid) st.rm cs.1 st.startM c2 c3 h.startsOK,
            keep_ok cfg _ (fun s hp => hp.valid) st.rm cs.1 st.goalM c2 c3 h.goalsOK, h.best⟩
        split
        · exact key
        · split
          · split
            · exact key
            · intro hst
              have hg1 : ({ st with rm := cs.1, ptc := (ptcEvalN st.ptc).2 } : St S D).rm.stale = false →
                  Good ({ st with rm := cs.1, ptc := (ptcEvalN st.ptc).2 } : St S D).rm := fun hs => (key hs).1
              obtain ⟨i1, i2⟩ := ih { st with rm := cs.1, ptc := (ptcEvalN st.ptc).2 } rest
                ⟨hst1.rm, hst1.startsOK, hst1.goalsOK, hst1.best⟩ hg1 hst
              exact ⟨i1, (key i2).2⟩
          · exact key
      · exact fun hst => ⟨hg hst, hst⟩
    · exact fun hst => ⟨hg hst, hst⟩

theorem iterate_good (cfg : Cfg S D) (starts : Array S) (st : St S D) (s : S) (evs : List (Event S))
    (h : StInv cfg starts st) (hg : st.rm.stale = false → Good st.rm) :
    (iterate cfg st s evs).1.rm.stale = false → Good (iterate cfg st s evs).1.rm ∧ st.rm.stale = false := by
  unfold iterate
  simp only
  obtain ⟨a1, _, _, _, _, _⟩ := addMilestone_spec cfg st.rm s h.rm
  have hs1 := addMilestone_keeps cfg _ st.rm s h.rm st.startM h.startsOK
  have hg1 := addMilestone_keeps cfg _ st.rm s h.rm st.goalM h.goalsOK
  have key := addMilestone_good cfg st.rm s h.rm hg
  generalize addMilestone cfg st.rm s = am at a1 hs1 hg1 key
  split
  · exact key
  · next startV goalV hsp =>
    split
    · split
      · exact key
      · generalize hst2 : (if st.someSolutionFound = true then
            ({ st with rm := am.1, iterations := st.iterations + 1, optSegments := 0 } : St S D)
          else { st with rm := am.1, iterations := st.iterations + 1 }) = st2
        have h2 : StInv cfg starts st2 ∧ st2.rm = am.1 := by
          subst hst2
          split <;> exact ⟨⟨a1, hs1, hg1, h.best⟩, rfl⟩
        have hgg : st2.rm.stale = false → Good st2.rm := by rw [h2.2]; exact fun hs => (key hs).1
        have kl := constructLoop_good cfg starts startV goalV (evs.length + 1) st2 evs h2.1 hgg
        generalize constructLoop cfg startV goalV (evs.length + 1) st2 evs = cl at kl
        have fin : cl.1.rm.stale = false → Good cl.1.rm ∧ st.rm.stale = false := by
          intro hs
          obtain ⟨k1, k2⟩ := kl hs
          rw [h2.2] at k2
          exact ⟨k1, (key k2).2⟩
        split
        · exact fin
        · split
          · exact fin
          · split <;> exact fin
    · exact key

theorem loop_good (cfg : Cfg S D) (starts : Array S) (fuel : Nat) :
    ∀ (st : St S D) (evs : List (Event S)), StInv cfg starts st → (st.rm.stale = false → Good st.rm) →
      (loop cfg fuel st evs).1.rm.stale = false → Good (loop cfg fuel st evs).1.rm ∧ st.rm.stale = false := by
  induction fuel with
  | zero => intro st evs _ hg hst; exact ⟨hg hst, hst⟩
  | succ f ih =>
    intro st evs h hg
    simp only [loop]
    split
    · exact fun hst => ⟨hg hst, hst⟩
    · split
      · exact fun hst => ⟨hg hst, hst⟩
      · split
        · next s rest =>
          intro hst
          have h0 : StInv cfg starts { st with ptc := (ptcEvalN st.ptc).2 } := ⟨h.rm, h.startsOK, h.goalsOK, h.best⟩
          obtain ⟨i1, _, _, _⟩ := iterate_spec cfg starts { st with ptc := (ptcEvalN st.ptc).2 } s rest h0
          have ki := iterate_good cfg starts { st with ptc := (ptcEvalN st.ptc).2 } s rest h0 hg
          obtain ⟨j1, j2⟩ := ih _ (iterate cfg { st with ptc := (ptcEvalN st.ptc).2 } s rest).2 i1 (fun hs => (ki hs).1) hst
          exact ⟨j1, (ki j2).2⟩
        · exact fun hst => ⟨hg hst, hst⟩
        · exact fun hst => ⟨hg hst, hst⟩

theorem empty_good : Good ({} : Roadmap S D) :=
  ⟨rfl, fun v hv => by simp at hv, fun e he => by simp at he,
   fun u v hu _ _ => by simp [isAlive] at hu, fun v hv => by simp [isAlive] at hv⟩

theorem addStarts_good (cfg : Cfg S D) (l : List (Nat × S)) :
    ∀ (r : Roadmap S D) (acc : List Nat), RInv cfg r → (r.stale = false → Good r) →
      (addStarts cfg l r acc).1.stale = false → Good (addStarts cfg l r acc).1 ∧ r.stale = false := by
  induction l with
  | nil => intro r acc _ hg hst; exact ⟨hg hst, hst⟩
  | cons x rest ih =>
    intro r acc hr hg hst
    simp only [addStarts] at hst ⊢
    obtain ⟨a1, _⟩ := addMilestone_spec cfg r x.2 hr
    have key := addMilestone_good cfg r x.2 hr hg
    obtain ⟨i1, i2⟩ := ih _ _ a1 (fun hs => (key hs).1) hst
    exact ⟨i1, (key i2).2⟩

end OmplModel.LazyPRM
