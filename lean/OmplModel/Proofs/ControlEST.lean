import OmplModel.Proofs.ControlRRT
import OmplModel.Model.CEST
import OmplModel.Proofs.ESTPdf
/-! Helper lemmas for `Model/CEST.lean` (`control::EST::solve`): the generic tree invariant of
`Proofs/ControlRRT.lean` (the tree only grows by `push`), and the grid/PDF synchronisation on top of
the C12 PDF lemmas (`ShapeInv`, `IdxSync`, `getWeight_update`, `getWeight_add`). Arithmetic-free. -/
namespace OmplModel.CEST
open OmplModel.Control OmplModel.CRRT OmplModel.Pdf
open OmplModel.EST (PInv getWeight_update getWeight_add add_next_size pinv_update sample_ok_mem)
variable {S U δ κ ρ : Type} [DecidableEq κ] [WScale δ]

/-- the control of a motion is one of the scripted `sampleTo` draws, with a whole step count between
`minControlDuration` and the drawn count -/
def GoodE (P : Problem S U δ κ ρ) (draws : List (Draw S U)) (u : U) (k : Nat) : Prop :=
  ∃ d ∈ draws, ∃ k0, (u, k0) ∈ d.ctl ∧ P.minSteps ≤ k ∧ k ≤ k0

/-- the coded weight of a cell: `1.0` when created, `1.0 / size` after every later insertion -/
def cellW (P : Problem S U δ κ ρ) (c : Cell κ) : δ :=
  if c.motions.length = 1 then P.wOne else P.wInv c.motions.length

theorem pinv_add (p : Pdf δ) (n : Nat) (w : δ) (hw : WOps.lt w (WOps.zero : δ) = false)
    (hp : PInv p n) : PInv (p.add w) (n + 1) :=
  ⟨shapeInv_add p w hp.shape, idxSync_add p w hp.idx, by rw [(add_next_size p w hw).1, hp.next],
    by rw [(add_next_size p w hw).2, hp.size]⟩

/-- grid / PDF invariant; `n` is the number of motions that have entered their cell -/
structure CInv (P : Problem S U δ κ ρ) (st : St S U δ κ ρ) (n : Nat) : Prop where
  pdf : PInv st.pdf st.cells.size
  cellok : ∀ (ci : Nat) (cell : Cell κ), st.cells[ci]? = some cell →
    cell.elem = ci ∧ cell.motions ≠ [] ∧ st.pdf.getWeight ci = some (cellW P cell)
  distinct : ∀ (i j : Nat) (ci cj : Cell κ), st.cells[i]? = some ci → st.cells[j]? = some cj →
    ci.coord = cj.coord → i = j
  mem : ∀ (ci : Nat) (cell : Cell κ), st.cells[ci]? = some cell → ∀ m ∈ cell.motions,
    m < n ∧ ∃ mo, st.tree[m]? = some mo ∧ P.coordOf mo.state = cell.coord
  nodup : ∀ (ci : Nat) (cell : Cell κ), st.cells[ci]? = some cell → cell.motions.Nodup
  cover : ∀ m, m < n → ∃ (ci : Nat) (cell : Cell κ), st.cells[ci]? = some cell ∧ m ∈ cell.motions
  count : (st.cells.toList.map (·.motions.length)).sum = n

omit [DecidableEq κ] in
theorem sum_set_len : ∀ (l : List (Cell κ)) (i : Nat) (c c' : Cell κ), l[i]? = some c →
    c'.motions.length = c.motions.length + 1 →
    ((l.set i c').map (·.motions.length)).sum = (l.map (·.motions.length)).sum + 1 := by
  intro l
  induction l with
  | nil => intro i c c' h; simp at h
  | cons x l ih =>
    intro i c c' h hl
    cases i with
    | zero =>
      have : x = c := by simpa using h
      subst this
      simp only [List.set_cons_zero, List.map_cons, List.sum_cons, hl]; omega
    | succ i =>
      have := ih i c c' (by simpa using h) hl
      simp only [List.set_cons_succ, List.map_cons, List.sum_cons, this]; omega

theorem enterCell_fields (P : Problem S U δ κ ρ) (st : St S U δ κ ρ) (idx : Nat) (s : S) :
    (enterCell P st idx s).tree = st.tree ∧ (enterCell P st idx s).solution = st.solution ∧
      (enterCell P st idx s).approxsol = st.approxsol ∧ (enterCell P st idx s).rng = st.rng := by
  unfold enterCell
  simp only
  split
  · split <;> exact ⟨rfl, rfl, rfl, rfl⟩
  · exact ⟨rfl, rfl, rfl, rfl⟩

/-- `addMotion`'s cell step: motion `n` (already in the tree, state `s`) enters its cell -/
theorem enterCell_cinv (P : Problem S U δ κ ρ) (hw : WOps.lt P.wOne (WOps.zero : δ) = false)
    (st : St S U δ κ ρ) (n : Nat) (s : S) (mo : Motion S U) (hC : CInv P st n)
    (hmo : st.tree[n]? = some mo) (hs : mo.state = s) : CInv P (enterCell P st n s) (n + 1) := by
  unfold enterCell
  simp only
  cases hf : findCell st.cells (P.coordOf s) with
  | none =>
    simp only
    have hnone : ∀ x ∈ st.cells, ¬ x.coord = P.coordOf s := by
      intro x hx
      have := Array.findIdx?_eq_none_iff.mp hf x hx
      simpa using this
    have hnext := hC.pdf.next
    refine ⟨?_, ?_, ?_, ?_, ?_, ?_, ?_⟩
    · show PInv (st.pdf.add P.wOne) (st.cells.push _).size
      rw [Array.size_push]; exact pinv_add _ _ _ hw hC.pdf
    · intro ci cell h
      have h : (st.cells.push { coord := P.coordOf s, motions := [n], elem := st.pdf.next })[ci]? = some cell := h
      show cell.elem = ci ∧ cell.motions ≠ [] ∧ (st.pdf.add P.wOne).getWeight ci = some (cellW P cell)
      rw [getWeight_add st.pdf hC.pdf.shape hC.pdf.idx P.wOne hw ci]
      rw [Array.getElem?_push] at h
      by_cases hci : ci = st.cells.size
      · rw [if_pos hci] at h
        cases Option.some.inj h
        refine ⟨by rw [hci, hnext], by simp, ?_⟩
        rw [if_pos (by rw [hci, hnext])]
        simp [cellW]
      · rw [if_neg hci] at h
        obtain ⟨h1, h2, h3⟩ := hC.cellok ci cell h
        have hlt := lt_size_of_getElem? h
        refine ⟨h1, h2, ?_⟩
        rw [if_neg (by rw [hnext]; omega)]; exact h3
    · intro i j ci cj hi hj hc
      have hi : (st.cells.push { coord := P.coordOf s, motions := [n], elem := st.pdf.next })[i]? = some ci := hi
      have hj : (st.cells.push { coord := P.coordOf s, motions := [n], elem := st.pdf.next })[j]? = some cj := hj
      rw [Array.getElem?_push] at hi hj
      by_cases hie : i = st.cells.size
      · rw [if_pos hie] at hi
        cases Option.some.inj hi
        by_cases hje : j = st.cells.size
        · omega
        · rw [if_neg hje] at hj
          exact absurd hc.symm (hnone cj (Array.mem_of_getElem? hj))
      · rw [if_neg hie] at hi
        by_cases hje : j = st.cells.size
        · rw [if_pos hje] at hj
          cases Option.some.inj hj
          exact absurd hc (hnone ci (Array.mem_of_getElem? hi))
        · rw [if_neg hje] at hj
          exact hC.distinct i j ci cj hi hj hc
    · intro ci cell h m hm
      have h : (st.cells.push { coord := P.coordOf s, motions := [n], elem := st.pdf.next })[ci]? = some cell := h
      show m < n + 1 ∧ ∃ mo, st.tree[m]? = some mo ∧ P.coordOf mo.state = cell.coord
      rw [Array.getElem?_push] at h
      by_cases hci : ci = st.cells.size
      · rw [if_pos hci] at h
        cases Option.some.inj h
        have : m = n := by simpa using hm
        subst this
        exact ⟨by omega, mo, hmo, by rw [hs]⟩
      · rw [if_neg hci] at h
        obtain ⟨h1, h2⟩ := hC.mem ci cell h m hm
        exact ⟨by omega, h2⟩
    · intro ci cell h
      have h : (st.cells.push { coord := P.coordOf s, motions := [n], elem := st.pdf.next })[ci]? = some cell := h
      rw [Array.getElem?_push] at h
      by_cases hci : ci = st.cells.size
      · rw [if_pos hci] at h
        cases Option.some.inj h
        simp
      · rw [if_neg hci] at h
        exact hC.nodup ci cell h
    · intro m hm
      show ∃ (ci : Nat) (cell : Cell κ),
        (st.cells.push { coord := P.coordOf s, motions := [n], elem := st.pdf.next })[ci]? = some cell ∧ m ∈ cell.motions
      by_cases hmn : m = n
      · exact ⟨st.cells.size, _, by rw [Array.getElem?_push, if_pos rfl], by simp [hmn]⟩
      · obtain ⟨ci, cell, h1, h2⟩ := hC.cover m (by omega)
        exact ⟨ci, cell, by rw [getElem?_push_lt _ _ _ (lt_size_of_getElem? h1)]; exact h1, h2⟩
    · show ((st.cells.push { coord := P.coordOf s, motions := [n], elem := st.pdf.next }).toList.map
        (·.motions.length)).sum = n + 1
      rw [Array.toList_push, List.map_append, List.sum_append, hC.count]
      simp
  | some ci =>
    obtain ⟨hci, hcoord, _⟩ := Array.findIdx?_eq_some_iff_getElem.mp hf
    have hcoord : st.cells[ci].coord = P.coordOf s := by simpa using hcoord
    have hget : st.cells[ci]? = some st.cells[ci] := Array.getElem?_eq_getElem hci
    simp only [hget]
    generalize hcell : st.cells[ci] = cell at hget hcoord
    obtain ⟨helem, hne, hwt⟩ := hC.cellok ci cell hget
    have hlen : 1 ≤ cell.motions.length := by
      cases hm : cell.motions with
      | nil => exact absurd hm hne
      | cons _ _ => simp
    -- lookups in the updated cell array
    have hnew : ∀ (cj : Nat) (x : Cell κ),
        (st.cells.setIfInBounds ci { cell with motions := cell.motions ++ [n] })[cj]? = some x →
        (cj = ci ∧ x = { cell with motions := cell.motions ++ [n] }) ∨ (cj ≠ ci ∧ st.cells[cj]? = some x) := by
      intro cj x h
      rw [Array.getElem?_setIfInBounds] at h
      by_cases e : ci = cj
      · rw [if_pos e, if_pos hci] at h
        exact Or.inl ⟨e.symm, (Option.some.inj h).symm⟩
      · rw [if_neg e] at h
        exact Or.inr ⟨fun e' => e e'.symm, h⟩
    have hupd := getWeight_update st.pdf hC.pdf.shape hC.pdf.idx cell.elem
      (P.wInv (cell.motions ++ [n]).length) (by rw [helem, hwt]; rfl)
    refine ⟨?_, ?_, ?_, ?_, ?_, ?_, ?_⟩
    · show PInv (st.pdf.update cell.elem _) (st.cells.setIfInBounds ci _).size
      rw [Array.size_setIfInBounds]; exact pinv_update _ _ _ _ hC.pdf
    · intro cj x h
      show x.elem = cj ∧ x.motions ≠ [] ∧
        (st.pdf.update cell.elem (P.wInv (cell.motions ++ [n]).length)).getWeight cj = some (cellW P x)
      rw [hupd cj]
      rcases hnew cj x h with ⟨e, rfl⟩ | ⟨e, h'⟩
      · refine ⟨by rw [e]; exact helem, by simp, ?_⟩
        rw [if_pos (by rw [e, helem])]
        simp only [cellW, List.length_append, List.length_cons, List.length_nil]
        rw [if_neg (by omega)]
      · obtain ⟨h1, h2, h3⟩ := hC.cellok cj x h'
        refine ⟨h1, h2, ?_⟩
        rw [if_neg (by rw [helem]; exact e)]; exact h3
    · intro i j xi xj hi hj hc
      have old : ∀ (k : Nat) (x : Cell κ),
          (st.cells.setIfInBounds ci { cell with motions := cell.motions ++ [n] })[k]? = some x →
          ∃ y, st.cells[k]? = some y ∧ y.coord = x.coord := by
        intro k x h
        rcases hnew k x h with ⟨e, rfl⟩ | ⟨_, h'⟩
        · exact ⟨cell, by rw [e]; exact hget, rfl⟩
        · exact ⟨x, h', rfl⟩
      obtain ⟨yi, h1, h2⟩ := old i xi hi
      obtain ⟨yj, h3, h4⟩ := old j xj hj
      exact hC.distinct i j yi yj h1 h3 (by rw [h2, h4]; exact hc)
    · intro cj x h m hm
      show m < n + 1 ∧ ∃ mo, st.tree[m]? = some mo ∧ P.coordOf mo.state = x.coord
      rcases hnew cj x h with ⟨_, rfl⟩ | ⟨_, h'⟩
      · rcases List.mem_append.mp hm with hm | hm
        · obtain ⟨h1, h2⟩ := hC.mem ci cell hget m hm
          exact ⟨by omega, h2⟩
        · have : m = n := by simpa using hm
          subst this
          exact ⟨by omega, mo, hmo, by rw [hs]; exact hcoord.symm⟩
      · obtain ⟨h1, h2⟩ := hC.mem cj x h' m hm
        exact ⟨by omega, h2⟩
    · intro cj x h
      rcases hnew cj x h with ⟨_, rfl⟩ | ⟨_, h'⟩
      · show (cell.motions ++ [n]).Nodup
        rw [List.nodup_append]
        refine ⟨hC.nodup ci cell hget, by simp, ?_⟩
        intro a ha b hb
        have : b = n := by simpa using hb
        have := (hC.mem ci cell hget a ha).1
        omega
      · exact hC.nodup cj x h'
    · intro m hm
      show ∃ (cj : Nat) (x : Cell κ),
        (st.cells.setIfInBounds ci { cell with motions := cell.motions ++ [n] })[cj]? = some x ∧ m ∈ x.motions
      have hself : (st.cells.setIfInBounds ci { cell with motions := cell.motions ++ [n] })[ci]? =
          some { cell with motions := cell.motions ++ [n] } := by
        rw [Array.getElem?_setIfInBounds, if_pos rfl, if_pos hci]
      by_cases hmn : m = n
      · exact ⟨ci, _, hself, by simp [hmn]⟩
      · obtain ⟨cj, x, h1, h2⟩ := hC.cover m (by omega)
        by_cases e : cj = ci
        · rw [e, hget] at h1
          cases Option.some.inj h1
          exact ⟨ci, _, hself, List.mem_append_left _ h2⟩
        · exact ⟨cj, x, by rw [Array.getElem?_setIfInBounds, if_neg (fun e' => e e'.symm)]; exact h1, h2⟩
    · show ((st.cells.setIfInBounds ci { cell with motions := cell.motions ++ [n] }).toList.map
        (·.motions.length)).sum = n + 1
      rw [Array.toList_setIfInBounds, sum_set_len _ ci cell _ (by rw [Array.getElem?_toList]; exact hget)
        (by simp), hC.count]

/-! ## the tree / loop invariant -/

structure EInv (P : Problem S U δ κ ρ) (starts : List S) (draws : List (Draw S U))
    (st : St S U δ κ ρ) : Prop where
  tree : TreeInvG P.step P.valid starts (GoodE P draws) st.tree
  sol : ∀ i, st.solution = some i → ∃ m, st.tree[i]? = some m ∧ (P.goal m.state).1 = true
  app : ∀ i, st.approxsol = some i → i < st.tree.size
  /-- the grid/PDF part needs `add` to accept the weight of a new cell -/
  cells : WOps.lt P.wOne (WOps.zero : δ) = false → CInv P st st.tree.size

omit [DecidableEq κ] in
theorem einv_rng (P : Problem S U δ κ ρ) (starts : List S) (draws : List (Draw S U))
    (st : St S U δ κ ρ) (r : ρ) (h : EInv P starts draws st) : EInv P starts draws { st with rng := r } :=
  ⟨h.tree, h.sol, h.app, fun hw =>
    ⟨(h.cells hw).pdf, (h.cells hw).cellok, (h.cells hw).distinct, (h.cells hw).mem, (h.cells hw).nodup,
      (h.cells hw).cover, (h.cells hw).count⟩⟩

theorem addMotion_cinv (P : Problem S U δ κ ρ) (hw : WOps.lt P.wOne (WOps.zero : δ) = false)
    (st : St S U δ κ ρ) (m : Motion S U) (hC : CInv P st st.tree.size) :
    CInv P (addMotion P st m) (st.tree.size + 1) := by
  have hnew : (st.tree.push m)[st.tree.size]? = some m := by rw [Array.getElem?_push, if_pos rfl]
  have hC0 : CInv P { st with tree := st.tree.push m } st.tree.size :=
    ⟨hC.pdf, hC.cellok, hC.distinct,
      fun ci cell h x hx => by
        obtain ⟨h1, mo, h2, h3⟩ := hC.mem ci cell h x hx
        exact ⟨h1, mo, by show (st.tree.push m)[x]? = some mo; rw [getElem?_push_lt _ _ _ h1]; exact h2, h3⟩,
      hC.nodup, hC.cover, hC.count⟩
  exact enterCell_cinv P hw _ st.tree.size m.state m hC0 hnew rfl

theorem addMotion_inv (P : Problem S U δ κ ρ)
    (starts : List S) (draws : List (Draw S U)) (st : St S U δ κ ρ) (m : Motion S U)
    (hI : EInv P starts draws st)
    (hm : GoodMotionG P.step P.valid starts (GoodE P draws) st.tree st.tree.size m) :
    EInv P starts draws (addMotion P st m) ∧ (addMotion P st m).tree = st.tree.push m ∧
      (addMotion P st m).solution = st.solution ∧ (addMotion P st m).approxsol = st.approxsol := by
  have hf : (addMotion P st m).tree = st.tree.push m ∧ (addMotion P st m).solution = st.solution ∧
      (addMotion P st m).approxsol = st.approxsol := by
    obtain ⟨f1, f2, f3, _⟩ := enterCell_fields P { st with tree := st.tree.push m } st.tree.size m.state
    exact ⟨f1, f2, f3⟩
  obtain ⟨f1, f2, f3⟩ := hf
  refine ⟨⟨?_, ?_, ?_, ?_⟩, f1, f2, f3⟩
  · rw [f1]; exact treeInvG_push _ _ _ _ _ _ hI.tree hm
  · intro i hi
    rw [f2] at hi
    obtain ⟨m', h1, h2⟩ := hI.sol i hi
    exact ⟨m', by rw [f1, getElem?_push_lt _ _ _ (lt_size_of_getElem? h1)]; exact h1, h2⟩
  · intro i hi
    rw [f3] at hi
    have := hI.app i hi
    rw [f1, Array.size_push]; omega
  · intro hw
    rw [f1, Array.size_push]; exact addMotion_cinv P hw st m (hI.cells hw)

theorem iter_inv (P : Problem S U δ κ ρ)
    (starts : List S) (draws : List (Draw S U)) (st : St S U δ κ ρ) (d : Draw S U) (hd : d ∈ draws)
    (hI : EInv P starts draws st) : EInv P starts draws (iter P st d).1 := by
  unfold iter
  simp only
  generalize selectMotion P st = sel
  split
  · exact einv_rng P starts draws st _ hI
  · rename_i ex _
    split
    · exact einv_rng P starts draws st _ hI
    · rename_i em hem
      generalize (if P.goalSampleable = true then
        (P.lt (P.rng01 sel.2).1 P.goalBias && P.canSample, (P.rng01 sel.2).2) else (false, sel.2)) = gb
      have hI1 := einv_rng P starts draws st gb.2 hI
      split
      · exact hI1
      · rename_i rstate _
        split
        · exact hI1
        · rename_i rctrl dur reached hs
          obtain ⟨h1, h2, k0, h3, h4⟩ := sampleTo_ok _ _ _ _ _ _ _ _ hs
          simp only at h1 h2 h3 h4
          split
          · rename_i hmin
            have hm : GoodMotionG P.step P.valid starts (GoodE P draws) st.tree st.tree.size
                { state := reached, control := rctrl, steps := dur, parent := some ex } :=
              Or.inr ⟨ex, em, rfl, lt_size_of_getElem? hem, hem, h1, h2, d, hd, k0, h3, hmin, h4⟩
            obtain ⟨hI2, ht, hsol, happ⟩ := addMotion_inv P starts draws { st with rng := gb.2 } _ hI1 hm
            have hnew : (addMotion P { st with rng := gb.2 }
                { state := reached, control := rctrl, steps := dur, parent := some ex }).tree[st.tree.size]? =
                some { state := reached, control := rctrl, steps := dur, parent := some ex } := by
              rw [ht]; show (st.tree.push _)[st.tree.size]? = _
              rw [Array.getElem?_push, if_pos rfl]
            have hcells : ∀ (sol app : Option Nat) (dif : δ), WOps.lt P.wOne (WOps.zero : δ) = false →
                CInv P { addMotion P { st with rng := gb.2 }
                  { state := reached, control := rctrl, steps := dur, parent := some ex } with
                  approxdif := dif, solution := sol, approxsol := app }
                  (addMotion P { st with rng := gb.2 }
                    { state := reached, control := rctrl, steps := dur, parent := some ex }).tree.size :=
              fun _ _ _ hw => ⟨(hI2.cells hw).pdf, (hI2.cells hw).cellok, (hI2.cells hw).distinct,
                (hI2.cells hw).mem, (hI2.cells hw).nodup, (hI2.cells hw).cover, (hI2.cells hw).count⟩
            split
            · rename_i hg
              refine ⟨hI2.tree, ?_, hI2.app, hcells _ _ _⟩
              intro i hi
              cases Option.some.inj hi
              exact ⟨_, hnew, hg⟩
            · split
              · refine ⟨hI2.tree, hI2.sol, ?_, hcells _ _ _⟩
                intro i hi
                cases Option.some.inj hi
                exact lt_size_of_getElem? hnew
              · exact hI2
          · exact hI1

theorem run_inv (P : Problem S U δ κ ρ)
    (starts : List S) (draws : List (Draw S U)) :
    ∀ (ds : List (Draw S U)) (st : St S U δ κ ρ), (∀ d ∈ ds, d ∈ draws) → EInv P starts draws st →
      EInv P starts draws (run P st ds) := by
  intro ds
  induction ds with
  | nil => intro st _ hI; exact hI
  | cons d ds ih =>
    intro st hsub hI
    have hI' := iter_inv P starts draws st d (hsub d (List.mem_cons_self ..)) hI
    simp only [run]
    split
    · rename_i st' heq
      rw [heq] at hI'
      exact ih _ (fun d' hd' => hsub d' (List.mem_cons_of_mem _ hd')) hI'
    · rename_i st' _ heq
      rw [heq] at hI'
      exact hI'

theorem init_inv (P : Problem S U δ κ ρ) (g : ρ)
    (starts : List S) (draws : List (Draw S U)) : EInv P starts draws (init P g starts) := by
  unfold init
  have key : ∀ (l : List S) (st : St S U δ κ ρ), (∀ s ∈ l, s ∈ starts ∧ P.valid s = true) →
      EInv P starts draws st → EInv P starts draws (l.foldl
        (fun st s => addMotion P st { state := s, control := P.nullControl, steps := 0, parent := none }) st) := by
    intro l
    induction l with
    | nil => intro st _ h; exact h
    | cons s l ih =>
      intro st hl h
      rw [List.foldl_cons]
      have hs := hl s (List.mem_cons_self ..)
      exact ih _ (fun x hx => hl x (List.mem_cons_of_mem _ hx))
        (addMotion_inv P starts draws st _ h (Or.inl ⟨rfl, hs.1, hs.2⟩)).1
  refine key _ _ (fun s hs => List.mem_filter.mp hs) ⟨?_, ?_, ?_, ?_⟩
  · intro i m h; simp at h
  · intro i h; cases h
  · intro i h; cases h
  · intro _
    refine ⟨⟨shapeInv_empty, idxSync_empty, rfl, rfl⟩, ?_, ?_, ?_, ?_, ?_, rfl⟩
    · intro ci cell h; simp at h
    · intro i j ci cj h; simp at h
    · intro ci cell h; simp at h
    · intro ci cell h; simp at h
    · intro m hm; simp at hm

theorem solve_final_inv (P : Problem S U δ κ ρ) (g : ρ)
    (starts : List S) (draws : List (Draw S U)) : EInv P starts draws (solve P g starts draws).final := by
  have h0 := init_inv P g starts draws
  have h := run_inv P starts draws draws _ (fun _ h => h) h0
  unfold solve
  simp only
  split
  · exact h0
  · split
    · exact h
    · split <;> exact h

theorem solve_path (P : Problem S U δ κ ρ) (g : ρ)
    (starts : List S) (draws : List (Draw S U)) (p : Path S U)
    (h : (solve P g starts draws).path = some p) :
    ∃ s0 sl, p = ofSegs s0 sl ∧ s0 ∈ starts ∧ P.valid s0 = true ∧
      ReplayOK P.step P.valid s0 sl ∧ (∀ x ∈ sl, GoodE P draws x.1 x.2.1) ∧
      ((solve P g starts draws).status = .exact → (P.goal (endState s0 sl)).1 = true) := by
  have hI := run_inv P starts draws draws _ (fun _ h => h) (init_inv P g starts draws)
  unfold solve at h ⊢
  simp only at h ⊢
  split at h
  · cases h
  · rename_i hsz
    rw [if_neg hsz]
    split at h
    · rename_i i hsol
      obtain ⟨m, hm, hg⟩ := hI.sol i hsol
      obtain ⟨s0, sl, e1, e2, e3, e4, e5, e6⟩ :=
        chain_pathG P.step P.valid starts (GoodE P draws) _ hI.tree _ i m (lt_size_of_getElem? hm) hm
      cases Option.some.inj h
      refine ⟨s0, sl, e1, e2, e3, e4, e6, ?_⟩
      intro _; rw [e5]; exact hg
    · split at h
      · rename_i hsol _ i happ
        have hlt := hI.app i happ
        obtain ⟨s0, sl, e1, e2, e3, e4, e5, e6⟩ :=
          chain_pathG P.step P.valid starts (GoodE P draws) _ hI.tree _ i _ hlt (Array.getElem?_eq_getElem hlt)
        cases Option.some.inj h
        refine ⟨s0, sl, e1, e2, e3, e4, e6, ?_⟩
        intro hst
        cases hst
      · cases h

theorem solve_status_path (P : Problem S U δ κ ρ) (g : ρ) (starts : List S) (draws : List (Draw S U)) :
    ((solve P g starts draws).status = .exact ∨ (solve P g starts draws).status = .approximate) ↔
      (solve P g starts draws).path.isSome = true := by
  unfold solve
  simp only
  split
  · simp
  · split
    · simp
    · split <;> simp

omit [DecidableEq κ] in
/-- what `selectMotion` can return on a state satisfying the invariant -/
theorem selectMotion_lt (P : Problem S U δ κ ρ) (st : St S U δ κ ρ) (n : Nat) (hC : CInv P st n)
    (ex : Nat) (h : (selectMotion P st).1 = some ex) : ex < st.tree.size := by
  unfold selectMotion at h
  simp only at h
  split at h
  · rename_i hcell _
    split at h
    · cases h
    · rename_i cell hc
      split at h
      · cases h
      · have hm : ex ∈ cell.motions := List.mem_of_getElem? h
        obtain ⟨_, mo, h2, _⟩ := hC.mem _ cell hc ex hm
        exact lt_size_of_getElem? h2
  · cases h

omit [DecidableEq κ] in
/-- a handle returned by `pdf_.sample` is a cell, and that cell is not empty -/
theorem sample_ok_cell (P : Problem S U δ κ ρ) (st : St S U δ κ ρ) (n : Nat) (hC : CInv P st n) (r : δ)
    (h : Nat) (hs : st.pdf.sample r = .ok h) : ∃ cell, st.cells[h]? = some cell ∧ cell.motions ≠ [] := by
  have hm := sample_ok_mem st.pdf r h hs
  obtain ⟨i, hi, e⟩ := Array.getElem_of_mem hm
  have hf := hC.pdf.idx.fwd i hi
  rw [e] at hf
  have hlt : h < st.cells.size := by
    rcases Nat.lt_or_ge h st.cells.size with hk | hk
    · exact hk
    · have := hC.pdf.idx.fresh h (by rw [hC.pdf.next]; exact hk)
      rw [this] at hf; cases hf
  exact ⟨st.cells[h], Array.getElem?_eq_getElem hlt, (hC.cellok h _ (Array.getElem?_eq_getElem hlt)).2.1⟩

end OmplModel.CEST
