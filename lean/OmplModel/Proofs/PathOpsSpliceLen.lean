/-
`partialShortcutPath` never lengthens the path, over the splice model (`psSplice`/`psSkip` of
`OmplModel.Model.PathOps`; C++: `PathSimplifier::partialShortcutPath`,
src/ompl/geometric/src/PathSimplifier.cpp lines 295-492).

Setting: `dist` takes values in an ordered additive commutative monoid; a sample that was NOT snapped to a
vertex lies on its segment, i.e. the cut is additive (`dist p s + dist s n = dist p n`: geodesic
interpolation).  Three ways to bound the new chord `a → b` (`a`/`b` = the two, possibly snapped,
sample states):

* `psSplice_pathLen_le_of_cost`  : `dist a b ≤` length of the sub-path of the old vector between the two
                                   sample points (no triangle inequality);
* `psSplice_pathLen_le_of_along` : `dist a b ≤ alongPath`, the quantity the routine itself computes and
                                   compares (`isCostBetterThan(alongPath, motionCost(s0, s1))` → `continue`),
                                   for a non-negative `dist`.  With a snapped first sample the routine's
                                   `alongPath` leaves out the motion `states[pos0] → states[pos0+1]`, so it is a
                                   lower bound of the sub-path length, not equal to it;
* `psSplice_pathLen_le`          : the triangle inequality alone.

`PsSteps` is the reflexive-transitive closure of such splices.
-/
import OmplModel.Proofs.PathOpsDensify
import OmplModel.Proofs.PathOpsRemove
import OmplModel.Proofs.PathOpsRopeLen
import Mathlib.Algebra.Order.Monoid.Defs

namespace OmplModel.PathOps

variable {σ : Type}

/-! ## cutting a vector at two indices -/

theorem drop_eq_mid_append_drop (st : List σ) (i e : Nat) (hie : i ≤ e) :
    st.drop i = (st.take e).drop i ++ st.drop e := by
  have h : st.drop e = (st.drop i).drop (e - i) := by
    rw [List.drop_drop]; congr 1; omega
  rw [List.drop_take, h, List.take_append_drop]

theorem take_append_mid (st : List σ) (i e : Nat) (hie : i ≤ e) :
    st.take i ++ (st.take e).drop i = st.take e := by
  have h : st.take i = (st.take e).take i := by
    rw [List.take_take, Nat.min_eq_left hie]
  rw [h, List.take_append_drop]

/-- `st = st[0..i] ++ st(i..e) ++ st[e..]` -/
theorem eq_take_mid_drop (st : List σ) (i e : Nat) (hie : i ≤ e) :
    st = st.take i ++ ((st.take e).drop i ++ st.drop e) := by
  rw [← List.append_assoc, take_append_mid st i e hie, List.take_append_drop]

theorem head?_mid_append (st : List σ) (i e : Nat) (R : List σ) (hie : i < e) (he : e ≤ st.length) :
    ((st.take e).drop i ++ R).head? = some (st[i]'(by omega)) := by
  have hl : i < (st.take e).length := by rw [List.length_take]; omega
  rw [List.head?_append, head?_drop_lt _ _ hl, List.getElem_take]
  rfl

/-- the vertices of the old vector strictly between the two sample points (after the ordering step):
`st[pos0+1 .. pos1]`, without `st[pos1]` if the second sample was snapped to it -/
def psInner (st : List σ) (pos0 pos1 : Nat) (idx1 : Bool) : List σ :=
  (st.take (if idx1 then pos1 else pos1 + 1)).drop (pos0 + 1)

/-- the states whose consecutive motions the routine sums up as `alongPath`:
`s0PartialCost` (`s0 → states[pos0+1]`, only if `index0 < 0`), the motions
`states[posTemp] → states[posTemp+1]` for `pos0 + 1 ≤ posTemp < pos1`, and `s1PartialCost`
(`states[pos1] → s1`, only if `index1 < 0`) -/
def psAlongList (st : List σ) (pos0 : Nat) (idx0 : Bool) (s0 : σ) (pos1 : Nat) (idx1 : Bool) (s1 : σ) :
    List σ :=
  (if idx0 then [] else [s0]) ++ ((st.take (pos1 + 1)).drop (pos0 + 1) ++ (if idx1 then [] else [s1]))

section Len
variable {α : Type} [AddCommMonoid α]

/-! ## inserting a cut point / replacing a sub-path by its chord, at a seam `Z ++ W` -/

/-- a cut point `s` on the motion `m → q` across the seam does not change the length -/
theorem pathLen_insert_seam (dist : σ → σ → α) (Z W : List σ) (m s q : σ)
    (hZ : Z.getLast? = some m) (hW : W.head? = some q) (hc : dist m s + dist s q = dist m q) :
    pathLen dist (Z ++ s :: W) = pathLen dist (Z ++ W) := by
  obtain ⟨Z', rfl⟩ := List.getLast?_eq_some_iff.mp hZ
  cases W with
  | nil => simp at hW
  | cons x W' =>
    simp only [List.head?_cons, Option.some.injEq] at hW
    subst hW
    have h := pathLen_insert_geo dist Z' [s] W' m x (by simp [pathLen, hc])
    simpa using h

variable [PartialOrder α] [IsOrderedAddMonoid α]

/-- generalized triangle inequality: a chord is not longer than any chain joining its ends -/
theorem dist_le_pathLen (dist : σ → σ → α) (tri : ∀ a b c, dist a c ≤ dist a b + dist b c) :
    ∀ (mid : List σ) (x y : σ), dist x y ≤ pathLen dist (x :: (mid ++ [y])) := by
  intro mid
  induction mid with
  | nil => intro x y; simp [pathLen]
  | cons m mid ih =>
    intro x y
    simp only [List.cons_append, pathLen]
    exact le_trans (tri x m y) (add_le_add (le_refl _) (ih m y))

/-- for a non-negative `dist`, dropping the first state does not lengthen -/
theorem pathLen_le_cons (dist : σ → σ → α) (hnn : ∀ a b, 0 ≤ dist a b) (x : σ) (L : List σ) :
    pathLen dist L ≤ pathLen dist (x :: L) := by
  cases L with
  | nil => simp [pathLen]
  | cons y L' =>
    simp only [pathLen]
    calc pathLen dist (y :: L') = 0 + pathLen dist (y :: L') := (zero_add _).symm
      _ ≤ dist x y + pathLen dist (y :: L') := add_le_add (hnn x y) (le_refl _)

/-- replacing the chain `a :: inner ++ [b]` across the seam by the motion `a → b` -/
theorem pathLen_chord_seam (dist : σ → σ → α) (Z inner W : List σ) (a b : σ)
    (hZ : Z.getLast? = some a) (hW : W.head? = some b)
    (hcost : dist a b ≤ pathLen dist (a :: (inner ++ [b]))) :
    pathLen dist (Z ++ W) ≤ pathLen dist (Z ++ (inner ++ W)) := by
  obtain ⟨Z', rfl⟩ := List.getLast?_eq_some_iff.mp hZ
  cases W with
  | nil => simp at hW
  | cons x W' =>
    simp only [List.head?_cons, Option.some.injEq] at hW
    subst hW
    simp only [List.append_assoc, List.cons_append, List.nil_append]
    rw [pathLen_append_cons dist Z' a (x :: W'), pathLen_append_cons dist Z' a (inner ++ x :: W'),
      pathLen_cons_append dist inner a x W']
    have h2 : pathLen dist (a :: x :: W') = dist a x + pathLen dist (x :: W') := by simp only [pathLen]
    rw [h2]
    exact add_le_add (le_refl _) (add_le_add hcost (le_refl _))

/-! ## one splice -/

/-- (2) one splice does not lengthen the path if the new chord `a → b` is not longer than the sub-path
of the old vector between the two sample points (`a`/`b`: the vertex if the sample was snapped, the
interpolated state otherwise).  No triangle inequality. -/
theorem psSplice_pathLen_le_of_cost (dist : σ → σ → α)
    (st : List σ) (pos0 pos1 : Nat) (idx0 idx1 : Bool) (s0 s1 : σ)
    (h01 : pos0 < pos1) (h1 : pos1 + 1 < st.length) (hs : psSkip pos0 idx0 pos1 idx1 = false)
    (hc0 : idx0 = false → dist (st[pos0]'(by omega)) s0 + dist s0 (st[pos0 + 1]'(by omega)) =
      dist (st[pos0]'(by omega)) (st[pos0 + 1]'(by omega)))
    (hc1 : idx1 = false → dist (st[pos1]'(by omega)) s1 + dist s1 (st[pos1 + 1]'h1) =
      dist (st[pos1]'(by omega)) (st[pos1 + 1]'h1))
    (hcost : dist (if idx0 then st[pos0]'(by omega) else s0) (if idx1 then st[pos1]'(by omega) else s1) ≤
      pathLen dist ((if idx0 then st[pos0]'(by omega) else s0) ::
        (psInner st pos0 pos1 idx1 ++ [if idx1 then st[pos1]'(by omega) else s1])))
    {out : List σ} (h : psSplice st pos0 idx0 s0 pos1 idx1 s1 = some out) :
    pathLen dist out ≤ pathLen dist st := by
  have hT0 : (st.take (pos0 + 1)).getLast? = some (st[pos0]'(by omega)) :=
    getLast?_take_succ st pos0 (by omega)
  cases idx0 <;> cases idx1 <;>
    simp only [psInner, Bool.false_eq_true, if_false, if_true] at hcost
  · -- both samples inside their segments: `… p0, s0, s1, q1 …`
    rw [psSplice_ff st pos0 pos1 s0 s1 h01 (by omega)] at h
    obtain rfl := Option.some.inj h
    have hc0' := hc0 rfl
    have hc1' := hc1 rfl
    have e0 : pathLen dist (st.take (pos0 + 1) ++
        s0 :: ((st.take (pos1 + 1)).drop (pos0 + 1) ++ s1 :: st.drop (pos1 + 1))) =
        pathLen dist (st.take (pos0 + 1) ++
          ((st.take (pos1 + 1)).drop (pos0 + 1) ++ s1 :: st.drop (pos1 + 1))) :=
      pathLen_insert_seam dist _ _ _ s0 _ hT0
        (head?_mid_append st (pos0 + 1) (pos1 + 1) _ (by omega) (by omega)) hc0'
    have e1 : pathLen dist (st.take (pos1 + 1) ++ s1 :: st.drop (pos1 + 1)) =
        pathLen dist (st.take (pos1 + 1) ++ st.drop (pos1 + 1)) :=
      pathLen_insert_seam dist _ _ _ s1 _ (getLast?_take_succ st pos1 (by omega))
        (head?_drop_lt st (pos1 + 1) h1) hc1'
    rw [← List.append_assoc (st.take (pos0 + 1)), take_append_mid st (pos0 + 1) (pos1 + 1) (by omega),
      e1, List.take_append_drop] at e0
    have hch := pathLen_chord_seam dist (st.take (pos0 + 1) ++ [s0])
      ((st.take (pos1 + 1)).drop (pos0 + 1)) (s1 :: st.drop (pos1 + 1)) s0 s1 (by simp) rfl hcost
    rw [← e0]
    simpa using hch
  · -- second sample snapped: `… p0, s0, st[pos1] …`
    have h02 : pos0 + 2 ≤ pos1 := by simp [psSkip] at hs; omega
    rw [psSplice_ft st pos0 pos1 s0 s1 h02 (by omega)] at h
    obtain rfl := Option.some.inj h
    have hc0' := hc0 rfl
    have hst := eq_take_mid_drop st (pos0 + 1) pos1 (by omega)
    have e0 : pathLen dist (st.take (pos0 + 1) ++
        s0 :: ((st.take pos1).drop (pos0 + 1) ++ st.drop pos1)) =
        pathLen dist (st.take (pos0 + 1) ++ ((st.take pos1).drop (pos0 + 1) ++ st.drop pos1)) :=
      pathLen_insert_seam dist _ _ _ s0 _ hT0
        (head?_mid_append st (pos0 + 1) pos1 _ (by omega) (by omega)) hc0'
    rw [← hst] at e0
    have hch := pathLen_chord_seam dist (st.take (pos0 + 1) ++ [s0])
      ((st.take pos1).drop (pos0 + 1)) (st.drop pos1) s0 (st[pos1]'(by omega)) (by simp)
      (head?_drop_lt st pos1 (by omega)) hcost
    rw [← e0]
    simpa using hch
  · -- first sample snapped: `… st[pos0], s1, q1 …`
    rw [psSplice_tf st pos0 pos1 s0 s1 (by omega) (by omega)] at h
    obtain rfl := Option.some.inj h
    have hc1' := hc1 rfl
    have e1 : pathLen dist (st.take (pos1 + 1) ++ s1 :: st.drop (pos1 + 1)) =
        pathLen dist (st.take (pos1 + 1) ++ st.drop (pos1 + 1)) :=
      pathLen_insert_seam dist _ _ _ s1 _ (getLast?_take_succ st pos1 (by omega))
        (head?_drop_lt st (pos1 + 1) h1) hc1'
    rw [List.take_append_drop] at e1
    have hch := pathLen_chord_seam dist (st.take (pos0 + 1))
      ((st.take (pos1 + 1)).drop (pos0 + 1)) (s1 :: st.drop (pos1 + 1)) (st[pos0]'(by omega)) s1 hT0 rfl
      hcost
    rw [← List.append_assoc (st.take (pos0 + 1)), take_append_mid st (pos0 + 1) (pos1 + 1) (by omega),
      e1] at hch
    simpa using hch
  · -- both snapped: `… st[pos0], st[pos1] …`
    have h02 : pos0 + 2 ≤ pos1 := by simp [psSkip] at hs; omega
    rw [psSplice_tt st pos0 pos1 s0 s1 (by omega) (by omega)] at h
    obtain rfl := Option.some.inj h
    have hst := eq_take_mid_drop st (pos0 + 1) pos1 (by omega)
    have hch := pathLen_chord_seam dist (st.take (pos0 + 1))
      ((st.take pos1).drop (pos0 + 1)) (st.drop pos1) (st[pos0]'(by omega)) (st[pos1]'(by omega)) hT0
      (head?_drop_lt st pos1 (by omega)) hcost
    rw [← hst] at hch
    exact hch

/-- (1) one splice does not lengthen the path: triangle inequality + additive cuts -/
theorem psSplice_pathLen_le (dist : σ → σ → α) (tri : ∀ a b c, dist a c ≤ dist a b + dist b c)
    (st : List σ) (pos0 pos1 : Nat) (idx0 idx1 : Bool) (s0 s1 : σ)
    (h01 : pos0 < pos1) (h1 : pos1 + 1 < st.length) (hs : psSkip pos0 idx0 pos1 idx1 = false)
    (hc0 : idx0 = false → dist (st[pos0]'(by omega)) s0 + dist s0 (st[pos0 + 1]'(by omega)) =
      dist (st[pos0]'(by omega)) (st[pos0 + 1]'(by omega)))
    (hc1 : idx1 = false → dist (st[pos1]'(by omega)) s1 + dist s1 (st[pos1 + 1]'h1) =
      dist (st[pos1]'(by omega)) (st[pos1 + 1]'h1))
    {out : List σ} (h : psSplice st pos0 idx0 s0 pos1 idx1 s1 = some out) :
    pathLen dist out ≤ pathLen dist st :=
  psSplice_pathLen_le_of_cost dist st pos0 pos1 idx0 idx1 s0 s1 h01 h1 hs hc0 hc1
    (dist_le_pathLen dist tri _ _ _) h

/-- the sub-path between the sample points is at least the routine's `alongPath` (equal unless the
first sample was snapped: then `alongPath` lacks the motion `st[pos0] → st[pos0+1]`) -/
theorem psAlong_le_subpath (dist : σ → σ → α) (hnn : ∀ a b, 0 ≤ dist a b)
    (st : List σ) (pos0 pos1 : Nat) (idx0 idx1 : Bool) (s0 s1 : σ)
    (h01 : pos0 < pos1) (h1 : pos1 + 1 < st.length) :
    pathLen dist (psAlongList st pos0 idx0 s0 pos1 idx1 s1) ≤
      pathLen dist ((if idx0 then st[pos0]'(by omega) else s0) ::
        (psInner st pos0 pos1 idx1 ++ [if idx1 then st[pos1]'(by omega) else s1])) := by
  have hsnap : (st.take pos1).drop (pos0 + 1) ++ [st[pos1]'(by omega)] =
      (st.take (pos1 + 1)).drop (pos0 + 1) := by
    rw [List.take_succ_eq_append_getElem (by omega : pos1 < st.length),
      List.drop_append_of_le_length (by rw [List.length_take]; omega)]
  cases idx0 <;> cases idx1 <;>
    simp only [psAlongList, psInner, Bool.false_eq_true, if_false, if_true, List.append_nil,
      List.nil_append, List.singleton_append, hsnap]
  · exact le_refl _
  · exact le_refl _
  · exact pathLen_le_cons dist hnn _ _
  · exact pathLen_le_cons dist hnn _ _

/-- (2') the same from the routine's OWN comparison: the splice is executed only if NOT
`alongPath < motionCost(s0, s1)`, i.e. (total order) `dist a b ≤ alongPath`; `dist` non-negative. -/
theorem psSplice_pathLen_le_of_along (dist : σ → σ → α) (hnn : ∀ a b, 0 ≤ dist a b)
    (st : List σ) (pos0 pos1 : Nat) (idx0 idx1 : Bool) (s0 s1 : σ)
    (h01 : pos0 < pos1) (h1 : pos1 + 1 < st.length) (hs : psSkip pos0 idx0 pos1 idx1 = false)
    (hc0 : idx0 = false → dist (st[pos0]'(by omega)) s0 + dist s0 (st[pos0 + 1]'(by omega)) =
      dist (st[pos0]'(by omega)) (st[pos0 + 1]'(by omega)))
    (hc1 : idx1 = false → dist (st[pos1]'(by omega)) s1 + dist s1 (st[pos1 + 1]'h1) =
      dist (st[pos1]'(by omega)) (st[pos1 + 1]'h1))
    (hcost : dist (if idx0 then st[pos0]'(by omega) else s0) (if idx1 then st[pos1]'(by omega) else s1) ≤
      pathLen dist (psAlongList st pos0 idx0 s0 pos1 idx1 s1))
    {out : List σ} (h : psSplice st pos0 idx0 s0 pos1 idx1 s1 = some out) :
    pathLen dist out ≤ pathLen dist st :=
  psSplice_pathLen_le_of_cost dist st pos0 pos1 idx0 idx1 s0 s1 h01 h1 hs hc0 hc1
    (le_trans hcost (psAlong_le_subpath dist hnn st pos0 pos1 idx0 idx1 s0 s1 h01 h1)) h

/-! ## the closure -/

/-- one executed splice of `partialShortcutPath`: ordered positions that passed the `continue` filter,
unsnapped samples on their segments -/
inductive PsStep (dist : σ → σ → α) : List σ → List σ → Prop
  | mk (st : List σ) (pos0 pos1 : Nat) (idx0 idx1 : Bool) (s0 s1 : σ) (out : List σ)
      (h01 : pos0 < pos1) (h1 : pos1 + 1 < st.length) (hs : psSkip pos0 idx0 pos1 idx1 = false)
      (hc0 : idx0 = false → dist (st[pos0]'(by omega)) s0 + dist s0 (st[pos0 + 1]'(by omega)) =
        dist (st[pos0]'(by omega)) (st[pos0 + 1]'(by omega)))
      (hc1 : idx1 = false → dist (st[pos1]'(by omega)) s1 + dist s1 (st[pos1 + 1]'h1) =
        dist (st[pos1]'(by omega)) (st[pos1 + 1]'h1))
      (h : psSplice st pos0 idx0 s0 pos1 idx1 s1 = some out) : PsStep dist st out

inductive PsSteps (dist : σ → σ → α) : List σ → List σ → Prop
  | refl (st : List σ) : PsSteps dist st st
  | step {st mid out : List σ} : PsSteps dist st mid → PsStep dist mid out → PsSteps dist st out

omit [PartialOrder α] [IsOrderedAddMonoid α] in
theorem PsSteps.trans {dist : σ → σ → α} {l m n : List σ} (h1 : PsSteps dist l m)
    (h2 : PsSteps dist m n) : PsSteps dist l n := by
  induction h2 with
  | refl => exact h1
  | step _ s ih => exact .step ih s

theorem PsStep.pathLen_le {dist : σ → σ → α} (tri : ∀ a b c, dist a c ≤ dist a b + dist b c)
    {st out : List σ} (s : PsStep dist st out) : pathLen dist out ≤ pathLen dist st := by
  cases s with
  | mk pos0 pos1 idx0 idx1 s0 s1 _ h01 h1 hs hc0 hc1 h =>
    exact psSplice_pathLen_le dist tri st pos0 pos1 idx0 idx1 s0 s1 h01 h1 hs hc0 hc1 h

omit [PartialOrder α] [IsOrderedAddMonoid α] in
theorem PsStep.ends {dist : σ → σ → α} {st out : List σ} (s : PsStep dist st out) :
    out.head? = st.head? ∧ out.getLast? = st.getLast? := by
  cases s with
  | mk pos0 pos1 idx0 idx1 s0 s1 _ h01 h1 hs hc0 hc1 h =>
    obtain ⟨out', h', hh, hl, _⟩ := psSplice_spec st pos0 pos1 idx0 idx1 s0 s1 h01 h1 hs
    rw [h] at h'
    obtain rfl := Option.some.inj h'
    exact ⟨hh, hl⟩

/-- (3) any number of splices never lengthens the path -/
theorem PsSteps.pathLen_le {dist : σ → σ → α} (tri : ∀ a b c, dist a c ≤ dist a b + dist b c)
    {st out : List σ} (h : PsSteps dist st out) : pathLen dist out ≤ pathLen dist st := by
  induction h with
  | refl => exact le_refl _
  | step _ s ih => exact le_trans (s.pathLen_le tri) ih

omit [PartialOrder α] [IsOrderedAddMonoid α] in
theorem PsSteps.head? {dist : σ → σ → α} {st out : List σ} (h : PsSteps dist st out) :
    out.head? = st.head? := by
  induction h with
  | refl => rfl
  | step _ s ih => rw [s.ends.1, ih]

omit [PartialOrder α] [IsOrderedAddMonoid α] in
theorem PsSteps.getLast? {dist : σ → σ → α} {st out : List σ} (h : PsSteps dist st out) :
    out.getLast? = st.getLast? := by
  induction h with
  | refl => rfl
  | step _ s ih => rw [s.ends.2, ih]

end Len

end OmplModel.PathOps
