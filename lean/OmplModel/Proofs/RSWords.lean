import OmplModel.Proofs.RSReal
import OmplModel.Proofs.RSInteg
import OmplModel.Proofs.DubinsWords
import Mathlib.Tactic.Linarith
import Mathlib.Tactic.Ring
import Mathlib.Tactic.LinearCombination
/-!
[EX] the Reeds–Shepp base words reach the goal, and so do their timeflip / reflect images (C14, round 2).

Over ℝ, the `(t,u,v)` a base solver returns, driven from the origin `(0,0,0)` by the model's own
integration (`rsIntegFull`, signed lengths), ends at position `(x, y)` with heading `φ` modulo 2π —
the exact versions of the `assert`s in `LpSpLp`, `LpSpRp`, `LpRmL` of ReedsSheppStateSpace.cpp — and the
two symmetries the C++ uses to generate the other images hold for the integration fold:

* timeflip: negating every length maps the end pose `(x,y,φ)` to `(-x,y,-φ)`;
* reflect: exchanging `L` and `R` maps it to `(x,-y,-φ)`.
-/
namespace OmplModel.RS
open OmplModel OmplModel.Dubins DubinsR RSR
attribute [-instance] Num.instOfNat
set_option linter.unnecessarySeqFocus false

/-! ## the two symmetries -/

/-- timeflip of a pose -/
def tflip (P : Pose ℝ) : Pose ℝ := ⟨-P.x, P.y, -P.th⟩
/-- reflection of a pose in the x-axis -/
def reflect (P : Pose ℝ) : Pose ℝ := ⟨P.x, -P.y, -P.th⟩

/-- `L ↔ R` -/
def RSeg.mirror : RSeg → RSeg
  | .L => .R
  | .R => .L
  | .S => .S
  | .N => .N

theorem tflip_origin : tflip ⟨0, 0, 0⟩ = ⟨0, 0, 0⟩ := by simp [tflip]
theorem reflect_origin : reflect ⟨0, 0, 0⟩ = ⟨0, 0, 0⟩ := by simp [reflect]

theorem rsStep_tflip (s : RSeg) (v : ℝ) (P : Pose ℝ) :
    rsStep s (-v) (tflip P) = tflip (rsStep s v P) := by
  obtain ⟨x, y, th⟩ := P
  cases s
  · rfl
  · simp only [rsStep_eq_L, stepFwd_L, tflip]
    rw [show -th + -v = -(th + v) by ring]
    simp only [Real.sin_neg, Real.cos_neg]
    congr 1 <;> ring
  · simp only [rsStep_eq_S, stepFwd_S, tflip]
    simp only [Real.sin_neg, Real.cos_neg]
    congr 1 <;> ring
  · simp only [rsStep_eq_R, stepFwd_R, tflip]
    rw [show -th - -v = -(th - v) by ring]
    simp only [Real.sin_neg, Real.cos_neg]
    congr 1 <;> ring

theorem rsStep_reflect (s : RSeg) (v : ℝ) (P : Pose ℝ) :
    rsStep s.mirror v (reflect P) = reflect (rsStep s v P) := by
  obtain ⟨x, y, th⟩ := P
  cases s
  · rfl
  · simp only [RSeg.mirror, rsStep_eq_L, rsStep_eq_R, stepFwd_L, stepFwd_R, reflect]
    rw [show -th - v = -(th + v) by ring]
    simp only [Real.sin_neg, Real.cos_neg]
    congr 1 <;> ring
  · simp only [RSeg.mirror, rsStep_eq_S, stepFwd_S, reflect]
    simp only [Real.sin_neg, Real.cos_neg]
    congr 1 <;> ring
  · simp only [RSeg.mirror, rsStep_eq_L, rsStep_eq_R, stepFwd_L, stepFwd_R, reflect]
    rw [show -th + v = -(th - v) by ring]
    simp only [Real.sin_neg, Real.cos_neg]
    congr 1 <;> ring

/-- every length negated -/
def negSegs (segs : List (RSeg × ℝ)) : List (RSeg × ℝ) := segs.map (fun s => (s.1, -s.2))
/-- every letter mirrored -/
def mirrorSegs (segs : List (RSeg × ℝ)) : List (RSeg × ℝ) := segs.map (fun s => (s.1.mirror, s.2))

theorem rsIntegFull_tflip (segs : List (RSeg × ℝ)) (P : Pose ℝ) :
    rsIntegFull (negSegs segs) (tflip P) = tflip (rsIntegFull segs P) := by
  induction segs generalizing P with
  | nil => rfl
  | cons hd tl ih =>
    obtain ⟨s, l⟩ := hd
    simp only [negSegs, List.map_cons, rsIntegFull]
    rw [rsStep_tflip]
    exact ih _

theorem rsIntegFull_reflect (segs : List (RSeg × ℝ)) (P : Pose ℝ) :
    rsIntegFull (mirrorSegs segs) (reflect P) = reflect (rsIntegFull segs P) := by
  induction segs generalizing P with
  | nil => rfl
  | cons hd tl ih =>
    obtain ⟨s, l⟩ := hd
    simp only [mirrorSegs, List.map_cons, rsIntegFull]
    rw [rsStep_reflect]
    exact ih _

/-- the table of word types is closed under mirroring, pairwise as the C++ uses it -/
theorem rsType_mirror_table :
    rsType 1 = (rsType 0).map RSeg.mirror ∧ rsType 3 = (rsType 2).map RSeg.mirror ∧
    rsType 5 = (rsType 4).map RSeg.mirror ∧ rsType 7 = (rsType 6).map RSeg.mirror ∧
    rsType 9 = (rsType 8).map RSeg.mirror ∧ rsType 11 = (rsType 10).map RSeg.mirror ∧
    rsType 13 = (rsType 12).map RSeg.mirror ∧ rsType 15 = (rsType 14).map RSeg.mirror ∧
    rsType 17 = (rsType 16).map RSeg.mirror :=
  ⟨rfl, rfl, rfl, rfl, rfl, rfl, rfl, rfl, rfl⟩

/-! ## paths -/

/-- all five lengths negated (what the C++ stores for a timeflip image) -/
def RSPath.flip (p : RSPath ℝ) : RSPath ℝ := ⟨p.ty, -p.l0, -p.l1, -p.l2, -p.l3, -p.l4⟩
/-- same lengths, another word type -/
def RSPath.setTy (p : RSPath ℝ) (ty : Nat) : RSPath ℝ := ⟨ty, p.l0, p.l1, p.l2, p.l3, p.l4⟩

theorem segList_flip (p : RSPath ℝ) : p.flip.segList = negSegs p.segList := by
  obtain ⟨a, b, c, d, e, h⟩ := rsType_five p.ty
  simp [RSPath.segList, RSPath.lens, RSPath.flip, h, negSegs]

theorem segList_setTy_mirror (p : RSPath ℝ) (ty' : Nat)
    (h : rsType ty' = (rsType p.ty).map RSeg.mirror) : (p.setTy ty').segList = mirrorSegs p.segList := by
  obtain ⟨a, b, c, d, e, h5⟩ := rsType_five p.ty
  simp [RSPath.segList, RSPath.lens, RSPath.setTy, h, h5, mirrorSegs]

/-- the word `p`, driven from the origin with heading 0, ends at `(x, y)` with heading `φ` modulo 2π -/
def Reaches (p : RSPath ℝ) (x y phi : ℝ) : Prop :=
  (rsIntegFull p.segList ⟨0, 0, 0⟩).x = x ∧ (rsIntegFull p.segList ⟨0, 0, 0⟩).y = y ∧
    ∃ k : ℤ, (rsIntegFull p.segList ⟨0, 0, 0⟩).th = phi + k * (2 * Real.pi)

theorem reaches_flip (p : RSPath ℝ) (x y phi : ℝ) (h : Reaches p x y phi) :
    Reaches p.flip (-x) y (-phi) := by
  obtain ⟨hx, hy, k, hth⟩ := h
  unfold Reaches
  rw [segList_flip, ← tflip_origin, rsIntegFull_tflip]
  refine ⟨?_, ?_, -k, ?_⟩
  · show -(rsIntegFull p.segList ⟨0, 0, 0⟩).x = -x
    rw [hx]
  · exact hy
  · show -(rsIntegFull p.segList ⟨0, 0, 0⟩).th = -phi + ((-k : ℤ) : ℝ) * (2 * Real.pi)
    rw [hth]; push_cast; ring

theorem reaches_mirror (p : RSPath ℝ) (ty' : Nat) (h' : rsType ty' = (rsType p.ty).map RSeg.mirror)
    (x y phi : ℝ) (h : Reaches p x y phi) : Reaches (p.setTy ty') x (-y) (-phi) := by
  obtain ⟨hx, hy, k, hth⟩ := h
  unfold Reaches
  rw [segList_setTy_mirror p ty' h', ← reflect_origin, rsIntegFull_reflect]
  refine ⟨hx, ?_, -k, ?_⟩
  · show -(rsIntegFull p.segList ⟨0, 0, 0⟩).y = -y
    rw [hy]
  · show -(rsIntegFull p.segList ⟨0, 0, 0⟩).th = -phi + ((-k : ℤ) : ℝ) * (2 * Real.pi)
    rw [hth]; push_cast; ring

/-! ## end poses of the three-letter words from the origin -/

theorem segList_bCSC (ty : Nat) (t u v : ℝ) :
    (bCSC ty false t u v).segList = (rsType ty).zip [t, u, v, 0, 0] := by
  simp [RSPath.segList, RSPath.lens, bCSC, sg]

theorem end_LSL (t u v : ℝ) :
    rsIntegFull (bCSC 14 false t u v).segList ⟨0, 0, 0⟩ =
      ⟨u * Real.cos t + Real.sin (t + v), 1 + u * Real.sin t - Real.cos (t + v), t + v⟩ := by
  simp only [segList_bCSC, rsType, List.zip_cons_cons, List.zip_nil_right, rsIntegFull, rsStep_eq_L, rsStep_eq_S,
    rsStep_eq_N, stepFwd_L, stepFwd_S, zero_add, Real.sin_zero, Real.cos_zero]
  congr 1 <;> ring

theorem end_LSR (t u v : ℝ) :
    rsIntegFull (bCSC 12 false t u v).segList ⟨0, 0, 0⟩ =
      ⟨2 * Real.sin t + u * Real.cos t - Real.sin (t - v),
       1 - 2 * Real.cos t + u * Real.sin t + Real.cos (t - v), t - v⟩ := by
  simp only [segList_bCSC, rsType, List.zip_cons_cons, List.zip_nil_right, rsIntegFull, rsStep_eq_L, rsStep_eq_S,
    rsStep_eq_R, rsStep_eq_N, stepFwd_L, stepFwd_S, stepFwd_R, zero_add, Real.sin_zero, Real.cos_zero]
  congr 1 <;> ring

theorem end_LRL (t u v : ℝ) :
    rsIntegFull (bCSC 0 false t u v).segList ⟨0, 0, 0⟩ =
      ⟨2 * Real.sin t - 2 * Real.sin (t - u) + Real.sin (t - u + v),
       1 - 2 * Real.cos t + 2 * Real.cos (t - u) - Real.cos (t - u + v), t - u + v⟩ := by
  simp only [segList_bCSC, rsType, List.zip_cons_cons, List.zip_nil_right, rsIntegFull, rsStep_eq_L,
    rsStep_eq_R, rsStep_eq_N, stepFwd_L, stepFwd_R, zero_add, Real.sin_zero, Real.cos_zero]
  congr 1 <;> ring

/-! ## trigonometric cores -/

/-- rotation identity behind `LpSpRp`: with `X² + Y² = p² + c²`, `A = atan2(Y,X)`, `B = atan2(c,p)` -/
theorem csc_rot_add (X Y p c : ℝ) (h : X ^ 2 + Y ^ 2 = p ^ 2 + c ^ 2) :
    p * Real.cos (Complex.arg ⟨X, Y⟩ + Complex.arg ⟨p, c⟩) +
        c * Real.sin (Complex.arg ⟨X, Y⟩ + Complex.arg ⟨p, c⟩) = X ∧
    p * Real.sin (Complex.arg ⟨X, Y⟩ + Complex.arg ⟨p, c⟩) -
        c * Real.cos (Complex.arg ⟨X, Y⟩ + Complex.arg ⟨p, c⟩) = Y := by
  obtain ⟨hcA, hsA⟩ := Dubins.polar X Y
  obtain ⟨hcB, hsB⟩ := Dubins.polar p c
  rw [h] at hcA hsA
  generalize Real.sqrt (p ^ 2 + c ^ 2) = r at *
  generalize Complex.arg ⟨X, Y⟩ = A at *
  generalize Complex.arg ⟨p, c⟩ = B at *
  rw [Real.cos_add, Real.sin_add]
  constructor
  · linear_combination (-(Real.cos A * Real.cos B - Real.sin A * Real.sin B)) * hcB +
      (-(Real.sin A * Real.cos B + Real.cos A * Real.sin B)) * hsB + hcA +
      (r * Real.cos A) * Real.sin_sq_add_cos_sq B
  · linear_combination (-(Real.sin A * Real.cos B + Real.cos A * Real.sin B)) * hcB +
      (Real.cos A * Real.cos B - Real.sin A * Real.sin B) * hsB + hsA +
      (r * Real.sin A) * Real.sin_sq_add_cos_sq B

/-- the middle-arc identity of `LpRmL`: `r = |(X,Y)| ≤ 4`, `u = -2 asin(r/4)`, `T ≡ θ + u/2 + π` -/
theorem lrl_core (X Y T : ℝ) (k : ℤ) (hr : Real.sqrt (X ^ 2 + Y ^ 2) ≤ 4)
    (hT : T = Complex.arg ⟨X, Y⟩ + 1 / 2 * (-2 * Real.arcsin (1 / 4 * Real.sqrt (X ^ 2 + Y ^ 2))) + Real.pi +
      k * (2 * Real.pi)) :
    2 * Real.sin T - 2 * Real.sin (T - (-2 * Real.arcsin (1 / 4 * Real.sqrt (X ^ 2 + Y ^ 2)))) = X ∧
    -2 * Real.cos T + 2 * Real.cos (T - (-2 * Real.arcsin (1 / 4 * Real.sqrt (X ^ 2 + Y ^ 2)))) = Y := by
  obtain ⟨hc, hs⟩ := Dubins.polar X Y
  have hr0 := Real.sqrt_nonneg (X ^ 2 + Y ^ 2)
  have hsa : Real.sin (Real.arcsin (1 / 4 * Real.sqrt (X ^ 2 + Y ^ 2))) = 1 / 4 * Real.sqrt (X ^ 2 + Y ^ 2) :=
    Real.sin_arcsin (by linarith) (by linarith)
  generalize Real.sqrt (X ^ 2 + Y ^ 2) = r at *
  generalize Complex.arg ⟨X, Y⟩ = θ at *
  generalize Real.arcsin (1 / 4 * r) = a at *
  have e1 : T = (θ - a) + Real.pi + k * (2 * Real.pi) := by rw [hT]; ring
  have e2 : T - (-2 * a) = (θ + a) + Real.pi + k * (2 * Real.pi) := by rw [hT]; ring
  rw [sin_shift e1, sin_shift e2, cos_shift e1, cos_shift e2, Real.sin_add_pi, Real.sin_add_pi,
    Real.cos_add_pi, Real.cos_add_pi, Real.sin_sub, Real.sin_add, Real.cos_sub, Real.cos_add, hsa]
  constructor
  · linear_combination hc
  · linear_combination hs

/-! ## the three base words -/

/-- formula 8.1 reaches the goal (the three `assert`s of `LpSpLp`, exactly) -/
theorem LpSpLp_reaches (x y phi t u v : ℝ) (h : LpSpLp x y phi = some (t, u, v)) :
    Reaches (bCSC 14 false t u v) x y phi := by
  unfold LpSpLp polar at h
  simp only [sin_eq, cos_eq, sqrt_eq, atan2_eq, ofNat_one] at h
  split at h
  case isFalse => cases h
  split at h
  case isFalse => cases h
  simp only [Option.some.injEq, Prod.mk.injEq] at h
  obtain ⟨rfl, rfl, rfl⟩ := h
  set X := x - Real.sin phi with hX
  set Y := y - 1 + Real.cos phi with hY
  obtain ⟨hc, hs⟩ := Dubins.polar X Y
  rw [show X * X + Y * Y = X ^ 2 + Y ^ 2 by ring]
  obtain ⟨k, hk⟩ := rmod2pi_exact (phi - Complex.arg ⟨X, Y⟩)
  generalize Complex.arg ⟨X, Y⟩ = t at *
  generalize rmod2pi (phi - t) = v at *
  generalize Real.sqrt (X ^ 2 + Y ^ 2) = u at *
  unfold Reaches
  rw [end_LSL]
  have e : t + v = phi + k * (2 * Real.pi) := by rw [hk]; ring
  refine ⟨?_, ?_, k, e⟩
  · show u * Real.cos t + Real.sin (t + v) = x
    rw [sin_shift e, hc, hX]; ring
  · show 1 + u * Real.sin t - Real.cos (t + v) = y
    rw [cos_shift e, hs, hY]; ring

/-- formula 8.2 reaches the goal (the three `assert`s of `LpSpRp`, exactly) -/
theorem LpSpRp_reaches (x y phi t u v : ℝ) (h : LpSpRp x y phi = some (t, u, v)) :
    Reaches (bCSC 12 false t u v) x y phi := by
  unfold LpSpRp polar at h
  simp only [sin_eq, cos_eq, sqrt_eq, atan2_eq, ofNat_one, ofNat_two, ofNat_four] at h
  split at h
  case isFalse => cases h
  rename_i hguard
  split at h
  case isFalse => cases h
  simp only [Option.some.injEq, Prod.mk.injEq] at h
  obtain ⟨rfl, rfl, rfl⟩ := h
  set X := x + Real.sin phi with hX
  set Y := y - 1 - Real.cos phi with hY
  have hsq : Real.sqrt (X * X + Y * Y) * Real.sqrt (X * X + Y * Y) = X ^ 2 + Y ^ 2 := by
    rw [Real.mul_self_sqrt (add_nonneg (mul_self_nonneg _) (mul_self_nonneg _))]; ring
  rw [hsq] at hguard ⊢
  have hu2 : X ^ 2 + Y ^ 2 = Real.sqrt (X ^ 2 + Y ^ 2 - 4) ^ 2 + 2 ^ 2 := by
    rw [Real.sq_sqrt (by linarith)]; ring
  obtain ⟨hx, hy⟩ := csc_rot_add X Y (Real.sqrt (X ^ 2 + Y ^ 2 - 4)) 2 hu2
  generalize Real.sqrt (X ^ 2 + Y ^ 2 - 4) = u at *
  generalize Complex.arg ⟨X, Y⟩ + Complex.arg ⟨u, 2⟩ = θ at *
  obtain ⟨k1, hk1⟩ := rmod2pi_exact θ
  generalize rmod2pi θ = t at *
  obtain ⟨k2, hk2⟩ := rmod2pi_exact (t - phi)
  generalize rmod2pi (t - phi) = v at *
  unfold Reaches
  rw [end_LSR]
  have e1 : t = θ + k1 * (2 * Real.pi) := hk1
  have e2 : t - v = phi + ((-k2 : ℤ) : ℝ) * (2 * Real.pi) := by rw [hk2]; push_cast; ring
  refine ⟨?_, ?_, -k2, e2⟩
  · show 2 * Real.sin t + u * Real.cos t - Real.sin (t - v) = x
    rw [sin_shift e1, cos_shift e1, sin_shift e2]; linear_combination hx + hX
  · show 1 - 2 * Real.cos t + u * Real.sin t + Real.cos (t - v) = y
    rw [sin_shift e1, cos_shift e1, cos_shift e2]; linear_combination hy + hY

/-- formula 8.3/8.4 reaches the goal (the three `assert`s of `LpRmL`, exactly) -/
theorem LpRmL_reaches (x y phi t u v : ℝ) (h : LpRmL x y phi = some (t, u, v)) :
    Reaches (bCSC 0 false t u v) x y phi := by
  unfold LpRmL polar at h
  simp only [sin_eq, cos_eq, sqrt_eq, atan2_eq, asin_eq, ofNat_one, ofNat_two, ofNat_four, ofDec_25_2,
    rhalf_eq, rpi_eq] at h
  split at h
  case isFalse => cases h
  rename_i hguard
  split at h
  case isFalse => cases h
  simp only [Option.some.injEq, Prod.mk.injEq] at h
  obtain ⟨rfl, rfl, rfl⟩ := h
  set X := x - Real.sin phi with hX
  set Y := y - 1 + Real.cos phi with hY
  rw [show X * X + Y * Y = X ^ 2 + Y ^ 2 by ring] at hguard ⊢
  obtain ⟨k1, hk1⟩ := rmod2pi_exact (Complex.arg ⟨X, Y⟩ +
    1 / 2 * (-2 * Real.arcsin (1 / 4 * Real.sqrt (X ^ 2 + Y ^ 2))) + Real.pi)
  obtain ⟨hx, hy⟩ := lrl_core X Y _ k1 hguard hk1
  generalize rmod2pi (Complex.arg ⟨X, Y⟩ +
    1 / 2 * (-2 * Real.arcsin (1 / 4 * Real.sqrt (X ^ 2 + Y ^ 2))) + Real.pi) = t at *
  generalize -2 * Real.arcsin (1 / 4 * Real.sqrt (X ^ 2 + Y ^ 2)) = u at *
  obtain ⟨k2, hk2⟩ := rmod2pi_exact (phi - t + u)
  generalize rmod2pi (phi - t + u) = v at *
  unfold Reaches
  rw [end_LRL]
  have e2 : t - u + v = phi + k2 * (2 * Real.pi) := by rw [hk2]; ring
  refine ⟨?_, ?_, k2, e2⟩
  · show 2 * Real.sin t - 2 * Real.sin (t - u) + Real.sin (t - u + v) = x
    rw [sin_shift e2]; linear_combination hx + hX
  · show 1 - 2 * Real.cos t + 2 * Real.cos (t - u) - Real.cos (t - u + v) = y
    rw [cos_shift e2]; linear_combination hy + hY

/-! ## the four images of a base word -/

/-- if the base solver's word reaches the goal, so do its four images in `four` -/
theorem reach_four (S : ℝ → ℝ → ℝ → Sol ℝ) (key : ℝ → ℝ → ℝ → ℝ)
    (b : Nat → Bool → ℝ → ℝ → ℝ → RSPath ℝ) (tyA tyB : Nat)
    (hbase : ∀ x y phi t u v, S x y phi = some (t, u, v) → Reaches (b tyA false t u v) x y phi)
    (hty : ∀ ty f t u v, (b ty f t u v).ty = ty)
    (hset : ∀ ty ty' f t u v, b ty' f t u v = (b ty f t u v).setTy ty')
    (hflip : ∀ ty t u v, b ty true t u v = (b ty false t u v).flip)
    (hmir : rsType tyB = (rsType tyA).map RSeg.mirror)
    (x y phi L : ℝ) (Q : RSPath ℝ) (h : some (L, Q) ∈ four S key b tyA tyB x y phi) :
    Reaches Q x y phi := by
  have hmir' : ∀ f t u v, rsType tyB = (rsType (b tyA f t u v).ty).map RSeg.mirror := by
    intro f t u v; rw [hty]; exact hmir
  obtain ⟨t, u, v, -, h | h | h | h⟩ := mem_four h
  · rw [h.2]; exact hbase _ _ _ _ _ _ h.1
  · rw [h.2, hflip]
    have := reaches_flip _ _ _ _ (hbase _ _ _ _ _ _ h.1)
    rwa [neg_neg, neg_neg] at this
  · rw [h.2, hset tyA tyB]
    have := reaches_mirror _ tyB (hmir' _ _ _ _) _ _ _ (hbase _ _ _ _ _ _ h.1)
    rwa [neg_neg, neg_neg] at this
  · rw [h.2, hset tyA tyB]
    have h1 := reaches_flip _ _ _ _ (hbase _ _ _ _ _ _ h.1)
    rw [neg_neg, ← hflip] at h1
    have := reaches_mirror _ tyB (hmir' _ _ _ _) _ _ _ h1
    rwa [neg_neg, neg_neg] at this

theorem bCSC_ty (ty : Nat) (f : Bool) (t u v : ℝ) : (bCSC ty f t u v).ty = ty := rfl
theorem bCSC_setTy (ty ty' : Nat) (f : Bool) (t u v : ℝ) : bCSC ty' f t u v = (bCSC ty f t u v).setTy ty' := rfl
theorem bCSC_flip (ty : Nat) (t u v : ℝ) : bCSC ty true t u v = (bCSC ty false t u v).flip := by
  simp [bCSC, sg, RSPath.flip]

/-- every CSC candidate reaches the goal -/
theorem CSC_candidates_reach (x y phi L : ℝ) (Q : RSPath ℝ) (h : some (L, Q) ∈ candsCSC x y phi) :
    Reaches Q x y phi := by
  rcases List.mem_append.mp h with h | h
  · exact reach_four LpSpLp key3 bCSC 14 15 LpSpLp_reaches bCSC_ty bCSC_setTy bCSC_flip rfl x y phi L Q h
  · exact reach_four LpSpRp key3 bCSC 12 13 LpSpRp_reaches bCSC_ty bCSC_setTy bCSC_flip rfl x y phi L Q h

/-- the first four CCC candidates (the non-"backwards" ones) reach the goal -/
theorem CCC_candidates_reach (x y phi L : ℝ) (Q : RSPath ℝ)
    (h : some (L, Q) ∈ four LpRmL key3 bCSC 0 1 x y phi) : Reaches Q x y phi :=
  reach_four LpRmL key3 bCSC 0 1 LpRmL_reaches bCSC_ty bCSC_setTy bCSC_flip rfl x y phi L Q h

end OmplModel.RS
