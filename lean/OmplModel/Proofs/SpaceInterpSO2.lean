import OmplModel.Proofs.SpaceInterpReal
/-!
C07, SO(2) leaf over ℝ: end points, bounds, re-parameterisation and proportional distance of the
(fixed) two-branch `so2Interp`, and the witness that the code before the F4 fix leaves the bounds.
-/
open scoped OmplModel.SpaceInterp.RealNum
attribute [-instance] OmplModel.Num.instOfNat

namespace OmplModel.SpaceInterp
open OmplModel Real RealNum

/-! ### clean real forms of the pieces -/

theorem so2Wrap_of_ge {v : ℝ} (h : π ≤ v) : so2Wrap v = v - 2 * π := by
  simp [so2Wrap, h]

theorem so2Wrap_of_lt {v : ℝ} (h : v < -π) : so2Wrap v = v + 2 * π := by
  have : ¬ π ≤ v := by linarith [pi_pos]
  simp [so2Wrap, h, this]

theorem so2Wrap_of_mid {v : ℝ} (h1 : -π ≤ v) (h2 : v < π) : so2Wrap v = v := by
  simp [so2Wrap, not_le.mpr h2, not_lt.mpr h1]

theorem so2Interp_short {a b : ℝ} (t : ℝ) (h : |b - a| ≤ π) : so2Interp a b t = a + (b - a) * t := by
  simp [so2Interp, h]

theorem so2Interp_long_pos {a b : ℝ} (t : ℝ) (h : π < b - a) :
    so2Interp a b t = so2Wrap (a - (2 * π - (b - a)) * t) := by
  have h1 : ¬ |b - a| ≤ π := by rw [not_le]; exact lt_of_lt_of_le h (le_abs_self _)
  have h2 : 0 < b - a := by linarith [pi_pos]
  simp [so2Interp, longWay, h1, h2]

theorem so2Interp_long_neg {a b : ℝ} (t : ℝ) (h : b - a < -π) :
    so2Interp a b t = so2Wrap (a + (2 * π + (b - a)) * t) := by
  have h1 : ¬ |b - a| ≤ π := by
    rw [not_le]; exact lt_of_lt_of_le (by linarith) (neg_le_abs _)
  have h2 : ¬ 0 < b - a := by linarith [pi_pos]
  simp only [so2Interp, longWay, abs_eq, pi_eq, h1, h2, if_false, ofNat_two, ofNat_zero]
  congr 1; ring

theorem so2_cases (a b : ℝ) : |b - a| ≤ π ∨ π < b - a ∨ b - a < -π := by
  by_cases h : |b - a| ≤ π
  · exact Or.inl h
  · rw [not_le, lt_abs] at h
    rcases h with h | h
    · exact Or.inr (Or.inl h)
    · exact Or.inr (Or.inr (by linarith))

theorem so2InB_iff (v : ℝ) : so2InB v = true ↔ -π ≤ v ∧ v < π := by
  simp [so2InB, and_comm]

/-! ### F4 witness -/

theorem so2InterpOld_witness : so2InterpOld (π / 2) (-π) 1 = π := by
  have hp := pi_pos
  have h1 : ¬ |(-π) - π / 2| ≤ π := by
    rw [not_le, lt_abs]; right; linarith
  have h2 : ¬ (0 < -π - π / 2) := by linarith
  simp only [so2InterpOld, longWay, so2WrapOld, abs_eq, pi_eq, h1, h2, if_false, ofNat_two,
    ofNat_zero]
  have e : π / 2 - (-2 * π - (-π - π / 2)) * 1 = π := by ring
  rw [e, if_neg (lt_irrefl _), if_neg (by linarith)]

theorem so2Interp_witness : so2Interp (π / 2) (-π) 1 = -π := by
  have hp := pi_pos
  rw [so2Interp_long_neg 1 (by linarith)]
  rw [so2Wrap_of_ge (by linarith)]
  ring

/-! ### end points -/

theorem so2Interp_zero {a b : ℝ} (ha1 : -π ≤ a) (ha2 : a < π) : so2Interp a b 0 = a := by
  rcases so2_cases a b with h | h | h
  · rw [so2Interp_short _ h]; ring
  · rw [so2Interp_long_pos _ h, so2Wrap_of_mid] <;> linarith
  · rw [so2Interp_long_neg _ h, so2Wrap_of_mid] <;> linarith

theorem so2Interp_one {a b : ℝ} (hb1 : -π ≤ b) (hb2 : b < π) : so2Interp a b 1 = b := by
  rcases so2_cases a b with h | h | h
  · rw [so2Interp_short _ h]; ring
  · rw [so2Interp_long_pos _ h, so2Wrap_of_lt] <;> linarith
  · rw [so2Interp_long_neg _ h, so2Wrap_of_ge] <;> linarith

/-! ### bounds -/

theorem so2Interp_inB {a b t : ℝ} (ha1 : -π ≤ a) (ha2 : a < π) (hb1 : -π ≤ b) (hb2 : b < π)
    (ht0 : 0 ≤ t) (ht1 : t ≤ 1) : -π ≤ so2Interp a b t ∧ so2Interp a b t < π := by
  rcases so2_cases a b with h | h | h
  · rw [so2Interp_short _ h]
    -- a convex combination of a and b
    have e : a + (b - a) * t = (1 - t) * a + t * b := by ring
    rw [e]
    constructor
    · nlinarith [mul_nonneg (sub_nonneg.mpr ht1) (by linarith : 0 ≤ a + π),
        mul_nonneg ht0 (by linarith : 0 ≤ b + π)]
    · rcases eq_or_lt_of_le ht0 with h0 | h0
      · subst h0; linarith
      · nlinarith [mul_nonneg (sub_nonneg.mpr ht1) (by linarith : 0 ≤ π - a),
          mul_pos h0 (by linarith : 0 < π - b)]
  · rw [so2Interp_long_pos _ h]
    have hL : 0 < 2 * π - (b - a) := by linarith
    have p0 : 0 ≤ (2 * π - (b - a)) * t := mul_nonneg hL.le ht0
    have p1 : (2 * π - (b - a)) * t ≤ 2 * π - (b - a) := mul_le_of_le_one_right hL.le ht1
    by_cases hv : a - (2 * π - (b - a)) * t < -π
    · rw [so2Wrap_of_lt hv]; constructor <;> linarith
    · rw [so2Wrap_of_mid (not_lt.mp hv) (by linarith)]; constructor <;> linarith
  · rw [so2Interp_long_neg _ h]
    have hL : 0 < 2 * π + (b - a) := by linarith
    have p0 : 0 ≤ (2 * π + (b - a)) * t := mul_nonneg hL.le ht0
    have p1 : (2 * π + (b - a)) * t ≤ 2 * π + (b - a) := mul_le_of_le_one_right hL.le ht1
    by_cases hv : π ≤ a + (2 * π + (b - a)) * t
    · rw [so2Wrap_of_ge hv]; constructor <;> linarith
    · rw [so2Wrap_of_mid (by linarith) (not_le.mp hv)]; constructor <;> linarith

/-! ### re-parameterisation -/

theorem so2Interp_reparam {a b s u : ℝ} (ha1 : -π ≤ a) (ha2 : a < π) (hb1 : -π ≤ b) (hb2 : b < π)
    (hs0 : 0 ≤ s) (hs1 : s ≤ 1) (hu0 : 0 ≤ u) (hu1 : u ≤ 1) :
    so2Interp (so2Interp a b s) b u = so2Interp a b (s + (1 - s) * u) := by
  have hq0 : 0 ≤ (1 - s) * u := mul_nonneg (sub_nonneg.mpr hs1) hu0
  have hq1 : (1 - s) * u ≤ 1 - s := mul_le_of_le_one_right (sub_nonneg.mpr hs1) hu1
  rcases so2_cases a b with h | h | h
  · rw [so2Interp_short _ h, so2Interp_short _ h]
    have h' : |b - (a + (b - a) * s)| ≤ π := by
      have e : b - (a + (b - a) * s) = (b - a) * (1 - s) := by ring
      rw [e, abs_mul, abs_of_nonneg (sub_nonneg.mpr hs1)]
      calc |b - a| * (1 - s) ≤ |b - a| * 1 :=
            mul_le_mul_of_nonneg_left (by linarith) (abs_nonneg _)
        _ ≤ π := by linarith
    rw [so2Interp_short _ h']; ring
  · rw [so2Interp_long_pos s h, so2Interp_long_pos _ h]
    have hL : 0 < 2 * π - (b - a) := by linarith
    have p0 : 0 ≤ (2 * π - (b - a)) * s := mul_nonneg hL.le hs0
    have p1 : (2 * π - (b - a)) * s ≤ 2 * π - (b - a) := mul_le_of_le_one_right hL.le hs1
    have r0 : 0 ≤ (2 * π - (b - a)) * ((1 - s) * u) := mul_nonneg hL.le hq0
    by_cases hv : a - (2 * π - (b - a)) * s < -π
    · -- wrapped: the remaining arc is short
      rw [so2Wrap_of_lt hv]
      have e : b - (a - (2 * π - (b - a)) * s + 2 * π) = -((2 * π - (b - a)) * (1 - s)) := by ring
      have h' : |b - (a - (2 * π - (b - a)) * s + 2 * π)| ≤ π := by
        rw [e, abs_neg, abs_of_nonneg (mul_nonneg hL.le (sub_nonneg.mpr hs1))]
        nlinarith
      rw [so2Interp_short _ h', so2Wrap_of_lt (by nlinarith)]
      ring
    · -- not wrapped: long again, same pre-wrap value
      rw [so2Wrap_of_mid (not_lt.mp hv) (by linarith)]
      have h' : π < b - (a - (2 * π - (b - a)) * s) := by linarith
      rw [so2Interp_long_pos _ h']
      congr 1; ring
  · rw [so2Interp_long_neg s h, so2Interp_long_neg _ h]
    have hL : 0 < 2 * π + (b - a) := by linarith
    have p0 : 0 ≤ (2 * π + (b - a)) * s := mul_nonneg hL.le hs0
    have p1 : (2 * π + (b - a)) * s ≤ 2 * π + (b - a) := mul_le_of_le_one_right hL.le hs1
    have r0 : 0 ≤ (2 * π + (b - a)) * ((1 - s) * u) := mul_nonneg hL.le hq0
    by_cases hv : π ≤ a + (2 * π + (b - a)) * s
    · rw [so2Wrap_of_ge hv]
      have e : b - (a + (2 * π + (b - a)) * s - 2 * π) = (2 * π + (b - a)) * (1 - s) := by ring
      have h' : |b - (a + (2 * π + (b - a)) * s - 2 * π)| ≤ π := by
        rw [e, abs_of_nonneg (mul_nonneg hL.le (sub_nonneg.mpr hs1))]
        nlinarith
      rw [so2Interp_short _ h', so2Wrap_of_ge (by nlinarith)]
      ring
    · rw [so2Wrap_of_mid (by linarith) (not_le.mp hv)]
      have h' : b - (a + (2 * π + (b - a)) * s) < -π := by linarith
      rw [so2Interp_long_neg _ h']
      congr 1; ring

/-! ### proportional distance -/

theorem so2Dist_eq (a b : ℝ) : so2Dist a b = if π < |a - b| then 2 * π - |a - b| else |a - b| := by
  simp [so2Dist]

theorem so2Interp_dist_prop {a b t : ℝ} (ha1 : -π ≤ a) (ha2 : a < π) (hb1 : -π ≤ b) (hb2 : b < π)
    (ht0 : 0 ≤ t) (ht1 : t ≤ 1) : so2Dist a (so2Interp a b t) = t * so2Dist a b := by
  rw [so2Dist_eq, so2Dist_eq]
  rcases so2_cases a b with h | h | h
  · rw [so2Interp_short _ h]
    have e : a - (a + (b - a) * t) = -((b - a) * t) := by ring
    have hab : |a - b| = |b - a| := abs_sub_comm _ _
    rw [e, abs_neg, abs_mul, abs_of_nonneg ht0, hab]
    have : |b - a| * t ≤ π := by nlinarith [abs_nonneg (b - a)]
    rw [if_neg (not_lt.mpr this), if_neg (not_lt.mpr h)]; ring
  · rw [so2Interp_long_pos _ h]
    have hL : 0 < 2 * π - (b - a) := by linarith
    have p0 : 0 ≤ (2 * π - (b - a)) * t := mul_nonneg hL.le ht0
    have p1 : (2 * π - (b - a)) * t ≤ 2 * π - (b - a) := mul_le_of_le_one_right hL.le ht1
    have hab : |a - b| = b - a := by rw [abs_sub_comm]; exact abs_of_pos (by linarith)
    rw [hab, if_pos h]
    by_cases hv : a - (2 * π - (b - a)) * t < -π
    · rw [so2Wrap_of_lt hv]
      have e : a - (a - (2 * π - (b - a)) * t + 2 * π) = -(2 * π - (2 * π - (b - a)) * t) := by ring
      rw [e, abs_neg, abs_of_nonneg (by linarith), if_pos (by linarith)]; ring
    · rw [so2Wrap_of_mid (not_lt.mp hv) (by linarith)]
      have e : a - (a - (2 * π - (b - a)) * t) = (2 * π - (b - a)) * t := by ring
      rw [e, abs_of_nonneg p0, if_neg (by linarith)]; ring
  · rw [so2Interp_long_neg _ h]
    have hL : 0 < 2 * π + (b - a) := by linarith
    have p0 : 0 ≤ (2 * π + (b - a)) * t := mul_nonneg hL.le ht0
    have p1 : (2 * π + (b - a)) * t ≤ 2 * π + (b - a) := mul_le_of_le_one_right hL.le ht1
    have hab : |a - b| = a - b := abs_of_pos (by linarith)
    rw [hab, if_pos (show π < a - b by linarith)]
    by_cases hv : π ≤ a + (2 * π + (b - a)) * t
    · rw [so2Wrap_of_ge hv]
      have e : a - (a + (2 * π + (b - a)) * t - 2 * π) = 2 * π - (2 * π + (b - a)) * t := by ring
      rw [e, abs_of_nonneg (by linarith), if_pos (by linarith)]; ring
    · rw [so2Wrap_of_mid (by linarith) (not_le.mp hv)]
      have e : a - (a + (2 * π + (b - a)) * t) = -((2 * π + (b - a)) * t) := by ring
      rw [e, abs_neg, abs_of_nonneg p0, if_neg (by linarith)]; ring

end OmplModel.SpaceInterp
