import OmplModel.Proofs.PhsBridge
import OmplModel.Proofs.PhsLogic
import OmplModel.Proofs.PhsCap
import Mathlib.Tactic.FieldSimp
import Mathlib.Tactic.Positivity
/-!
Edge cases of informed sampling (C15): a cost bound at or below the focal distance never yields a
success; the circle branch (`f1 = f2`, identity rotation); history independence of the repaired
`updatePhsDefinitions`.
-/
namespace OmplModel.Phs
open OmplModel
attribute [-instance] Num.instOfNat

namespace PhsEdge
open PhsBridge PhsLogic PhsCap

/-! ## 1. a bound at or below the focal distance never succeeds -/

/-- (a) triangle inequality: the focal sum is at least the distance between the foci (no hypothesis
on the rotation) -/
theorem vnorm_triangle {n : ℕ} {f1 f2 x : List ℝ} (h1 : f1.length = n) (h2 : f2.length = n)
    (hx : x.length = n) : vnorm (vsub f1 f2) ≤ vnorm (vsub f1 x) + vnorm (vsub x f2) := by
  rw [vnorm_eq (vsub_length h1 h2), vnorm_eq (vsub_length h1 hx), vnorm_eq (vsub_length hx h2),
    toE_vsub h1 h2, toE_vsub h1 hx, toE_vsub hx h2]
  have : toE n f1 - toE n f2 = (toE n f1 - toE n x) + (toE n x - toE n f2) := by abel
  rw [this]
  exact norm_add_le _ _

/-- (a) for any PHS record whose `cmin` is the distance of its foci (in particular `Phs.mk'` and any
`setC` of it): `cmin ≤ pathLength x` -/
theorem pathLength_ge_cmin {n : ℕ} (p : Phs ℝ) (h1 : p.f1.length = n) (h2 : p.f2.length = n)
    (hcm : p.cmin = vnorm (vsub p.f1 p.f2)) {x : List ℝ} (hx : x.length = n) :
    p.cmin ≤ p.pathLength x := by
  rw [hcm]
  exact vnorm_triangle h1 h2 hx

/-- (a) the constructor form -/
theorem pathLength_ge_cmin_mk {n : ℕ} (id : ℕ) (f1 f2 : List ℝ) (rot : List (List ℝ)) (c : ℝ)
    (h1 : f1.length = n) (h2 : f2.length = n) {x : List ℝ} (hx : x.length = n) :
    (Phs.mk' id f1 f2 rot).cmin ≤ (Phs.mk' id f1 f2 rot).pathLength x ∧
    ((Phs.mk' id f1 f2 rot).setC c).cmin ≤ ((Phs.mk' id f1 f2 rot).setC c).pathLength x :=
  ⟨pathLength_ge_cmin _ h1 h2 rfl hx, pathLength_ge_cmin _ h1 h2 rfl hx⟩

/-- (b) a PHS whose transverse diameter is at most its focal distance contains no point -/
theorem isIn_false_of_le {n : ℕ} (p : Phs ℝ) (h1 : p.f1.length = n) (h2 : p.f2.length = n)
    (hcm : p.cmin = vnorm (vsub p.f1 p.f2)) (hc : p.c ≤ p.cmin) {x : List ℝ} (hx : x.length = n) :
    p.isIn x = false := by
  rw [Phs.isIn, decide_eq_false_iff_not]
  have := pathLength_ge_cmin p h1 h2 hcm hx
  exact not_lt.mpr (hc.trans this)

section generic
variable {α : Type} [Num α] {ρ : Type}

/-- (c) `updatePhsDefinitions` on a single PHS whose focal distance is not below the bound: the PHS
is kept with `c := cmin` and the summed measure is zero (arithmetic-free) -/
theorem update_single_degenerate (s : Sampler α) (p : Phs α) (c : α) (hs : s.phss = [p])
    (hc : ¬ p.cmin < c) :
    (s.update c).phss = [p.setC p.cmin] ∧ (s.update c).summed = Num.ofNat 0 := by
  simp [Sampler.update, hs, updLoop, hc]

/-- (d, core, arithmetic-free) if no relevant point lies in any PHS of the updated sampler, the
direct sampler (finite bound) reports no success.  `good` is any property that base draws and PHS
transforms have (e.g. the right length). -/
theorem no_success_of_not_inAny (s : Sampler α) (inB : List α × ρ → Bool) (c : α)
    (ds : List (Draw α ρ)) (cur : List α × ρ) (good : List α → Prop)
    (hbase : ∀ d ∈ ds, good d.baseInf)
    (htr : ∀ d ∈ ds, ∀ p ∈ (s.update c).phss, ∀ x, p.transform d.ball = some x → good x)
    (hno : ∀ x, good x → (s.update c).isInAny x = false) :
    (s.sample2 inB true c ds cur).2.found = false := by
  cases hf : (s.sample2 inB true c ds cur).2.found with
  | false => rfl
  | true =>
    exfalso
    unfold Sampler.sample2 at hf
    have hok := (sampleInner_spec s inB true c ds cur 0).1 hf
    have hcontra : ∀ x, good x → (s.update c).isInAny x = true → False := fun x hg hin => by
      rw [hno x hg] at hin; cases hin
    cases hb : (s.update c).useBoundsBranch with
    | true =>
      obtain ⟨hany, d, hd, e⟩ := (hok.2 rfl).1 hb
      refine hcontra _ ?_ hany
      rw [e]; exact hbase d hd
    | false =>
      obtain ⟨_, hany, d, hd, p, hp, ht, _, _⟩ := (hok.2 rfl).2 hb
      exact hcontra _ (htr d hd p hp _ ht) hany

end generic

/-- (d) **A bound at or below the focal distance never succeeds** (single PHS, finite bound), in
both branches: every candidate has focal sum `≥ cmin ≥ c`, so neither `isInAnyPhs` (bounds branch)
nor the re-test (PHS branch) can pass. -/
theorem direct_no_success_at_or_below_focal_distance {ρ : Type} {n : ℕ} (s : Sampler ℝ)
    (inB : List ℝ × ρ → Bool) (c : ℝ) (ds : List (Draw ℝ ρ)) (cur : List ℝ × ρ) (p : Phs ℝ)
    (hs : s.phss = [p]) (h1 : p.f1.length = n) (h2 : p.f2.length = n)
    (hcm : p.cmin = vnorm (vsub p.f1 p.f2)) (hc : c ≤ p.cmin)
    (hbase : ∀ d ∈ ds, d.baseInf.length = n)
    (htr : ∀ d ∈ ds, ∀ x, (p.setC p.cmin).transform d.ball = some x → x.length = n) :
    (s.sample2 inB true c ds cur).2.found = false := by
  have hnlt : ¬ (@LT.lt ℝ instNumRealP.toLT p.cmin c) := not_lt.mpr hc
  obtain ⟨hph, _⟩ := update_single_degenerate s p c hs hnlt
  refine no_success_of_not_inAny s inB c ds cur (fun x => x.length = n) hbase ?_ ?_
  · intro d hd q hq x hx
    rw [hph, List.mem_singleton] at hq
    subst hq
    exact htr d hd x hx
  · intro x hx
    rw [Sampler.isInAny, hph, List.any_cons, List.any_nil, Bool.or_false]
    exact isIn_false_of_le (p.setC p.cmin) h1 h2 hcm (le_refl _) hx

/-! ## 2. the circle branch: `f1 = f2`, identity rotation -/

/-- length of the identity rotation -/
theorem identityRot_length (n : ℕ) : (identityRot n : List (List ℝ)).length = n := by
  rw [identityRot, List.length_map, List.length_range]

/-- lengths of its columns -/
theorem identityRot_col_length (n : ℕ) : ∀ col ∈ (identityRot n : List (List ℝ)), col.length = n := by
  intro col hcol
  rw [identityRot] at hcol
  obtain ⟨j, _, rfl⟩ := List.mem_map.1 hcol
  rw [List.length_map, List.length_range]

/-- entries of the identity rotation -/
theorem identityRot_entry (n : ℕ) (j i : Fin n) :
    toE n ((identityRot n : List (List ℝ)).getD j []) i = if (i : ℕ) = j then 1 else 0 := by
  have hj : (j : ℕ) < (List.range n).length := by rw [List.length_range]; exact j.isLt
  have hi : (i : ℕ) < (List.range n).length := by rw [List.length_range]; exact i.isLt
  have hcol : (identityRot n : List (List ℝ)).getD j []
      = (List.range n).map (fun i => if i = (j : ℕ) then (Num.ofNat 1 : ℝ) else Num.ofNat 0) := by
    rw [identityRot, List.getD_eq_getElem _ _ (by rw [List.length_map]; exact hj),
      List.getElem_map, List.getElem_range]
  rw [toE_apply, hcol, List.getD_eq_getElem _ _ (by rw [List.length_map]; exact hi),
    List.getElem_map, List.getElem_range]
  split <;> simp only [PhsR.ofNat_eq, Nat.cast_one, Nat.cast_zero]

/-- a combination of the identity columns has the coefficients as coordinates -/
theorem sum_smul_identity (n : ℕ) (a : Fin n → ℝ) :
    ∑ j : Fin n, a j • toE n ((identityRot n : List (List ℝ)).getD j []) = WithLp.toLp 2 a := by
  ext i
  show (WithLp.ofLp (∑ j : Fin n, a j • toE n ((identityRot n : List (List ℝ)).getD j []))) i = a i
  rw [WithLp.ofLp_sum, Finset.sum_apply, Finset.sum_eq_single i]
  · show a i * toE n ((identityRot n : List (List ℝ)).getD i []) i = a i
    rw [identityRot_entry, if_pos rfl, mul_one]
  · intro j _ hji
    show a j * toE n ((identityRot n : List (List ℝ)).getD j []) i = 0
    rw [identityRot_entry, if_neg (fun h => hji (Fin.ext h.symm)), mul_zero]
  · intro h; exact absurd (Finset.mem_univ i) h

variable {n : ℕ} {f : List ℝ}

/-- coincident foci: `cmin = 0` -/
theorem circle_cmin (hf : f.length = n + 1) (id : ℕ) (rot : List (List ℝ)) (c : ℝ) :
    ((Phs.mk' id f f rot).setC c).cmin = 0 := by
  show vnorm (vsub f f) = 0
  rw [vnorm_eq (vsub_length hf hf), toE_vsub hf hf, sub_self, norm_zero]

/-- `updateRotation` takes the circle branch for coincident foci: the rotation is the identity
whatever rotation is supplied -/
theorem mkAuto_circle (hf : f.length = n + 1) (id : ℕ) (rot : List (List ℝ)) :
    Phs.mkAuto id f f rot = Phs.mk' id f f (identityRot (n + 1)) := by
  have h0 : vnorm (vsub f f) = 0 := circle_cmin hf id rot 0
  have hlt : @LT.lt ℝ instNumRealP.toLT (vnorm (vsub f f)) circleTol := by
    show vnorm (vsub f f) < (circleTol : ℝ)
    rw [h0, circleTol, PhsR.ofDec_eq]
    positivity
  rw [Phs.mkAuto, if_pos hlt, hf]

/-- Circle branch: `transform u = centre + (c/2) • u`. -/
theorem circle_transform_eq (hf : f.length = n + 1) (id : ℕ) (c : ℝ) (hc : 0 ≤ c) {u : List ℝ}
    (hu : u.length = n + 1) :
    ∃ x, ((Phs.mk' id f f (identityRot (n + 1))).setC c).transform u = some x ∧
      x.length = n + 1 ∧ toE (n + 1) x = toE (n + 1) f + (c / 2) • toE (n + 1) u := by
  have hcm := circle_cmin hf id (identityRot (n + 1)) c
  obtain ⟨hl, he⟩ := linComb_eq (n + 1) (identityRot (n + 1)) (n + 1)
    (diagOf (n + 1) c ((Phs.mk' id f f (identityRot (n + 1))).setC c).cmin) u (zeros (n + 1))
    (identityRot_length _) (diagOf_length ..) hu (identityRot_col_length _) (zeros_length _)
  have hcl : (vscale half (vadd f f)).length = n + 1 := vscale_length _ (vadd_length hf hf)
  refine ⟨vadd (linComb (identityRot (n + 1))
    (diagOf (n + 1) c ((Phs.mk' id f f (identityRot (n + 1))).setC c).cmin) u (zeros (n + 1)))
    (vscale half (vadd f f)), ?_, vadd_length hl hcl, ?_⟩
  · have hdim : ((Phs.mk' id f f (identityRot (n + 1))).setC c).dim = n + 1 := hf
    rw [Phs.transform, hdim]
    rfl
  · have hd : ∀ j : Fin (n + 1),
        (diagOf (n + 1) c ((Phs.mk' id f f (identityRot (n + 1))).setC c).cmin).getD j 0 = c / 2 := by
      intro j
      rw [diagOf_getD, hcm, diagE]
      split
      · rfl
      · rw [show c ^ 2 - (0 : ℝ) ^ 2 = c ^ 2 by ring, Real.sqrt_sq hc]
    rw [toE_vadd hl hcl, he, toE_zeros, zero_add, toE_vscale _ (vadd_length hf hf),
      toE_vadd hf hf, PhsR.half_eq]
    simp only [hd]
    have h1 : (1 / 2 : ℝ) • (toE (n + 1) f + toE (n + 1) f) = toE (n + 1) f := by
      rw [← two_smul ℝ (toE (n + 1) f), smul_smul]; norm_num
    have h2 : (WithLp.toLp 2 fun j : Fin (n + 1) => c / 2 * u.getD j 0)
        = (c / 2) • toE (n + 1) u := by
      ext i; rfl
    rw [sum_smul_identity, h1, h2]
    exact add_comm _ _

/-- Circle branch: the focal sum is twice the distance to the common focus. -/
theorem circle_pathLength (hf : f.length = n + 1) (id : ℕ) (rot : List (List ℝ)) (c : ℝ)
    {x : List ℝ} (hx : x.length = n + 1) :
    ((Phs.mk' id f f rot).setC c).pathLength x = 2 * ‖toE (n + 1) x - toE (n + 1) f‖ := by
  show vnorm (vsub f x) + vnorm (vsub x f) = _
  rw [vnorm_eq (vsub_length hf hx), vnorm_eq (vsub_length hx hf), toE_vsub hf hx, toE_vsub hx hf,
    norm_sub_rev]
  ring

/-- Circle branch: the transformed point has focal sum `c · ‖u‖`. -/
theorem circle_transform_pathLength (hf : f.length = n + 1) (id : ℕ) (c : ℝ) (hc : 0 ≤ c)
    {u : List ℝ} (hu : u.length = n + 1) :
    ∃ x, ((Phs.mk' id f f (identityRot (n + 1))).setC c).transform u = some x ∧
      x.length = n + 1 ∧
      ((Phs.mk' id f f (identityRot (n + 1))).setC c).pathLength x = c * Real.sqrt (sumSq u) := by
  obtain ⟨x, hx, hl, he⟩ := circle_transform_eq hf id c hc hu
  refine ⟨x, hx, hl, ?_⟩
  rw [circle_pathLength hf id _ c hl, he, add_sub_cancel_left, norm_smul, Real.norm_eq_abs,
    abs_of_nonneg (by linarith : 0 ≤ c / 2), sumSq_eq_norm_sq hu, Real.sqrt_sq (norm_nonneg _)]
  ring

/-- Circle branch, surface: a unit `u` is sent to focal sum exactly `c`. -/
theorem circle_surface (hf : f.length = n + 1) (id : ℕ) (c : ℝ) (hc : 0 ≤ c) {u : List ℝ}
    (hu : u.length = n + 1) (hsq : sumSq u = 1) :
    ∃ x, ((Phs.mk' id f f (identityRot (n + 1))).setC c).transform u = some x ∧
      ((Phs.mk' id f f (identityRot (n + 1))).setC c).pathLength x = c := by
  obtain ⟨x, hx, _, hp⟩ := circle_transform_pathLength hf id c hc hu
  exact ⟨x, hx, by rw [hp, hsq, Real.sqrt_one, mul_one]⟩

/-- Circle branch, interior: a `u` of the open unit ball is sent strictly inside. -/
theorem circle_interior (hf : f.length = n + 1) (id : ℕ) (c : ℝ) (hc : 0 < c) {u : List ℝ}
    (hu : u.length = n + 1) (hsq : sumSq u < 1) :
    ∃ x, ((Phs.mk' id f f (identityRot (n + 1))).setC c).transform u = some x ∧
      ((Phs.mk' id f f (identityRot (n + 1))).setC c).isIn x = true := by
  obtain ⟨x, hx, _, hp⟩ := circle_transform_pathLength hf id c hc.le hu
  refine ⟨x, hx, (model_isIn_iff id c x).2 ?_⟩
  rw [hp]
  have : Real.sqrt (sumSq u) < 1 := by
    rw [← Real.sqrt_one]
    exact Real.sqrt_lt_sqrt (by rw [sumSq_eq_norm_sq hu]; positivity) hsq
  nlinarith

/-- Circle branch, onto: every point strictly inside (the open ball of radius `c/2` around the common
start/goal) is the transform of some `u` of the open unit ball. -/
theorem circle_onto (hf : f.length = n + 1) (id : ℕ) (c : ℝ) (hc : 0 < c) (x : List ℝ)
    (hx : x.length = n + 1)
    (hin : ((Phs.mk' id f f (identityRot (n + 1))).setC c).isIn x = true) :
    ∃ u : List ℝ, u.length = n + 1 ∧ sumSq u < 1 ∧
      ((Phs.mk' id f f (identityRot (n + 1))).setC c).transform u = some x := by
  rw [model_isIn_iff, circle_pathLength hf id _ c hx] at hin
  have hlen : (List.ofFn fun i : Fin (n + 1) => (2 / c) * (x.getD i 0 - f.getD i 0)).length
      = n + 1 := List.length_ofFn
  have hU : toE (n + 1) (List.ofFn fun i : Fin (n + 1) => (2 / c) * (x.getD i 0 - f.getD i 0))
      = (2 / c) • (toE (n + 1) x - toE (n + 1) f) := by
    ext i
    rw [toE_apply, getD_ofFn]
    rfl
  refine ⟨_, hlen, ?_, ?_⟩
  · rw [sumSq_eq_norm_sq hlen, hU, norm_smul, Real.norm_eq_abs, abs_of_pos (by positivity)]
    have h0 := norm_nonneg (toE (n + 1) x - toE (n + 1) f)
    have h1 : 2 / c * ‖toE (n + 1) x - toE (n + 1) f‖ < 1 := by
      rw [div_mul_eq_mul_div, div_lt_one hc]; exact hin
    have h2 : 0 ≤ 2 / c * ‖toE (n + 1) x - toE (n + 1) f‖ := by positivity
    nlinarith
  · obtain ⟨x', hx', hl', he'⟩ := circle_transform_eq hf id c hc.le hlen
    rw [hx']
    congr 1
    refine toE_inj hl' hx ?_
    rw [he', hU, smul_smul, show c / 2 * (2 / c) = 1 by field_simp, one_smul]
    abel

/-! ## 3. the repair of F36 is history-independent (arithmetic-free) -/

section restoring
variable {α : Type} [Num α]

/-- `update` keeps the iteration limit, the three measures of the spaces and the full PHS list -/
theorem update_fields (s : Sampler α) (c : α) :
    (s.update c).numIters = s.numIters ∧ (s.update c).infMeasure = s.infMeasure ∧
    (s.update c).unMeasure = s.unMeasure ∧ (s.update c).spaceMeasure = s.spaceMeasure ∧
    (s.update c).all = s.all :=
  ⟨rfl, rfl, rfl, rfl, rfl⟩

/-- so does `updateRestoring` -/
theorem updateRestoring_fields (s : Sampler α) (all : List (Phs α)) (c : α) :
    (s.updateRestoring all c).numIters = s.numIters ∧
    (s.updateRestoring all c).infMeasure = s.infMeasure ∧
    (s.updateRestoring all c).unMeasure = s.unMeasure ∧
    (s.updateRestoring all c).spaceMeasure = s.spaceMeasure ∧
    (s.updateRestoring all c).all = s.all :=
  ⟨rfl, rfl, rfl, rfl, rfl⟩

/-- `updateRestoring` depends on the sampler only through the fields it does not touch -/
theorem updateRestoring_congr (s1 s2 : Sampler α) (all : List (Phs α)) (c : α)
    (h1 : s1.numIters = s2.numIters) (h2 : s1.infMeasure = s2.infMeasure)
    (h3 : s1.unMeasure = s2.unMeasure) (h4 : s1.spaceMeasure = s2.spaceMeasure)
    (h5 : s1.all = s2.all) :
    s1.updateRestoring all c = s2.updateRestoring all c := by
  cases s1; cases s2
  simp only at h1 h2 h3 h4 h5
  subst h1 h2 h3 h4 h5
  rfl

/-- the untouched fields survive any sequence of earlier bounds -/
theorem foldl_updateRestoring_fields (all : List (Phs α)) :
    ∀ (cs : List α) (s : Sampler α),
      (cs.foldl (fun s c' => s.updateRestoring all c') s).numIters = s.numIters ∧
      (cs.foldl (fun s c' => s.updateRestoring all c') s).infMeasure = s.infMeasure ∧
      (cs.foldl (fun s c' => s.updateRestoring all c') s).unMeasure = s.unMeasure ∧
      (cs.foldl (fun s c' => s.updateRestoring all c') s).spaceMeasure = s.spaceMeasure ∧
      (cs.foldl (fun s c' => s.updateRestoring all c') s).all = s.all := by
  intro cs
  induction cs with
  | nil => intro s; exact ⟨rfl, rfl, rfl, rfl, rfl⟩
  | cons c' cs ih =>
    intro s
    rw [List.foldl_cons]
    exact ih (s.updateRestoring all c')

/-- **History independence of the repaired `updatePhsDefinitions`**: whatever bounds were used
before, the PHS list and summed measure after updating to `c` are those of a single update to `c`
(the whole sampler record is the same). -/
theorem updateRestoring_history_independent (all : List (Phs α)) (cs : List α) (s : Sampler α)
    (c : α) :
    (cs.foldl (fun s c' => s.updateRestoring all c') s).updateRestoring all c
      = s.updateRestoring all c := by
  obtain ⟨h1, h2, h3, h4, h5⟩ := foldl_updateRestoring_fields all cs s
  exact updateRestoring_congr _ _ all c h1 h2 h3 h4 h5

/-- Contrast: the unrepaired `update` is NOT history-independent.  With two PHSs, a first bound
that is below the second focal distance drops that PHS for good: after a later, larger bound the list
has one PHS, whereas a single update to the larger bound keeps both (conditional on the four order
facts, which any `cmin₁ < c₁ ≤ cmin₂ < c₂` realises). -/
theorem update_not_history_independent (s : Sampler α) (p1 p2 : Phs α) (c1 c2 : α)
    (hs : s.phss = [p1, p2]) (h11 : p1.cmin < c1) (h21 : ¬ p2.cmin < c1)
    (h12 : p1.cmin < c2) (h22 : p2.cmin < c2) :
    ((s.update c1).update c2).phss.length = 1 ∧ (s.update c2).phss.length = 2 := by
  have e1 : (p1.setC c1).cmin = p1.cmin := rfl
  constructor
  · simp [Sampler.update, hs, updLoop, h11, h21, e1, h12]
  · simp [Sampler.update, hs, updLoop, h12, h22]

end restoring

end PhsEdge
end OmplModel.Phs
