import OmplModel.Model.RRTstar
import OmplModel.Proofs.Soln
/-! Lemmas about the RRT* model (C04, round 3). -/
namespace OmplModel.RRTstar
open OmplModel.Soln (IsSWO)

variable {σ α δ : Type}

/-- the laws of an ordered cost monoid the theorems use (each theorem names the ones it needs). -/
structure Laws (o : Obj σ α) : Prop where
  swo : IsSWO o.better
  id_right : ∀ a, o.combine a o.identity = a
  /-- motion costs never improve a cost (they are "non-negative") -/
  nonneg : ∀ a x y, o.better (o.combine a (o.motionCost x y)) a = false
  /-- `infiniteCost()` is not better than anything -/
  inf_worst : ∀ a, o.better o.infinite a = false
  /-- an objective that says `isSymmetric()` has a symmetric motion cost (the rewiring then reuses the cached
  reverse cost; an objective that says no gets it recomputed) -/
  sym : o.symmetric = true → ∀ x y, o.motionCost x y = o.motionCost y x

/-- the incumbent bookkeeping agrees: no best goal motion ⇒ `bestCost_` is still the infinite cost. -/
def BestInv (o : Obj σ α) (s : St σ α δ) : Prop := s.bestGoal = none → s.bestCost = o.infinite

/-- a stage that does not touch the incumbent. -/
def SameBest (s s' : St σ α δ) : Prop := s'.bestCost = s.bestCost ∧ s'.bestGoal = s.bestGoal

theorem SameBest.refl (s : St σ α δ) : SameBest s s := ⟨rfl, rfl⟩

theorem SameBest.trans {a b c : St σ α δ} (h1 : SameBest a b) (h2 : SameBest b c) : SameBest a c :=
  ⟨h2.1.trans h1.1, h2.2.trans h1.2⟩

theorem checkMotion_sameBest (s : St σ α δ) (a b : σ) : SameBest s (s.checkMotion a b).2 := by
  unfold St.checkMotion
  cases s.answers <;> exact ⟨rfl, rfl⟩

theorem drawSample_sameBest (sp : Space σ δ) (s : St σ α δ) : SameBest s (drawSample sp s).2 := by
  unfold drawSample
  split
  · split
    · exact ⟨rfl, rfl⟩
    · simp only []
      split
      · exact ⟨rfl, rfl⟩
      · split <;> exact ⟨rfl, rfl⟩
  · split <;> exact ⟨rfl, rfl⟩

theorem chooseParent_sameBest (sp : Space σ δ) (ms : Array (Motion σ α)) (nmotion : Nat) (x : σ)
    (cands : List (Nat × Nat)) (s : St σ α δ) (valid : List (Nat × Int)) :
    SameBest s (chooseParent sp ms nmotion x cands s valid).2.2 := by
  induction cands generalizing s valid with
  | nil => exact ⟨rfl, rfl⟩
  | cons c rest ih =>
    obtain ⟨i, mi⟩ := c
    unfold chooseParent
    split
    · exact ⟨rfl, rfl⟩
    · split
      · exact ih _ _
      · split
        · simp only []
          split
          · exact checkMotion_sameBest _ _ _
          · exact (checkMotion_sameBest _ _ _).trans (ih _ _)
        · exact ih _ _

theorem rewireCheck_sameBest (sp : Space σ δ) (valid : List (Nat × Int)) (i : Nat) (s : St σ α δ) (mot nb : Motion σ α) :
    SameBest s (rewireCheck sp valid i s mot nb).2 := by
  unfold rewireCheck
  split
  · split
    · exact checkMotion_sameBest _ _ _
    · exact ⟨rfl, rfl⟩
  · exact ⟨rfl, rfl⟩

theorem applyRewire_sameBest (o : Obj σ α) (s : St σ α δ) (new ni : Nat) (inc cost : α) :
    SameBest s (applyRewire o s new ni inc cost) := ⟨rfl, rfl⟩

theorem rewireStep_sameBest (o : Obj σ α) (sp : Space σ δ) (valid : List (Nat × Int)) (i new ni : Nat) (s : St σ α δ)
    (mot nb : Motion σ α) (inc cost : α) (chk : Bool) :
    SameBest s (match rewireCheck sp valid i s mot nb with
      | (true, s1) => (applyRewire o s1 new ni inc cost, true)
      | (false, s1) => (s1, chk)).1 := by
  have hc := rewireCheck_sameBest sp valid i s mot nb
  rcases h : rewireCheck sp valid i s mot nb with ⟨b, s1⟩
  rw [h] at hc
  cases b
  · exact hc
  · exact hc.trans (applyRewire_sameBest _ _ _ _ _ _)

theorem rewireOne_sameBest (o : Obj σ α) (sp : Space σ δ) (new : Nat) (valid : List (Nat × Int)) (incs : List α)
    (acc : St σ α δ × Bool) (p : Nat × Nat) : SameBest acc.1 (rewireOne o sp new valid incs acc p).1 := by
  unfold rewireOne
  split
  · split
    · exact SameBest.refl _
    · split
      · exact rewireStep_sameBest _ _ _ _ _ _ _ _ _ _ _ _
      · exact SameBest.refl _
  · exact SameBest.refl _

theorem foldl_rewireOne_sameBest (o : Obj σ α) (sp : Space σ δ) (new : Nat) (valid : List (Nat × Int)) (incs : List α)
    (l : List (Nat × Nat)) (acc : St σ α δ × Bool) :
    SameBest acc.1 (l.foldl (rewireOne o sp new valid incs) acc).1 := by
  induction l generalizing acc with
  | nil => exact SameBest.refl _
  | cons p rest ih =>
    simp only [List.foldl_cons]
    exact (rewireOne_sameBest o sp new valid incs acc p).trans (ih _)

/-- the state after the insertion stage is the choose-parent loop's state with other `motions`/`tie`. -/
theorem growInsertDelayed_st (o : Obj σ α) (sp : Space σ δ) (s : St σ α δ) (nmotion : Nat) (nm : Motion σ α) (dstate : σ) :
    ∃ cands ms t, (growInsertDelayed o sp s nmotion nm dstate).st =
      { (chooseParent sp s.motions nmotion dstate cands s []).2.2 with motions := ms, tie := t } := by
  unfold growInsertDelayed
  exact ⟨_, _, _, rfl⟩

/-- the classic loop (`delayCC_ = false`) touches the planner state only through `checkMotion`. -/
theorem classicStep_sameBest (o : Obj σ α) (sp : Space σ δ) (ms : Array (Motion σ α)) (nmotion : Nat) (x : σ) (inc0 : α)
    (a : Classic σ α δ) (p : Nat × Nat) : SameBest a.st (classicStep o sp ms nmotion x inc0 a p).st := by
  unfold classicStep
  split
  · split <;> exact SameBest.refl _
  · split
    · exact SameBest.refl _
    · rename_i m _
      simp only []
      split
      · split
        · have h := checkMotion_sameBest a.st m.state x
          rcases hc : a.st.checkMotion m.state x with ⟨b, s'⟩
          rw [hc] at h
          cases b <;> exact h
        · exact SameBest.refl _
      · exact SameBest.refl _

theorem foldl_classicStep_sameBest (o : Obj σ α) (sp : Space σ δ) (ms : Array (Motion σ α)) (nmotion : Nat) (x : σ) (inc0 : α)
    (l : List (Nat × Nat)) (a : Classic σ α δ) : SameBest a.st (l.foldl (classicStep o sp ms nmotion x inc0) a).st := by
  induction l generalizing a with
  | nil => exact SameBest.refl _
  | cons p rest ih =>
    simp only [List.foldl_cons]
    exact (classicStep_sameBest o sp ms nmotion x inc0 a p).trans (ih _)

theorem growInsert_sameBest (o : Obj σ α) (sp : Space σ δ) (s : St σ α δ) (nmotion : Nat) (nm : Motion σ α) (dstate : σ) :
    SameBest s (growInsert o sp s nmotion nm dstate).st := by
  unfold growInsert
  split
  · obtain ⟨cands, ms, t, h⟩ := growInsertDelayed_st o sp s nmotion nm dstate
    rw [h]
    exact ⟨(chooseParent_sameBest sp s.motions nmotion dstate cands s []).1,
           (chooseParent_sameBest sp s.motions nmotion dstate cands s []).2⟩
  · unfold growInsertClassic
    exact foldl_classicStep_sameBest o sp s.motions nmotion dstate _ _
      { par := nmotion, inc := o.motionCost nm.state dstate, cost := o.combine nm.cost (o.motionCost nm.state dstate),
        valid := [], incs := [], st := s, stale := false }

theorem grow_sameBest (o : Obj σ α) (sp : Space σ δ) (s : St σ α δ) (nmotion : Nat) (nm : Motion σ α) (dstate : σ) :
    SameBest s (grow o sp s nmotion nm dstate).1 := by
  unfold grow
  simp only []
  exact (growInsert_sameBest o sp s nmotion nm dstate).trans
    (foldl_rewireOne_sameBest o sp (growInsert o sp s nmotion nm dstate).new (growInsert o sp s nmotion nm dstate).valid
      (growInsert o sp s nmotion nm dstate).incs (growInsert o sp s nmotion nm dstate).nbhP
      ((growInsert o sp s nmotion nm dstate).st, false))

/-! ### the incumbent only improves -/

theorem updateBest_loop_mono {o : Obj σ α} (h : IsSWO o.better) (s : St σ α δ) (gs : List Nat) :
    o.better s.bestCost (updateBest.loop o s gs).bestCost = false := by
  induction gs generalizing s with
  | nil => exact h.irrefl _
  | cons g rest ih =>
    unfold updateBest.loop
    split
    · rename_i gm hgm
      split
      · rename_i hb
        have h1 : o.better s.bestCost gm.cost = false := h.asymm _ _ hb
        simp only []
        split
        · exact h1
        · exact h.incomp_trans h1 (ih { s with bestGoal := some g, bestCost := gm.cost })
      · exact ih _
    · exact ih _

theorem updateBest_loop_bestInv {o : Obj σ α} (s : St σ α δ) (gs : List Nat) (hs : BestInv o s) :
    BestInv o (updateBest.loop o s gs) := by
  induction gs generalizing s with
  | nil => exact hs
  | cons g rest ih =>
    unfold updateBest.loop
    split
    · rename_i gm hgm
      split
      · simp only []
        split
        · intro hn; simp at hn
        · exact ih { s with bestGoal := some g, bestCost := gm.cost } (fun hn => by simp at hn)
      · exact ih _ hs
    · exact ih _ hs

theorem updateBest_mono {o : Obj σ α} (L : Laws o) (s : St σ α δ) (hs : BestInv o s) :
    o.better s.bestCost (updateBest o s).bestCost = false := by
  unfold updateBest
  split
  · rename_i g rest hb hg
    split
    · simp only []
      rw [hs hb]
      exact L.inf_worst _
    · exact L.swo.irrefl _
  · exact updateBest_loop_mono L.swo _ _

theorem updateBest_bestInv {o : Obj σ α} (s : St σ α δ) (hs : BestInv o s) : BestInv o (updateBest o s) := by
  unfold updateBest
  split
  · split
    · intro hn; simp at hn
    · exact hs
  · exact updateBest_loop_bestInv _ _ hs

theorem BestInv.of_sameBest {o : Obj σ α} {s s' : St σ α δ} (h : SameBest s s') (hs : BestInv o s) : BestInv o s' := by
  intro hn
  rw [h.1]
  exact hs (h.2 ▸ hn)

theorem goalStep_sameBest (sp : Space σ δ) (s : St σ α δ) (new : Nat) (chk : Bool) (dstate : σ) :
    SameBest s (goalStep sp s new chk dstate).1 := by
  unfold goalStep
  split <;> exact ⟨rfl, rfl⟩

theorem approxStep_sameBest (sp : Space σ δ) (s : St σ α δ) (new : Nat) (dstate : σ) :
    SameBest s (approxStep sp s new dstate) := by
  unfold approxStep
  split <;> exact ⟨rfl, rfl⟩

theorem bestStep_mono {o : Obj σ α} (L : Laws o) (p : St σ α δ × Bool) (hs : BestInv o p.1) :
    o.better p.1.bestCost (bestStep o p).bestCost = false ∧ BestInv o (bestStep o p) := by
  unfold bestStep
  split
  · exact ⟨updateBest_mono L _ hs, updateBest_bestInv _ hs⟩
  · exact ⟨L.swo.irrefl _, hs⟩

theorem finishIter_mono {o : Obj σ α} (L : Laws o) (sp : Space σ δ) (s : St σ α δ) (new : Nat) (chk : Bool) (dstate : σ)
    (hs : BestInv o s) :
    o.better s.bestCost (finishIter o sp s new chk dstate).bestCost = false ∧
    BestInv o (finishIter o sp s new chk dstate) := by
  unfold finishIter
  have hg := goalStep_sameBest sp s new chk dstate
  have hb := bestStep_mono L (goalStep sp s new chk dstate) (BestInv.of_sameBest hg hs)
  have ha := approxStep_sameBest sp (bestStep o (goalStep sp s new chk dstate)) new dstate
  refine ⟨?_, BestInv.of_sameBest ha hb.2⟩
  rw [ha.1, ← hg.1]
  exact hb.1

theorem iterate_mono {o : Obj σ α} (L : Laws o) (sp : Space σ δ) (s : St σ α δ) (hs : BestInv o s) :
    o.better s.bestCost (iterate o sp s).bestCost = false ∧ BestInv o (iterate o sp s) := by
  have base : ∀ s' : St σ α δ, SameBest s s' →
      o.better s.bestCost s'.bestCost = false ∧ BestInv o s' := by
    intro s' h
    exact ⟨by rw [h.1]; exact L.swo.irrefl _, BestInv.of_sameBest h hs⟩
  unfold iterate
  have h0 : SameBest s ({ s with iterations := s.iterations + 1, queries := [] } : St σ α δ) := ⟨rfl, rfl⟩
  have h1 := drawSample_sameBest sp ({ s with iterations := s.iterations + 1, queries := [] } : St σ α δ)
  simp only []
  split
  · rename_i s1 hd
    rw [hd] at h1
    exact base _ (h0.trans h1)
  · rename_i rstate s1 hd
    rw [hd] at h1
    have h01 := h0.trans h1
    split
    · exact base _ h01
    · rename_i nmotion hn
      split
      · exact base _ h01
      · rename_i nm hnm
        have h2 := checkMotion_sameBest s1 nm.state (steerTo sp nm rstate)
        split
        · rename_i s2 hc
          rw [hc] at h2
          exact base _ (h01.trans h2)
        · rename_i s2 hc
          rw [hc] at h2
          have hall := (h01.trans h2).trans (grow_sameBest o sp s2 nmotion nm (steerTo sp nm rstate))
          have hf := finishIter_mono L sp (grow o sp s2 nmotion nm (steerTo sp nm rstate)).1
            (grow o sp s2 nmotion nm (steerTo sp nm rstate)).2.1 (grow o sp s2 nmotion nm (steerTo sp nm rstate)).2.2
            (steerTo sp nm rstate) (BestInv.of_sameBest hall hs)
          rw [hall.1] at hf
          exact hf

theorem applyOp_mono {o : Obj σ α} (L : Laws o) (sp : Space σ δ) (s : St σ α δ) (op : Op σ δ) (hs : BestInv o s) :
    o.better s.bestCost (applyOp o sp s op).bestCost = false ∧ BestInv o (applyOp o sp s op) := by
  cases op with
  | start x => exact ⟨L.swo.irrefl _, hs⟩
  | feed us xs as => exact ⟨L.swo.irrefl _, hs⟩
  | beginSolve => exact ⟨L.swo.irrefl _, hs⟩
  | iter => exact iterate_mono L sp s hs

theorem run_mono {o : Obj σ α} (L : Laws o) (sp : Space σ δ) (s : St σ α δ) (ops : List (Op σ δ)) (hs : BestInv o s) :
    o.better s.bestCost (run o sp s ops).bestCost = false ∧ BestInv o (run o sp s ops) := by
  induction ops generalizing s with
  | nil => exact ⟨L.swo.irrefl _, hs⟩
  | cons op rest ih =>
    have h1 := applyOp_mono L sp s op hs
    have h2 := ih (applyOp o sp s op) h1.2
    exact ⟨L.swo.incomp_trans h1.1 h2.1, h2.2⟩

theorem init_bestInv (o : Obj σ α) (sp : Space σ δ) : BestInv o (St.init o sp : St σ α δ) := fun _ => rfl

/-! ### what `solve()` reports -/

theorem report_spec {o : Obj σ α} {s : St σ α δ} {r : Report σ α δ} (h : report o s = some r) :
    r.optimized = o.isSatisfied s.bestCost ∧ r.approximate = s.bestGoal.isNone ∧
    ∃ n nm, (match s.bestGoal with | some g => some g | none => s.approxGoal) = some n ∧
      s.motions[n]? = some nm ∧ r.storedCost = nm.cost ∧
      r.pathIdx = (chainUp s.motions s.motions.size n).reverse := by
  unfold report at h
  simp only [] at h
  split at h
  · simp at h
  · rename_i n hn
    split at h
    · simp at h
    · rename_i nm hnm
      simp only [Option.some.injEq] at h
      subst h
      exact ⟨rfl, rfl, n, nm, hn, hnm, rfl, rfl⟩

/-! ### why rewiring never closes a cycle: an ancestor's cost is never beaten through a descendant -/

/-- `Desc o a c`: the cost `c` is the cost `a` extended by finitely many motion costs — what the cost
invariant says of the cost of a descendant (`c`) of a motion with cost `a`. -/
inductive Desc (o : Obj σ α) : α → α → Prop where
  | refl (c : α) : Desc o c c
  | step {a c : α} (x y : σ) : Desc o a c → Desc o a (o.combine c (o.motionCost x y))

/-- an ancestor's cost is never beaten by a descendant's cost extended by one more motion: the strict
`isCostBetterThan(nbhNewCost, nbh[i]->cost)` test of the rewiring loop therefore never re-parents an
ancestor of the new motion under it (which is the only way the rewiring could close a cycle). -/
theorem ancestor_not_beaten {o : Obj σ α} (L : Laws o) {a c : α} (h : Desc o a c) :
    ∀ x y : σ, o.better (o.combine c (o.motionCost x y)) a = false := by
  induction h with
  | refl => intro x y; exact L.nonneg _ x y
  | step u v _ ih =>
    intro x y
    exact L.swo.incomp_trans (L.nonneg _ x y) (ih u v)

/-! ### the stored cost is the cost of the reported path -/

/-- the cost invariant at motion `i`: a start has the identity cost; any other motion's `incCost` is the
motion cost from its parent's state and its `cost` is the parent's cost combined with it. -/
def CostOK (o : Obj σ α) (ms : Array (Motion σ α)) (i : Nat) : Prop :=
  ∀ m, ms[i]? = some m →
    match m.parent with
    | none => m.cost = o.identity
    | some p => ∃ pm, ms[p]? = some pm ∧ m.incCost = o.motionCost pm.state m.state ∧
        m.cost = o.combine pm.cost m.incCost

/-- `chainUp` reached a start before its fuel ran out. -/
def Complete (ms : Array (Motion σ α)) : Nat → Nat → Prop
  | 0, _ => False
  | fuel + 1, i =>
    match ms[i]? with
    | none => False
    | some m =>
      match m.parent with
      | none => True
      | some p => Complete ms fuel p

def statesOf (ms : Array (Motion σ α)) (idx : List Nat) : List σ :=
  idx.filterMap (fun i => ms[i]?.map (·.state))

def algOf (o : Obj σ α) : OmplModel.Soln.CostAlg α := ⟨o.identity, o.combine, o.better⟩

theorem chain_cost (o : Obj σ α) (ms : Array (Motion σ α)) (hinv : ∀ j, CostOK o ms j) :
    ∀ fuel i m, ms[i]? = some m → Complete ms fuel i →
      ∃ l, statesOf ms (chainUp ms fuel i).reverse = l ++ [m.state] ∧
        m.cost = OmplModel.Soln.costLoop (algOf o) o.motionCost o.identity (l ++ [m.state]) := by
  intro fuel
  induction fuel with
  | zero => intro i m _ hc; exact absurd hc (by simp [Complete])
  | succ f ih =>
    intro i m hm hc
    have hinv_i := hinv i m hm
    unfold Complete at hc
    rw [hm] at hc
    simp only [] at hc
    unfold chainUp
    rw [hm]
    simp only []
    cases hp : m.parent with
    | none =>
      rw [hp] at hinv_i
      simp only [] at hinv_i
      refine ⟨[], ?_, ?_⟩
      · simp [statesOf, hm]
      · simp [OmplModel.Soln.costLoop, hinv_i]
    | some p =>
      rw [hp] at hinv_i hc
      simp only [] at hinv_i hc
      obtain ⟨pm, hpm, hinc, hcost⟩ := hinv_i
      obtain ⟨l, hl, hpc⟩ := ih p pm hpm hc
      refine ⟨l ++ [pm.state], ?_, ?_⟩
      · simp only [List.reverse_cons, statesOf, List.filterMap_append] at hl ⊢
        rw [hl]
        simp [hm]
      · have := OmplModel.Soln.costLoop_snoc (algOf o) o.motionCost o.identity l pm.state m.state
        simp only [List.append_assoc, List.cons_append, List.nil_append] at this ⊢
        rw [this, ← hpc, hcost, hinc]
        rfl

end OmplModel.RRTstar
