import OmplModel.Model.RRTstar
import OmplModel.Proofs.Soln
/-! Lemmas about the RRT* model (C04, round 3). -/
namespace OmplModel.RRTstar
open OmplModel.Soln (IsSWO)

variable {σ α δ : Type}

/-- the laws of an ordered cost monoid the theorems use (each theorem names the ones it needs). -/
structure Laws (o : Obj σ α) : Prop where
  swo : IsSWO o.better
  id_right : ∀ a, o.combine a o.identity = a
  /-- motion costs never improve a cost (they are "non-negative") -/
  nonneg : ∀ a x y, o.better (o.combine a (o.motionCost x y)) a = false
  /-- `infiniteCost()` is not better than anything -/
  inf_worst : ∀ a, o.better o.infinite a = false

/-- the incumbent bookkeeping agrees: no best goal motion ⇒ `bestCost_` is still the infinite cost. -/
def BestInv (o : Obj σ α) (s : St σ α δ) : Prop := s.bestGoal = none → s.bestCost = o.infinite

/-- a stage that does not touch the incumbent. -/
def SameBest (s s' : St σ α δ) : Prop := s'.bestCost = s.bestCost ∧ s'.bestGoal = s.bestGoal

theorem SameBest.refl (s : St σ α δ) : SameBest s s := ⟨rfl, rfl⟩

theorem SameBest.trans {a b c : St σ α δ} (h1 : SameBest a b) (h2 : SameBest b c) : SameBest a c :=
  ⟨h2.1.trans h1.1, h2.2.trans h1.2⟩

theorem checkMotion_sameBest (s : St σ α δ) (a b : σ) : SameBest s (s.checkMotion a b).2 := by
  unfold St.checkMotion
  cases s.answers <;> exact ⟨rfl, rfl⟩

theorem drawSample_sameBest (sp : Space σ δ) (s : St σ α δ) : SameBest s (drawSample sp s).2 := by
  unfold drawSample
  split
  · split
    · exact ⟨rfl, rfl⟩
    · simp only []
      split
      · exact ⟨rfl, rfl⟩
      · split <;> exact ⟨rfl, rfl⟩
  · split <;> exact ⟨rfl, rfl⟩

theorem chooseParent_sameBest (sp : Space σ δ) (ms : Array (Motion σ α)) (nmotion : Nat) (x : σ)
    (cands : List (Nat × Nat)) (s : St σ α δ) (valid : List (Nat × Int)) :
    SameBest s (chooseParent sp ms nmotion x cands s valid).2.2 := by
  induction cands generalizing s valid with
  | nil => exact ⟨rfl, rfl⟩
  | cons c rest ih =>
    obtain ⟨i, mi⟩ := c
    unfold chooseParent
    split
    · exact ⟨rfl, rfl⟩
    · split
      · exact ih _ _
      · split
        · simp only []
          split
          · exact checkMotion_sameBest _ _ _
          · exact (checkMotion_sameBest _ _ _).trans (ih _ _)
        · exact ih _ _

theorem rewireOne_sameBest (o : Obj σ α) (sp : Space σ δ) (new : Nat) (valid : List (Nat × Int)) (incs : List α)
    (acc : St σ α δ × Bool) (p : Nat × Nat) : SameBest acc.1 (rewireOne o sp new valid incs acc p).1 := by
  obtain ⟨s, chk⟩ := acc
  obtain ⟨i, ni⟩ := p
  unfold rewireOne
  simp only []
  split
  · split
    · exact ⟨rfl, rfl⟩
    · split
      · -- candidate for rewiring
        split
        · -- valid[i] = 0
          split
          · -- close enough: collision check
            have h := checkMotion_sameBest s (‹Motion σ α›).state (‹Motion σ α›).state
            split <;> first | exact ⟨rfl, rfl⟩ | skip
            all_goals first
              | exact checkMotion_sameBest _ _ _
              | (exact ⟨(checkMotion_sameBest _ _ _).1, (checkMotion_sameBest _ _ _).2⟩)
          · exact ⟨rfl, rfl⟩
        · split <;> exact ⟨rfl, rfl⟩
      · exact ⟨rfl, rfl⟩
  · exact ⟨rfl, rfl⟩

end OmplModel.RRTstar
