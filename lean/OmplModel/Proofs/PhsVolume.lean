import OmplModel.Proofs.PhsGeom
import OmplModel.Proofs.PhsMeasure
import Mathlib.MeasureTheory.Measure.Lebesgue.VolumeOfBalls
import Mathlib.MeasureTheory.Measure.Lebesgue.EqHaar
import Mathlib.LinearAlgebra.Determinant
import Mathlib.Tactic.Module
/-!
The measure reported by `prolateHyperspheroidMeasure` IS the Lebesgue volume of the informed set
`{x | ‖x - F1‖ + ‖x - F2‖ < c}` of `ℝⁿ⁺¹`: the set is a translate of the image of the unit ball
under the linear map `img a b e`, whose determinant is `a · bⁿ`.
-/
namespace OmplModel.Phs
open OmplModel
attribute [-instance] Num.instOfNat

namespace PhsVolume
open PhsGeom
open scoped InnerProductSpace

variable {E : Type*} [NormedAddCommGroup E] [InnerProductSpace ℝ E]

/-- `img a b e` as a linear map: `b • id + (a - b) • ⟪e, ·⟫ e` -/
noncomputable def imgL (a b : ℝ) (e : E) : E →ₗ[ℝ] E :=
  b • LinearMap.id + (a - b) • ((innerₛₗ ℝ e).smulRight e)

/-- `imgL` is `img` -/
theorem imgL_apply (a b : ℝ) (e w : E) : imgL a b e w = img a b e w := by
  simp only [imgL, img, LinearMap.add_apply, LinearMap.smul_apply, LinearMap.id_apply,
    LinearMap.smulRight_apply, innerₛₗ_apply_apply, real_inner_comm w e]
  module

/-- in an orthonormal basis starting with `e`, `img a b e` is diagonal -/
theorem img_basis {n : ℕ} (bas : OrthonormalBasis (Fin (n + 1)) ℝ E) (a b : ℝ) (j : Fin (n + 1)) :
    img a b (bas 0) (bas j) = (if j = 0 then a else b) • bas j := by
  have horth := orthonormal_iff_ite.1 bas.orthonormal j 0
  unfold img
  rw [horth]
  by_cases hj : j = 0
  · subst hj
    rw [if_pos rfl, if_pos rfl, one_smul, sub_self, smul_zero, zero_add, mul_one]
  · rw [if_neg hj, if_neg hj, zero_smul, sub_zero, mul_zero, zero_smul, add_zero]

/-- the determinant of `img a b e` is `a · bⁿ` -/
theorem det_imgL {n : ℕ} (bas : OrthonormalBasis (Fin (n + 1)) ℝ E) (a b : ℝ) :
    LinearMap.det (imgL a b (bas 0)) = a * b ^ n := by
  rw [← LinearMap.det_toMatrix bas.toBasis]
  have hM : LinearMap.toMatrix bas.toBasis bas.toBasis (imgL a b (bas 0))
      = Matrix.diagonal (fun j : Fin (n + 1) => if j = 0 then a else b) := by
    ext i j
    rw [LinearMap.toMatrix_apply, OrthonormalBasis.coe_toBasis, imgL_apply, img_basis,
      OrthonormalBasis.coe_toBasis_repr_apply, OrthonormalBasis.repr_apply_apply,
      real_inner_smul_right, orthonormal_iff_ite.1 bas.orthonormal i j, Matrix.diagonal_apply]
    by_cases hij : i = j
    · subst hij; simp
    · simp [hij]
  rw [hM, Matrix.det_diagonal, Fin.prod_univ_succ, if_pos rfl]
  congr 1
  rw [Finset.prod_eq_pow_card (b := b) (fun j _ => if_neg (Fin.succ_ne_zero j)), Finset.card_univ,
    Fintype.card_fin]

/-- The informed set is a translate of the linear image of the unit ball. -/
theorem informed_set_eq {F1 F2 : E} (hne : F1 ≠ F2) {c : ℝ} (hc : ‖F2 - F1‖ < c) :
    {x : E | ‖x - F1‖ + ‖x - F2‖ < c}
      = (fun x => -((1 / 2 : ℝ) • (F1 + F2)) + x) ⁻¹'
          (imgL (c / 2) (Real.sqrt (c ^ 2 - ‖F2 - F1‖ ^ 2) / 2) ((1 / ‖F2 - F1‖) • (F2 - F1))
            '' Metric.ball 0 1) := by
  ext x
  simp only [Set.mem_ofPred_eq, Set.mem_preimage, Set.mem_image, mem_ball_zero_iff, imgL_apply]
  constructor
  · intro hx
    obtain ⟨w, hw, e⟩ := phs_onto_foci hne hc x hx
    exact ⟨w, hw, by rw [← e]; abel⟩
  · rintro ⟨w, hw, e⟩
    have hx : x = (1 / 2 : ℝ) • (F1 + F2)
        + img (c / 2) (Real.sqrt (c ^ 2 - ‖F2 - F1‖ ^ 2) / 2) ((1 / ‖F2 - F1‖) • (F2 - F1)) w := by
      rw [e]; abel
    rw [hx]
    exact phs_interior_foci hne hc hw

/-- **The Lebesgue volume of the informed set** `{x | ‖x - F1‖ + ‖x - F2‖ < c}` of `ℝⁿ⁺¹` is
`V(n+1) · (c/2) · (√(c² - cmin²)/2)ⁿ`, with `V` the model's `unitNBallMeasure`. -/
theorem phs_volume (n : ℕ) (F1 F2 : EuclideanSpace ℝ (Fin (n + 1))) (hne : F1 ≠ F2) (c : ℝ)
    (hc : ‖F2 - F1‖ < c) :
    MeasureTheory.volume {x : EuclideanSpace ℝ (Fin (n + 1)) | ‖x - F1‖ + ‖x - F2‖ < c}
      = ENNReal.ofReal ((unitNBallMeasure (n + 1) : ℝ) * (c / 2)
          * (Real.sqrt (c ^ 2 - ‖F2 - F1‖ ^ 2) / 2) ^ n) := by
  have he : ‖(1 / ‖F2 - F1‖) • (F2 - F1)‖ = 1 := axis_norm hne
  obtain ⟨bas, hbas⟩ := Orthonormal.exists_orthonormalBasis_extension_of_card_eq
    (𝕜 := ℝ) (E := EuclideanSpace ℝ (Fin (n + 1))) (ι := Fin (n + 1)) (by simp)
    (v := fun _ => (1 / ‖F2 - F1‖) • (F2 - F1)) (s := {0})
    ⟨fun _ => he, fun i j hij => absurd (Subsingleton.elim i j) hij⟩
  have hb0 : bas 0 = (1 / ‖F2 - F1‖) • (F2 - F1) := hbas 0 (Set.mem_singleton 0)
  have hc0 : 0 ≤ c / 2 := by have := norm_nonneg (F2 - F1); linarith
  have hs0 : 0 ≤ Real.sqrt (c ^ 2 - ‖F2 - F1‖ ^ 2) / 2 := by positivity
  rw [informed_set_eq hne hc, MeasureTheory.measure_preimage_add,
    MeasureTheory.Measure.addHaar_image_linearMap, ← hb0, det_imgL, PhsMeasure.unitNBall_volume,
    ← ENNReal.ofReal_mul (abs_nonneg _), abs_of_nonneg (mul_nonneg hc0 (pow_nonneg hs0 n))]
  congr 1
  ring

/-- The value returned by the model's `phsMeasure` is the Lebesgue volume of the informed set. -/
theorem phs_volume_model (n : ℕ) (F1 F2 : EuclideanSpace ℝ (Fin (n + 1))) (hne : F1 ≠ F2) (c : ℝ)
    (hc : ‖F2 - F1‖ < c) :
    ∃ m : ℝ, phsMeasure (n + 1) ‖F2 - F1‖ c = some m ∧
      MeasureTheory.volume {x : EuclideanSpace ℝ (Fin (n + 1)) | ‖x - F1‖ + ‖x - F2‖ < c}
        = ENNReal.ofReal m := by
  refine ⟨_, PhsMeasure.measure_formula (n + 1) ‖F2 - F1‖ c hc.le, ?_⟩
  rw [phs_volume n F1 F2 hne c hc, Nat.add_sub_cancel]

end PhsVolume
end OmplModel.Phs
