import OmplModel.Model.ReverseQueue
import OmplModel.Proofs.HeapAudit
/-! The ReverseQueue model keeps the heap invariant under every public operation, because every place that overwrites a
stored key goes through `Heap.setKey` (= poke + `update(handle)`).  Core Lean only. -/
namespace OmplModel.RevQ
open OmplModel.Heap
variable {K W : Type}

theorem ltOf_swo {ltc lte : K → K → Bool} (hc : SWO ltc) (he : SWO lte) (b : Bool) : SWO (ltOf ltc lte b) := by
  cases b
  · exact ⟨fun a b h => he.asymm _ _ h, fun a b c h1 h2 => he.negtrans _ _ _ h1 h2⟩
  · exact ⟨fun a b h => hc.asymm _ _ h, fun a b c h1 h2 => hc.negtrans _ _ _ h1 h2⟩

/-- the invariant: heap order w.r.t. the queue's CURRENT order on the stored keys, and well-formed handles -/
structure Good (ltc lte : K → K → Bool) (q : RQ K) : Prop where
  inv : HeapInv (q.lt ltc lte) q.heap.arr
  wf : Wf q.heap

theorem empty_inv (lt : RKey K → RKey K → Bool) : HeapInv lt (#[] : Array (Elem (RKey K))) := by
  intro c hc; exact absurd hc (Nat.not_lt_zero _)

theorem good_init (ltc lte : K → K → Bool) : Good ltc lte ({} : RQ K) :=
  ⟨empty_inv _, ⟨by simp, by simp⟩⟩

theorem insertOrUpdate_good {ltc lte : K → K → Bool} (hc : SWO ltc) (he : SWO lte) (keyFn : W → Nat → Nat → K) (w : W)
    (q : RQ K) (s t : Nat) (G : Good ltc lte q) : Good ltc lte (q.insertOrUpdate ltc lte keyFn w s t) := by
  have hs := ltOf_swo hc he q.costOrd
  unfold RQ.insertOrUpdate
  split
  · exact ⟨setKey_inv hs q.heap _ _ G.inv, setKey_wf _ q.heap _ _ G.wf⟩
  · exact ⟨insert_inv hs q.heap _ G.inv, insert_wf _ q.heap _ G.wf⟩

theorem insertMany_good {ltc lte : K → K → Bool} (hc : SWO ltc) (he : SWO lte) (keyFn : W → Nat → Nat → K) (w : W)
    (es : List (Nat × Nat)) (q : RQ K) (G : Good ltc lte q) : Good ltc lte (q.insertMany ltc lte keyFn w es) := by
  unfold RQ.insertMany
  induction es generalizing q with
  | nil => exact G
  | cons e es ih => exact ih _ (insertOrUpdate_good hc he keyFn w q e.1 e.2 G)

theorem pop_good {ltc lte : K → K → Bool} (hc : SWO ltc) (he : SWO lte) (q : RQ K) (G : Good ltc lte q) :
    Good ltc lte (q.pop ltc lte) := by
  have hs := ltOf_swo hc he q.costOrd
  unfold RQ.pop
  split
  · exact ⟨pop_inv hs q.heap G.inv, pop_wf _ q.heap G.wf⟩
  · exact G

theorem clear_good (ltc lte : K → K → Bool) (q : RQ K) : Good ltc lte q.clear :=
  ⟨empty_inv _, ⟨by simp [RQ.clear, Heap.clear], by simp [RQ.clear, Heap.clear]⟩⟩

theorem rebuild_good {ltc lte : K → K → Bool} (hc : SWO ltc) (he : SWO lte) (keyFn : W → Nat → Nat → K) (w : W)
    (q : RQ K) : Good ltc lte (q.rebuild ltc lte keyFn w) :=
  insertMany_good hc he keyFn w _ _ (clear_good ltc lte q)

theorem removeFold_good {lt : RKey K → RKey K → Bool} (hs : SWO lt) (hs' : List Nat) (hp : Heap (RKey K))
    (H : HeapInv lt hp.arr) (Wf' : Wf hp) :
    HeapInv lt (hs'.foldl (fun hp h => hp.remove lt h) hp).arr ∧ Wf (hs'.foldl (fun hp h => hp.remove lt h) hp) := by
  induction hs' generalizing hp with
  | nil => exact ⟨H, Wf'⟩
  | cons h rest ih => exact ih _ (remove_inv hs hp h H) (remove_wf lt hp h Wf')

theorem removeOutgoing_good {ltc lte : K → K → Bool} (hc : SWO ltc) (he : SWO lte) (q : RQ K) (v : Nat)
    (G : Good ltc lte q) : Good ltc lte (q.removeOutgoing ltc lte v) := by
  have hs := ltOf_swo hc he q.costOrd
  have := removeFold_good hs (q.lk.getD v []) q.heap G.inv G.wf
  exact ⟨this.1, this.2⟩

theorem setOrder_good (ltc lte : K → K → Bool) (q : RQ K) (b : Bool) (G : Good ltc lte q) :
    Good ltc lte (q.setOrder b) := by
  unfold RQ.setOrder
  split
  · rename_i h0
    refine ⟨?_, G.wf⟩
    intro c hc
    simp only at hc
    omega
  · exact G

theorem step_good {ltc lte : K → K → Bool} (hc : SWO ltc) (he : SWO lte) (keyFn : W → Nat → Nat → K)
    (σ : Sys K W) (op : ROp W) (G : Good ltc lte σ.q) : Good ltc lte (σ.step ltc lte keyFn op).q := by
  cases op with
  | world w => exact G
  | addState => exact ⟨G.inv, G.wf⟩
  | ins s t => exact insertOrUpdate_good hc he keyFn σ.w σ.q s t G
  | insv es => exact insertMany_good hc he keyFn σ.w es σ.q G
  | pop => exact pop_good hc he σ.q G
  | clear => exact clear_good ltc lte σ.q
  | rebuild => exact rebuild_good hc he keyFn σ.w σ.q
  | rmv v => exact removeOutgoing_good hc he σ.q v G
  | order b => exact setOrder_good ltc lte σ.q b G

theorem run_good {ltc lte : K → K → Bool} (hc : SWO ltc) (he : SWO lte) (keyFn : W → Nat → Nat → K)
    (ops : List (ROp W)) (σ : Sys K W) (G : Good ltc lte σ.q) : Good ltc lte (σ.run ltc lte keyFn ops).q := by
  unfold Sys.run
  induction ops generalizing σ with
  | nil => exact G
  | cons op ops ih => exact ih _ (step_good hc he keyFn σ op G)

/-! ### the stored key is the key of the fields at the time the queue was told -/

theorem targetOf_live (a : Array (Elem (RKey K))) (h t : Nat) (H : targetOf a h = some t) :
    ∃ e ∈ a.toList, e.h = h ∧ e.key.t = t := by
  unfold targetOf at H
  split at H
  · rename_i p hp
    obtain ⟨hps, hh⟩ := findIdx_spec _ _ _ hp
    rw [Array.getElem?_eq_getElem hps] at H
    simp only [Option.map_some, Option.some.injEq] at H
    exact ⟨a[p], by simp, hh, H⟩
  · exact absurd H (by simp)

theorem findHandle_live (a : Array (Elem (RKey K))) (lk : List Nat) (t h : Nat) (H : findHandle a lk t = some h) :
    ∃ e ∈ a.toList, e.h = h ∧ e.key.t = t := by
  unfold findHandle at H
  have := List.find?_some H
  simp only [beq_iff_eq] at this
  exact targetOf_live a h t this

/-- after `insertOrUpdate(s,t)` in world `w` the queue holds an element for that edge whose stored key is `keyFn w s t`
(whether it was inserted or updated in place), and nothing else changed: the contents are the old ones with the element
behind the found handle replaced, resp. with the new element added under a fresh handle. -/
theorem insertOrUpdate_spec (ltc lte : K → K → Bool) (keyFn : W → Nat → Nat → K) (w : W) (q : RQ K) (s t : Nat)
    (Wq : Wf q.heap) :
    (∃ h, findHandle q.heap.arr (q.lk.getD s []) t = some h ∧
        (q.insertOrUpdate ltc lte keyFn w s t).heap.arr.toList.Perm
          (q.heap.arr.toList.map (fun e => if e.h = h then ⟨h, ⟨keyFn w s t, s, t⟩⟩ else e)) ∧
        (∃ e ∈ q.heap.arr.toList, e.h = h)) ∨
    (findHandle q.heap.arr (q.lk.getD s []) t = none ∧
        (q.insertOrUpdate ltc lte keyFn w s t).heap.arr.toList.Perm
          (⟨q.heap.next, ⟨keyFn w s t, s, t⟩⟩ :: q.heap.arr.toList)) := by
  unfold RQ.insertOrUpdate
  cases hf : findHandle q.heap.arr (q.lk.getD s []) t with
  | some h =>
    left
    obtain ⟨e, he, heh, _⟩ := findHandle_live _ _ _ _ hf
    exact ⟨h, rfl, setKey_spec_live _ q.heap h _ Wq ⟨e, he, heh⟩, ⟨e, he, heh⟩⟩
  | none =>
    right
    exact ⟨rfl, insert_perm _ q.heap _⟩

theorem insertOrUpdate_fresh (ltc lte : K → K → Bool) (keyFn : W → Nat → Nat → K) (w : W) (q : RQ K) (s t : Nat)
    (Wq : Wf q.heap) :
    ∃ e ∈ (q.insertOrUpdate ltc lte keyFn w s t).heap.arr.toList, e.key.k = keyFn w s t ∧ e.key.s = s ∧ e.key.t = t := by
  rcases insertOrUpdate_spec ltc lte keyFn w q s t Wq with ⟨h, _, hp, ⟨e, he, heh⟩⟩ | ⟨_, hp⟩
  · refine ⟨⟨h, ⟨keyFn w s t, s, t⟩⟩, hp.mem_iff.mpr ?_, rfl, rfl, rfl⟩
    exact List.mem_map.mpr ⟨e, he, by simp [heh]⟩
  · exact ⟨_, hp.mem_iff.mpr (List.mem_cons_self ..), rfl, rfl, rfl⟩

/-- every stored key equals the key computed from the fields of world `w` -/
def AllFresh (keyFn : W → Nat → Nat → K) (w : W) (q : RQ K) : Prop :=
  ∀ e ∈ q.heap.arr.toList, e.key.k = keyFn w e.key.s e.key.t

theorem insertOrUpdate_allFresh (ltc lte : K → K → Bool) (keyFn : W → Nat → Nat → K) (w : W) (q : RQ K) (s t : Nat)
    (Wq : Wf q.heap) (F : AllFresh keyFn w q) : AllFresh keyFn w (q.insertOrUpdate ltc lte keyFn w s t) := by
  intro e he
  rcases insertOrUpdate_spec ltc lte keyFn w q s t Wq with ⟨h, _, hp, _⟩ | ⟨_, hp⟩
  · obtain ⟨e0, he0, rfl⟩ := List.mem_map.mp (hp.mem_iff.mp he)
    by_cases hh : e0.h = h
    · simp [hh]
    · simp only [hh, ↓reduceIte]; exact F e0 he0
  · rcases List.mem_cons.mp (hp.mem_iff.mp he) with rfl | h1
    · rfl
    · exact F e h1

theorem insertMany_allFresh {ltc lte : K → K → Bool} (hc : SWO ltc) (he : SWO lte) (keyFn : W → Nat → Nat → K) (w : W)
    (es : List (Nat × Nat)) (q : RQ K) (G : Good ltc lte q) (F : AllFresh keyFn w q) :
    AllFresh keyFn w (q.insertMany ltc lte keyFn w es) := by
  unfold RQ.insertMany
  induction es generalizing q with
  | nil => exact F
  | cons e es ih =>
    exact ih _ (insertOrUpdate_good hc he keyFn w q e.1 e.2 G) (insertOrUpdate_allFresh ltc lte keyFn w q e.1 e.2 G.wf F)

theorem rebuild_allFresh {ltc lte : K → K → Bool} (hc : SWO ltc) (he : SWO lte) (keyFn : W → Nat → Nat → K) (w : W)
    (q : RQ K) : AllFresh keyFn w (q.rebuild ltc lte keyFn w) := by
  apply insertMany_allFresh hc he keyFn w _ _ (clear_good ltc lte q)
  intro e he'
  simp [RQ.clear, Heap.clear] at he'

theorem ltCost_swo : SWO ltCost := by
  constructor
  · intro a b h
    unfold ltCost at *
    split at h <;> (try split at h) <;> split <;> (try split) <;> simp_all <;> omega
  · intro a b c h1 h2
    unfold ltCost at *
    split at h1 <;> (try split at h1) <;> split at h2 <;> (try split at h2) <;> split <;> (try split) <;> simp_all <;> omega

theorem ltEffort_swo : SWO ltEffort := by
  constructor
  · intro a b h
    unfold ltEffort at *
    split at h <;> (try split at h) <;> (try split at h) <;> split <;> (try split) <;> (try split) <;> simp_all <;> omega
  · intro a b c h1 h2
    unfold ltEffort at *
    split at h1 <;> (try split at h1) <;> (try split at h1) <;> split at h2 <;> (try split at h2) <;> (try split at h2) <;>
      split <;> (try split) <;> (try split) <;> simp_all <;> omega

end OmplModel.RevQ
